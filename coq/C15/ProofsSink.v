(* C15: the filter buffer in front of a bounded sink: what reaches the sink is exactly the first `room`
   bytes of the whole conversion, and the ok flag says whether everything fitted. *)
From CppcmsV Require Import Base.Tac Base.CSem Base.Sweep C15.Defs C15.Proofs C15.ProofsFilter.
Local Open Scope N_scope.

(* ------------------------------------------------------------------ list helpers *)
Lemma firstn_app_le {A} (n : nat) (a b : list A) : (n <= length a)%nat -> firstn n (a ++ b) = firstn n a.
Proof.
  intros H. rewrite firstn_app. replace (n - length a)%nat with 0%nat by lia.
  cbn [firstn]. apply app_nil_r.
Qed.

Lemma leb_eq a b c d : ((a <= b)%nat <-> (c <= d)%nat) -> Nat.leb a b = Nat.leb c d.
Proof.
  intros H. destruct (Nat.leb_spec a b), (Nat.leb_spec c d); try reflexivity; lia.
Qed.

(* ------------------------------------------------------------------ 1. escape_stream *)
Lemma escape_stream_exact room s :
  escape_stream room s = (firstn room (escape s), Nat.leb (length (escape s)) room).
Proof.
  revert room. induction s as [|c s IH]; intros room.
  - cbn [escape_stream]. change (escape []) with (@nil N). rewrite firstn_nil. reflexivity.
  - cbn [escape_stream]. change (escape (c :: s)) with (esc1 c ++ escape s).
    generalize (esc1 c). intros e.
    destruct (Nat.leb_spec (length e) room) as [L|L].
    + rewrite IH. rewrite firstn_app, (firstn_all2 e) by exact L.
      f_equal. apply leb_eq. rewrite app_length. lia.
    + rewrite firstn_app_le by lia. f_equal.
      symmetry. apply Nat.leb_gt. rewrite app_length. lia.
Qed.

(* ------------------------------------------------------------------ 2. filter buffer + bounded sink *)
Section Sink.
  Variable F : list N -> list N.
  Variable room : nat.
  Hypothesis Hadd : forall a b, F (a ++ b) = F a ++ F b.

  (* st is a state reached after the bytes d were fed *)
  Definition sink_inv (st : list N * list N * bool) (d : list N) : Prop :=
    match st with
    | (sink, buf, failed) =>
        if failed then sink = firstn room (F d) /\ (room < length (F d))%nat
        else sink ++ F buf = F d /\ (length sink <= room)%nat
    end.

  Lemma sink_inv_init : sink_inv ([], [], false) [].
  Proof. cbn [sink_inv app length]. split; [reflexivity|lia]. Qed.

  Lemma sink_inv_putc st d c : sink_inv st d -> sink_inv (fbs_putc F room st c) (d ++ [c]).
  Proof.
    destruct st as [[sink buf] failed]. unfold fbs_putc, sink_inv. destruct failed.
    - intros [H1 H2]. rewrite Hadd, app_length. split; [|lia].
      rewrite firstn_app_le by lia. exact H1.
    - intros [H1 H2]. destruct (Nat.ltb (length buf) fb_cap).
      + split; [|exact H2]. rewrite !Hadd, app_assoc, H1. reflexivity.
      + unfold fbs_conv. destruct (Nat.leb_spec (length sink + length (F buf)) room) as [L|L].
        * split; [rewrite Hadd, <- H1; reflexivity|]. rewrite app_length. exact L.
        * rewrite Hadd, <- H1, !app_length. split; [|lia].
          rewrite (firstn_app_le room (sink ++ F buf)); [reflexivity|]. rewrite app_length. lia.
  Qed.

  Lemma sink_inv_write piece : forall st d, sink_inv st d -> sink_inv (fbs_write F room st piece) (d ++ piece).
  Proof.
    unfold fbs_write. induction piece as [|c r IH]; intros st d H; cbn [fold_left].
    - rewrite app_nil_r. exact H.
    - replace (d ++ c :: r) with ((d ++ [c]) ++ r) by (rewrite <- app_assoc; reflexivity).
      apply IH. apply sink_inv_putc. exact H.
  Qed.

  Lemma sink_inv_pieces pieces : forall st d,
    sink_inv st d -> sink_inv (fold_left (fbs_write F room) pieces st) (d ++ concat pieces).
  Proof.
    induction pieces as [|p ps IH]; intros st d H; cbn [fold_left concat].
    - rewrite app_nil_r. exact H.
    - rewrite app_assoc. apply IH. apply sink_inv_write. exact H.
  Qed.

  Lemma sink_inv_release st d : sink_inv st d ->
    fbs_release F room st = (firstn room (F d), Nat.leb (length (F d)) room).
  Proof.
    destruct st as [[sink buf] failed]. unfold sink_inv, fbs_release, fbs_conv. destruct failed.
    - intros [H1 H2].
      replace (Nat.leb (length (F d)) room) with false by (symmetry; apply Nat.leb_gt; exact H2).
      rewrite H1. reflexivity.
    - intros [H1 H2]. rewrite <- H1, app_length.
      destruct (Nat.leb_spec (length sink + length (F buf)) room) as [L|L].
      + rewrite firstn_all2 by (rewrite app_length; exact L). reflexivity.
      + reflexivity.
  Qed.


  Lemma fbs_run_additive_sec pieces :
    fbs_run F room pieces = (firstn room (F (concat pieces)), Nat.leb (length (F (concat pieces))) room).
  Proof.
    unfold fbs_run. apply (sink_inv_release _ (concat pieces)).
    change (concat pieces) with ([] ++ concat pieces). apply sink_inv_pieces. exact sink_inv_init.
  Qed.
End Sink.

Lemma fbs_run_additive (F : list N -> list N) (room : nat) :
  (forall a b, F (a ++ b) = F a ++ F b) -> forall pieces,
  fbs_run F room pieces = (firstn room (F (concat pieces)), Nat.leb (length (F (concat pieces))) room).
Proof. intros H pieces. apply fbs_run_additive_sec. exact H. Qed.

(* ------------------------------------------------------------------ 3. corollaries *)
Lemma filter_escape_sink_exact room pieces :
  filter_escape_sink room pieces =
  (firstn room (escape (concat pieces)), Nat.leb (length (escape (concat pieces))) room).
Proof. unfold filter_escape_sink. apply fbs_run_additive. exact escape_app. Qed.

Lemma filter_urlencode_sink_exact room pieces :
  filter_urlencode_sink room pieces =
  (firstn room (urlencode (concat pieces)), Nat.leb (length (urlencode (concat pieces))) room).
Proof. unfold filter_urlencode_sink. apply fbs_run_additive. exact urlencode_app. Qed.

Lemma filter_sink_prefix room pieces :
  exists rest, escape (concat pieces) = fst (filter_escape_sink room pieces) ++ rest /\
               (snd (filter_escape_sink room pieces) = true -> rest = []).
Proof.
  rewrite filter_escape_sink_exact. cbn [fst snd].
  exists (skipn room (escape (concat pieces))). split.
  - symmetry. apply firstn_skipn.
  - intros H. apply Nat.leb_le in H. apply skipn_all2. exact H.
Qed.


(* ---- after the repairs dd45f86 / 80bcd05 *)
(* success is reported exactly when the whole encoding reached the sink *)
Lemma firstn_all_iff (A : Type) n (l : list A) : firstn n l = l <-> (length l <= n)%nat.
Proof.
  split; intros H.
  - rewrite <- H, firstn_length. lia.
  - apply firstn_all2. exact H.
Qed.
Lemma urlencode_stream_reports room s :
  urlencode_stream room s = (firstn room (urlencode s), Nat.leb (length (urlencode s)) room) /\
  (snd (urlencode_stream room s) = true <-> fst (urlencode_stream room s) = urlencode s).
Proof.
  split; [reflexivity|]. unfold urlencode_stream. cbn [fst snd].
  rewrite Nat.leb_le. symmetry. apply firstn_all_iff.
Qed.

Lemma filter_stream_ok_exact room pieces :
  filter_escape_stream_ok room pieces = Nat.leb (length (escape (concat pieces))) room /\
  filter_urlencode_stream_ok room pieces = Nat.leb (length (urlencode (concat pieces))) room /\
  filter_base64_stream_ok room pieces = Nat.leb (length (b64encode (concat pieces))) room.
Proof.
  unfold filter_escape_stream_ok, filter_urlencode_stream_ok, filter_base64_stream_ok.
  rewrite filter_escape_sink_exact, filter_urlencode_sink_exact. repeat split; reflexivity.
Qed.

(* a stream that has failed before the filter: every byte of the value is dropped, nothing reaches the sink, failure *)
Lemma fbs_failed_putc F room sink buf c : fbs_putc F room (sink, buf, true) c = (sink, buf, true).
Proof. reflexivity. Qed.
Lemma fbs_failed_write F room piece : forall sink buf, fbs_write F room (sink, buf, true) piece = (sink, buf, true).
Proof. induction piece as [|c p IH]; intros sink buf; [reflexivity|]. cbn [fbs_write fold_left]. rewrite fbs_failed_putc. apply IH. Qed.
Lemma fbs_failed_pieces F room pieces : forall sink buf,
  fold_left (fbs_write F room) pieces (sink, buf, true) = (sink, buf, true).
Proof. induction pieces as [|p ps IH]; intros sink buf; [reflexivity|]. cbn [fold_left]. rewrite fbs_failed_write. apply IH. Qed.
Lemma fbs_run_failed_nothing (F : list N -> list N) (room : nat) :
  (forall a b, F (a ++ b) = F a ++ F b) -> forall pieces, fbs_run_failed F room pieces = ([], false).
Proof.
  intros Hadd pieces. unfold fbs_run_failed. rewrite fbs_failed_pieces. reflexivity.
Qed.
Lemma filter_on_failed_stream_nothing v :
  filter_on_failed_stream escape v = ([], false) /\ filter_on_failed_stream urlencode v = ([], false) /\
  filter_base64_on_failed_stream v = ([], false).
Proof.
  unfold filter_on_failed_stream. rewrite (fbs_run_failed_nothing escape 0 escape_app), (fbs_run_failed_nothing urlencode 0 urlencode_app).
  repeat split; reflexivity.
Qed.
