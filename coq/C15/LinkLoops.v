(* C15: the LOOPS of the codecs, rebuilt from the loop bodies that tools/cxx2v.py regenerates from the current
   source (coq/gen/Gen_util.v, coq/gen/Gen_c15x.v), are equal to the model functions of Defs.v for ALL inputs.
   What stays hand-written here is only the loop skeleton (how the body is iterated):
     while(b!=e){ char c=*b++; body }                      = flat_map step                    (escape x2, urlencode)
     for(;b<e;b++){ char c=*b; body with b[1],b[2],b+=2 }  = gx_urldecode_loop                (urldecode)
     while(e-b>=3){block(b,t,3);b+=3;t+=4} tail            = g_b64encode_loop                 (b64url::encode x2)
     while(e-b>=4){block(b,t,4);b+=4;t+=3} tail            = g_b64decode_loop                 (b64url::decode)  *)
From CppcmsV Require Import Base.Tac Base.CSem Base.CSemFacts Base.Sweep C15.Defs C15.Link gen.Gen_util gen.Gen_b64 gen.Gen_c15x.
Local Open Scope N_scope.

Definition sgn (b : N) : Z := wraps 8 (Z.of_N b).   (* a byte read through a (signed) char *)

Lemma zs2ns_app a b : zs2ns (a ++ b) = zs2ns a ++ zs2ns b.
Proof. unfold zs2ns. apply map_app. Qed.

(* ------------------------------------------------------------------ per-byte transducer loops *)
Definition g_loop (step : Z -> list Z) (s : list N) : list N := zs2ns (flat_map step (map Z.of_N s)).

Lemma g_loop_flat step f s :
  (forall b, b < 256 -> zs2ns (step (Z.of_N b)) = f b) -> bytes_ok s -> g_loop step s = flat_map f s.
Proof.
  intros Hstep. unfold g_loop. induction s as [|c s IH]; intros H; [reflexivity|].
  apply bytes_ok_cons in H. destruct H as [Hc Hs].
  cbn [map flat_map]. rewrite zs2ns_app, (Hstep c Hc), (IH Hs). reflexivity.
Qed.

Lemma link_escape_sb_step b : b < 256 -> zs2ns (gx_escape_sb_step (Z.of_N b)) = esc1 b.
Proof.
  intros H. apply leqb_eq.
  apply (sweep256 (fun b => leqb (zs2ns (gx_escape_sb_step (Z.of_N b))) (esc1 b))); [vm_compute; reflexivity|exact H].
Qed.

Lemma link_escape_loop s : bytes_ok s -> g_loop g_escape_step s = escape s.
Proof. apply g_loop_flat. exact link_escape_step. Qed.
Lemma link_escape_sb_loop s : bytes_ok s -> g_loop gx_escape_sb_step s = escape s.
Proof. apply g_loop_flat. exact link_escape_sb_step. Qed.
Lemma link_urlencode_loop s : bytes_ok s -> g_loop g_urlencode_step s = urlencode s.
Proof. apply g_loop_flat. exact link_urlencode_step. Qed.

(* ------------------------------------------------------------------ urldecode: two bytes of lookahead *)
Fixpoint gx_urldecode_loop (fuel : nat) (s : list Z) : list Z :=
  match fuel with
  | O => []
  | S f =>
    match s with
    | [] => []
    | c :: r =>
        let avail := Z.of_nat (length s) in          (* end - begin *)
        let b1 := nth 0 r 0%Z in                     (* begin[1], begin[2]: only inspected when avail >= 3 *)
        let b2 := nth 1 r 0%Z in
        let e := gx_ud_emit c avail b1 b2 in
        (if (e <? 0)%Z then [] else [e]) ++ gx_urldecode_loop f (skipn (Z.to_nat (gx_ud_skip c avail b1 b2)) r)
    end
  end.
Definition g_urldecode (s : list N) : list N := zs2ns (gx_urldecode_loop (length s) (map sgn s)).

Lemma sgn_eqb b k : b < 256 -> (k = 43 \/ k = 37)%Z -> Z.eqb (sgn b) k = (b =? Z.to_N k).
Proof.
  intros H [->| ->]; apply eqb_prop.
  - apply (sweep256 (fun b => eqb (Z.eqb (sgn b) 43) (b =? Z.to_N 43))); [vm_compute; reflexivity|exact H].
  - apply (sweep256 (fun b => eqb (Z.eqb (sgn b) 37) (b =? Z.to_N 37))); [vm_compute; reflexivity|exact H].
Qed.

Lemma sgn_back b : b < 256 -> wrapu 8 (sgn b) = Z.of_N b.
Proof.
  intros H. apply Z.eqb_eq.
  apply (sweep256 (fun b => Z.eqb (wrapu 8 (sgn b)) (Z.of_N b))); [vm_compute; reflexivity|exact H].
Qed.

Lemma link_gx_xdigit b : b < 256 -> gx_xdigit (sgn b) = xdigit b.
Proof.
  intros H. apply eqb_prop.
  apply (sweep256 (fun b => eqb (gx_xdigit (sgn b)) (xdigit b))); [vm_compute; reflexivity|exact H].
Qed.

(* the value sscanf("%x") leaves for two hex digits, after the char(value) conversion and the append to the string *)
Lemma link_hex2 a b : a < 256 -> b < 256 -> xdigit a && xdigit b = true ->
  wrapu 8 (wraps 8 (gx_hex2 (sgn a) (sgn b))) = Z.of_N (hexval a * 16 + hexval b).
Proof.
  intros Ha Hb X.
  pose proof (sweep256_2 (fun a b => implb (xdigit a && xdigit b)
     (Z.eqb (wrapu 8 (wraps 8 (gx_hex2 (sgn a) (sgn b)))) (Z.of_N (hexval a * 16 + hexval b))))
     ltac:(vm_compute; reflexivity) a b Ha Hb) as P.
  cbv beta in P. rewrite X in P. cbn [implb] in P. apply Z.eqb_eq. exact P.
Qed.

Lemma zs2ns_cons_ofN v l : zs2ns (Z.of_N v :: l) = v :: zs2ns l.
Proof. unfold zs2ns. cbn [map]. rewrite N2Z.id. reflexivity. Qed.

Lemma ofN_not_neg v : (Z.of_N v <? 0)%Z = false.
Proof. apply Z.ltb_ge. lia. Qed.

Lemma gx_loop_nil n : gx_urldecode_loop n [] = [].
Proof. destruct n; reflexivity. Qed.

Lemma link_urldecode_aux n : forall s, (length s <= n)%nat -> bytes_ok s ->
  zs2ns (gx_urldecode_loop n (map sgn s)) = urldecode s.
Proof.
  induction n as [|n IH]; intros s Hl Hs.
  - destruct s; [reflexivity|cbn [length] in Hl; lia].
  - destruct s as [|c r]; [reflexivity|].
    apply bytes_ok_cons in Hs. destruct Hs as [Hc Hr].
    cbn [length] in Hl.
    cbn [gx_urldecode_loop map]. cbv zeta. unfold gx_ud_emit, gx_ud_skip. cbv zeta.
    rewrite (sgn_eqb c 43 Hc ltac:(auto)), (sgn_eqb c 37 Hc ltac:(auto)).
    change (Z.to_N 43) with 43. change (Z.to_N 37) with 37.
    cbn [urldecode].
    destruct (c =? 43).
    { cbn [Z.ltb Z.compare Z.to_nat skipn app]. change 32%Z with (Z.of_N 32).
      rewrite zs2ns_cons_ofN. f_equal. apply IH; [lia|exact Hr]. }
    destruct (c =? 37).
    { destruct r as [|h1 [|h2 r2]].
      - cbn. rewrite gx_loop_nil. reflexivity.
      - cbn [map length nth]. change (Z.geb (Z.of_nat 2) 3) with false. cbn [andb].
        cbn [Z.ltb Z.compare Z.to_nat skipn app]. apply (IH [h1]); [cbn [length] in *; lia|exact Hr].
      - apply bytes_ok_cons in Hr. destruct Hr as [H1 Hr]. apply bytes_ok_cons in Hr. destruct Hr as [H2 Hr2].
        cbn [map nth]. rewrite (link_gx_xdigit h1 H1), (link_gx_xdigit h2 H2).
        replace (Z.geb (Z.of_nat (length (sgn c :: sgn h1 :: sgn h2 :: map sgn r2))) 3) with true
          by (symmetry; rewrite Z.geb_leb; apply Z.leb_le; cbn [length]; lia).
        cbn [andb]. destruct (xdigit h1 && xdigit h2) eqn:X.
        + rewrite (link_hex2 h1 h2 H1 H2 X). rewrite ofN_not_neg.
          cbn [Z.to_nat Pos.to_nat Pos.iter_op Nat.add skipn app].
          rewrite zs2ns_cons_ofN. f_equal. apply IH; [cbn [length] in *; lia|exact Hr2].
        + cbn [Z.ltb Z.compare Z.to_nat skipn app].
          apply (IH (h1 :: h2 :: r2)); [cbn [length] in *; lia|].
          apply bytes_ok_cons; split; [exact H1|]. apply bytes_ok_cons; split; assumption. }
    rewrite (sgn_back c Hc), ofN_not_neg. cbn [Z.to_nat skipn app].
    rewrite zs2ns_cons_ofN. f_equal. apply IH; [lia|exact Hr].
Qed.

Lemma link_urldecode_loop s : bytes_ok s -> g_urldecode s = urldecode s.
Proof. intros H. unfold g_urldecode. apply link_urldecode_aux; [lia|exact H]. Qed.

(* ------------------------------------------------------------------ base64url block functions *)
Notation zb := Z.of_N.

(* a block call writes out[0..n-1]; the functions for the outputs that a call does not write return -1 *)
Definition g_benc_block (a b c len : Z) : list Z :=
  firstn (Z.to_nat (gx_benc_n a b c len))
         [gx_benc_o0 a b c len; gx_benc_o1 a b c len; gx_benc_o2 a b c len; gx_benc_o3 a b c len].
Definition g_bdec_block (a b c d len : Z) : list Z :=
  firstn (Z.to_nat (gx_bdec_n a b c d len))
         [gx_bdec_o0 a b c d len; gx_bdec_o1 a b c d len; gx_bdec_o2 a b c d len].

Lemma sw_benc_o0 a : a < 256 -> Z.to_N (gx_benc_o0 (zb a) 0 0 3) = enc6 (a / 4).
Proof.
  intros H. apply N.eqb_eq.
  apply (sweep256 (fun a => Z.to_N (gx_benc_o0 (zb a) 0 0 3) =? enc6 (a / 4))); [vm_compute; reflexivity|exact H].
Qed.
Lemma sw_benc_o1 a b : a < 256 -> b < 256 -> Z.to_N (gx_benc_o1 (zb a) (zb b) 0 3) = enc6 (a mod 4 * 16 + b / 16).
Proof.
  intros Ha Hb. apply N.eqb_eq.
  apply (sweep256_2 (fun a b => Z.to_N (gx_benc_o1 (zb a) (zb b) 0 3) =? enc6 (a mod 4 * 16 + b / 16)));
    [vm_compute; reflexivity|exact Ha|exact Hb].
Qed.
Lemma sw_benc_o1_tail a : a < 256 -> Z.to_N (gx_benc_o1 (zb a) 0 0 1) = enc6 (a mod 4 * 16).
Proof.
  intros H. apply N.eqb_eq.
  apply (sweep256 (fun a => Z.to_N (gx_benc_o1 (zb a) 0 0 1) =? enc6 (a mod 4 * 16))); [vm_compute; reflexivity|exact H].
Qed.
Lemma sw_benc_o2 b c : b < 256 -> c < 256 -> Z.to_N (gx_benc_o2 0 (zb b) (zb c) 3) = enc6 (b mod 16 * 4 + c / 64).
Proof.
  intros Hb Hc. apply N.eqb_eq.
  apply (sweep256_2 (fun b c => Z.to_N (gx_benc_o2 0 (zb b) (zb c) 3) =? enc6 (b mod 16 * 4 + c / 64)));
    [vm_compute; reflexivity|exact Hb|exact Hc].
Qed.
Lemma sw_benc_o2_tail b : b < 256 -> Z.to_N (gx_benc_o2 0 (zb b) 0 2) = enc6 (b mod 16 * 4).
Proof.
  intros H. apply N.eqb_eq.
  apply (sweep256 (fun b => Z.to_N (gx_benc_o2 0 (zb b) 0 2) =? enc6 (b mod 16 * 4))); [vm_compute; reflexivity|exact H].
Qed.
Lemma sw_benc_o3 c : c < 256 -> Z.to_N (gx_benc_o3 0 0 (zb c) 3) = enc6 (c mod 64).
Proof.
  intros H. apply N.eqb_eq.
  apply (sweep256 (fun c => Z.to_N (gx_benc_o3 0 0 (zb c) 3) =? enc6 (c mod 64))); [vm_compute; reflexivity|exact H].
Qed.

Ltac blk :=
  unfold zs2ns;
  repeat match goal with
         | |- context [Z.to_nat ?k] => let v := eval vm_compute in (Z.to_nat k) in change (Z.to_nat k) with v
         end;
  cbn [firstn map].

(* a full block: bencode(begin,target,3) *)
Lemma link_benc_block3 a b c : a < 256 -> b < 256 -> c < 256 ->
  zs2ns (g_benc_block (zb a) (zb b) (zb c) 3) = benc3 a b c.
Proof.
  intros Ha Hb Hc. unfold g_benc_block, benc3.
  change (gx_benc_n (zb a) (zb b) (zb c) 3) with 4%Z.
  change (gx_benc_o0 (zb a) (zb b) (zb c) 3) with (gx_benc_o0 (zb a) 0 0 3).
  change (gx_benc_o1 (zb a) (zb b) (zb c) 3) with (gx_benc_o1 (zb a) (zb b) 0 3).
  change (gx_benc_o2 (zb a) (zb b) (zb c) 3) with (gx_benc_o2 0 (zb b) (zb c) 3).
  change (gx_benc_o3 (zb a) (zb b) (zb c) 3) with (gx_benc_o3 0 0 (zb c) 3).
  blk.
  rewrite sw_benc_o0, sw_benc_o1, sw_benc_o2, sw_benc_o3 by assumption. reflexivity.
Qed.
(* the tails: bencode(begin,target,end-begin) with 2 or 1 bytes left; the bytes behind the end are not looked at *)
Lemma link_benc_block2 a b x : a < 256 -> b < 256 ->
  zs2ns (g_benc_block (zb a) (zb b) x 2) = benc2 a b.
Proof.
  intros Ha Hb. unfold g_benc_block, benc2.
  change (gx_benc_n (zb a) (zb b) x 2) with 3%Z.
  change (gx_benc_o0 (zb a) (zb b) x 2) with (gx_benc_o0 (zb a) 0 0 3).
  change (gx_benc_o1 (zb a) (zb b) x 2) with (gx_benc_o1 (zb a) (zb b) 0 3).
  change (gx_benc_o2 (zb a) (zb b) x 2) with (gx_benc_o2 0 (zb b) 0 2).
  blk.
  rewrite sw_benc_o0, sw_benc_o1, sw_benc_o2_tail by assumption. reflexivity.
Qed.
Lemma link_benc_block1 a x y : a < 256 ->
  zs2ns (g_benc_block (zb a) x y 1) = benc1 a.
Proof.
  intros Ha. unfold g_benc_block, benc1.
  change (gx_benc_n (zb a) x y 1) with 2%Z.
  change (gx_benc_o0 (zb a) x y 1) with (gx_benc_o0 (zb a) 0 0 3).
  change (gx_benc_o1 (zb a) x y 1) with (gx_benc_o1 (zb a) 0 0 1).
  blk.
  rewrite sw_benc_o0, sw_benc_o1_tail by assumption. reflexivity.
Qed.

Fixpoint g_b64encode_loop (s : list Z) : list Z :=
  match s with
  | a :: b :: c :: r => g_benc_block a b c 3 ++ g_b64encode_loop r
  | [a; b] => g_benc_block a b 0 2
  | [a] => g_benc_block a 0 0 1
  | [] => []
  end.
Definition g_b64encode (s : list N) : list N := zs2ns (g_b64encode_loop (map zb s)).

Lemma link_b64encode_aux n : forall s, (length s <= n)%nat -> bytes_ok s -> g_b64encode s = b64encode s.
Proof.
  unfold g_b64encode.
  induction n as [|n IH]; intros s Hl Hs.
  - destruct s; [reflexivity|cbn [length] in Hl; lia].
  - destruct s as [|a [|b [|c r]]].
    + reflexivity.
    + apply bytes_ok_cons in Hs. destruct Hs as [Ha _].
      cbn [map g_b64encode_loop b64encode]. apply link_benc_block1. exact Ha.
    + apply bytes_ok_cons in Hs. destruct Hs as [Ha Hs]. apply bytes_ok_cons in Hs. destruct Hs as [Hb _].
      cbn [map g_b64encode_loop b64encode]. apply link_benc_block2; assumption.
    + apply bytes_ok_cons in Hs. destruct Hs as [Ha Hs]. apply bytes_ok_cons in Hs. destruct Hs as [Hb Hs].
      apply bytes_ok_cons in Hs. destruct Hs as [Hc Hr].
      change (b64encode (a :: b :: c :: r)) with (benc3 a b c ++ b64encode r).
      change (g_b64encode_loop (map zb (a :: b :: c :: r)))
        with (g_benc_block (zb a) (zb b) (zb c) 3 ++ g_b64encode_loop (map zb r)).
      rewrite zs2ns_app, link_benc_block3 by assumption. f_equal.
      apply IH; [cbn [length] in Hl; lia|exact Hr].
Qed.
Lemma link_b64encode_loop s : bytes_ok s -> g_b64encode s = b64encode s.
Proof. apply (link_b64encode_aux (length s)). lia. Qed.

(* ---- bdecode *)
Lemma sw_bdec_o0 a b : a < 256 -> b < 256 -> Z.to_N (gx_bdec_o0 (zb a) (zb b) 0 0 4) = bdec_o0 (dec6 a) (dec6 b).
Proof.
  intros Ha Hb. apply N.eqb_eq.
  apply (sweep256_2 (fun a b => Z.to_N (gx_bdec_o0 (zb a) (zb b) 0 0 4) =? bdec_o0 (dec6 a) (dec6 b)));
    [vm_compute; reflexivity|exact Ha|exact Hb].
Qed.
Lemma sw_bdec_o1 b c : b < 256 -> c < 256 -> Z.to_N (gx_bdec_o1 0 (zb b) (zb c) 0 4) = bdec_o1 (dec6 b) (dec6 c).
Proof.
  intros Hb Hc. apply N.eqb_eq.
  apply (sweep256_2 (fun b c => Z.to_N (gx_bdec_o1 0 (zb b) (zb c) 0 4) =? bdec_o1 (dec6 b) (dec6 c)));
    [vm_compute; reflexivity|exact Hb|exact Hc].
Qed.
Lemma sw_bdec_o2 c d : c < 256 -> d < 256 -> Z.to_N (gx_bdec_o2 0 0 (zb c) (zb d) 4) = bdec_o2 (dec6 c) (dec6 d).
Proof.
  intros Hc Hd. apply N.eqb_eq.
  apply (sweep256_2 (fun c d => Z.to_N (gx_bdec_o2 0 0 (zb c) (zb d) 4) =? bdec_o2 (dec6 c) (dec6 d)));
    [vm_compute; reflexivity|exact Hc|exact Hd].
Qed.
(* the one-symbol tail (the length decoded_size calls invalid): only the first symbol is decoded, three bytes are written *)
Lemma sw_bdec_tail1 a : a < 256 ->
  zs2ns [gx_bdec_o0 (zb a) 0 0 0 1; gx_bdec_o1 (zb a) 0 0 0 1; gx_bdec_o2 (zb a) 0 0 0 1] = [bdec_o0 (dec6 a) 0; 0; 0].
Proof.
  intros H. apply leqb_eq.
  apply (sweep256 (fun a => leqb (zs2ns [gx_bdec_o0 (zb a) 0 0 0 1; gx_bdec_o1 (zb a) 0 0 0 1; gx_bdec_o2 (zb a) 0 0 0 1])
                                 [bdec_o0 (dec6 a) 0; 0; 0])); [vm_compute; reflexivity|exact H].
Qed.

Lemma link_bdec_block4 a b c d : a < 256 -> b < 256 -> c < 256 -> d < 256 ->
  zs2ns (g_bdec_block (zb a) (zb b) (zb c) (zb d) 4)
  = [bdec_o0 (dec6 a) (dec6 b); bdec_o1 (dec6 b) (dec6 c); bdec_o2 (dec6 c) (dec6 d)].
Proof.
  intros Ha Hb Hc Hd. unfold g_bdec_block.
  change (gx_bdec_n (zb a) (zb b) (zb c) (zb d) 4) with 3%Z.
  change (gx_bdec_o0 (zb a) (zb b) (zb c) (zb d) 4) with (gx_bdec_o0 (zb a) (zb b) 0 0 4).
  change (gx_bdec_o1 (zb a) (zb b) (zb c) (zb d) 4) with (gx_bdec_o1 0 (zb b) (zb c) 0 4).
  change (gx_bdec_o2 (zb a) (zb b) (zb c) (zb d) 4) with (gx_bdec_o2 0 0 (zb c) (zb d) 4).
  blk.
  rewrite sw_bdec_o0, sw_bdec_o1, sw_bdec_o2 by assumption. reflexivity.
Qed.
Lemma link_bdec_block3 a b c x : a < 256 -> b < 256 -> c < 256 ->
  zs2ns (g_bdec_block (zb a) (zb b) (zb c) x 3) = [bdec_o0 (dec6 a) (dec6 b); bdec_o1 (dec6 b) (dec6 c)].
Proof.
  intros Ha Hb Hc. unfold g_bdec_block.
  change (gx_bdec_n (zb a) (zb b) (zb c) x 3) with 2%Z.
  change (gx_bdec_o0 (zb a) (zb b) (zb c) x 3) with (gx_bdec_o0 (zb a) (zb b) 0 0 4).
  change (gx_bdec_o1 (zb a) (zb b) (zb c) x 3) with (gx_bdec_o1 0 (zb b) (zb c) 0 4).
  blk.
  rewrite sw_bdec_o0, sw_bdec_o1 by assumption. reflexivity.
Qed.
Lemma link_bdec_block2 a b x y : a < 256 -> b < 256 ->
  zs2ns (g_bdec_block (zb a) (zb b) x y 2) = [bdec_o0 (dec6 a) (dec6 b)].
Proof.
  intros Ha Hb. unfold g_bdec_block.
  change (gx_bdec_n (zb a) (zb b) x y 2) with 1%Z.
  change (gx_bdec_o0 (zb a) (zb b) x y 2) with (gx_bdec_o0 (zb a) (zb b) 0 0 4).
  blk.
  rewrite sw_bdec_o0 by assumption. reflexivity.
Qed.
Lemma link_bdec_block1 a x y z : a < 256 ->
  zs2ns (g_bdec_block (zb a) x y z 1) = [bdec_o0 (dec6 a) 0; 0; 0].
Proof.
  intros Ha. unfold g_bdec_block.
  change (gx_bdec_n (zb a) x y z 1) with 3%Z.
  change (gx_bdec_o0 (zb a) x y z 1) with (gx_bdec_o0 (zb a) 0 0 0 1).
  change (gx_bdec_o1 (zb a) x y z 1) with (gx_bdec_o1 (zb a) 0 0 0 1).
  change (gx_bdec_o2 (zb a) x y z 1) with (gx_bdec_o2 (zb a) 0 0 0 1).
  change (Z.to_nat 3) with 3%nat. cbn [firstn].
  apply sw_bdec_tail1. exact Ha.
Qed.

Fixpoint g_b64decode_loop (s : list Z) : list Z :=
  match s with
  | a :: b :: c :: d :: r => g_bdec_block a b c d 4 ++ g_b64decode_loop r
  | [a; b; c] => g_bdec_block a b c 0 3
  | [a; b] => g_bdec_block a b 0 0 2
  | [a] => g_bdec_block a 0 0 0 1
  | [] => []
  end.
Definition g_b64decode (s : list N) : list N := zs2ns (g_b64decode_loop (map zb s)).

Lemma link_b64decode_aux n : forall s, (length s <= n)%nat -> bytes_ok s -> g_b64decode s = b64decode s.
Proof.
  unfold g_b64decode.
  induction n as [|n IH]; intros s Hl Hs.
  - destruct s; [reflexivity|cbn [length] in Hl; lia].
  - destruct s as [|a [|b [|c [|d r]]]].
    + reflexivity.
    + apply bytes_ok_cons in Hs. destruct Hs as [Ha _].
      cbn [map g_b64decode_loop b64decode]. apply link_bdec_block1. exact Ha.
    + apply bytes_ok_cons in Hs. destruct Hs as [Ha Hs]. apply bytes_ok_cons in Hs. destruct Hs as [Hb _].
      cbn [map g_b64decode_loop b64decode]. apply link_bdec_block2; assumption.
    + apply bytes_ok_cons in Hs. destruct Hs as [Ha Hs]. apply bytes_ok_cons in Hs. destruct Hs as [Hb Hs].
      apply bytes_ok_cons in Hs. destruct Hs as [Hc _].
      cbn [map g_b64decode_loop b64decode]. apply link_bdec_block3; assumption.
    + apply bytes_ok_cons in Hs. destruct Hs as [Ha Hs]. apply bytes_ok_cons in Hs. destruct Hs as [Hb Hs].
      apply bytes_ok_cons in Hs. destruct Hs as [Hc Hs]. apply bytes_ok_cons in Hs. destruct Hs as [Hd Hr].
      change (b64decode (a :: b :: c :: d :: r))
        with ([bdec_o0 (dec6 a) (dec6 b); bdec_o1 (dec6 b) (dec6 c); bdec_o2 (dec6 c) (dec6 d)] ++ b64decode r).
      change (g_b64decode_loop (map zb (a :: b :: c :: d :: r)))
        with (g_bdec_block (zb a) (zb b) (zb c) (zb d) 4 ++ g_b64decode_loop (map zb r)).
      rewrite zs2ns_app, link_bdec_block4 by assumption. f_equal.
      apply IH; [cbn [length] in Hl; lia|exact Hr].
Qed.
Lemma link_b64decode_loop s : bytes_ok s -> g_b64decode s = b64decode s.
Proof. apply (link_b64decode_aux (length s)). lia. Qed.

(* the copies of the table and of encode_8_to_6 in the pre-processed unit are the ones of src/base64.cpp *)
Lemma link_gx_table : gx_alphabet = g_b64_alphabet /\ forall c, gx_dec6 c = g_b64_dec6 c.
Proof. split; reflexivity. Qed.
