(* C15: base64url canonical encodings: decode is a left inverse of encode on every byte string (Proofs.v), and
   encode is a left inverse of decode exactly on the canonical strings; outside of them decode is not injective. *)
From CppcmsV Require Import Base.Tac Base.CSem Base.Sweep C15.Defs C15.Proofs.
Local Open Scope N_scope.

(* ------------------------------------------------------------------ symbols *)
Lemma b64_alphabet_ok_byte c : b64_alphabet_ok c = true -> c < 256.
Proof. unfold b64_alphabet_ok. lia. Qed.

Lemma enc6_dec6 c : b64_alphabet_ok c = true -> enc6 (dec6 c) = c /\ dec6 c < 64.
Proof.
  intros H. pose proof (b64_alphabet_ok_byte c H) as Hc.
  assert (forallb (fun c => implb (b64_alphabet_ok c) ((enc6 (dec6 c) =? c) && (dec6 c <? 64))) bytesN = true) as S
    by (vm_compute; reflexivity).
  pose proof (sweep256 _ S c Hc) as P. cbv beta in P. rewrite H in P. cbn [implb] in P.
  apply andb_true_iff in P. destruct P as [P1 P2]. apply N.eqb_eq in P1. apply N.ltb_lt in P2. auto.
Qed.

Lemma dec6_lt64 c : dec6 c < 64.
Proof.
  unfold dec6.
  destruct ((65 <=? c) && (c <=? 90)) eqn:E1; [lia|].
  destruct ((97 <=? c) && (c <=? 122)) eqn:E2; [lia|].
  destruct ((48 <=? c) && (c <=? 57)) eqn:E3; [lia|].
  destruct (c =? 45); [lia|]. destruct (c =? 95); lia.
Qed.

(* ------------------------------------------------------------------ decode output is bytes *)
Lemma bdec_bytes i0 i1 i2 i3 : i1 < 64 -> i2 < 64 -> i3 < 64 ->
  bdec_o0 i0 i1 < 256 /\ bdec_o1 i1 i2 < 256 /\ bdec_o2 i2 i3 < 256.
Proof. intros H1 H2 H3. unfold bdec_o0, bdec_o1, bdec_o2. repeat split; lia. Qed.

Lemma b64decode_bytes_ok_aux n : forall s, (length s <= n)%nat -> bytes_ok (b64decode s).
Proof.
  induction n as [|n IH]; intros s Hl.
  - destruct s; [constructor|simpl in Hl; lia].
  - destruct s as [|a [|b [|c [|d r]]]].
    + constructor.
    + cbn [b64decode]. destruct (bdec_bytes (dec6 a) 0 0 0) as (H0 & _); try lia.
      repeat (apply bytes_ok_cons; split; [assumption || lia|]). constructor.
    + cbn [b64decode].
      destruct (bdec_bytes (dec6 a) (dec6 b) 0 0 (dec6_lt64 b)) as (H0 & _); try lia.
      apply bytes_ok_cons; split; [assumption|constructor].
    + cbn [b64decode].
      destruct (bdec_bytes (dec6 a) (dec6 b) (dec6 c) 0 (dec6_lt64 b) (dec6_lt64 c)) as (H0 & H1 & _); try lia.
      apply bytes_ok_cons; split; [assumption|]. apply bytes_ok_cons; split; [assumption|constructor].
    + rewrite b64decode_block. apply bytes_ok_app. split.
      * destruct (bdec_bytes (dec6 a) (dec6 b) (dec6 c) (dec6 d) (dec6_lt64 b) (dec6_lt64 c) (dec6_lt64 d))
          as (H0 & H1 & H2).
        apply bytes_ok_cons; split; [assumption|]. apply bytes_ok_cons; split; [assumption|].
        apply bytes_ok_cons; split; [assumption|constructor].
      * apply IH. cbn [length] in Hl. lia.
Qed.
Lemma b64decode_bytes_ok s : bytes_ok (b64decode s).
Proof. apply (b64decode_bytes_ok_aux (length s)). lia. Qed.

(* ------------------------------------------------------------------ canonical strings: encode . decode = id *)
Lemma benc3_bdec i0 i1 i2 i3 : i0 < 64 -> i1 < 64 -> i2 < 64 -> i3 < 64 ->
  benc3 (bdec_o0 i0 i1) (bdec_o1 i1 i2) (bdec_o2 i2 i3) = [enc6 i0; enc6 i1; enc6 i2; enc6 i3].
Proof.
  intros H0 H1 H2 H3. unfold benc3, bdec_o0, bdec_o1, bdec_o2.
  f_equal; [f_equal; lia|]. f_equal; [f_equal; lia|]. f_equal; [f_equal; lia|]. f_equal. f_equal. lia.
Qed.

Lemma benc2_bdec i0 i1 i2 : i0 < 64 -> i1 < 64 -> i2 < 64 -> i2 mod 4 = 0 ->
  benc2 (bdec_o0 i0 i1) (bdec_o1 i1 i2) = [enc6 i0; enc6 i1; enc6 i2].
Proof.
  intros H0 H1 H2 H3. unfold benc2, bdec_o0, bdec_o1.
  f_equal; [f_equal; lia|]. f_equal; [f_equal; lia|]. f_equal. f_equal. lia.
Qed.

Lemma benc1_bdec i0 i1 : i0 < 64 -> i1 < 64 -> i1 mod 16 = 0 ->
  benc1 (bdec_o0 i0 i1) = [enc6 i0; enc6 i1].
Proof.
  intros H0 H1 H2. unfold benc1, bdec_o0.
  f_equal; [f_equal; lia|]. f_equal. f_equal. lia.
Qed.

Lemma len4_mod4 (a b c d : N) r :
  N.of_nat (length (a :: b :: c :: d :: r)) mod 4 = N.of_nat (length r) mod 4.
Proof. cbn [length]. lia. Qed.

Lemma last_drop4 (a b c d e : N) r : last (a :: b :: c :: d :: e :: r) 0 = last (e :: r) 0.
Proof. reflexivity. Qed.

Lemma last_sym_ok_drop4 a b c d r : r <> [] -> last_sym_ok (a :: b :: c :: d :: r) = last_sym_ok r.
Proof.
  intros H. destruct r as [|e r]; [congruence|].
  unfold last_sym_ok. rewrite len4_mod4, last_drop4. reflexivity.
Qed.

Lemma last_sym_ok_tail4 a b c d r : last_sym_ok (a :: b :: c :: d :: r) = true -> last_sym_ok r = true.
Proof.
  destruct r as [|e r]; [reflexivity|]. rewrite last_sym_ok_drop4 by discriminate. auto.
Qed.

Lemma last_sym_ok_cons4 a b c d r : last_sym_ok r = true -> last_sym_ok (a :: b :: c :: d :: r) = true.
Proof.
  destruct r as [|e r]; [reflexivity|]. rewrite last_sym_ok_drop4 by discriminate. auto.
Qed.

Lemma b64_canonical_roundtrip_aux n : forall s, (length s <= n)%nat ->
  forallb b64_alphabet_ok s = true -> N.of_nat (length s) mod 4 <> 1 -> last_sym_ok s = true ->
  b64encode (b64decode s) = s.
Proof.
  induction n as [|n IH]; intros s Hl Ha Hm Hk.
  - destruct s; [reflexivity|simpl in Hl; lia].
  - destruct s as [|a [|b [|c [|d r]]]].
    + reflexivity.
    + exfalso. apply Hm. reflexivity.
    + cbn [forallb] in Ha. apply andb_true_iff in Ha. destruct Ha as [Aa Ha].
      apply andb_true_iff in Ha. destruct Ha as [Ab _].
      destruct (enc6_dec6 a Aa) as [Ea La]. destruct (enc6_dec6 b Ab) as [Eb Lb].
      unfold last_sym_ok in Hk. cbn in Hk. apply N.eqb_eq in Hk.
      cbn [b64decode b64encode]. rewrite benc1_bdec by assumption. rewrite Ea, Eb. reflexivity.
    + cbn [forallb] in Ha. apply andb_true_iff in Ha. destruct Ha as [Aa Ha].
      apply andb_true_iff in Ha. destruct Ha as [Ab Ha]. apply andb_true_iff in Ha. destruct Ha as [Ac _].
      destruct (enc6_dec6 a Aa) as [Ea La]. destruct (enc6_dec6 b Ab) as [Eb Lb].
      destruct (enc6_dec6 c Ac) as [Ec Lc].
      unfold last_sym_ok in Hk. cbn in Hk. apply N.eqb_eq in Hk.
      cbn [b64decode b64encode]. rewrite benc2_bdec by assumption. rewrite Ea, Eb, Ec. reflexivity.
    + rewrite len4_mod4 in Hm. apply last_sym_ok_tail4 in Hk.
      cbn [forallb] in Ha. apply andb_true_iff in Ha. destruct Ha as [Aa Ha].
      apply andb_true_iff in Ha. destruct Ha as [Ab Ha]. apply andb_true_iff in Ha. destruct Ha as [Ac Ha].
      apply andb_true_iff in Ha. destruct Ha as [Ad Ha].
      destruct (enc6_dec6 a Aa) as [Ea La]. destruct (enc6_dec6 b Ab) as [Eb Lb].
      destruct (enc6_dec6 c Ac) as [Ec Lc]. destruct (enc6_dec6 d Ad) as [Ed Ld].
      rewrite b64decode_block. cbn [app].
      change (b64encode (bdec_o0 (dec6 a) (dec6 b) :: bdec_o1 (dec6 b) (dec6 c) :: bdec_o2 (dec6 c) (dec6 d) :: b64decode r))
        with (benc3 (bdec_o0 (dec6 a) (dec6 b)) (bdec_o1 (dec6 b) (dec6 c)) (bdec_o2 (dec6 c) (dec6 d))
              ++ b64encode (b64decode r)).
      rewrite benc3_bdec by assumption. rewrite Ea, Eb, Ec, Ed.
      rewrite IH; [reflexivity| cbn [length] in Hl; lia | exact Ha | exact Hm | exact Hk].
Qed.

Lemma b64_canonical_parts s : b64_canonical s = true <->
  forallb b64_alphabet_ok s = true /\ N.of_nat (length s) mod 4 <> 1 /\ last_sym_ok s = true.
Proof.
  unfold b64_canonical. rewrite !andb_true_iff, negb_true_iff, N.eqb_neq. tauto.
Qed.

Lemma b64_canonical_roundtrip s : b64_canonical s = true -> b64encode (b64decode s) = s.
Proof.
  intros H. apply b64_canonical_parts in H. destruct H as (H1 & H2 & H3).
  apply (b64_canonical_roundtrip_aux (length s)); auto.
Qed.

(* ------------------------------------------------------------------ the encoder only produces canonical strings *)
Lemma encoded_size_mod4 n : encoded_size n mod 4 <> 1.
Proof.
  unfold encoded_size.
  destruct (n mod 3) as [|[[p|p|]|[p|p|]|]]; lia.
Qed.

Lemma b64encode_last_ok_aux n : forall s, (length s <= n)%nat -> bytes_ok s -> last_sym_ok (b64encode s) = true.
Proof.
  induction n as [|n IH]; intros s Hl Hs.
  - destruct s; [reflexivity|simpl in Hl; lia].
  - destruct s as [|a [|b [|c r]]].
    + reflexivity.
    + apply bytes_ok_cons in Hs. destruct Hs as [Ha _].
      cbn [b64encode]. unfold benc1, last_sym_ok. cbn [length last].
      change (N.of_nat 2 mod 4) with 2.
      assert (a mod 4 * 16 < 64) as A1 by lia.
      rewrite (proj1 (dec6_enc6 _ A1)). apply N.eqb_eq. lia.
    + apply bytes_ok_cons in Hs. destruct Hs as [Ha Hs]. apply bytes_ok_cons in Hs. destruct Hs as [Hb _].
      cbn [b64encode]. unfold benc2, last_sym_ok. cbn [length last].
      change (N.of_nat 3 mod 4) with 3.
      assert (b mod 16 * 4 < 64) as A2 by lia.
      rewrite (proj1 (dec6_enc6 _ A2)). apply N.eqb_eq. lia.
    + apply bytes_ok_cons in Hs. destruct Hs as [Ha Hs]. apply bytes_ok_cons in Hs. destruct Hs as [Hb Hs].
      apply bytes_ok_cons in Hs. destruct Hs as [Hc Hr].
      change (b64encode (a :: b :: c :: r)) with (benc3 a b c ++ b64encode r).
      unfold benc3. cbn [app]. apply last_sym_ok_cons4.
      apply IH; [cbn [length] in Hl; lia | exact Hr].
Qed.

Lemma b64_encode_canonical s : bytes_ok s -> b64_canonical (b64encode s) = true.
Proof.
  intros H. apply b64_canonical_parts. split; [|split].
  - apply b64_alphabet. exact H.
  - rewrite encoded_size_exact. apply encoded_size_mod4.
  - apply (b64encode_last_ok_aux (length s)); [lia|exact H].
Qed.

(* ------------------------------------------------------------------ consequences *)
Lemma b64_decode_injective_on_canonical s1 s2 :
  b64_canonical s1 = true -> b64_canonical s2 = true -> b64decode s1 = b64decode s2 -> s1 = s2.
Proof.
  intros H1 H2 E.
  rewrite <- (b64_canonical_roundtrip s1 H1), <- (b64_canonical_roundtrip s2 H2), E. reflexivity.
Qed.

Lemma decode_str_some s b : decode_str s = Some b -> b = b64decode s.
Proof.
  unfold decode_str. destruct (decoded_size (N.of_nat (length s))); [|discriminate].
  intros H. injection H as H. auto.
Qed.

Lemma decode_str_canonical s b : decode_str s = Some b -> (b64encode b = s <-> b64_canonical s = true).
Proof.
  intros H. apply decode_str_some in H. subst b. split.
  - intros E. rewrite <- E. apply b64_encode_canonical. apply b64decode_bytes_ok.
  - apply b64_canonical_roundtrip.
Qed.

(* ------------------------------------------------------------------ what decode accepts besides canonical strings *)
Lemma b64_decode_accepts_stray_bits :
  decode_str [81;82] = Some [65] /\ decode_str [81;81] = Some [65] /\ b64encode [65] = [81;81].
Proof. vm_compute. repeat split; reflexivity. Qed.

Lemma b64_decode_accepts_non_alphabet :
  decode_str [81;61;43;47] = decode_str [81;65;65;65] /\ b64_alphabet_ok 61 = false.
Proof. vm_compute. split; reflexivity. Qed.

Lemma b64_decode_not_injective : exists s1 s2 b,
  s1 <> s2 /\ forallb b64_alphabet_ok s1 = true /\ forallb b64_alphabet_ok s2 = true /\
  decode_str s1 = Some b /\ decode_str s2 = Some b.
Proof.
  exists [81;82], [81;81], [65]. split; [discriminate|]. vm_compute. repeat split; reflexivity.
Qed.

(* ---- how many bytes the pointer variant of decode writes, for EVERY input length (also the length decoded_size
   calls invalid: the one-symbol tail makes bdecode write three bytes) *)
Definition decode_write_count (n : N) : N :=
  n / 4 * 3 + match n mod 4 with 0 => 0 | 1 => 3 | 2 => 1 | _ => 2 end.

Lemma b64decode_length_aux n : forall s, (length s <= n)%nat ->
  N.of_nat (length (b64decode s)) = decode_write_count (N.of_nat (length s)).
Proof.
  induction n as [|n IH]; intros s Hl.
  - destruct s; [reflexivity|simpl in Hl; lia].
  - destruct s as [|a [|b [|c [|d r]]]]; try reflexivity.
    rewrite b64decode_block, app_length. cbn [length] in *.
    specialize (IH r ltac:(lia)).
    replace (N.of_nat (S (S (S (S (length r)))))) with (N.of_nat (length r) + 4) by lia.
    set (m := N.of_nat (length r)) in *. unfold decode_write_count in *.
    replace ((m + 4) mod 4) with (m mod 4) by (rewrite <- (N.mod_add m 1 4) by lia; f_equal; lia).
    replace ((m + 4) / 4) with (m / 4 + 1) by (rewrite <- (N.div_add m 1 4) by lia; f_equal; lia).
    rewrite Nat2N.inj_add, IH. change (N.of_nat 3) with 3. lia.
Qed.
Lemma b64decode_length s : N.of_nat (length (b64decode s)) = decode_write_count (N.of_nat (length s)).
Proof. apply (b64decode_length_aux (length s)). lia. Qed.

Lemma decode_write_count_valid n d : decoded_size n = Some d -> decode_write_count n = d.
Proof.
  unfold decoded_size, decode_write_count.
  pose proof (N.mod_lt n 4 ltac:(lia)) as M.
  destruct (n mod 4) as [|[[p|p|]|[p|p|]|]]; intros H; try discriminate; try lia; injection H as <-; lia.
Qed.

Lemma decode_str_rejects_exactly s : decode_str s = None <-> N.of_nat (length s) mod 4 = 1.
Proof.
  unfold decode_str, decoded_size.
  destruct (N.of_nat (length s) mod 4) as [|[[p|p|]|[p|p|]|]]; split; intros H; try discriminate; try reflexivity; try lia.
Qed.
