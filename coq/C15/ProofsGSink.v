(* C15: sinks whose failure need not be permanent (Section GenSink of Defs.v): what escape / urlencode / the filters
   deliver into an arbitrary accept-function. *)
From CppcmsV Require Import Base.Tac Base.CSem Base.Sweep C15.Defs C15.Proofs C15.ProofsFilter C15.ProofsSink.
Local Open Scope N_scope.
Notation length := List.length.

(* ------------------------------------------------------------------ G1/G2. a sequence of requests *)
Lemma calls_gs_ok acc reqs : forall idx sink i' s', calls_gs acc idx sink reqs = (i', s', true) ->
  s' = sink ++ concat reqs /\ i' = (idx + length reqs)%nat.
Proof.
  induction reqs as [|q r IH]; intros idx sink i' s' H; cbn [calls_gs] in H; cbv zeta in H.
  - inversion H; subst. cbn [concat length]. rewrite app_nil_r. split; [reflexivity|lia].
  - destruct (Nat.eqb (Nat.min (acc idx (length sink) q) (length q)) (length q)).
    + apply IH in H. destruct H as [-> ->]. cbn [concat length]. rewrite <- app_assoc. split; [reflexivity|lia].
    + discriminate H.
Qed.

Lemma calls_gs_fail acc reqs : forall idx sink i' s', calls_gs acc idx sink reqs = (i', s', false) ->
  exists pre q post k, reqs = pre ++ q :: post /\ (k < length q)%nat /\ s' = sink ++ concat pre ++ firstn k q /\
                       i' = (idx + length pre + 1)%nat.
Proof.
  induction reqs as [|q r IH]; intros idx sink i' s' H; cbn [calls_gs] in H; cbv zeta in H.
  - discriminate H.
  - destruct (Nat.eqb_spec (Nat.min (acc idx (length sink) q) (length q)) (length q)) as [E|E].
    + apply IH in H. destruct H as (pre & q' & post & k & -> & Hk & -> & ->).
      exists (q :: pre), q', post, k. cbn [concat length app]. rewrite <- !app_assoc.
      repeat split; [exact Hk|lia].
    + inversion H; subst. exists [], q, r, (Nat.min (acc idx (length sink) q) (length q)).
      cbn [concat length app]. repeat split; lia.
Qed.

Lemma calls_gs_extends acc reqs : forall idx sink i' s' b, calls_gs acc idx sink reqs = (i', s', b) ->
  exists x, s' = sink ++ x.
Proof.
  intros idx sink i' s' [|] H.
  - apply calls_gs_ok in H. destruct H as [-> _]. eexists. reflexivity.
  - apply calls_gs_fail in H. destruct H as (pre & q & post & k & _ & _ & -> & _). eexists. reflexivity.
Qed.

(* ------------------------------------------------------------------ G3. escape / urlencode into such a sink *)
Lemma concat_map_esc1 s : concat (map esc1 s) = escape s.
Proof. unfold escape. symmetry. apply flat_map_concat_map. Qed.

Lemma concat_map_single (l : list N) : concat (map (fun b => [b]) l) = l.
Proof. induction l as [|x l IH]; cbn [map concat app]; [reflexivity|]. rewrite IH. reflexivity. Qed.

Lemma escape_gs_ok acc s o : escape_gs acc s = (o, true) -> o = escape s.
Proof.
  unfold escape_gs. destruct (calls_gs acc 0 [] (map esc1 s)) as [[i s'] b] eqn:E. intros H. inversion H; subst.
  apply calls_gs_ok in E. destruct E as [-> _]. cbn [app]. apply concat_map_esc1.
Qed.

Lemma escape_gs_fail acc s o : escape_gs acc s = (o, false) ->
  exists done c rest k, s = done ++ c :: rest /\ (k < length (esc1 c))%nat /\ o = escape done ++ firstn k (esc1 c).
Proof.
  unfold escape_gs. destruct (calls_gs acc 0 [] (map esc1 s)) as [[i s'] b] eqn:E. intros H. inversion H; subst.
  apply calls_gs_fail in E. destruct E as (pre & q & post & k & Hs & Hk & -> & _).
  apply map_eq_app in Hs. destruct Hs as (l1 & l2 & -> & <- & H2).
  apply map_eq_cons in H2. destruct H2 as (c & tl & -> & <- & _).
  exists l1, c, tl, k. cbn [app]. rewrite concat_map_esc1. repeat split. exact Hk.
Qed.

Lemma urlencode_gs_ok acc s o : urlencode_gs acc s = (o, true) -> o = urlencode s.
Proof.
  unfold urlencode_gs. destruct (calls_gs acc 0 [] _) as [[i s'] b] eqn:E. intros H. inversion H; subst.
  apply calls_gs_ok in E. destruct E as [-> _]. cbn [app]. apply concat_map_single.
Qed.

Lemma urlencode_gs_fail acc s o : urlencode_gs acc s = (o, false) ->
  exists j, (j < length (urlencode s))%nat /\ o = firstn j (urlencode s).
Proof.
  unfold urlencode_gs. destruct (calls_gs acc 0 [] _) as [[i s'] b] eqn:E. intros H. inversion H; subst.
  apply calls_gs_fail in E. destruct E as (pre & q & post & k & Hs & Hk & -> & _).
  apply map_eq_app in Hs. destruct Hs as (l1 & l2 & Hu & <- & H2).
  apply map_eq_cons in H2. destruct H2 as (c & tl & -> & <- & _).
  cbn [length] in Hk. assert (k = 0%nat) by lia. subst k.
  exists (length l1). rewrite Hu. split.
  - rewrite app_length. cbn [length]. lia.
  - cbn [app firstn]. rewrite concat_map_single, app_nil_r.
    rewrite firstn_app, firstn_all, Nat.sub_diag. cbn [firstn]. rewrite app_nil_r. reflexivity.
Qed.

Lemma escape_gs_prefix acc s : exists rest, escape s = fst (escape_gs acc s) ++ rest /\
  (snd (escape_gs acc s) = true -> rest = []) /\ (snd (escape_gs acc s) = false -> rest <> []).
Proof.
  destruct (escape_gs acc s) as [o [|]] eqn:E; cbn [fst snd].
  - apply escape_gs_ok in E. subst o. exists []. rewrite app_nil_r. split; [reflexivity|split; [reflexivity|discriminate]].
  - apply escape_gs_fail in E. destruct E as (dn & c & rest & k & -> & Hk & ->).
    exists (skipn k (esc1 c) ++ escape rest). split; [|split; [discriminate|]].
    + rewrite escape_app. change (c :: rest) with ([c] ++ rest). rewrite escape_app.
      unfold escape at 2. cbn [flat_map]. rewrite app_nil_r, <- !app_assoc. f_equal.
      rewrite app_assoc, firstn_skipn. reflexivity.
    + intros _ Hn. apply (f_equal (@length N)) in Hn. rewrite app_length, skipn_length in Hn. cbn [length] in Hn. lia.
Qed.

Lemma urlencode_gs_prefix acc s : exists rest, urlencode s = fst (urlencode_gs acc s) ++ rest /\
  (snd (urlencode_gs acc s) = true -> rest = []) /\ (snd (urlencode_gs acc s) = false -> rest <> []).
Proof.
  destruct (urlencode_gs acc s) as [o [|]] eqn:E; cbn [fst snd].
  - apply urlencode_gs_ok in E. subst o. exists []. rewrite app_nil_r. split; [reflexivity|split; [reflexivity|discriminate]].
  - apply urlencode_gs_fail in E. destruct E as (j & Hj & ->).
    exists (skipn j (urlencode s)). split; [|split; [discriminate|]].
    + symmetry. apply firstn_skipn.
    + intros _ Hn. apply (f_equal (@length N)) in Hn. rewrite skipn_length in Hn. cbn [length] in Hn. lia.
Qed.

(* ------------------------------------------------------------------ G4. the bounded sink is an instance *)
Lemma esc1_nonempty c : (1 <= length (esc1 c))%nat.
Proof. unfold esc1. repeat match goal with |- context [if ?b then _ else _] => destruct b end; cbn [length]; lia. Qed.

Lemma calls_gs_bounded room s : forall idx sink, exists i,
  calls_gs (acc_of (SBounded room)) idx sink (map esc1 s) =
  (i, sink ++ fst (escape_stream (room - length sink) s), snd (escape_stream (room - length sink) s)).
Proof.
  induction s as [|c r IH]; intros idx sink; cbn [map calls_gs escape_stream]; cbv zeta.
  - exists idx. cbn [fst snd]. rewrite app_nil_r. reflexivity.
  - change (acc_of (SBounded room) idx (length sink) (esc1 c)) with (room - length sink)%nat.
    destruct (Nat.leb_spec (length (esc1 c)) (room - length sink)) as [L|L].
    + rewrite Nat.min_r by exact L. rewrite Nat.eqb_refl.
      destruct (IH (S idx) (sink ++ esc1 c)) as [i Hi]. exists i. rewrite Hi.
      rewrite app_length, Nat.sub_add_distr.
      destruct (escape_stream (room - length sink - length (esc1 c)) r) as [o ok]. cbn [fst snd].
      rewrite <- app_assoc. reflexivity.
    + rewrite Nat.min_l by lia.
      destruct (Nat.eqb_spec (room - length sink) (length (esc1 c))) as [E|E]; [lia|].
      exists (S idx). cbn [fst snd]. reflexivity.
Qed.

Lemma escape_gs_bounded room s : escape_gs (acc_of (SBounded room)) s = escape_stream room s.
Proof.
  unfold escape_gs. destruct (calls_gs_bounded room s 0%nat []) as [i Hi]. rewrite Hi.
  cbn [length app]. rewrite Nat.sub_0_r. destruct (escape_stream room s). reflexivity.
Qed.

(* ------------------------------------------------------------------ G5/G6. filterbuf in front of such a sink *)
Definition call_prefix (reqs : list (list N)) (p : list N) : Prop :=
  exists pre q post k, reqs = pre ++ q :: post /\ (k < length q)%nat /\ p = concat pre ++ firstn k q.

Lemma call_prefix_ext reqs more p : call_prefix reqs p -> call_prefix (reqs ++ more) p.
Proof.
  intros (pre & q & post & k & -> & Hk & ->). exists pre, q, (post ++ more), k.
  rewrite <- app_assoc. cbn [app]. repeat split. exact Hk.
Qed.

Lemma call_prefix_pre r0 reqs p : call_prefix reqs p -> call_prefix (r0 ++ reqs) (concat r0 ++ p).
Proof.
  intros (pre & q & post & k & -> & Hk & ->). exists (r0 ++ pre), q, post, k.
  rewrite concat_app, <- !app_assoc. repeat split. exact Hk.
Qed.

Lemma calls_gs_fail_prefix acc reqs idx sink i' s' : calls_gs acc idx sink reqs = (i', s', false) ->
  exists p, call_prefix reqs p /\ s' = sink ++ p.
Proof.
  intros H. apply calls_gs_fail in H. destruct H as (pre & q & post & k & -> & Hk & -> & _).
  exists (concat pre ++ firstn k q). split; [|reflexivity]. exists pre, q, post, k. repeat split. exact Hk.
Qed.

Lemma additive_nil_ll (R : list N -> list (list N)) :
  (forall a b, R (a ++ b) = R a ++ R b) -> R [] = [].
Proof.
  intros H. pose proof (H [] []) as E. cbn [app] in E.
  apply (f_equal (@length (list N))) in E. rewrite app_length in E.
  destruct (R []) as [|x l]; [reflexivity|]. cbn [length] in E. lia.
Qed.

(* invariant of the filter state w.r.t. the bytes d fed so far *)
Definition ginv (R : list N -> list (list N)) (d : list N) (st : nat * list N * list N * bool) : Prop :=
  match st with
  | (idx, sink, buf, failed) =>
      if failed then call_prefix (R d) sink
      else exists d0, d = d0 ++ buf /\ sink = concat (R d0)
  end.

Lemma ginv_putc acc R : (forall a b, R (a ++ b) = R a ++ R b) ->
  forall d st c, ginv R d st -> ginv R (d ++ [c]) (fbg_putc acc R st c).
Proof.
  intros HR d [[[idx sink] buf] failed] c H. unfold fbg_putc. destruct failed.
  - cbn [ginv] in *. rewrite HR. apply call_prefix_ext. exact H.
  - cbn [ginv] in H. destruct H as (d0 & -> & ->).
    destruct (Nat.ltb (length buf) fb_cap).
    + cbn [ginv]. exists d0. rewrite <- app_assoc. split; reflexivity.
    + destruct (calls_gs acc idx (concat (R d0)) (R buf)) as [[i' s'] [|]] eqn:E.
      * apply calls_gs_ok in E. destruct E as [-> _]. cbn [ginv]. exists (d0 ++ buf).
        split; [reflexivity|]. rewrite HR, concat_app. reflexivity.
      * apply calls_gs_fail_prefix in E. destruct E as (p & Hp & ->). cbn [ginv].
        rewrite HR, HR. apply call_prefix_ext. apply call_prefix_pre. exact Hp.
Qed.

Lemma ginv_write acc R : (forall a b, R (a ++ b) = R a ++ R b) ->
  forall piece d st, ginv R d st -> ginv R (d ++ piece) (fbg_write acc R st piece).
Proof.
  intros HR. unfold fbg_write. induction piece as [|c r IH]; intros d st H; cbn [fold_left].
  - rewrite app_nil_r. exact H.
  - change (c :: r) with ([c] ++ r). rewrite app_assoc. apply IH. apply ginv_putc; assumption.
Qed.

Lemma ginv_pieces acc R : (forall a b, R (a ++ b) = R a ++ R b) ->
  forall pieces d st, ginv R d st -> ginv R (d ++ concat pieces) (fold_left (fbg_write acc R) pieces st).
Proof.
  intros HR. induction pieces as [|p ps IH]; intros d st H; cbn [fold_left concat].
  - rewrite app_nil_r. exact H.
  - rewrite app_assoc. apply IH. apply ginv_write; assumption.
Qed.

Lemma ginv_run acc R : (forall a b, R (a ++ b) = R a ++ R b) ->
  forall pieces, ginv R (concat pieces) (fold_left (fbg_write acc R) pieces (0%nat, [], [], false)).
Proof.
  intros HR pieces. change (concat pieces) with ([] ++ concat pieces). apply ginv_pieces; [exact HR|].
  cbn [ginv]. exists []. split; [reflexivity|]. rewrite (additive_nil_ll R HR). reflexivity.
Qed.

Lemma fbg_run_ok acc (R : list N -> list (list N)) : (forall a b, R (a ++ b) = R a ++ R b) ->
  forall pieces sink rel, fbg_run acc R pieces = (sink, true, rel) -> sink = concat (R (concat pieces)).
Proof.
  intros HR pieces sink rel H. unfold fbg_run in H. pose proof (ginv_run acc R HR pieces) as I.
  destruct (fold_left (fbg_write acc R) pieces (0%nat, [], [], false)) as [[[idx sk] buf] failed].
  unfold fbg_release in H. destruct failed; [discriminate|].
  destruct (calls_gs acc idx sk (R buf)) as [[i' s'] ok] eqn:E.
  inversion H; subst.
  cbn [ginv] in I. destruct I as (d0 & -> & ->).
  apply calls_gs_ok in E. destruct E as [-> _]. rewrite HR, concat_app. reflexivity.
Qed.

Lemma R_escape_additive a b : R_escape (a ++ b) = R_escape a ++ R_escape b.
Proof. unfold R_escape. apply map_app. Qed.
Lemma R_urlencode_additive a b : R_urlencode (a ++ b) = R_urlencode a ++ R_urlencode b.
Proof. unfold R_urlencode. rewrite urlencode_app. apply map_app. Qed.

Lemma filter_escape_gs_ok acc pieces sink rel :
  fbg_run acc R_escape pieces = (sink, true, rel) -> sink = escape (concat pieces).
Proof.
  intros H. apply (fbg_run_ok acc R_escape R_escape_additive) in H. rewrite H. apply concat_map_esc1.
Qed.

Lemma filter_urlencode_gs_ok acc pieces sink rel :
  fbg_run acc R_urlencode pieces = (sink, true, rel) -> sink = urlencode (concat pieces).
Proof.
  intros H. apply (fbg_run_ok acc R_urlencode R_urlencode_additive) in H. rewrite H. apply concat_map_single.
Qed.

(* failure through the filter buffer: the sink holds EXACTLY the requests accepted before the first refused one (and the
   accepted part of that one) - nothing after it - and release() reports the failure; for values of any length *)
Lemma fbg_run_fail acc R : (forall a b, R (a ++ b) = R a ++ R b) ->
  forall pieces sink rel, fbg_run acc R pieces = (sink, false, rel) ->
  call_prefix (R (concat pieces)) sink /\ rel = false.
Proof.
  intros HR pieces sink rel H. unfold fbg_run in H. pose proof (ginv_run acc R HR pieces) as I.
  destruct (fold_left (fbg_write acc R) pieces (0%nat, [], [], false)) as [[[idx sk] buf] failed].
  unfold fbg_release in H. destruct failed.
  - inversion H; subst. cbn [ginv] in I. split; [exact I|reflexivity].
  - destruct (calls_gs acc idx sk (R buf)) as [[i' s'] ok] eqn:E. inversion H; subst.
    cbn [ginv] in I. destruct I as (d0 & -> & ->).
    apply calls_gs_fail_prefix in E. destruct E as (p & Hp & ->).
    split; [|reflexivity]. rewrite HR. apply call_prefix_pre. exact Hp.
Qed.
(* the status flags agree: release() returns 0 exactly when the stream is good *)
Lemma fbg_run_flags acc R pieces sink st rel : fbg_run acc R pieces = (sink, st, rel) -> st = rel.
Proof.
  unfold fbg_run. destruct (fold_left (fbg_write acc R) pieces (0%nat, [], [], false)) as [[[idx sk] buf] failed].
  unfold fbg_release. destruct failed; [intros H; inversion H; reflexivity|].
  destruct (calls_gs acc idx sk (R buf)) as [[i' s'] ok]. intros H; inversion H; reflexivity.
Qed.
Lemma filter_escape_gs_fail acc pieces sink rel : fbg_run acc R_escape pieces = (sink, false, rel) ->
  exists done c rest k, concat pieces = done ++ c :: rest /\ (k < length (esc1 c))%nat /\
                        sink = escape done ++ firstn k (esc1 c).
Proof.
  intros H. apply (fbg_run_fail acc R_escape R_escape_additive) in H. destruct H as [(pre & q & post & k & E & Hk & ->) _].
  unfold R_escape in E. apply map_eq_app in E. destruct E as (done & tl & Ed & <- & E2).
  destruct tl as [|c rest]; [discriminate|]. cbn [map] in E2. injection E2 as <- _.
  exists done, c, rest, k. split; [exact Ed|]. split; [exact Hk|]. rewrite concat_map_esc1. reflexivity.
Qed.

(* ------------------------------------------------------------------ G7. closed examples *)
(* "ab<c" into an all-or-nothing sink with budget 3: the entity is refused and escape stops *)
Lemma escape_gs_all_or_nothing_example : escape_gs (acc_of (SAllOrNothing 3)) [97;98;60;99] = ([97;98], false).
Proof. vm_compute. reflexivity. Qed.

(* regression witness of the repaired defect 4925ae6: bytes 65..204 (none special) through the escape filter into a sink that
   refuses call number 100 once: the first 100 bytes are delivered, the flush of the 128-byte put area fails at call 100,
   and nothing more reaches the sink (before the repair release() delivered the put area again: 228 bytes, rel = true) *)
Lemma filter_gs_no_redelivery_example :
  fbg_run (acc_of (SKthFails 100)) R_escape [map (fun n => N.of_nat n + 65) (seq 0 140)]
  = (map (fun n => N.of_nat n + 65) (seq 0 100), false, false).
Proof. vm_compute. reflexivity. Qed.
