(* C15 step 5: the rendering skeleton of the single-slot widgets.  The rendered HTML is  A ++ escape v ++ B  with A, B
   independent of the value; A ends with the opener of the slot context of that widget kind and B starts with its
   terminator; so an HTML tokenizer positioned at the slot reads exactly escape v, and the number of markup
   delimiters in the whole rendering does not depend on the value. *)
From Coq Require Import String.
From CppcmsV Require Import Base.Tac Base.CSem Base.Sweep C15.Defs C15.Proofs C15.ProofsFilter.
Local Open Scope N_scope.
Notation length := List.length.

Ltac kind_cases kind S :=
  destruct kind as [|kind]; [|do 5 (try destruct kind as [kind|kind|])];
  try (exfalso; clear -S; unfold render_supported in S; apply N.ltb_lt in S; lia).

Lemma render_b_unsupported kind x t e : render_supported kind = false -> render_b kind x t e = None.
Proof.
  intros S. unfold render_supported in S. apply N.ltb_ge in S.
  destruct kind as [|kind]; [lia|]. do 5 (try destruct kind as [kind|kind|]); try lia; reflexivity.
Qed.

Ltac split_case := vm_compute; reflexivity.

(* the slot text enters the rendering in exactly one place *)
Lemma render_b_split kind x t e : render_supported kind = true ->
  render_b kind x t e =
  Some (firstn (slot_pos kind x t) (render_or_nil (render_b kind x t [])) ++ e ++
        skipn (slot_pos kind x t) (render_or_nil (render_b kind x t []))).
Proof.
  intros S. kind_cases kind S; destruct x, t; split_case.
Qed.

(* element text: the slot is outside any tag when the last angle bracket before it is a > *)
Fixpoint outside_tag_from (st : bool) (s : list N) : bool :=
  match s with
  | [] => st
  | c :: r => if c =? 60 then outside_tag_from false r else if c =? 62 then outside_tag_from true r else outside_tag_from st r
  end.
Definition outside_tag (s : list N) : bool := outside_tag_from true s.

(* the context of the slot is the one widget_ctx says *)
Definition slot_context_ok (k : slot_ctx) (pre post : list N) : bool :=
  match k with
  | AttrDq => ends_with (slot_open AttrDq) pre && starts (slot_close AttrDq) post && negb (outside_tag pre)
  | ElemText => outside_tag pre
  end.
Lemma render_b_context kind x t : render_supported kind = true ->
  slot_context_ok (widget_ctx kind) (firstn (slot_pos kind x t) (render_or_nil (render_b kind x t [])))
                                    (skipn (slot_pos kind x t) (render_or_nil (render_b kind x t []))) = true.
Proof.
  intros S. kind_cases kind S; destruct x, t; vm_compute; reflexivity.
Qed.

Lemma starts_app p s : starts p s = true -> exists tail, s = p ++ tail.
Proof.
  revert s. induction p as [|a p IH]; intros s H; [exists s; reflexivity|].
  destruct s as [|b s]; [discriminate|]. cbn [starts] in H. apply andb_true_iff in H. destruct H as [H1 H2].
  apply N.eqb_eq in H1. subst b. destruct (IH s H2) as [tail ->]. exists tail. reflexivity.
Qed.

Lemma skipn_app_exact (A : Type) (a b : list A) : skipn (length a) (a ++ b) = b.
Proof. induction a as [|x a IH]; [reflexivity|exact IH]. Qed.

Lemma firstn_length_min (A : Type) n (l : list A) : (n <= length l)%nat -> length (firstn n l) = n.
Proof. intros H. rewrite firstn_length. lia. Qed.

(* the rendering is  pre ++ escape v ++ post  with pre/post independent of the value and the slot in the context that
   widget_ctx says; in an attribute context an HTML tokenizer that has reached the slot reads exactly the escaped value
   up to the closing quote; in a text context no tag can begin or end inside the value *)
Lemma render_full_confined kind mode v h : render_full kind mode v = Some h ->
  exists pre post, h = pre ++ escape v ++ post /\
    (forall v', render_full kind mode v' = Some (pre ++ escape v' ++ post)) /\
    slot_context_ok (widget_ctx kind) pre post = true /\
    match widget_ctx kind with
    | AttrDq => take_until 34 (escape v ++ post) = (escape v, post) /\
                unescape (fst (take_until 34 (escape v ++ post))) = v
    | ElemText => ~ In 60 (escape v) /\ ~ In 62 (escape v) /\ unescape (escape v) = v
    end.
Proof.
  unfold render_full. intros H.
  destruct (render_supported kind) eqn:S; [|rewrite (render_b_unsupported _ _ _ _ S) in H; discriminate].
  set (x := N.odd mode) in *. set (t := N.odd (mode / 2)) in *.
  rewrite (render_b_split kind x t _ S) in H. injection H as <-.
  pose proof (render_b_context kind x t S) as C.
  set (pre := firstn (slot_pos kind x t) (render_or_nil (render_b kind x t []))) in *.
  set (post := skipn (slot_pos kind x t) (render_or_nil (render_b kind x t []))) in *.
  exists pre, post. split; [reflexivity|]. split; [intros v'; apply (render_b_split kind x t _ S)|].
  split; [exact C|].
  destruct (widget_ctx kind).
  - cbn [slot_context_ok] in C. apply andb_true_iff in C. destruct C as [C _].
    apply andb_true_iff in C. destruct C as [_ C2].
    destruct (starts_app _ _ C2) as [tail E]. rewrite E.
    split; [exact (slot_confined AttrDq v tail)|exact (slot_value_recovered AttrDq v tail)].
  - split; [apply escape_no_byte; auto|]. split; [apply escape_no_byte; auto|apply unescape_escape].
Qed.

(* the number of markup delimiters in the whole rendering does not depend on the value *)
Lemma count_occ_escape d v : (d = 34 \/ d = 39 \/ d = 60 \/ d = 62) -> count_occ N.eq_dec (escape v) d = 0%nat.
Proof. intros H. apply count_occ_not_In. apply escape_no_byte. exact H. Qed.

Lemma render_full_markup_count kind mode v v' h h' d : (d = 34 \/ d = 39 \/ d = 60 \/ d = 62) ->
  render_full kind mode v = Some h -> render_full kind mode v' = Some h' ->
  count_occ N.eq_dec h d = count_occ N.eq_dec h' d.
Proof.
  intros Hd H H'. destruct (render_full_confined kind mode v h H) as [pre [post [-> [Hall _]]]].
  rewrite (Hall v') in H'. injection H' as <-.
  rewrite !count_occ_app, !(count_occ_escape d _ Hd). reflexivity.
Qed.

Example render_full_example :
  render_full 0 1 [34; 62] = Some (s2b "<p><span class=""cppcms_form_input""><input type=""text"" name=""n""  value=""&quot;&gt;"" /></span></p>"%string ++ [10]).
Proof. vm_compute. reflexivity. Qed.
