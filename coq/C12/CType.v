(* C12 proofs, part 13: content_type::parse on every well-formed header.  type "/" subtype *( OWS ";" OWS
   name OWS "=" OWS ( token / quoted-string ) ), optional white space everywhere the parser skips it:
   the media type is the lower-cased type/subtype, the parameters are exactly the (lower-cased name, value)
   pairs in order, and the boundary handed to the multipart parser is exactly the value of the first
   parameter named boundary (any case), unquoted. *)
From CppcmsV Require Import Base.Tac C12.Defs C12.Proofs C12.Roundtrip.
Local Open Scope N_scope.

Definition wsb (c : N) : bool := (c =? 32) || (c =? 9).
Definition ows (w : list N) : Prop := forallb wsb w = true.

Lemma skip_ws_ows : forall w s, ows w -> skip_ws (w ++ s) = skip_ws s.
Proof.
  induction w as [|c w IH]; intros s H; [reflexivity|].
  unfold ows in H. cbn [forallb] in H. apply andb_true_iff in H. destruct H as [Hc Hw].
  cbn [app skip_ws]. unfold wsb in Hc.
  destruct (N.eqb_spec c 13) as [E|_]; [subst c; discriminate|]. rewrite Hc. apply IH. exact Hw.
Qed.

Definition stops (s : list N) : Prop := match s with [] => True | c :: _ => tchar c = false end.

Lemma token_stops t s : forallb tchar t = true -> stops s -> token (t ++ s) = (t, s).
Proof.
  intros Ht Hs. destruct s as [|c r]; [rewrite app_nil_r; apply token_all; exact Ht|apply token_app; assumption].
Qed.
Lemma skip_ws_tok t s : t <> [] -> forallb tchar t = true -> skip_ws (t ++ s) = t ++ s.
Proof.
  intros Hne Ht. destruct t as [|c r]; [congruence|]. cbn [forallb] in Ht. apply andb_true_iff in Ht.
  cbn [app]. apply tchar_skip_ws. tauto.
Qed.
Lemma ows_stops w c s : ows w -> tchar c = false -> stops (w ++ c :: s).
Proof.
  intros Hw Hc. destruct w as [|d w]; [exact Hc|]. unfold ows in Hw. cbn [forallb] in Hw. apply andb_true_iff in Hw.
  destruct Hw as [Hd _]. cbn [app stops]. unfold wsb in Hd.
  destruct (N.eqb_spec d 32) as [E|_]; [subst d; reflexivity|]. destruct (N.eqb_spec d 9) as [E|_]; [subst d; reflexivity|discriminate].
Qed.

Inductive pvalue := VTok (v : list N) | VQuoted (v : list N).
Definition pv_val (pv : pvalue) : list N := match pv with VTok v | VQuoted v => v end.
Definition pv_enc (pv : pvalue) : list N := match pv with VTok v => v | VQuoted v => quote_str v end.
Definition pv_ok (pv : pvalue) : Prop := match pv with VTok v => v <> [] /\ forallb tchar v = true | VQuoted _ => True end.

Record cparam := mkcp { cp_w1 : list N; cp_w2 : list N; cp_w3 : list N; cp_w4 : list N; cp_name : list N; cp_value : pvalue }.
Definition cp_enc (p : cparam) : list N :=
  cp_w1 p ++ 59 :: cp_w2 p ++ cp_name p ++ cp_w3 p ++ 61 :: cp_w4 p ++ pv_enc (cp_value p).
Definition cp_ok (p : cparam) : Prop :=
  ows (cp_w1 p) /\ ows (cp_w2 p) /\ ows (cp_w3 p) /\ ows (cp_w4 p) /\
  cp_name p <> [] /\ forallb tchar (cp_name p) = true /\ pv_ok (cp_value p).

Lemma parse_value_enc pv rest : pv_ok pv -> stops rest -> parse_value (skip_ws (pv_enc pv ++ rest)) = Some (pv_val pv, rest).
Proof.
  intros Hok Hs. destruct pv as [v|v]; cbn [pv_enc pv_val pv_ok] in *.
  - destruct Hok as [Hne Ht]. rewrite skip_ws_tok by assumption.
    destruct v as [|q r]; [congruence|]. cbn [app]. unfold parse_value.
    assert (tchar q = true) as Hq by (cbn [forallb] in Ht; apply andb_true_iff in Ht; tauto).
    destruct (N.eqb_spec q 34) as [E|_]; [subst q; discriminate|].
    change (q :: r ++ rest) with ((q :: r) ++ rest). rewrite token_stops by assumption. reflexivity.
  - rewrite quote_str_eq. cbn [app]. rewrite skip_ws_nows by discriminate.
    change (34 :: (flat_map esc1 v ++ [34]) ++ rest) with ((34 :: flat_map esc1 v ++ [34]) ++ rest).
    rewrite <- quote_str_eq. apply parse_value_quoted.
Qed.

Lemma ct_pair_enc p rest : cp_ok p -> stops rest -> ct_pair (cp_enc p ++ rest) = Some (cp_name p, pv_val (cp_value p), rest).
Proof.
  intros [H1 [H2 [H3 [H4 [Hne [Ht Hv]]]]]] Hs. unfold ct_pair, cp_enc. rewrite <- !app_assoc.
  rewrite skip_ws_ows by exact H1. cbn [app]. rewrite skip_ws_nows by discriminate.
  change (59 =? 59) with true. cbn [negb]. rewrite <- !app_assoc.
  rewrite skip_ws_ows by exact H2. rewrite skip_ws_tok by assumption.
  assert (is_nil (cp_name p ++ cp_w3 p ++ (61 :: cp_w4 p ++ pv_enc (cp_value p)) ++ rest) = false) as En.
  { destruct (cp_name p); [congruence|reflexivity]. }
  rewrite En. rewrite token_stops; [|exact Ht|cbn [app]; apply ows_stops; [exact H3|reflexivity]].
  assert (is_nil (cp_name p) = false) as En2 by (destruct (cp_name p); [congruence|reflexivity]). rewrite En2.
  rewrite skip_ws_ows by exact H3. cbn [app]. rewrite skip_ws_nows by discriminate.
  change (61 =? 61) with true. cbn [negb]. rewrite <- app_assoc.
  rewrite skip_ws_ows by exact H4. rewrite parse_value_enc by assumption. reflexivity.
Qed.

Lemma cp_enc_stops p s : cp_ok p -> stops (cp_enc p ++ s).
Proof.
  intros [H1 _]. unfold cp_enc. rewrite <- app_assoc. cbn [app]. apply ows_stops; [exact H1|reflexivity].
Qed.
Lemma params_stops ps : Forall cp_ok ps -> stops (flat_map cp_enc ps).
Proof. intros H. destruct H as [|p ps Hp _]; [exact I|]. cbn [flat_map]. apply cp_enc_stops; exact Hp. Qed.

Definition cp_pair (p : cparam) : list N * list N := (map to_lower (cp_name p), pv_val (cp_value p)).

Lemma cp_enc_nonnil p s : cp_enc p ++ s <> [].
Proof. unfold cp_enc. destruct (cp_w1 p); discriminate. Qed.

Lemma ct_params_enc : forall ps fuel, Forall cp_ok ps -> (length ps < fuel)%nat ->
  ct_params fuel (flat_map cp_enc ps) = FOk (map cp_pair ps).
Proof.
  induction ps as [|p ps IH]; intros fuel Hf Hl.
  - destruct fuel; reflexivity.
  - inversion Hf as [|? ? Hp Hps]; subst. destruct fuel as [|k]; [cbn in Hl; lia|].
    cbn [flat_map ct_params].
    pose proof (cp_enc_nonnil p (flat_map cp_enc ps)) as Hnn.
    destruct (cp_enc p ++ flat_map cp_enc ps) as [|c0 r0] eqn:E; [congruence|]. rewrite <- E.
    rewrite (ct_pair_enc p _ Hp (params_stops ps Hps)).
    rewrite IH; [reflexivity|exact Hps|cbn [length] in Hl; lia].
Qed.

Lemma params_length ps : (length ps <= length (flat_map cp_enc ps))%nat.
Proof.
  induction ps as [|p ps IH]; [cbn; lia|]. cbn [flat_map length]. rewrite app_length.
  assert (1 <= length (cp_enc p))%nat. { unfold cp_enc. rewrite app_length. cbn [length]. lia. } lia.
Qed.

(* the whole header *)
Definition ct_enc (w0 ty sub : list N) (ps : list cparam) : list N := w0 ++ ty ++ 47 :: sub ++ flat_map cp_enc ps.

Lemma ct_media_enc w0 ty sub ps : ows w0 -> ty <> [] -> sub <> [] -> forallb tchar ty = true -> forallb tchar sub = true ->
  Forall cp_ok ps ->
  ct_media (ct_enc w0 ty sub ps) = Some (map to_lower ty ++ 47 :: map to_lower sub, flat_map cp_enc ps).
Proof.
  intros Hw Hty Hsub Ht1 Ht2 Hps. unfold ct_media, ct_enc.
  rewrite skip_ws_ows by exact Hw. rewrite skip_ws_tok by assumption.
  rewrite token_app by (try exact Ht1; reflexivity).
  assert (is_nil ty = false) as E1 by (destruct ty; [congruence|reflexivity]). rewrite E1.
  change (47 =? 47) with true. cbv iota.
  rewrite token_stops by (try exact Ht2; apply params_stops; exact Hps).
  assert (is_nil sub = false) as E2 by (destruct sub; [congruence|reflexivity]). rewrite E2. reflexivity.
Qed.

Lemma ct_parse_exact w0 ty sub ps : ows w0 -> ty <> [] -> sub <> [] -> forallb tchar ty = true -> forallb tchar sub = true ->
  Forall cp_ok ps ->
  media_type (ct_enc w0 ty sub ps) = map to_lower ty ++ 47 :: map to_lower sub /\
  ct_boundary (ct_enc w0 ty sub ps) = FOk (assoc s_boundary (map cp_pair ps)).
Proof.
  intros Hw Hty Hsub Ht1 Ht2 Hps. unfold media_type, ct_boundary.
  rewrite (ct_media_enc w0 ty sub ps) by assumption. split; [reflexivity|].
  rewrite ct_params_enc; [reflexivity|exact Hps|]. pose proof (params_length ps). lia.
Qed.

(* the first parameter named boundary (in any case) gives the key, exactly its value *)
Definition is_boundary_name (p : cparam) : bool := leqb (map to_lower (cp_name p)) s_boundary.
Lemma assoc_first : forall before p after, forallb (fun q => negb (is_boundary_name q)) before = true ->
  is_boundary_name p = true ->
  assoc s_boundary (map cp_pair (before ++ p :: after)) = pv_val (cp_value p).
Proof.
  induction before as [|q before IH]; intros p after Hb Hp.
  - cbn [app map assoc cp_pair]. unfold is_boundary_name in Hp. rewrite Hp. reflexivity.
  - cbn [forallb] in Hb. apply andb_true_iff in Hb. destruct Hb as [Hq Hb].
    cbn [app map assoc]. unfold cp_pair at 1. unfold is_boundary_name in Hq.
    destruct (leqb (map to_lower (cp_name q)) s_boundary); [discriminate|]. apply IH; assumption.
Qed.
Lemma assoc_none : forall ps, forallb (fun q => negb (is_boundary_name q)) ps = true -> assoc s_boundary (map cp_pair ps) = [].
Proof.
  induction ps as [|q ps IH]; intros Hb; [reflexivity|].
  cbn [forallb] in Hb. apply andb_true_iff in Hb. destruct Hb as [Hq Hb].
  cbn [map assoc]. unfold cp_pair at 1. unfold is_boundary_name in Hq.
  destruct (leqb (map to_lower (cp_name q)) s_boundary); [discriminate|]. apply IH; assumption.
Qed.

Lemma boundary_extracted_exactly w0 ty sub before p after :
  ows w0 -> ty <> [] -> sub <> [] -> forallb tchar ty = true -> forallb tchar sub = true ->
  Forall cp_ok (before ++ p :: after) ->
  forallb (fun q => negb (is_boundary_name q)) before = true -> is_boundary_name p = true ->
  ct_boundary (ct_enc w0 ty sub (before ++ p :: after)) = FOk (pv_val (cp_value p)).
Proof.
  intros Hw Hty Hsub Ht1 Ht2 Hps Hb Hp.
  destruct (ct_parse_exact w0 ty sub (before ++ p :: after) Hw Hty Hsub Ht1 Ht2 Hps) as [_ E].
  rewrite E, assoc_first by assumption. reflexivity.
Qed.
Lemma no_boundary_parameter_refused w0 ty sub ps :
  ows w0 -> ty <> [] -> sub <> [] -> forallb tchar ty = true -> forallb tchar sub = true ->
  Forall cp_ok ps -> forallb (fun q => negb (is_boundary_name q)) ps = true ->
  ct_boundary (ct_enc w0 ty sub ps) = FOk [].
Proof.
  intros Hw Hty Hsub Ht1 Ht2 Hps Hb.
  destruct (ct_parse_exact w0 ty sub ps Hw Hty Hsub Ht1 Ht2 Hps) as [_ E]. rewrite E, assoc_none by assumption. reflexivity.
Qed.
