(* C12 proofs, part 1: independence of the result from the way the body is cut into chunks. *)
From CppcmsV Require Import Base.Tac C12.Defs.
Local Open Scope N_scope.

(* ---------- small facts ---------- *)
Lemma len_N_acc (l : list N) (a : N) : fold_left (fun a _ => N.succ a) l a = a + N.of_nat (length l).
Proof.
  revert a. induction l as [|x l IH]; intros a; cbn [fold_left length].
  - lia.
  - rewrite IH. lia.
Qed.
Lemma len_N_length (l : list N) : len_N l = N.of_nat (length l).
Proof. unfold len_N. rewrite len_N_acc. lia. Qed.

Lemma is_nil_false_iff {A} (l : list A) : is_nil l = false <-> l <> [].
Proof. destruct l; cbn; split; intros H; congruence. Qed.
Lemma is_nil_true_iff {A} (l : list A) : is_nil l = true <-> l = [].
Proof. destruct l; cbn; split; intros H; congruence. Qed.
Lemma is_nil_app_r {A} (a b : list A) : b <> [] -> is_nil (a ++ b) = false.
Proof. intros H. apply is_nil_false_iff. intros E. apply app_eq_nil in E. tauto. Qed.

(* ---------- the invariant: file_is_ready_ is set exactly while a part content is being read ---------- *)
Definition inv (s : pstate) : Prop := ready s = true -> st s = SepBoundary.

Lemma inv_init : inv init_state.
Proof. unfold inv, init_state; cbn. discriminate. Qed.

Lemma step_inv bnd s c last s' e : inv s -> step bnd s c last = SGo s' e -> inv s'.
Proof.
  unfold inv, step. intros Hi H.
  destruct (st s) eqn:Hst.
  - destruct (negb (c =? nth (pos s) bnd 0)); [discriminate|].
    destruct (Nat.eqb (S (pos s)) (length bnd)); inversion H; subst; cbn; intros R; specialize (Hi R); discriminate.
  - destruct (c =? 13); [|destruct (c =? 45)]; inversion H; subst; cbn; intros R; specialize (Hi R); discriminate.
  - destruct (c =? 45); inversion H; subst; cbn; intros R; specialize (Hi R); discriminate.
  - destruct (c =? 13); inversion H; subst; cbn; intros R; specialize (Hi R); discriminate.
  - destruct (c =? 10); [destruct last|]; discriminate.
  - destruct (c =? 10); inversion H; subst; cbn; intros R; specialize (Hi R); discriminate.
  - destruct (Nat.eqb _ 4).
    + destruct (process_header _ _ _); inversion H; subst; cbn; reflexivity.
    + inversion H; subst; cbn; intros R; specialize (Hi R); discriminate.
  - destruct (msep bnd (pos s) c) as [emit p].
    destruct (negb (Nat.eqb p 0) && Nat.eqb p (length bnd)); inversion H; subst; cbn; [discriminate|reflexivity].
Qed.

(* ---------- the `last` flag only matters for the eof test and for the event reported ---------- *)
(* relation between the step on a byte that ends a chunk and the same byte inside a chunk *)
Inductive last_rel (lim : option N) : sres -> sres -> Prop :=
| LR_err : last_rel lim SErr SErr
| LR_fuel : last_rel lim SFuel SFuel
| LR_eof s : last_rel lim (SEof s) SErr
| LR_same s e : (e = Some EvMeta \/ e = Some EvReady) -> last_rel lim (SGo s e) (SGo s e)
| LR_cont s : last_rel lim (SGo s (Some EvCont)) (SGo s None)
| LR_partial s : st s = SepBoundary -> last_rel lim (SGo s (Some EvPartial)) (SGo s None).

Lemma end_ev_rel lim s rdy : (rdy = true -> st s = SepBoundary) ->
  last_rel lim (SGo s (end_ev rdy true)) (SGo s (end_ev rdy false)).
Proof.
  intros H. unfold end_ev. destruct rdy; [apply LR_partial; auto|apply LR_cont].
Qed.

Lemma step_last_rel bnd lim s c : inv s -> last_rel lim (step bnd s c true) (step bnd s c false).
Proof.
  intros Hi.
  assert (forall t, t <> SepBoundary -> st s <> SepBoundary ->
          last_rel lim (SGo (with_st s t) (end_ev (ready s) true)) (SGo (with_st s t) (end_ev (ready s) false))) as W.
  { intros t Ht Hs. apply end_ev_rel. intros R. exfalso. apply Hs. apply Hi. exact R. }
  unfold step. destruct (st s) eqn:Hst.
  - destruct (negb (c =? nth (pos s) bnd 0)); [constructor|].
    destruct (Nat.eqb (S (pos s)) (length bnd)); apply end_ev_rel; cbn; intros R; specialize (Hi R); congruence.
  - destruct (c =? 13); [apply W; congruence|]. destruct (c =? 45); [apply W; congruence|constructor].
  - destruct (c =? 45); [apply W; congruence|constructor].
  - destruct (c =? 13); [apply W; congruence|constructor].
  - destruct (c =? 10); constructor.
  - destruct (c =? 10); [apply W; congruence|constructor].
  - destruct (Nat.eqb _ 4).
    + destruct (process_header _ _ _); constructor. left; reflexivity.
    + apply end_ev_rel; cbn; intros R; specialize (Hi R); congruence.
  - destruct (msep bnd (pos s) c) as [emit p].
    destruct (negb (Nat.eqb p 0) && Nat.eqb p (length bnd)).
    + constructor. right; reflexivity.
    + apply LR_partial. reflexivity.
Qed.

Lemma step_false_not_eof bnd s c s1 : step bnd s c false <> SEof s1.
Proof.
  unfold step. destruct (st s).
  - destruct (negb _); [discriminate|]. destruct (Nat.eqb _ _); discriminate.
  - destruct (c =? 13); [discriminate|]. destruct (c =? 45); discriminate.
  - destruct (c =? 45); discriminate.
  - destruct (c =? 13); discriminate.
  - destruct (c =? 10); discriminate.
  - destruct (c =? 10); discriminate.
  - destruct (Nat.eqb _ 4); [destruct (process_header _ _ _)|]; discriminate.
  - destruct (msep bnd (pos s) c) as [emit p]. destruct (negb _ && _); discriminate.
Qed.

(* ---------- a form field that is already too big stays too big: 413 whatever follows ---------- *)
Lemma size_ok_add lim f emit : size_ok lim f = false -> size_ok lim (add_data f emit) = false.
Proof.
  unfold size_ok. destruct lim as [a|]; [|discriminate].
  unfold has_mime, f_size, add_data; cbn [f_mime f_rdata].
  rewrite !len_N_length, app_length, rev_length.
  intros H. apply orb_false_iff in H. destruct H as [H1 H2]. rewrite H1. cbn.
  apply N.leb_gt in H2. apply N.leb_gt. lia.
Qed.

Lemma doomed bnd lim : forall b s, b <> [] -> st s = SepBoundary -> size_ok lim (cur s) = false ->
  feed bnd lim s b = OStop 413.
Proof.
  induction b as [|c r IH]; intros s Hb Hst Hsz; [congruence|].
  cbn [feed]. unfold step. rewrite Hst.
  destruct (msep bnd (pos s) c) as [emit p].
  pose proof (size_ok_add lim (cur s) emit Hsz) as Hsz'.
  destruct (negb (Nat.eqb p 0) && Nat.eqb p (length bnd)).
  - cbn [ev_ok last_file rfiles]. rewrite Hsz'. reflexivity.
  - destruct r as [|c2 r2].
    + cbn [is_nil ev_ok cur]. rewrite Hsz'. reflexivity.
    + cbn [is_nil ev_ok]. apply IH; [discriminate|reflexivity|exact Hsz'].
Qed.

(* ---------- feeding a ++ b as one chunk = feeding a, then b ---------- *)
Definition then_feed bnd lim (o : outcome) (b : list N) : outcome :=
  match o with
  | OGo s' => feed bnd lim s' b
  | OEof _ => OStop 400
  | OStop c => OStop c
  end.

Lemma feed_inv bnd lim : forall a s s', inv s -> feed bnd lim s a = OGo s' -> inv s'.
Proof.
  induction a as [|c r IH]; intros s s' Hi H; cbn [feed] in H.
  - inversion H; subst; exact Hi.
  - destruct (step bnd s c (is_nil r)) as [s1 e| | |s1] eqn:Hs; try discriminate.
    destruct (ev_ok lim s1 e); [|discriminate].
    eapply IH; [|exact H]. eapply step_inv; eauto.
Qed.

Lemma feed_app bnd lim : forall a b s, inv s -> b <> [] ->
  feed bnd lim s (a ++ b) = then_feed bnd lim (feed bnd lim s a) b.
Proof.
  induction a as [|c r IH]; intros b s Hi Hb.
  - reflexivity.
  - cbn [app feed]. rewrite (is_nil_app_r r b Hb).
    destruct r as [|c2 r2].
    + (* c is the last byte of a *)
      cbn [is_nil app].
      pose proof (step_last_rel bnd lim s c Hi) as R.
      inversion R as [ | |s1|s1 e He|s1|s1 Hs1]; cbn [then_feed feed]; try reflexivity.
      * destruct (ev_ok lim s1 e); reflexivity.
      * cbn [ev_ok]. destruct (size_ok lim (cur s1)) eqn:Hsz; [reflexivity|].
        cbn [then_feed]. apply doomed; assumption.
    + cbn [is_nil].
      destruct (step bnd s c false) as [s1 e| | |s1] eqn:Hs; try reflexivity.
      * destruct (ev_ok lim s1 e); [|reflexivity].
        apply IH; [|exact Hb]. eapply step_inv; eauto.
      * exfalso. eapply step_false_not_eof; eauto.
Qed.

(* ---------- request level ---------- *)
Lemma req_loop_rem0 bnd lim s : forall chunks, req_loop bnd lim 0 s chunks = RWaiting.
Proof. induction chunks as [|c m IH]; cbn [req_loop firstn]; auto. Qed.

Lemma req_loop_all_empty bnd lim : forall chunks rem s, concat chunks = [] -> req_loop bnd lim rem s chunks = RWaiting.
Proof.
  induction chunks as [|c m IH]; intros rem s H; cbn [req_loop]; [reflexivity|].
  cbn [concat] in H. apply app_eq_nil in H. destruct H as [H1 H2]. subst c.
  rewrite firstn_nil. apply IH. exact H2.
Qed.

Definition req_after bnd lim (rem : nat) (s : pstate) (ch : list N) (more : list (list N)) : rres :=
  match feed bnd lim s ch with
  | OStop c => RStatus c
  | OEof s' => if Nat.eqb (rem - length ch) 0 then RReady (rev (rfiles s')) else RStatus 400
  | OGo s' => if Nat.eqb (rem - length ch) 0 then RStatus 400 else req_loop bnd lim (rem - length ch) s' more
  end.

Lemma req_loop_cons bnd lim rem s ch0 more :
  firstn rem ch0 <> [] ->
  req_loop bnd lim rem s (ch0 :: more) = req_after bnd lim rem s (firstn rem ch0) more.
Proof.
  intros H. cbn [req_loop]. unfold req_after.
  destruct (firstn rem ch0) as [|x l]; [contradiction|]. reflexivity.
Qed.
Lemma req_loop_cons_nil bnd lim rem s ch0 more :
  firstn rem ch0 = [] -> req_loop bnd lim rem s (ch0 :: more) = req_loop bnd lim rem s more.
Proof. intros H. cbn [req_loop]. rewrite H. reflexivity. Qed.
Lemma req_loop_nil bnd lim rem s : req_loop bnd lim rem s [] = RWaiting.
Proof. reflexivity. Qed.

Lemma req_chunk_indep_gen bnd lim : forall chunks rem s, inv s ->
  req_loop bnd lim rem s chunks = req_loop bnd lim rem s [concat chunks].
Proof.
  induction chunks as [|ch0 more IH]; intros rem s Hi.
  - cbn [concat]. rewrite req_loop_cons_nil by apply firstn_nil. reflexivity.
  - destruct rem as [|rem1]; [rewrite !req_loop_rem0; reflexivity|].
    remember (S rem1) as rem eqn:Hrem.
    cbn [concat].
    destruct ch0 as [|c0 r0].
    + (* empty chunk: on_content_progress(0) *)
      rewrite req_loop_cons_nil by apply firstn_nil. cbn [app]. apply IH. exact Hi.
    + remember (c0 :: r0) as ch0 eqn:Hch0.
      assert (ch0 <> []) as Hne by (subst ch0; discriminate).
      assert (firstn rem ch0 <> []) as Hfn by (subst; cbn; discriminate).
      rewrite (req_loop_cons bnd lim rem s ch0 more Hfn).
      assert (firstn rem (ch0 ++ concat more) <> []) as Hfn2 by (subst; cbn; discriminate).
      rewrite (req_loop_cons bnd lim rem s _ [] Hfn2).
      destruct (Nat.leb rem (length ch0)) eqn:Hle.
      * (* the first chunk alone reaches the declared length *)
        apply Nat.leb_le in Hle.
        rewrite firstn_app. replace (rem - length ch0)%nat with 0%nat by lia.
        rewrite firstn_O, app_nil_r.
        assert (length (firstn rem ch0) = rem) as Hl by (rewrite firstn_length; lia).
        unfold req_after. rewrite Hl. replace (rem - rem)%nat with 0%nat by lia. cbn [Nat.eqb].
        reflexivity.
      * apply Nat.leb_gt in Hle.
        rewrite firstn_app. rewrite (firstn_all2 (n:=rem) ch0) by lia.
        remember (rem - length ch0)%nat as rem' eqn:Hrem'.
        assert (rem' <> 0)%nat as Hr by lia.
        assert (Nat.eqb rem' 0 = false) as Hr0 by (apply Nat.eqb_neq; exact Hr).
        destruct (firstn rem' (concat more)) as [|y B'] eqn:HB.
        -- (* nothing more arrives *)
           assert (concat more = []) as Hc.
           { destruct (concat more); [reflexivity|]. destruct rem'; [congruence|]. cbn in HB. discriminate. }
           rewrite app_nil_r. unfold req_after. rewrite <- Hrem', Hr0.
           destruct (feed bnd lim s ch0) as [s'| s' |c]; try reflexivity.
           rewrite req_loop_nil. apply req_loop_all_empty. exact Hc.
        -- remember (y :: B') as B eqn:HBd.
           assert (B <> []) as HBn by (subst B; discriminate).
           unfold req_after.
           rewrite app_length. replace (rem - (length ch0 + length B))%nat with (rem' - length B)%nat by lia.
           rewrite (feed_app bnd lim ch0 B s Hi HBn). rewrite <- Hrem', Hr0.
           destruct (feed bnd lim s ch0) as [s'| s' |c] eqn:Hf; cbn [then_feed]; try reflexivity.
           rewrite (IH rem' s' (feed_inv bnd lim ch0 s s' Hi Hf)).
           assert (firstn rem' (concat more) <> []) as Hfn3 by (rewrite HB; exact HBn).
           rewrite (req_loop_cons bnd lim rem' s' _ [] Hfn3). rewrite HB.
           unfold req_after. reflexivity.
Qed.

Lemma req_chunk_indep bnd lim declared chunks :
  req_loop bnd lim declared init_state chunks = req_loop bnd lim declared init_state [concat chunks].
Proof. apply req_chunk_indep_gen. apply inv_init. Qed.

Lemma request_chunk_indep L ct declared chunks :
  request_multipart L ct declared chunks = request_multipart L ct declared [concat chunks].
Proof.
  unfold request_multipart.
  destruct (Nat.eqb declared 0); [reflexivity|].
  destruct (multipart_limit L <? N.of_nat declared); [reflexivity|].
  destruct (ct_boundary ct) as [[|k key]| |]; try reflexivity.
  apply req_chunk_indep.
Qed.

(* two partitions of the same byte string give the same result *)
Lemma request_two_partitions L ct declared chunks1 chunks2 :
  concat chunks1 = concat chunks2 ->
  request_multipart L ct declared chunks1 = request_multipart L ct declared chunks2.
Proof. intros H. rewrite (request_chunk_indep L ct declared chunks1), (request_chunk_indep L ct declared chunks2), H. reflexivity. Qed.

(* ---------- the traced driver (what the correspondence harness runs) is `feed` without size check ---------- *)
Definition out_of_tout (o : tout) : outcome :=
  match o with TGo s => OGo s | TEof s => OEof s | TErr _ => OStop 400 | TFuel => OStop 599 end.
Lemma feed_trace_feed bnd : forall ch s tr,
  feed bnd None s ch = out_of_tout (fst (feed_trace bnd s ch tr)).
Proof.
  induction ch as [|c r IH]; intros s tr; cbn [feed feed_trace]; [reflexivity|].
  destruct (step bnd s c (is_nil r)) as [s1 e| | |s1]; try reflexivity.
  replace (ev_ok None s1 e) with true by (destruct e as [[| | |]|]; reflexivity).
  apply IH.
Qed.

(* ---------- declared length vs. bytes that arrive ---------- *)
(* nothing is delivered before the declared number of bytes has been read *)
Lemma req_ready_needs_all bnd lim : forall chunks rem s fs,
  req_loop bnd lim rem s chunks = RReady fs -> (rem <= length (concat chunks))%nat.
Proof.
  induction chunks as [|ch0 more IH]; intros rem s fs H; [discriminate|].
  cbn [req_loop] in H. cbn [concat]. rewrite app_length.
  destruct (firstn rem ch0) as [|x l] eqn:Hf.
  - apply IH in H. lia.
  - assert (length (firstn rem ch0) <= length ch0)%nat as Hl by (rewrite firstn_length; lia).
    rewrite Hf in Hl.
    destruct (feed bnd lim s (x :: l)) as [s'|s'|c]; try discriminate.
    + destruct (Nat.eqb (rem - length (x :: l)) 0) eqn:E; [discriminate|].
      apply IH in H. lia.
    + destruct (Nat.eqb (rem - length (x :: l)) 0) eqn:E; [|discriminate].
      apply Nat.eqb_eq in E. lia.
Qed.

(* bytes beyond the declared length are never looked at *)
Lemma req_ignores_tail bnd lim declared chunks :
  req_loop bnd lim declared init_state chunks =
  req_loop bnd lim declared init_state [firstn declared (concat chunks)].
Proof.
  rewrite req_chunk_indep. cbn [req_loop]. rewrite firstn_firstn. rewrite Nat.min_id. reflexivity.
Qed.

(* a body that is accepted as a whole: every strict prefix and every extension of it is refused *)
Lemma accepted_prefix_goes_on bnd lim s a b s' : inv s -> b <> [] ->
  feed bnd lim s (a ++ b) = OEof s' -> exists s1, feed bnd lim s a = OGo s1.
Proof.
  intros Hi Hb H. rewrite feed_app in H by assumption.
  destruct (feed bnd lim s a) as [s1|s1|c]; cbn [then_feed] in H; try discriminate.
  exists s1; reflexivity.
Qed.

Lemma truncated_refused bnd lim a b s' : a <> [] -> b <> [] ->
  feed bnd lim init_state (a ++ b) = OEof s' ->
  req_loop bnd lim (length a) init_state [a] = RStatus 400.
Proof.
  intros Ha Hb H.
  destruct (accepted_prefix_goes_on bnd lim init_state a b s' inv_init Hb H) as [s1 H1].
  cbn [req_loop]. rewrite firstn_all.
  destruct a as [|x l]; [contradiction|]. rewrite H1.
  rewrite Nat.sub_diag. reflexivity.
Qed.

Lemma trailing_refused bnd lim a b s' : a <> [] -> b <> [] ->
  feed bnd lim init_state a = OEof s' ->
  req_loop bnd lim (length (a ++ b)) init_state [a ++ b] = RStatus 400.
Proof.
  intros Ha Hb H.
  cbn [req_loop]. rewrite firstn_all.
  destruct (a ++ b) as [|x l] eqn:E; [apply app_eq_nil in E; tauto|]. rewrite <- E.
  rewrite feed_app by (auto using inv_init). rewrite H. reflexivity.
Qed.
