(* C12 proofs, part 8: framing is exact whatever the part headers look like.  For ANY header blocks that the
   header-terminator matcher ends exactly at their last byte and that process_header accepts, and any contents
   free of the delimiter, the parser delivers exactly those contents with the meta data process_header
   computed - under every chunking (by feed_app / request_chunk_indep). *)
From CppcmsV Require Import Base.Tac C12.Defs C12.Proofs C12.Matcher C12.Limits C12.Roundtrip.
Local Open Scope N_scope.

(* header state: scanning bytes that do not complete CR LF CR LF *)
Lemma feed_hdr_scan bnd lim : forall w p rh cu fs rest p', hterm p w = Some p' -> rest <> [] ->
  feed bnd lim (mkst CrlfCrlf p rh cu fs false) (w ++ rest) =
  feed bnd lim (mkst CrlfCrlf p' (rev w ++ rh) cu fs false) rest.
Proof.
  induction w as [|c w IH]; intros p rh cu fs rest p' H Hr.
  - cbn [hterm] in H. inversion H; subst. reflexivity.
  - cbn [hterm] in H. cbn [app feed]. unfold step. cbn [st pos rhdr cur rfiles ready].
    destruct (Nat.eqb (if c =? nth p crlfcrlf 0 then S p else if c =? 13 then 1%nat else 0%nat) 4) eqn:E4; [discriminate|].
    assert (is_nil (w ++ rest) = false) as Hn0 by (apply is_nil_app_r; exact Hr).
    rewrite Hn0. cbn [end_ev ev_ok].
    rewrite (IH _ (c :: rh) cu fs rest p' H Hr). cbn [rev]. rewrite <- app_assoc. reflexivity.
Qed.

(* a header block: the terminator is recognised exactly at its last byte *)
Definition hdr_ends (H : list N) : Prop := exists w, H = w ++ [10] /\ hterm 0 w = Some 3%nat.

Lemma feed_hdr_block bnd lim H f fs rest : hdr_ends H ->
  process_header (S (length H)) H empty_file = FOk f ->
  feed bnd lim (mkst CrlfCrlf 0 [] empty_file fs false) (H ++ rest) =
  feed bnd lim (mkst SepBoundary 0 [] f fs true) rest.
Proof.
  intros [w [EH Hw]] Hph. subst H. rewrite <- app_assoc. cbn [app].
  rewrite (feed_hdr_scan bnd lim w 0%nat [] empty_file fs (10 :: rest) 3%nat Hw) by discriminate.
  rewrite app_nil_r. cbn [feed]. unfold step. cbn [st pos rhdr cur rfiles ready nth crlfcrlf].
  change (10 =? 10) with true. cbv iota. cbn [Nat.eqb].
  assert (rev (10 :: rev w) = w ++ [10]) as Er by (cbn [rev]; rewrite rev_involutive; reflexivity).
  rewrite Er, Hph. cbn [ev_ok]. reflexivity.
Qed.

(* process_header only fills in name, file name and MIME type *)
Lemma parse_cd_rdata : forall n s f f', parse_cd n s f = FOk f' -> f_rdata f' = f_rdata f.
Proof.
  induction n as [|n IH]; intros s f f' H.
  - destruct s; [inversion H; reflexivity|discriminate].
  - destruct s as [|c r]; [inversion H; reflexivity|]. cbn [parse_cd] in H.
    destruct (parse_pair (c :: r)) as [[[pn v] r']|]; [|discriminate].
    apply IH in H. rewrite H.
    destruct (leqb (map to_lower pn) s_filename); [reflexivity|]. destruct (leqb (map to_lower pn) s_name); reflexivity.
Qed.
Lemma header_line_rdata line f f' : header_line line f = FOk f' -> f_rdata f' = f_rdata f.
Proof.
  unfold header_line. destruct (token (skip_ws line)) as [hname r].
  destruct (skip_ws r) as [|c r1]; [discriminate|].
  destruct (negb (c =? 58)); [discriminate|].
  destruct (ieq hname s_cdisp).
  - destruct (token (skip_ws r1)) as [tok r2]. destruct (ieq tok s_formdata); [|discriminate]. apply parse_cd_rdata.
  - destruct (ieq hname s_ctype); intros H; inversion H; reflexivity.
Qed.
Lemma process_header_rdata : forall n hdr f f', process_header n hdr f = FOk f' -> f_rdata f' = f_rdata f.
Proof.
  induction n as [|n IH]; intros hdr f f' H.
  - destruct hdr; discriminate.
  - destruct hdr as [|c r]; [discriminate|]. cbn [process_header] in H.
    destruct (split_crlf (c :: r)) as [[line rest]|]; [|discriminate].
    destruct (is_nil line); [inversion H; reflexivity|].
    destruct (header_line line f) as [f1| |] eqn:E; try discriminate.
    apply IH in H. apply header_line_rdata in E. congruence.
Qed.

(* a raw part: header block, the meta data it denotes, content *)
Record rawpart := mkraw { r_hdr : list N; r_meta : pfile; r_data : list N }.
Definition enc_raw_part (key : list N) (p : rawpart) : list N := crlf ++ r_hdr p ++ r_data p ++ make_boundary key.
Definition encode_raw (key : list N) (ps : list rawpart) : list N :=
  45 :: 45 :: key ++ flat_map (enc_raw_part key) ps ++ [45;45;13;10].
Definition raw_ok (key : list N) (p : rawpart) : Prop :=
  hdr_ends (r_hdr p) /\ process_header (S (length (r_hdr p))) (r_hdr p) empty_file = FOk (r_meta p) /\
  ~ occurs (make_boundary key) (r_data p).
Definition raw_file (p : rawpart) : pfile := file_with_data (r_meta p) (rev (r_data p)).

Lemma feed_raw_part key lim p fs rest : ~ In 13 key -> raw_ok key p -> rest <> [] ->
  size_ok lim (raw_file p) = true ->
  feed (make_boundary key) lim (S0 fs) (enc_raw_part key p ++ rest) =
  feed (make_boundary key) lim (S0 (raw_file p :: fs)) rest.
Proof.
  intros Hk [Hh [Hph Hx]] Hr Hsz. unfold enc_raw_part, crlf. rewrite <- !app_assoc. cbn [app].
  assert (r_hdr p <> []) as Hne by (destruct Hh as [w [E _]]; rewrite E; destruct w; discriminate).
  rewrite feed_crlf by (destruct (r_hdr p); [contradiction|discriminate]).
  rewrite (feed_hdr_block _ lim (r_hdr p) (r_meta p) fs _ Hh Hph).
  rewrite (part_content_exact key lim Hk (mkst SepBoundary 0 [] (r_meta p) fs true) (r_data p) rest eq_refl eq_refl Hr Hx).
  cbn [cur rhdr rfiles]. cbv zeta.
  rewrite (process_header_rdata _ _ _ _ Hph). cbn [empty_file f_rdata]. rewrite app_nil_r.
  fold (raw_file p). rewrite Hsz. reflexivity.
Qed.

Lemma feed_raw_parts key lim : ~ In 13 key -> forall ps fs,
  Forall (raw_ok key) ps -> Forall (fun p => size_ok lim (raw_file p) = true) ps ->
  exists s', feed (make_boundary key) lim (S0 fs) (flat_map (enc_raw_part key) ps ++ [45;45;13;10]) = OEof s' /\
             rfiles s' = rev (map raw_file ps) ++ fs.
Proof.
  intros Hk. induction ps as [|p ps IH]; intros fs Hwf Hsz.
  - cbn [flat_map app map rev]. apply feed_closing.
  - inversion Hwf as [|p0 ps0 Hwp Hwps]; subst. inversion Hsz as [|p1 ps1 Hsp Hsps]; subst.
    cbn [flat_map]. rewrite <- app_assoc.
    rewrite (feed_raw_part key lim p fs _ Hk Hwp) by (try exact Hsp; destruct (flat_map (enc_raw_part key) ps); discriminate).
    destruct (IH (raw_file p :: fs) Hwps Hsps) as [s' [Hf Hr]].
    exists s'. split; [exact Hf|]. rewrite Hr. cbn [map rev]. rewrite <- app_assoc. reflexivity.
Qed.

Lemma framing_exact_request L ct key ps chunks : ~ In 13 key -> key <> [] ->
  ct_boundary ct = FOk key ->
  Forall (raw_ok key) ps ->
  Forall (fun p => size_ok (Some (content_length_limit L)) (raw_file p) = true) ps ->
  concat chunks = encode_raw key ps ->
  N.of_nat (length (encode_raw key ps)) <= multipart_limit L ->
  request_multipart L ct (length (encode_raw key ps)) chunks = RReady (map raw_file ps).
Proof.
  intros Hk Hkne Hct Hwf Hsz Hcc Hlim.
  rewrite request_chunk_indep, Hcc. unfold request_multipart.
  assert (length (encode_raw key ps) <> 0)%nat as Hl0 by (unfold encode_raw; cbn [length]; lia).
  destruct (Nat.eqb_spec (length (encode_raw key ps)) 0) as [E|_]; [contradiction|].
  assert (multipart_limit L <? N.of_nat (length (encode_raw key ps)) = false) as Hl by (apply N.ltb_ge; exact Hlim).
  rewrite Hl, Hct. destruct key as [|k0 key']; [contradiction|].
  cbn [req_loop]. rewrite firstn_all.
  assert (exists s', feed (make_boundary (k0 :: key')) (Some (content_length_limit L)) init_state (encode_raw (k0 :: key') ps) = OEof s' /\
                     rev (rfiles s') = map raw_file ps) as [s' [Hf Hr]].
  { unfold encode_raw.
    change (45 :: 45 :: (k0 :: key') ++ flat_map (enc_raw_part (k0 :: key')) ps ++ [45; 45; 13; 10])
      with (skipn 2 (make_boundary (k0 :: key')) ++ (flat_map (enc_raw_part (k0 :: key')) ps ++ [45; 45; 13; 10])).
    unfold init_state.
    rewrite (first_boundary (make_boundary (k0 :: key')) _ (length (make_boundary (k0 :: key')) - 2) 2 [] empty_file [] _ eq_refl)
      by (try (cbn [make_boundary length]; lia); destruct (flat_map (enc_raw_part (k0 :: key')) ps); discriminate).
    destruct (feed_raw_parts (k0 :: key') (Some (content_length_limit L)) Hk ps [] Hwf Hsz) as [s' [Hf Hr]].
    exists s'. split; [exact Hf|]. rewrite Hr, app_nil_r, rev_involutive. reflexivity. }
  destruct (encode_raw (k0 :: key') ps) as [|x l] eqn:E; [contradiction Hl0; reflexivity|].
  rewrite Hf, Nat.sub_diag. cbn [Nat.eqb]. rewrite Hr. reflexivity.
Qed.
