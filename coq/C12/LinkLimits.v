(* C12 tie, part 2: the limit decisions lifted from the current source (coq/gen/Gen_c12lim.v, regenerated on
   every run by checks/C12.py limits_tu + tools/cxx2v.py) are the decisions of the model *)
From CppcmsV Require Import Base.Tac Base.CSem C12.Defs C12.ResDefs C12.MoreDefs gen.Gen_c12lim.
Local Open Scope N_scope.

(* file_buffer::overflow: the memory-to-file switch (fo_putc: limit <=? used) *)
Lemma link_spill size limit : g_c12_spill (Z.of_N size) (Z.of_N limit) = (if (limit <=? size)%N then 1%Z else 0%Z).
Proof.
  unfold g_c12_spill. rewrite Z.geb_leb. destruct (Z.leb_spec (Z.of_N limit) (Z.of_N size)); destruct (N.leb_spec limit size); try reflexivity; lia.
Qed.

(* file_buffer::overflow: growth of the in-memory buffer (fo_putc: double, at least 64, at most the limit) *)
Lemma link_grow cap limit : (2 * Z.of_N cap < 2 ^ 64)%Z ->
  g_c12_grow (Z.of_N cap) (Z.of_N limit) =
  Z.of_N (let d := 2 * cap in let d := if d =? 0 then 64 else d in if limit <? d then limit else d).
Proof.
  intros Hb. unfold g_c12_grow. cbv zeta. unfold wrapu. rewrite Z.mod_small by lia.
  rewrite !Z.gtb_ltb.
  destruct (Z.eqb_spec (Z.of_N cap * 2) 0); destruct (N.eqb_spec (2 * cap) 0); try lia.
  - destruct (Z.ltb_spec (Z.of_N limit) 64); destruct (N.ltb_spec limit 64); try lia; reflexivity.
  - destruct (Z.ltb_spec (Z.of_N limit) (Z.of_N cap * 2)); destruct (N.ltb_spec limit (2 * cap)); try lia; reflexivity.
Qed.

Lemma link_buffer_size : g_c12_buffer_size = Z.of_N buffer_size.
Proof. reflexivity. Qed.

(* request::on_content_start: 0 -> nothing to read; negative -> 400; over the limit that applies -> 413 *)
Lemma link_start L (mp : bool) declared :
  g_c12_start (Z.of_nat declared) (if mp then 1%Z else 0%Z) (Z.of_N (multipart_limit L)) (Z.of_N (content_length_limit L))
  = Z.of_N (start_status L mp declared).
Proof.
  unfold g_c12_start, start_status. rewrite !Z.gtb_ltb.
  destruct (Nat.eqb_spec declared 0) as [E|E]; [subst; reflexivity|].
  destruct (Z.eqb_spec (Z.of_nat declared) 0); [lia|]. destruct (Z.ltb_spec (Z.of_nat declared) 0); [lia|].
  destruct mp; cbn [negb Z.eqb].
  - destruct (Z.ltb_spec (Z.of_N (multipart_limit L)) (Z.of_nat declared)); destruct (N.ltb_spec (multipart_limit L) (N.of_nat declared)); try lia; reflexivity.
  - destruct (Z.ltb_spec (Z.of_N (content_length_limit L)) (Z.of_nat declared)); destruct (N.ltb_spec (content_length_limit L) (N.of_nat declared)); try lia; reflexivity.
Qed.
Lemma link_start_negative z mp a b : (z < 0)%Z -> g_c12_start z mp a b = 400%Z.
Proof.
  intros H. unfold g_c12_start. destruct (Z.eqb_spec z 0); [lia|]. destruct (Z.ltb_spec z 0); [reflexivity|lia].
Qed.
(* the request-level models use exactly this decision *)
Lemma start_status_service L raw ct declared body : start_status L (is_mp ct) declared = 413 ->
  sv_status (request_service L raw ct declared body) = 413.
Proof.
  unfold start_status, request_service. destruct (Nat.eqb declared 0); [discriminate|].
  destruct (is_mp ct).
  - destruct (multipart_limit L <? N.of_nat declared); [reflexivity|discriminate].
  - destruct (content_length_limit L <? N.of_nat declared); [reflexivity|discriminate].
Qed.

(* request::size_ok *)
Lemma link_size_ok (hm : bool) fs a :
  g_c12_size_ok (if hm then 1%Z else 0%Z) (Z.of_N fs) (Z.of_N a) = (if hm || (fs <=? a)%N then 1%Z else 0%Z).
Proof.
  unfold g_c12_size_ok. rewrite Z.gtb_ltb. destruct hm; cbn [negb Z.eqb andb orb]; [reflexivity|].
  destruct (Z.ltb_spec (Z.of_N a) (Z.of_N fs)); destruct (N.leb_spec fs a); try lia; reflexivity.
Qed.
Lemma size_ok_is_link a f :
  size_ok (Some a) f = negb (Z.eqb (g_c12_size_ok (if has_mime f then 1%Z else 0%Z) (Z.of_N (f_size f)) (Z.of_N a)) 0).
Proof. rewrite link_size_ok. unfold size_ok. destruct (has_mime f || (f_size f <=? a)); reflexivity. Qed.

(* defaults: security.content_length_limit 1024 KiB, multipart_form_data_limit 64 MiB, file_in_memory_limit 128 KiB *)
Lemma link_defaults :
  g_c12_def_cl = Z.of_N (content_length_limit default_limits) /\
  g_c12_def_mp = Z.of_N (multipart_limit default_limits) /\
  g_c12_def_mem = Z.of_N default_file_in_memory_limit.
Proof. repeat split; reflexivity. Qed.
