(* C12 proofs, part 12: urlencoded forms under ANY encoding a client may choose, the GET query, and the
   independence of the read_full accumulation from the chunking *)
From CppcmsV Require Import Base.Tac C12.Defs C12.Proofs C12.Urlenc C12.MoreDefs.
Local Open Scope N_scope.

(* one byte, encoded: literally (any byte except % + & =), a space as +, or %XX with hex digits of either case *)
Inductive encb : N -> list N -> Prop :=
| enc_lit b : b <> 37 -> b <> 43 -> b <> 38 -> b <> 61 -> encb b [b]
| enc_plus : encb 32 [43]
| enc_pct b h1 h2 : xdigit h1 = true -> xdigit h2 = true -> hexval h1 * 16 + hexval h2 = b -> encb b [37; h1; h2].
Inductive encs : list N -> list N -> Prop :=
| encs_nil : encs [] []
| encs_cons b s eb es : encb b eb -> encs s es -> encs (b :: s) (eb ++ es).

Lemma urldecode_any s e : encs s e -> urldecode e = s.
Proof.
  induction 1 as [|b s eb es Hb Hs IH]; [reflexivity|].
  destruct Hb as [b H1 H2 H3 H4| |b h1 h2 X1 X2 E]; cbn [app urldecode].
  - destruct (N.eqb_spec b 43); [congruence|]. destruct (N.eqb_spec b 37); [congruence|]. rewrite IH. reflexivity.
  - change (43 =? 43) with true. cbv iota. rewrite IH. reflexivity.
  - change (37 =? 43) with false. change (37 =? 37) with true. cbv iota. rewrite X1, X2. cbn [andb]. rewrite E, IH. reflexivity.
Qed.

Lemma xdigit_not c : xdigit c = true -> c <> 38 /\ c <> 61.
Proof.
  unfold xdigit. intros H. split; intros E; subst c; vm_compute in H; discriminate.
Qed.
Lemma encs_no_sep s e : encs s e -> ~ In 38 e /\ ~ In 61 e.
Proof.
  induction 1 as [|b s eb es Hb Hs [I1 I2]]; [split; intros []|].
  assert (~ In 38 eb /\ ~ In 61 eb) as [B1 B2].
  { destruct Hb as [b H1 H2 H3 H4| |b h1 h2 X1 X2 E].
    - split; intros [E|[]]; congruence.
    - split; intros [E|[]]; discriminate.
    - destruct (xdigit_not h1 X1), (xdigit_not h2 X2). split; intros [E'|[E'|[E'|[]]]]; try discriminate; congruence. }
  split; intros Hin; apply in_app_or in Hin; tauto.
Qed.
Lemma encs_nonempty s e : encs s e -> s <> [] -> e <> [].
Proof.
  intros H Hs. destruct H as [|b s eb es Hb Hr]; [congruence|].
  destruct Hb; discriminate.
Qed.

(* an item k=v under any encoding *)
Definition item_of (kv : list N * list N) (it : list N) : Prop :=
  exists ek ev, it = ek ++ 61 :: ev /\ encs (fst kv) ek /\ encs (snd kv) ev /\ fst kv <> [].

Lemma item_no_amp kv it : item_of kv it -> ~ In 38 it.
Proof.
  intros [ek [ev [E [Hk [Hv _]]]]]. subst it. destruct (encs_no_sep _ _ Hk), (encs_no_sep _ _ Hv).
  intros Hin. apply in_app_or in Hin. destruct Hin as [Hin|[Hin|Hin]]; [tauto|discriminate|tauto].
Qed.

Lemma parse_items_any : forall ps its, Forall2 item_of ps its -> parse_items its = (ps, true).
Proof.
  induction 1 as [|kv it ps its [ek [ev [E [Hk [Hv Hne]]]]] _ IH]; [reflexivity|].
  subst it. cbn [parse_items]. destruct (encs_no_sep _ _ Hk) as [_ K61].
  rewrite (split_at_app 61 ek ev K61).
  assert (is_nil ek = false) as En.
  { pose proof (encs_nonempty _ _ Hk Hne). destruct ek; [congruence|reflexivity]. }
  rewrite En, IH, (urldecode_any _ _ Hk), (urldecode_any _ _ Hv). destruct kv; reflexivity.
Qed.

(* items joined by ampersands *)
Fixpoint join_amp (its : list (list N)) : list N :=
  match its with
  | [] => []
  | [it] => it
  | it :: more => it ++ 38 :: join_amp more
  end.

Lemma split_join : forall its, its <> [] -> Forall (fun it => ~ In 38 it) its -> split_all 38 (join_amp its) = its.
Proof.
  induction its as [|it more IH]; intros Hne Hf; [congruence|]. inversion Hf as [|? ? Hi Hm]; subst.
  destruct more as [|it2 more'].
  - cbn [join_amp]. apply split_all_one. exact Hi.
  - change (join_amp (it :: it2 :: more')) with (it ++ 38 :: join_amp (it2 :: more')).
    rewrite (split_all_app 38 it _ Hi), IH; [reflexivity|discriminate|exact Hm].
Qed.

Lemma drop_last_nonempty : forall its, Forall (fun it => it <> []) its -> drop_last_empty its = its.
Proof.
  induction its as [|it more IH]; intros Hf; [reflexivity|]. inversion Hf as [|? ? Hi Hm]; subst.
  destruct more as [|it2 more'].
  - cbn [drop_last_empty]. destruct it; [congruence|reflexivity].
  - change (drop_last_empty (it :: it2 :: more')) with (it :: drop_last_empty (it2 :: more')). rewrite IH; [reflexivity|exact Hm].
Qed.

Lemma item_nonempty kv it : item_of kv it -> it <> [].
Proof. intros [ek [ev [E _]]]. subst it. destruct ek; discriminate. Qed.

Lemma parse_urlencoded_any ps its : Forall2 item_of ps its ->
  parse_urlencoded (join_amp its) = (ps, true).
Proof.
  intros H. unfold parse_urlencoded. destruct its as [|it more].
  - inversion H; subst. reflexivity.
  - assert (Forall (fun it => ~ In 38 it) (it :: more)) as Ha.
    { clear - H. induction H; constructor; [eapply item_no_amp; eauto|assumption]. }
    assert (Forall (fun it => it <> []) (it :: more)) as Hn.
    { clear - H. induction H; constructor; [eapply item_nonempty; eauto|assumption]. }
    rewrite split_join by (try discriminate; exact Ha). rewrite drop_last_nonempty by exact Hn.
    apply parse_items_any. exact H.
Qed.

(* a trailing ampersand changes nothing *)
Lemma split_all_ne ch : forall s, split_all ch s <> [].
Proof.
  induction s as [|c r IH]; [discriminate|]. cbn [split_all]. destruct (c =? ch); [discriminate|].
  destruct (split_all ch r); [congruence|discriminate].
Qed.
Lemma split_all_trailing : forall s, split_all 38 (s ++ [38]) = split_all 38 s ++ [[]].
Proof.
  induction s as [|c r IH]; [reflexivity|]. cbn [app split_all]. destruct (c =? 38).
  - rewrite IH. reflexivity.
  - rewrite IH. pose proof (split_all_ne 38 r) as Hne. destruct (split_all 38 r) as [|x l]; [congruence|reflexivity].
Qed.
Lemma drop_last_snoc : forall l, Forall (fun it : list N => it <> []) l -> drop_last_empty (l ++ [[]]) = l.
Proof.
  induction l as [|it more IH]; intros Hf; [reflexivity|]. inversion Hf as [|? ? Hi Hm]; subst.
  destruct more as [|it2 more']; [reflexivity|].
  change (drop_last_empty ((it :: it2 :: more') ++ [[]])) with (it :: drop_last_empty ((it2 :: more') ++ [[]])).
  rewrite IH; [reflexivity|exact Hm].
Qed.
Lemma parse_urlencoded_any_trailing ps its : its <> [] -> Forall2 item_of ps its ->
  parse_urlencoded (join_amp its ++ [38]) = (ps, true).
Proof.
  intros Hne H. unfold parse_urlencoded.
  assert (Forall (fun it => ~ In 38 it) its) as Ha.
  { clear - H. induction H; constructor; [eapply item_no_amp; eauto|assumption]. }
  assert (Forall (fun it => it <> []) its) as Hn.
  { clear - H. induction H; constructor; [eapply item_nonempty; eauto|assumption]. }
  rewrite split_all_trailing, split_join by assumption. rewrite drop_last_snoc by exact Hn.
  apply parse_items_any. exact H.
Qed.

(* GET: the same pairs, and all-or-nothing on a malformed item *)
Lemma get_query_any ps its : Forall2 item_of ps its -> get_query (join_amp its) = ps.
Proof. intros H. unfold get_query. rewrite (parse_urlencoded_any ps its H). reflexivity. Qed.
Lemma get_query_all_or_nothing q : get_query q = fst (parse_urlencoded q) \/ (get_query q = [] /\ snd (parse_urlencoded q) = false).
Proof. unfold get_query. destruct (parse_urlencoded q) as [l [|]]; [left|right]; auto. Qed.

(* ---------- chunking independence of the read_full path ---------- *)
Lemma ue_loop_spec : forall chunks remaining racc, (0 < remaining)%nat ->
  ue_loop remaining racc chunks =
    if (remaining <=? length (concat chunks))%nat then Some (rev racc ++ firstn remaining (concat chunks)) else None.
Proof.
  induction chunks as [|ch0 more IH]; intros remaining racc Hr.
  - cbn [ue_loop concat length]. destruct (Nat.leb_spec remaining 0); [lia|reflexivity].
  - cbn [ue_loop concat]. rewrite !rev_append_rev, app_nil_r. rewrite app_length.
    destruct (Nat.eqb_spec (remaining - length (firstn remaining ch0)) 0) as [E|E].
    + rewrite firstn_length in E.
      assert (remaining <= length ch0)%nat as Hle by lia.
      destruct (Nat.leb_spec remaining (length ch0 + length (concat more))); [|lia].
      rewrite firstn_app. replace (remaining - length ch0)%nat with 0%nat by lia. cbn [firstn]. rewrite app_nil_r.
      rewrite rev_app_distr, rev_involutive. reflexivity.
    + rewrite firstn_length in E. assert (length ch0 < remaining)%nat as Hlt by lia.
      rewrite IH by (rewrite firstn_length; lia).
      rewrite firstn_length. replace (Nat.min remaining (length ch0)) with (length ch0) by lia.
      rewrite (firstn_all2 ch0) by lia.
      destruct (Nat.leb_spec (remaining - length ch0) (length (concat more))); destruct (Nat.leb_spec remaining (length ch0 + length (concat more))); try lia; [|reflexivity].
      rewrite rev_app_distr, rev_involutive, <- app_assoc. f_equal. f_equal.
      rewrite firstn_app. rewrite (firstn_all2 ch0) by lia. reflexivity.
Qed.

Lemma request_plain_chunk_indep L ct declared chunks :
  request_plain L ct declared chunks = request_plain L ct declared [concat chunks].
Proof.
  unfold request_plain. destruct (Nat.eqb_spec declared 0); [reflexivity|].
  destruct (content_length_limit L <? N.of_nat declared); [reflexivity|].
  rewrite !ue_loop_spec by lia. cbn [concat]. rewrite app_nil_r. reflexivity.
Qed.

(* it is the request-level model that the service harness is compared with *)
Lemma request_plain_is_service L ct declared body : is_mp ct = false ->
  let r := request_service L false ct declared body in
  request_plain L ct declared [body] = (sv_status r, sv_pairs r).
Proof.
  intros Hm. cbv zeta. unfold request_plain, request_service. rewrite Hm.
  destruct (Nat.eqb_spec declared 0); [reflexivity|].
  destruct (content_length_limit L <? N.of_nat declared); [reflexivity|].
  rewrite ue_loop_spec by lia. cbn [concat rev app]. rewrite app_nil_r.
  rewrite firstn_length.
  destruct (Nat.leb_spec declared (length body)); destruct (Nat.eqb_spec (Nat.min declared (length body)) declared); try lia; reflexivity.
Qed.

(* limits at n-1 / n / n+1 *)
Lemma plain_limit_exact ct n body : (0 < n)%nat -> length body = n ->
  fst (request_plain (mklim (N.of_nat n) 0) ct n [body]) = 200 /\
  fst (request_plain (mklim (N.of_nat n + 1) 0) ct n [body]) = 200 /\
  request_plain (mklim (N.of_nat n - 1) 0) ct n [body] = (413, []).
Proof.
  intros Hn Hl. unfold request_plain. destruct (Nat.eqb_spec n 0); [lia|]. cbn [content_length_limit].
  rewrite ue_loop_spec by lia. cbn [concat]. rewrite app_nil_r, Hl.
  destruct (Nat.leb_spec n n); [|lia].
  destruct (N.ltb_spec (N.of_nat n) (N.of_nat n)); [lia|].
  destruct (N.ltb_spec (N.of_nat n + 1) (N.of_nat n)); [lia|].
  destruct (N.ltb_spec (N.of_nat n - 1) (N.of_nat n)); [|lia].
  repeat split; reflexivity.
Qed.
