(* C12 proofs, part 15: the aborting filter (feed_ab) is independent of where the input is cut *)
From CppcmsV Require Import Base.Tac C12.Defs C12.Proofs C12.Filter C12.MoreDefs.
Local Open Scope N_scope.

Lemma doomed_ab bnd lim k : forall b s a, b <> [] -> st s = SepBoundary -> size_ok lim (cur s) = false ->
  feed_ab bnd lim k s b a = (OStop 413, a).
Proof.
  induction b as [|c r IH]; intros s a Hb Hst Hsz; [congruence|].
  cbn [feed_ab]. unfold step. rewrite Hst.
  destruct (msep bnd (pos s) c) as [emit p].
  pose proof (size_ok_add lim (cur s) emit Hsz) as Hsz'.
  destruct (negb (Nat.eqb p 0) && Nat.eqb p (length bnd)).
  - cbn [ev_ok last_file rfiles]. rewrite Hsz'. reflexivity.
  - destruct r as [|c2 r2].
    + cbn [is_nil ev_ok cur]. rewrite Hsz'. reflexivity.
    + cbn [is_nil ev_ok fev_upd]. cbv zeta. apply IH; [discriminate|reflexivity|exact Hsz'].
Qed.

Definition then_feed_ab bnd lim k (o : outcome * fev) (b : list N) : outcome * fev :=
  match o with
  | (OGo s', a) => feed_ab bnd lim k s' b a
  | (OEof _, a) => (OStop 400, a)
  | (OStop c, a) => (OStop c, a)
  end.

Lemma feed_ab_app bnd lim k : forall a b s acc, inv s -> b <> [] ->
  feed_ab bnd lim k s (a ++ b) acc = then_feed_ab bnd lim k (feed_ab bnd lim k s a acc) b.
Proof.
  induction a as [|c r IH]; intros b s acc Hi Hb.
  - reflexivity.
  - cbn [app feed_ab]. rewrite (is_nil_app_r r b Hb).
    destruct r as [|c2 r2].
    + cbn [is_nil app].
      pose proof (step_last_rel bnd lim s c Hi) as R.
      inversion R as [ | |s1|s1 e He|s1|s1 Hs1]; cbn [then_feed_ab feed_ab]; try reflexivity.
      * destruct (ev_ok lim s1 e); [|reflexivity]. cbv zeta.
        destruct He as [He|He]; subst e; [|reflexivity].
        destruct (n_new (fev_upd acc s1 (Some EvMeta)) =? k); reflexivity.
      * cbn [ev_ok fev_upd]. destruct (size_ok lim (cur s1)) eqn:Hsz; [reflexivity|].
        cbn [then_feed_ab]. apply doomed_ab; assumption.
    + cbn [is_nil].
      destruct (step bnd s c false) as [s1 e| | |s1] eqn:Hs; try reflexivity.
      * destruct (ev_ok lim s1 e); [|reflexivity]. cbv zeta.
        assert (inv s1) as Hi1 by (eapply step_inv; eauto).
        destruct e as [[| | |]|]; try (apply IH; [exact Hi1|exact Hb]).
        destruct (n_new (fev_upd acc s1 (Some EvMeta)) =? k); [reflexivity|apply IH; [exact Hi1|exact Hb]].
      * exfalso. eapply step_false_not_eof; eauto.
Qed.
