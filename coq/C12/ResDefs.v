(* C12: resource model of the upload file objects (private/http_file_buffer.h file_buffer put side,
   src/http_file.cpp file::close / ~file / save_to / make_permanent, the owners of the objects in
   private/multipart_parser.h (file_, files_) and src/http_request.cpp (mp, files_, post_)).
   Definitions only.  I/O is assumed to succeed (fopen / fwrite / fclose / rename / remove). *)
From Coq Require Import NArith List Bool.
From CppcmsV Require Import C12.Defs.
Import ListNotations.
Local Open Scope N_scope.

(* one http::file with its file_buffer.  g_* are ghost counters of the system calls made for this object:
   fopen(name,"w+b") (creates the directory entry and opens a descriptor), fclose, and remove()/rename()
   (the entry leaves the upload directory). *)
Record fobj := mkfo {
  o_inmem : bool;     (* file_buffer::in_memory_ *)
  o_used : N;         (* pptr() - pbase() *)
  o_cap : N;          (* epptr() - pbase() *)
  o_fsize : N;        (* file_size_ *)
  o_open : bool;      (* f_ != 0 *)
  o_named : bool;     (* name_ chosen = fopen has created the file *)
  o_closed : bool;    (* closed_ *)
  o_removed : bool;   (* file::removed_ *)
  o_temp : bool;      (* file::file_temporary_ *)
  g_create : N; g_close : N; g_remove : N }.

Definition fo_new : fobj := mkfo true 0 0 0 false false false false true 0 0 0.
Definition fo_size (o : fobj) : N := o_fsize o + o_used o.                 (* file_buffer::size() *)
Definition fo_on_disk (o : fobj) : bool := o_named o && negb (o_removed o).  (* an entry in the upload directory *)

Definition buffer_size : N := 1024.

(* streambuf::sputc on the put area of file_buffer: room left, else overflow(c) *)
Definition fo_putc (limit : N) (o : fobj) : fobj :=
  if o_used o <? o_cap o then
    mkfo (o_inmem o) (o_used o + 1) (o_cap o) (o_fsize o) (o_open o) (o_named o) (o_closed o) (o_removed o) (o_temp o)
         (g_create o) (g_close o) (g_remove o)
  else if o_inmem o then
    if limit <=? o_used o then
      (* to_file(): write_buffer() opens the file and writes the bytes held in memory; 1 KiB put area *)
      mkfo false 1 buffer_size (o_fsize o + o_used o) true true (o_closed o) (o_removed o) (o_temp o)
           (g_create o + 1) (g_close o) (g_remove o)
    else
      let d := 2 * o_cap o in
      let d := if d =? 0 then 64 else d in
      let d := if limit <? d then limit else d in
      mkfo true (o_used o + 1) d (o_fsize o) (o_open o) (o_named o) (o_closed o) (o_removed o) (o_temp o)
           (g_create o) (g_close o) (g_remove o)
  else
    (* write_buffer(): flush the put area to the file, then store c *)
    mkfo false 1 (o_cap o) (o_fsize o + o_used o) (o_open o) (o_named o) (o_closed o) (o_removed o) (o_temp o)
         (g_create o) (g_close o) (g_remove o).

(* the bytes of one entry, as the boundary matcher writes them (sputn of a re-emitted prefix = sputc per byte) *)
Fixpoint fo_write (limit : N) (o : fobj) (data : list N) : fobj :=
  match data with
  | [] => o
  | _ :: r => fo_write limit (fo_putc limit o) r
  end.

(* file_buffer::close() *)
Definition fb_close (o : fobj) : fobj :=
  if o_closed o then o
  else mkfo (o_inmem o) 0 0 (if o_inmem o then o_fsize o else o_fsize o + o_used o) false (o_named o) true (o_removed o) (o_temp o)
            (g_create o) (if o_open o then g_close o + 1 else g_close o) (g_remove o).

(* file::close() *)
Definition fo_close (o : fobj) : fobj :=
  if negb (o_inmem o) && negb (o_removed o) then
    let o1 := fb_close o in
    if o_temp o && o_named o then
      mkfo (o_inmem o1) (o_used o1) (o_cap o1) (o_fsize o1) (o_open o1) (o_named o1) (o_closed o1) true (o_temp o1)
           (g_create o1) (g_close o1) (g_remove o1 + 1)
    else o1
  else fb_close o.

(* file::~file(): close(), then ~file_buffer() closes f_ if it is still open *)
Definition fo_destroy (o : fobj) : fobj :=
  let o1 := fo_close o in
  if o_open o1 then
    mkfo (o_inmem o1) (o_used o1) (o_cap o1) (o_fsize o1) false (o_named o1) (o_closed o1) (o_removed o1) (o_temp o1)
         (g_create o1) (g_close o1 + 1) (g_remove o1)
  else o1.

(* file::save_to(target) on POSIX, rename() succeeding (same file system): in memory -> copy only *)
Definition fo_save (o : fobj) : fobj :=
  if o_inmem o then o
  else
    let moved := fo_on_disk o in      (* rename() moves the entry away if it is still there *)
    let o1 := fb_close o in
    mkfo (o_inmem o1) (o_used o1) (o_cap o1) (o_fsize o1) (o_open o1) (o_named o1) (o_closed o1) true (o_temp o1)
         (g_create o1) (g_close o1) (if moved then g_remove o1 + 1 else g_remove o1).

Definition fo_permanent (o : fobj) : fobj :=
  mkfo (o_inmem o) (o_used o) (o_cap o) (o_fsize o) (o_open o) (o_named o) (o_closed o) (o_removed o) false
       (g_create o) (g_close o) (g_remove o).

(* what the application may do with the k-th object of request::files() while it runs *)
Inductive act := AClose (k : nat) | ASave (k : nat) | APerm (k : nat) | AKeep (k : nat).

Fixpoint upd {A} (k : nat) (f : A -> A) (l : list A) : list A :=
  match l, k with
  | [], _ => []
  | x :: r, O => f x :: r
  | x :: r, S k' => x :: upd k' f r
  end.

(* objects handed to the application carry a flag: the application keeps a shared_ptr beyond the request *)
Definition aobj := (fobj * bool)%type.
Definition app_act (objs : list aobj) (a : act) : list aobj :=
  match a with
  | AClose k => upd k (fun p => (fo_close (fst p), snd p)) objs
  | ASave k => upd k (fun p => (fo_save (fst p), snd p)) objs
  | APerm k => upd k (fun p => (fo_permanent (fst p), snd p)) objs
  | AKeep k => upd k (fun p => (fst p, true)) objs
  end.
Definition app_run (objs : list aobj) (acts : list act) : list aobj := fold_left app_act acts objs.

(* observation = what the harness counts: descriptors open on upload files, entries in the upload directory *)
Definition n_open (l : list fobj) : N := N.of_nat (length (filter o_open l)).
Definition n_disk (l : list fobj) : N := N.of_nat (length (filter fo_on_disk l)).
Definition snap (l : list fobj) : N * N := (n_open l, n_disk l).

(* the objects of one request after its content has been parsed: one per completed entry (parser files_)
   and the entry in progress (parser file_: fresh and empty after a completed entry) *)
Definition entry_obj (mem : N) (f : pfile) : fobj := fo_write mem fo_new (f_rdata f).   (* only the number of bytes matters *)

Inductive how := HReady (acts : list act) | HRefused | HAborted.

(* snapshots: (1) when the content has been dealt with - the application is about to run, or the request
   has just been refused / the connection has just broken; (2) when the application returns; (3) when the
   request object has been destroyed; (4) when the application has dropped the references it kept *)
Record life := mklife { l_start : N * N; l_app_end : N * N; l_destroyed : N * N; l_released : N * N;
                        l_final : list fobj }.

Definition lifecycle (mem : N) (done : list pfile) (cur : option pfile) (h : how) : life :=
  let objs := map (entry_obj mem) done in
  let curo := match cur with Some f => entry_obj mem f | None => fo_new end in
  match h with
  | HReady acts =>
      (* multipart_parser.reset() destroys file_; the entries without MIME type are copied into post() and
         destroyed when the local vector mp goes out of scope; the others move to request::files_ *)
      let curo' := fo_destroy curo in
      let fields := map (fun p => fo_destroy (snd p)) (filter (fun p => negb (has_mime (fst p))) (combine done objs)) in
      let files := map (fun p => (snd p, false)) (filter (fun p => has_mime (fst p)) (combine done objs)) in
      let s1 := snap (curo' :: fields ++ map fst files) in
      let files2 := app_run files acts in
      let s2 := snap (curo' :: fields ++ map fst files2) in
      let files3 := map (fun p : aobj => if snd p then p else (fo_destroy (fst p), false)) files2 in
      let s3 := snap (curo' :: fields ++ map fst files3) in
      let files4 := map (fun p : aobj => if snd p then fo_destroy (fst p) else fst p) files3 in
      mklife s1 s2 s3 (snap (curo' :: fields ++ files4)) (curo' :: fields ++ files4)
  | _ =>
      (* 400 / 413 / broken connection: the parser stays in the request until the request is destroyed *)
      let s1 := snap (curo :: objs) in
      let fin := map fo_destroy (curo :: objs) in
      mklife s1 s1 (snap fin) (snap fin) fin
  end.

(* the per-object protocol, in terms of the ghost counters *)
Definition obj_balanced (o : fobj) : Prop :=
  o_open o = false /\ g_close o = g_create o /\ g_create o <= 1 /\ g_remove o <= g_create o.
Definition obj_gone (o : fobj) : Prop := obj_balanced o /\ g_remove o = g_create o /\ fo_on_disk o = false.
