(* C12 proofs, part 3: limits and status codes of the request-level driver. *)
From CppcmsV Require Import Base.Tac C12.Defs C12.Proofs C12.Matcher.
Local Open Scope N_scope.

(* declared length over the multipart limit: 413 before a single byte is looked at *)
Lemma declared_over_limit L ct declared chunks :
  declared <> 0%nat -> multipart_limit L < N.of_nat declared ->
  request_multipart L ct declared chunks = RStatus 413.
Proof.
  intros H0 H. unfold request_multipart.
  destruct (Nat.eqb_spec declared 0) as [E|E]; [contradiction|].
  apply N.ltb_lt in H. rewrite H. reflexivity.
Qed.

(* no usable boundary parameter: 400 *)
Lemma no_boundary_400 L ct declared chunks :
  declared <> 0%nat -> N.of_nat declared <= multipart_limit L -> ct_boundary ct = FOk [] ->
  request_multipart L ct declared chunks = RStatus 400.
Proof.
  intros H0 H Hb. unfold request_multipart.
  destruct (Nat.eqb_spec declared 0) as [E|E]; [contradiction|].
  assert (multipart_limit L <? N.of_nat declared = false) as Hl by (apply N.ltb_ge; exact H).
  rewrite Hl, Hb. reflexivity.
Qed.

(* a result is published exactly when the declared number of bytes, fed as they arrive, end in the
   closing delimiter on the very last declared byte *)
Lemma ready_iff bnd lim declared chunks fs :
  req_loop bnd lim declared init_state chunks = RReady fs <->
  (declared <> 0%nat /\ (declared <= length (concat chunks))%nat /\
   exists s', feed bnd lim init_state (firstn declared (concat chunks)) = OEof s' /\ fs = rev (rfiles s')).
Proof.
  rewrite req_chunk_indep. cbn [req_loop].
  destruct (firstn declared (concat chunks)) as [|x l] eqn:Hf.
  - split; [discriminate|]. intros [H0 [Hle [s' [H _]]]]. discriminate.
  - rewrite <- Hf.
    assert (declared <> 0%nat) as H0 by (intros E; subst; cbn in Hf; discriminate).
    pose proof (firstn_length declared (concat chunks)) as Hl.
    destruct (feed bnd lim init_state (firstn declared (concat chunks))) as [s1|s1|c] eqn:Hfeed.
    + split.
      * destruct (Nat.eqb _ 0); [discriminate|]. cbn [req_loop]. discriminate.
      * intros [_ [_ [s' [H _]]]]. discriminate.
    + destruct (Nat.eqb_spec (declared - length (firstn declared (concat chunks))) 0) as [E|E].
      * split.
        -- intros H. inversion H; subst. split; [exact H0|]. split; [lia|]. exists s1. split; reflexivity.
        -- intros [_ [_ [s' [H1 H2]]]]. inversion H1; subst. reflexivity.
      * split; [discriminate|]. intros [_ [Hle _]]. exfalso. apply E. lia.
    + split; [discriminate|]. intros [_ [_ [s' [H _]]]]. discriminate.
Qed.

(* a non-file field larger than content_length_limit: 413, nothing of it is delivered *)
Lemma oversized_field_413 key a : ~ In 13 key -> forall s x rest,
  st s = SepBoundary -> pos s = 0%nat -> rest <> [] -> ~ occurs (make_boundary key) x ->
  f_mime (cur s) = [] -> f_rdata (cur s) = [] -> a < N.of_nat (length x) ->
  feed (make_boundary key) (Some a) s (x ++ make_boundary key ++ rest) = OStop 413.
Proof.
  intros Hk s x rest Hst Hp Hr Hno Hm Hd Hlen.
  rewrite (part_content_exact key (Some a) Hk s x rest Hst Hp Hr Hno). cbv zeta.
  unfold size_ok, has_mime, f_size, file_with_data; cbn [f_mime f_rdata].
  rewrite Hm, Hd, app_nil_r, len_N_length, rev_length. cbn [is_nil negb orb].
  apply N.leb_gt in Hlen. rewrite Hlen. reflexivity.
Qed.

(* an entry with a MIME type (an uploaded file) is never limited per entry; a field within the limit passes *)
Lemma within_limit_continues key a : ~ In 13 key -> forall s x rest,
  st s = SepBoundary -> pos s = 0%nat -> rest <> [] -> ~ occurs (make_boundary key) x ->
  f_rdata (cur s) = [] -> (f_mime (cur s) <> [] \/ N.of_nat (length x) <= a) ->
  feed (make_boundary key) (Some a) s (x ++ make_boundary key ++ rest) =
  feed (make_boundary key) (Some a)
       (mkst OneCrlfOrEof 0 (rhdr s) empty_file (file_with_data (cur s) (rev x) :: rfiles s) false) rest.
Proof.
  intros Hk s x rest Hst Hp Hr Hno Hd Hok.
  rewrite (part_content_exact key (Some a) Hk s x rest Hst Hp Hr Hno). cbv zeta.
  rewrite Hd, app_nil_r.
  assert (size_ok (Some a) (file_with_data (cur s) (rev x)) = true) as Hs.
  { unfold size_ok, has_mime, f_size, file_with_data; cbn [f_mime f_rdata].
    rewrite len_N_length, rev_length. destruct Hok as [Hm|Hl].
    - destruct (f_mime (cur s)); [contradiction|reflexivity].
    - apply N.leb_le in Hl. rewrite Hl. apply orb_true_r. }
  rewrite Hs. reflexivity.
Qed.

(* a refusal never carries entries: the only result with a file list is RReady, and it is produced
   only by the eof branch (ready_iff); statuses produced by the model are 400, 413 and the fuel marker *)
Lemma feed_status bnd lim : forall ch s c, feed bnd lim s ch = OStop c -> c = 400 \/ c = 413 \/ c = 599.
Proof.
  induction ch as [|x r IH]; intros s c H; cbn [feed] in H; [discriminate|].
  destruct (step bnd s x (is_nil r)) as [s1 e| | |s1]; try discriminate.
  - destruct (ev_ok lim s1 e); [eapply IH; exact H|]. inversion H; auto.
  - inversion H; auto.
  - inversion H; auto.
Qed.
