(* C12 proofs, part 5: what a multipart_filter is told (on_new_file / on_data_ready) does not depend on the
   chunking, and on success it is exactly the list of delivered entries, each one once, in order. *)
From CppcmsV Require Import Base.Tac C12.Defs C12.Proofs.
Local Open Scope N_scope.

(* feed_f computes the same outcome as feed *)
Lemma feed_f_feed bnd lim : forall ch s a, fst (feed_f bnd lim s ch a) = feed bnd lim s ch.
Proof.
  induction ch as [|c r IH]; intros s a; cbn [feed_f feed]; [reflexivity|].
  destruct (step bnd s c (is_nil r)) as [s1 e| | |s1]; try reflexivity.
  destruct (ev_ok lim s1 e); [apply IH|reflexivity].
Qed.

Lemma doomed_f bnd lim : forall b s a, b <> [] -> st s = SepBoundary -> size_ok lim (cur s) = false ->
  feed_f bnd lim s b a = (OStop 413, a).
Proof.
  induction b as [|c r IH]; intros s a Hb Hst Hsz; [congruence|].
  cbn [feed_f]. unfold step. rewrite Hst.
  destruct (msep bnd (pos s) c) as [emit p].
  pose proof (size_ok_add lim (cur s) emit Hsz) as Hsz'.
  destruct (negb (Nat.eqb p 0) && Nat.eqb p (length bnd)).
  - cbn [ev_ok last_file rfiles]. rewrite Hsz'. reflexivity.
  - destruct r as [|c2 r2].
    + cbn [is_nil ev_ok cur]. rewrite Hsz'. reflexivity.
    + cbn [is_nil ev_ok fev_upd]. apply IH; [discriminate|reflexivity|exact Hsz'].
Qed.

Definition then_feed_f bnd lim (o : outcome * fev) (b : list N) : outcome * fev :=
  match o with
  | (OGo s', a) => feed_f bnd lim s' b a
  | (OEof _, a) => (OStop 400, a)
  | (OStop c, a) => (OStop c, a)
  end.

(* cutting the input anywhere changes neither the outcome nor the filter events *)
Lemma feed_f_app bnd lim : forall a b s acc, inv s -> b <> [] ->
  feed_f bnd lim s (a ++ b) acc = then_feed_f bnd lim (feed_f bnd lim s a acc) b.
Proof.
  induction a as [|c r IH]; intros b s acc Hi Hb.
  - reflexivity.
  - cbn [app feed_f]. rewrite (is_nil_app_r r b Hb).
    destruct r as [|c2 r2].
    + cbn [is_nil app].
      pose proof (step_last_rel bnd lim s c Hi) as R.
      inversion R as [ | |s1|s1 e He|s1|s1 Hs1]; cbn [then_feed_f feed_f]; try reflexivity.
      * destruct (ev_ok lim s1 e); reflexivity.
      * cbn [ev_ok fev_upd]. destruct (size_ok lim (cur s1)) eqn:Hsz; [reflexivity|].
        cbn [then_feed_f]. apply doomed_f; assumption.
    + cbn [is_nil].
      destruct (step bnd s c false) as [s1 e| | |s1] eqn:Hs; try reflexivity.
      * destruct (ev_ok lim s1 e); [|reflexivity].
        apply IH; [|exact Hb]. eapply step_inv; eauto.
      * exfalso. eapply step_false_not_eof; eauto.
Qed.

(* relation between the events and the parser state *)
Definition fev_inv (s : pstate) (a : fev) : Prop :=
  (ready s = true <-> st s = SepBoundary) /\ rreadyd a = rfiles s /\ n_new a = N.of_nat (length (rfiles s)) + (if ready s then 1 else 0).

Lemma fev_inv_init : fev_inv init_state fev0.
Proof. unfold fev_inv, init_state, fev0; cbn. split; [split; discriminate|split; reflexivity]. Qed.

Lemma step_fev_inv bnd s c last s' e a : fev_inv s a -> step bnd s c last = SGo s' e -> fev_inv s' (fev_upd a s' e).
Proof.
  unfold fev_inv, step. intros [[Hr1 Hr2] [H1 H2]] H.
  destruct (st s) eqn:Hst.
  1-4,6: assert (ready s = false) as Hr by (destruct (ready s); [specialize (Hr1 eq_refl); discriminate|reflexivity]);
         rewrite Hr in *; cbn [end_ev] in H.
  - destruct (negb (c =? nth (pos s) bnd 0)); [discriminate|].
    destruct (Nat.eqb (S (pos s)) (length bnd)); inversion H; subst; cbn [rfiles ready st]; 
      (split; [split; discriminate|]); destruct last; cbn [fev_upd]; auto.
  - destruct (c =? 13); [|destruct (c =? 45)]; inversion H; subst; cbn [rfiles ready st with_st]; rewrite ?Hr;
      (split; [split; discriminate|]); destruct last; cbn [fev_upd]; auto.
  - destruct (c =? 45); inversion H; subst; cbn [rfiles ready st with_st]; rewrite ?Hr;
      (split; [split; discriminate|]); destruct last; cbn [fev_upd]; auto.
  - destruct (c =? 13); inversion H; subst; cbn [rfiles ready st with_st]; rewrite ?Hr;
      (split; [split; discriminate|]); destruct last; cbn [fev_upd]; auto.
  - destruct (c =? 10); inversion H; subst; cbn [rfiles ready st with_st]; rewrite ?Hr;
      (split; [split; discriminate|]); destruct last; cbn [fev_upd]; auto.
  - destruct (c =? 10); [destruct last|]; discriminate.
  - assert (ready s = false) as Hr by (destruct (ready s); [specialize (Hr1 eq_refl); discriminate|reflexivity]).
    rewrite Hr in *.
    destruct (Nat.eqb _ 4).
    + destruct (process_header _ _ _); inversion H; subst; cbn [rfiles ready st fev_upd rreadyd n_new].
      split; [split; reflexivity|]. split; [exact H1|]. rewrite H2. lia.
    + inversion H; subst; cbn [rfiles ready st]. split; [split; discriminate|].
      unfold end_ev. destruct last; cbn [fev_upd]; auto.
  - assert (ready s = true) as Hr by (apply Hr2; reflexivity). rewrite Hr in *.
    destruct (msep bnd (pos s) c) as [emit p].
    destruct (negb (Nat.eqb p 0) && Nat.eqb p (length bnd)); inversion H; subst; cbn [rfiles ready st fev_upd last_file rreadyd n_new].
    + split; [split; discriminate|]. split; [rewrite H1; reflexivity|]. rewrite H2. cbn [length]. lia.
    + split; [split; reflexivity|]. destruct last; cbn [fev_upd]; auto.
Qed.

Lemma step_eof bnd s c last s1 : step bnd s c last = SEof s1 -> s1 = s /\ st s = EofLf.
Proof.
  unfold step. intros H. destruct (st s) eqn:Hst.
  - destruct (negb _); [discriminate|]. destruct (Nat.eqb _ _); discriminate.
  - destruct (c =? 13); [discriminate|]. destruct (c =? 45); discriminate.
  - destruct (c =? 45); discriminate.
  - destruct (c =? 13); discriminate.
  - destruct (c =? 10); [|discriminate]. destruct last; [|discriminate]. inversion H. split; reflexivity.
  - destruct (c =? 10); discriminate.
  - destruct (Nat.eqb _ 4); [destruct (process_header _ _ _)|]; discriminate.
  - destruct (msep bnd (pos s) c) as [emit p]. destruct (negb _ && _); discriminate.
Qed.

Lemma feed_f_inv bnd lim : forall ch s a s' a', fev_inv s a ->
  feed_f bnd lim s ch a = (OGo s', a') \/ feed_f bnd lim s ch a = (OEof s', a') ->
  match feed_f bnd lim s ch a with (OEof _, _) => rreadyd a' = rfiles s' /\ n_new a' = N.of_nat (length (rfiles s')) | _ => fev_inv s' a' end.
Proof.
  induction ch as [|c r IH]; intros s a s' a' Hi H; cbn [feed_f] in *.
  - destruct H as [H|H]; inversion H; subst. exact Hi.
  - destruct (step bnd s c (is_nil r)) as [s1 e| | |s1] eqn:Hs.
    + destruct (ev_ok lim s1 e).
      * apply IH; [eapply step_fev_inv; eauto|exact H].
      * destruct H as [H|H]; discriminate.
    + destruct H as [H|H]; discriminate.
    + destruct H as [H|H]; discriminate.
    + destruct H as [H|H]; inversion H; subst.
      destruct (step_eof _ _ _ _ _ Hs) as [E Hst]. subst s.
      destruct Hi as [[Hr1 Hr2] [H1 H2]].
      assert (ready s' = false) as Hr by (destruct (ready s'); [specialize (Hr1 eq_refl); congruence|reflexivity]).
      rewrite Hr in H2. split; [exact H1|]. rewrite H2. lia.
Qed.

(* a request that is accepted: the multipart filter has been shown exactly the delivered entries - every one
   once (on_new_file and on_data_ready counts = number of entries), complete, in order *)
Lemma filter_sees_delivered bnd lim body s' a :
  feed_f bnd lim init_state body fev0 = (OEof s', a) ->
  feed bnd lim init_state body = OEof s' /\ rreadyd a = rfiles s' /\ n_new a = N.of_nat (length (rfiles s')).
Proof.
  intros H. split.
  - rewrite <- feed_f_feed with (a := fev0). rewrite H. reflexivity.
  - pose proof (feed_f_inv bnd lim body init_state fev0 s' a fev_inv_init (or_intror H)) as Hi.
    rewrite H in Hi. exact Hi.
Qed.

(* the service-level model used by the second correspondence harness is the request model of Defs.v *)
Definition rres_of_svc (r : svc) : rres :=
  if sv_status r =? 200 then RReady (sv_entries r) else if sv_status r =? 0 then RWaiting else RStatus (sv_status r).

Lemma feed_status_f bnd lim ch s c : feed bnd lim s ch = OStop c -> c = 400 \/ c = 413 \/ c = 599.
Proof.
  revert s. induction ch as [|x r IH]; intros s H; cbn [feed] in H; [discriminate|].
  destruct (step bnd s x (is_nil r)) as [s1 e| | |s1]; try discriminate.
  - destruct (ev_ok lim s1 e); [eapply IH; exact H|]. inversion H; auto.
  - inversion H; auto.
  - inversion H; auto.
Qed.

Lemma service_is_request L ct declared body : is_mp ct = true ->
  rres_of_svc (request_service L false ct declared body) = request_multipart L ct declared [body].
Proof.
  intros Hmp. unfold request_service, request_multipart. rewrite Hmp.
  destruct (Nat.eqb declared 0) eqn:Hd0; [reflexivity|].
  destruct (multipart_limit L <? N.of_nat declared); [reflexivity|].
  destruct (ct_boundary ct) as [[|k0 key]| |]; try reflexivity.
  cbn [req_loop].
  pose proof (firstn_le_length declared body) as Hle.
  assert (Nat.eqb (length (firstn declared body)) declared = Nat.eqb (declared - length (firstn declared body)) 0) as Hc.
  { destruct (Nat.eqb_spec (length (firstn declared body)) declared) as [E|E];
    destruct (Nat.eqb_spec (declared - length (firstn declared body)) 0) as [E2|E2]; try reflexivity; lia. }
  pose proof (feed_f_feed (make_boundary (k0 :: key)) (Some (content_length_limit L)) (firstn declared body) init_state fev0) as Hf.
  destruct (firstn declared body) as [|x l] eqn:Hb.
  - cbn [feed_f length]. apply Nat.eqb_neq in Hd0.
    destruct (Nat.eqb_spec 0 declared) as [E|E]; [congruence|]. reflexivity.
  - rewrite <- Hb in *. 
    destruct (feed_f (make_boundary (k0 :: key)) (Some (content_length_limit L)) init_state (firstn declared body) fev0) as [o a].
    cbn [fst] in Hf. rewrite <- Hf.
    rewrite <- Hc.
    destruct o as [s'|s'|c].
    + destruct (Nat.eqb (length (firstn declared body)) declared) eqn:E; reflexivity.
    + destruct (Nat.eqb (length (firstn declared body)) declared); reflexivity.
    + symmetry in Hf. apply feed_status_f in Hf. unfold rres_of_svc. cbn [sv_status].
      destruct Hf as [E|[E|E]]; subst c; reflexivity.
Qed.
