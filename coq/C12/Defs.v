(* C12: executable model of cppcms::impl::multipart_parser (private/multipart_parser.h), the helpers it
   uses from private/http_protocol.h and src/http_content_type.cpp, the request-level driver
   http::request::on_content_start / on_content_progress (src/http_request.cpp) and the urlencoded
   splitter.  Bytes are N (< 256), strings are list N.  No proofs in this file. *)
From Coq Require Import NArith List Bool.
Import ListNotations.
Local Open Scope N_scope.

(* ------------------------------------------------------------------------------------------ *)
(* http_protocol.h                                                                             *)
(* ------------------------------------------------------------------------------------------ *)
Definition separator (c : N) : bool :=
  (c =? 40) || (c =? 41) || (c =? 60) || (c =? 62) || (c =? 64) || (c =? 44) || (c =? 59) || (c =? 58)
  || (c =? 92) || (c =? 34) || (c =? 47) || (c =? 91) || (c =? 93) || (c =? 63) || (c =? 61)
  || (c =? 123) || (c =? 125) || (c =? 32) || (c =? 9).
Definition to_lower (c : N) : N := if (65 <=? c) && (c <=? 90) then c + 32 else c.
(* loop condition of tocken(): 0x20 <= c <= 0x7E on a signed char, and not a separator *)
Definition tchar (c : N) : bool := (32 <=? c) && (c <=? 126) && negb (separator c).

Fixpoint token (s : list N) : list N * list N :=
  match s with
  | c :: r => if tchar c then let (t, r') := token r in (c :: t, r') else ([], s)
  | [] => ([], [])
  end.

(* skip_ws: SP, HT and the folding sequence CR LF (SP|HT), which needs p+2 < end *)
Fixpoint skip_ws (s : list N) : list N :=
  match s with
  | [] => []
  | c :: r =>
      if c =? 13 then
        match r with
        | d :: x :: r2 => if (d =? 10) && ((x =? 32) || (x =? 9)) then skip_ws r2 else s
        | _ => s
        end
      else if (c =? 32) || (c =? 9) then skip_ws r
      else s
  end.

(* unquote after the opening quote has been seen; None = no closing quote (the C++ returns an empty
   string and leaves `begin` untouched, which every caller treats as failure) *)
Fixpoint unquote_body (s : list N) (racc : list N) : option (list N * list N) :=
  match s with
  | [] => None
  | c :: r =>
      if c =? 34 then Some (rev racc, r)
      else if c =? 92 then
        match r with
        | d :: r2 => unquote_body r2 (d :: racc)
        | [] => None                     (* backslash is the last character: appended, then end reached *)
        end
      else unquote_body r (c :: racc)
  end.

(* compare(a,b)==0 : equal length and equal after ASCII lower-casing *)
Fixpoint ieq (a b : list N) : bool :=
  match a, b with
  | [], [] => true
  | x :: a', y :: b' => (to_lower x =? to_lower y) && ieq a' b'
  | _, _ => false
  end.
Fixpoint leqb (a b : list N) : bool :=
  match a, b with
  | [], [] => true
  | x :: a', y :: b' => (x =? y) && leqb a' b'
  | _, _ => false
  end.
Definition is_nil {A} (l : list A) : bool := match l with [] => true | _ => false end.

(* ------------------------------------------------------------------------------------------ *)
(* http_content_type.cpp : content_type::parse                                                 *)
(* ------------------------------------------------------------------------------------------ *)
(* result of the loops that need fuel: the fuel given by the callers is always enough (Proofs.v) *)
Inductive fres (A : Type) := FOk (a : A) | FFail | FFuel.
Arguments FOk {A} a. Arguments FFail {A}. Arguments FFuel {A}.

(* media type: Some (type/subtype lower-cased, rest) or None when the parse stops before subtype *)
Definition ct_media (s : list N) : option (list N * list N) :=
  let s1 := skip_ws s in
  let (ty, r1) := token s1 in
  if is_nil ty then None else
  match r1 with
  | c :: r2 =>
      if c =? 47 then
        let (sub, r3) := token r2 in
        if is_nil sub then None else Some (map to_lower ty ++ 47 :: map to_lower sub, r3)
      else None
  | [] => None
  end.

(* one ";name=value" pair as parsed by content_type::parse and multipart_parser::parse_pair (both
   have the same shape).  strict=true is parse_pair (p must point at ';' immediately), strict=false
   is content_type::parse (skip_ws before ';').  Result: name (not lower-cased), value, rest. *)
Definition parse_value (s4 : list N) : option (list N * list N) :=
  match s4 with
  | [] => None
  | q :: r4 =>
      if q =? 34 then unquote_body r4 []
      else let (v, r5) := token s4 in if is_nil v then None else Some (v, r5)
  end.

Definition ct_pair (s : list N) : option (list N * list N * list N) :=
  let s1 := skip_ws s in
  match s1 with
  | [] => None
  | c :: r1 =>
      if negb (c =? 59) then None else
      let s2 := skip_ws r1 in
      if is_nil s2 then None else
      let (pn, r2) := token s2 in
      if is_nil pn then None else
      let s3 := skip_ws r2 in
      match s3 with
      | [] => None
      | e :: r3 =>
          if negb (e =? 61) then None else
          match parse_value (skip_ws r3) with
          | None => None
          | Some (v, r5) => Some (pn, v, r5)
          end
      end
  end.

(* parameters in insertion order; the std::map keeps the FIRST value inserted for a key.  Parsing
   stops silently at the first malformed parameter (the earlier ones stay). *)
Fixpoint ct_params (fuel : nat) (s : list N) : fres (list (list N * list N)) :=
  match s with
  | [] => FOk []
  | _ =>
      match fuel with
      | O => FFuel
      | S k =>
          match ct_pair s with
          | None => FOk []
          | Some (pn, v, r) =>
              match ct_params k r with
              | FOk l => FOk ((map to_lower pn, v) :: l)
              | e => e
              end
          end
      end
  end.

Fixpoint assoc (k : list N) (l : list (list N * list N)) : list N :=
  match l with
  | [] => []
  | (a, v) :: r => if leqb a k then v else assoc k r
  end.

Definition s_boundary : list N := [98;111;117;110;100;97;114;121].
(* multipart_parser::set_content_type(std::string): the boundary key, [] = refused *)
Definition ct_boundary (ct : list N) : fres (list N) :=
  match ct_media ct with
  | None => FOk []
  | Some (_, r) =>
      match ct_params (S (length r)) r with
      | FOk l => FOk (assoc s_boundary l)
      | FFail => FFail
      | FFuel => FFuel
      end
  end.
Definition media_type (s : list N) : list N :=
  match ct_media s with Some (m, _) => m | None => [] end.

(* ------------------------------------------------------------------------------------------ *)
(* multipart_parser: part headers                                                              *)
(* ------------------------------------------------------------------------------------------ *)
Record pfile := mkfile { f_name : list N; f_filename : list N; f_mime : list N; f_rdata : list N }.
Definition empty_file := mkfile [] [] [] [].
Definition has_mime (f : pfile) : bool := negb (is_nil (f_mime f)).
(* tail recursive (files of 256 KiB in the extracted model) *)
Definition len_N (l : list N) : N := fold_left (fun a _ => N.succ a) l 0.
Definition f_size (f : pfile) : N := len_N (f_rdata f).
Definition f_data (f : pfile) : list N := rev_append (f_rdata f) [].   (* = rev, linear time *)
Definition set_name f v := mkfile v (f_filename f) (f_mime f) (f_rdata f).
Definition set_filename f v := mkfile (f_name f) v (f_mime f) (f_rdata f).
Definition set_mime f v := mkfile (f_name f) (f_filename f) v (f_rdata f).
Definition add_data f (emit : list N) := mkfile (f_name f) (f_filename f) (f_mime f) (rev emit ++ f_rdata f).

Definition s_filename : list N := [102;105;108;101;110;97;109;101].
Definition s_name : list N := [110;97;109;101].
Definition s_cdisp : list N := [67;111;110;116;101;110;116;45;68;105;115;112;111;115;105;116;105;111;110].
Definition s_ctype : list N := [67;111;110;116;101;110;116;45;84;121;112;101].
Definition s_formdata : list N := [102;111;114;109;45;100;97;116;97].

(* parse_pair: p must be at ';' *)
Definition parse_pair (s : list N) : option (list N * list N * list N) :=
  match s with
  | [] => None
  | c :: r1 =>
      if negb (c =? 59) then None else
      let s2 := skip_ws r1 in
      if is_nil s2 then None else
      let (pn, r2) := token s2 in
      if is_nil pn then None else
      match r2 with
      | [] => None
      | e :: r3 =>
          if negb (e =? 61) then None else
          match parse_value (skip_ws r3) with
          | None => None
          | Some (v, r5) => Some (pn, v, r5)
          end
      end
  end.

(* parse_content_disposition, after the initial skip_ws *)
Fixpoint parse_cd (fuel : nat) (s : list N) (f : pfile) : fres pfile :=
  match s with
  | [] => FOk f
  | _ =>
      match fuel with
      | O => FFuel
      | S k =>
          match parse_pair s with
          | None => FFail
          | Some (pn, v, r) =>
              let ln := map to_lower pn in
              let f' := if leqb ln s_filename then set_filename f v
                        else if leqb ln s_name then set_name f v else f in
              parse_cd k (skip_ws r) f'
          end
      end
  end.

(* one header line (without its CRLF) *)
Definition header_line (line : list N) (f : pfile) : fres pfile :=
  let p := skip_ws line in
  let (hname, r) := token p in
  let p1 := skip_ws r in
  match p1 with
  | [] => FFail
  | c :: r1 =>
      if negb (c =? 58) then FFail else
      let p2 := skip_ws r1 in
      if ieq hname s_cdisp then
        let (tok, r2) := token p2 in
        if ieq tok s_formdata then
          let r3 := skip_ws r2 in parse_cd (S (length r3)) r3 f
        else FFail
      else if ieq hname s_ctype then FOk (set_mime f (media_type p2))
      else FOk f
  end.

(* hdr.find(CRLF,pos): the text before the first CR LF and the text after it *)
Fixpoint split_crlf (s : list N) : option (list N * list N) :=
  match s with
  | [] => None
  | c :: r =>
      match r with
      | d :: r2 =>
          if (c =? 13) && (d =? 10) then Some ([], r2)
          else match split_crlf r with Some (l, t) => Some (c :: l, t) | None => None end
      | [] => None
      end
  end.

Fixpoint process_header (fuel : nat) (hdr : list N) (f : pfile) : fres pfile :=
  match hdr with
  | [] => FFail                         (* pos reached hdr.size() without an empty line *)
  | _ =>
      match fuel with
      | O => FFuel
      | S k =>
          match split_crlf hdr with
          | None => FFail
          | Some (line, rest) =>
              if is_nil line then FOk f
              else match header_line line f with
                   | FOk f' => process_header k rest f'
                   | e => e
                   end
          end
      end
  end.

(* ------------------------------------------------------------------------------------------ *)
(* multipart_parser::consume as a per-byte step                                                *)
(* ------------------------------------------------------------------------------------------ *)
Inductive pst := FirstBoundary | OneCrlfOrEof | Minus | EofCr | EofLf | Lf | CrlfCrlf | SepBoundary.
Record pstate := mkst { st : pst; pos : nat; rhdr : list N; cur : pfile; rfiles : list pfile; ready : bool }.

Definition crlfcrlf : list N := [13;10;13;10].
Definition make_boundary (key : list N) : list N := 13 :: 10 :: 45 :: 45 :: key.
Definition init_state : pstate := mkst FirstBoundary 2 [] empty_file [] false.

(* what one call of consume returns to the driver, apart from parsing_error and eof *)
Inductive ev := EvCont | EvMeta | EvPartial | EvReady.
Inductive sres := SGo (s : pstate) (e : option ev) | SErr | SFuel | SEof (s : pstate).

(* the hand-restarted boundary matcher: one character in state pos -> (bytes written to the file, new pos) *)
Definition msep (bnd : list N) (p : nat) (c : N) : list N * nat :=
  if c =? nth p bnd 0 then ([], S p)
  else match p with
       | O => ([c], O)
       | S _ => if c =? nth 0 bnd 0 then (firstn p bnd, 1%nat) else (firstn p bnd ++ [c], O)
       end.

(* the for loop ran off the end of the buffer after a `break`: content_partial iff file_is_ready_ *)
Definition end_ev (rdy : bool) (last : bool) : option ev :=
  if last then Some (if rdy then EvPartial else EvCont) else None.

Definition with_st (s : pstate) (t : pst) : pstate := mkst t (pos s) (rhdr s) (cur s) (rfiles s) (ready s).

(* last = this byte is the last one of the chunk handed to consume (buffer+1 == buffer_end) *)
Definition step (bnd : list N) (s : pstate) (c : N) (last : bool) : sres :=
  match st s with
  | FirstBoundary =>
      if negb (c =? nth (pos s) bnd 0) then SErr
      else if Nat.eqb (S (pos s)) (length bnd)
           then SGo (mkst OneCrlfOrEof 0 (rhdr s) (cur s) (rfiles s) (ready s)) (end_ev (ready s) last)
           else SGo (mkst FirstBoundary (S (pos s)) (rhdr s) (cur s) (rfiles s) (ready s)) (end_ev (ready s) last)
  | OneCrlfOrEof =>
      if c =? 13 then SGo (with_st s Lf) (end_ev (ready s) last)
      else if c =? 45 then SGo (with_st s Minus) (end_ev (ready s) last)
      else SErr
  | Minus => if c =? 45 then SGo (with_st s EofCr) (end_ev (ready s) last) else SErr
  | EofCr => if c =? 13 then SGo (with_st s EofLf) (end_ev (ready s) last) else SErr
  | EofLf => if c =? 10 then (if last then SEof s else SErr) else SErr
  | Lf => if c =? 10 then SGo (with_st s CrlfCrlf) (end_ev (ready s) last) else SErr
  | CrlfCrlf =>
      let h := c :: rhdr s in
      (* mismatch: restart at 1 when the byte is a CR (repair 3fc4520), else at 0 *)
      let p := if c =? nth (pos s) crlfcrlf 0 then S (pos s) else if c =? 13 then 1%nat else O in
      if Nat.eqb p 4 then
        let hdr := rev h in
        match process_header (S (length hdr)) hdr (cur s) with
        | FOk f => SGo (mkst SepBoundary 0 [] f (rfiles s) true) (Some EvMeta)
        | FFail => SErr
        | FFuel => SFuel
        end
      else SGo (mkst CrlfCrlf p h (cur s) (rfiles s) (ready s)) (end_ev (ready s) last)
  | SepBoundary =>
      let (emit, p) := msep bnd (pos s) c in
      let f := add_data (cur s) emit in
      if negb (Nat.eqb p 0) && Nat.eqb p (length bnd) then
        SGo (mkst OneCrlfOrEof 0 (rhdr s) empty_file (f :: rfiles s) false) (Some EvReady)
      else
        (* still inside the inner while; at the end of the buffer it returns content_partial *)
        SGo (mkst SepBoundary p (rhdr s) f (rfiles s) (ready s)) (if last then Some EvPartial else None)
  end.

(* ------------------------------------------------------------------------------------------ *)
(* drivers                                                                                     *)
(* ------------------------------------------------------------------------------------------ *)
(* request::size_ok: only entries without a MIME type (form fields) are limited; lim = None: no check
   (the bare parser as driven by the harness and by tests/multipart_parser_test.cpp) *)
Definition size_ok (lim : option N) (f : pfile) : bool :=
  match lim with
  | None => true
  | Some a => has_mime f || (f_size f <=? a)
  end.
Definition last_file (s : pstate) : pfile := match rfiles s with f :: _ => f | [] => empty_file end.
Definition ev_ok (lim : option N) (s : pstate) (e : option ev) : bool :=
  match e with
  | Some EvPartial => size_ok lim (cur s)
  | Some EvReady => size_ok lim (last_file s)
  | _ => true
  end.

(* one chunk: the loop `while(begin!=end) { r = consume(begin,end); switch(r) ... }` *)
Inductive outcome := OGo (s : pstate) | OEof (s : pstate) | OStop (code : N).
Fixpoint feed (bnd : list N) (lim : option N) (s : pstate) (chunk : list N) : outcome :=
  match chunk with
  | [] => OGo s
  | c :: rest =>
      match step bnd s c (is_nil rest) with
      | SErr => OStop 400
      | SFuel => OStop 599
      | SEof s' => OEof s'
      | SGo s' e => if ev_ok lim s' e then feed bnd lim s' rest else OStop 413
      end
  end.

(* trace of the results of the individual consume calls, as the harness prints it *)
Inductive tev := TM | TP (n : N) | TR (n : N) | TC | TE | TX.
Definition tev_of (s : pstate) (e : ev) : tev :=
  match e with
  | EvCont => TC | EvMeta => TM | EvPartial => TP (f_size (cur s)) | EvReady => TR (f_size (last_file s))
  end.
Inductive tout := TGo (s : pstate) | TEof (s : pstate) | TErr (s : pstate) | TFuel.
Fixpoint feed_trace (bnd : list N) (s : pstate) (chunk : list N) (rtr : list tev) : tout * list tev :=
  match chunk with
  | [] => (TGo s, rtr)
  | c :: rest =>
      match step bnd s c (is_nil rest) with
      | SErr => (TErr s, TX :: rtr)
      | SFuel => (TFuel, rtr)
      | SEof s' => (TEof s', TE :: rtr)
      | SGo s' e => feed_trace bnd s' rest (match e with Some e' => tev_of s' e' :: rtr | None => rtr end)
      end
  end.

(* the bare parser fed chunk by chunk (harness protocol): stop at the first eof / error; an eof that
   is not at the end of the data is reported as such *)
Inductive pstatus := PEof | PError | PIncomplete | PEarlyEof | PFuel.
Fixpoint drive (bnd : list N) (s : pstate) (chunks : list (list N)) (rtr : list tev)
  : pstatus * pstate * list tev :=
  match chunks with
  | [] => (PIncomplete, s, rtr)
  | ch :: more =>
      match feed_trace bnd s ch rtr with
      | (TGo s', tr) => drive bnd s' more tr
      | (TEof s', tr) => (if forallb is_nil more then PEof else PEarlyEof, s', tr)
      | (TErr s', tr) => (PError, s', tr)
      | (TFuel, tr) => (PFuel, s, tr)
      end
  end.

(* http::request: on_content_start, then on_content_progress per chunk.  `remaining` is
   content_length - read_size; get_buffer never hands out more room than that, so a chunk is cut to
   it (bytes beyond the declared length are not read). *)
Inductive rres := RReady (files : list pfile) | RStatus (code : N) | RWaiting.
Fixpoint req_loop (bnd : list N) (lim : option N) (remaining : nat) (s : pstate) (chunks : list (list N)) : rres :=
  match chunks with
  | [] => RWaiting
  | ch0 :: more =>
      let ch := firstn remaining ch0 in
      match ch with
      | [] => req_loop bnd lim remaining s more              (* n == 0: return 0 *)
      | _ =>
          let rem' := (remaining - length ch)%nat in
          match feed bnd lim s ch with
          | OStop c => RStatus c
          | OEof s' => if Nat.eqb rem' 0 then RReady (rev (rfiles s')) else RStatus 400
          | OGo s' => if Nat.eqb rem' 0 then RStatus 400 else req_loop bnd lim rem' s' more
          end
      end
  end.

Record limits := mklim { content_length_limit : N; multipart_limit : N }.
(* multipart/form-data request without a raw content filter; declared = CONTENT_LENGTH (>= 0) *)
Definition request_multipart (L : limits) (ct : list N) (declared : nat) (chunks : list (list N)) : rres :=
  if Nat.eqb declared 0 then RReady []
  else if multipart_limit L <? N.of_nat declared then RStatus 413
  else match ct_boundary ct with
       | FOk [] => RStatus 400
       | FOk key => req_loop (make_boundary key) (Some (content_length_limit L)) declared init_state chunks
       | _ => RStatus 599
       end.

(* what the application finally sees: form fields (no MIME type; key and value) and files, in order *)
Definition deliver_post (fs : list pfile) : list (list N * list N) :=
  map (fun f => (f_name f, f_data f)) (filter (fun f => negb (has_mime f)) fs).
Definition deliver_files (fs : list pfile) : list pfile := filter has_mime fs.

(* ------------------------------------------------------------------------------------------ *)
(* specification side: an encoder for well-formed bodies                                       *)
(* ------------------------------------------------------------------------------------------ *)
Definition quote_str (s : list N) : list N :=
  34 :: flat_map (fun c => if (c =? 34) || (c =? 92) then [92; c] else [c]) s ++ [34].
Definition crlf : list N := [13;10].
Record part := mkpart { p_name : list N; p_filename : option (list N); p_mime : list N; p_data : list N }.
Definition s_cd_prefix : list N :=   (* Content-Disposition: form-data; name= *)
  s_cdisp ++ [58;32] ++ s_formdata ++ [59;32] ++ s_name ++ [61].
Definition s_fn_prefix : list N := [59;32] ++ s_filename ++ [61].
Definition s_ct_prefix : list N := s_ctype ++ [58;32].
Definition enc_headers (p : part) : list N :=
  s_cd_prefix ++ quote_str (p_name p)
  ++ match p_filename p with Some fn => s_fn_prefix ++ quote_str fn | None => [] end ++ crlf
  ++ (if is_nil (p_mime p) then [] else s_ct_prefix ++ p_mime p ++ crlf)
  ++ crlf.
Definition enc_part (key : list N) (p : part) : list N :=
  crlf ++ enc_headers p ++ p_data p ++ make_boundary key.
Definition encode (key : list N) (ps : list part) : list N :=
  45 :: 45 :: key ++ flat_map (enc_part key) ps ++ [45;45;13;10].
Definition file_of_part (p : part) : pfile :=
  mkfile (p_name p) (match p_filename p with Some fn => fn | None => [] end) (p_mime p) (rev (p_data p)).

(* x contains y as a contiguous block *)
Fixpoint prefixb (p s : list N) : bool :=
  match p, s with
  | [], _ => true
  | x :: p', y :: s' => (x =? y) && prefixb p' s'
  | _ :: _, [] => false
  end.
Fixpoint containsb (x y : list N) : bool :=
  prefixb y x || match x with [] => false | _ :: x' => containsb x' y end.

(* the boundary matcher alone, run to the delimiter: Some (written, rest) *)
Fixpoint mrun (bnd : list N) (p : nat) (input : list N) (rout : list N) : option (list N * list N) :=
  match input with
  | [] => None
  | c :: rest =>
      let (emit, p') := msep bnd p c in
      if negb (Nat.eqb p' 0) && Nat.eqb p' (length bnd) then Some (rev (rev emit ++ rout), rest)
      else mrun bnd p' rest (rev emit ++ rout)
  end.

(* ------------------------------------------------------------------------------------------ *)
(* application/x-www-form-urlencoded (request::parse_form_urlencoded + util::urldecode)        *)
(* ------------------------------------------------------------------------------------------ *)
Definition xdigit (c : N) : bool :=
  ((48 <=? c) && (c <=? 57)) || ((97 <=? c) && (c <=? 102)) || ((65 <=? c) && (c <=? 70)).
Definition hexval (c : N) : N :=
  if c <=? 57 then c - 48 else if c <=? 70 then c - 55 else c - 87.
Fixpoint urldecode (s : list N) : list N :=
  match s with
  | [] => []
  | c :: r =>
      if c =? 43 then 32 :: urldecode r
      else if c =? 37 then
        match r with
        | h1 :: h2 :: r2 =>
            if xdigit h1 && xdigit h2 then (hexval h1 * 16 + hexval h2) :: urldecode r2
            else urldecode r
        | _ => urldecode r
        end
      else c :: urldecode r
  end.

(* std::find(p,end,ch): text before the first ch, and the text after it (None: not found) *)
Fixpoint split_at (ch : N) (s : list N) : list N * option (list N) :=
  match s with
  | [] => ([], None)
  | c :: r => if c =? ch then ([], Some r) else let (a, b) := split_at ch r in (c :: a, b)
  end.

(* the for loop of parse_form_urlencoded visits the items between ampersands; an empty item after the
   last ampersand (or an empty input) is not visited *)
Fixpoint split_all (ch : N) (s : list N) : list (list N) :=
  match s with
  | [] => [[]]
  | c :: r =>
      if c =? ch then [] :: split_all ch r
      else match split_all ch r with it :: l => (c :: it) :: l | [] => [[c]] end
  end.
Fixpoint drop_last_empty (l : list (list N)) : list (list N) :=
  match l with
  | [] => []
  | [it] => if is_nil it then [] else [it]
  | it :: more => it :: drop_last_empty more
  end.
(* returns the pairs inserted (in order) and the bool result; on failure the pairs inserted so far stay *)
Fixpoint parse_items (items : list (list N)) : list (list N * list N) * bool :=
  match items with
  | [] => ([], true)
  | it :: more =>
      let (nm, val) := split_at 61 it in
      match val with
      | None => ([], false)                 (* name_end == e *)
      | Some v =>
          if is_nil nm then ([], false)     (* name_end == p *)
          else let (l, ok) := parse_items more in ((urldecode nm, urldecode v) :: l, ok)
      end
  end.
Definition parse_urlencoded (s : list N) : list (list N * list N) * bool :=
  parse_items (drop_last_empty (split_all 38 s)).

(* ------------------------------------------------------------------------------------------ *)
(* the request as the whole service sees it (harness/C12_service.cpp): what the filters are told  *)
(* ------------------------------------------------------------------------------------------ *)
(* multipart_filter callbacks that do not depend on the chunking: number of on_new_file calls and the
   entries handed to on_data_ready (most recent first).  size_ok is tested BEFORE the callback. *)
Record fev := mkfev { n_new : N; rreadyd : list pfile }.
Definition fev0 : fev := mkfev 0 [].
Definition fev_upd (a : fev) (s : pstate) (e : option ev) : fev :=
  match e with
  | Some EvMeta => mkfev (N.succ (n_new a)) (rreadyd a)
  | Some EvReady => mkfev (n_new a) (last_file s :: rreadyd a)
  | _ => a
  end.
Fixpoint feed_f (bnd : list N) (lim : option N) (s : pstate) (chunk : list N) (a : fev) : outcome * fev :=
  match chunk with
  | [] => (OGo s, a)
  | c :: rest =>
      match step bnd s c (is_nil rest) with
      | SErr => (OStop 400, a)
      | SFuel => (OStop 599, a)
      | SEof s' => (OEof s', a)
      | SGo s' e => if ev_ok lim s' e then feed_f bnd lim s' rest (fev_upd a s' e) else (OStop 413, a)
      end
  end.

Definition s_mp_media : list N :=      (* multipart/form-data *)
  [109;117;108;116;105;112;97;114;116;47;102;111;114;109;45;100;97;116;97].
Definition s_ue_media : list N :=      (* application/x-www-form-urlencoded *)
  [97;112;112;108;105;99;97;116;105;111;110;47;120;45;119;119;119;45;102;111;114;109;45;117;114;108;101;110;99;111;100;101;100].
Definition is_mp (ct : list N) : bool := leqb (media_type ct) s_mp_media.
Definition is_ue (ct : list N) : bool := leqb (media_type ct) s_ue_media.

(* sv_status: 200 = the application ran with the content; 0 = still waiting when the input ended (the
   connection is dropped without an answer); otherwise the HTTP status of the refusal *)
Record svc := mksvc { sv_status : N; sv_entries : list pfile; sv_pairs : list (list N * list N);
                      sv_fev : fev; sv_raw : list N }.
Definition request_service (L : limits) (raw_filter : bool) (ct : list N) (declared : nat) (body : list N) : svc :=
  let b := firstn declared body in
  let complete := Nat.eqb (length b) declared in
  if Nat.eqb declared 0 then mksvc 200 [] [] fev0 []
  else if is_mp ct then
    if multipart_limit L <? N.of_nat declared then mksvc 413 [] [] fev0 []
    else if raw_filter then mksvc (if complete then 200 else 0) [] [] fev0 b
    else match ct_boundary ct with
         | FOk [] => mksvc 400 [] [] fev0 []
         | FOk key =>
             match feed_f (make_boundary key) (Some (content_length_limit L)) init_state b fev0 with
             | (OStop c, a) => mksvc c [] [] a []
             | (OEof s', a) => if complete then mksvc 200 (rev (rfiles s')) [] a [] else mksvc 400 [] [] a []
             | (OGo s', a) => if complete then mksvc 400 [] [] a [] else mksvc 0 [] [] a []
             end
         | _ => mksvc 599 [] [] fev0 []
         end
  else
    if content_length_limit L <? N.of_nat declared then mksvc 413 [] [] fev0 []
    else if raw_filter then mksvc (if complete then 200 else 0) [] [] fev0 b
    else if complete then mksvc 200 [] (if is_ue ct then fst (parse_urlencoded b) else []) fev0 []
    else mksvc 0 [] [] fev0 [].
