(* C12 proofs, part 4: decode (encode parts) = parts, through the whole state machine. *)
From CppcmsV Require Import Base.Tac C12.Defs C12.Proofs C12.Matcher C12.Limits.
Local Open Scope N_scope.

(* ---------- lexical helpers ---------- *)
Lemma token_app t c r : forallb tchar t = true -> tchar c = false -> token (t ++ c :: r) = (t, c :: r).
Proof.
  induction t as [|x t IH]; intros Ht Hc; cbn [app token].
  - rewrite Hc. reflexivity.
  - cbn [forallb] in Ht. apply andb_true_iff in Ht. destruct Ht as [Hx Ht].
    rewrite Hx, (IH Ht Hc). reflexivity.
Qed.

Lemma skip_ws_nows c r : c <> 13 -> c <> 32 -> c <> 9 -> skip_ws (c :: r) = c :: r.
Proof.
  intros H1 H2 H3. cbn [skip_ws].
  destruct (N.eqb_spec c 13); [contradiction|].
  destruct (N.eqb_spec c 32); [contradiction|].
  destruct (N.eqb_spec c 9); [contradiction|]. reflexivity.
Qed.

Lemma skip_ws_sp r : skip_ws (32 :: r) = skip_ws r.
Proof. reflexivity. Qed.

Definition esc1 (c : N) : list N := if (c =? 34) || (c =? 92) then [92; c] else [c].
Lemma quote_str_eq s : quote_str s = 34 :: flat_map esc1 s ++ [34].
Proof. reflexivity. Qed.

Lemma unquote_quote s : forall tail racc,
  unquote_body (flat_map esc1 s ++ 34 :: tail) racc = Some (rev racc ++ s, tail).
Proof.
  induction s as [|c s IH]; intros tail racc.
  - cbn [flat_map app unquote_body]. rewrite N.eqb_refl, app_nil_r. reflexivity.
  - cbn [flat_map]. unfold esc1 at 1.
    destruct (N.eqb_spec c 34) as [E1|E1].
    + subst c. cbn [orb app unquote_body].
      change (92 =? 34) with false. change (92 =? 92) with true. cbv iota.
      rewrite IH. cbn [rev]. rewrite <- app_assoc. reflexivity.
    + destruct (N.eqb_spec c 92) as [E2|E2].
      * subst c. cbn [orb app unquote_body].
        change (92 =? 34) with false. change (92 =? 92) with true. cbv iota.
        rewrite IH. cbn [rev]. rewrite <- app_assoc. reflexivity.
      * cbn [orb app unquote_body].
        destruct (N.eqb_spec c 34); [contradiction|]. destruct (N.eqb_spec c 92); [contradiction|].
        rewrite IH. cbn [rev]. rewrite <- app_assoc. reflexivity.
Qed.

Lemma parse_value_quoted s tail : parse_value (quote_str s ++ tail) = Some (s, tail).
Proof.
  rewrite quote_str_eq. cbn [app parse_value]. rewrite N.eqb_refl.
  rewrite <- app_assoc. cbn [app]. apply (unquote_quote s tail []).
Qed.

Lemma no13_esc s : ~ In 13 s -> ~ In 13 (flat_map esc1 s).
Proof.
  intros H Hin. apply in_flat_map in Hin. destruct Hin as [c [Hc Hin]]. unfold esc1 in Hin.
  destruct ((c =? 34) || (c =? 92)); cbn in Hin.
  - destruct Hin as [E|[E|[]]]; [discriminate|subst; contradiction].
  - destruct Hin as [E|[]]. subst; contradiction.
Qed.
Lemma no13_quote s : ~ In 13 s -> ~ In 13 (quote_str s).
Proof.
  intros H. rewrite quote_str_eq. intros [E|Hin]; [discriminate|].
  apply in_app_or in Hin. destruct Hin as [Hin|[E|[]]]; [|discriminate].
  exact (no13_esc s H Hin).
Qed.

(* ---------- one pair of a Content-Disposition header ---------- *)
Lemma parse_pair_name v tail :
  parse_pair (59 :: 32 :: s_name ++ 61 :: quote_str v ++ tail) = Some (s_name, v, tail).
Proof.
  unfold parse_pair. change (negb (59 =? 59)) with false. cbv iota.
  rewrite skip_ws_sp.
  change (s_name ++ 61 :: quote_str v ++ tail) with (110 :: (tl s_name ++ 61 :: quote_str v ++ tail)).
  rewrite skip_ws_nows by discriminate.
  change (110 :: (tl s_name ++ 61 :: quote_str v ++ tail)) with (s_name ++ 61 :: quote_str v ++ tail).
  change (is_nil (s_name ++ 61 :: quote_str v ++ tail)) with false. cbv iota.
  rewrite token_app by reflexivity. cbn [is_nil s_name]. cbv iota.
  change (negb (61 =? 61)) with false. cbv iota.
  rewrite quote_str_eq. cbn [app]. rewrite skip_ws_nows by discriminate.
  change (34 :: (flat_map esc1 v ++ [34]) ++ tail) with (quote_str v ++ tail).
  rewrite parse_value_quoted. reflexivity.
Qed.

Lemma parse_pair_filename v tail :
  parse_pair (59 :: 32 :: s_filename ++ 61 :: quote_str v ++ tail) = Some (s_filename, v, tail).
Proof.
  unfold parse_pair. change (negb (59 =? 59)) with false. cbv iota.
  rewrite skip_ws_sp.
  change (s_filename ++ 61 :: quote_str v ++ tail) with (102 :: (tl s_filename ++ 61 :: quote_str v ++ tail)).
  rewrite skip_ws_nows by discriminate.
  change (102 :: (tl s_filename ++ 61 :: quote_str v ++ tail)) with (s_filename ++ 61 :: quote_str v ++ tail).
  change (is_nil (s_filename ++ 61 :: quote_str v ++ tail)) with false. cbv iota.
  rewrite token_app by reflexivity. cbn [is_nil s_filename]. cbv iota.
  change (negb (61 =? 61)) with false. cbv iota.
  rewrite quote_str_eq. cbn [app]. rewrite skip_ws_nows by discriminate.
  change (34 :: (flat_map esc1 v ++ [34]) ++ tail) with (quote_str v ++ tail).
  rewrite parse_value_quoted. reflexivity.
Qed.

(* ---------- the Content-Disposition parameter list of the encoder ---------- *)
Definition cd_params (p : part) : list N :=
  59 :: 32 :: s_name ++ 61 :: quote_str (p_name p)
  ++ match p_filename p with Some fn => s_fn_prefix ++ quote_str fn | None => [] end.
Definition hdr_file (p : part) (f : pfile) : pfile :=
  match p_filename p with
  | Some fn => set_filename (set_name f (p_name p)) fn
  | None => set_name f (p_name p)
  end.

Lemma skip_ws_nil : skip_ws [] = [].
Proof. reflexivity. Qed.

Lemma parse_cd_step k c s f : parse_cd (S k) (c :: s) f =
  match parse_pair (c :: s) with
  | None => FFail
  | Some (pn, v, r) =>
      let ln := map to_lower pn in
      parse_cd k (skip_ws r) (if leqb ln s_filename then set_filename f v else if leqb ln s_name then set_name f v else f)
  end.
Proof. reflexivity. Qed.
Lemma parse_cd_nil k f : parse_cd k [] f = FOk f.
Proof. destruct k; reflexivity. Qed.

Lemma parse_cd_params p f fuel : (3 <= fuel)%nat -> parse_cd fuel (cd_params p) f = FOk (hdr_file p f).
Proof.
  intros Hf. destruct fuel as [|[|[|k]]]; try lia. clear Hf.
  unfold cd_params, hdr_file.
  rewrite parse_cd_step, parse_pair_name. cbv zeta.
  change (leqb (map to_lower s_name) s_filename) with false.
  change (leqb (map to_lower s_name) s_name) with true. cbv iota.
  destruct (p_filename p) as [fn|].
  - unfold s_fn_prefix. cbn [app]. rewrite skip_ws_nows by discriminate.
    rewrite parse_cd_step.
    replace (59 :: 32 :: (s_filename ++ [61]) ++ quote_str fn) with (59 :: 32 :: s_filename ++ 61 :: quote_str fn ++ [])
      by (rewrite app_nil_r, <- app_assoc; reflexivity).
    rewrite parse_pair_filename. cbv zeta.
    change (leqb (map to_lower s_filename) s_filename) with true. cbv iota.
    rewrite skip_ws_nil. apply parse_cd_nil.
  - rewrite skip_ws_nil. apply parse_cd_nil.
Qed.

(* ---------- header lines ---------- *)
Definition cd_line (p : part) : list N := s_cdisp ++ [58;32] ++ s_formdata ++ cd_params p.
Definition ct_line (m : list N) : list N := s_ctype ++ 58 :: 32 :: m.

Lemma header_line_cd p f : header_line (cd_line p) f = FOk (hdr_file p f).
Proof.
  unfold header_line, cd_line.
  change (s_cdisp ++ [58;32] ++ s_formdata ++ cd_params p) with (67 :: (tl s_cdisp ++ [58;32] ++ s_formdata ++ cd_params p)).
  rewrite skip_ws_nows by discriminate.
  change (67 :: (tl s_cdisp ++ [58;32] ++ s_formdata ++ cd_params p)) with (s_cdisp ++ 58 :: (32 :: s_formdata ++ cd_params p)).
  rewrite token_app by reflexivity.
  rewrite skip_ws_nows by discriminate.
  change (negb (58 =? 58)) with false. cbv iota.
  rewrite skip_ws_sp.
  change (s_formdata ++ cd_params p) with (102 :: (tl s_formdata ++ cd_params p)).
  rewrite skip_ws_nows by discriminate.
  change (ieq s_cdisp s_cdisp) with true. cbv iota.
  change (102 :: (tl s_formdata ++ cd_params p)) with (s_formdata ++ 59 :: tl (cd_params p)).
  rewrite token_app by reflexivity.
  change (ieq s_formdata s_formdata) with true. cbv iota.
  rewrite skip_ws_nows by discriminate.
  change (59 :: tl (cd_params p)) with (cd_params p).
  apply parse_cd_params. unfold cd_params. cbn [length]. lia.
Qed.

(* MIME types the encoder may use: already in the form content_type::parse gives back *)
Definition wf_mime (m : list N) : Prop := m <> [] /\ ~ In 13 m /\ skip_ws m = m /\ media_type m = m.

Lemma header_line_ct m f : wf_mime m -> header_line (ct_line m) f = FOk (set_mime f m).
Proof.
  intros [Hne [H13 [Hws Hmt]]]. unfold header_line, ct_line.
  change (s_ctype ++ 58 :: 32 :: m) with (67 :: (tl s_ctype ++ 58 :: 32 :: m)).
  rewrite skip_ws_nows by discriminate.
  change (67 :: (tl s_ctype ++ 58 :: 32 :: m)) with (s_ctype ++ 58 :: (32 :: m)).
  rewrite token_app by reflexivity.
  rewrite skip_ws_nows by discriminate.
  change (negb (58 =? 58)) with false. cbv iota.
  rewrite skip_ws_sp, Hws.
  change (ieq s_ctype s_cdisp) with false. change (ieq s_ctype s_ctype) with true. cbv iota.
  rewrite Hmt. reflexivity.
Qed.

(* ---------- splitting the header block into lines ---------- *)
Lemma split_crlf_nocr l r : ~ In 13 l -> split_crlf (l ++ 13 :: 10 :: r) = Some (l, r).
Proof.
  induction l as [|c l IH]; intros H.
  - reflexivity.
  - assert (c <> 13) as Hc by (intros E; apply H; left; exact E).
    assert (~ In 13 l) as Hl by (intros Hin; apply H; right; exact Hin).
    cbn [app split_crlf].
    destruct (l ++ 13 :: 10 :: r) as [|d r2] eqn:E; [destruct l; discriminate|].
    destruct (N.eqb_spec c 13); [contradiction|]. cbn [andb].
    rewrite (IH Hl). reflexivity.
Qed.

Definition wf_part (key : list N) (p : part) : Prop :=
  ~ In 13 (p_name p) /\ (forall fn, p_filename p = Some fn -> ~ In 13 fn) /\
  (p_mime p = [] \/ wf_mime (p_mime p)) /\ ~ occurs (make_boundary key) (p_data p).

Lemma no13_app a b : ~ In 13 a -> ~ In 13 b -> ~ In 13 (a ++ b).
Proof. intros Ha Hb Hin. apply in_app_or in Hin. tauto. Qed.

Lemma no13_cd_line key p : wf_part key p -> ~ In 13 (cd_line p).
Proof.
  intros [Hn [Hf _]]. unfold cd_line, cd_params.
  apply no13_app; [vm_compute; intuition discriminate|].
  apply no13_app; [vm_compute; intuition discriminate|].
  apply no13_app; [vm_compute; intuition discriminate|].
  change (59 :: 32 :: s_name ++ 61 :: quote_str (p_name p) ++ match p_filename p with Some fn => s_fn_prefix ++ quote_str fn | None => [] end)
    with ((59 :: 32 :: s_name ++ [61]) ++ quote_str (p_name p) ++ match p_filename p with Some fn => s_fn_prefix ++ quote_str fn | None => [] end).
  apply no13_app; [vm_compute; intuition discriminate|].
  apply no13_app; [apply no13_quote; exact Hn|].
  destruct (p_filename p) as [fn|]; [|intros []].
  apply no13_app; [vm_compute; intuition discriminate|]. apply no13_quote. apply Hf. reflexivity.
Qed.

Lemma enc_headers_eq p : enc_headers p =
  cd_line p ++ 13 :: 10 :: (if is_nil (p_mime p) then [] else ct_line (p_mime p) ++ [13;10]) ++ [13;10].
Proof.
  unfold enc_headers, cd_line, cd_params, s_cd_prefix, ct_line, s_ct_prefix, crlf.
  rewrite <- !app_assoc. cbn [app].
  destruct (p_filename p); destruct (is_nil (p_mime p)); rewrite <- ?app_assoc; cbn [app]; rewrite <- ?app_assoc; reflexivity.
Qed.

Definition part_meta (p : part) : pfile :=
  mkfile (p_name p) (match p_filename p with Some fn => fn | None => [] end) (p_mime p) [].

Lemma process_header_cons k hdr f : hdr <> [] ->
  process_header (S k) hdr f =
  match split_crlf hdr with
  | None => FFail
  | Some (line, rest) =>
      if is_nil line then FOk f
      else match header_line line f with FOk f' => process_header k rest f' | e => e end
  end.
Proof. intros H. destruct hdr; [contradiction|reflexivity]. Qed.

Lemma process_header_enc key p fuel : wf_part key p -> (3 <= fuel)%nat ->
  process_header fuel (enc_headers p) empty_file = FOk (part_meta p).
Proof.
  intros Hwf Hf. pose proof (no13_cd_line key p Hwf) as Hcd.
  destruct Hwf as [Hn [Hfn [Hm Hx]]].
  destruct fuel as [|[|[|k]]]; try lia. clear Hf.
  rewrite enc_headers_eq.
  rewrite process_header_cons by (unfold cd_line; discriminate).
  rewrite split_crlf_nocr by exact Hcd.
  assert (is_nil (cd_line p) = false) as Hnn by reflexivity. rewrite Hnn.
  rewrite header_line_cd.
  destruct (p_mime p) as [|m0 m] eqn:Em.
  - cbn [is_nil app].
    rewrite process_header_cons by discriminate.
    change (split_crlf [13;10]) with (Some (@nil N, @nil N)). cbn [is_nil].
    unfold hdr_file, part_meta, set_filename, set_name, empty_file; cbn. rewrite Em.
    destruct (p_filename p); reflexivity.
  - cbn [is_nil]. destruct Hm as [Hm|Hm]; [discriminate|].
    rewrite <- app_assoc. cbn [app].
    rewrite process_header_cons by (unfold ct_line; discriminate).
    rewrite split_crlf_nocr.
    2:{ unfold ct_line. apply no13_app; [vm_compute; intuition discriminate|].
        destruct Hm as [_ [H13 _]]. intros [E|[E|Hin]]; try discriminate. exact (H13 Hin). }
    assert (is_nil (ct_line (m0 :: m)) = false) as Hnn2 by reflexivity. rewrite Hnn2.
    rewrite header_line_ct by exact Hm.
    rewrite process_header_cons by discriminate.
    change (split_crlf [13;10]) with (Some (@nil N, @nil N)). cbn [is_nil].
    unfold hdr_file, part_meta, set_filename, set_name, set_mime, empty_file; cbn. rewrite Em.
    destruct (p_filename p); reflexivity.
Qed.

(* ---------- walking the state machine over an encoded body ---------- *)
Definition S0 (files : list pfile) : pstate := mkst OneCrlfOrEof 0 [] empty_file files false.

(* the first delimiter: - - key from position 2 of the boundary *)
Lemma first_boundary bnd lim : forall n p rh cu fs rest, (length bnd - p = n)%nat -> (p < length bnd)%nat -> rest <> [] ->
  feed bnd lim (mkst FirstBoundary p rh cu fs false) (skipn p bnd ++ rest) =
  feed bnd lim (mkst OneCrlfOrEof 0 rh cu fs false) rest.
Proof.
  induction n as [|n IH]; intros p rh cu fs rest Hn Hp Hr; [lia|].
  assert (skipn p bnd = nth p bnd 0 :: skipn (S p) bnd) as Hs.
  { clear -Hp. revert p Hp. induction bnd as [|x l IHl]; intros p Hp; [cbn in Hp; lia|].
    destruct p as [|p]; [reflexivity|]. cbn [skipn nth]. apply IHl. cbn in Hp. lia. }
  rewrite Hs. cbn [app feed]. unfold step. cbn [st pos rhdr cur rfiles ready].
  rewrite N.eqb_refl. cbn [negb].
  destruct (Nat.eqb_spec (S p) (length bnd)) as [E|E].
  - rewrite skipn_all2 by lia. cbn [app].
    assert (is_nil rest = false) as Hn0 by (destruct rest; [contradiction|reflexivity]).
    rewrite Hn0. cbn [end_ev ev_ok]. reflexivity.
  - assert (is_nil (skipn (S p) bnd ++ rest) = false) as Hn0 by (apply is_nil_app_r; exact Hr).
    rewrite Hn0. cbn [end_ev ev_ok]. apply IH; [lia|lia|exact Hr].
Qed.

(* CR LF after a delimiter *)
Lemma feed_crlf bnd lim fs rest : rest <> [] ->
  feed bnd lim (S0 fs) (13 :: 10 :: rest) = feed bnd lim (mkst CrlfCrlf 0 [] empty_file fs false) rest.
Proof.
  intros Hr. assert (is_nil rest = false) as Hn0 by (destruct rest; [contradiction|reflexivity]).
  cbn [feed]. unfold step, S0. cbn [st pos rhdr cur rfiles ready is_nil].
  change (13 =? 13) with true. cbv iota. cbn [end_ev ev_ok with_st st pos rhdr cur rfiles ready].
  change (10 =? 10) with true. cbv iota. rewrite Hn0. cbn [end_ev ev_ok with_st st pos rhdr cur rfiles ready]. reflexivity.
Qed.

(* a header line without CR, read in the header state at position 0 or 2 *)
Lemma feed_hdr_nocr bnd lim : forall l p rh cu fs rest, (p = 0 \/ p = 2)%nat -> ~ In 13 l -> rest <> [] ->
  feed bnd lim (mkst CrlfCrlf p rh cu fs false) (l ++ rest) =
  feed bnd lim (mkst CrlfCrlf (if is_nil l then p else 0) (rev l ++ rh) cu fs false) rest.
Proof.
  induction l as [|c l IH]; intros p rh cu fs rest Hp H13 Hr; [reflexivity|].
  assert (c <> 13) as Hc by (intros E; apply H13; left; exact E).
  assert (~ In 13 l) as Hl by (intros Hin; apply H13; right; exact Hin).
  cbn [app feed]. unfold step. cbn [st pos rhdr cur rfiles ready].
  assert ((c =? nth p crlfcrlf 0) = false) as Hne.
  { apply N.eqb_neq. destruct Hp as [Hp|Hp]; subst p; exact Hc. }
  rewrite Hne. destruct (N.eqb_spec c 13) as [E13|_]; [congruence|]. cbn [Nat.eqb].
  assert (is_nil (l ++ rest) = false) as Hn0 by (apply is_nil_app_r; exact Hr).
  rewrite Hn0. cbn [end_ev ev_ok is_nil].
  rewrite (IH 0%nat (c :: rh) cu fs rest (or_introl eq_refl) Hl Hr).
  cbn [rev]. rewrite <- app_assoc. cbn [app]. destruct l; reflexivity.
Qed.

Lemma feed_hdr_crlf bnd lim rh cu fs rest : rest <> [] ->
  feed bnd lim (mkst CrlfCrlf 0 rh cu fs false) (13 :: 10 :: rest) =
  feed bnd lim (mkst CrlfCrlf 2 (10 :: 13 :: rh) cu fs false) rest.
Proof.
  intros Hr. assert (is_nil rest = false) as Hn0 by (destruct rest; [contradiction|reflexivity]).
  cbn [feed]. unfold step. cbn [st pos rhdr cur rfiles ready is_nil nth crlfcrlf].
  change (13 =? 13) with true. cbv iota. cbn [Nat.eqb end_ev ev_ok st pos rhdr cur rfiles ready nth crlfcrlf].
  change (10 =? 10) with true. cbv iota. rewrite Hn0. cbn [Nat.eqb end_ev ev_ok]. reflexivity.
Qed.

(* the empty line that ends the header block *)
Lemma feed_hdr_end bnd lim rh cu fs rest f : 
  process_header (S (length (rev (10 :: 13 :: rh)))) (rev (10 :: 13 :: rh)) cu = FOk f ->
  feed bnd lim (mkst CrlfCrlf 2 rh cu fs false) (13 :: 10 :: rest) =
  feed bnd lim (mkst SepBoundary 0 [] f fs true) rest.
Proof.
  intros Hph.
  cbn [feed]. unfold step at 1. cbn [st pos rhdr cur rfiles ready is_nil nth crlfcrlf].
  change (13 =? 13) with true. cbv iota. cbn [Nat.eqb end_ev ev_ok].
  unfold step at 1. cbn [st pos rhdr cur rfiles ready nth crlfcrlf].
  change (10 =? 10) with true. cbv iota. cbn [Nat.eqb].
  rewrite Hph. cbn [ev_ok]. reflexivity.
Qed.

(* closing delimiter tail: - - CR LF as the last bytes of the chunk *)
Lemma feed_closing bnd lim fs : exists s', feed bnd lim (S0 fs) [45;45;13;10] = OEof s' /\ rfiles s' = fs.
Proof.
  eexists. split.
  - cbn [feed]. unfold step, S0. cbn [st pos rhdr cur rfiles ready is_nil].
    change (45 =? 13) with false. change (45 =? 45) with true. cbv iota.
    cbn [end_ev ev_ok with_st st pos rhdr cur rfiles ready].
    change (13 =? 13) with true. change (10 =? 10) with true. cbv iota.
    cbn [end_ev ev_ok with_st st pos rhdr cur rfiles ready]. reflexivity.
  - reflexivity.
Qed.

(* the header block of one part, in the header state *)
Lemma feed_headers key lim p fs rest : wf_part key p ->
  feed (make_boundary key) lim (mkst CrlfCrlf 0 [] empty_file fs false) (enc_headers p ++ rest) =
  feed (make_boundary key) lim (mkst SepBoundary 0 [] (part_meta p) fs true) rest.
Proof.
  intros Hwf. pose proof (no13_cd_line key p Hwf) as Hcd.
  pose proof (process_header_enc key p) as Hph. specialize (Hph (S (length (enc_headers p))) Hwf).
  assert (3 <= S (length (enc_headers p)))%nat as Hlen.
  { rewrite enc_headers_eq, app_length. cbn [length]. rewrite app_length. cbn [length]. lia. }
  specialize (Hph Hlen). clear Hlen.
  destruct Hwf as [Hn [Hfn [Hm Hx]]].
  rewrite enc_headers_eq in Hph |- *.
  rewrite <- app_assoc. cbn [app].
  rewrite (feed_hdr_nocr _ lim (cd_line p) 0%nat [] empty_file fs _ (or_introl eq_refl) Hcd) by discriminate.
  assert (is_nil (cd_line p) = false) as Hnn by reflexivity. rewrite Hnn, app_nil_r.
  rewrite feed_hdr_crlf by (destruct (is_nil (p_mime p)); discriminate).
  destruct (p_mime p) as [|m0 m] eqn:Em.
  - cbn [is_nil app] in Hph |- *.
    apply feed_hdr_end. cbn [rev]. rewrite rev_involutive, <- !app_assoc. cbn [app].
    exact Hph.
  - cbn [is_nil] in Hph |- *. destruct Hm as [Hm|Hm]; [discriminate|].
    assert (~ In 13 (ct_line (m0 :: m))) as Hct.
    { unfold ct_line. apply no13_app; [vm_compute; intuition discriminate|].
      destruct Hm as [_ [H13 _]]. intros [E|[E|Hin]]; try discriminate. exact (H13 Hin). }
    rewrite <- !app_assoc. cbn [app].
    rewrite (feed_hdr_nocr _ lim (ct_line (m0 :: m)) 2%nat _ empty_file fs _ (or_intror eq_refl) Hct) by discriminate.
    assert (is_nil (ct_line (m0 :: m)) = false) as Hnn2 by reflexivity. rewrite Hnn2.
    rewrite feed_hdr_crlf by discriminate.
    apply feed_hdr_end. cbn [rev]. rewrite !rev_app_distr, rev_involutive. cbn [rev app]. rewrite rev_involutive, <- !app_assoc. cbn [app].
    rewrite <- !app_assoc in Hph. cbn [app] in Hph.
    exact Hph.
Qed.

Lemma file_of_part_meta p : file_with_data (part_meta p) (rev (p_data p)) = file_of_part p.
Proof. reflexivity. Qed.

Lemma feed_part key lim p fs rest : ~ In 13 key -> wf_part key p -> rest <> [] ->
  size_ok lim (file_of_part p) = true ->
  feed (make_boundary key) lim (S0 fs) (enc_part key p ++ rest) =
  feed (make_boundary key) lim (S0 (file_of_part p :: fs)) rest.
Proof.
  intros Hk Hwf Hr Hsz. unfold enc_part, crlf. rewrite <- !app_assoc. cbn [app].
  rewrite feed_crlf by (rewrite enc_headers_eq; unfold cd_line; discriminate).
  rewrite (feed_headers key lim p fs _ Hwf).
  destruct Hwf as [Hn [Hfn [Hm Hx]]].
  rewrite (part_content_exact key lim Hk (mkst SepBoundary 0 [] (part_meta p) fs true) (p_data p) rest eq_refl eq_refl Hr Hx).
  cbn [cur rhdr rfiles part_meta f_rdata]. cbv zeta. rewrite app_nil_r.
  change (file_with_data (part_meta p) (rev (p_data p))) with (file_of_part p).
  rewrite Hsz. reflexivity.
Qed.

Lemma feed_parts key lim : ~ In 13 key -> forall ps fs,
  Forall (wf_part key) ps -> Forall (fun p => size_ok lim (file_of_part p) = true) ps ->
  exists s', feed (make_boundary key) lim (S0 fs) (flat_map (enc_part key) ps ++ [45;45;13;10]) = OEof s' /\
             rfiles s' = rev (map file_of_part ps) ++ fs.
Proof.
  intros Hk. induction ps as [|p ps IH]; intros fs Hwf Hsz.
  - cbn [flat_map app map rev]. apply feed_closing.
  - inversion Hwf as [|p0 ps0 Hwp Hwps]; subst. inversion Hsz as [|p1 ps1 Hsp Hsps]; subst.
    cbn [flat_map]. rewrite <- app_assoc.
    rewrite (feed_part key lim p fs _ Hk Hwp) by (try exact Hsp; destruct (flat_map (enc_part key) ps); discriminate).
    destruct (IH (file_of_part p :: fs) Hwps Hsps) as [s' [Hf Hr]].
    exists s'. split; [exact Hf|]. rewrite Hr. cbn [map rev]. rewrite <- app_assoc. reflexivity.
Qed.

(* the whole body, parser level *)
Lemma feed_encode key lim ps : ~ In 13 key ->
  Forall (wf_part key) ps -> Forall (fun p => size_ok lim (file_of_part p) = true) ps ->
  exists s', feed (make_boundary key) lim init_state (encode key ps) = OEof s' /\
             rev (rfiles s') = map file_of_part ps.
Proof.
  intros Hk Hwf Hsz. unfold encode.
  change (45 :: 45 :: key ++ flat_map (enc_part key) ps ++ [45; 45; 13; 10])
    with (skipn 2 (make_boundary key) ++ (flat_map (enc_part key) ps ++ [45; 45; 13; 10])).
  unfold init_state.
  rewrite (first_boundary (make_boundary key) lim (length (make_boundary key) - 2) 2 [] empty_file [] _ eq_refl)
    by (try (cbn [make_boundary length]; lia); destruct (flat_map (enc_part key) ps); discriminate).
  destruct (feed_parts key lim Hk ps [] Hwf Hsz) as [s' [Hf Hr]].
  exists s'. split; [exact Hf|]. rewrite Hr, app_nil_r, rev_involutive. reflexivity.
Qed.

(* request level, any chunking *)
Lemma decode_encode_request L ct key ps chunks : ~ In 13 key -> key <> [] ->
  ct_boundary ct = FOk key ->
  Forall (wf_part key) ps ->
  Forall (fun p => size_ok (Some (content_length_limit L)) (file_of_part p) = true) ps ->
  concat chunks = encode key ps ->
  N.of_nat (length (encode key ps)) <= multipart_limit L ->
  request_multipart L ct (length (encode key ps)) chunks = RReady (map file_of_part ps).
Proof.
  intros Hk Hkne Hct Hwf Hsz Hcc Hlim.
  rewrite request_chunk_indep, Hcc.
  unfold request_multipart.
  assert (length (encode key ps) <> 0)%nat as Hl0 by (unfold encode; cbn [length]; lia).
  destruct (Nat.eqb_spec (length (encode key ps)) 0) as [E|_]; [contradiction|].
  assert (multipart_limit L <? N.of_nat (length (encode key ps)) = false) as Hl by (apply N.ltb_ge; exact Hlim).
  rewrite Hl, Hct. destruct key as [|k0 key']; [contradiction|].
  destruct (feed_encode (k0 :: key') (Some (content_length_limit L)) ps Hk Hwf Hsz) as [s' [Hf Hr]].
  cbn [req_loop]. rewrite firstn_all.
  destruct (encode (k0 :: key') ps) as [|x l] eqn:E; [contradiction Hl0; reflexivity|].
  rewrite Hf, Nat.sub_diag. cbn [Nat.eqb]. rewrite Hr. reflexivity.
Qed.

(* ---------- sufficient conditions for the hypotheses of decode_encode ---------- *)
Definition ltchar (c : N) : bool := tchar c && (to_lower c =? c).

Lemma token_all t : forallb tchar t = true -> token t = (t, []).
Proof.
  induction t as [|x t IH]; intros H; [reflexivity|].
  cbn [forallb] in H. apply andb_true_iff in H. destruct H as [Hx Ht].
  cbn [token]. rewrite Hx, (IH Ht). reflexivity.
Qed.

Lemma ltchar_tchar t : forallb ltchar t = true -> forallb tchar t = true.
Proof.
  induction t as [|x t IH]; intros H; [reflexivity|].
  cbn [forallb] in *. apply andb_true_iff in H. destruct H as [Hx Ht]. unfold ltchar in Hx.
  apply andb_true_iff in Hx. destruct Hx as [Hx _]. rewrite Hx, (IH Ht). reflexivity.
Qed.
Lemma ltchar_lower t : forallb ltchar t = true -> map to_lower t = t.
Proof.
  induction t as [|x t IH]; intros H; [reflexivity|].
  cbn [forallb] in H. apply andb_true_iff in H. destruct H as [Hx Ht]. unfold ltchar in Hx.
  apply andb_true_iff in Hx. destruct Hx as [_ Hx]. apply N.eqb_eq in Hx.
  cbn [map]. rewrite Hx, (IH Ht). reflexivity.
Qed.
Lemma tchar_no13 t : forallb tchar t = true -> ~ In 13 t.
Proof.
  intros H Hin. rewrite forallb_forall in H. specialize (H 13 Hin). discriminate.
Qed.
Lemma tchar_skip_ws c r : tchar c = true -> skip_ws (c :: r) = c :: r.
Proof.
  intros H. apply skip_ws_nows; intros E; subst c; discriminate.
Qed.

(* every lower-case type/subtype of token characters is a MIME type in normal form *)
Lemma wf_mime_tokens ty sub : ty <> [] -> sub <> [] -> forallb ltchar ty = true -> forallb ltchar sub = true ->
  wf_mime (ty ++ 47 :: sub).
Proof.
  intros Hty Hsub Lty Lsub.
  pose proof (ltchar_tchar ty Lty) as Tty. pose proof (ltchar_tchar sub Lsub) as Tsub.
  assert (skip_ws (ty ++ 47 :: sub) = ty ++ 47 :: sub) as Hws.
  { destruct ty as [|c ty']; [contradiction|]. cbn [app]. apply tchar_skip_ws.
    cbn [forallb] in Tty. apply andb_true_iff in Tty. tauto. }
  split; [destruct ty; [contradiction|discriminate]|]. split.
  - apply no13_app; [apply tchar_no13; exact Tty|]. intros [E|Hin]; [discriminate|]. exact (tchar_no13 sub Tsub Hin).
  - split; [exact Hws|].
    unfold media_type, ct_media. rewrite Hws.
    rewrite token_app by (try exact Tty; reflexivity).
    assert (is_nil ty = false) as N1 by (destruct ty; [contradiction|reflexivity]).
    assert (is_nil sub = false) as N2 by (destruct sub; [contradiction|reflexivity]).
    rewrite N1. change (47 =? 47) with true. cbv iota.
    rewrite (token_all sub Tsub), N2, (ltchar_lower ty Lty), (ltchar_lower sub Lsub). reflexivity.
Qed.

(* the canonical Content-Type header:  multipart/form-data; boundary="key"  (quoted, so any key) *)
Definition canonical_ct (key : list N) : list N := s_mp_media ++ 59 :: 32 :: s_boundary ++ 61 :: quote_str key.

Lemma ct_params_nil k : ct_params k [] = FOk [].
Proof. destruct k; reflexivity. Qed.

Lemma ct_boundary_canonical key : ct_boundary (canonical_ct key) = FOk key /\ is_mp (canonical_ct key) = true.
Proof.
  assert (ct_media (canonical_ct key) = Some (s_mp_media, 59 :: 32 :: s_boundary ++ 61 :: quote_str key)) as Hm.
  { unfold ct_media, canonical_ct.
    change (s_mp_media ++ 59 :: 32 :: s_boundary ++ 61 :: quote_str key)
      with (109 :: (tl s_mp_media ++ 59 :: 32 :: s_boundary ++ 61 :: quote_str key)).
    rewrite skip_ws_nows by discriminate.
    change (109 :: (tl s_mp_media ++ 59 :: 32 :: s_boundary ++ 61 :: quote_str key))
      with ([109;117;108;116;105;112;97;114;116] ++ 47 :: ([102;111;114;109;45;100;97;116;97] ++ 59 :: 32 :: s_boundary ++ 61 :: quote_str key)).
    rewrite token_app by reflexivity. cbn [is_nil]. change (47 =? 47) with true. cbv iota.
    rewrite token_app by reflexivity. reflexivity. }
  split.
  - unfold ct_boundary. rewrite Hm.
    remember (length (59 :: 32 :: s_boundary ++ 61 :: quote_str key)) as n eqn:Hn.
    cbn [ct_params].
    unfold ct_pair. rewrite skip_ws_nows by discriminate.
    change (negb (59 =? 59)) with false. cbv iota. rewrite skip_ws_sp.
    change (s_boundary ++ 61 :: quote_str key) with (98 :: (tl s_boundary ++ 61 :: quote_str key)).
    rewrite skip_ws_nows by discriminate.
    change (98 :: (tl s_boundary ++ 61 :: quote_str key)) with (s_boundary ++ 61 :: quote_str key).
    change (is_nil (s_boundary ++ 61 :: quote_str key)) with false. cbv iota.
    rewrite token_app by reflexivity. cbn [is_nil s_boundary]. cbv iota.
    rewrite skip_ws_nows by discriminate. change (negb (61 =? 61)) with false. cbv iota.
    rewrite quote_str_eq. rewrite skip_ws_nows by discriminate.
    replace (34 :: flat_map esc1 key ++ [34]) with (quote_str key ++ []) by (rewrite app_nil_r; reflexivity).
    rewrite parse_value_quoted. rewrite ct_params_nil.
    cbn [assoc]. change (leqb (map to_lower s_boundary) s_boundary) with true. reflexivity.
  - unfold is_mp, media_type. rewrite Hm. reflexivity.
Qed.

(* decode_encode with the canonical header: no hypothesis on the Content-Type left *)
Lemma decode_encode_canonical L key ps chunks : ~ In 13 key -> key <> [] ->
  Forall (wf_part key) ps ->
  Forall (fun p => size_ok (Some (content_length_limit L)) (file_of_part p) = true) ps ->
  concat chunks = encode key ps ->
  N.of_nat (length (encode key ps)) <= multipart_limit L ->
  request_multipart L (canonical_ct key) (length (encode key ps)) chunks = RReady (map file_of_part ps).
Proof.
  intros Hk Hne. apply decode_encode_request; try assumption. apply ct_boundary_canonical.
Qed.
