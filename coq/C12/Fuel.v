(* C12 proofs, part 7: the fuel given to the three fuelled loops always suffices (every iteration consumes
   input), so the fuel markers FFuel / SFuel / status 599 are unreachable. *)
From CppcmsV Require Import Base.Tac C12.Defs C12.Proofs.
Local Open Scope N_scope.

Lemma skip_ws_len : forall n s, (length s <= n)%nat -> (length (skip_ws s) <= length s)%nat.
Proof.
  induction n as [|n IH]; intros s Hn.
  - destruct s; [cbn; lia|cbn in Hn; lia].
  - destruct s as [|c r]; [cbn; lia|]. cbn [length] in Hn. cbn [skip_ws].
    destruct (c =? 13).
    + destruct r as [|d [|x r2]]; try (cbn [length]; lia).
      destruct ((d =? 10) && ((x =? 32) || (x =? 9))); [|cbn [length]; lia].
      specialize (IH r2). cbn [length] in *. lia.
    + destruct ((c =? 32) || (c =? 9)); [|cbn [length]; lia].
      specialize (IH r). cbn [length]. lia.
Qed.
Lemma skip_ws_le s : (length (skip_ws s) <= length s)%nat.
Proof. apply (skip_ws_len (length s)). lia. Qed.

Lemma token_len s : (length s = length (fst (token s)) + length (snd (token s)))%nat.
Proof.
  induction s as [|c r IH]; [reflexivity|]. cbn [token].
  destruct (tchar c); [|cbn; lia].
  destruct (token r) as [t r']. cbn [fst snd length] in *. lia.
Qed.

Lemma unquote_body_len : forall s racc v r, unquote_body s racc = Some (v, r) -> (length r < length s)%nat.
Proof.
  assert (forall n s racc v r, (length s <= n)%nat -> unquote_body s racc = Some (v, r) -> (length r < length s)%nat) as G.
  { induction n as [|n IH]; intros s racc v r Hn H.
    - destruct s; [discriminate|cbn in Hn; lia].
    - destruct s as [|c s']; [discriminate|]. cbn [length] in Hn. cbn [unquote_body] in H.
      destruct (c =? 34); [inversion H; subst; cbn [length]; lia|].
      destruct (c =? 92).
      + destruct s' as [|d r2]; [discriminate|]. apply IH in H; cbn [length] in *; lia.
      + apply IH in H; cbn [length] in *; lia. }
  intros s racc v r. apply (G (length s)). lia.
Qed.

Lemma parse_value_len s v r : parse_value s = Some (v, r) -> (length r < length s)%nat.
Proof.
  unfold parse_value. destruct s as [|q r4]; [discriminate|].
  destruct (q =? 34).
  - intros H. apply unquote_body_len in H. cbn [length]. lia.
  - pose proof (token_len (q :: r4)) as L. destruct (token (q :: r4)) as [t r5]. cbn [fst snd] in L.
    destruct t as [|t0 t']; [discriminate|]. intros H. inversion H; subst. cbn [length] in *. lia.
Qed.

Lemma ct_pair_len s pn v r : ct_pair s = Some (pn, v, r) -> (length r < length s)%nat.
Proof.
  unfold ct_pair. pose proof (skip_ws_le s) as L1.
  destruct (skip_ws s) as [|c r1]; [discriminate|]. cbn [length] in L1.
  destruct (negb (c =? 59)); [discriminate|].
  pose proof (skip_ws_le r1) as L2.
  destruct (is_nil (skip_ws r1)); [discriminate|].
  pose proof (token_len (skip_ws r1)) as L3. destruct (token (skip_ws r1)) as [t r2]. cbn [fst snd] in L3.
  destruct (is_nil t); [discriminate|].
  pose proof (skip_ws_le r2) as L4.
  destruct (skip_ws r2) as [|e r3]; [discriminate|]. cbn [length] in L4.
  destruct (negb (e =? 61)); [discriminate|].
  pose proof (skip_ws_le r3) as L5.
  destruct (parse_value (skip_ws r3)) as [[v' r5]|] eqn:Hv; [|discriminate].
  apply parse_value_len in Hv. intros H. inversion H; subst. lia.
Qed.

Lemma ct_params_fuel : forall n s, (length s < n)%nat -> ct_params n s <> FFuel.
Proof.
  induction n as [|n IH]; intros s Hn; [lia|].
  destruct s as [|c r]; [discriminate|]. cbn [ct_params].
  destruct (ct_pair (c :: r)) as [[[pn v] r']|] eqn:Hp; [|discriminate].
  apply ct_pair_len in Hp. specialize (IH r' ltac:(lia)).
  destruct (ct_params n r'); [discriminate|discriminate|contradiction].
Qed.

Lemma ct_boundary_no_fuel ct : ct_boundary ct <> FFuel /\ ct_boundary ct <> FFail.
Proof.
  unfold ct_boundary. destruct (ct_media ct) as [[m r]|]; [|split; discriminate].
  pose proof (ct_params_fuel (S (length r)) r ltac:(lia)) as F.
  destruct (ct_params (S (length r)) r) eqn:E; [split; discriminate| |contradiction].
  (* ct_params never fails *)
  exfalso. revert E. generalize (S (length r)). intros n. revert r.
  induction n as [|n IH]; intros r E; [destruct r; discriminate|].
  destruct r as [|c r]; [discriminate|]. cbn [ct_params] in E.
  destruct (ct_pair (c :: r)) as [[[pn v] r']|]; [|discriminate].
  destruct (ct_params n r') eqn:E2; try discriminate. eapply IH; exact E2.
Qed.

Lemma parse_pair_len s pn v r : parse_pair s = Some (pn, v, r) -> (length r < length s)%nat.
Proof.
  unfold parse_pair. destruct s as [|c r1]; [discriminate|]. cbn [length].
  destruct (negb (c =? 59)); [discriminate|].
  pose proof (skip_ws_le r1) as L2.
  destruct (is_nil (skip_ws r1)); [discriminate|].
  pose proof (token_len (skip_ws r1)) as L3. destruct (token (skip_ws r1)) as [t r2]. cbn [fst snd] in L3.
  destruct (is_nil t); [discriminate|].
  destruct r2 as [|e r3]; [discriminate|]. cbn [length] in L3.
  destruct (negb (e =? 61)); [discriminate|].
  pose proof (skip_ws_le r3) as L5.
  destruct (parse_value (skip_ws r3)) as [[v' r5]|] eqn:Hv; [|discriminate].
  apply parse_value_len in Hv. intros H. inversion H; subst. lia.
Qed.

Lemma parse_cd_fuel : forall n s f, (length s < n)%nat -> parse_cd n s f <> FFuel.
Proof.
  induction n as [|n IH]; intros s f Hn; [lia|].
  destruct s as [|c r]; [discriminate|]. cbn [parse_cd].
  destruct (parse_pair (c :: r)) as [[[pn v] r']|] eqn:Hp; [|discriminate].
  apply parse_pair_len in Hp. pose proof (skip_ws_le r') as L.
  apply IH. lia.
Qed.

Lemma header_line_fuel line f : header_line line f <> FFuel.
Proof.
  unfold header_line. destruct (token (skip_ws line)) as [hname r].
  destruct (skip_ws r) as [|c r1]; [discriminate|].
  destruct (negb (c =? 58)); [discriminate|].
  destruct (ieq hname s_cdisp).
  - destruct (token (skip_ws r1)) as [tok r2]. destruct (ieq tok s_formdata); [|discriminate].
    apply parse_cd_fuel. lia.
  - destruct (ieq hname s_ctype); discriminate.
Qed.

Lemma split_crlf_len : forall s l t, split_crlf s = Some (l, t) -> (length t < length s)%nat.
Proof.
  induction s as [|c r IH]; intros l t H; [discriminate|]. cbn [split_crlf] in H.
  destruct r as [|d r2]; [discriminate|].
  destruct ((c =? 13) && (d =? 10)).
  - inversion H; subst. cbn [length]. lia.
  - destruct (split_crlf (d :: r2)) as [[l' t']|] eqn:E; [|discriminate].
    inversion H; subst. specialize (IH l' t eq_refl). cbn [length] in *. lia.
Qed.

Lemma process_header_fuel : forall n hdr f, (length hdr < n)%nat -> process_header n hdr f <> FFuel.
Proof.
  induction n as [|n IH]; intros hdr f Hn; [lia|].
  destruct hdr as [|c r]; [discriminate|]. cbn [process_header].
  destruct (split_crlf (c :: r)) as [[line rest]|] eqn:Hs; [|discriminate].
  apply split_crlf_len in Hs.
  destruct (is_nil line); [discriminate|].
  pose proof (header_line_fuel line f) as HF.
  destruct (header_line line f) as [f'| |]; [|discriminate|contradiction].
  apply IH. lia.
Qed.

Lemma step_no_fuel bnd s c last : step bnd s c last <> SFuel.
Proof.
  unfold step. destruct (st s).
  - destruct (negb _); [discriminate|]. destruct (Nat.eqb _ _); discriminate.
  - destruct (c =? 13); [discriminate|]. destruct (c =? 45); discriminate.
  - destruct (c =? 45); discriminate.
  - destruct (c =? 13); discriminate.
  - destruct (c =? 10); [destruct last|]; discriminate.
  - destruct (c =? 10); discriminate.
  - destruct (Nat.eqb _ 4); [|discriminate].
    pose proof (process_header_fuel (S (length (rev (c :: rhdr s)))) (rev (c :: rhdr s)) (cur s) ltac:(lia)) as F.
    destruct (process_header _ _ _); [discriminate|discriminate|contradiction].
  - destruct (msep bnd (pos s) c) as [emit p]. destruct (negb _ && _); discriminate.
Qed.

(* the parser refuses with 400 or 413 only *)
Lemma feed_status_exact bnd lim : forall ch s c, feed bnd lim s ch = OStop c -> c = 400 \/ c = 413.
Proof.
  induction ch as [|x r IH]; intros s c H; cbn [feed] in H; [discriminate|].
  pose proof (step_no_fuel bnd s x (is_nil r)) as NF.
  destruct (step bnd s x (is_nil r)) as [s1 e| | |s1]; try discriminate; [| |contradiction].
  - destruct (ev_ok lim s1 e); [eapply IH; exact H|]. inversion H; auto.
  - inversion H; auto.
Qed.

(* a multipart request ends as: entries delivered, 400, 413, or still waiting for input *)
Lemma request_outcomes L ct declared chunks :
  match request_multipart L ct declared chunks with
  | RReady _ => True
  | RStatus c => c = 400 \/ c = 413
  | RWaiting => True
  end.
Proof.
  rewrite request_chunk_indep. unfold request_multipart.
  destruct (Nat.eqb declared 0); [exact I|].
  destruct (multipart_limit L <? N.of_nat declared); [right; reflexivity|].
  destruct (ct_boundary_no_fuel ct) as [NF1 NF2].
  destruct (ct_boundary ct) as [[|k0 key]| |]; [left; reflexivity| |contradiction|contradiction].
  cbn [req_loop].
  destruct (firstn declared (concat chunks)) as [|x l] eqn:Hf; [exact I|]. rewrite <- Hf.
  destruct (feed (make_boundary (k0 :: key)) (Some (content_length_limit L)) init_state (firstn declared (concat chunks))) as [s'|s'|c] eqn:E.
  - destruct (Nat.eqb _ 0); [left; reflexivity|exact I].
  - destruct (Nat.eqb _ 0); [exact I|left; reflexivity].
  - eapply feed_status_exact; exact E.
Qed.
