(* C12: the upload file objects when file operations FAIL (private/http_file_buffer.h write_buffer / to_file /
   sync / close, src/http_file.cpp file::close / ~file).  Definitions only.  A failing fwrite writes nothing;
   a failing fclose still releases the descriptor; remove() is assumed to succeed (if it fails nothing can be done). *)
From Coq Require Import NArith List Bool.
From CppcmsV Require Import C12.Defs C12.ResDefs.
Import ListNotations.
Local Open Scope N_scope.

Definition set_used_fsize (o : fobj) (used cap fsize : N) (inmem : bool) : fobj :=
  mkfo inmem used cap fsize (o_open o) (o_named o) (o_closed o) (o_removed o) (o_temp o) (g_create o) (g_close o) (g_remove o).

(* write_buffer(): open the file if needed (ofail: fopen fails), append the put area (wfail: fwrite fails; no
   fwrite at all when the put area is empty).  Result: state, success. *)
Definition write_buffer_f (wfail ofail : bool) (o : fobj) : fobj * bool :=
  if o_closed o then (o, false)
  else
    let opened := if o_open o then Some o
                  else if ofail then None
                  else Some (mkfo (o_inmem o) (o_used o) (o_cap o) (o_fsize o) true true (o_closed o) (o_removed o) (o_temp o)
                                  (g_create o + 1) (g_close o) (g_remove o)) in
    match opened with
    | None => (o, false)
    | Some o1 =>
        if wfail && (0 <? o_used o1) then (o1, false)
        else (set_used_fsize o1 0 (o_cap o1) (o_fsize o1 + o_used o1) (o_inmem o1), true)
    end.

(* sputc with failing operations: (state, false) = EOF returned, the parser answers no_room_left *)
Definition fo_putc_f (limit : N) (wfail ofail : bool) (o : fobj) : fobj * bool :=
  if o_used o <? o_cap o then (fo_putc limit o, true)
  else if o_inmem o then
    if limit <=? o_used o then
      match write_buffer_f wfail ofail o with
      | (o1, false) => (o1, false)                    (* to_file() failed: in_memory_ stays TRUE, the file may exist *)
      | (o1, true) => (set_used_fsize o1 1 buffer_size (o_fsize o1) false, true)
      end
    else (fo_putc limit o, true)
  else
    match write_buffer_f wfail ofail o with
    | (o1, false) => (o1, false)
    | (o1, true) => (set_used_fsize o1 1 (o_cap o1) (o_fsize o1) false, true)
    end.

(* a disk quota per file: an fwrite that would take the file beyond q bytes fails (ENOSPC / EFBIG, persistent) *)
Definition over_quota (q : option N) (o : fobj) : bool :=
  match q with Some Q => Q <? o_fsize o + o_used o | None => false end.

(* the bytes of one entry; stops at the first failure *)
Fixpoint fo_write_q (limit : N) (q : option N) (ofail : bool) (o : fobj) (data : list N) : fobj * bool :=
  match data with
  | [] => (o, true)
  | _ :: r => match fo_putc_f limit (over_quota q o) ofail o with
              | (o1, true) => fo_write_q limit q ofail o1 r
              | (o1, false) => (o1, false)
              end
  end.
(* the same with an arbitrary fault schedule (one pair of flags per byte) *)
Fixpoint fo_write_s (limit : N) (o : fobj) (data : list N) (sched : list (bool * bool)) : fobj * bool :=
  match data with
  | [] => (o, true)
  | _ :: r =>
      let (wf, of) := match sched with f :: _ => f | [] => (false, false) end in
      match fo_putc_f limit wf of o with
      | (o1, true) => fo_write_s limit o1 r (tl sched)
      | (o1, false) => (o1, false)
      end
  end.

(* sync(): write_buffer + fflush (sfail).  Called by seekg(0) at content_ready and by every read. *)
Definition fo_sync_f (wfail sfail : bool) (o : fobj) : fobj * bool :=
  if o_inmem o then (o, true)
  else match write_buffer_f wfail false o with
       | (o1, false) => (o1, false)
       | (o1, true) => (o1, negb sfail)
       end.

(* file_buffer::close() *)
Definition fb_close_f (wfail sfail cfail : bool) (o : fobj) : fobj * bool :=
  if o_closed o then (o, true)
  else match fo_sync_f wfail sfail o with
       | (o1, false) => (o1, false)
       | (o1, true) =>
           if o_open o1 then
             let o2 := mkfo (o_inmem o1) (o_used o1) (o_cap o1) (o_fsize o1) false (o_named o1) (negb cfail) (o_removed o1) (o_temp o1)
                            (g_create o1) (g_close o1 + 1) (g_remove o1) in
             (if cfail then o2 else set_used_fsize o2 0 0 (o_fsize o2) (o_inmem o2), negb cfail)
           else (mkfo (o_inmem o1) 0 0 (o_fsize o1) false (o_named o1) true (o_removed o1) (o_temp o1) (g_create o1) (g_close o1) (g_remove o1), true)
       end.

(* file::close() (since /repo 6c3ce6d the test is file_created() = f_ != 0 || !in_memory_) *)
Definition fo_close_f (wfail sfail cfail : bool) (o : fobj) : fobj :=
  let file_created := o_open o || negb (o_inmem o) in
  if file_created && negb (o_removed o) then
    let o1 := fst (fb_close_f wfail sfail cfail o) in
    if o_temp o1 && o_named o1 then
      mkfo (o_inmem o1) (o_used o1) (o_cap o1) (o_fsize o1) (o_open o1) (o_named o1) (o_closed o1) true (o_temp o1)
           (g_create o1) (g_close o1) (g_remove o1 + 1)
    else o1
  else fst (fb_close_f wfail sfail cfail o).
(* file::close() as it was before 6c3ce6d (the test was !in_memory()), kept for the regression Example *)
Definition fo_close_old (wfail sfail cfail : bool) (o : fobj) : fobj :=
  if negb (o_inmem o) && negb (o_removed o) then
    let o1 := fst (fb_close_f wfail sfail cfail o) in
    if o_temp o1 && o_named o1 then
      mkfo (o_inmem o1) (o_used o1) (o_cap o1) (o_fsize o1) (o_open o1) (o_named o1) (o_closed o1) true (o_temp o1)
           (g_create o1) (g_close o1) (g_remove o1 + 1)
    else o1
  else fst (fb_close_f wfail sfail cfail o).

(* ~file(): close(), then ~file_buffer() closes f_ if it is still open *)
Definition finish_destroy (o1 : fobj) : fobj :=
  if o_open o1 then
    mkfo (o_inmem o1) (o_used o1) (o_cap o1) (o_fsize o1) false (o_named o1) (o_closed o1) (o_removed o1) (o_temp o1)
         (g_create o1) (g_close o1 + 1) (g_remove o1)
  else o1.
Definition fo_destroy_f (wfail sfail cfail : bool) (o : fobj) : fobj := finish_destroy (fo_close_f wfail sfail cfail o).
Definition fo_destroy_old (wfail sfail cfail : bool) (o : fobj) : fobj := finish_destroy (fo_close_old wfail sfail cfail o).

(* one request under a quota: the entries are written in order until a write fails (no_room_left -> 413);
   at content_ready the last put area is flushed (out->pubsync(), since /repo eca1034 a failure is no_room_left
   as well: the entry stays the one in progress); at the end everything is destroyed.
   Result: completed entries (with: can the content be read back? - always true now), the entry in progress, failed? *)
Record frun := mkfrun { fr_done : list (fobj * bool); fr_cur : option fobj; fr_failed : bool }.
Fixpoint write_entries_q (limit : N) (q : option N) (ofail sfail : bool) (fs : list pfile) : frun :=
  match fs with
  | [] => mkfrun [] None false
  | f :: more =>
      match fo_write_q limit q ofail fo_new (f_rdata f) with
      | (o, false) => mkfrun [] (Some o) true
      | (o, true) =>
          match fo_sync_f (over_quota q o) sfail o with
          | (o1, false) => mkfrun [] (Some o1) true
          | (o1, true) =>
              let r := write_entries_q limit q ofail sfail more in
              mkfrun ((o1, true) :: fr_done r) (fr_cur r) (fr_failed r)
          end
      end
  end.
(* the parser before eca1034: the result of the final flush was ignored (regression Example) *)
Fixpoint write_entries_old (limit : N) (q : option N) (ofail sfail : bool) (fs : list pfile) : frun :=
  match fs with
  | [] => mkfrun [] None false
  | f :: more =>
      match fo_write_q limit q ofail fo_new (f_rdata f) with
      | (o, false) => mkfrun [] (Some o) true
      | (o, true) =>
          let (o1, ok) := fo_sync_f (over_quota q o) sfail o in
          let r := write_entries_old limit q ofail sfail more in
          mkfrun ((o1, ok) :: fr_done r) (fr_cur r) (fr_failed r)
      end
  end.
Definition destroy_all_q (q : option N) (sfail cfail : bool) (l : list fobj) : list fobj :=
  map (fun o => fo_destroy_f (over_quota q o) sfail cfail o) l.
