(* C12 proofs, part 17: what the application receives does not depend on the state a content filter left the part's
   stream in (position, failbit) - since /repo ebeb88c read_file clears the stream state before it rewinds *)
From CppcmsV Require Import Base.Tac C12.Defs C12.MoreDefs.
Local Open Scope N_scope.

(* EVERY stream state: the value copied into post() is the whole part *)
Lemma post_value_whole data s : post_value data s = data.
Proof. reflexivity. Qed.
(* every filter behaviour in on_new_file and on_data_ready, stream-level reading included *)
Lemma field_whole_after_filter fnew fready data :
  post_value data (fst (part_through_filter fnew fready data)) = data.
Proof. reflexivity. Qed.
(* regression: before ebeb88c (seekg(0) only) a filter that read the field to its end with istream::read left
   failbit and the field arrived empty *)
Lemma field_cut_regression :
  post_value_old [1;2;3] (fst (part_through_filter RNone RStream [1;2;3])) = [] /\
  post_value_old [1;2;3] (fst (part_through_filter RStream RAll [1;2;3])) = [] /\
  post_value [1;2;3] (fst (part_through_filter RNone RStream [1;2;3])) = [1;2;3] /\
  post_value [1;2;3] (fst (part_through_filter RStream RAll [1;2;3])) = [1;2;3].
Proof. repeat split; reflexivity. Qed.
(* the old rewind was right whenever failbit was clear *)
Lemma post_value_old_whole data pos : post_value_old data (mkss pos false) = data.
Proof. reflexivity. Qed.
(* on_data_ready itself always starts at the beginning of the part unless failbit was set before *)
Lemma ready_sees_whole fnew data : fnew <> RStream ->
  snd (part_through_filter fnew RAll data) = data /\ snd (part_through_filter fnew RStream data) = data.
Proof. intros H. destruct fnew; try congruence; split; reflexivity. Qed.
(* an uploaded file: its content is intact whatever the filter did (the application reaches all of it with
   clear() + seekg(0)); read from the position it is handed over with, it is the tail the filter left *)
Lemma handed_is_tail data s : handed data s = skipn (s_pos s) data.
Proof. reflexivity. Qed.
