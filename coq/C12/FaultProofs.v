(* C12 proofs, part 16: the upload file objects when file operations fail (FaultDefs.v) *)
From CppcmsV Require Import Base.Tac C12.Defs C12.Proofs C12.ResDefs C12.ResProofs C12.FaultDefs.
Local Open Scope N_scope.

(* the states an object can be in while the parser writes to it, whatever failed so far:
   pure memory / a created and open file (in_memory_ false: spilled; in_memory_ TRUE: the spill itself failed) *)
Definition wstate (o : fobj) : Prop :=
  o_closed o = false /\ o_removed o = false /\ o_temp o = true /\ g_close o = 0 /\ g_remove o = 0 /\
  ((o_named o = false /\ o_open o = false /\ o_inmem o = true /\ g_create o = 0) \/
   (o_named o = true /\ o_open o = true /\ g_create o = 1)).
Definition half_spilled (o : fobj) : Prop := o_inmem o = true /\ o_named o = true.

Ltac wst H := destruct H as [Hc [Hr [Ht [Hk [Hm Hd]]]]];
  destruct Hd as [[Hn [Ho [Hi Hg]]]|[Hn [Ho Hg]]]; crush_o; subst.

Lemma wstate_new : wstate fo_new.
Proof. unfold wstate, fo_new; cbn. repeat split. left. repeat split. Qed.

Lemma wstate_write_buffer wf of o : wstate o -> wstate (fst (write_buffer_f wf of o)).
Proof.
  intros H. unfold write_buffer_f, wstate, set_used_fsize in *. wst H; cbn [o_closed o_open o_inmem o_used o_cap o_fsize o_named o_removed o_temp g_create g_close g_remove].
  - destruct of; cbn; [repeat split; left; repeat split|]. destruct (wf && (0 <? us)); cbn; repeat split; right; repeat split.
  - destruct (wf && (0 <? us)); cbn; repeat split; right; repeat split.
Qed.

Lemma write_buffer_ok wf of o o1 : wstate o -> write_buffer_f wf of o = (o1, true) ->
  o_named o1 = true /\ o_open o1 = true /\ g_create o1 = 1.
Proof.
  intros H E. unfold write_buffer_f, wstate, set_used_fsize in *.
  destruct H as [Hc [Hr [Ht [Hk [Hm Hd]]]]].
  destruct o as [im us cp fs op nm cl rm tp gc gk gr]. cbn in *.
  destruct Hd as [[Hn [Ho [Hi Hg]]]|[Hn [Ho Hg]]]; subst; cbn in E.
  - destruct of; [discriminate|]. cbn in E. destruct (wf && (0 <? us)); inversion E; subst; cbn; repeat split.
  - destruct (wf && (0 <? us)); inversion E; subst; cbn; repeat split.
Qed.

Ltac wst2 W K := destruct W as [Hc [Hr [Ht [Hk [Hm _]]]]]; destruct K as [Kn [Ko Kg]]; crush_o; subst.

Lemma wstate_putc limit wf of o : wstate o -> wstate (fst (fo_putc_f limit wf of o)).
Proof.
  intros H. unfold fo_putc_f, fo_putc.
  destruct (o_used o <? o_cap o).
  - unfold wstate in *. wst H; cbn; repeat split; [left|right]; repeat split.
  - destruct (o_inmem o) eqn:Ei.
    + destruct (limit <=? o_used o).
      * pose proof (wstate_write_buffer wf of o H) as W. destruct (write_buffer_f wf of o) as [o1 [|]] eqn:E; cbn [fst] in *; [|exact W].
        pose proof (write_buffer_ok wf of o o1 H E) as K.
        unfold wstate, set_used_fsize in *. wst2 W K. cbn. repeat split. right. repeat split.
      * unfold wstate in *. wst H; cbn in *; try discriminate; repeat split; [left|right]; repeat split.
    + pose proof (wstate_write_buffer wf of o H) as W. destruct (write_buffer_f wf of o) as [o1 [|]] eqn:E; cbn [fst] in *; [|exact W].
      pose proof (write_buffer_ok wf of o o1 H E) as K.
      unfold wstate, set_used_fsize in *. wst2 W K. cbn. repeat split. right. repeat split.
Qed.

Lemma wstate_write_s limit : forall data sched o, wstate o -> wstate (fst (fo_write_s limit o data sched)).
Proof.
  induction data as [|c r IH]; intros sched o H; [exact H|].
  cbn [fo_write_s]. destruct (match sched with f :: _ => f | [] => (false, false) end) as [wf of].
  pose proof (wstate_putc limit wf of o H) as W.
  destruct (fo_putc_f limit wf of o) as [o1 [|]]; cbn [fst] in *; [apply IH; exact W|exact W].
Qed.
Lemma wstate_write_q limit q ofail : forall data o, wstate o -> wstate (fst (fo_write_q limit q ofail o data)).
Proof.
  induction data as [|c r IH]; intros o H; [exact H|].
  cbn [fo_write_q]. pose proof (wstate_putc limit (over_quota q o) ofail o H) as W.
  destruct (fo_putc_f limit (over_quota q o) ofail o) as [o1 [|]]; cbn [fst] in *; [apply IH; exact W|exact W].
Qed.
Lemma wstate_sync wf sf o : wstate o -> wstate (fst (fo_sync_f wf sf o)).
Proof.
  intros H. unfold fo_sync_f. destruct (o_inmem o); [exact H|].
  pose proof (wstate_write_buffer wf false o H) as W. destruct (write_buffer_f wf false o) as [o1 [|]]; exact W.
Qed.

(* what is left when the object has been destroyed *)
Definition nothing_left (o : fobj) : Prop :=
  o_open o = false /\ fo_on_disk o = false /\ g_close o = g_create o /\ g_remove o = g_create o /\ g_create o <= 1.

(* file_buffer::close() on such an object, whatever fails *)
Lemma fb_close_shape wf sf cf o : wstate o ->
  let o1 := fst (fb_close_f wf sf cf o) in
  o_inmem o1 = o_inmem o /\ o_named o1 = o_named o /\ o_removed o1 = false /\ o_temp o1 = true /\
  g_create o1 = g_create o /\ g_remove o1 = 0 /\ (if o_open o1 then g_close o1 = 0 /\ o_named o = true else g_close o1 = g_create o1).
Proof.
  intros H. cbv zeta. unfold wstate in H. wst H.
  - unfold fb_close_f, fo_sync_f; cbn. repeat split.
  - destruct im.
    + unfold fb_close_f, fo_sync_f; cbn. destruct cf; cbn; repeat split.
    + destruct wf, sf, cf; destruct (0 <? us) eqn:E0;
        unfold fb_close_f, fo_sync_f, write_buffer_f, set_used_fsize; cbn; rewrite ?E0; cbn; repeat split.
Qed.

(* the repaired code (6c3ce6d): whatever failed while the entry was written - the spill itself included - and
   whatever fails during close (the pending write, fflush, fclose), a destroyed object leaves nothing *)
Lemma destroy_leaves_nothing wf sf cf o : wstate o -> nothing_left (fo_destroy_f wf sf cf o).
Proof.
  intros H. pose proof (fb_close_shape wf sf cf o H) as S. cbv zeta in S.
  unfold fo_destroy_f, fo_close_f.
  assert (o_removed o = false) as Hrm by (apply H).
  assert ((o_open o || negb (o_inmem o)) = o_named o /\ g_create o <= 1 /\ (o_named o = false -> g_create o = 0)) as [Hfc [Hg1 Hg0]].
  { unfold wstate in H. wst H; cbn; [repeat split; lia|]. destruct im; repeat split; try lia; intros; discriminate. }
  rewrite Hfc, Hrm. cbn [negb andb]. rewrite andb_true_r.
  destruct (fst (fb_close_f wf sf cf o)) as [im1 us1 cp1 fs1 op1 nm1 cl1 rm1 tp1 gc1 gk1 gr1].
  cbn [o_inmem o_used o_cap o_fsize o_open o_named o_closed o_removed o_temp g_create g_close g_remove] in *.
  destruct S as [S1 [S2 [S3 [S4 [S5 [S6 S7]]]]]]. subst.
  assert (op1 = true -> gk1 = 0 /\ o_named o = true) as S8 by (intros E; subst op1; exact S7).
  assert (op1 = false -> gk1 = g_create o) as S9 by (intros E; subst op1; exact S7). clear S7.
  destruct (o_named o) eqn:En.
  - cbn [andb o_temp o_named]. unfold nothing_left, finish_destroy, fo_on_disk.
    assert (g_create o = 1) as G1. { unfold wstate in H. destruct H as [_ [_ [_ [_ [_ [[Hn _]|[_ [_ Hg]]]]]]]]; [congruence|exact Hg]. }
    cbn. destruct op1; [destruct (S8 eq_refl) as [S7 _]|pose proof (S9 eq_refl) as S7]; cbn in *; rewrite ?S7, ?G1; repeat split; try reflexivity; lia.
  - specialize (Hg0 eq_refl). unfold nothing_left, finish_destroy, fo_on_disk. cbn.
    destruct op1; [destruct (S8 eq_refl) as [_ S7]; congruence|pose proof (S9 eq_refl) as S7]; cbn in *; rewrite ?S7, ?Hg0; repeat split; try reflexivity; lia.
Qed.

(* regression: before 6c3ce6d the object whose spill failed (limit 2, the third byte triggers to_file(), its fwrite
   fails) kept its file; now nothing is left *)
Lemma failed_spill_regression :
  let o := fst (fo_write_s 2 fo_new [1;2;3] [(false,false);(false,false);(true,false)]) in
  half_spilled o /\ fo_on_disk (fo_destroy_old false false false o) = true /\ nothing_left (fo_destroy_f false false false o).
Proof. cbv zeta. vm_compute. repeat split; try reflexivity; intros; discriminate. Qed.

(* eca1034: a fault at the final flush of an entry is reported - a run that does not fail has flushed every
   completed entry successfully (its content can be read back) *)
Lemma final_flush_reported limit q ofail sfail : forall fs,
  fr_failed (write_entries_q limit q ofail sfail fs) = false ->
  Forall (fun p => snd p = true) (fr_done (write_entries_q limit q ofail sfail fs)).
Proof.
  induction fs as [|f more IH]; intros H; [constructor|].
  cbn [write_entries_q] in *.
  destruct (fo_write_q limit q ofail fo_new (f_rdata f)) as [o [|]]; [|cbn in H; discriminate].
  destruct (fo_sync_f (over_quota q o) sfail o) as [o1 [|]]; [|cbn in H; discriminate].
  cbn [fr_done fr_failed] in *. constructor; [reflexivity|apply IH; exact H].
Qed.
Lemma final_flush_regression :
  let r := write_entries_q 1 (Some 2) false false [mkfile [97] [] [] [1;2;3]] in
  let r0 := write_entries_old 1 (Some 2) false false [mkfile [97] [] [] [1;2;3]] in
  fr_failed r = true /\ fr_done r = [] /\ fr_failed r0 = false /\ map snd (fr_done r0) = [false].
Proof. vm_compute. repeat split; reflexivity. Qed.
