(* C12 proofs, part 10: life cycle of the upload file objects (ResDefs.v) *)
From CppcmsV Require Import Base.Tac C12.Defs C12.Proofs C12.ResDefs.
Local Open Scope N_scope.

(* ---------- invariant of one object ---------- *)
Definition inv_o (o : fobj) : Prop :=
  g_create o <= 1 /\
  (o_named o = true -> g_create o = 1) /\ (o_named o = false -> g_create o = 0) /\
  (o_inmem o = true -> o_named o = false /\ o_open o = false /\ o_removed o = false) /\
  (o_inmem o = false -> o_named o = true) /\
  (o_inmem o = false -> o_closed o = false -> o_open o = true) /\
  (o_open o = true -> g_close o = 0 /\ o_closed o = false) /\
  (o_open o = false -> g_close o = g_create o) /\
  (o_removed o = false -> g_remove o = 0) /\
  (o_removed o = true -> g_remove o = g_create o).

Ltac crush_o :=
  repeat match goal with
         | o : fobj |- _ => destruct o as [im us cp fs op nm cl rm tp gc gk gr]
         end;
  cbn [o_inmem o_used o_cap o_fsize o_open o_named o_closed o_removed o_temp g_create g_close g_remove] in *.

Lemma inv_new : inv_o fo_new.
Proof. unfold inv_o, fo_new; cbn. repeat split; intros; try lia; try congruence. Qed.

Ltac bools := repeat match goal with
                     | b : bool |- _ => destruct b
                     end.
Ltac spec_all := repeat match goal with
  | H : _ /\ _ |- _ => destruct H
  | H : ?a = ?a -> _ |- _ => specialize (H eq_refl)
  | H : true = false -> _ |- _ => clear H
  | H : false = true -> _ |- _ => clear H
  end.
Ltac fin := spec_all; repeat split; intros; spec_all; try discriminate; try reflexivity; try congruence; try lia.

Lemma inv_fb_close o : inv_o o -> inv_o (fb_close o).
Proof.
  unfold inv_o, fb_close. crush_o. intros H. bools; cbn in *; fin.
Qed.
Lemma inv_close o : inv_o o -> inv_o (fo_close o).
Proof.
  unfold inv_o, fo_close, fb_close. crush_o. intros H. bools; cbn in *; fin.
Qed.
Lemma close_not_open o : inv_o o -> o_open (fo_close o) = false.
Proof.
  unfold inv_o, fo_close, fb_close. crush_o. intros H. bools; cbn in *; fin.
Qed.
Lemma destroy_is_close o : inv_o o -> fo_destroy o = fo_close o.
Proof. intros H. unfold fo_destroy. cbv zeta. rewrite (close_not_open o H). reflexivity. Qed.
Lemma inv_destroy o : inv_o o -> inv_o (fo_destroy o).
Proof. intros H. rewrite (destroy_is_close o H). apply inv_close; exact H. Qed.
Lemma inv_save o : inv_o o -> inv_o (fo_save o).
Proof.
  unfold inv_o, fo_save, fb_close, fo_on_disk. crush_o. intros H. bools; cbn in *; fin.
Qed.
Lemma inv_perm o : inv_o o -> inv_o (fo_permanent o).
Proof. unfold inv_o, fo_permanent. crush_o. intros H. exact H. Qed.

(* the destructor leaves every object balanced: descriptor closed exactly as often as opened, at most one
   creation, and - unless the application made the file permanent and did not move it - the directory
   entry removed (or renamed away) exactly once *)
Lemma close_balanced o : inv_o o -> obj_balanced (fo_close o).
Proof.
  unfold inv_o, obj_balanced, fo_close, fb_close. crush_o. intros H. bools; cbn in *; fin.
Qed.
Lemma close_gone o : inv_o o -> o_temp o = true \/ o_removed o = true -> obj_gone (fo_close o).
Proof.
  unfold inv_o, obj_gone, obj_balanced, fo_close, fb_close, fo_on_disk. crush_o. intros H Ht.
  destruct Ht as [Ht|Ht]; subst; bools; cbn in *; fin.
Qed.
Lemma destroy_balanced o : inv_o o -> obj_balanced (fo_destroy o).
Proof. intros H. rewrite (destroy_is_close o H). apply close_balanced; exact H. Qed.
Lemma destroy_gone o : inv_o o -> o_temp o = true \/ o_removed o = true -> obj_gone (fo_destroy o).
Proof. intros H Ht. rewrite (destroy_is_close o H). apply close_gone; assumption. Qed.
(* destroying twice (close() by the application, then the destructor; or a second close()) does nothing more *)
Definition settled (o : fobj) : Prop :=
  o_closed o = true /\ (o_inmem o = true \/ o_removed o = true \/ o_temp o = false \/ o_named o = false).
Lemma close_settled o : inv_o o -> settled (fo_close o).
Proof.
  unfold inv_o, settled, fo_close, fb_close. crush_o. intros H. bools; cbn in *; spec_all; split; try reflexivity; tauto.
Qed.
Lemma settled_close o : settled o -> fo_close o = o.
Proof.
  unfold settled, fo_close, fb_close. crush_o. intros [H1 H2]. subst cl.
  bools; cbn in *; try reflexivity; destruct H2 as [H2|[H2|[H2|H2]]]; discriminate.
Qed.
Lemma close_idem o : inv_o o -> fo_close (fo_close o) = fo_close o.
Proof. intros H. apply settled_close. apply close_settled; exact H. Qed.
Lemma destroy_after_close o : inv_o o -> fo_destroy (fo_close o) = fo_close o.
Proof. intros H. rewrite (destroy_is_close _ (inv_close o H)). apply close_idem; exact H. Qed.

(* ---------- writing: memory until the size exceeds the limit, then one temporary file ---------- *)
Definition winv (mem n : N) (o : fobj) : Prop :=
  fo_size o = n /\ o_closed o = false /\ o_removed o = false /\ o_temp o = true /\ g_close o = 0 /\ g_remove o = 0 /\
  (o_inmem o = true -> o_fsize o = 0 /\ o_used o <= o_cap o /\ o_cap o <= mem /\ g_create o = 0 /\ o_open o = false /\ o_named o = false) /\
  (o_inmem o = false -> mem < n /\ o_open o = true /\ o_named o = true /\ g_create o = 1).

Lemma winv_new mem : winv mem 0 fo_new.
Proof. unfold winv, fo_new, fo_size; cbn. repeat split; intros; try lia; try congruence. Qed.

Ltac projs := cbn [o_inmem o_used o_cap o_fsize o_open o_named o_closed o_removed o_temp g_create g_close g_remove] in *.
Lemma winv_putc mem n o : winv mem n o -> winv mem (n + 1) (fo_putc mem o).
Proof.
  intros H. unfold fo_putc.
  destruct (N.ltb_spec (o_used o) (o_cap o)) as [Hlt|Hge].
  - unfold winv, fo_size in *. projs. destruct (o_inmem o); fin.
  - destruct (o_inmem o) eqn:Ei.
    + destruct (N.leb_spec mem (o_used o)) as [Hle|Hgt].
      * unfold winv, fo_size, buffer_size in *. projs. rewrite Ei in *. fin.
      * unfold winv, fo_size in *. projs. rewrite Ei in *. spec_all.
        destruct (N.eqb_spec (2 * o_cap o) 0); destruct (N.ltb_spec mem 64); destruct (N.ltb_spec mem (2 * o_cap o)); fin.
    + unfold winv, fo_size in *. projs. rewrite Ei in *. fin.
Qed.

Lemma winv_write mem : forall data n o, winv mem n o -> winv mem (n + N.of_nat (length data)) (fo_write mem o data).
Proof.
  induction data as [|c r IH]; intros n o H.
  - cbn [fo_write length]. replace (n + N.of_nat 0) with n by lia. exact H.
  - cbn [fo_write length]. replace (n + N.of_nat (S (length r))) with (n + 1 + N.of_nat (length r)) by lia.
    apply IH. apply winv_putc. exact H.
Qed.

Lemma winv_inv mem n o : winv mem n o -> inv_o o.
Proof.
  unfold winv, inv_o. crush_o. intros [Hs [Hc [Hr [Ht [Hk [Hm [Hi Hf]]]]]]]. subst cl rm tp gk gr.
  destruct im.
  - destruct (Hi eq_refl) as [? [? [? [? [? ?]]]]]. subst. repeat split; intros; try lia; try congruence.
  - destruct (Hf eq_refl) as [? [? [? ?]]]. subst. repeat split; intros; try lia; try congruence.
Qed.

Lemma entry_obj_winv mem f : winv mem (f_size f) (entry_obj mem f).
Proof.
  unfold entry_obj, f_size. rewrite len_N_length.
  replace (N.of_nat (length (f_rdata f))) with (0 + N.of_nat (length (f_rdata f))) by lia.
  apply winv_write. apply winv_new.
Qed.

Definition spills (mem : N) (f : pfile) : bool := mem <? f_size f.

(* the switch is exact: an entry is on disk iff its size exceeds the limit; then exactly one file was created *)
Lemma entry_obj_spill mem f :
  let o := entry_obj mem f in
  o_inmem o = negb (spills mem f) /\ o_open o = spills mem f /\ fo_on_disk o = spills mem f /\
  g_create o = (if spills mem f then 1 else 0) /\ g_close o = 0 /\ g_remove o = 0 /\ fo_size o = f_size f /\ o_temp o = true.
Proof.
  cbv zeta. pose proof (entry_obj_winv mem f) as W. unfold winv in W. unfold spills, fo_on_disk.
  destruct W as [Hs [Hc [Hr [Ht [Hk [Hm [Hi Hf]]]]]]]. rewrite Hr.
  destruct (o_inmem (entry_obj mem f)) eqn:E.
  - destruct (Hi eq_refl) as [Hfs [Huc [Hcm [Hg [Ho Hn]]]]].
    assert (f_size f <= mem) as Hle by (unfold fo_size in Hs; lia).
    destruct (N.ltb_spec mem (f_size f)); [lia|]. rewrite Ho, Hn, Hg. repeat split; assumption.
  - destruct (Hf eq_refl) as [Hlt [Ho [Hn Hg]]].
    destruct (N.ltb_spec mem (f_size f)); [|lia]. rewrite Ho, Hn, Hg. repeat split; assumption.
Qed.

Lemma fo_new_destroy : fo_destroy fo_new = mkfo true 0 0 0 false false true false true 0 0 0.
Proof. reflexivity. Qed.

(* ---------- counting ---------- *)
Lemma n_open_app a b : n_open (a ++ b) = n_open a + n_open b.
Proof. unfold n_open. rewrite filter_app, app_length. lia. Qed.
Lemma n_disk_app a b : n_disk (a ++ b) = n_disk a + n_disk b.
Proof. unfold n_disk. rewrite filter_app, app_length. lia. Qed.
Lemma n_open_cons o l : n_open (o :: l) = (if o_open o then 1 else 0) + n_open l.
Proof. unfold n_open. cbn [filter]. destruct (o_open o); cbn [length]; lia. Qed.
Lemma n_disk_cons o l : n_disk (o :: l) = (if fo_on_disk o then 1 else 0) + n_disk l.
Proof. unfold n_disk. cbn [filter]. destruct (fo_on_disk o); cbn [length]; lia. Qed.

Lemma all_gone_counts l : Forall obj_gone l -> snap l = (0, 0).
Proof.
  induction 1 as [|o l Hg _ IH]; [reflexivity|].
  destruct Hg as [[Ho _] [_ Hd]]. unfold snap in *. injection IH as E1 E2.
  rewrite n_open_cons, n_disk_cons, Ho, Hd, E1, E2. reflexivity.
Qed.

Definition n_spilled (mem : N) (fs : list pfile) : N := N.of_nat (length (filter (spills mem) fs)).

Lemma entry_objs_counts mem fs : snap (map (entry_obj mem) fs) = (n_spilled mem fs, n_spilled mem fs).
Proof.
  unfold snap, n_spilled. induction fs as [|f fs IH]; [reflexivity|].
  cbn [map]. rewrite n_open_cons, n_disk_cons.
  destruct (entry_obj_spill mem f) as [_ [Ho [Hd _]]]. rewrite Ho, Hd.
  injection IH as E1 E2. rewrite E1, E2. cbn [filter]. destruct (spills mem f); cbn [length]; f_equal; lia.
Qed.

(* ---------- refused / aborted requests ---------- *)
Lemma refused_lifecycle mem done cur h : h = HRefused \/ h = HAborted ->
  let L := lifecycle mem done cur h in
  Forall obj_gone (l_final L) /\ l_destroyed L = (0, 0) /\ l_released L = (0, 0) /\
  l_start L = (n_spilled mem (match cur with Some f => f :: done | None => done end),
               n_spilled mem (match cur with Some f => f :: done | None => done end)).
Proof.
  intros Hh. cbv zeta.
  assert (forall l, Forall inv_o l -> Forall (fun o => o_temp o = true) l -> Forall obj_gone (map fo_destroy l)) as Hall.
  { induction l as [|o l IH]; intros Hi Ht; [constructor|]. inversion Hi; inversion Ht; subst.
    cbn [map]. constructor; [apply destroy_gone; [assumption|left; assumption]|apply IH; assumption]. }
  assert (Forall inv_o (map (entry_obj mem) done)) as Hi.
  { apply Forall_forall. intros o Ho. apply in_map_iff in Ho. destruct Ho as [f [E _]]. subst o.
    eapply winv_inv. apply entry_obj_winv. }
  assert (Forall (fun o => o_temp o = true) (map (entry_obj mem) done)) as Ht.
  { apply Forall_forall. intros o Ho. apply in_map_iff in Ho. destruct Ho as [f [E _]]. subst o.
    apply (entry_obj_spill mem f). }
  set (curo := match cur with Some f => entry_obj mem f | None => fo_new end).
  assert (inv_o curo /\ o_temp curo = true) as [Hci Hct].
  { unfold curo. destruct cur as [f|]; [split; [eapply winv_inv; apply entry_obj_winv|apply (entry_obj_spill mem f)]|split; [apply inv_new|reflexivity]]. }
  assert (Forall obj_gone (map fo_destroy (curo :: map (entry_obj mem) done))) as Hg.
  { apply Hall; constructor; assumption. }
  assert (lifecycle mem done cur h =
          mklife (snap (curo :: map (entry_obj mem) done)) (snap (curo :: map (entry_obj mem) done))
                 (snap (map fo_destroy (curo :: map (entry_obj mem) done))) (snap (map fo_destroy (curo :: map (entry_obj mem) done)))
                 (map fo_destroy (curo :: map (entry_obj mem) done))) as EL.
  { destruct Hh; subst h; reflexivity. }
  rewrite EL. cbn [l_final l_destroyed l_released l_start].
  split; [exact Hg|]. rewrite (all_gone_counts _ Hg). split; [reflexivity|]. split; [reflexivity|].
  unfold curo. destruct cur as [f|].
  - change (entry_obj mem f :: map (entry_obj mem) done) with (map (entry_obj mem) (f :: done)). apply entry_objs_counts.
  - change (fo_new :: map (entry_obj mem) done) with ([fo_new] ++ map (entry_obj mem) done).
    unfold snap. rewrite n_open_app, n_disk_app.
    pose proof (entry_objs_counts mem done) as E. unfold snap in E. injection E as E1 E2. rewrite E1, E2. reflexivity.
Qed.
