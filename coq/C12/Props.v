From CppcmsV Require Import Base.Tac C12.Defs.
Local Open Scope N_scope.
Theorem placeholder : separator 40 = true.
Proof. reflexivity. Qed.
Print Assumptions placeholder.
