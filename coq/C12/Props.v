(* C12 -- uploaded form data is reconstructed exactly under any chunking, within limits.
   Only property theorems here, each closed by `exact <lemma>`; proofs are in Proofs.v (chunking),
   Matcher.v (boundary matcher), Limits.v (limits / status codes), Link.v (generated-from-source leafs).
   Model: Defs.v (per-byte step of multipart_parser::consume, header parser, request-level driver
   on_content_start / on_content_progress, urlencoded splitter). *)
From CppcmsV Require Import Base.Tac Base.CSem Base.Sweep C12.Defs C12.Proofs C12.Matcher C12.Limits C12.Roundtrip C12.Filter C12.Urlenc C12.Fuel C12.Framing C12.Domain C12.ResDefs C12.ResProofs C12.ResProofs2 C12.MoreDefs C12.UrlAny C12.CType C12.Abort C12.AbortCut C12.FaultDefs C12.FaultProofs C12.Stream C12.Link C12.LinkLimits gen.Gen_c12 gen.Gen_c12lim.
Local Open Scope N_scope.

(* ------------------------------------------------------------------------------------------ *)
(* 1. chunking: the result of a multipart request (status, or the list of entries with names,    *)
(*    file names, MIME types and contents in order) does not depend on how the body bytes are    *)
(*    cut into reads -- any number of chunks, empty chunks included, bytes beyond the declared   *)
(*    length included                                                                            *)
(* ------------------------------------------------------------------------------------------ *)
Theorem chunk_indep : forall L ct declared chunks,
  request_multipart L ct declared chunks = request_multipart L ct declared [concat chunks].
Proof. exact request_chunk_indep. Qed.
Print Assumptions chunk_indep.

Theorem chunk_indep_two_partitions : forall L ct declared chunks1 chunks2,
  concat chunks1 = concat chunks2 ->
  request_multipart L ct declared chunks1 = request_multipart L ct declared chunks2.
Proof. exact request_two_partitions. Qed.
Print Assumptions chunk_indep_two_partitions.

(* parser level: feeding a ++ b in one consume-loop = feeding a, then b (the two chunk-sensitive
   spots, content_partial at a chunk end and the eof test, do not change the outcome) *)
Theorem parser_cut_anywhere : forall bnd lim a b s, inv s -> b <> [] ->
  feed bnd lim s (a ++ b) = then_feed bnd lim (feed bnd lim s a) b.
Proof. exact feed_app. Qed.
Print Assumptions parser_cut_anywhere.

(* the invariant used above holds initially and is preserved *)
Theorem parser_invariant : inv init_state /\
  (forall bnd lim a s s', inv s -> feed bnd lim s a = OGo s' -> inv s').
Proof. split; [exact inv_init|exact feed_inv]. Qed.
Print Assumptions parser_invariant.

(* the traced driver run by the correspondence harness is the same function as the request-level feed *)
Theorem harness_driver_is_feed : forall bnd ch s tr,
  feed bnd None s ch = out_of_tout (fst (feed_trace bnd s ch tr)).
Proof. exact feed_trace_feed. Qed.
Print Assumptions harness_driver_is_feed.

Definition ex_ct : list N :=   (* multipart/form-data; boundary=k *)
  [109;117;108;116;105;112;97;114;116;47;102;111;114;109;45;100;97;116;97;59;32;98;111;117;110;100;97;114;121;61;107].
Definition ex_parts : list part :=
  [mkpart [97] None [] [13;10;45;120]; mkpart [102] (Some [120;46;98]) [97;47;98] [1;2;13;10;45;45;3]].
Definition ex_body : list N := encode [107] ex_parts.
Example chunk_indep_nonvacuous :
  request_multipart (mklim 100 1000) ex_ct (length ex_body) (map (fun c => [c]) ex_body) = RReady (map file_of_part ex_parts) /\
  request_multipart (mklim 100 1000) ex_ct (length ex_body) [firstn 60 ex_body; []; skipn 60 ex_body] = RReady (map file_of_part ex_parts) /\
  request_multipart (mklim 100 1000) ex_ct (length ex_body) [ex_body] = RReady (map file_of_part ex_parts).
Proof. repeat split; vm_compute; reflexivity. Qed.

(* ------------------------------------------------------------------------------------------ *)
(* 2. the hand-restarted boundary matcher                                                       *)
(* ------------------------------------------------------------------------------------------ *)
(* boundary = CR LF - - key with no CR in key (RFC 2046 bchars): for ANY content x that does not
   contain the boundary -- partial look-alikes of any shape included -- the matcher run on
   x ++ boundary ++ rest writes exactly x (after what was written before) and stops right after
   the delimiter *)
Theorem matcher_correct : forall key, ~ In 13 key -> forall x rest rout,
  ~ occurs (make_boundary key) x ->
  mrun (make_boundary key) 0 (x ++ make_boundary key ++ rest) rout = Some (rev rout ++ x, rest).
Proof. exact mrun_finds. Qed.
Print Assumptions matcher_correct.

(* any boundary, any input: when the matcher stops, what it has written followed by the boundary
   followed by the unread rest is exactly the input (nothing lost, nothing invented) *)
Theorem matcher_sound : forall bnd, bnd <> [] -> forall input p rout out rest, (p < length bnd)%nat ->
  mrun bnd p input rout = Some (out, rest) ->
  rev rout ++ firstn p bnd ++ input = out ++ bnd ++ rest.
Proof. exact mrun_sound. Qed.
Print Assumptions matcher_sound.

(* the CR-free hypothesis is needed: with key = CR LF - - b the content CR LF - - hides the delimiter *)
Theorem matcher_needs_cr_free_key_refuted :
  containsb bad_content (make_boundary bad_key) = false /\
  mrun (make_boundary bad_key) 0 (bad_content ++ make_boundary bad_key) [] = None.
Proof. exact matcher_misses_with_cr_in_key. Qed.
Print Assumptions matcher_needs_cr_free_key_refuted.

(* the header terminator matcher (since repair 3fc4520: restart at 1 when the mismatching byte is CR): for EVERY
   text - bare CRs included - it stops iff CR LF CR LF occurs, i.e. exactly at the first occurrence *)
Theorem header_terminator_recognised_at_first_occurrence : forall w, hterm 0 w = None <-> occurs crlfcrlf w.
Proof. exact hterm_none_iff_occurs. Qed.
Print Assumptions header_terminator_recognised_at_first_occurrence.
(* regression Example: the witness of the former header_terminator_no_restart_refuted - recognised now, missed by
   the matcher as it was (hterm_old) *)
Example header_terminator_old_witness : hterm 0 [13;13;10;13;10] = None /\ hterm_old 0 [13;13;10;13;10] = Some 2%nat.
Proof. exact header_terminator_after_cr. Qed.

(* the matcher inside the parser: in the content state, a part content x free of the boundary is
   stored byte for byte, the entry is completed at the delimiter, and parsing goes on with the rest;
   the only other outcome is 413 for an oversized form field *)
Theorem part_content_reconstructed : forall key lim, ~ In 13 key -> forall s x rest,
  st s = SepBoundary -> pos s = 0%nat -> rest <> [] ->
  ~ occurs (make_boundary key) x ->
  feed (make_boundary key) lim s (x ++ make_boundary key ++ rest) =
    let f := file_with_data (cur s) (rev x ++ f_rdata (cur s)) in
    if size_ok lim f
    then feed (make_boundary key) lim (mkst OneCrlfOrEof 0 (rhdr s) empty_file (f :: rfiles s) false) rest
    else OStop 413.
Proof. exact part_content_exact. Qed.
Print Assumptions part_content_reconstructed.

Example matcher_nonvacuous :   (* key "ab", content full of look-alikes: CR, CR LF -, CR LF - - a, CR CR LF - - a CR *)
  let x := [13;13;10;45;13;10;45;45;97;13;13;10;45;45;97;13] in
  containsb x (make_boundary [97;98]) = false /\
  mrun (make_boundary [97;98]) 0 (x ++ make_boundary [97;98] ++ [45;45]) [] = Some (x, [45;45]).
Proof. split; vm_compute; reflexivity. Qed.

(* ------------------------------------------------------------------------------------------ *)
(* 2b. decode (encode parts) = parts                                                            *)
(* ------------------------------------------------------------------------------------------ *)
(* For every list of parts (any number) whose names / file names contain no CR, whose MIME type is
   empty or in the normal form content_type::parse returns, and whose contents (ANY bytes) do not
   contain CR LF - - key: the body produced by the reference encoder (Content-Disposition: form-data;
   name="..."[; filename="..."] with backslash-escaped quotes, optional Content-Type line), delivered
   under ANY chunking, with every form field within content_length_limit and the body within
   multipart_form_data_limit, is accepted and the application gets exactly those entries: names,
   file names, MIME types, contents byte for byte, in order. *)
Theorem decode_encode : forall L ct key ps chunks, ~ In 13 key -> key <> [] ->
  ct_boundary ct = FOk key ->
  Forall (wf_part key) ps ->
  Forall (fun p => size_ok (Some (content_length_limit L)) (file_of_part p) = true) ps ->
  concat chunks = encode key ps ->
  N.of_nat (length (encode key ps)) <= multipart_limit L ->
  request_multipart L ct (length (encode key ps)) chunks = RReady (map file_of_part ps).
Proof. exact decode_encode_request. Qed.
Print Assumptions decode_encode.

(* with the canonical header  multipart/form-data; boundary="key"  no hypothesis about the Content-Type is left *)
Theorem decode_encode_canonical_header : forall L key ps chunks, ~ In 13 key -> key <> [] ->
  Forall (wf_part key) ps ->
  Forall (fun p => size_ok (Some (content_length_limit L)) (file_of_part p) = true) ps ->
  concat chunks = encode key ps ->
  N.of_nat (length (encode key ps)) <= multipart_limit L ->
  request_multipart L (canonical_ct key) (length (encode key ps)) chunks = RReady (map file_of_part ps).
Proof. exact decode_encode_canonical. Qed.
Print Assumptions decode_encode_canonical_header.
Theorem canonical_content_type_accepted : forall key,
  ct_boundary (canonical_ct key) = FOk key /\ is_mp (canonical_ct key) = true.
Proof. exact ct_boundary_canonical. Qed.
Print Assumptions canonical_content_type_accepted.
(* every lower-case token/token is a MIME type in normal form (wf_mime), e.g. text/plain, image/x-png *)
Theorem mime_normal_form_sufficient : forall ty sub, ty <> [] -> sub <> [] ->
  forallb ltchar ty = true -> forallb ltchar sub = true -> wf_mime (ty ++ 47 :: sub).
Proof. exact wf_mime_tokens. Qed.
Print Assumptions mime_normal_form_sufficient.

(* framing is exact whatever the part headers look like: for ANY header blocks whose terminator is recognised
   exactly at their last byte and that process_header accepts (unquoted or quoted parameters, any case, extra
   headers, any order ...) and any contents free of the delimiter, the entries delivered carry exactly those
   contents and the meta data process_header computed - under every chunking *)
Theorem framing_exact : forall L ct key ps chunks, ~ In 13 key -> key <> [] ->
  ct_boundary ct = FOk key ->
  Forall (raw_ok key) ps ->
  Forall (fun p => size_ok (Some (content_length_limit L)) (raw_file p) = true) ps ->
  concat chunks = encode_raw key ps ->
  N.of_nat (length (encode_raw key ps)) <= multipart_limit L ->
  request_multipart L ct (length (encode_raw key ps)) chunks = RReady (map raw_file ps).
Proof. exact framing_exact_request. Qed.
Print Assumptions framing_exact.
Definition ex_raw_hdr : list N :=   (* lower/upper case names, unquoted and quoted values, an extra header, a Content-Type parameter *)
  [99;111;110;116;101;110;116;45;100;105;115;112;111;115;105;116;105;111;110;58;102;111;114;109;45;100;97;116;97;59;78;65;77;69;61;97;59;70;105;108;101;78;97;109;101;61;34;98;92;34;99;34;13;10;88;45;67;117;115;116;111;109;58;32;113;13;10;67;79;78;84;69;78;84;45;84;89;80;69;58;32;84;101;120;116;47;80;108;97;105;110;59;32;99;104;97;114;115;101;116;61;120;13;10;13;10].
Definition ex_raw : rawpart := mkraw ex_raw_hdr (mkfile [97] [98;34;99] [116;101;120;116;47;112;108;97;105;110] []) [13;10;45;45;13;13;10;45;45;106].
Example framing_nonvacuous : raw_ok [107] ex_raw /\
  request_multipart (mklim 100 1000) ex_ct (length (encode_raw [107] [ex_raw])) (map (fun c => [c]) (encode_raw [107] [ex_raw]))
  = RReady [mkfile [97] [98;34;99] [116;101;120;116;47;112;108;97;105;110] (rev [13;10;45;45;13;13;10;45;45;106])].
Proof.
  split; [|vm_compute; reflexivity].
  split; [exists (removelast ex_raw_hdr); split; vm_compute; reflexivity|].
  split; [vm_compute; reflexivity|].
  intros Ho. apply containsb_spec in Ho. vm_compute in Ho. discriminate.
Qed.

(* the same at parser level (any limit, including none) *)
Theorem parser_decode_encode : forall key lim ps, ~ In 13 key ->
  Forall (wf_part key) ps -> Forall (fun p => size_ok lim (file_of_part p) = true) ps ->
  exists s', feed (make_boundary key) lim init_state (encode key ps) = OEof s' /\ rev (rfiles s') = map file_of_part ps.
Proof. exact feed_encode. Qed.
Print Assumptions parser_decode_encode.

(* the part-header parser inverts the encoder's header block *)
Theorem part_headers_roundtrip : forall key p fuel, wf_part key p -> (3 <= fuel)%nat ->
  process_header fuel (enc_headers p) empty_file = FOk (part_meta p).
Proof. exact process_header_enc. Qed.
Print Assumptions part_headers_roundtrip.

(* quoted-string: unquote inverts quote for every byte string *)
Theorem unquote_inverts_quote : forall s tail, parse_value (quote_str s ++ tail) = Some (s, tail).
Proof. exact parse_value_quoted. Qed.
Print Assumptions unquote_inverts_quote.

Example decode_encode_nonvacuous :
  Forall (wf_part [107]) ex_parts /\ ct_boundary ex_ct = FOk [107] /\ wf_mime [116;101;120;116;47;112;108;97;105;110] /\                         (* text/plain *)
  wf_mime [97;112;112;108;105;99;97;116;105;111;110;47;111;99;116;101;116;45;115;116;114;101;97;109].  (* application/octet-stream *)
Proof.
  assert (forall m, (negb (is_nil m) && negb (existsb (N.eqb 13) m) && leqb (skip_ws m) m && leqb (media_type m) m)%bool = true -> wf_mime m) as W.
  { intros m H. apply andb_true_iff in H. destruct H as [H H4]. apply andb_true_iff in H. destruct H as [H H3].
    apply andb_true_iff in H. destruct H as [H1 H2].
    assert (forall a b, leqb a b = true -> a = b) as LE.
    { induction a as [|x a IH]; destruct b as [|y b]; cbn [leqb]; intros E; try discriminate; [reflexivity|].
      apply andb_true_iff in E. destruct E as [E1 E2]. apply N.eqb_eq in E1. subst. f_equal. apply IH. exact E2. }
    split; [destruct m; [discriminate|discriminate]|]. split.
    - intros Hin. apply negb_true_iff in H2. assert (existsb (N.eqb 13) m = true) as E.
      { apply existsb_exists. exists 13. split; [exact Hin|reflexivity]. } congruence.
    - split; apply LE; assumption. }
  assert (forall x key, containsb x (make_boundary key) = false -> ~ occurs (make_boundary key) x) as C.
  { intros x key H Ho. apply containsb_spec in Ho. congruence. }
  split; [|split; [vm_compute; reflexivity|split; apply W; vm_compute; reflexivity]].
  unfold ex_parts. constructor; [|constructor; [|constructor]].
  - split; [vm_compute; intuition discriminate|]. split; [intros fn E; discriminate|].
    split; [left; reflexivity|apply C; vm_compute; reflexivity].
  - split; [vm_compute; intuition discriminate|].
    split; [intros fn E; inversion E; subst; vm_compute; intuition discriminate|].
    split; [right; apply W; vm_compute; reflexivity|apply C; vm_compute; reflexivity].
Qed.

(* ------------------------------------------------------------------------------------------ *)
(* 3. limits and status codes                                                                   *)
(* ------------------------------------------------------------------------------------------ *)
Theorem declared_length_over_multipart_limit_413 : forall L ct declared chunks,
  declared <> 0%nat -> multipart_limit L < N.of_nat declared ->
  request_multipart L ct declared chunks = RStatus 413.
Proof. exact declared_over_limit. Qed.
Print Assumptions declared_length_over_multipart_limit_413.

Theorem missing_boundary_400 : forall L ct declared chunks,
  declared <> 0%nat -> N.of_nat declared <= multipart_limit L -> ct_boundary ct = FOk [] ->
  request_multipart L ct declared chunks = RStatus 400.
Proof. exact no_boundary_400. Qed.
Print Assumptions missing_boundary_400.

(* entries are published iff the declared number of bytes arrived and they end with the closing
   delimiter exactly on the last declared byte *)
Theorem delivered_iff_exact_eof : forall bnd lim declared chunks fs,
  req_loop bnd lim declared init_state chunks = RReady fs <->
  (declared <> 0%nat /\ (declared <= length (concat chunks))%nat /\
   exists s', feed bnd lim init_state (firstn declared (concat chunks)) = OEof s' /\ fs = rev (rfiles s')).
Proof. exact ready_iff. Qed.
Print Assumptions delivered_iff_exact_eof.

(* a body accepted as a whole: every proper prefix declared as the whole body is refused with 400 ... *)
Theorem shorter_than_wellformed_400 : forall bnd lim a b s', a <> [] -> b <> [] ->
  feed bnd lim init_state (a ++ b) = OEof s' ->
  req_loop bnd lim (length a) init_state [a] = RStatus 400.
Proof. exact truncated_refused. Qed.
Print Assumptions shorter_than_wellformed_400.

(* ... and so is every extension of it *)
Theorem trailing_bytes_400 : forall bnd lim a b s', a <> [] -> b <> [] ->
  feed bnd lim init_state a = OEof s' ->
  req_loop bnd lim (length (a ++ b)) init_state [a ++ b] = RStatus 400.
Proof. exact trailing_refused. Qed.
Print Assumptions trailing_bytes_400.

Theorem nothing_delivered_before_declared_length : forall bnd lim chunks rem s fs,
  req_loop bnd lim rem s chunks = RReady fs -> (rem <= length (concat chunks))%nat.
Proof. exact req_ready_needs_all. Qed.
Print Assumptions nothing_delivered_before_declared_length.

Theorem bytes_beyond_declared_length_ignored : forall bnd lim declared chunks,
  req_loop bnd lim declared init_state chunks =
  req_loop bnd lim declared init_state [firstn declared (concat chunks)].
Proof. exact req_ignores_tail. Qed.
Print Assumptions bytes_beyond_declared_length_ignored.

(* a form field (no MIME type) larger than content_length_limit: 413 *)
Theorem oversized_form_field_413 : forall key a, ~ In 13 key -> forall s x rest,
  st s = SepBoundary -> pos s = 0%nat -> rest <> [] -> ~ occurs (make_boundary key) x ->
  f_mime (cur s) = [] -> f_rdata (cur s) = [] -> a < N.of_nat (length x) ->
  feed (make_boundary key) (Some a) s (x ++ make_boundary key ++ rest) = OStop 413.
Proof. exact oversized_field_413. Qed.
Print Assumptions oversized_form_field_413.

(* once a field is over the limit no continuation of the body can rescue it *)
Theorem oversized_field_stays_refused : forall bnd lim b s, b <> [] -> st s = SepBoundary ->
  size_ok lim (cur s) = false -> feed bnd lim s b = OStop 413.
Proof. exact doomed. Qed.
Print Assumptions oversized_field_stays_refused.

(* files (entries with a MIME type) of any size and fields within the limit pass *)
Theorem file_or_small_field_accepted : forall key a, ~ In 13 key -> forall s x rest,
  st s = SepBoundary -> pos s = 0%nat -> rest <> [] -> ~ occurs (make_boundary key) x ->
  f_rdata (cur s) = [] -> (f_mime (cur s) <> [] \/ N.of_nat (length x) <= a) ->
  feed (make_boundary key) (Some a) s (x ++ make_boundary key ++ rest) =
  feed (make_boundary key) (Some a)
       (mkst OneCrlfOrEof 0 (rhdr s) empty_file (file_with_data (cur s) (rev x) :: rfiles s) false) rest.
Proof. exact within_limit_continues. Qed.
Print Assumptions file_or_small_field_accepted.

(* the parser refuses with 400 or 413 only, and a whole multipart request ends as: entries delivered, 400,
   413, or still waiting for input.  In particular the fuel markers of the model (FFuel, SFuel, 599) are
   unreachable: the fuel S (length input) handed to the three fuelled loops always suffices *)
Theorem refusal_codes : forall bnd lim ch s c, feed bnd lim s ch = OStop c -> c = 400 \/ c = 413.
Proof. exact feed_status_exact. Qed.
Print Assumptions refusal_codes.
Theorem request_outcomes_400_413 : forall L ct declared chunks,
  match request_multipart L ct declared chunks with
  | RReady _ => True
  | RStatus c => c = 400 \/ c = 413
  | RWaiting => True
  end.
Proof. exact request_outcomes. Qed.
Print Assumptions request_outcomes_400_413.
Theorem fuel_always_suffices :
  (forall bnd s c last, step bnd s c last <> SFuel) /\
  (forall ct, ct_boundary ct <> FFuel /\ ct_boundary ct <> FFail) /\
  (forall n hdr f, (length hdr < n)%nat -> process_header n hdr f <> FFuel) /\
  (forall n s f, (length s < n)%nat -> parse_cd n s f <> FFuel) /\
  (forall n s, (length s < n)%nat -> ct_params n s <> FFuel).
Proof.
  split; [exact step_no_fuel|]. split; [exact ct_boundary_no_fuel|]. split; [exact process_header_fuel|].
  split; [exact parse_cd_fuel|exact ct_params_fuel].
Qed.
Print Assumptions fuel_always_suffices.

Example limits_nonvacuous :
  request_multipart (mklim 3 1000) ex_ct (length ex_body) [ex_body] = RStatus 413 /\       (* field of 4 bytes, limit 3 *)
  request_multipart (mklim 4 1000) ex_ct (length ex_body) [ex_body] = RReady (map file_of_part ex_parts) /\
  request_multipart (mklim 4 154) ex_ct (length ex_body) [ex_body] = RStatus 413 /\        (* body of 155 bytes *)
  request_multipart (mklim 4 1000) ex_ct (length ex_body - 1) [ex_body] = RStatus 400 /\   (* declared one short *)
  request_multipart (mklim 4 1000) ex_ct (length ex_body + 1) [ex_body ++ [10]] = RStatus 400 /\
  request_multipart (mklim 4 1000) ex_ct (length ex_body + 1) [ex_body] = RStatus 400 /\   (* body shorter than declared *)
  request_multipart (mklim 4 1000) [97;47;98] (length ex_body) [ex_body] = RStatus 400.
Proof. repeat split; vm_compute; reflexivity. Qed.

(* ------------------------------------------------------------------------------------------ *)
(* 3b. content filters                                                                          *)
(* ------------------------------------------------------------------------------------------ *)
(* feed_f = feed + the chunking-independent multipart_filter callbacks (number of on_new_file calls, the
   entries passed to on_data_ready).  Cutting the input anywhere changes neither the outcome nor what
   the filter is told *)
Theorem filter_events_cut_anywhere : forall bnd lim a b s acc, inv s -> b <> [] ->
  feed_f bnd lim s (a ++ b) acc = then_feed_f bnd lim (feed_f bnd lim s a acc) b.
Proof. exact feed_f_app. Qed.
Print Assumptions filter_events_cut_anywhere.

(* an accepted body: the filter has been shown exactly the delivered entries - each one once (as many
   on_new_file as on_data_ready calls as entries), complete, in order *)
Theorem filter_sees_each_entry_once : forall bnd lim body s' a,
  feed_f bnd lim init_state body fev0 = (OEof s', a) ->
  feed bnd lim init_state body = OEof s' /\ rreadyd a = rfiles s' /\ n_new a = N.of_nat (length (rfiles s')).
Proof. exact filter_sees_delivered. Qed.
Print Assumptions filter_sees_each_entry_once.

(* the service-level model run against the real service (request_service) is the request model above *)
Theorem service_model_is_request_model : forall L ct declared body, is_mp ct = true ->
  rres_of_svc (request_service L false ct declared body) = request_multipart L ct declared [body].
Proof. exact service_is_request. Qed.
Print Assumptions service_model_is_request_model.

Example filter_nonvacuous :
  exists s' a, feed_f (make_boundary [107]) (Some 100) init_state ex_body fev0 = (OEof s', a) /\
               n_new a = 2 /\ rev (rreadyd a) = map file_of_part ex_parts /\ is_mp ex_ct = true.
Proof. eexists. eexists. split; [vm_compute; reflexivity|]. repeat split. Qed.

(* ------------------------------------------------------------------------------------------ *)
(* 3c. application/x-www-form-urlencoded                                                        *)
(* ------------------------------------------------------------------------------------------ *)
(* any list of (name, value) pairs of bytes with non-empty names, percent-encoded and joined by = and
   ampersand, is split and decoded back to exactly those pairs, in order *)
Theorem urlencoded_roundtrip : forall ps, Forall pair_ok ps -> parse_urlencoded (enc_pairs ps) = (ps, true).
Proof. exact parse_urlencoded_enc. Qed.
Print Assumptions urlencoded_roundtrip.
Theorem urldecode_inverts_percent_encoding : forall s, bytes_ok s -> urldecode (pct s) = s.
Proof. exact urldecode_pct. Qed.
Print Assumptions urldecode_inverts_percent_encoding.
Theorem urldecode_never_expands : forall n s, (length s <= n)%nat -> (length (urldecode s) <= length s)%nat.
Proof. exact urldecode_short. Qed.
Print Assumptions urldecode_never_expands.
Example urlencoded_nonvacuous :
  parse_urlencoded (enc_pairs [([97;38;61], [0;255;37;43]); ([98], [])]) = ([([97;38;61], [0;255;37;43]); ([98], [])], true) /\
  parse_urlencoded [97;61;98;38;99] = ([([97],[98])], false) /\           (* a=b&c : the second item is refused, the first stays *)
  parse_urlencoded [97;61;37;52;49;43;37;122;38] = ([([97],[65;32;122])], true).   (* a=%41+%z& *)
Proof. repeat split; vm_compute; reflexivity. Qed.

(* ------------------------------------------------------------------------------------------ *)
(* 4. tie: leaf functions regenerated from private/http_protocol.h = the model's                *)
(* ------------------------------------------------------------------------------------------ *)
Theorem source_separator_is_model : forall b, b < 256 -> g_c12_separator (wraps 8 (Z.of_N b)) = separator b.
Proof. exact link_separator. Qed.
Print Assumptions source_separator_is_model.
Theorem source_to_lower_is_model : forall b, b < 256 -> g_c12_to_lower (wraps 8 (Z.of_N b)) = wraps 8 (Z.of_N (to_lower b)).
Proof. exact link_to_lower. Qed.
Print Assumptions source_to_lower_is_model.
Theorem source_token_char_is_model : forall b, b < 256 ->
  (Z.leb 32 (wraps 8 (Z.of_N b)) && Z.leb (wraps 8 (Z.of_N b)) 126 && negb (g_c12_separator (wraps 8 (Z.of_N b))))%bool = tchar b.
Proof. exact link_tchar. Qed.
Print Assumptions source_token_char_is_model.
Theorem source_xdigit_is_model : forall b, b < 256 -> g_c12_xdigit (wraps 8 (Z.of_N b)) = xdigit b.
Proof. exact link_xdigit. Qed.
Print Assumptions source_xdigit_is_model.

(* ------------------------------------------------------------------------------------------ *)
(* 5. boundaries a peer may legally send; part header blocks: ANY bytes (since repair 3fc4520)  *)
(* ------------------------------------------------------------------------------------------ *)
(* every boundary that RFC 2046 5.1.1 allows (1..70 bchars, not ending with a space) satisfies the
   hypotheses "no CR in key" and "key <> []" of matcher_correct / decode_encode / framing_exact *)
Theorem rfc2046_boundaries_are_in_the_domain : forall key, rfc2046_boundary key -> ~ In 13 key /\ key <> [].
Proof. exact rfc2046_boundary_ok. Qed.
Print Assumptions rfc2046_boundaries_are_in_the_domain.

(* hdr_ends H (the hypothesis of framing_exact about a part header block) holds exactly for the blocks whose
   FIRST CR LF CR LF is at their end - any bytes, bare CRs included *)
Theorem header_block_ends_at_first_terminator : forall H,
  hdr_ends H <-> exists x, H = x ++ crlfcrlf /\ ~ occurs crlfcrlf (x ++ [13;10;13]).
Proof.
  intros H. split; [apply hdr_ends_first|]. intros [x [E Hno]]. subst H. apply first_terminator_ends_block. exact Hno.
Qed.
Print Assumptions header_block_ends_at_first_terminator.
(* a part header with ANY bytes (bare CR included) is either refused with 400 or framed exactly: once the first
   CR LF CR LF has been read the block - and nothing more - goes to process_header; if it is refused the request
   is answered with 400, otherwise the content starts right after it (part_content_reconstructed then gives the
   content byte for byte up to the next delimiter).  This is what the repaired code does with a malformed header
   line: a bare CR inside a header the parser does not interpret is tolerated (the value is ignored anyway), a bare
   CR that breaks the Content-Disposition syntax is refused; in neither case is anything delivered in part or under
   another name - the refusal clause of the property holds for this input class. *)
Theorem part_header_refused_or_framed_exactly : forall bnd lim x fs rest, ~ occurs crlfcrlf (x ++ [13;10;13]) ->
  let H := x ++ crlfcrlf in
  (forall f, process_header (S (length H)) H empty_file = FOk f ->
     feed bnd lim (mkst CrlfCrlf 0 [] empty_file fs false) (H ++ rest) = feed bnd lim (mkst SepBoundary 0 [] f fs true) rest) /\
  (process_header (S (length H)) H empty_file = FFail ->
     feed bnd lim (mkst CrlfCrlf 0 [] empty_file fs false) (H ++ rest) = OStop 400).
Proof.
  intros bnd lim x fs rest Hno. cbv zeta. pose proof (first_terminator_ends_block x Hno) as He. split.
  - intros f Hf. apply feed_hdr_block; assumption.
  - intros Hf. apply feed_hdr_block_refused; assumption.
Qed.
Print Assumptions part_header_refused_or_framed_exactly.

(* every part header block made of one or more non-empty lines without CR, each ended by CR LF, plus
   the empty line, is ended by the terminator matcher exactly at its last byte and at no earlier byte (special
   case of the above, kept from the round before the repair); a line folded with CR LF SP is fine as well *)
Theorem wellformed_header_block_terminated_exactly : forall lines, lines <> [] -> Forall hline_ok lines ->
  hdr_ends (hdr_block lines) /\
  (forall a b, hdr_block lines = a ++ b -> b <> [] -> exists q, hterm 0 a = Some q).
Proof.
  intros lines Hne Hf. split; [exact (wellformed_hdr_block_ends lines Hne Hf)|].
  intros a b. exact (wellformed_hdr_block_not_earlier lines a b Hne Hf).
Qed.
Print Assumptions wellformed_header_block_terminated_exactly.
Theorem folded_header_line_keeps_terminator_state : forall l p, fold_ok l -> (p = 0 \/ p = 2)%nat ->
  hterm p (l ++ crlf) = Some 2%nat.
Proof. exact hterm_folded_line. Qed.
Print Assumptions folded_header_line_keeps_terminator_state.
Example domain_nonvacuous :
  rfc2046_boundary [45;45;45;45;87;101;98;75;105;116;39;40;41;43;95;44;46;47;58;61;63;32;120] /\
  Forall hline_ok [[88;58;32;97]; [89;58;10;98]] /\ hterm 0 (hdr_block [[88;58;32;97]; [89;58;10;98]]) = None.
Proof.
  split; [split; [vm_compute; reflexivity|split; [cbn; lia|vm_compute; discriminate]]|].
  split; [|vm_compute; reflexivity].
  repeat constructor; try discriminate; intros H; vm_compute in H; intuition discriminate.
Qed.

(* ------------------------------------------------------------------------------------------ *)
(* 6. temporary files: the upload file objects as a resource state machine (ResDefs.v):          *)
(*    file_buffer put side (memory until the size exceeds the limit, then one temporary file),   *)
(*    file::close / ~file / save_to / make_permanent, the owners (parser file_/files_, the local *)
(*    vector in on_content_progress, request::files_, references kept by the application).       *)
(*    g_create / g_close / g_remove count fopen / fclose / remove-or-rename per object.          *)
(* ------------------------------------------------------------------------------------------ *)
(* the switch is exact: after the content of an entry has been written, the object is a temporary file
   (created once, descriptor open, entry in the upload directory) iff size > file_in_memory_limit *)
Theorem spill_iff_size_exceeds_limit : forall mem f,
  let o := entry_obj mem f in
  o_inmem o = negb (spills mem f) /\ o_open o = spills mem f /\ fo_on_disk o = spills mem f /\
  g_create o = (if spills mem f then 1 else 0) /\ g_close o = 0 /\ g_remove o = 0 /\ fo_size o = f_size f /\ o_temp o = true.
Proof. exact entry_obj_spill. Qed.
Print Assumptions spill_iff_size_exceeds_limit.
Theorem spill_threshold_exact : forall f n, f_size f = n ->
  spills (n + 1) f = false /\ spills n f = false /\ (1 <= n -> spills (n - 1) f = true).
Proof.
  intros f n E. unfold spills. rewrite E. repeat split; [apply N.ltb_ge; lia|apply N.ltb_ge; lia|intros H; apply N.ltb_lt; lia].
Qed.
Print Assumptions spill_threshold_exact.

(* refused (400 / 413) and aborted requests: every object the parser holds - completed entries and the one
   in progress - is destroyed with the request; each temporary file created is closed exactly once and
   removed exactly once, no descriptor and no directory entry is left; until then exactly the entries over
   the limit are on disk *)
Theorem refused_or_aborted_request_leaves_nothing : forall mem done cur h, h = HRefused \/ h = HAborted ->
  let L := lifecycle mem done cur h in
  Forall obj_gone (l_final L) /\ l_destroyed L = (0, 0) /\ l_released L = (0, 0) /\
  l_start L = (n_spilled mem (match cur with Some f => f :: done | None => done end),
               n_spilled mem (match cur with Some f => f :: done | None => done end)).
Proof. exact refused_lifecycle. Qed.
Print Assumptions refused_or_aborted_request_leaves_nothing.

(* accepted request, ANY behaviour of the application (close / save_to / make_permanent / keeping a
   reference beyond the request, in any order, on any of the files): every object ends balanced - created at
   most once, closed exactly as often as created, no descriptor left; if nothing was made permanent every
   temporary file is removed or moved away exactly once and the upload directory is empty at the end *)
Theorem accepted_request_files_closed_and_removed_exactly_once : forall mem done cur acts,
  let L := lifecycle mem done cur (HReady acts) in
  Forall obj_balanced (l_final L) /\ fst (l_released L) = 0 /\
  (forallb (fun a => negb (is_perm a)) acts = true -> Forall obj_gone (l_final L) /\ l_released L = (0, 0)).
Proof. exact ready_final. Qed.
Print Assumptions accepted_request_files_closed_and_removed_exactly_once.

(* when the application starts, the temporary files of oversized form FIELDS are already gone (their
   content is in post()), and exactly the uploaded files over the limit are open temporary files *)
Theorem application_starts_with_exactly_the_spilled_files : forall mem done cur acts,
  l_start (lifecycle mem done cur (HReady acts)) = (n_spilled mem (filter has_mime done), n_spilled mem (filter has_mime done)).
Proof. exact ready_start. Qed.
Print Assumptions application_starts_with_exactly_the_spilled_files.

(* never while the application can still read it: whatever else the application does, a file it neither
   closes nor saves keeps its descriptor, its directory entry, its size and its counters *)
Theorem file_untouched_while_application_runs : forall mem done acts k d,
  forallb (fun a => negb (touches k a)) acts = true ->
  same_res (fst (nth k (files_of mem done) d)) (fst (nth k (app_run (files_of mem done) acts) d)).
Proof. exact ready_window. Qed.
Print Assumptions file_untouched_while_application_runs.

(* close() twice, or close() then the destructor: nothing happens the second time *)
Theorem file_close_idempotent : forall o, inv_o o -> fo_close (fo_close o) = fo_close o /\ fo_destroy (fo_close o) = fo_close o.
Proof. intros o H. split; [apply close_idem|apply destroy_after_close]; exact H. Qed.
Print Assumptions file_close_idempotent.

Definition ex_big : pfile := mkfile [102] [120] [97;47;98] [1;2;3;4;5].
Definition ex_small : pfile := mkfile [103] [121] [97;47;98] [1;2].
Definition ex_field : pfile := mkfile [104] [] [] [1;2;3;4;5;6].
Example tempfiles_nonvacuous :
  (* limit 4: the 5-byte file and the 6-byte field spill; the application closes file 0, saves file 1 (in memory: no effect), keeps file 0 *)
  let L := lifecycle 4 [ex_big; ex_field; ex_small] None (HReady [AClose 0; ASave 1; AKeep 0]) in
  l_start L = (1, 1) /\ l_app_end L = (0, 0) /\ l_released L = (0, 0) /\
  map g_create (l_final L) = [0; 1; 1; 0] /\ map g_close (l_final L) = [0; 1; 1; 0] /\ map g_remove (l_final L) = [0; 1; 1; 0] /\
  (* made permanent: the file stays, by request of the application *)
  l_released (lifecycle 4 [ex_big] None (HReady [APerm 0])) = (0, 1) /\
  (* refused with the 5-byte file complete and the field in progress *)
  l_start (lifecycle 4 [ex_big] (Some ex_field) HRefused) = (2, 2) /\
  l_destroyed (lifecycle 4 [ex_big] (Some ex_field) HRefused) = (0, 0) /\
  (* a kept reference survives the request *)
  l_destroyed (lifecycle 4 [ex_big] None (HReady [AKeep 0])) = (1, 1).
Proof. vm_compute. repeat split; reflexivity. Qed.

(* ------------------------------------------------------------------------------------------ *)
(* 7. urlencoded forms under ANY encoding, the GET query, the read_full accumulation            *)
(* ------------------------------------------------------------------------------------------ *)
(* every byte may be sent literally (unless it is % + & =), a space as +, or as %XX with hex digits of
   either case - whatever the client chooses per byte, the decoder returns the original bytes *)
Theorem urldecode_inverts_any_encoding : forall s e, encs s e -> urldecode e = s.
Proof. exact urldecode_any. Qed.
Print Assumptions urldecode_inverts_any_encoding.
(* exact splitting: items name=value under any encoding, joined by ampersands (with or without a trailing
   one) are delivered as exactly those pairs, in order *)
Theorem urlencoded_any_encoding_exact : forall ps its, Forall2 item_of ps its ->
  parse_urlencoded (join_amp its) = (ps, true) /\ (its <> [] -> parse_urlencoded (join_amp its ++ [38]) = (ps, true)).
Proof. intros ps its H. split; [apply parse_urlencoded_any; exact H|intros Hne; apply parse_urlencoded_any_trailing; assumption]. Qed.
Print Assumptions urlencoded_any_encoding_exact.
(* the GET query string goes through the same splitter; a malformed item empties get() (all or nothing),
   whereas post() keeps the pairs before the malformed item (model: fst (parse_urlencoded b)) *)
Theorem get_query_exact : forall ps its, Forall2 item_of ps its -> get_query (join_amp its) = ps.
Proof. exact get_query_any. Qed.
Print Assumptions get_query_exact.
Theorem get_query_all_or_nothing_thm : forall q,
  get_query q = fst (parse_urlencoded q) \/ (get_query q = [] /\ snd (parse_urlencoded q) = false).
Proof. exact get_query_all_or_nothing. Qed.
Print Assumptions get_query_all_or_nothing_thm.
(* a body that is not multipart/form-data is collected into one buffer of the declared size: the result
   depends on the concatenation of the reads only, and it is the request-level model the service harness
   is compared with *)
Theorem plain_body_chunk_indep : forall L ct declared chunks,
  request_plain L ct declared chunks = request_plain L ct declared [concat chunks].
Proof. exact request_plain_chunk_indep. Qed.
Print Assumptions plain_body_chunk_indep.
Theorem plain_body_model_is_service_model : forall L ct declared body, is_mp ct = false ->
  let r := request_service L false ct declared body in
  request_plain L ct declared [body] = (sv_status r, sv_pairs r).
Proof. exact request_plain_is_service. Qed.
Print Assumptions plain_body_model_is_service_model.
(* content_length_limit at n-1 / n / n+1 for a body of n bytes *)
Theorem content_length_limit_exact : forall ct n body, (0 < n)%nat -> length body = n ->
  fst (request_plain (mklim (N.of_nat n) 0) ct n [body]) = 200 /\
  fst (request_plain (mklim (N.of_nat n + 1) 0) ct n [body]) = 200 /\
  request_plain (mklim (N.of_nat n - 1) 0) ct n [body] = (413, []).
Proof. exact plain_limit_exact. Qed.
Print Assumptions content_length_limit_exact.
Example urlencoded_any_nonvacuous :   (* the pairs (a b, +) and (a, x) sent as  a+b=%2B&%61=x  *)
  Forall2 item_of [([97;32;98], [43]); ([97], [120])] [[97;43;98;61;37;50;66]; [37;54;49;61;120]] /\
  get_query (join_amp [[97;43;98;61;37;50;66]; [37;54;49;61;120]]) = [([97;32;98], [43]); ([97], [120])] /\
  get_query [97;61;49;38;98] = [] /\ fst (parse_urlencoded [97;61;49;38;98]) = [([97],[49])].
Proof.
  split; [|vm_compute; repeat split; reflexivity].
  constructor; [|constructor; [|constructor]].
  - exists [97;43;98], [37;50;66]. split; [reflexivity|]. split; [|split; [|discriminate]].
    + apply (encs_cons 97 [32;98] [97] [43;98]); [constructor; discriminate|].
      apply (encs_cons 32 [98] [43] [98]); [constructor|].
      apply (encs_cons 98 [] [98] []); [constructor; discriminate|constructor].
    + apply (encs_cons 43 [] [37;50;66] []); [apply enc_pct; reflexivity|constructor].
  - exists [37;54;49], [120]. split; [reflexivity|]. split; [|split; [|discriminate]].
    + apply (encs_cons 97 [] [37;54;49] []); [apply enc_pct; reflexivity|constructor].
    + apply (encs_cons 120 [] [120] []); [constructor; discriminate|constructor].
Qed.

(* ------------------------------------------------------------------------------------------ *)
(* 8. content_type::parse on every well-formed header                                            *)
(* ------------------------------------------------------------------------------------------ *)
(* OWS type/subtype *( OWS ; OWS name OWS = OWS (token | quoted-string) ): media type = lower-cased
   type/subtype, parameters = exactly the pairs in order with lower-cased names *)
Theorem content_type_parsed_exactly : forall w0 ty sub ps, ows w0 -> ty <> [] -> sub <> [] ->
  forallb tchar ty = true -> forallb tchar sub = true -> Forall cp_ok ps ->
  media_type (ct_enc w0 ty sub ps) = map to_lower ty ++ 47 :: map to_lower sub /\
  ct_boundary (ct_enc w0 ty sub ps) = FOk (assoc s_boundary (map cp_pair ps)).
Proof. exact ct_parse_exact. Qed.
Print Assumptions content_type_parsed_exactly.
(* the boundary handed to the multipart parser is exactly the value (unquoted, unescaped) of the first
   parameter whose name is boundary in any case; parameters before and after it do not matter *)
Theorem boundary_is_exactly_the_parameter_value : forall w0 ty sub before p after,
  ows w0 -> ty <> [] -> sub <> [] -> forallb tchar ty = true -> forallb tchar sub = true ->
  Forall cp_ok (before ++ p :: after) ->
  forallb (fun q => negb (is_boundary_name q)) before = true -> is_boundary_name p = true ->
  ct_boundary (ct_enc w0 ty sub (before ++ p :: after)) = FOk (pv_val (cp_value p)).
Proof. exact boundary_extracted_exactly. Qed.
Print Assumptions boundary_is_exactly_the_parameter_value.
Theorem header_without_boundary_parameter_gives_none : forall w0 ty sub ps,
  ows w0 -> ty <> [] -> sub <> [] -> forallb tchar ty = true -> forallb tchar sub = true ->
  Forall cp_ok ps -> forallb (fun q => negb (is_boundary_name q)) ps = true ->
  ct_boundary (ct_enc w0 ty sub ps) = FOk [].
Proof. exact no_boundary_parameter_refused. Qed.
Print Assumptions header_without_boundary_parameter_gives_none.
Example content_type_nonvacuous :   (* Multipart/Form-Data, charset=x, BOUNDARY quoted with an escaped quote inside, a second boundary; tab and space as OWS *)
  let p1 := mkcp [32] [] [] [] [99;104;97;114;115;101;116] (VTok [120]) in
  let p2 := mkcp [] [32] [32] [9] [66;79;85;78;68;65;82;89] (VQuoted [97;34;98]) in
  let p3 := mkcp [32] [] [] [] [98;111;117;110;100;97;114;121] (VTok [122]) in
  Forall cp_ok [p1; p2; p3] /\
  ct_boundary (ct_enc [32] [77;117;108;116;105;112;97;114;116] [70;111;114;109;45;68;97;116;97] [p1; p2; p3]) = FOk [97;34;98] /\
  is_mp (ct_enc [32] [77;117;108;116;105;112;97;114;116] [70;111;114;109;45;68;97;116;97] [p1; p2; p3]) = true.
Proof.
  cbv zeta. split; [|vm_compute; split; reflexivity].
  repeat constructor; try discriminate.
Qed.

(* ------------------------------------------------------------------------------------------ *)
(* 9. limits: exact boundaries at n-1 / n / n+1, and the decisions of the CURRENT source          *)
(*    (coq/gen/Gen_c12lim.v: integer leafs lifted textually from file_buffer::overflow,          *)
(*    request::on_content_start, request::size_ok, cached_settings.h, content_limits)            *)
(* ------------------------------------------------------------------------------------------ *)
(* a body of n > 0 bytes: accepted by on_content_start with the limit that applies at n and n+1, 413 at n-1;
   the other limit is irrelevant (multipart bodies are not subject to content_length_limit and vice versa) *)
Theorem declared_length_limits_exact : forall n other, (0 < n)%nat ->
  start_status (mklim other (N.of_nat n)) true n = 0 /\ start_status (mklim other (N.of_nat n + 1)) true n = 0 /\
  start_status (mklim other (N.of_nat n - 1)) true n = 413 /\
  start_status (mklim (N.of_nat n) other) false n = 0 /\ start_status (mklim (N.of_nat n + 1) other) false n = 0 /\
  start_status (mklim (N.of_nat n - 1) other) false n = 413.
Proof.
  intros n other Hn. unfold start_status. destruct (Nat.eqb_spec n 0); [lia|]. cbn [multipart_limit content_length_limit].
  destruct (N.ltb_spec (N.of_nat n) (N.of_nat n)); [lia|].
  destruct (N.ltb_spec (N.of_nat n + 1) (N.of_nat n)); [lia|].
  destruct (N.ltb_spec (N.of_nat n - 1) (N.of_nat n)); [|lia]. repeat split; reflexivity.
Qed.
Print Assumptions declared_length_limits_exact.
Theorem refused_at_start_is_413_in_the_service_model : forall L raw ct declared body,
  start_status L (is_mp ct) declared = 413 -> sv_status (request_service L raw ct declared body) = 413.
Proof. exact start_status_service. Qed.
Print Assumptions refused_at_start_is_413_in_the_service_model.
(* a form field of n bytes against content_length_limit n-1 / n / n+1; an entry with a MIME type is never limited here *)
Theorem field_size_limit_exact : forall f n, f_size f = n ->
  size_ok (Some n) f = true /\ size_ok (Some (n + 1)) f = true /\
  (has_mime f = false -> 1 <= n -> size_ok (Some (n - 1)) f = false) /\ (has_mime f = true -> forall a, size_ok (Some a) f = true).
Proof.
  intros f n E. unfold size_ok. rewrite E. repeat split.
  - destruct (N.leb_spec n n); [apply orb_true_r|lia].
  - destruct (N.leb_spec n (n + 1)); [apply orb_true_r|lia].
  - intros Hm Hn. rewrite Hm. destruct (N.leb_spec n (n - 1)); [lia|reflexivity].
  - intros Hm a. rewrite Hm. reflexivity.
Qed.
Print Assumptions field_size_limit_exact.

Theorem source_spill_switch_is_model : forall size limit,
  g_c12_spill (Z.of_N size) (Z.of_N limit) = (if (limit <=? size)%N then 1%Z else 0%Z).
Proof. exact link_spill. Qed.
Print Assumptions source_spill_switch_is_model.
Theorem source_buffer_growth_is_model : forall cap limit, (2 * Z.of_N cap < 2 ^ 64)%Z ->
  g_c12_grow (Z.of_N cap) (Z.of_N limit) =
  Z.of_N (let d := 2 * cap in let d := if d =? 0 then 64 else d in if limit <? d then limit else d) /\
  g_c12_buffer_size = Z.of_N buffer_size.
Proof. intros cap limit H. split; [apply link_grow; exact H|exact link_buffer_size]. Qed.
Print Assumptions source_buffer_growth_is_model.
Theorem source_on_content_start_is_model : forall L (mp : bool) declared,
  g_c12_start (Z.of_nat declared) (if mp then 1%Z else 0%Z) (Z.of_N (multipart_limit L)) (Z.of_N (content_length_limit L))
  = Z.of_N (start_status L mp declared) /\
  (forall z a b c, (z < 0)%Z -> g_c12_start z a b c = 400%Z).
Proof. intros L mp declared. split; [apply link_start|intros z a b c H; apply link_start_negative; exact H]. Qed.
Print Assumptions source_on_content_start_is_model.
Theorem source_size_ok_is_model : forall a f,
  size_ok (Some a) f = negb (Z.eqb (g_c12_size_ok (if has_mime f then 1%Z else 0%Z) (Z.of_N (f_size f)) (Z.of_N a)) 0).
Proof. exact size_ok_is_link. Qed.
Print Assumptions source_size_ok_is_model.
Theorem source_default_limits_are_model :
  g_c12_def_cl = Z.of_N (content_length_limit default_limits) /\
  g_c12_def_mp = Z.of_N (multipart_limit default_limits) /\
  g_c12_def_mem = Z.of_N default_file_in_memory_limit.
Proof. exact link_defaults. Qed.
Print Assumptions source_default_limits_are_model.
Example limits_exact_nonvacuous :
  multipart_limit default_limits = 67108864 /\ content_length_limit default_limits = 1048576 /\ default_file_in_memory_limit = 131072 /\
  start_status (mklim 10 20) true 20 = 0 /\ start_status (mklim 10 20) true 21 = 413 /\
  start_status (mklim 10 20) false 10 = 0 /\ start_status (mklim 10 20) false 11 = 413 /\
  spills 5 ex_big = false /\ spills 4 ex_big = true /\ size_ok (Some 5) ex_field = false /\ size_ok (Some 6) ex_field = true.
Proof. vm_compute. repeat split; reflexivity. Qed.

(* ------------------------------------------------------------------------------------------ *)
(* 10. REPAIRED (3fc4520, was finding bare-cr-in-part-header-misframed): regression Examples.    *)
(*     The body with a bare CR at the end of the last header line of part a - formerly accepted   *)
(*     with the single entry (a, z) - is now framed exactly: (a, body) and (b, z), under the       *)
(*     single-chunk and the one-byte chunking.                                                     *)
(* ------------------------------------------------------------------------------------------ *)
Definition finding_ct : list N := [109;117;108;116;105;112;97;114;116;47;102;111;114;109;45;100;97;116;97;59;32;98;111;117;110;100;97;114;121;61;107].
Definition finding_body : list N := [45;45;107;13;10;67;111;110;116;101;110;116;45;68;105;115;112;111;115;105;116;105;111;110;58;32;102;111;114;109;45;100;97;116;97;59;32;110;97;109;101;61;34;97;34;13;10;88;45;78;111;116;101;58;32;113;13;13;10;13;10;98;111;100;121;13;10;45;45;107;13;10;67;111;110;116;101;110;116;45;68;105;115;112;111;115;105;116;105;111;110;58;32;102;111;114;109;45;100;97;116;97;59;32;110;97;109;101;61;34;98;34;13;10;13;10;122;13;10;45;45;107;45;45;13;10].
Example bare_cr_header_regression :
  request_multipart (mklim 1000 100000) finding_ct (length finding_body) [finding_body]
  = RReady [mkfile [97] [] [] (rev [98;111;100;121]); mkfile [98] [] [] [122]] /\
  request_multipart (mklim 1000 100000) finding_ct (length finding_body) (map (fun c => [c]) finding_body)
  = RReady [mkfile [97] [] [] (rev [98;111;100;121]); mkfile [98] [] [] [122]].
Proof. vm_compute. split; reflexivity. Qed.

(* the repair changed nothing for well-formed input: on every header text without a bare CR (every CR
   followed by LF) the matcher as it was (hterm_old: reset to 0) and the repaired one run identically, from
   any state *)
Theorem repair_changed_nothing_without_bare_cr : forall w p, (p < 4)%nat -> nb (after_cr p) w = true -> hterm_old p w = hterm p w.
Proof. exact old_matcher_same_without_bare_cr. Qed.
Print Assumptions repair_changed_nothing_without_bare_cr.
Example repair_nonvacuous :
  nb (after_cr 0) [88;58;13;10;32;97;13;10;13;10] = true /\ hterm 0 [88;58;13;10;32;97;13;10;13;10] = None /\
  occurs crlfcrlf [88;13;13;10;13;10;120] /\ hterm 0 [88;13;13;10;13;10;120] = None.
Proof. split; [reflexivity|]. split; [reflexivity|]. split; [exists [88;13], [120]; reflexivity|reflexivity]. Qed.

(* ------------------------------------------------------------------------------------------ *)
(* 11. a content filter that aborts the upload (abort_upload thrown from the k-th on_new_file)   *)
(* ------------------------------------------------------------------------------------------ *)
Theorem filter_that_never_aborts_is_plain_filter : forall bnd lim chunk s a,
  feed_ab bnd lim 0 s chunk a = feed_f bnd lim s chunk a.
Proof. exact feed_ab_never. Qed.
Print Assumptions filter_that_never_aborts_is_plain_filter.
(* refusals are 400, 413 or the code of the filter, the latter exactly when its k-th on_new_file was reached *)
Theorem aborting_filter_refusal_codes : forall bnd lim k chunk s a c a', feed_ab bnd lim k s chunk a = (OStop c, a') ->
  c = 400 \/ c = 413 \/ (c = 403 /\ n_new a' = k).
Proof. exact feed_ab_codes. Qed.
Print Assumptions aborting_filter_refusal_codes.
(* whatever is not accepted - aborted by the filter, refused, incomplete - hands nothing to the application *)
Theorem aborted_upload_delivers_nothing : forall L k ct declared body,
  sv_status (request_service_ab L k ct declared body) <> 200 ->
  sv_entries (request_service_ab L k ct declared body) = [] /\ sv_pairs (request_service_ab L k ct declared body) = [].
Proof. exact aborted_nothing_delivered. Qed.
Print Assumptions aborted_upload_delivers_nothing.
Example abort_nonvacuous :   (* the finding body has two parts: abort at the first on_new_file gives 403 *)
  sv_status (request_service_ab (mklim 1000 100000) 1 finding_ct (length finding_body) finding_body) = 403 /\
  sv_status (request_service_ab (mklim 1000 100000) 5 finding_ct (length finding_body) finding_body) = 200.
Proof. vm_compute. split; reflexivity. Qed.

(* the outcome of a request with an aborting filter, and everything the filter was told before, does not
   depend on where the input is cut (same statement as filter_events_cut_anywhere, for feed_ab) *)
Theorem aborting_filter_cut_anywhere : forall bnd lim k a b s acc, inv s -> b <> [] ->
  feed_ab bnd lim k s (a ++ b) acc = then_feed_ab bnd lim k (feed_ab bnd lim k s a acc) b.
Proof. exact feed_ab_app. Qed.
Print Assumptions aborting_filter_cut_anywhere.

(* ------------------------------------------------------------------------------------------ *)
(* 12. temporary files when file operations FAIL (FaultDefs.v): fopen / fwrite / fflush / fclose *)
(*     may fail at any point (a failing fwrite writes nothing, a failing fclose still releases   *)
(*     the descriptor, remove() is assumed to work).  A failed write - since /repo eca1034 also   *)
(*     a failed final flush - makes the parser answer no_room_left, which http::request turns    *)
(*     into 413.  The model follows the repaired code (6c3ce6d, eca1034).                        *)
(* ------------------------------------------------------------------------------------------ *)
(* whatever fails while an entry is written - under ANY schedule of failing fopen / fwrite - the object is pure
   memory, or one created and open temporary file (wstate; the spill itself may have failed) *)
Theorem object_state_under_any_write_faults : forall limit data sched,
  wstate (fst (fo_write_s limit fo_new data sched)).
Proof. intros. apply wstate_write_s. apply wstate_new. Qed.
Print Assumptions object_state_under_any_write_faults.
(* EVERY such object, whatever fails during close (the pending write, fflush, fclose): when it is destroyed no
   descriptor stays open, the temporary file is removed exactly once, it was created at most once *)
Theorem destroyed_object_leaves_nothing_whatever_fails : forall wf sf cf o, wstate o -> nothing_left (fo_destroy_f wf sf cf o).
Proof. exact destroy_leaves_nothing. Qed.
Print Assumptions destroyed_object_leaves_nothing_whatever_fails.
Theorem written_then_destroyed_leaves_nothing : forall limit data sched wf sf cf,
  nothing_left (fo_destroy_f wf sf cf (fst (fo_write_s limit fo_new data sched))).
Proof. intros. apply destroy_leaves_nothing. apply wstate_write_s. apply wstate_new. Qed.
Print Assumptions written_then_destroyed_leaves_nothing.
(* regression Example (was failed_spill_leaves_temp_file_refuted): limit 2, the third byte triggers to_file(), its
   fwrite fails - file::close() as it was (fo_destroy_old) kept the file, the repaired one leaves nothing *)
Example failed_spill_regression_example :
  let o := fst (fo_write_s 2 fo_new [1;2;3] [(false,false);(false,false);(true,false)]) in
  half_spilled o /\ fo_on_disk (fo_destroy_old false false false o) = true /\ nothing_left (fo_destroy_f false false false o).
Proof. exact failed_spill_regression. Qed.
(* a failed final flush is reported: a run that does not fail (no no_room_left) has flushed every completed entry
   successfully - its content can be read back in full *)
Theorem failed_final_flush_is_reported : forall limit q ofail sfail fs,
  fr_failed (write_entries_q limit q ofail sfail fs) = false ->
  Forall (fun p => snd p = true) (fr_done (write_entries_q limit q ofail sfail fs)).
Proof. exact final_flush_reported. Qed.
Print Assumptions failed_final_flush_is_reported.
(* regression Example (was final_flush_fault_is_reported_refuted): quota 2, a 3-byte entry with limit 1 - now the run
   fails with the entry still in progress; the parser as it was accepted it with unreadable content *)
Example final_flush_regression_example :
  let r := write_entries_q 1 (Some 2) false false [mkfile [97] [] [] [1;2;3]] in
  let r0 := write_entries_old 1 (Some 2) false false [mkfile [97] [] [] [1;2;3]] in
  fr_failed r = true /\ fr_done r = [] /\ fr_failed r0 = false /\ map snd (fr_done r0) = [false].
Proof. exact final_flush_regression. Qed.

(* ------------------------------------------------------------------------------------------ *)
(* 13. state a content filter leaves behind: position and failbit of a part's input stream       *)
(*     (MoreDefs.v sstate / after_read / post_value / handed); model of the repaired read_file    *)
(*     (/repo ebeb88c: clear() before seekg(0))                                                  *)
(* ------------------------------------------------------------------------------------------ *)
(* an adversarial filter may leave ANY position and ANY failbit: the value copied into post() is the whole part *)
Theorem field_delivered_whole_in_every_stream_state : forall data s, post_value data s = data.
Proof. exact post_value_whole. Qed.
Print Assumptions field_delivered_whole_in_every_stream_state.
(* every filter behaviour (read all / half at buffer level, seek to the end / the middle, stream-level read to the
   end) in on_new_file and on_data_ready *)
Theorem field_whole_after_any_filter : forall fnew fready data,
  post_value data (fst (part_through_filter fnew fready data)) = data.
Proof. exact field_whole_after_filter. Qed.
Print Assumptions field_whole_after_any_filter.
(* on_data_ready always starts at the first byte of the part (unless failbit was set in on_new_file) *)
Theorem on_data_ready_sees_the_whole_part : forall fnew data, fnew <> RStream ->
  snd (part_through_filter fnew RAll data) = data /\ snd (part_through_filter fnew RStream data) = data.
Proof. exact ready_sees_whole. Qed.
Print Assumptions on_data_ready_sees_the_whole_part.
(* regression Example (was field_whole_after_any_filter_refuted): read_file as it was (seekg(0) only) delivered the
   field empty after a stream-level read to its end; now whole *)
Example field_cut_regression_example :
  post_value_old [1;2;3] (fst (part_through_filter RNone RStream [1;2;3])) = [] /\
  post_value_old [1;2;3] (fst (part_through_filter RStream RAll [1;2;3])) = [] /\
  post_value [1;2;3] (fst (part_through_filter RNone RStream [1;2;3])) = [1;2;3] /\
  post_value [1;2;3] (fst (part_through_filter RStream RAll [1;2;3])) = [1;2;3].
Proof. exact field_cut_regression. Qed.
(* an uploaded file is handed over at the position the filter left: read from there it is the tail; its content
   is intact (the harness reads all of it back after clear() + seekg(0) in every case) *)
Theorem uploaded_file_handed_at_the_position_the_filter_left : forall data s, handed data s = skipn (s_pos s) data.
Proof. exact handed_is_tail. Qed.
Print Assumptions uploaded_file_handed_at_the_position_the_filter_left.
