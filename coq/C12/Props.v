(* C12 -- uploaded form data is reconstructed exactly under any chunking, within limits.
   Only property theorems here, each closed by `exact <lemma>`; proofs are in Proofs.v (chunking),
   Matcher.v (boundary matcher), Limits.v (limits / status codes), Link.v (generated-from-source leafs).
   Model: Defs.v (per-byte step of multipart_parser::consume, header parser, request-level driver
   on_content_start / on_content_progress, urlencoded splitter). *)
From CppcmsV Require Import Base.Tac Base.CSem Base.Sweep C12.Defs C12.Proofs C12.Matcher C12.Limits C12.Roundtrip C12.Filter C12.Urlenc C12.Fuel C12.Framing C12.Link gen.Gen_c12.
Local Open Scope N_scope.

(* ------------------------------------------------------------------------------------------ *)
(* 1. chunking: the result of a multipart request (status, or the list of entries with names,    *)
(*    file names, MIME types and contents in order) does not depend on how the body bytes are    *)
(*    cut into reads -- any number of chunks, empty chunks included, bytes beyond the declared   *)
(*    length included                                                                            *)
(* ------------------------------------------------------------------------------------------ *)
Theorem chunk_indep : forall L ct declared chunks,
  request_multipart L ct declared chunks = request_multipart L ct declared [concat chunks].
Proof. exact request_chunk_indep. Qed.
Print Assumptions chunk_indep.

Theorem chunk_indep_two_partitions : forall L ct declared chunks1 chunks2,
  concat chunks1 = concat chunks2 ->
  request_multipart L ct declared chunks1 = request_multipart L ct declared chunks2.
Proof. exact request_two_partitions. Qed.
Print Assumptions chunk_indep_two_partitions.

(* parser level: feeding a ++ b in one consume-loop = feeding a, then b (the two chunk-sensitive
   spots, content_partial at a chunk end and the eof test, do not change the outcome) *)
Theorem parser_cut_anywhere : forall bnd lim a b s, inv s -> b <> [] ->
  feed bnd lim s (a ++ b) = then_feed bnd lim (feed bnd lim s a) b.
Proof. exact feed_app. Qed.
Print Assumptions parser_cut_anywhere.

(* the invariant used above holds initially and is preserved *)
Theorem parser_invariant : inv init_state /\
  (forall bnd lim a s s', inv s -> feed bnd lim s a = OGo s' -> inv s').
Proof. split; [exact inv_init|exact feed_inv]. Qed.
Print Assumptions parser_invariant.

(* the traced driver run by the correspondence harness is the same function as the request-level feed *)
Theorem harness_driver_is_feed : forall bnd ch s tr,
  feed bnd None s ch = out_of_tout (fst (feed_trace bnd s ch tr)).
Proof. exact feed_trace_feed. Qed.
Print Assumptions harness_driver_is_feed.

Definition ex_ct : list N :=   (* multipart/form-data; boundary=k *)
  [109;117;108;116;105;112;97;114;116;47;102;111;114;109;45;100;97;116;97;59;32;98;111;117;110;100;97;114;121;61;107].
Definition ex_parts : list part :=
  [mkpart [97] None [] [13;10;45;120]; mkpart [102] (Some [120;46;98]) [97;47;98] [1;2;13;10;45;45;3]].
Definition ex_body : list N := encode [107] ex_parts.
Example chunk_indep_nonvacuous :
  request_multipart (mklim 100 1000) ex_ct (length ex_body) (map (fun c => [c]) ex_body) = RReady (map file_of_part ex_parts) /\
  request_multipart (mklim 100 1000) ex_ct (length ex_body) [firstn 60 ex_body; []; skipn 60 ex_body] = RReady (map file_of_part ex_parts) /\
  request_multipart (mklim 100 1000) ex_ct (length ex_body) [ex_body] = RReady (map file_of_part ex_parts).
Proof. repeat split; vm_compute; reflexivity. Qed.

(* ------------------------------------------------------------------------------------------ *)
(* 2. the hand-restarted boundary matcher                                                       *)
(* ------------------------------------------------------------------------------------------ *)
(* boundary = CR LF - - key with no CR in key (RFC 2046 bchars): for ANY content x that does not
   contain the boundary -- partial look-alikes of any shape included -- the matcher run on
   x ++ boundary ++ rest writes exactly x (after what was written before) and stops right after
   the delimiter *)
Theorem matcher_correct : forall key, ~ In 13 key -> forall x rest rout,
  ~ occurs (make_boundary key) x ->
  mrun (make_boundary key) 0 (x ++ make_boundary key ++ rest) rout = Some (rev rout ++ x, rest).
Proof. exact mrun_finds. Qed.
Print Assumptions matcher_correct.

(* any boundary, any input: when the matcher stops, what it has written followed by the boundary
   followed by the unread rest is exactly the input (nothing lost, nothing invented) *)
Theorem matcher_sound : forall bnd, bnd <> [] -> forall input p rout out rest, (p < length bnd)%nat ->
  mrun bnd p input rout = Some (out, rest) ->
  rev rout ++ firstn p bnd ++ input = out ++ bnd ++ rest.
Proof. exact mrun_sound. Qed.
Print Assumptions matcher_sound.

(* the CR-free hypothesis is needed: with key = CR LF - - b the content CR LF - - hides the delimiter *)
Theorem matcher_needs_cr_free_key_refuted :
  containsb bad_content (make_boundary bad_key) = false /\
  mrun (make_boundary bad_key) 0 (bad_content ++ make_boundary bad_key) [] = None.
Proof. exact matcher_misses_with_cr_in_key. Qed.
Print Assumptions matcher_needs_cr_free_key_refuted.

(* the header terminator matcher resets to 0 without restart: CR CR LF CR LF is not recognised
   (malformed part header; outside well-formed input) *)
Theorem header_terminator_no_restart_refuted : hterm 0 [13;13;10;13;10] = Some 2%nat.
Proof. exact header_terminator_missed_after_cr. Qed.
Print Assumptions header_terminator_no_restart_refuted.

(* the matcher inside the parser: in the content state, a part content x free of the boundary is
   stored byte for byte, the entry is completed at the delimiter, and parsing goes on with the rest;
   the only other outcome is 413 for an oversized form field *)
Theorem part_content_reconstructed : forall key lim, ~ In 13 key -> forall s x rest,
  st s = SepBoundary -> pos s = 0%nat -> rest <> [] ->
  ~ occurs (make_boundary key) x ->
  feed (make_boundary key) lim s (x ++ make_boundary key ++ rest) =
    let f := file_with_data (cur s) (rev x ++ f_rdata (cur s)) in
    if size_ok lim f
    then feed (make_boundary key) lim (mkst OneCrlfOrEof 0 (rhdr s) empty_file (f :: rfiles s) false) rest
    else OStop 413.
Proof. exact part_content_exact. Qed.
Print Assumptions part_content_reconstructed.

Example matcher_nonvacuous :   (* key "ab", content full of look-alikes: CR, CR LF -, CR LF - - a, CR CR LF - - a CR *)
  let x := [13;13;10;45;13;10;45;45;97;13;13;10;45;45;97;13] in
  containsb x (make_boundary [97;98]) = false /\
  mrun (make_boundary [97;98]) 0 (x ++ make_boundary [97;98] ++ [45;45]) [] = Some (x, [45;45]).
Proof. split; vm_compute; reflexivity. Qed.

(* ------------------------------------------------------------------------------------------ *)
(* 2b. decode (encode parts) = parts                                                            *)
(* ------------------------------------------------------------------------------------------ *)
(* For every list of parts (any number) whose names / file names contain no CR, whose MIME type is
   empty or in the normal form content_type::parse returns, and whose contents (ANY bytes) do not
   contain CR LF - - key: the body produced by the reference encoder (Content-Disposition: form-data;
   name="..."[; filename="..."] with backslash-escaped quotes, optional Content-Type line), delivered
   under ANY chunking, with every form field within content_length_limit and the body within
   multipart_form_data_limit, is accepted and the application gets exactly those entries: names,
   file names, MIME types, contents byte for byte, in order. *)
Theorem decode_encode : forall L ct key ps chunks, ~ In 13 key -> key <> [] ->
  ct_boundary ct = FOk key ->
  Forall (wf_part key) ps ->
  Forall (fun p => size_ok (Some (content_length_limit L)) (file_of_part p) = true) ps ->
  concat chunks = encode key ps ->
  N.of_nat (length (encode key ps)) <= multipart_limit L ->
  request_multipart L ct (length (encode key ps)) chunks = RReady (map file_of_part ps).
Proof. exact decode_encode_request. Qed.
Print Assumptions decode_encode.

(* with the canonical header  multipart/form-data; boundary="key"  no hypothesis about the Content-Type is left *)
Theorem decode_encode_canonical_header : forall L key ps chunks, ~ In 13 key -> key <> [] ->
  Forall (wf_part key) ps ->
  Forall (fun p => size_ok (Some (content_length_limit L)) (file_of_part p) = true) ps ->
  concat chunks = encode key ps ->
  N.of_nat (length (encode key ps)) <= multipart_limit L ->
  request_multipart L (canonical_ct key) (length (encode key ps)) chunks = RReady (map file_of_part ps).
Proof. exact decode_encode_canonical. Qed.
Print Assumptions decode_encode_canonical_header.
Theorem canonical_content_type_accepted : forall key,
  ct_boundary (canonical_ct key) = FOk key /\ is_mp (canonical_ct key) = true.
Proof. exact ct_boundary_canonical. Qed.
Print Assumptions canonical_content_type_accepted.
(* every lower-case token/token is a MIME type in normal form (wf_mime), e.g. text/plain, image/x-png *)
Theorem mime_normal_form_sufficient : forall ty sub, ty <> [] -> sub <> [] ->
  forallb ltchar ty = true -> forallb ltchar sub = true -> wf_mime (ty ++ 47 :: sub).
Proof. exact wf_mime_tokens. Qed.
Print Assumptions mime_normal_form_sufficient.

(* framing is exact whatever the part headers look like: for ANY header blocks whose terminator is recognised
   exactly at their last byte and that process_header accepts (unquoted or quoted parameters, any case, extra
   headers, any order ...) and any contents free of the delimiter, the entries delivered carry exactly those
   contents and the meta data process_header computed - under every chunking *)
Theorem framing_exact : forall L ct key ps chunks, ~ In 13 key -> key <> [] ->
  ct_boundary ct = FOk key ->
  Forall (raw_ok key) ps ->
  Forall (fun p => size_ok (Some (content_length_limit L)) (raw_file p) = true) ps ->
  concat chunks = encode_raw key ps ->
  N.of_nat (length (encode_raw key ps)) <= multipart_limit L ->
  request_multipart L ct (length (encode_raw key ps)) chunks = RReady (map raw_file ps).
Proof. exact framing_exact_request. Qed.
Print Assumptions framing_exact.
Definition ex_raw_hdr : list N :=   (* lower/upper case names, unquoted and quoted values, an extra header, a Content-Type parameter *)
  [99;111;110;116;101;110;116;45;100;105;115;112;111;115;105;116;105;111;110;58;102;111;114;109;45;100;97;116;97;59;78;65;77;69;61;97;59;70;105;108;101;78;97;109;101;61;34;98;92;34;99;34;13;10;88;45;67;117;115;116;111;109;58;32;113;13;10;67;79;78;84;69;78;84;45;84;89;80;69;58;32;84;101;120;116;47;80;108;97;105;110;59;32;99;104;97;114;115;101;116;61;120;13;10;13;10].
Definition ex_raw : rawpart := mkraw ex_raw_hdr (mkfile [97] [98;34;99] [116;101;120;116;47;112;108;97;105;110] []) [13;10;45;45;13;13;10;45;45;106].
Example framing_nonvacuous : raw_ok [107] ex_raw /\
  request_multipart (mklim 100 1000) ex_ct (length (encode_raw [107] [ex_raw])) (map (fun c => [c]) (encode_raw [107] [ex_raw]))
  = RReady [mkfile [97] [98;34;99] [116;101;120;116;47;112;108;97;105;110] (rev [13;10;45;45;13;13;10;45;45;106])].
Proof.
  split; [|vm_compute; reflexivity].
  split; [exists (removelast ex_raw_hdr); split; vm_compute; reflexivity|].
  split; [vm_compute; reflexivity|].
  intros Ho. apply containsb_spec in Ho. vm_compute in Ho. discriminate.
Qed.

(* the same at parser level (any limit, including none) *)
Theorem parser_decode_encode : forall key lim ps, ~ In 13 key ->
  Forall (wf_part key) ps -> Forall (fun p => size_ok lim (file_of_part p) = true) ps ->
  exists s', feed (make_boundary key) lim init_state (encode key ps) = OEof s' /\ rev (rfiles s') = map file_of_part ps.
Proof. exact feed_encode. Qed.
Print Assumptions parser_decode_encode.

(* the part-header parser inverts the encoder's header block *)
Theorem part_headers_roundtrip : forall key p fuel, wf_part key p -> (3 <= fuel)%nat ->
  process_header fuel (enc_headers p) empty_file = FOk (part_meta p).
Proof. exact process_header_enc. Qed.
Print Assumptions part_headers_roundtrip.

(* quoted-string: unquote inverts quote for every byte string *)
Theorem unquote_inverts_quote : forall s tail, parse_value (quote_str s ++ tail) = Some (s, tail).
Proof. exact parse_value_quoted. Qed.
Print Assumptions unquote_inverts_quote.

Example decode_encode_nonvacuous :
  Forall (wf_part [107]) ex_parts /\ ct_boundary ex_ct = FOk [107] /\ wf_mime [116;101;120;116;47;112;108;97;105;110] /\                         (* text/plain *)
  wf_mime [97;112;112;108;105;99;97;116;105;111;110;47;111;99;116;101;116;45;115;116;114;101;97;109].  (* application/octet-stream *)
Proof.
  assert (forall m, (negb (is_nil m) && negb (existsb (N.eqb 13) m) && leqb (skip_ws m) m && leqb (media_type m) m)%bool = true -> wf_mime m) as W.
  { intros m H. apply andb_true_iff in H. destruct H as [H H4]. apply andb_true_iff in H. destruct H as [H H3].
    apply andb_true_iff in H. destruct H as [H1 H2].
    assert (forall a b, leqb a b = true -> a = b) as LE.
    { induction a as [|x a IH]; destruct b as [|y b]; cbn [leqb]; intros E; try discriminate; [reflexivity|].
      apply andb_true_iff in E. destruct E as [E1 E2]. apply N.eqb_eq in E1. subst. f_equal. apply IH. exact E2. }
    split; [destruct m; [discriminate|discriminate]|]. split.
    - intros Hin. apply negb_true_iff in H2. assert (existsb (N.eqb 13) m = true) as E.
      { apply existsb_exists. exists 13. split; [exact Hin|reflexivity]. } congruence.
    - split; apply LE; assumption. }
  assert (forall x key, containsb x (make_boundary key) = false -> ~ occurs (make_boundary key) x) as C.
  { intros x key H Ho. apply containsb_spec in Ho. congruence. }
  split; [|split; [vm_compute; reflexivity|split; apply W; vm_compute; reflexivity]].
  unfold ex_parts. constructor; [|constructor; [|constructor]].
  - split; [vm_compute; intuition discriminate|]. split; [intros fn E; discriminate|].
    split; [left; reflexivity|apply C; vm_compute; reflexivity].
  - split; [vm_compute; intuition discriminate|].
    split; [intros fn E; inversion E; subst; vm_compute; intuition discriminate|].
    split; [right; apply W; vm_compute; reflexivity|apply C; vm_compute; reflexivity].
Qed.

(* ------------------------------------------------------------------------------------------ *)
(* 3. limits and status codes                                                                   *)
(* ------------------------------------------------------------------------------------------ *)
Theorem declared_length_over_multipart_limit_413 : forall L ct declared chunks,
  declared <> 0%nat -> multipart_limit L < N.of_nat declared ->
  request_multipart L ct declared chunks = RStatus 413.
Proof. exact declared_over_limit. Qed.
Print Assumptions declared_length_over_multipart_limit_413.

Theorem missing_boundary_400 : forall L ct declared chunks,
  declared <> 0%nat -> N.of_nat declared <= multipart_limit L -> ct_boundary ct = FOk [] ->
  request_multipart L ct declared chunks = RStatus 400.
Proof. exact no_boundary_400. Qed.
Print Assumptions missing_boundary_400.

(* entries are published iff the declared number of bytes arrived and they end with the closing
   delimiter exactly on the last declared byte *)
Theorem delivered_iff_exact_eof : forall bnd lim declared chunks fs,
  req_loop bnd lim declared init_state chunks = RReady fs <->
  (declared <> 0%nat /\ (declared <= length (concat chunks))%nat /\
   exists s', feed bnd lim init_state (firstn declared (concat chunks)) = OEof s' /\ fs = rev (rfiles s')).
Proof. exact ready_iff. Qed.
Print Assumptions delivered_iff_exact_eof.

(* a body accepted as a whole: every proper prefix declared as the whole body is refused with 400 ... *)
Theorem shorter_than_wellformed_400 : forall bnd lim a b s', a <> [] -> b <> [] ->
  feed bnd lim init_state (a ++ b) = OEof s' ->
  req_loop bnd lim (length a) init_state [a] = RStatus 400.
Proof. exact truncated_refused. Qed.
Print Assumptions shorter_than_wellformed_400.

(* ... and so is every extension of it *)
Theorem trailing_bytes_400 : forall bnd lim a b s', a <> [] -> b <> [] ->
  feed bnd lim init_state a = OEof s' ->
  req_loop bnd lim (length (a ++ b)) init_state [a ++ b] = RStatus 400.
Proof. exact trailing_refused. Qed.
Print Assumptions trailing_bytes_400.

Theorem nothing_delivered_before_declared_length : forall bnd lim chunks rem s fs,
  req_loop bnd lim rem s chunks = RReady fs -> (rem <= length (concat chunks))%nat.
Proof. exact req_ready_needs_all. Qed.
Print Assumptions nothing_delivered_before_declared_length.

Theorem bytes_beyond_declared_length_ignored : forall bnd lim declared chunks,
  req_loop bnd lim declared init_state chunks =
  req_loop bnd lim declared init_state [firstn declared (concat chunks)].
Proof. exact req_ignores_tail. Qed.
Print Assumptions bytes_beyond_declared_length_ignored.

(* a form field (no MIME type) larger than content_length_limit: 413 *)
Theorem oversized_form_field_413 : forall key a, ~ In 13 key -> forall s x rest,
  st s = SepBoundary -> pos s = 0%nat -> rest <> [] -> ~ occurs (make_boundary key) x ->
  f_mime (cur s) = [] -> f_rdata (cur s) = [] -> a < N.of_nat (length x) ->
  feed (make_boundary key) (Some a) s (x ++ make_boundary key ++ rest) = OStop 413.
Proof. exact oversized_field_413. Qed.
Print Assumptions oversized_form_field_413.

(* once a field is over the limit no continuation of the body can rescue it *)
Theorem oversized_field_stays_refused : forall bnd lim b s, b <> [] -> st s = SepBoundary ->
  size_ok lim (cur s) = false -> feed bnd lim s b = OStop 413.
Proof. exact doomed. Qed.
Print Assumptions oversized_field_stays_refused.

(* files (entries with a MIME type) of any size and fields within the limit pass *)
Theorem file_or_small_field_accepted : forall key a, ~ In 13 key -> forall s x rest,
  st s = SepBoundary -> pos s = 0%nat -> rest <> [] -> ~ occurs (make_boundary key) x ->
  f_rdata (cur s) = [] -> (f_mime (cur s) <> [] \/ N.of_nat (length x) <= a) ->
  feed (make_boundary key) (Some a) s (x ++ make_boundary key ++ rest) =
  feed (make_boundary key) (Some a)
       (mkst OneCrlfOrEof 0 (rhdr s) empty_file (file_with_data (cur s) (rev x) :: rfiles s) false) rest.
Proof. exact within_limit_continues. Qed.
Print Assumptions file_or_small_field_accepted.

(* the parser refuses with 400 or 413 only, and a whole multipart request ends as: entries delivered, 400,
   413, or still waiting for input.  In particular the fuel markers of the model (FFuel, SFuel, 599) are
   unreachable: the fuel S (length input) handed to the three fuelled loops always suffices *)
Theorem refusal_codes : forall bnd lim ch s c, feed bnd lim s ch = OStop c -> c = 400 \/ c = 413.
Proof. exact feed_status_exact. Qed.
Print Assumptions refusal_codes.
Theorem request_outcomes_400_413 : forall L ct declared chunks,
  match request_multipart L ct declared chunks with
  | RReady _ => True
  | RStatus c => c = 400 \/ c = 413
  | RWaiting => True
  end.
Proof. exact request_outcomes. Qed.
Print Assumptions request_outcomes_400_413.
Theorem fuel_always_suffices :
  (forall bnd s c last, step bnd s c last <> SFuel) /\
  (forall ct, ct_boundary ct <> FFuel /\ ct_boundary ct <> FFail) /\
  (forall n hdr f, (length hdr < n)%nat -> process_header n hdr f <> FFuel) /\
  (forall n s f, (length s < n)%nat -> parse_cd n s f <> FFuel) /\
  (forall n s, (length s < n)%nat -> ct_params n s <> FFuel).
Proof.
  split; [exact step_no_fuel|]. split; [exact ct_boundary_no_fuel|]. split; [exact process_header_fuel|].
  split; [exact parse_cd_fuel|exact ct_params_fuel].
Qed.
Print Assumptions fuel_always_suffices.

Example limits_nonvacuous :
  request_multipart (mklim 3 1000) ex_ct (length ex_body) [ex_body] = RStatus 413 /\       (* field of 4 bytes, limit 3 *)
  request_multipart (mklim 4 1000) ex_ct (length ex_body) [ex_body] = RReady (map file_of_part ex_parts) /\
  request_multipart (mklim 4 154) ex_ct (length ex_body) [ex_body] = RStatus 413 /\        (* body of 155 bytes *)
  request_multipart (mklim 4 1000) ex_ct (length ex_body - 1) [ex_body] = RStatus 400 /\   (* declared one short *)
  request_multipart (mklim 4 1000) ex_ct (length ex_body + 1) [ex_body ++ [10]] = RStatus 400 /\
  request_multipart (mklim 4 1000) ex_ct (length ex_body + 1) [ex_body] = RStatus 400 /\   (* body shorter than declared *)
  request_multipart (mklim 4 1000) [97;47;98] (length ex_body) [ex_body] = RStatus 400.
Proof. repeat split; vm_compute; reflexivity. Qed.

(* ------------------------------------------------------------------------------------------ *)
(* 3b. content filters                                                                          *)
(* ------------------------------------------------------------------------------------------ *)
(* feed_f = feed + the chunking-independent multipart_filter callbacks (number of on_new_file calls, the
   entries passed to on_data_ready).  Cutting the input anywhere changes neither the outcome nor what
   the filter is told *)
Theorem filter_events_cut_anywhere : forall bnd lim a b s acc, inv s -> b <> [] ->
  feed_f bnd lim s (a ++ b) acc = then_feed_f bnd lim (feed_f bnd lim s a acc) b.
Proof. exact feed_f_app. Qed.
Print Assumptions filter_events_cut_anywhere.

(* an accepted body: the filter has been shown exactly the delivered entries - each one once (as many
   on_new_file as on_data_ready calls as entries), complete, in order *)
Theorem filter_sees_each_entry_once : forall bnd lim body s' a,
  feed_f bnd lim init_state body fev0 = (OEof s', a) ->
  feed bnd lim init_state body = OEof s' /\ rreadyd a = rfiles s' /\ n_new a = N.of_nat (length (rfiles s')).
Proof. exact filter_sees_delivered. Qed.
Print Assumptions filter_sees_each_entry_once.

(* the service-level model run against the real service (request_service) is the request model above *)
Theorem service_model_is_request_model : forall L ct declared body, is_mp ct = true ->
  rres_of_svc (request_service L false ct declared body) = request_multipart L ct declared [body].
Proof. exact service_is_request. Qed.
Print Assumptions service_model_is_request_model.

Example filter_nonvacuous :
  exists s' a, feed_f (make_boundary [107]) (Some 100) init_state ex_body fev0 = (OEof s', a) /\
               n_new a = 2 /\ rev (rreadyd a) = map file_of_part ex_parts /\ is_mp ex_ct = true.
Proof. eexists. eexists. split; [vm_compute; reflexivity|]. repeat split. Qed.

(* ------------------------------------------------------------------------------------------ *)
(* 3c. application/x-www-form-urlencoded                                                        *)
(* ------------------------------------------------------------------------------------------ *)
(* any list of (name, value) pairs of bytes with non-empty names, percent-encoded and joined by = and
   ampersand, is split and decoded back to exactly those pairs, in order *)
Theorem urlencoded_roundtrip : forall ps, Forall pair_ok ps -> parse_urlencoded (enc_pairs ps) = (ps, true).
Proof. exact parse_urlencoded_enc. Qed.
Print Assumptions urlencoded_roundtrip.
Theorem urldecode_inverts_percent_encoding : forall s, bytes_ok s -> urldecode (pct s) = s.
Proof. exact urldecode_pct. Qed.
Print Assumptions urldecode_inverts_percent_encoding.
Theorem urldecode_never_expands : forall n s, (length s <= n)%nat -> (length (urldecode s) <= length s)%nat.
Proof. exact urldecode_short. Qed.
Print Assumptions urldecode_never_expands.
Example urlencoded_nonvacuous :
  parse_urlencoded (enc_pairs [([97;38;61], [0;255;37;43]); ([98], [])]) = ([([97;38;61], [0;255;37;43]); ([98], [])], true) /\
  parse_urlencoded [97;61;98;38;99] = ([([97],[98])], false) /\           (* a=b&c : the second item is refused, the first stays *)
  parse_urlencoded [97;61;37;52;49;43;37;122;38] = ([([97],[65;32;122])], true).   (* a=%41+%z& *)
Proof. repeat split; vm_compute; reflexivity. Qed.

(* ------------------------------------------------------------------------------------------ *)
(* 4. tie: leaf functions regenerated from private/http_protocol.h = the model's                *)
(* ------------------------------------------------------------------------------------------ *)
Theorem source_separator_is_model : forall b, b < 256 -> g_c12_separator (wraps 8 (Z.of_N b)) = separator b.
Proof. exact link_separator. Qed.
Print Assumptions source_separator_is_model.
Theorem source_to_lower_is_model : forall b, b < 256 -> g_c12_to_lower (wraps 8 (Z.of_N b)) = wraps 8 (Z.of_N (to_lower b)).
Proof. exact link_to_lower. Qed.
Print Assumptions source_to_lower_is_model.
Theorem source_token_char_is_model : forall b, b < 256 ->
  (Z.leb 32 (wraps 8 (Z.of_N b)) && Z.leb (wraps 8 (Z.of_N b)) 126 && negb (g_c12_separator (wraps 8 (Z.of_N b))))%bool = tchar b.
Proof. exact link_tchar. Qed.
Print Assumptions source_token_char_is_model.
Theorem source_xdigit_is_model : forall b, b < 256 -> g_c12_xdigit (wraps 8 (Z.of_N b)) = xdigit b.
Proof. exact link_xdigit. Qed.
Print Assumptions source_xdigit_is_model.
