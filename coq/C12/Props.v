(* C12 -- uploaded form data is reconstructed exactly under any chunking, within limits.
   Only property theorems here, each closed by `exact <lemma>`; proofs are in Proofs.v (chunking),
   Matcher.v (boundary matcher), Limits.v (limits / status codes), Link.v (generated-from-source leafs).
   Model: Defs.v (per-byte step of multipart_parser::consume, header parser, request-level driver
   on_content_start / on_content_progress, urlencoded splitter). *)
From CppcmsV Require Import Base.Tac Base.CSem Base.Sweep C12.Defs C12.Proofs C12.Matcher C12.Limits C12.Link gen.Gen_c12.
Local Open Scope N_scope.

(* ------------------------------------------------------------------------------------------ *)
(* 1. chunking: the result of a multipart request (status, or the list of entries with names,    *)
(*    file names, MIME types and contents in order) does not depend on how the body bytes are    *)
(*    cut into reads -- any number of chunks, empty chunks included, bytes beyond the declared   *)
(*    length included                                                                            *)
(* ------------------------------------------------------------------------------------------ *)
Theorem chunk_indep : forall L ct declared chunks,
  request_multipart L ct declared chunks = request_multipart L ct declared [concat chunks].
Proof. exact request_chunk_indep. Qed.
Print Assumptions chunk_indep.

Theorem chunk_indep_two_partitions : forall L ct declared chunks1 chunks2,
  concat chunks1 = concat chunks2 ->
  request_multipart L ct declared chunks1 = request_multipart L ct declared chunks2.
Proof. exact request_two_partitions. Qed.
Print Assumptions chunk_indep_two_partitions.

(* parser level: feeding a ++ b in one consume-loop = feeding a, then b (the two chunk-sensitive
   spots, content_partial at a chunk end and the eof test, do not change the outcome) *)
Theorem parser_cut_anywhere : forall bnd lim a b s, inv s -> b <> [] ->
  feed bnd lim s (a ++ b) = then_feed bnd lim (feed bnd lim s a) b.
Proof. exact feed_app. Qed.
Print Assumptions parser_cut_anywhere.

(* the invariant used above holds initially and is preserved *)
Theorem parser_invariant : inv init_state /\
  (forall bnd lim a s s', inv s -> feed bnd lim s a = OGo s' -> inv s').
Proof. split; [exact inv_init|exact feed_inv]. Qed.
Print Assumptions parser_invariant.

(* the traced driver run by the correspondence harness is the same function as the request-level feed *)
Theorem harness_driver_is_feed : forall bnd ch s tr,
  feed bnd None s ch = out_of_tout (fst (feed_trace bnd s ch tr)).
Proof. exact feed_trace_feed. Qed.
Print Assumptions harness_driver_is_feed.

Definition ex_ct : list N :=   (* multipart/form-data; boundary=k *)
  [109;117;108;116;105;112;97;114;116;47;102;111;114;109;45;100;97;116;97;59;32;98;111;117;110;100;97;114;121;61;107].
Definition ex_parts : list part :=
  [mkpart [97] None [] [13;10;45;120]; mkpart [102] (Some [120;46;98]) [97;47;98] [1;2;13;10;45;45;3]].
Definition ex_body : list N := encode [107] ex_parts.
Example chunk_indep_nonvacuous :
  request_multipart (mklim 100 1000) ex_ct (length ex_body) (map (fun c => [c]) ex_body) = RReady (map file_of_part ex_parts) /\
  request_multipart (mklim 100 1000) ex_ct (length ex_body) [firstn 60 ex_body; []; skipn 60 ex_body] = RReady (map file_of_part ex_parts) /\
  request_multipart (mklim 100 1000) ex_ct (length ex_body) [ex_body] = RReady (map file_of_part ex_parts).
Proof. repeat split; vm_compute; reflexivity. Qed.

(* ------------------------------------------------------------------------------------------ *)
(* 2. the hand-restarted boundary matcher                                                       *)
(* ------------------------------------------------------------------------------------------ *)
(* boundary = CR LF - - key with no CR in key (RFC 2046 bchars): for ANY content x that does not
   contain the boundary -- partial look-alikes of any shape included -- the matcher run on
   x ++ boundary ++ rest writes exactly x (after what was written before) and stops right after
   the delimiter *)
Theorem matcher_correct : forall key, ~ In 13 key -> forall x rest rout,
  ~ occurs (make_boundary key) x ->
  mrun (make_boundary key) 0 (x ++ make_boundary key ++ rest) rout = Some (rev rout ++ x, rest).
Proof. exact mrun_finds. Qed.
Print Assumptions matcher_correct.

(* any boundary, any input: when the matcher stops, what it has written followed by the boundary
   followed by the unread rest is exactly the input (nothing lost, nothing invented) *)
Theorem matcher_sound : forall bnd, bnd <> [] -> forall input p rout out rest, (p < length bnd)%nat ->
  mrun bnd p input rout = Some (out, rest) ->
  rev rout ++ firstn p bnd ++ input = out ++ bnd ++ rest.
Proof. exact mrun_sound. Qed.
Print Assumptions matcher_sound.

(* the CR-free hypothesis is needed: with key = CR LF - - b the content CR LF - - hides the delimiter *)
Theorem matcher_needs_cr_free_key_refuted :
  containsb bad_content (make_boundary bad_key) = false /\
  mrun (make_boundary bad_key) 0 (bad_content ++ make_boundary bad_key) [] = None.
Proof. exact matcher_misses_with_cr_in_key. Qed.
Print Assumptions matcher_needs_cr_free_key_refuted.

(* the header terminator matcher resets to 0 without restart: CR CR LF CR LF is not recognised
   (malformed part header; outside well-formed input) *)
Theorem header_terminator_no_restart_refuted : hterm 0 [13;13;10;13;10] = Some 2%nat.
Proof. exact header_terminator_missed_after_cr. Qed.
Print Assumptions header_terminator_no_restart_refuted.

(* the matcher inside the parser: in the content state, a part content x free of the boundary is
   stored byte for byte, the entry is completed at the delimiter, and parsing goes on with the rest;
   the only other outcome is 413 for an oversized form field *)
Theorem part_content_reconstructed : forall key lim, ~ In 13 key -> forall s x rest,
  st s = SepBoundary -> pos s = 0%nat -> rest <> [] ->
  ~ occurs (make_boundary key) x ->
  feed (make_boundary key) lim s (x ++ make_boundary key ++ rest) =
    let f := file_with_data (cur s) (rev x ++ f_rdata (cur s)) in
    if size_ok lim f
    then feed (make_boundary key) lim (mkst OneCrlfOrEof 0 (rhdr s) empty_file (f :: rfiles s) false) rest
    else OStop 413.
Proof. exact part_content_exact. Qed.
Print Assumptions part_content_reconstructed.

Example matcher_nonvacuous :   (* key "ab", content full of look-alikes: CR, CR LF -, CR LF - - a, CR CR LF - - a CR *)
  let x := [13;13;10;45;13;10;45;45;97;13;13;10;45;45;97;13] in
  containsb x (make_boundary [97;98]) = false /\
  mrun (make_boundary [97;98]) 0 (x ++ make_boundary [97;98] ++ [45;45]) [] = Some (x, [45;45]).
Proof. split; vm_compute; reflexivity. Qed.

(* ------------------------------------------------------------------------------------------ *)
(* 3. limits and status codes                                                                   *)
(* ------------------------------------------------------------------------------------------ *)
Theorem declared_length_over_multipart_limit_413 : forall L ct declared chunks,
  declared <> 0%nat -> multipart_limit L < N.of_nat declared ->
  request_multipart L ct declared chunks = RStatus 413.
Proof. exact declared_over_limit. Qed.
Print Assumptions declared_length_over_multipart_limit_413.

Theorem missing_boundary_400 : forall L ct declared chunks,
  declared <> 0%nat -> N.of_nat declared <= multipart_limit L -> ct_boundary ct = FOk [] ->
  request_multipart L ct declared chunks = RStatus 400.
Proof. exact no_boundary_400. Qed.
Print Assumptions missing_boundary_400.

(* entries are published iff the declared number of bytes arrived and they end with the closing
   delimiter exactly on the last declared byte *)
Theorem delivered_iff_exact_eof : forall bnd lim declared chunks fs,
  req_loop bnd lim declared init_state chunks = RReady fs <->
  (declared <> 0%nat /\ (declared <= length (concat chunks))%nat /\
   exists s', feed bnd lim init_state (firstn declared (concat chunks)) = OEof s' /\ fs = rev (rfiles s')).
Proof. exact ready_iff. Qed.
Print Assumptions delivered_iff_exact_eof.

(* a body accepted as a whole: every proper prefix declared as the whole body is refused with 400 ... *)
Theorem shorter_than_wellformed_400 : forall bnd lim a b s', a <> [] -> b <> [] ->
  feed bnd lim init_state (a ++ b) = OEof s' ->
  req_loop bnd lim (length a) init_state [a] = RStatus 400.
Proof. exact truncated_refused. Qed.
Print Assumptions shorter_than_wellformed_400.

(* ... and so is every extension of it *)
Theorem trailing_bytes_400 : forall bnd lim a b s', a <> [] -> b <> [] ->
  feed bnd lim init_state a = OEof s' ->
  req_loop bnd lim (length (a ++ b)) init_state [a ++ b] = RStatus 400.
Proof. exact trailing_refused. Qed.
Print Assumptions trailing_bytes_400.

Theorem nothing_delivered_before_declared_length : forall bnd lim chunks rem s fs,
  req_loop bnd lim rem s chunks = RReady fs -> (rem <= length (concat chunks))%nat.
Proof. exact req_ready_needs_all. Qed.
Print Assumptions nothing_delivered_before_declared_length.

Theorem bytes_beyond_declared_length_ignored : forall bnd lim declared chunks,
  req_loop bnd lim declared init_state chunks =
  req_loop bnd lim declared init_state [firstn declared (concat chunks)].
Proof. exact req_ignores_tail. Qed.
Print Assumptions bytes_beyond_declared_length_ignored.

(* a form field (no MIME type) larger than content_length_limit: 413 *)
Theorem oversized_form_field_413 : forall key a, ~ In 13 key -> forall s x rest,
  st s = SepBoundary -> pos s = 0%nat -> rest <> [] -> ~ occurs (make_boundary key) x ->
  f_mime (cur s) = [] -> f_rdata (cur s) = [] -> a < N.of_nat (length x) ->
  feed (make_boundary key) (Some a) s (x ++ make_boundary key ++ rest) = OStop 413.
Proof. exact oversized_field_413. Qed.
Print Assumptions oversized_form_field_413.

(* once a field is over the limit no continuation of the body can rescue it *)
Theorem oversized_field_stays_refused : forall bnd lim b s, b <> [] -> st s = SepBoundary ->
  size_ok lim (cur s) = false -> feed bnd lim s b = OStop 413.
Proof. exact doomed. Qed.
Print Assumptions oversized_field_stays_refused.

(* files (entries with a MIME type) of any size and fields within the limit pass *)
Theorem file_or_small_field_accepted : forall key a, ~ In 13 key -> forall s x rest,
  st s = SepBoundary -> pos s = 0%nat -> rest <> [] -> ~ occurs (make_boundary key) x ->
  f_rdata (cur s) = [] -> (f_mime (cur s) <> [] \/ N.of_nat (length x) <= a) ->
  feed (make_boundary key) (Some a) s (x ++ make_boundary key ++ rest) =
  feed (make_boundary key) (Some a)
       (mkst OneCrlfOrEof 0 (rhdr s) empty_file (file_with_data (cur s) (rev x) :: rfiles s) false) rest.
Proof. exact within_limit_continues. Qed.
Print Assumptions file_or_small_field_accepted.

Theorem refusal_codes : forall bnd lim ch s c, feed bnd lim s ch = OStop c -> c = 400 \/ c = 413 \/ c = 599.
Proof. exact feed_status. Qed.
Print Assumptions refusal_codes.

Example limits_nonvacuous :
  request_multipart (mklim 3 1000) ex_ct (length ex_body) [ex_body] = RStatus 413 /\       (* field of 4 bytes, limit 3 *)
  request_multipart (mklim 4 1000) ex_ct (length ex_body) [ex_body] = RReady (map file_of_part ex_parts) /\
  request_multipart (mklim 4 154) ex_ct (length ex_body) [ex_body] = RStatus 413 /\        (* body of 155 bytes *)
  request_multipart (mklim 4 1000) ex_ct (length ex_body - 1) [ex_body] = RStatus 400 /\   (* declared one short *)
  request_multipart (mklim 4 1000) ex_ct (length ex_body + 1) [ex_body ++ [10]] = RStatus 400 /\
  request_multipart (mklim 4 1000) ex_ct (length ex_body + 1) [ex_body] = RStatus 400 /\   (* body shorter than declared *)
  request_multipart (mklim 4 1000) [97;47;98] (length ex_body) [ex_body] = RStatus 400.
Proof. repeat split; vm_compute; reflexivity. Qed.

(* ------------------------------------------------------------------------------------------ *)
(* 4. tie: leaf functions regenerated from private/http_protocol.h = the model's                *)
(* ------------------------------------------------------------------------------------------ *)
Theorem source_separator_is_model : forall b, b < 256 -> g_c12_separator (wraps 8 (Z.of_N b)) = separator b.
Proof. exact link_separator. Qed.
Print Assumptions source_separator_is_model.
Theorem source_to_lower_is_model : forall b, b < 256 -> g_c12_to_lower (wraps 8 (Z.of_N b)) = wraps 8 (Z.of_N (to_lower b)).
Proof. exact link_to_lower. Qed.
Print Assumptions source_to_lower_is_model.
Theorem source_token_char_is_model : forall b, b < 256 ->
  (Z.leb 32 (wraps 8 (Z.of_N b)) && Z.leb (wraps 8 (Z.of_N b)) 126 && negb (g_c12_separator (wraps 8 (Z.of_N b))))%bool = tchar b.
Proof. exact link_tchar. Qed.
Print Assumptions source_token_char_is_model.
