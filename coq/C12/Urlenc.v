(* C12 proofs, part 6: application/x-www-form-urlencoded bodies.  parse_form_urlencoded + urldecode invert a
   reference encoder (every byte percent-encoded, pairs joined by = and ampersand). *)
From CppcmsV Require Import Base.Tac Base.Sweep C12.Defs C12.Proofs.
Local Open Scope N_scope.

Definition hexdig (n : N) : N := if n <? 10 then 48 + n else 55 + n.
Definition pct1 (b : N) : list N := [37; hexdig (b / 16); hexdig (b mod 16)].
Definition pct (s : list N) : list N := flat_map pct1 s.
Definition enc_item (kv : list N * list N) : list N := pct (fst kv) ++ 61 :: pct (snd kv).
Fixpoint enc_pairs (ps : list (list N * list N)) : list N :=
  match ps with
  | [] => []
  | [p] => enc_item p
  | p :: more => enc_item p ++ 38 :: enc_pairs more
  end.

Lemma pct1_ok b : b < 256 ->
  (xdigit (hexdig (b / 16)) && xdigit (hexdig (b mod 16)) && (hexval (hexdig (b / 16)) * 16 + hexval (hexdig (b mod 16)) =? b))%bool = true.
Proof.
  intros H.
  apply (sweep256 (fun b => (xdigit (hexdig (b / 16)) && xdigit (hexdig (b mod 16)) && (hexval (hexdig (b / 16)) * 16 + hexval (hexdig (b mod 16)) =? b))%bool));
    [vm_compute; reflexivity|exact H].
Qed.

Lemma urldecode_pct s : bytes_ok s -> urldecode (pct s) = s.
Proof.
  induction s as [|b s IH]; intros H; [reflexivity|].
  apply bytes_ok_cons in H. destruct H as [Hb Hs].
  pose proof (pct1_ok b Hb) as P. apply andb_true_iff in P. destruct P as [P P3].
  apply N.eqb_eq in P3.
  unfold pct. cbn [flat_map pct1 app urldecode].
  change (37 =? 43) with false. change (37 =? 37) with true. cbv iota.
  rewrite P, P3. fold (pct s). rewrite (IH Hs). reflexivity.
Qed.

Lemma hexdig_not c n : c < 48 \/ (57 < c /\ c < 65) -> hexdig n <> c.
Proof. unfold hexdig. intros H. destruct (N.ltb_spec n 10); lia. Qed.

Lemma pct_notin c s : c <> 37 -> (c < 48 \/ (57 < c /\ c < 65)) -> ~ In c (pct s).
Proof.
  intros H37 Hc Hin. unfold pct in Hin. apply in_flat_map in Hin. destruct Hin as [b [_ Hin]].
  cbn in Hin. destruct Hin as [E|[E|[E|[]]]].
  - congruence.
  - exact (hexdig_not c _ Hc E).
  - exact (hexdig_not c _ Hc E).
Qed.

Lemma split_at_app ch a r : ~ In ch a -> split_at ch (a ++ ch :: r) = (a, Some r).
Proof.
  induction a as [|c a IH]; intros H; cbn [app split_at].
  - rewrite N.eqb_refl. reflexivity.
  - assert (c <> ch) as Hc by (intros E; apply H; left; exact E).
    destruct (N.eqb_spec c ch); [contradiction|]. rewrite IH by (intros Hin; apply H; right; exact Hin). reflexivity.
Qed.

Lemma split_all_one ch a : ~ In ch a -> split_all ch a = [a].
Proof.
  induction a as [|c a IH]; intros H; cbn [split_all]; [reflexivity|].
  assert (c <> ch) as Hc by (intros E; apply H; left; exact E).
  destruct (N.eqb_spec c ch); [contradiction|]. rewrite IH by (intros Hin; apply H; right; exact Hin). reflexivity.
Qed.
Lemma split_all_app ch a r : ~ In ch a -> split_all ch (a ++ ch :: r) = a :: split_all ch r.
Proof.
  induction a as [|c a IH]; intros H; cbn [app split_all].
  - rewrite N.eqb_refl. reflexivity.
  - assert (c <> ch) as Hc by (intros E; apply H; left; exact E).
    destruct (N.eqb_spec c ch); [contradiction|]. rewrite IH by (intros Hin; apply H; right; exact Hin). reflexivity.
Qed.

Lemma item_no_amp kv : ~ In 38 (enc_item kv).
Proof.
  unfold enc_item. intros Hin. apply in_app_or in Hin. destruct Hin as [Hin|[E|Hin]].
  - revert Hin. apply pct_notin; lia.
  - discriminate.
  - revert Hin. apply pct_notin; lia.
Qed.

Lemma split_enc_pairs p ps : split_all 38 (enc_pairs (p :: ps)) = map enc_item (p :: ps).
Proof.
  revert p. induction ps as [|q ps IH]; intros p.
  - cbn [enc_pairs map]. apply split_all_one. apply item_no_amp.
  - change (enc_pairs (p :: q :: ps)) with (enc_item p ++ 38 :: enc_pairs (q :: ps)).
    rewrite split_all_app by apply item_no_amp. rewrite IH. reflexivity.
Qed.

Lemma drop_last_items p ps : drop_last_empty (map enc_item (p :: ps)) = map enc_item (p :: ps).
Proof.
  revert p. induction ps as [|q ps IH]; intros p.
  - cbn [map drop_last_empty]. unfold enc_item. destruct (pct (fst p)); reflexivity.
  - change (map enc_item (p :: q :: ps)) with (enc_item p :: map enc_item (q :: ps)).
    cbn [drop_last_empty]. change (enc_item q :: map enc_item ps) with (map enc_item (q :: ps)).
    rewrite IH. reflexivity.
Qed.

Definition pair_ok (kv : list N * list N) : Prop := fst kv <> [] /\ bytes_ok (fst kv) /\ bytes_ok (snd kv).

Lemma parse_items_enc ps : Forall pair_ok ps -> parse_items (map enc_item ps) = (ps, true).
Proof.
  induction ps as [|[k v] ps IH]; intros H; [reflexivity|].
  inversion H as [|x l [Hk [Hbk Hbv]] Hps]; subst. cbn [fst snd] in *.
  cbn [map parse_items]. unfold enc_item at 1. cbn [fst snd].
  rewrite split_at_app by (apply pct_notin; lia).
  assert (is_nil (pct k) = false) as Hn by (destruct k; [contradiction|reflexivity]).
  rewrite Hn, (IH Hps), !urldecode_pct by assumption. reflexivity.
Qed.

(* any list of pairs with non-empty names: the form fields delivered are exactly those encoded, in order *)
Lemma parse_urlencoded_enc ps : Forall pair_ok ps -> parse_urlencoded (enc_pairs ps) = (ps, true).
Proof.
  intros H. unfold parse_urlencoded. destruct ps as [|p ps]; [reflexivity|].
  rewrite split_enc_pairs, drop_last_items. apply parse_items_enc. exact H.
Qed.

(* urldecode is total and never longer than its input (no expansion, so no limit can be exceeded by decoding) *)
Lemma urldecode_short : forall n s, (length s <= n)%nat -> (length (urldecode s) <= length s)%nat.
Proof.
  induction n as [|n IH]; intros s Hn.
  - destruct s; [cbn; lia|cbn in Hn; lia].
  - destruct s as [|c r]; [cbn; lia|].
    cbn [urldecode]. cbn [length] in Hn.
    destruct (c =? 43); [cbn [length]; specialize (IH r); lia|].
    destruct (c =? 37).
    + destruct r as [|h1 [|h2 r2]]; try (cbn [length]; specialize (IH r); cbn [length] in *; try lia).
      * cbn [urldecode length]. lia.
      * specialize (IH [h1]). cbn [length] in *. lia.
      * destruct (xdigit h1 && xdigit h2).
        -- cbn [length]. specialize (IH r2). cbn [length] in *. lia.
        -- specialize (IH (h1 :: h2 :: r2)). cbn [length] in *. lia.
    + cbn [length]. specialize (IH r). lia.
Qed.
