(* C12 proofs, part 9: the domain of the two _refuted statements.
   (a) RFC 2046 5.1.1: boundary := 0*69<bchars> bcharsnospace.  bchars has no CR, so every boundary a peer may
       legally send satisfies the hypothesis of matcher_correct / decode_encode.
   (b) the header terminator matcher (after repair 3fc4520: restart at 1 on a CR) recognises CR LF CR LF
       exactly at its first occurrence in EVERY text (hterm_none_iff_occurs, first_terminator_ends_block);
       before the repair this held only for texts without a bare CR (old_matcher_same_without_bare_cr). *)
From CppcmsV Require Import Base.Tac C12.Defs C12.Proofs C12.Matcher C12.Framing.
Local Open Scope N_scope.

Definition bchar (c : N) : bool :=
  ((48 <=? c) && (c <=? 57)) || ((65 <=? c) && (c <=? 90)) || ((97 <=? c) && (c <=? 122))
  || (c =? 39) || (c =? 40) || (c =? 41) || (c =? 43) || (c =? 95) || (c =? 44) || (c =? 45) || (c =? 46)
  || (c =? 47) || (c =? 58) || (c =? 61) || (c =? 63) || (c =? 32).
Definition rfc2046_boundary (key : list N) : Prop :=
  forallb bchar key = true /\ (1 <= length key <= 70)%nat /\ last key 0 <> 32.

Lemma bchars_no_cr key : forallb bchar key = true -> ~ In 13 key.
Proof.
  intros H Hin. rewrite forallb_forall in H. specialize (H 13 Hin). vm_compute in H. discriminate.
Qed.
Lemma rfc2046_boundary_ok key : rfc2046_boundary key -> ~ In 13 key /\ key <> [].
Proof.
  intros [Hb [[Hl _] _]]. split; [apply bchars_no_cr; exact Hb|]. destruct key; [cbn in Hl; lia|discriminate].
Qed.

(* ---------- header terminator ---------- *)
Lemma hterm_app : forall a b p, hterm p (a ++ b) = match hterm p a with Some q => hterm q b | None => None end.
Proof.
  induction a as [|c a IH]; intros b p; [reflexivity|]. cbn [app hterm].
  destruct (Nat.eqb (if c =? nth p crlfcrlf 0 then S p else if c =? 13 then 1%nat else 0%nat) 4); [reflexivity|apply IH].
Qed.

Definition hline_ok (l : list N) : Prop := l <> [] /\ ~ In 13 l.

Lemma hterm_line : forall l p, ~ In 13 l -> l <> [] -> (p = 0 \/ p = 2)%nat -> hterm p l = Some 0%nat.
Proof.
  induction l as [|c r IH]; intros p Hn Hne Hp; [congruence|].
  assert (c <> 13) as Hc by (intros E; apply Hn; left; exact E).
  assert (~ In 13 r) as Hr by (intros E; apply Hn; right; exact E).
  cbn [hterm].
  assert (nth p crlfcrlf 0 = 13) as Ep by (destruct Hp; subst p; reflexivity).
  rewrite Ep. destruct (N.eqb_spec c 13) as [E|_]; [congruence|]. cbn [Nat.eqb].
  destruct r as [|d r']; [reflexivity|]. apply IH; [exact Hr|discriminate|left; reflexivity].
Qed.

Lemma hterm_line_crlf l p : hline_ok l -> (p = 0 \/ p = 2)%nat -> hterm p (l ++ crlf) = Some 2%nat.
Proof.
  intros [Hne Hn] Hp. rewrite hterm_app, (hterm_line l p Hn Hne Hp). reflexivity.
Qed.

Lemma hterm_lines : forall lines p, Forall hline_ok lines -> (p = 0 \/ p = 2)%nat ->
  hterm p (flat_map (fun l => l ++ crlf) lines) = Some (match lines with [] => p | _ => 2%nat end).
Proof.
  induction lines as [|l more IH]; intros p Hf Hp; [reflexivity|].
  inversion Hf as [|? ? Hl Hm]; subst. cbn [flat_map]. rewrite hterm_app, (hterm_line_crlf l p Hl Hp).
  rewrite (IH 2%nat Hm) by (right; reflexivity). destruct more; reflexivity.
Qed.

Definition hdr_block (lines : list (list N)) : list N := flat_map (fun l => l ++ crlf) lines ++ crlf.

(* every well-formed header block with at least one line is ended exactly at its last byte *)
Lemma wellformed_hdr_block_ends lines : lines <> [] -> Forall hline_ok lines -> hdr_ends (hdr_block lines).
Proof.
  intros Hne Hf. exists (flat_map (fun l => l ++ crlf) lines ++ [13]). split.
  - unfold hdr_block, crlf. rewrite <- app_assoc. reflexivity.
  - rewrite hterm_app, (hterm_lines lines 0%nat Hf) by (left; reflexivity).
    destruct lines; [congruence|reflexivity].
Qed.

(* and the terminator is never seen earlier: every proper prefix leaves the matcher running *)
Lemma hterm_prefix_some : forall a b p q, hterm p (a ++ b) = Some q -> exists q', hterm p a = Some q'.
Proof.
  intros a b p q H. rewrite hterm_app in H. destruct (hterm p a) as [q'|]; [exists q'; reflexivity|discriminate].
Qed.
Lemma wellformed_hdr_block_not_earlier lines a b : lines <> [] -> Forall hline_ok lines ->
  hdr_block lines = a ++ b -> b <> [] -> exists q, hterm 0 a = Some q.
Proof.
  intros Hne Hf E Hb. destruct (wellformed_hdr_block_ends lines Hne Hf) as [w [Ew Hw]].
  rewrite E in Ew.
  destruct (exists_last Hb) as [b' [x Eb]]. subst b. rewrite app_assoc in Ew.
  apply app_inj_tail in Ew. destruct Ew as [Ew _]. rewrite <- Ew in Hw.
  eapply hterm_prefix_some; exact Hw.
Qed.

(* a header block with no line at all (the part starts with an empty line) is NOT accepted by this matcher:
   multipart/form-data requires Content-Disposition in every part (RFC 7578 4.2), so this is outside the domain *)
Lemma empty_hdr_block_not_ended : hterm 0 (hdr_block []) = Some 2%nat.
Proof. reflexivity. Qed.

(* folded header lines (CR LF SP inside a line, obsolete per RFC 7230 3.2.4) are handled as well: *)
Definition fold_ok (l : list N) : Prop := l <> [] /\ exists a b, l = a ++ [13;10;32] ++ b /\ hline_ok a /\ ~ In 13 b.
Lemma hterm_folded_line l p : fold_ok l -> (p = 0 \/ p = 2)%nat -> hterm p (l ++ crlf) = Some 2%nat.
Proof.
  intros [_ [a [b [E [Ha Hb]]]]] Hp. subst l. rewrite <- !app_assoc.
  rewrite hterm_app, (hterm_line a p (proj2 Ha) (proj1 Ha) Hp).
  cbn [app]. change (hterm 0 (13 :: 10 :: 32 :: b ++ crlf)) with (hterm 0 (b ++ crlf)).
  destruct b as [|c b']; [reflexivity|].
  rewrite hterm_app, (hterm_line (c :: b') 0%nat Hb) by (try discriminate; left; reflexivity). reflexivity.
Qed.

(* ---------- the repair (3fc4520) changed nothing for texts without a bare CR ---------- *)
(* no bare CR: every CR is followed by LF (prev = the byte before w was a CR) *)
Fixpoint nb (prev : bool) (w : list N) : bool :=
  match w with
  | [] => true
  | c :: r => (if prev then c =? 10 else true) && nb (c =? 13) r
  end.
Definition after_cr (p : nat) : bool := Nat.eqb p 1 || Nat.eqb p 3.

Lemma old_matcher_same_without_bare_cr : forall w p, (p < 4)%nat -> nb (after_cr p) w = true -> hterm_old p w = hterm p w.
Proof.
  induction w as [|c r IH]; intros p Hp Hn; [reflexivity|].
  cbn [nb] in Hn. apply andb_true_iff in Hn. destruct Hn as [Hc Hr].
  cbn [hterm hterm_old].
  destruct p as [|[|[|[|p]]]]; try lia; cbn [after_cr Nat.eqb orb nth crlfcrlf] in *.
  - destruct (N.eqb_spec c 13) as [E|E].
    + subst c. cbn [Nat.eqb]. apply IH; [lia|exact Hr].
    + cbn [Nat.eqb]. apply IH; [lia|]. destruct (N.eqb_spec c 13); [congruence|exact Hr].
  - apply N.eqb_eq in Hc. subst c. cbn [N.eqb Pos.eqb Nat.eqb]. apply IH; [lia|exact Hr].
  - destruct (N.eqb_spec c 13) as [E|E].
    + subst c. cbn [Nat.eqb]. apply IH; [lia|exact Hr].
    + cbn [Nat.eqb]. apply IH; [lia|]. destruct (N.eqb_spec c 13); [congruence|exact Hr].
  - apply N.eqb_eq in Hc. subst c. reflexivity.
Qed.

(* ---------- the terminator is recognised exactly at its first occurrence, for every text ---------- *)
(* ru = the bytes read so far, most recent first *)
Definition ends3 (ru : list N) : bool :=
  match ru with a :: b :: d :: _ => (a =? 13) && (b =? 10) && (d =? 13) | _ => false end.
(* the state the matcher is in after ru: length of the longest suffix of the text that is a proper prefix of CR LF CR LF *)
Definition st3 (ru : list N) : nat :=
  match ru with
  | [] => 0%nat
  | a :: r1 =>
      if a =? 13 then match r1 with b :: d :: _ => if (b =? 10) && (d =? 13) then 3%nat else 1%nat | _ => 1%nat end
      else if a =? 10 then match r1 with b :: _ => if b =? 13 then 2%nat else 0%nat | [] => 0%nat end
      else 0%nat
  end.
Definition hnext (p : nat) (c : N) : nat := if c =? nth p crlfcrlf 0 then S p else if c =? 13 then 1%nat else 0%nat.

Ltac brk := cbn [N.eqb Pos.eqb andb nth crlfcrlf Nat.eqb] in *;
  repeat match goal with
         | |- context [N.eqb ?x ?y] => is_var x; destruct (N.eqb_spec x y); subst; cbn [N.eqb Pos.eqb andb nth crlfcrlf Nat.eqb] in *
         end; try reflexivity; try congruence.

Lemma st3_step ru c : hnext (st3 ru) c = if (c =? 10) && ends3 ru then 4%nat else st3 (c :: ru).
Proof.
  unfold hnext, st3, ends3. destruct ru as [|a [|b [|d r]]]; cbn [nth crlfcrlf]; brk.
Qed.

(* reference scan: stop at the first byte that completes CR LF CR LF *)
Fixpoint spec (ru w : list N) : option (list N) :=
  match w with
  | [] => Some ru
  | c :: r => if (c =? 10) && ends3 ru then None else spec (c :: ru) r
  end.

Lemma hterm_is_spec : forall w ru, hterm (st3 ru) w = option_map st3 (spec ru w).
Proof.
  induction w as [|c r IH]; intros ru; [reflexivity|].
  cbn [hterm spec]. fold (hnext (st3 ru) c). rewrite st3_step.
  destruct ((c =? 10) && ends3 ru); [reflexivity|].
  assert (Nat.eqb (st3 (c :: ru)) 4 = false) as E4.
  { unfold st3. destruct ru as [|a [|b r']]; brk. }
  rewrite E4. apply IH.
Qed.

Lemma spec_some : forall w ru ru', spec ru w = Some ru' -> ru' = rev w ++ ru.
Proof.
  induction w as [|c r IH]; intros ru ru' H; cbn [spec] in H; [inversion H; reflexivity|].
  destruct ((c =? 10) && ends3 ru); [discriminate|]. apply IH in H. subst ru'. cbn [rev]. rewrite <- app_assoc. reflexivity.
Qed.

Lemma ends3_shape ru : ends3 ru = true -> exists r, ru = 13 :: 10 :: 13 :: r.
Proof.
  unfold ends3. destruct ru as [|a [|b [|d r]]]; try discriminate. intros H.
  apply andb_true_iff in H. destruct H as [H Hd]. apply andb_true_iff in H. destruct H as [Ha Hb].
  apply N.eqb_eq in Ha, Hb, Hd. subst. exists r. reflexivity.
Qed.

Lemma spec_none_occurs : forall w ru, spec ru w = None -> occurs crlfcrlf (rev ru ++ w).
Proof.
  induction w as [|c r IH]; intros ru H; cbn [spec] in H; [discriminate|].
  destruct ((c =? 10) && ends3 ru) eqn:E.
  - apply andb_true_iff in E. destruct E as [Ec E3]. apply N.eqb_eq in Ec. subst c.
    destruct (ends3_shape ru E3) as [r' Er]. subst ru. exists (rev r'), r.
    cbn [rev]. unfold crlfcrlf. rewrite <- !app_assoc. reflexivity.
  - apply IH in H. cbn [rev] in H. rewrite <- app_assoc in H. exact H.
Qed.

Lemma rev_tail_pat ru c t : rev ru ++ [c] = t ++ crlfcrlf -> c = 10 /\ ends3 ru = true.
Proof.
  intros H. apply (f_equal (@rev N)) in H. rewrite !rev_app_distr, rev_involutive in H. cbn in H.
  inversion H; subst. split; reflexivity.
Qed.

Lemma occurs_spec_none : forall w ru, (exists u v t, w = u ++ v /\ u <> [] /\ rev ru ++ u = t ++ crlfcrlf) -> spec ru w = None.
Proof.
  induction w as [|c r IH]; intros ru [u [v [t [Ew [Hu Et]]]]].
  - destruct u; [congruence|discriminate].
  - destruct u as [|c' u']; [congruence|]. cbn [app] in Ew. inversion Ew; subst c' r. cbn [spec].
    destruct ((c =? 10) && ends3 ru) eqn:E; [reflexivity|].
    apply IH. destruct u' as [|c2 u2].
    + exfalso. destruct (rev_tail_pat ru c t Et) as [Ec E3]. subst c. rewrite E3 in E. discriminate.
    + exists (c2 :: u2), v, t. split; [reflexivity|]. split; [discriminate|].
      cbn [rev]. rewrite <- app_assoc. exact Et.
Qed.

(* EVERY text: the matcher stops iff CR LF CR LF occurs, i.e. exactly at the first occurrence *)
Lemma hterm_none_iff_occurs w : hterm 0 w = None <-> occurs crlfcrlf w.
Proof.
  change 0%nat with (st3 []). rewrite hterm_is_spec. split.
  - intros H. destruct (spec [] w) eqn:E; [discriminate|]. apply (spec_none_occurs w [] E).
  - intros [u [v E]]. rewrite (occurs_spec_none w []); [reflexivity|].
    exists (u ++ crlfcrlf), v, u. split; [rewrite <- app_assoc; exact E|]. split; [destruct u; discriminate|reflexivity].
Qed.

(* any header block whose first CR LF CR LF is at its end is ended exactly there - bare CRs included *)
Lemma first_terminator_ends_block x : ~ occurs crlfcrlf (x ++ [13;10;13]) -> hdr_ends (x ++ crlfcrlf).
Proof.
  intros Hno. exists (x ++ [13;10;13]). split; [unfold crlfcrlf; rewrite <- app_assoc; reflexivity|].
  change 0%nat with (st3 []). rewrite hterm_is_spec.
  destruct (spec [] (x ++ [13;10;13])) as [ru'|] eqn:E.
  - apply spec_some in E. subst ru'. rewrite app_nil_r, rev_app_distr. reflexivity.
  - exfalso. apply Hno. apply (spec_none_occurs _ [] E).
Qed.
Lemma hdr_ends_first H : hdr_ends H -> exists x, H = x ++ crlfcrlf /\ ~ occurs crlfcrlf (x ++ [13;10;13]).
Proof.
  intros [w [EH Hw]]. assert (~ occurs crlfcrlf w) as Hno.
  { intros Ho. apply hterm_none_iff_occurs in Ho. congruence. }
  change 0%nat with (st3 []) in Hw. rewrite hterm_is_spec in Hw.
  destruct (spec [] w) as [ru'|] eqn:E; [|discriminate]. apply spec_some in E. rewrite app_nil_r in E. subst ru'.
  cbn [option_map] in Hw. inversion Hw as [H3].
  assert (ends3 (rev w) = true) as E3.
  { unfold st3, ends3 in *. destruct (rev w) as [|a [|b [|d r]]]; revert H3; brk; intros; try discriminate. }
  destruct (ends3_shape _ E3) as [r Er].
  exists (rev r). assert (w = rev r ++ [13;10;13]) as Ew.
  { rewrite <- (rev_involutive w), Er. cbn [rev]. rewrite <- !app_assoc. reflexivity. }
  split; [subst H; rewrite Ew; unfold crlfcrlf; rewrite <- app_assoc; reflexivity|rewrite <- Ew; exact Hno].
Qed.

(* regression: the witness that the old matcher missed *)
Lemma old_witness_now_recognised : hterm 0 [13;13;10;13;10] = None /\ hterm_old 0 [13;13;10;13;10] = Some 2%nat.
Proof. split; reflexivity. Qed.

(* a header block that process_header refuses is answered with 400 as soon as its terminator has been read *)
Lemma feed_hdr_block_refused bnd lim H fs rest : hdr_ends H ->
  process_header (S (length H)) H empty_file = FFail ->
  feed bnd lim (mkst CrlfCrlf 0 [] empty_file fs false) (H ++ rest) = OStop 400.
Proof.
  intros [w [EH Hw]] Hph. subst H. rewrite <- app_assoc. cbn [app].
  rewrite (feed_hdr_scan bnd lim w 0%nat [] empty_file fs (10 :: rest) 3%nat Hw) by discriminate.
  rewrite app_nil_r. cbn [feed]. unfold step. cbn [st pos rhdr cur rfiles ready nth crlfcrlf].
  change (10 =? 10) with true. cbv iota. cbn [Nat.eqb].
  assert (rev (10 :: rev w) = w ++ [10]) as Er by (cbn [rev]; rewrite rev_involutive; reflexivity).
  rewrite Er, Hph. reflexivity.
Qed.
