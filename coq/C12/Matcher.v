(* C12 proofs, part 2: the hand-restarted boundary matcher finds the first delimiter and writes exactly
   the bytes before it, provided the boundary key contains no CR; without that hypothesis it does not. *)
From CppcmsV Require Import Base.Tac C12.Defs C12.Proofs.
Local Open Scope N_scope.

Definition occurs (y x : list N) : Prop := exists u v, x = u ++ y ++ v.

Lemma prefixb_spec p s : prefixb p s = true <-> exists v, s = p ++ v.
Proof.
  revert s. induction p as [|x p IH]; intros s; cbn [prefixb].
  - split; [intros _; exists s; reflexivity|reflexivity].
  - destruct s as [|y s]; [split; [discriminate|intros [v H]; discriminate]|].
    rewrite andb_true_iff, N.eqb_eq, IH. split.
    + intros [E [v H]]. subst. exists v. reflexivity.
    + intros [v H]. inversion H; subst. split; [reflexivity|exists v; reflexivity].
Qed.

Lemma containsb_spec x y : containsb x y = true <-> occurs y x.
Proof.
  induction x as [|c x IH]; cbn [containsb]; rewrite orb_true_iff, prefixb_spec.
  - split.
    + intros [[v H]|H]; [exists [], v; exact H|discriminate].
    + intros [u [v H]]. left. destruct u; [exists v; exact H|discriminate].
  - rewrite IH. split.
    + intros [[v H]|[u [v H]]]; [exists [], v; exact H|exists (c :: u), v; rewrite H; reflexivity].
    + intros [u [v H]]. destruct u as [|d u].
      * left. exists v. exact H.
      * right. inversion H; subst. exists u, v. reflexivity.
Qed.

Lemma firstn_succ_nth (l : list N) (p : nat) : (p < length l)%nat -> firstn (S p) l = firstn p l ++ [nth p l 0].
Proof.
  revert p. induction l as [|x l IH]; intros p H; [cbn in H; lia|].
  destruct p as [|p]; [reflexivity|].
  change (firstn (S (S p)) (x :: l)) with (x :: firstn (S p) l).
  change (firstn (S p) (x :: l)) with (x :: firstn p l).
  change (nth (S p) (x :: l) 0) with (nth p l 0).
  rewrite (IH p) by (cbn in H; lia). reflexivity.
Qed.

(* one step keeps "what was written ++ the pending partial match = what was read" *)
Lemma msep_inv bnd p c emit p' : (p < length bnd)%nat -> msep bnd p c = (emit, p') ->
  firstn p bnd ++ [c] = emit ++ firstn p' bnd /\ (p' <= length bnd)%nat.
Proof.
  intros Hp H. unfold msep in H.
  destruct (N.eqb_spec c (nth p bnd 0)) as [E|E].
  - inversion H; subst. rewrite firstn_succ_nth by exact Hp. split; [reflexivity|lia].
  - destruct p as [|q].
    + inversion H; subst. split; [reflexivity|lia].
    + destruct (N.eqb_spec c (nth 0 bnd 0)) as [E0|E0]; inversion H; subst.
      * split; [|lia]. destruct bnd as [|b0 bnd']; [cbn in Hp; lia|]. reflexivity.
      * cbn [firstn]. rewrite app_nil_r. split; [reflexivity|lia].
Qed.

Definition mdone (bnd : list N) (p : nat) : bool := negb (Nat.eqb p 0) && Nat.eqb p (length bnd).
Lemma mdone_true bnd p : mdone bnd p = true -> p = length bnd.
Proof. unfold mdone. rewrite andb_true_iff, Nat.eqb_eq. tauto. Qed.
Lemma mdone_false bnd p : bnd <> [] -> mdone bnd p = false -> (p <= length bnd)%nat -> (p < length bnd)%nat.
Proof.
  unfold mdone. intros Hb H Hle. destruct (Nat.eqb_spec p (length bnd)) as [E|E]; [|lia].
  rewrite andb_true_r in H. apply negb_false_iff, Nat.eqb_eq in H. subst p.
  destruct bnd; [contradiction|cbn in E; lia].
Qed.

(* soundness, any boundary: when the matcher stops, the input read so far ends with the boundary and
   everything before it has been written *)
Lemma mrun_sound bnd : bnd <> [] -> forall input p rout out rest, (p < length bnd)%nat ->
  mrun bnd p input rout = Some (out, rest) ->
  rev rout ++ firstn p bnd ++ input = out ++ bnd ++ rest.
Proof.
  intros Hb. induction input as [|c r IH]; intros p rout out rest Hp H; cbn [mrun] in H; [discriminate|].
  destruct (msep bnd p c) as [emit p'] eqn:Hm.
  destruct (msep_inv bnd p c emit p' Hp Hm) as [E Hle].
  fold (mdone bnd p') in H. destruct (mdone bnd p') eqn:Hd.
  - inversion H; subst. apply mdone_true in Hd. subst p'. rewrite firstn_all in E.
    rewrite rev_app_distr, rev_involutive.
    replace (firstn p bnd ++ c :: rest) with ((firstn p bnd ++ [c]) ++ rest) by (rewrite <- app_assoc; reflexivity).
    rewrite E. rewrite <- !app_assoc. reflexivity.
  - apply IH in H; [|eapply mdone_false; eauto].
    rewrite rev_app_distr, rev_involutive in H. rewrite <- H.
    replace (firstn p bnd ++ c :: r) with ((firstn p bnd ++ [c]) ++ r) by (rewrite <- app_assoc; reflexivity).
    rewrite E. rewrite <- !app_assoc. reflexivity.
Qed.

(* while the text read so far holds no complete boundary the matcher keeps running, and its state
   accounts for every byte *)
Lemma mrun_skip bnd : bnd <> [] -> forall x p rout, (p < length bnd)%nat ->
  ~ occurs bnd (firstn p bnd ++ x) ->
  exists p' rout', (p' < length bnd)%nat /\
    (forall rest, mrun bnd p (x ++ rest) rout = mrun bnd p' rest rout') /\
    rev rout ++ firstn p bnd ++ x = rev rout' ++ firstn p' bnd.
Proof.
  intros Hb. induction x as [|c x IH]; intros p rout Hp Hno.
  - exists p, rout. split; [exact Hp|]. split; [reflexivity|]. rewrite app_nil_r. reflexivity.
  - destruct (msep bnd p c) as [emit p1] eqn:Hm.
    destruct (msep_inv bnd p c emit p1 Hp Hm) as [E Hle].
    assert (firstn p bnd ++ c :: x = emit ++ firstn p1 bnd ++ x) as E2.
    { replace (firstn p bnd ++ c :: x) with ((firstn p bnd ++ [c]) ++ x) by (rewrite <- app_assoc; reflexivity).
      rewrite E, <- app_assoc. reflexivity. }
    destruct (mdone bnd p1) eqn:Hd.
    + exfalso. apply Hno. apply mdone_true in Hd. subst p1. rewrite firstn_all in E2.
      exists emit, x. exact E2.
    + assert (p1 < length bnd)%nat as Hp1 by (eapply mdone_false; eauto).
      destruct (IH p1 (rev emit ++ rout) Hp1) as [p' [rout' [Hp' [Hrun Heq]]]].
      { intros [u [v Huv]]. apply Hno. exists (emit ++ u), v. rewrite E2, Huv, <- !app_assoc. reflexivity. }
      exists p', rout'. split; [exact Hp'|]. split.
      * intros rest. cbn [app mrun]. rewrite Hm. fold (mdone bnd p1). rewrite Hd. apply Hrun.
      * rewrite E2. rewrite <- Heq. rewrite rev_app_distr, rev_involutive, <- !app_assoc. reflexivity.
Qed.

(* ---------- boundary = CR LF - - key with no CR inside key ---------- *)
Section CRFree.
Variable key : list N.
Hypothesis key_no_cr : ~ In 13 key.
Let bnd := make_boundary key.

Lemma bnd_len : (length bnd = 4 + length key)%nat.
Proof. reflexivity. Qed.
Lemma bnd_ne : bnd <> [].
Proof. discriminate. Qed.
Lemma bnd_nth0 : nth 0 bnd 0 = 13.
Proof. reflexivity. Qed.
Lemma bnd_nth_pos p : (0 < p < length bnd)%nat -> nth p bnd 0 <> 13.
Proof.
  intros Hp E. unfold bnd, make_boundary in *.
  destruct p as [|[|[|[|q]]]]; cbn [nth] in E; try discriminate; try lia.
  apply key_no_cr. rewrite <- E. apply nth_In. cbn [length] in Hp. lia.
Qed.

(* a CR always leaves the matcher in state 1, with the pending partial match flushed *)
Lemma msep_cr p : (p < length bnd)%nat ->
  msep bnd p 13 = (match p with O => [] | S _ => firstn p bnd end, 1%nat).
Proof.
  intros Hp. unfold msep. destruct p as [|q].
  - rewrite bnd_nth0. reflexivity.
  - destruct (N.eqb_spec 13 (nth (S q) bnd 0)) as [E|E].
    + exfalso. eapply (bnd_nth_pos (S q)); [lia|symmetry; exact E].
    + rewrite bnd_nth0. reflexivity.
Qed.

(* from state k (k bytes of the boundary matched) the rest of the boundary completes the match *)
Lemma mrun_tail : forall n k rout rest, (1 <= k)%nat -> (k < length bnd)%nat -> (length bnd - k = n)%nat ->
  mrun bnd k (skipn k bnd ++ rest) rout = Some (rev rout, rest).
Proof.
  induction n as [|n IH]; intros k rout rest Hk1 Hk Hn; [lia|].
  assert (skipn k bnd = nth k bnd 0 :: skipn (S k) bnd) as Hs.
  { clear -Hk. generalize dependent k. generalize bnd as l. induction l as [|x l IHl]; intros k Hk; [cbn in Hk; lia|].
    destruct k as [|k]; [reflexivity|]. cbn [skipn nth]. apply IHl. cbn in Hk. lia. }
  rewrite Hs. cbn [app mrun]. unfold msep. rewrite N.eqb_refl.
  destruct (Nat.eqb_spec (S k) (length bnd)) as [E|E].
  - cbn [negb Nat.eqb andb rev app]. rewrite skipn_all2 by lia. reflexivity.
  - rewrite andb_false_r. cbn [rev app]. apply IH; lia.
Qed.

Lemma mrun_finds x rest rout : ~ occurs bnd x ->
  mrun bnd 0 (x ++ bnd ++ rest) rout = Some (rev rout ++ x, rest).
Proof.
  intros Hno.
  destruct (mrun_skip bnd bnd_ne x 0%nat rout) as [p' [rout' [Hp' [Hrun Heq]]]].
  { rewrite bnd_len. lia. } { exact Hno. }
  rewrite Hrun. cbn [firstn app] in Heq.
  change (bnd ++ rest) with (13 :: skipn 1 bnd ++ rest).
  cbn [mrun]. rewrite (msep_cr p' Hp').
  assert (Nat.eqb 1 (length bnd) = false) as E1 by (apply Nat.eqb_neq; rewrite bnd_len; lia).
  rewrite E1, andb_false_r.
  rewrite (mrun_tail (length bnd - 1) 1) by (try rewrite bnd_len; lia).
  f_equal. f_equal. rewrite rev_app_distr, rev_involutive. rewrite Heq.
  destruct p'; [cbn [firstn]; rewrite app_nil_r; reflexivity|reflexivity].
Qed.
End CRFree.

(* without the hypothesis the matcher misses a delimiter: key = CR LF - - b, content = CR LF - - *)
Definition bad_key : list N := [13;10;45;45;98].
Definition bad_content : list N := [13;10;45;45].
Lemma matcher_misses_with_cr_in_key :
  containsb bad_content (make_boundary bad_key) = false /\
  mrun (make_boundary bad_key) 0 (bad_content ++ make_boundary bad_key) [] = None.
Proof. split; vm_compute; reflexivity. Qed.

(* ---------- the header terminator matcher (on a mismatch: restart at 1 if the byte is CR, else at 0) ---------- *)
(* position after reading w, None once CR LF CR LF has been recognised *)
Fixpoint hterm (p : nat) (w : list N) : option nat :=
  match w with
  | [] => Some p
  | c :: r => let p' := if c =? nth p crlfcrlf 0 then S p else if c =? 13 then 1%nat else O in
              if Nat.eqb p' 4 then None else hterm p' r
  end.
(* the matcher as it was before repair 3fc4520 (reset to 0, no restart), kept for the regression examples *)
Fixpoint hterm_old (p : nat) (w : list N) : option nat :=
  match w with
  | [] => Some p
  | c :: r => let p' := if c =? nth p crlfcrlf 0 then S p else O in
              if Nat.eqb p' 4 then None else hterm_old p' r
  end.
(* CR CR LF CR LF: missed by the old matcher, recognised now *)
Lemma header_terminator_after_cr : hterm 0 [13;13;10;13;10] = None /\ hterm_old 0 [13;13;10;13;10] = Some 2%nat.
Proof. split; reflexivity. Qed.

(* ---------- the matcher inside the state machine ---------- *)
Definition file_with_data (f : pfile) (rdata : list N) : pfile := mkfile (f_name f) (f_filename f) (f_mime f) rdata.

Lemma feed_sep_mrun bnd lim : bnd <> [] -> forall input s out rest,
  st s = SepBoundary -> (pos s < length bnd)%nat -> rest <> [] ->
  mrun bnd (pos s) input (f_rdata (cur s)) = Some (out, rest) ->
  feed bnd lim s input =
    let f := file_with_data (cur s) (rev out) in
    if size_ok lim f then feed bnd lim (mkst OneCrlfOrEof 0 (rhdr s) empty_file (f :: rfiles s) false) rest
    else OStop 413.
Proof.
  intros Hb. induction input as [|c r IH]; intros s out rest Hst Hp Hr H; cbn [mrun] in H; [discriminate|].
  cbn [feed]. unfold step. rewrite Hst.
  destruct (msep bnd (pos s) c) as [emit p'] eqn:Hm.
  destruct (msep_inv bnd (pos s) c emit p' Hp Hm) as [_ Hle].
  fold (mdone bnd p') in H |- *. destruct (mdone bnd p') eqn:Hd.
  - inversion H; subst. cbn [ev_ok last_file rfiles]. rewrite rev_involutive. reflexivity.
  - assert (is_nil r = false) as Hn.
    { destruct r; [cbn [mrun] in H; discriminate|reflexivity]. }
    rewrite Hn. cbn [ev_ok].
    rewrite (IH (mkst SepBoundary p' (rhdr s) (add_data (cur s) emit) (rfiles s) (ready s)) out rest); cbn [st pos cur rhdr rfiles];
      [reflexivity|reflexivity|eapply mdone_false; eauto|exact Hr|exact H].
Qed.

(* ---------- the content of one part, inside the parser: exact bytes, then the delimiter ---------- *)
Lemma part_content_exact key lim : ~ In 13 key -> forall s x rest,
  st s = SepBoundary -> pos s = 0%nat -> rest <> [] ->
  ~ occurs (make_boundary key) x ->
  feed (make_boundary key) lim s (x ++ make_boundary key ++ rest) =
    let f := file_with_data (cur s) (rev x ++ f_rdata (cur s)) in
    if size_ok lim f
    then feed (make_boundary key) lim (mkst OneCrlfOrEof 0 (rhdr s) empty_file (f :: rfiles s) false) rest
    else OStop 413.
Proof.
  intros Hk s x rest Hst Hp Hr Hno.
  assert (make_boundary key <> []) as Hb by discriminate.
  rewrite (feed_sep_mrun (make_boundary key) lim Hb (x ++ make_boundary key ++ rest) s
             (rev (f_rdata (cur s)) ++ x) rest Hst).
  - rewrite rev_app_distr, rev_involutive. reflexivity.
  - rewrite Hp. cbn [make_boundary length]. lia.
  - exact Hr.
  - rewrite Hp. apply mrun_finds; assumption.
Qed.
