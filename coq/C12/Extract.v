Require Extraction.
Require Import ExtrOcamlBasic.
From Coq Require Import NArith ZArith List.
From CppcmsV Require Import C12.Defs C12.ResDefs C12.MoreDefs C12.FaultDefs.
Definition keep_types : (N * Z * nat) := (0%N, 0%Z, 0%nat).
Extraction "c12m.ml" keep_types ct_boundary make_boundary init_state drive feed req_loop request_multipart
  parse_urlencoded f_size has_mime f_name f_filename f_mime f_rdata cur rfiles ready st pos media_type
  deliver_post deliver_files encode mrun containsb mklim request_service
  lifecycle l_start l_app_end l_destroyed l_released get_query request_plain request_service_ab
  write_entries_q destroy_all_q fo_size n_open n_disk o_inmem
  part_through_filter post_value handed.
