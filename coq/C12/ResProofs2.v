(* C12 proofs, part 11: the accepted request - what the application may do with the files, and when they go *)
From CppcmsV Require Import Base.Tac C12.Defs C12.Proofs C12.ResDefs C12.ResProofs.
Local Open Scope N_scope.

(* ---------- application actions keep the object invariant ---------- *)
Definition okp (p : aobj) : Prop := inv_o (fst p).
(* not made permanent, or already moved away: the destructor will leave nothing behind *)
Definition tmpp (p : aobj) : Prop := inv_o (fst p) /\ (o_temp (fst p) = true \/ o_removed (fst p) = true).

Lemma upd_Forall {A} (P : A -> Prop) f : (forall x, P x -> P (f x)) -> forall l k, Forall P l -> Forall P (upd k f l).
Proof.
  intros Hf. induction l as [|x l IH]; intros k H; [destruct k; constructor|].
  inversion H; subst. destruct k; cbn [upd]; constructor; auto.
Qed.

Lemma close_keeps_tmp o : o_temp o = true \/ o_removed o = true -> o_temp (fo_close o) = true \/ o_removed (fo_close o) = true.
Proof. unfold fo_close, fb_close. crush_o. intros H. bools; cbn in *; tauto. Qed.
Lemma save_keeps_tmp o : o_temp o = true \/ o_removed o = true -> o_temp (fo_save o) = true \/ o_removed (fo_save o) = true.
Proof. unfold fo_save, fb_close, fo_on_disk. crush_o. intros H. bools; cbn in *; tauto. Qed.

Lemma app_act_ok objs a : Forall okp objs -> Forall okp (app_act objs a).
Proof.
  intros H. destruct a as [k|k|k|k]; cbn [app_act]; apply upd_Forall; try exact H; unfold okp; intros [o b] Ho; cbn [fst snd] in *.
  - apply inv_close; exact Ho.
  - apply inv_save; exact Ho.
  - apply inv_perm; exact Ho.
  - exact Ho.
Qed.
Lemma app_run_ok : forall acts objs, Forall okp objs -> Forall okp (app_run objs acts).
Proof.
  unfold app_run. induction acts as [|a acts IH]; intros objs H; [exact H|]. cbn [fold_left]. apply IH. apply app_act_ok; exact H.
Qed.

Definition is_perm (a : act) : bool := match a with APerm _ => true | _ => false end.
Lemma app_act_tmp objs a : is_perm a = false -> Forall tmpp objs -> Forall tmpp (app_act objs a).
Proof.
  intros Hp H. destruct a as [k|k|k|k]; try discriminate; cbn [app_act]; apply upd_Forall; try exact H;
    unfold tmpp; intros [o b] [Ho Ht]; cbn [fst snd] in *.
  - split; [apply inv_close; exact Ho|apply close_keeps_tmp; exact Ht].
  - split; [apply inv_save; exact Ho|apply save_keeps_tmp; exact Ht].
  - split; assumption.
Qed.
Lemma app_run_tmp : forall acts objs, forallb (fun a => negb (is_perm a)) acts = true -> Forall tmpp objs -> Forall tmpp (app_run objs acts).
Proof.
  unfold app_run. induction acts as [|a acts IH]; intros objs Hp H; [exact H|]. cbn [fold_left forallb] in *.
  apply andb_true_iff in Hp. destruct Hp as [Ha Hp]. apply IH; [exact Hp|]. apply app_act_tmp; [|exact H].
  destruct (is_perm a); [discriminate|reflexivity].
Qed.

(* ---------- the application window: a file the application neither closes nor saves stays as it is ---------- *)
Definition same_res (o o' : fobj) : Prop :=
  o_open o' = o_open o /\ fo_on_disk o' = fo_on_disk o /\ g_create o' = g_create o /\ g_close o' = g_close o /\
  g_remove o' = g_remove o /\ fo_size o' = fo_size o.
Lemma same_res_refl o : same_res o o.
Proof. repeat split. Qed.
Lemma same_res_trans a b c : same_res a b -> same_res b c -> same_res a c.
Proof. unfold same_res. intros [? [? [? [? [? ?]]]]] [? [? [? [? [? ?]]]]]. repeat split; congruence. Qed.
Lemma perm_same_res o : same_res o (fo_permanent o).
Proof. repeat split. Qed.

Lemma nth_upd_other {A} (f : A -> A) d : forall l j k, j <> k -> nth k (upd j f l) d = nth k l d.
Proof.
  induction l as [|x l IH]; intros j k Hjk; [destruct j; reflexivity|].
  destruct j, k; cbn [upd nth]; try reflexivity; [congruence|apply IH; congruence].
Qed.
Lemma nth_upd_same {A} (f : A -> A) d : forall l k, (k < length l)%nat -> nth k (upd k f l) d = f (nth k l d).
Proof.
  induction l as [|x l IH]; intros k Hk; [cbn in Hk; lia|].
  destruct k; cbn [upd nth]; [reflexivity|apply IH; cbn in Hk; lia].
Qed.
Lemma upd_length {A} (f : A -> A) : forall l k, length (upd k f l) = length l.
Proof. induction l as [|x l IH]; intros k; [destruct k; reflexivity|]. destruct k; cbn [upd length]; [reflexivity|f_equal; apply IH]. Qed.
Lemma upd_beyond {A} (f : A -> A) : forall l k, (length l <= k)%nat -> upd k f l = l.
Proof.
  induction l as [|x l IH]; intros k Hk; [destruct k; reflexivity|].
  destruct k; cbn [upd length] in *; [lia|f_equal; apply IH; lia].
Qed.

Definition touches (k : nat) (a : act) : bool :=
  match a with AClose j | ASave j => Nat.eqb j k | _ => false end.

Lemma app_act_untouched objs a k d : touches k a = false ->
  same_res (fst (nth k objs d)) (fst (nth k (app_act objs a) d)).
Proof.
  intros Ht. destruct a as [j|j|j|j]; cbn [app_act touches] in *.
  - apply Nat.eqb_neq in Ht. rewrite nth_upd_other by exact Ht. apply same_res_refl.
  - apply Nat.eqb_neq in Ht. rewrite nth_upd_other by exact Ht. apply same_res_refl.
  - destruct (Nat.eq_dec j k) as [E|E]; [subst j|rewrite nth_upd_other by exact E; apply same_res_refl].
    destruct (Nat.lt_ge_cases k (length objs)) as [Hl|Hl].
    + rewrite nth_upd_same by exact Hl. cbn [fst]. apply perm_same_res.
    + rewrite upd_beyond by exact Hl. apply same_res_refl.
  - destruct (Nat.eq_dec j k) as [E|E]; [subst j|rewrite nth_upd_other by exact E; apply same_res_refl].
    destruct (Nat.lt_ge_cases k (length objs)) as [Hl|Hl].
    + rewrite nth_upd_same by exact Hl. cbn [fst]. apply same_res_refl.
    + rewrite upd_beyond by exact Hl. apply same_res_refl.
Qed.
Lemma app_run_untouched k d : forall acts objs, forallb (fun a => negb (touches k a)) acts = true ->
  same_res (fst (nth k objs d)) (fst (nth k (app_run objs acts) d)).
Proof.
  unfold app_run. induction acts as [|a acts IH]; intros objs H; [apply same_res_refl|].
  cbn [fold_left forallb] in *. apply andb_true_iff in H. destruct H as [Ha H].
  eapply same_res_trans; [apply app_act_untouched with (a := a); destruct (touches k a); [discriminate|reflexivity]|apply IH; exact H].
Qed.

(* ---------- the accepted request ---------- *)
Lemma combine_filter_snd {A B} (g : A -> B) (p : A -> bool) : forall l,
  map snd (filter (fun q => p (fst q)) (combine l (map g l))) = map g (filter p l).
Proof.
  induction l as [|x l IH]; [reflexivity|]. cbn [map combine filter fst]. destruct (p x); cbn [map snd]; [f_equal|]; exact IH.
Qed.

Definition files_of (mem : N) (done : list pfile) : list aobj := map (fun o => (o, false)) (map (entry_obj mem) (filter has_mime done)).
Definition fields_of (mem : N) (done : list pfile) : list fobj :=
  map fo_destroy (map (entry_obj mem) (filter (fun f => negb (has_mime f)) done)).

Lemma ready_shape mem done cur acts :
  let curo := fo_destroy (match cur with Some f => entry_obj mem f | None => fo_new end) in
  let files2 := app_run (files_of mem done) acts in
  lifecycle mem done cur (HReady acts) =
  mklife (snap (curo :: fields_of mem done ++ map fst (files_of mem done)))
         (snap (curo :: fields_of mem done ++ map fst files2))
         (snap (curo :: fields_of mem done ++ map fst (map (fun p : aobj => if snd p then p else (fo_destroy (fst p), false)) files2)))
         (snap (curo :: fields_of mem done ++ map (fun p : aobj => fo_destroy (fst p)) files2))
         (curo :: fields_of mem done ++ map (fun p : aobj => fo_destroy (fst p)) files2).
Proof.
  cbv zeta. unfold lifecycle.
  assert (map (fun p : pfile * fobj => (snd p, false)) (filter (fun p => has_mime (fst p)) (combine done (map (entry_obj mem) done)))
          = files_of mem done) as Ef.
  { unfold files_of. rewrite <- (combine_filter_snd (entry_obj mem) has_mime done). rewrite map_map. reflexivity. }
  assert (map (fun p : pfile * fobj => fo_destroy (snd p)) (filter (fun p => negb (has_mime (fst p))) (combine done (map (entry_obj mem) done)))
          = fields_of mem done) as Eg.
  { unfold fields_of. rewrite <- (combine_filter_snd (entry_obj mem) (fun f => negb (has_mime f)) done). rewrite map_map. reflexivity. }
  rewrite Ef, Eg.
  assert (forall l : list aobj, map (fun p : aobj => if snd p then fo_destroy (fst p) else fst p)
                                    (map (fun p : aobj => if snd p then p else (fo_destroy (fst p), false)) l)
                                = map (fun p : aobj => fo_destroy (fst p)) l) as E4.
  { intros l. rewrite map_map. apply map_ext. intros [o b]. destruct b; reflexivity. }
  rewrite E4. reflexivity.
Qed.

Lemma entry_objs_inv mem fs : Forall inv_o (map (entry_obj mem) fs).
Proof.
  apply Forall_forall. intros o Ho. apply in_map_iff in Ho. destruct Ho as [f [E _]]. subst o. eapply winv_inv. apply entry_obj_winv.
Qed.
Lemma entry_objs_temp mem fs : Forall (fun o => o_temp o = true) (map (entry_obj mem) fs).
Proof.
  apply Forall_forall. intros o Ho. apply in_map_iff in Ho. destruct Ho as [f [E _]]. subst o. apply (entry_obj_spill mem f).
Qed.
Lemma destroy_all_gone l : Forall inv_o l -> Forall (fun o => o_temp o = true) l -> Forall obj_gone (map fo_destroy l).
Proof.
  induction l as [|o l IH]; intros Hi Ht; [constructor|]. inversion Hi; inversion Ht; subst.
  cbn [map]. constructor; [apply destroy_gone; [assumption|left; assumption]|apply IH; assumption].
Qed.
Lemma fields_gone mem done : Forall obj_gone (fields_of mem done).
Proof. unfold fields_of. apply destroy_all_gone; [apply entry_objs_inv|apply entry_objs_temp]. Qed.
Lemma curo_gone mem cur : obj_gone (fo_destroy (match cur with Some f => entry_obj mem f | None => fo_new end)).
Proof.
  destruct cur as [f|].
  - apply destroy_gone; [eapply winv_inv; apply entry_obj_winv|left; apply (entry_obj_spill mem f)].
  - apply destroy_gone; [apply inv_new|left; reflexivity].
Qed.
Lemma files_of_ok mem done : Forall okp (files_of mem done) /\ Forall tmpp (files_of mem done).
Proof.
  unfold files_of. pose proof (entry_objs_inv mem (filter has_mime done)) as Hi. pose proof (entry_objs_temp mem (filter has_mime done)) as Ht.
  rewrite Forall_forall in Hi, Ht.
  split; apply Forall_forall; intros p Hp; apply in_map_iff in Hp; destruct Hp as [o [E Ho]]; subst p; unfold okp, tmpp; cbn [fst].
  - apply Hi; exact Ho.
  - split; [apply Hi; exact Ho|left; apply Ht; exact Ho].
Qed.

(* when the application starts: the temporary files of the form fields are gone, every uploaded file larger
   than file_in_memory_limit is one open temporary file, the others are in memory *)
Lemma ready_start mem done cur acts :
  l_start (lifecycle mem done cur (HReady acts)) = (n_spilled mem (filter has_mime done), n_spilled mem (filter has_mime done)).
Proof.
  rewrite ready_shape. cbn [l_start]. unfold snap.
  change (?c :: fields_of mem done ++ ?x) with ((c :: fields_of mem done) ++ x).
  rewrite n_open_app, n_disk_app.
  assert (snap (fo_destroy (match cur with Some f => entry_obj mem f | None => fo_new end) :: fields_of mem done) = (0, 0)) as E0.
  { apply all_gone_counts. constructor; [apply curo_gone|apply fields_gone]. }
  unfold snap in E0. injection E0 as E1 E2. rewrite E1, E2.
  unfold files_of. rewrite map_map. cbn [fst]. rewrite map_id.
  pose proof (entry_objs_counts mem (filter has_mime done)) as E. unfold snap in E. injection E as E3 E4. rewrite E3, E4. reflexivity.
Qed.

(* whatever the application does: every object ends balanced (each temporary file created at most once, its
   descriptor closed exactly once); if the application made nothing permanent, every file is also removed or
   moved away exactly once and nothing is left when the last reference has gone *)
Lemma ready_final mem done cur acts :
  let L := lifecycle mem done cur (HReady acts) in
  Forall obj_balanced (l_final L) /\ fst (l_released L) = 0 /\
  (forallb (fun a => negb (is_perm a)) acts = true -> Forall obj_gone (l_final L) /\ l_released L = (0, 0)).
Proof.
  cbv zeta. rewrite ready_shape. cbn [l_final l_released].
  destruct (files_of_ok mem done) as [Hok Htmp].
  pose proof (app_run_ok acts _ Hok) as Hok2.
  set (fin := fo_destroy (match cur with Some f => entry_obj mem f | None => fo_new end) :: fields_of mem done ++
              map (fun p : aobj => fo_destroy (fst p)) (app_run (files_of mem done) acts)).
  assert (Forall obj_balanced fin) as Hb.
  { unfold fin. constructor; [apply (curo_gone mem cur)|]. apply Forall_app. split.
    - eapply Forall_impl; [|apply fields_gone]. intros o [Ho _]; exact Ho.
    - apply Forall_forall. intros o Ho. apply in_map_iff in Ho. destruct Ho as [p [E Hp]]. subst o.
      apply destroy_balanced. rewrite Forall_forall in Hok2. apply (Hok2 p Hp). }
  split; [exact Hb|]. split.
  - unfold snap. cbn [fst]. unfold n_open.
    assert (filter o_open fin = []) as Ef.
    { induction Hb as [|o l [Ho _] _ IH]; [reflexivity|]. cbn [filter]. rewrite Ho. exact IH. }
    rewrite Ef. reflexivity.
  - intros Hnp. pose proof (app_run_tmp acts _ Hnp Htmp) as Ht2.
    assert (Forall obj_gone fin) as Hg.
    { unfold fin. constructor; [apply curo_gone|]. apply Forall_app. split; [apply fields_gone|].
      apply Forall_forall. intros o Ho. apply in_map_iff in Ho. destruct Ho as [p [E Hp]]. subst o.
      rewrite Forall_forall in Ht2. destruct (Ht2 p Hp) as [Hi Ht]. apply destroy_gone; assumption. }
    split; [exact Hg|apply all_gone_counts; exact Hg].
Qed.

(* never while the application can still read it: during the application window the k-th uploaded file is
   exactly as it was delivered (descriptor open and directory entry present iff it was spilled, nothing closed,
   nothing removed, same size) unless the application itself closes or saves that very file *)
Lemma ready_window mem done acts k d :
  forallb (fun a => negb (touches k a)) acts = true ->
  let o := fst (nth k (files_of mem done) d) in
  let o' := fst (nth k (app_run (files_of mem done) acts) d) in
  same_res o o'.
Proof. intros H. cbv zeta. apply app_run_untouched. exact H. Qed.

Lemma files_of_nth mem done k d : (k < length (filter has_mime done))%nat ->
  fst (nth k (files_of mem done) d) = entry_obj mem (nth k (filter has_mime done) empty_file).
Proof.
  intros Hk. unfold files_of. rewrite map_map.
  rewrite (nth_indep _ d (entry_obj mem empty_file, false)) by (rewrite map_length; exact Hk).
  rewrite (map_nth (fun x => (entry_obj mem x, false))). reflexivity.
Qed.
