(* C12: the leaf functions regenerated from /repo's current private/http_protocol.h (coq/gen/Gen_c12.v)
   are the model's leaf functions.  A C++ char is a signed 8-bit value: byte b is fed as wraps 8 b. *)
From CppcmsV Require Import Base.Tac Base.CSem Base.Sweep C12.Defs gen.Gen_c12.
Local Open Scope N_scope.

Lemma link_separator b : b < 256 -> g_c12_separator (wraps 8 (Z.of_N b)) = separator b.
Proof.
  intros H. apply eqb_prop.
  apply (sweep256 (fun b => eqb (g_c12_separator (wraps 8 (Z.of_N b))) (separator b))); [vm_compute; reflexivity|exact H].
Qed.

Lemma link_to_lower b : b < 256 -> g_c12_to_lower (wraps 8 (Z.of_N b)) = wraps 8 (Z.of_N (to_lower b)).
Proof.
  intros H. apply Z.eqb_eq.
  apply (sweep256 (fun b => Z.eqb (g_c12_to_lower (wraps 8 (Z.of_N b))) (wraps 8 (Z.of_N (to_lower b)))));
    [vm_compute; reflexivity|exact H].
Qed.

(* the loop condition of tocken() over the generated separator *)
Lemma link_tchar b : b < 256 ->
  (Z.leb 32 (wraps 8 (Z.of_N b)) && Z.leb (wraps 8 (Z.of_N b)) 126 && negb (g_c12_separator (wraps 8 (Z.of_N b))))%bool = tchar b.
Proof.
  intros H. apply eqb_prop.
  apply (sweep256 (fun b => eqb (Z.leb 32 (wraps 8 (Z.of_N b)) && Z.leb (wraps 8 (Z.of_N b)) 126 && negb (g_c12_separator (wraps 8 (Z.of_N b))))%bool (tchar b)));
    [vm_compute; reflexivity|exact H].
Qed.

(* xdigit(int c) is called with a char argument (sign extended) by util::urldecode *)
Lemma link_xdigit b : b < 256 -> g_c12_xdigit (wraps 8 (Z.of_N b)) = xdigit b.
Proof.
  intros H. apply eqb_prop.
  apply (sweep256 (fun b => eqb (g_c12_xdigit (wraps 8 (Z.of_N b))) (xdigit b))); [vm_compute; reflexivity|exact H].
Qed.
