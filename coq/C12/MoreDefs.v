(* C12: further executable definitions (deepening round): GET query (request::prepare), the read_full
   accumulation of a non-multipart body (get_buffer / on_content_progress), definitions only *)
From Coq Require Import NArith List Bool.
From CppcmsV Require Import C12.Defs.
Import ListNotations.
Local Open Scope N_scope.

(* request::prepare: get_ is cleared when parse_form_urlencoded reports a malformed item - all or nothing *)
Definition get_query (q : list N) : list (list N * list N) :=
  let (l, ok) := parse_urlencoded q in if ok then l else [].

(* read_full: post_data has the declared size; every read appends at read_size, never beyond the declared
   length; content is complete when read_size == content_length.  None = still waiting. *)
Fixpoint ue_loop (remaining : nat) (racc : list N) (chunks : list (list N)) : option (list N) :=
  match chunks with
  | [] => None
  | ch0 :: more =>
      let ch := firstn remaining ch0 in
      let rem' := (remaining - length ch)%nat in
      let racc' := rev_append ch racc in
      if Nat.eqb rem' 0 then Some (rev_append racc' []) else ue_loop rem' racc' more
  end.

(* a request that is not multipart/form-data, no content filter: status (0 = waiting) and post() *)
Definition request_plain (L : limits) (ct : list N) (declared : nat) (chunks : list (list N)) : N * list (list N * list N) :=
  if Nat.eqb declared 0 then (200, [])
  else if content_length_limit L <? N.of_nat declared then (413, [])
  else match ue_loop declared [] chunks with
       | None => (0, [])
       | Some b => (200, if is_ue ct then fst (parse_urlencoded b) else [])
       end.

(* the defaults of the three limits (cached_settings.h, KiB * 1024 in content_limits), tied in LinkLimits.v *)
Definition default_limits : limits := mklim (1024 * 1024) (64 * 1024 * 1024).
Definition default_file_in_memory_limit : N := 128 * 1024.

(* request::on_content_start up to the choice of the reading mode: 0 = go on, otherwise the refusal *)
Definition start_status (L : limits) (mp : bool) (declared : nat) : N :=
  if Nat.eqb declared 0 then 0
  else if mp then (if multipart_limit L <? N.of_nat declared then 413 else 0)
  else (if content_length_limit L <? N.of_nat declared then 413 else 0).

(* a multipart_filter that throws abort_upload(403) from its k-th on_new_file (k >= 1; k = 0: never):
   on_content_progress catches it, sets no_on_error and returns the code (src/http_request.cpp) *)
Fixpoint feed_ab (bnd : list N) (lim : option N) (k : N) (s : pstate) (chunk : list N) (a : fev) : outcome * fev :=
  match chunk with
  | [] => (OGo s, a)
  | c :: rest =>
      match step bnd s c (is_nil rest) with
      | SErr => (OStop 400, a)
      | SFuel => (OStop 599, a)
      | SEof s' => (OEof s', a)
      | SGo s' e =>
          if ev_ok lim s' e then
            let a' := fev_upd a s' e in
            match e with
            | Some EvMeta => if n_new a' =? k then (OStop 403, a') else feed_ab bnd lim k s' rest a'
            | _ => feed_ab bnd lim k s' rest a'
            end
          else (OStop 413, a)
      end
  end.

Definition request_service_ab (L : limits) (k : N) (ct : list N) (declared : nat) (body : list N) : svc :=
  if is_mp ct && negb (Nat.eqb declared 0) && negb (multipart_limit L <? N.of_nat declared) then
    match ct_boundary ct with
    | FOk (k0 :: key') =>
        let b := firstn declared body in
        let complete := Nat.eqb (length b) declared in
        match feed_ab (make_boundary (k0 :: key')) (Some (content_length_limit L)) k init_state b fev0 with
        | (OStop c, a) => mksvc c [] [] a []
        | (OEof s', a) => if complete then mksvc 200 (rev (rfiles s')) [] a [] else mksvc 400 [] [] a []
        | (OGo s', a) => if complete then mksvc 400 [] [] a [] else mksvc 0 [] [] a []
        end
    | _ => request_service L false ct declared body
    end
  else request_service L false ct declared body.

(* ---------- the read side a content filter can disturb: stream position and failbit of a part's istream ---------- *)
(* (file::data() is one std::istream per part; the parser rewinds it with seekg(0) at content_ready, request.cpp
   again before on_data_ready, read_file() again before a form field is copied into post(); seekg is a no-op
   while failbit is set - which ordinary stream-level reading to the end of the part leaves behind) *)
Record sstate := mkss { s_pos : nat; s_fail : bool }.
Definition seek0 (s : sstate) : sstate := if s_fail s then s else mkss 0 false.
(* what a reading filter does in one callback *)
Inductive rmode := RNone | RAll | RPart | REnd | RMid | RStream.
(* state after the callback and the bytes the callback saw *)
Definition after_read (how : rmode) (data : list N) (s : sstate) : sstate * list N :=
  let size := length data in
  match how with
  | RNone => (s, [])
  | RAll => (mkss size (s_fail s), skipn (s_pos s) data)                    (* rdbuf()->sbumpc() to the end: no stream flag *)
  | RPart => (mkss (Nat.min size (s_pos s + Nat.div size 2)) (s_fail s), firstn (Nat.div size 2) (skipn (s_pos s) data))
  | REnd => (if s_fail s then s else mkss size false, [])
  | RMid => (if s_fail s then s else mkss (Nat.div size 2) false, [])
  | RStream => if s_fail s then (s, []) else (mkss size true, skipn (s_pos s) data)   (* istream::read to the end: eofbit|failbit *)
  end.
(* request.cpp read_file (since /repo ebeb88c): clear(), seekg(0), copy everything - the state the filter left does
   not matter *)
Definition post_value (data : list N) (s : sstate) : list N := skipn (s_pos (seek0 (mkss (s_pos s) false))) data.
(* before ebeb88c: seekg(0) only, a no-op while failbit is set (regression Example) *)
Definition post_value_old (data : list N) (s : sstate) : list N := skipn (s_pos (seek0 s)) data.
(* an uploaded file is handed to the application as the filter left it *)
Definition handed (data : list N) (s : sstate) : list N := skipn (s_pos s) data.
(* one part through a filter R<new><progress><ready> (progress callbacks do not read once failbit may be set, so the
   state before on_data_ready is position 0): state when the part is delivered, bytes seen by on_data_ready *)
Definition part_through_filter (fnew fready : rmode) (data : list N) : sstate * list N :=
  let s0 := mkss 0 (match fnew with RStream => true | _ => false end) in
  after_read fready data (seek0 (seek0 s0)).
