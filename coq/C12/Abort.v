(* C12 proofs, part 14: a content filter that aborts the upload (abort_upload thrown from on_new_file) *)
From CppcmsV Require Import Base.Tac C12.Defs C12.Proofs C12.Fuel C12.MoreDefs.
Local Open Scope N_scope.

(* a filter that never aborts is the plain multipart filter *)
Lemma feed_ab_never bnd lim : forall chunk s a, feed_ab bnd lim 0 s chunk a = feed_f bnd lim s chunk a.
Proof.
  induction chunk as [|c rest IH]; intros s a; [reflexivity|].
  cbn [feed_ab feed_f]. destruct (step bnd s c (is_nil rest)) as [s' e| | |s']; try reflexivity.
  destruct (ev_ok lim s' e); [|reflexivity]. cbv zeta.
  destruct e as [[| | |]|]; try apply IH.
  cbn [fev_upd n_new]. destruct (N.eqb_spec (N.succ (n_new a)) 0) as [E|_]; [lia|apply IH].
Qed.

(* the only refusals are 400, 413 and the code of the filter; the code of the filter exactly when its k-th
   on_new_file was reached *)
Lemma feed_ab_codes bnd lim k : forall chunk s a c a', feed_ab bnd lim k s chunk a = (OStop c, a') ->
  c = 400 \/ c = 413 \/ (c = 403 /\ n_new a' = k).
Proof.
  induction chunk as [|ch rest IH]; intros s a c a' H; [discriminate|].
  cbn [feed_ab] in H. pose proof (step_no_fuel bnd s ch (is_nil rest)) as Hnf.
  destruct (step bnd s ch (is_nil rest)) as [s' e| | |s'].
  - destruct (ev_ok lim s' e); [|inversion H; subst; right; left; reflexivity]. cbv zeta in H.
    destruct e as [[| | |]|]; try (eapply IH; exact H).
    destruct (N.eqb_spec (n_new (fev_upd a s' (Some EvMeta))) k) as [E|_]; [|eapply IH; exact H].
    inversion H; subst. right; right. split; reflexivity.
  - inversion H; subst. left; reflexivity.
  - congruence.
  - discriminate.
Qed.

(* an upload that is not accepted - aborted by the filter, refused, or incomplete - delivers nothing *)
Lemma aborted_nothing_delivered L k ct declared body :
  sv_status (request_service_ab L k ct declared body) <> 200 ->
  sv_entries (request_service_ab L k ct declared body) = [] /\ sv_pairs (request_service_ab L k ct declared body) = [].
Proof.
  unfold request_service_ab, request_service.
  destruct (Nat.eqb declared 0); [rewrite andb_false_r; cbn; congruence|].
  destruct (is_mp ct); cbn [andb negb].
  - destruct (multipart_limit L <? N.of_nat declared); cbn [negb]; [intros _; split; reflexivity|].
    destruct (ct_boundary ct) as [[|k0 key']| |]; try (intros _; split; reflexivity).
    destruct (feed_ab _ _ _ _ _ _) as [[s'|s'|c] a]; cbn [sv_status sv_entries sv_pairs].
    + destruct (Nat.eqb _ declared); intros _; split; reflexivity.
    + destruct (Nat.eqb _ declared); cbn [sv_status sv_entries sv_pairs]; [intros H; congruence|intros _; split; reflexivity].
    + intros _; split; reflexivity.
  - destruct (content_length_limit L <? N.of_nat declared); [intros _; split; reflexivity|].
    destruct (Nat.eqb _ declared); cbn [sv_status sv_entries sv_pairs]; [intros H; congruence|intros _; split; reflexivity].
Qed.
