(* C18 proofs, part 4: session_sid in front of the storage. *)
From CppcmsV Require Import Base.Tac Base.Sweep C18.Defs C18.Proofs C18.Crash C18.History.
Local Open Scope N_scope.

Lemma low_xdigit_isxdigit c : is_low_xdigit c = true -> isxdigit c = true.
Proof.
  unfold is_low_xdigit, isxdigit. intros H. apply orb_true_iff in H. apply orb_true_iff.
  destruct H as [H|H]; [left; apply orb_true_iff; left; exact H|left; apply orb_true_iff; right; exact H].
Qed.

Lemma forallb_low_isx l : forallb is_low_xdigit l = true -> forallb isxdigit l = true.
Proof.
  induction l as [|c l IH]; [reflexivity|]. cbn [forallb]. intros H.
  apply andb_true_iff in H. destruct H as [H1 H2]. rewrite (low_xdigit_isxdigit c H1). cbn [andb]. apply IH. exact H2.
Qed.

(* every name that session_sid passes to the storage is one that gc looks at (and whose first four
   characters are hex digits, which sid_to_pos relies on) *)
Lemma valid_sid_name cookie id : valid_sid cookie = Some id ->
  cookie = 73 :: id /\ valid_name id = true /\ length id = 32%nat.
Proof.
  unfold valid_sid. destruct cookie as [|c0 rest]; [discriminate|].
  destruct (N.eqb_spec c0 73) as [E|E].
  - subst c0. destruct ((length rest =? 32)%nat && forallb is_low_xdigit rest) eqn:H; [|discriminate].
    intros [= <-]. apply andb_true_iff in H. destruct H as [H1 H2].
    split; [reflexivity|]. split; [|apply Nat.eqb_eq; exact H1].
    unfold valid_name. rewrite H1. cbn [andb]. apply forallb_low_isx. exact H2.
  - intros H. exfalso. revert H.
    (* any other first byte is refused *)
    destruct c0 as [|p]; [discriminate|].
    do 7 (destruct p as [p|p|]; try discriminate). congruence.
Qed.

(* the second expiry test of session_sid::load never fires: the storage has already refused the record *)
Lemma sid_load_eq now cookie d :
  sid_load now cookie d = match valid_sid cookie with None => (None, d) | Some id => load now id d end.
Proof.
  unfold sid_load. destruct (valid_sid cookie) as [id|]; [|reflexivity].
  destruct (load now id d) as [[[t data]|] d'] eqn:E; [|reflexivity].
  pose proof (load_spec now id d) as Hs. rewrite E in Hs. destruct Hs as [_ (f & _ & Hr)].
  destruct (read_spec now f t data Hr) as (_ & _ & Hn & _).
  destruct (Z.ltb_spec t now); [lia|reflexivity].
Qed.

(* what the session API can get out of the storage after any history of the file named by its cookie *)
Lemma sid_load_spec now cookie d r d' : sid_load now cookie d = (Some r, d') ->
  exists id f, valid_sid cookie = Some id /\ valid_name id = true /\ lookup id d = Some f /\
               read_from_file now f = Some r /\ d' = d.
Proof.
  rewrite sid_load_eq. destruct (valid_sid cookie) as [id|] eqn:Ev; [|discriminate].
  intros H. pose proof (load_spec now id d) as Hs. rewrite H in Hs. destruct Hs as [Ed (f & Hl & Hr)].
  exists id, f. destruct (valid_sid_name cookie id Ev) as (_ & Hv & _). repeat split; assumption.
Qed.

(* ---------- the crash family named in the property text ----------
   p bytes of the stream (0 = no write call done, 16 = the header call, 16 < p < total = a byte prefix of the data call,
   total = both calls) and an arbitrary subset of sectors (mask) that reached the disk with that progress *)
Definition uniform_ps (p : N) (mask : list bool) : list N := map (fun b : bool => if b then p else 0) mask.

Lemma uniform_ps_ok p mask : p = 0 \/ 16 <= p -> ps_ok (uniform_ps p mask).
Proof.
  intros Hp. unfold ps_ok, uniform_ps. apply Forall_forall. intros x Hx.
  apply in_map_iff in Hx. destruct Hx as (b & <- & _). destruct b; [exact Hp|left; reflexivity].
Qed.

Lemma crash_safe_family now F t d p mask :
  s64_ok t -> bytes_ok d -> small d -> p = 0 \/ 16 <= p -> old_ok F -> (0 < now)%Z ->
  let res := read_from_file now (crash_file F (new_image t d) (uniform_ps p mask)) in
  res = None \/ res = Some (t, d) \/ res = read_from_file now F \/ collision now F t d res.
Proof. intros Ht Hd Hs Hp HF Hn. apply crash_safe; try assumption. apply uniform_ps_ok. exact Hp. Qed.

(* all sectors written with the whole stream = the completed save *)
Lemma crash_none_is_old F new : crash_file F new [] = F.
Proof.
  unfold crash_file, crash_len. cbn [reach]. rewrite N.max_l by lia. rewrite Nat2N.id, Nat.sub_diag. cbn [repeat].
  rewrite app_nil_r.
  assert (forall Fz i nw, mixb i [] nw Fz = Fz) as H.
  { induction Fz as [|f Fz IH]; intros i nw; [reflexivity|]. cbn [mixb]. rewrite IH.
    destruct nw as [|n nw']; [reflexivity|].
    destruct (N.to_nat (N.shiftr i 9)); cbn [nth]; destruct (N.ltb_spec i 0); try lia; reflexivity. }
  apply H.
Qed.

(* ---------- the allocation from the size field (checked against the file length since c47a865) ---------- *)
Lemma alloc_le_hdr now f : alloc_size now f <= hdr_size f.
Proof. unfold alloc_size. destruct (hdr_readable now f && size_fits f); lia. Qed.

(* for EVERY file, garbage included: the buffer requested is never larger than what the file holds behind its header *)
Lemma alloc_le_file now f : alloc_size now f <= N.of_nat (length f - 16).
Proof.
  unfold alloc_size. destruct (hdr_readable now f); cbn [andb]; [|lia].
  destruct (size_fits f) eqn:E; [|lia]. apply size_fits_spec in E. tauto.
Qed.

(* when load returns a value the buffer was exactly as long as that value *)
Lemma alloc_exact now f t' d' : read_from_file now f = Some (t', d') -> alloc_size now f = N.of_nat (length d').
Proof.
  intros H. destruct (read_spec now f t' d' H) as (L16 & Et & Hn & El & _).
  pose proof (read_fits now f _ H) as Hf. unfold alloc_size, hdr_readable. rewrite Hf. subst t'.
  destruct (Nat.ltb_spec (length f) 8); [lia|]. destruct (Nat.ltb_spec (length f) 16); [lia|].
  destruct (Z.ltb_spec (hdr_deadline f) now); [lia|]. cbn [negb andb]. symmetry. exact El.
Qed.

(* hence, whatever the file contains: with as much memory as the file is long, load never throws and is the plain load *)
Lemma load_limited_file_enough limit now nm d f :
  lookup nm d = Some f -> N.of_nat (length f - 16) <= limit ->
  load_limited limit now nm d =
    match load now nm d with (Some (t, x), d') => (LSome t x, d') | (None, d') => (LNone, d') end.
Proof.
  intros Hl Hs. unfold load_limited. rewrite Hl. unfold alloc_fails.
  pose proof (alloc_le_file now f). destruct (N.ltb_spec limit (alloc_size now f)); [lia|]. reflexivity.
Qed.

(* load_limited answers LExc only when the file itself is longer than the memory available *)
Lemma load_limited_exc limit now nm d d' :
  load_limited limit now nm d = (LExc, d') -> exists f, lookup nm d = Some f /\ limit + 16 < N.of_nat (length f) /\ d' = d.
Proof.
  unfold load_limited. destruct (lookup nm d) as [f|] eqn:El; [|discriminate].
  destruct (alloc_fails limit now f) eqn:Ea.
  - intros [= <-]. exists f. split; [reflexivity|]. split; [|reflexivity].
    unfold alloc_fails in Ea. apply N.ltb_lt in Ea. pose proof (alloc_le_file now f). lia.
  - destruct (load now nm d) as [[[t x]|] d'']; discriminate.
Qed.

(* after any history of saves and crashes the size field is 0 or the length of a saved payload: the allocation is as
   large as a value the application itself stored, never larger *)
Lemma history_alloc_ok ops limit now :
  Forall op_ok ops -> (forall t d, In (t, d) (saves_of ops) -> N.of_nat (length d) <= limit) ->
  alloc_fails limit now (cur (run ops)) = false.
Proof.
  intros Hok Hlim. pose proof (run_inv ops Hok) as Hi. unfold alloc_fails.
  apply N.ltb_ge.
  destruct (run ops) as [f|]; cbn [cur st_inv] in *; [|change (alloc_size now []) with 0; lia].
  eapply N.le_trans; [apply alloc_le_hdr|].
  destruct Hi as [E|[L [H|(t & d & Hin & (Ht & Hd & Hs) & E)]]].
  - subst f. change (hdr_size []) with 0. lia.
  - rewrite (hdr_size_16 f), H. change (hdr_size (repeat 0 16)) with 0. lia.
  - cbn [fst snd] in *. rewrite (hdr_size_16 f), E, hdr_size_header.
    unfold small in Hs. rewrite N.mod_small by (change (2 ^ 32) with 4294967296; change (2 ^ 31) with 2147483648 in Hs; lia).
    exact (Hlim t d Hin).
Qed.

(* regression example for the repaired defect: a planted 19-byte file with a well-formed name, a deadline in the future and a
   size field of 2 GiB - 16.  The unchecked reader asked for 2 GiB; the reader as it is now asks for nothing, reports that there is
   no session and removes the file, with any amount of memory *)
Definition g_file : list N := enc_s64 5000 ++ le_bytes 4 0 ++ le_bytes 4 2147483632 ++ [97; 98; 99].
Lemma garbage_alloc_regression :
  length g_file = 19%nat /\ timestamp_ok 1000 g_file = true /\
  alloc_size_unchecked 1000 g_file = 2147483632 /\ alloc_size 1000 g_file = 0 /\
  forall limit nm, load_limited limit 1000 nm [(nm, g_file)] = (LNone, []).
Proof.
  split; [reflexivity|]. split; [vm_compute; reflexivity|]. split; [vm_compute; reflexivity|].
  assert (alloc_size 1000 g_file = 0) as A by (vm_compute; reflexivity). split; [exact A|].
  intros limit nm. unfold load_limited, load. cbn [lookup]. rewrite name_eqb_refl.
  unfold alloc_fails. rewrite A. destruct (N.ltb_spec limit 0); [lia|].
  replace (read_from_file 1000 g_file) with (@None (Z * list N)) by (vm_compute; reflexivity).
  unfold remove. cbn [filter fst]. rewrite name_eqb_refl. reflexivity.
Qed.

(* the same header in front of a file that really holds the bytes is still accepted, trailing bytes included:
   the test is against the file length, not against 16 + size *)
Definition g_ok : list N := enc_s64 5000 ++ le_bytes 4 (crc32 [97; 98; 99]) ++ le_bytes 4 3 ++ [97; 98; 99; 100; 101].
Lemma trailing_bytes_accepted :
  length g_ok = 21%nat /\ read_from_file 1000 g_ok = Some (5000%Z, [97; 98; 99]) /\ alloc_size 1000 g_ok = 3 /\
  read_from_file 1000 (firstn 18 g_ok) = None /\ alloc_size 1000 (firstn 18 g_ok) = 0 /\
  alloc_size_unchecked 1000 (firstn 18 g_ok) = 3.
Proof. repeat split; vm_compute; reflexivity. Qed.
