(* C18 tie, part 2: the per-character test of session_sid::valid_sid (regenerated from src/session_sid.cpp into
   gen/Gen_C18_sid.v; char is signed there: the byte goes through wraps 8) is the model's is_low_xdigit on every byte,
   and so the character loop of valid_sid over the generated test is the model's forallb. *)
From CppcmsV Require Import Base.Tac Base.Sweep C18.Defs C18.Proofs C18.Crash C18.History C18.Sid gen.Gen_C18_sid.
Local Open Scope N_scope.

Lemma link_low_xdigit b : b < 256 -> g_c18_low_x_digit (Z.of_N b) = is_low_xdigit b.
Proof.
  intros H. apply Bool.eqb_prop.
  apply (sweep256 (fun b => Bool.eqb (g_c18_low_x_digit (Z.of_N b)) (is_low_xdigit b))); [vm_compute; reflexivity|exact H].
Qed.

Lemma link_low_xdigit_all id : bytes_ok id ->
  forallb (fun b => g_c18_low_x_digit (Z.of_N b)) id = forallb is_low_xdigit id.
Proof.
  induction id as [|b id IH]; intros H; [reflexivity|].
  apply bytes_ok_cons in H. destruct H as [Hb H]. cbn [forallb]. rewrite link_low_xdigit by exact Hb. rewrite IH by exact H. reflexivity.
Qed.

(* valid_sid written over the generated test accepts exactly the cookies the model accepts *)
Definition valid_sid_gen (cookie : list N) : option name :=
  match cookie with
  | 73 :: id => if (length id =? 32)%nat && forallb (fun b => g_c18_low_x_digit (Z.of_N b)) id then Some id else None
  | _ => None
  end.

Lemma link_valid_sid cookie : bytes_ok cookie -> valid_sid_gen cookie = valid_sid cookie.
Proof.
  intros H. destruct cookie as [|c id]; [reflexivity|].
  apply bytes_ok_cons in H. destruct H as [_ H].
  unfold valid_sid_gen, valid_sid. rewrite link_low_xdigit_all by exact H. reflexivity.
Qed.
