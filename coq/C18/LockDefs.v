(* C18: lock discipline of session_file_storage - definitions only (the table itself is generated from the current source into
   gen/Gen_C18_locks.v by checks/C18.py:gen_locktab; the theorems are in C18/Locks.v).
   An access is one system call on the session file; its scope is the number of the `locked_file` object (per-sid mutex, and
   the fcntl lock in that mode, taken in its constructor before the open and released in its destructor after the close) inside
   whose lifetime the call is made, 0 = outside every locked_file.  Helper methods are inlined at their call sites. *)
From Coq Require Import List Bool Arith String.
Import ListNotations.
Local Open Scope list_scope.

Inductive acc := AOpen | ARead | AWrite | AUnlink | AClose | ASeek | AStat.
Definition acc_eqb (a b : acc) : bool :=
  match a, b with
  | AOpen, AOpen | ARead, ARead | AWrite, AWrite | AUnlink, AUnlink | AClose, AClose | ASeek, ASeek | AStat, AStat => true
  | _, _ => false
  end.
Definition entry := (string * list (acc * nat))%type.

(* 1. every access to a session file is made under that sid's lock *)
Definition all_locked (t : list entry) : bool :=
  forallb (fun e : entry => forallb (fun an : acc * nat => negb (snd an =? 0)) (snd e)) t.

(* 2. decide-then-act: an unlink that follows reads (the decision: stamp / record unreadable or past) is in the SAME lock scope
   as every read that precedes it in that method: the lock is not released between looking and removing *)
Fixpoint one_scope_from (seen : list nat) (l : list (acc * nat)) : bool :=
  match l with
  | [] => true
  | (ARead, s) :: r => one_scope_from (s :: seen) r
  | (AUnlink, s) :: r => forallb (fun x => x =? s) seen && negb (s =? 0) && one_scope_from seen r
  | _ :: r => one_scope_from seen r
  end.
Definition one_scope (t : list entry) : bool := forallb (fun e : entry => one_scope_from [] (snd e)) t.

(* 3. writes of one save are in one scope together with the open that creates the file (no other actor sees a file without header) *)
Definition writes_one_scope (l : list (acc * nat)) : bool :=
  match filter (fun an : acc * nat => acc_eqb (fst an) AWrite || acc_eqb (fst an) AOpen) l with
  | [] => true
  | (_, s) :: r => negb (s =? 0) && forallb (fun an : acc * nat => snd an =? s) r
  end.

Definition lookup_entry (nm : string) (t : list entry) : list (acc * nat) :=
  match find (fun e : entry => String.eqb (fst e) nm) t with Some e => snd e | None => [] end.

(* atomic sections: a maximal run of accesses in the same lock scope executes without interleaving (the other actor needs the
   same per-sid mutex); an access outside every scope is a section of its own *)
Fixpoint sections_from (cur : list acc) (cs : nat) (l : list (acc * nat)) : list (list acc) :=
  match l with
  | [] => match cur with [] => [] | _ => [rev cur] end
  | (a, s) :: r =>
      if (s =? 0) then (match cur with [] => [] | _ => [rev cur] end) ++ [a] :: sections_from [] 0 r
      else if (s =? cs) then sections_from (a :: cur) cs r
      else (match cur with [] => [] | _ => [rev cur] end) ++ sections_from [a] s r
  end.
Definition sections (l : list (acc * nat)) : list (list acc) := sections_from [] 0 l.

(* ---------- two actors on ONE sid: gc and a request that loads and then saves (deadline in the future) ----------
   file state as gc's clock sees it; from its open on, the descriptor the save writes through may come to point at an unlinked
   inode (rq_orphan): what is written through it then is lost *)
Inductive fstate := FAbsent | FEmpty | FDead | FLive.   (* no file | created, no header yet | stamp past | stamp not past *)
Record st := { file : fstate; gc_seen : option fstate; rq_seen : option fstate; rq_open : bool; rq_orphan : bool; removed_live : bool }.
Definition init_st (f : fstate) : st :=
  {| file := f; gc_seen := None; rq_seen := None; rq_open := false; rq_orphan := false; removed_live := false |}.
Definition is_live (f : fstate) : bool := match f with FLive => true | _ => false end.
Definition exists_file (f : fstate) : bool := match f with FAbsent => false | _ => true end.
(* a stamp read decides "remove" for an unreadable (empty) or past stamp *)
Definition condemned (o : option fstate) : bool := match o with Some FDead | Some FEmpty => true | _ => false end.

Inductive actor := Gc | LoadRq | SaveRq.
Definition do_unlink (s : st) (seen : option fstate) : st :=
  if condemned seen && exists_file (file s) then
    {| file := FAbsent; gc_seen := gc_seen s; rq_seen := rq_seen s; rq_open := rq_open s;
       rq_orphan := rq_orphan s || rq_open s; removed_live := removed_live s || is_live (file s) |}
  else s.
Definition step_acc (who : actor) (a : acc) (s : st) : st :=
  match who, a with
  | Gc, ARead => {| file := file s; gc_seen := Some (file s); rq_seen := rq_seen s; rq_open := rq_open s; rq_orphan := rq_orphan s; removed_live := removed_live s |}
  | Gc, AUnlink => do_unlink s (gc_seen s)
  | LoadRq, ARead => {| file := file s; gc_seen := gc_seen s; rq_seen := Some (file s); rq_open := rq_open s; rq_orphan := rq_orphan s; removed_live := removed_live s |}
  | LoadRq, AUnlink => do_unlink s (rq_seen s)
  | SaveRq, AOpen => {| file := match file s with FAbsent => FEmpty | f => f end; gc_seen := gc_seen s; rq_seen := rq_seen s;
                        rq_open := true; rq_orphan := false; removed_live := removed_live s |}
  | SaveRq, AWrite => if rq_orphan s then s
                      else {| file := FLive; gc_seen := gc_seen s; rq_seen := rq_seen s; rq_open := rq_open s; rq_orphan := false; removed_live := removed_live s |}
  | _, _ => s
  end.
Definition run_section (who : actor) (sec : list acc) (s : st) : st := fold_left (fun s a => step_acc who a s) sec s.

(* all interleavings of two section lists, each section tagged with its actor *)
Fixpoint merges_aux (n : nat) (xs ys : list (actor * list acc)) : list (list (actor * list acc)) :=
  match n with
  | O => [[]]
  | S n' =>
      match xs, ys with
      | [], _ => [ys]
      | _, [] => [xs]
      | x :: xs', y :: ys' => map (cons x) (merges_aux n' xs' ys) ++ map (cons y) (merges_aux n' xs ys')
      end
  end.
Definition merges (xs ys : list (actor * list acc)) : list (list (actor * list acc)) := merges_aux (List.length xs + List.length ys) xs ys.
Definition run_schedule (m : list (actor * list acc)) (s : st) : st := fold_left (fun s ws => run_section (fst ws) (snd ws) s) m s.

Definition gc_prog (t : list entry) : list (actor * list acc) := map (fun sec => (Gc, sec)) (sections (lookup_entry "gc"%string t)).
Definition rq_prog (t : list entry) : list (actor * list acc) :=
  map (fun sec => (LoadRq, sec)) (sections (lookup_entry "load"%string t)) ++ map (fun sec => (SaveRq, sec)) (sections (lookup_entry "save"%string t)).
(* the request ends with a completed save of a live record and nobody removes live records: gc must never unlink a record
   that is live at that moment, and afterwards the session must be there *)
Definition safe (s : st) : bool := negb (removed_live s) && is_live (file s).
Definition all_inits : list fstate := [FAbsent; FEmpty; FDead; FLive].
Definition race_free (t : list entry) : bool :=
  forallb (fun f => forallb (fun m => safe (run_schedule m (init_st f))) (merges (gc_prog t) (rq_prog t))) all_inits.
