(* C18 proofs, part 14: the lock-discipline argument in general, for ANY table (not only the one extracted today):
   if gc's accesses form one atomic section and load's accesses form one atomic section, then in every interleaving with a
   request that loads and saves, from every state, nobody unlinks a record that is live at the time of the unlink.
   (What the sections contain - how many reads, stats, seeks - does not matter: a decision is never older than the section.) *)
From Coq Require Import List Bool Arith String Lia.
Import ListNotations.
From CppcmsV Require Import C18.LockDefs.
Local Open Scope list_scope.

Definition actor_eqb (a b : actor) : bool :=
  match a, b with Gc, Gc | LoadRq, LoadRq | SaveRq, SaveRq => true | _, _ => false end.
Definition count (w : actor) (m : list (actor * list acc)) : nat :=
  List.length (filter (fun x : actor * list acc => actor_eqb (fst x) w) m).

(* inside one section of the deciding actor its view is fresh: nothing seen yet, or what it saw is what is there, or nothing is there *)
Definition fresh (seen : option fstate) (f : fstate) : Prop := seen = None \/ seen = Some f \/ f = FAbsent.

Lemma do_unlink_fresh s seen : removed_live s = false -> fresh seen (file s) ->
  removed_live (do_unlink s seen) = false /\ (file (do_unlink s seen) = FAbsent \/ do_unlink s seen = s).
Proof.
  intros Hr Hf. unfold do_unlink.
  destruct (condemned seen && exists_file (file s)) eqn:E; [|split; [exact Hr|right; reflexivity]].
  apply andb_true_iff in E. destruct E as [Ec Ee]. cbn [removed_live file]. split; [|left; reflexivity].
  rewrite Hr. cbn [orb]. destruct Hf as [->|[->|Hf]].
  - discriminate.
  - destruct (file s); cbn in Ec; try discriminate; reflexivity.
  - rewrite Hf in Ee. discriminate.
Qed.

Lemma gc_step_inv a s : removed_live s = false -> fresh (gc_seen s) (file s) ->
  let s' := step_acc Gc a s in removed_live s' = false /\ fresh (gc_seen s') (file s') /\ rq_seen s' = rq_seen s.
Proof.
  intros Hr Hf. destruct a; cbn [step_acc]; try (split; [exact Hr|split; [exact Hf|reflexivity]]).
  - cbn. split; [exact Hr|]. split; [right; left; reflexivity|reflexivity].
  - destruct (do_unlink_fresh s (gc_seen s) Hr Hf) as [H1 H2]. split; [exact H1|]. split.
    + destruct H2 as [H2|H2]; [right; right; exact H2|rewrite H2; exact Hf].
    + unfold do_unlink. destruct (condemned (gc_seen s) && exists_file (file s)); reflexivity.
Qed.

Lemma load_step_inv a s : removed_live s = false -> fresh (rq_seen s) (file s) ->
  let s' := step_acc LoadRq a s in removed_live s' = false /\ fresh (rq_seen s') (file s') /\ gc_seen s' = gc_seen s.
Proof.
  intros Hr Hf. destruct a; cbn [step_acc]; try (split; [exact Hr|split; [exact Hf|reflexivity]]).
  - cbn. split; [exact Hr|]. split; [right; left; reflexivity|reflexivity].
  - destruct (do_unlink_fresh s (rq_seen s) Hr Hf) as [H1 H2]. split; [exact H1|]. split.
    + destruct H2 as [H2|H2]; [right; right; exact H2|rewrite H2; exact Hf].
    + unfold do_unlink. destruct (condemned (rq_seen s) && exists_file (file s)); reflexivity.
Qed.

Lemma gc_section_inv sec : forall s, removed_live s = false -> fresh (gc_seen s) (file s) ->
  removed_live (run_section Gc sec s) = false /\ rq_seen (run_section Gc sec s) = rq_seen s.
Proof.
  unfold run_section. induction sec as [|a r IH]; intros s Hr Hf; cbn [fold_left]; [split; [exact Hr|reflexivity]|].
  destruct (gc_step_inv a s Hr Hf) as (A & B & C). destruct (IH _ A B) as [D E]. split; [exact D|]. rewrite E. exact C.
Qed.

Lemma load_section_inv sec : forall s, removed_live s = false -> fresh (rq_seen s) (file s) ->
  removed_live (run_section LoadRq sec s) = false /\ gc_seen (run_section LoadRq sec s) = gc_seen s.
Proof.
  unfold run_section. induction sec as [|a r IH]; intros s Hr Hf; cbn [fold_left]; [split; [exact Hr|reflexivity]|].
  destruct (load_step_inv a s Hr Hf) as (A & B & C). destruct (IH _ A B) as [D E]. split; [exact D|]. rewrite E. exact C.
Qed.

Lemma save_section_inv sec : forall s,
  removed_live (run_section SaveRq sec s) = removed_live s /\ gc_seen (run_section SaveRq sec s) = gc_seen s /\
  rq_seen (run_section SaveRq sec s) = rq_seen s.
Proof.
  unfold run_section. induction sec as [|a r IH]; intros s; cbn [fold_left]; [repeat split|].
  destruct (IH (step_acc SaveRq a s)) as (A & B & C). rewrite A, B, C.
  destruct a; cbn [step_acc]; try (repeat split; reflexivity).
  destruct (rq_orphan s); repeat split; reflexivity.
Qed.

(* a schedule in which each deciding actor has at most one section, started before that actor has looked at anything *)
Lemma schedule_safe m : forall s, removed_live s = false ->
  (count Gc m <= 1)%nat -> (count LoadRq m <= 1)%nat ->
  (count Gc m = 1%nat -> gc_seen s = None) -> (count LoadRq m = 1%nat -> rq_seen s = None) ->
  removed_live (run_schedule m s) = false.
Proof.
  unfold run_schedule. induction m as [|[w sec] r IH]; intros s Hr Cg Cl Sg Sl; cbn [fold_left]; [exact Hr|].
  cbn [fst snd]. unfold count in *. cbn [filter fst] in Cg, Cl, Sg, Sl.
  destruct w; cbn [actor_eqb] in Cg, Cl, Sg, Sl; cbn [List.length] in Cg, Cl, Sg, Sl.
  - assert (gc_seen s = None) as G by (apply Sg; lia).
    destruct (gc_section_inv sec s Hr ltac:(left; exact G)) as [A B].
    apply IH; [exact A|lia|exact Cl|intros; lia|intros H; rewrite B; apply Sl; exact H].
  - assert (rq_seen s = None) as G by (apply Sl; lia).
    destruct (load_section_inv sec s Hr ltac:(left; exact G)) as [A B].
    apply IH; [exact A|exact Cg|lia|intros H; rewrite B; apply Sg; exact H|intros; lia].
  - destruct (save_section_inv sec s) as (A & B & C).
    apply IH; [rewrite A; exact Hr|exact Cg|exact Cl|intros H; rewrite B; apply Sg; exact H|intros H; rewrite C; apply Sl; exact H].
Qed.

(* counting through merges *)
Lemma count_app w a b : count w (a ++ b) = (count w a + count w b)%nat.
Proof. unfold count. rewrite filter_app, app_length. reflexivity. Qed.

Lemma count_cons w x m : count w (x :: m) = ((if actor_eqb (fst x) w then 1 else 0) + count w m)%nat.
Proof. unfold count. cbn [filter]. destruct (actor_eqb (fst x) w); reflexivity. Qed.

Lemma merges_count w n : forall xs ys m, In m (merges_aux n xs ys) -> (List.length xs + List.length ys <= n)%nat ->
  count w m = (count w xs + count w ys)%nat.
Proof.
  induction n as [|n IH]; intros xs ys m Hin Hl.
  - destruct xs, ys; cbn in Hl; try lia. cbn in Hin. destruct Hin as [<-|[]]. reflexivity.
  - cbn [merges_aux] in Hin. destruct xs as [|x xs].
    + destruct Hin as [<-|[]]. reflexivity.
    + destruct ys as [|y ys].
      * destruct Hin as [<-|[]]. unfold count at 3. cbn. lia.
      * apply in_app_or in Hin. destruct Hin as [Hin|Hin]; apply in_map_iff in Hin; destruct Hin as (m' & <- & Hm').
        -- rewrite (count_cons w x m'), (count_cons w x xs).
           rewrite (IH xs (y :: ys) m' Hm') by (cbn [List.length] in *; lia). lia.
        -- rewrite (count_cons w y m'), (count_cons w y ys).
           rewrite (IH (x :: xs) ys m' Hm') by (cbn [List.length] in *; lia). lia.
Qed.

Lemma count_map_same w (l : list (list acc)) : count w (map (fun sec => (w, sec)) l) = List.length l.
Proof. unfold count. induction l as [|a r IH]; [reflexivity|]. cbn [map filter fst]. destruct w; cbn [actor_eqb List.length]; rewrite IH; reflexivity. Qed.

Lemma count_map_other w v (l : list (list acc)) : actor_eqb v w = false -> count w (map (fun sec => (v, sec)) l) = 0%nat.
Proof. intros H. unfold count. induction l as [|a r IH]; [reflexivity|]. cbn [map filter fst]. rewrite H. exact IH. Qed.

(* the general theorem *)
Theorem one_section_race_free (t : list entry) (f : fstate) m :
  (List.length (sections (lookup_entry "gc"%string t)) <= 1)%nat ->
  (List.length (sections (lookup_entry "load"%string t)) <= 1)%nat ->
  In m (merges (gc_prog t) (rq_prog t)) ->
  removed_live (run_schedule m (init_st f)) = false.
Proof.
  intros Hg Hl Hm. unfold merges in Hm.
  assert (forall w, count w m = (count w (gc_prog t) + count w (rq_prog t))%nat) as Hc.
  { intros w. apply (merges_count w _ _ _ _ Hm). lia. }
  unfold gc_prog, rq_prog in Hc.
  apply schedule_safe; try reflexivity.
  - rewrite Hc, count_app, count_map_same, !count_map_other by reflexivity. lia.
  - rewrite Hc, count_app, count_map_same, !count_map_other by reflexivity. lia.
Qed.

(* accesses that all lie in one (non-zero) lock scope form one atomic section *)
Lemma same_scope_sections_from s : s <> 0%nat -> forall l cur, Forall (fun an : acc * nat => snd an = s) l ->
  (List.length (sections_from cur s l) <= 1)%nat.
Proof.
  intros Hs. induction l as [|[a s'] r IH]; intros cur H.
  - cbn [sections_from]. destruct cur; cbn; lia.
  - cbn [sections_from]. pose proof (Forall_inv H) as E. cbn [snd] in E. subst s'.
    destruct (Nat.eqb_spec s 0); [contradiction|]. rewrite Nat.eqb_refl. apply IH. exact (Forall_inv_tail H).
Qed.

Lemma same_scope_one_section s l : s <> 0%nat -> Forall (fun an : acc * nat => snd an = s) l -> (List.length (sections l) <= 1)%nat.
Proof.
  intros Hs H. unfold sections. destruct l as [|[a s'] r]; [cbn; lia|].
  cbn [sections_from]. pose proof (Forall_inv H) as E. cbn [snd] in E. subst s'.
  destruct (Nat.eqb_spec s 0); [contradiction|]. cbn [app]. apply same_scope_sections_from; [exact Hs|exact (Forall_inv_tail H)].
Qed.
