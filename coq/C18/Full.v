(* C18 proofs, part 5: the crash model contains the completed save (all sectors written with the whole stream). *)
From CppcmsV Require Import Base.Tac Base.Sweep C18.Defs C18.Proofs C18.Crash.
Local Open Scope N_scope.

Lemma reach_full nl : forall ps s, Forall (fun p => nl <= p) ps ->
  reach s ps nl = if (SECT * s <? nl) && (0 <? N.of_nat (length ps)) then N.min nl (SECT * (s + N.of_nat (length ps))) else 0.
Proof.
  induction ps as [|p r IH]; intros s Hall.
  - cbn [reach length]. rewrite andb_false_r. reflexivity.
  - cbn [reach]. rewrite IH by (apply Forall_inv_tail in Hall; exact Hall).
    apply Forall_inv in Hall. cbn [length]. unfold SECT.
    destruct (N.ltb_spec (512 * s) nl) as [L1|L1];
    destruct (N.ltb_spec (512 * (s + 1)) nl) as [L2|L2];
    destruct (N.ltb_spec 0 (N.of_nat (length r))) as [L3|L3];
    destruct (N.ltb_spec 0 (N.of_nat (S (length r)))) as [L4|L4];
    destruct (N.ltb_spec (512 * s) (N.min (N.min p nl) (512 * (s + 1)))) as [L5|L5];
    cbn [andb]; lia.
Qed.

Lemma crash_full F new ps :
  Forall (fun p => N.of_nat (length new) <= p) ps -> N.of_nat (length new) <= SECT * N.of_nat (length ps) ->
  crash_file F new ps = overlay new F.
Proof.
  intros Hall Hcov. set (nl := N.of_nat (length new)) in *.
  assert (length (crash_file F new ps) = length (overlay new F)) as HL.
  { rewrite length_crash_file. unfold crash_len, overlay. fold nl.
    rewrite (reach_full nl ps 0 Hall). rewrite app_length, skipn_length. unfold SECT in *.
    destruct (N.ltb_spec (512 * 0) nl) as [L1|L1]; destruct (N.ltb_spec 0 (N.of_nat (length ps))) as [L2|L2]; cbn [andb]; lia. }
  apply (nth_ext _ _ 0 0 HL). intros j Hj.
  rewrite nth_crash_file by exact Hj. unfold takes_new, overlay.
  destruct (Nat.ltb_spec j (length new)) as [Lj|Lj]; cbn [andb].
  - assert (nl <= nth (N.to_nat (N.shiftr (0 + N.of_nat j) 9)) ps 0) as Hp.
    { rewrite Forall_forall in Hall. apply Hall. apply nth_In.
      rewrite N.add_0_l, N.shiftr_div_pow2. change (2 ^ 9) with 512. unfold SECT in Hcov. lia. }
    destruct (N.ltb_spec (0 + N.of_nat j) (nth (N.to_nat (N.shiftr (0 + N.of_nat j) 9)) ps 0)) as [L|L]; [|lia].
    rewrite app_nth1 by exact Lj. reflexivity.
  - rewrite app_nth2 by lia. rewrite nth_skipn_add. f_equal. lia.
Qed.

(* the completed save is the crash state in which every sector holds the whole stream *)
Lemma crash_full_is_save F t d ps :
  Forall (fun p => N.of_nat (length (new_image t d)) <= p) ps ->
  N.of_nat (length (new_image t d)) <= SECT * N.of_nat (length ps) ->
  crash_file F (new_image t d) ps = save_file F t d.
Proof. intros H1 H2. unfold save_file. apply crash_full; assumption. Qed.
