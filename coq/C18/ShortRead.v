(* C18 proofs, part 10: read_all with short reads.  Since /repo 74c63d5 read_all advances its buffer pointer: every read()
   deposits its bytes where the previous one stopped, so a load over short reads returns exactly what a plain load returns,
   for every cut pattern.  The loop before the repair (adv = false) is kept for the regression Example. *)
From CppcmsV Require Import Base.Tac Base.Sweep C18.Defs C18.Proofs C18.Crash C18.History C18.ShortWrite.
Local Open Scope N_scope.

Lemma ra_eq fuel : forall done buf src n acc, (n <= fuel)%nat -> (n <= length src)%nat -> length buf = n ->
  read_all_gen true fuel done buf src n acc = Some (done ++ firstn n src).
Proof.
  induction fuel as [|fu IH]; intros done buf src n acc Hf Hs Hb.
  - assert (n = 0)%nat by lia. subst n. destruct buf; [reflexivity|discriminate].
  - cbn [read_all_gen]. destruct (Nat.eqb_spec n 0) as [E|E].
    + subst n. destruct buf; [reflexivity|discriminate].
    + set (k := match acc with [] => n | k :: _ => if (k =? 0)%nat then n else Nat.min k n end).
      assert (1 <= k <= n)%nat as Hk.
      { unfold k. destruct acc as [|k0 r]; [lia|]. destruct (Nat.eqb_spec k0 0); lia. }
      rewrite (Nat.min_l k (length src)) by lia.
      destruct (Nat.eqb_spec k 0); [lia|].
      rewrite IH; [|lia|rewrite skipn_length; lia|rewrite skipn_length; lia].
      rewrite <- app_assoc, firstn_plus_skipn. do 3 f_equal. lia.
Qed.

(* a load over short reads is the plain load, for every cut pattern *)
Lemma read_from_file_short_eq now f acc : read_from_file_short now f acc = read_from_file now f.
Proof.
  unfold read_from_file_short.
  destruct (Nat.lt_ge_cases (length f) 16) as [L|L].
  - rewrite read_short by exact L. unfold read_from_file_gen, hdr_readable.
    destruct (Nat.ltb_spec (length f) 16); [|lia]. cbn [negb]. rewrite andb_false_r. reflexivity.
  - unfold read_from_file_gen, hdr_readable, size_fits. rewrite !read_unfold by exact L.
    destruct (Nat.ltb_spec (length f) 8); [lia|]. destruct (Nat.ltb_spec (length f) 16); [lia|]. cbn [negb andb].
    destruct (hdr_deadline f <? now)%Z; cbn [negb andb]; [reflexivity|].
    destruct (N.ltb_spec (N.of_nat (length f - 16)) (hdr_size f)) as [A|A]; cbn [negb]; [reflexivity|].
    destruct (N.leb_spec (2 ^ 31) (hdr_size f)) as [Lh|Lh]; [reflexivity|].
    rewrite ra_eq; [reflexivity|lia|rewrite skipn_length; lia|apply repeat_length].
Qed.

Lemma load_short_eq now nm acc d : load_short now nm acc d = load now nm d.
Proof. unfold load_short, load. destruct (lookup nm d) as [f|]; [|reflexivity]. rewrite read_from_file_short_eq. reflexivity. Qed.

(* regression Example for the repaired defect short-read-live-session-removed (the old witness): the intact live record of "hi";
   with the loop as it was a data read() cut after 1 byte gave the buffer "i\0", the CRC test failed (and load unlinked the
   file); with the loop as it is now the value comes back and the directory is unchanged *)
Definition r_f : list N := save_file [] 3000 [104; 105].
Lemma short_read_regression :
  read_from_file 1000 r_f = Some (3000%Z, [104; 105]) /\
  read_from_file_gen false 1000 r_f [1%nat] = None /\
  read_from_file_short 1000 r_f [1%nat] = Some (3000%Z, [104; 105]) /\
  load_short 1000 (repeat 97 32) [1%nat] [(repeat 97 32, r_f)] = (Some (3000%Z, [104; 105]), [(repeat 97 32, r_f)]).
Proof. repeat split; vm_compute; reflexivity. Qed.
