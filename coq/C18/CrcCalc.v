(* C18 proofs, part 12: the class crc32_calc.  Fed in any number of pieces of any sizes it computes the CRC-32 of the WHOLE
   input, and that CRC depends on every single byte, wherever it lies (in particular beyond any block boundary). *)
From CppcmsV Require Import Base.Tac Base.Sweep C18.Defs C18.Proofs C18.Crash C18.Burst.
Local Open Scope N_scope.

Lemma lxor_M32_twice x : N.lxor (N.lxor x M32) M32 = x.
Proof. rewrite N.lxor_assoc, N.lxor_nilpotent, N.lxor_0_r. reflexivity. Qed.

Lemma zcrc_app v a b : zcrc (zcrc v a) b = zcrc v (a ++ b).
Proof. unfold zcrc. rewrite lxor_M32_twice, crc_update_app. reflexivity. Qed.

Lemma zcrc_nil v : zcrc v [] = v.
Proof. unfold zcrc, crc_update. cbn [fold_left]. apply lxor_M32_twice. Qed.

Lemma process_bytes_zcrc v l : process_bytes v l = zcrc v l.
Proof. destruct l; [symmetry; apply zcrc_nil|reflexivity]. Qed.

Lemma crc32_calc_gen chunks : forall v, fold_left process_bytes chunks v = zcrc v (concat chunks).
Proof.
  induction chunks as [|c r IH]; intros v; cbn [fold_left concat]; [symmetry; apply zcrc_nil|].
  rewrite IH, process_bytes_zcrc, zcrc_app. reflexivity.
Qed.

Lemma zcrc_0 l : zcrc 0 l = crc32 l.
Proof. unfold zcrc, crc32. rewrite N.lxor_0_l. reflexivity. Qed.

(* whatever the pieces: the checksum is the CRC-32 of everything that was fed *)
Lemma crc32_calc_whole chunks : crc32_calc chunks = crc32 (concat chunks).
Proof. unfold crc32_calc. rewrite crc32_calc_gen. apply zcrc_0. Qed.

(* the CRC-32 depends on every byte: two inputs of any length that differ in one position have different CRCs *)
Lemma crc32_every_byte pre a b suf :
  bytes_ok pre -> a < 256 -> b < 256 -> bytes_ok suf ->
  crc32 (pre ++ [a] ++ suf) = crc32 (pre ++ [b] ++ suf) -> a = b.
Proof.
  intros Hp Ha Hb Hs H.
  assert ([a] = [b]) as E.
  { apply (crc32_burst_detected pre [a] [b] suf); try assumption; try reflexivity.
    - apply bytes_ok_cons. split; [exact Ha|apply Forall_nil].
    - apply bytes_ok_cons. split; [exact Hb|apply Forall_nil].
    - cbn [length]. lia. }
  injection E as E. exact E.
Qed.

(* what the loader compares with the header field is the CRC-32 of the whole data area, for every length *)
Lemma loader_crc_whole_area now f t' d' : read_from_file now f = Some (t', d') -> hdr_size f < 2 ^ 31 ->
  d' = firstn (N.to_nat (hdr_size f)) (skipn 16 f) /\ length d' = N.to_nat (hdr_size f) /\
  hdr_crc f = crc32_calc [firstn (N.to_nat (hdr_size f)) (skipn 16 f)].
Proof.
  intros H Hlt. destruct (read_spec now f t' d' H) as (L16 & Et & Hn & El & Ec & Hd).
  destruct (Hd Hlt) as [Ed _]. split; [exact Ed|]. split; [lia|].
  rewrite crc32_calc_whole. cbn [concat]. rewrite app_nil_r, <- Ed. symmetry. exact Ec.
Qed.

(* and a file is accepted exactly when that holds (header readable, record fits) *)
Lemma loader_accepts_iff now f : (16 <= length f)%nat -> (now <= hdr_deadline f)%Z -> size_fits f = true -> hdr_size f < 2 ^ 31 ->
  let area := firstn (N.to_nat (hdr_size f)) (skipn 16 f) in
  read_from_file now f = if crc32_calc [area] =? hdr_crc f then Some (hdr_deadline f, area) else None.
Proof.
  intros L Hd Hf Hlt area. rewrite read_unfold by exact L.
  destruct (Z.ltb_spec (hdr_deadline f) now); [lia|].
  apply size_fits_spec in Hf. destruct Hf as [_ Hf].
  destruct (N.ltb_spec (N.of_nat (length f - 16)) (hdr_size f)); [lia|].
  destruct (N.leb_spec (2 ^ 31) (hdr_size f)); [lia|].
  rewrite crc32_calc_whole. cbn [concat]. rewrite app_nil_r. reflexivity.
Qed.

(* the header a save writes carries the CRC-32 of the whole value, however process_bytes is fed *)
Lemma header_crc_whole t d chunks : bytes_ok d -> concat chunks = d -> hdr_crc (header t d) = crc32_calc chunks.
Proof. intros Hd E. rewrite hdr_crc_header by exact Hd. rewrite crc32_calc_whole, E. reflexivity. Qed.

Lemma crc_calc_nonvacuous :
  crc32_calc [[49; 50; 51]; []; [52; 53; 54; 55]; [56; 57]] = 3421780262 /\ crc32_calc [] = 0 /\
  crc32 ([1; 2] ++ [3] ++ [4]) <> crc32 ([1; 2] ++ [5] ++ [4]).
Proof. repeat split; try (vm_compute; reflexivity). vm_compute. discriminate. Qed.
