(* C18 proofs, part 3: the collision witness, histories of one session file, gc and load on a directory. *)
From CppcmsV Require Import Base.Tac Base.Sweep C18.Defs C18.Proofs C18.Crash.
Local Open Scope N_scope.

(* ---------- the CRC-32 collision witness ----------
   old value "a\tC=\x97N" (deadline 5000), new value "bHELLO" (deadline 6000); the crash leaves the new
   header and one byte of the new data (17 bytes of the stream) in sector 0.  The old tail was chosen
   so that "b" ++ old tail has the CRC-32 of "bHELLO" (4 free bytes solve the linear equation). *)
Definition w_old : list N := [97; 9; 67; 61; 151; 78].
Definition w_new : list N := [98; 72; 69; 76; 76; 79].
Definition w_mix : list N := [98; 9; 67; 61; 151; 78].
Definition w_F : list N := save_file [] 5000 w_old.
Definition w_ps : list N := [17].
Definition w_C : list N := crash_file w_F (new_image 6000 w_new) w_ps.

Lemma witness_hyps :
  s64_ok 6000 /\ bytes_ok w_new /\ small w_new /\ ps_ok w_ps /\ old_ok w_F /\ (0 < 100)%Z.
Proof.
  split; [unfold s64_ok; lia|].
  split; [apply bytes_okb_spec; vm_compute; reflexivity|].
  split; [unfold small; vm_compute; reflexivity|].
  split; [constructor; [right; lia|constructor]|].
  split; [right; vm_compute; lia|lia].
Qed.

Lemma witness_old_read : read_from_file 100 w_F = Some (5000%Z, w_old).
Proof. vm_compute. reflexivity. Qed.

Lemma witness_read : read_from_file 100 w_C = Some (6000%Z, w_mix).
Proof. vm_compute. reflexivity. Qed.

Lemma crash_collision_witness :
  exists F t d ps now,
    s64_ok t /\ bytes_ok d /\ small d /\ ps_ok ps /\ old_ok F /\ (0 < now)%Z /\
    exists d', read_from_file now (crash_file F (new_image t d) ps) = Some (t, d') /\
               d' <> d /\ read_from_file now F <> Some (t, d') /\
               (forall t0, read_from_file now F <> Some (t0, d')) /\
               length d' = length d /\ crc32 d' = crc32 d.
Proof.
  exists w_F, 6000%Z, w_new, w_ps, 100%Z.
  destruct witness_hyps as (A & B & C & D & E & G).
  repeat (split; [assumption|]).
  exists w_mix. split; [exact witness_read|].
  split; [discriminate|]. rewrite witness_old_read.
  split; [discriminate|]. split; [intros t0; discriminate|].
  split; vm_compute; reflexivity.
Qed.

(* the statement without the collision disjunct is false in the faithful model *)
Lemma crash_safe_unconditional_refuted :
  exists F t d ps now,
    s64_ok t /\ bytes_ok d /\ small d /\ ps_ok ps /\ old_ok F /\ (0 < now)%Z /\
    let res := read_from_file now (crash_file F (new_image t d) ps) in
    ~ (res = None \/ res = Some (t, d) \/ res = read_from_file now F).
Proof.
  exists w_F, 6000%Z, w_new, w_ps, 100%Z.
  destruct witness_hyps as (A & B & C & D & E & G).
  repeat (split; [assumption|]).
  cbv zeta. fold w_C. rewrite witness_read, witness_old_read.
  intros [H|[H|H]]; discriminate.
Qed.

(* and crash_safe files it under the collision disjunct *)
Lemma witness_is_collision : collision 100 w_F 6000 w_new (read_from_file 100 w_C).
Proof.
  destruct witness_hyps as (A & B & C & D & E & G).
  destruct (crash_safe 100 w_F 6000 w_new w_ps A B C D E G) as [H|[H|[H|H]]]; fold w_C in H.
  - rewrite witness_read in H. discriminate.
  - rewrite witness_read in H. discriminate.
  - rewrite witness_read, witness_old_read in H. discriminate.
  - exact H.
Qed.

(* ---------- histories ---------- *)
Definition op_ok (o : op) : Prop :=
  match o with
  | OSave t d => s64_ok t /\ bytes_ok d /\ small d
  | OCrash t d ps => s64_ok t /\ bytes_ok d /\ small d /\ ps_ok ps
  | _ => True
  end.

Definition save_ok (td : Z * list N) : Prop := s64_ok (fst td) /\ bytes_ok (snd td) /\ small (snd td).

(* a session file is empty, or starts with a hole of zeros, or with the header of some earlier save *)
Definition hdr_inv (saves : list (Z * list N)) (f : list N) : Prop :=
  f = [] \/
  ((16 <= length f)%nat /\
   (firstn 16 f = repeat 0 16 \/
    exists t d, In (t, d) saves /\ save_ok (t, d) /\ firstn 16 f = header t d)).
Definition st_inv (saves : list (Z * list N)) (s : option (list N)) : Prop :=
  match s with None => True | Some f => hdr_inv saves f end.

Lemma hdr_inv_mono S S' f : (forall x, In x S -> In x S') -> hdr_inv S f -> hdr_inv S' f.
Proof.
  intros Hsub [H|[L [H|(t & d & Hi & Hok & E)]]]; [left; exact H|right; split; [exact L|left; exact H]|].
  right. split; [exact L|]. right. exists t, d. split; [apply Hsub; exact Hi|split; assumption].
Qed.

Lemma hdr_inv_old_ok S f : hdr_inv S f -> old_ok f.
Proof. intros [H|[L _]]; [left; exact H|right; exact L]. Qed.

Lemma length_save_file F t d : small d -> (16 <= length (save_file F t d))%nat.
Proof. intros Hs. rewrite save_file_shape by exact Hs. rewrite app_length, length_header. lia. Qed.

Lemma firstn16_save_file F t d : small d -> firstn 16 (save_file F t d) = header t d.
Proof. intros Hs. rewrite save_file_shape by exact Hs. apply firstn16_header. Qed.

Lemma crash_empty_or_16 new ps : ps_ok ps -> (16 <= length new)%nat ->
  crash_file [] new ps = [] \/ (16 <= length (crash_file [] new ps))%nat.
Proof.
  intros Hps Hn. destruct (ps_ok_head ps Hps) as [H0|(p & r & -> & Hp)].
  - destruct (crash_file [] new ps) as [|x l] eqn:E; [left; reflexivity|right].
    (* non-empty: some sector s >= 1 reached the disk, so the file is longer than 512 bytes; we only need 16 *)
    rewrite <- E. rewrite length_crash_file. unfold crash_len. cbn [length].
    assert (length (crash_file [] new ps) <> 0)%nat as NE by (rewrite E; discriminate).
    rewrite length_crash_file in NE. unfold crash_len in NE. cbn [length] in NE.
    assert (forall ps s nl, reach s ps nl = 0 \/ SECT * s < reach s ps nl) as R.
    { clear. induction ps as [|p r IH]; intros s nl; [left; reflexivity|].
      cbn [reach]. destruct (IH (s + 1) nl) as [A|A];
      destruct (N.ltb_spec (SECT * s) (N.min (N.min p nl) (SECT * (s + 1)))) as [L|L]; unfold SECT in *; lia. }
    destruct ps as [|p r]; [cbn [reach] in NE; lia|]. cbn [nth] in H0. subst p.
    cbn [reach] in *. unfold SECT in *.
    destruct (N.ltb_spec (512 * 0) (N.min (N.min 0 (N.of_nat (length new))) (512 * (0 + 1)))) as [L|L]; [lia|].
    destruct (R r (0 + 1) (N.of_nat (length new))) as [A|A]; unfold SECT in *; lia.
  - right. apply crash_len_new_header; assumption.
Qed.

Lemma step_inv S s o : op_ok o -> st_inv S s -> st_inv (S ++ saves_of [o]) (step s o).
Proof.
  intros Ho Hi.
  assert (forall x, In x S -> In x (S ++ saves_of [o])) as Hsub by (intros x Hx; apply in_or_app; left; exact Hx).
  destruct o as [t d|t d ps| |now|now]; cbn [step saves_of st_inv op_ok] in *.
  - destruct Ho as (Ht & Hd & Hs). right. split; [apply length_save_file; exact Hs|].
    right. exists t, d. split; [apply in_or_app; right; left; reflexivity|].
    split; [exact (conj Ht (conj Hd Hs))|apply firstn16_save_file; exact Hs].
  - destruct Ho as (Ht & Hd & Hs & Hps).
    assert (hdr_inv S (cur s)) as HF by (destruct s as [f|]; [exact Hi|left; reflexivity]).
    pose proof (length_new_image t d Hs) as Ln.
    destruct (ps_ok_head ps Hps) as [H0|(p & r & -> & Hp)].
    + destruct HF as [E|[L H]].
      * rewrite E. destruct (crash_empty_or_16 (new_image t d) ps Hps ltac:(lia)) as [A|A]; [left; exact A|].
        right. split; [exact A|]. left. apply crash_header_hole; assumption.
      * right. pose proof (length_crash_ge (cur s) (new_image t d) ps) as Lc. split; [lia|].
        rewrite crash_header_old by assumption.
        destruct H as [H|(t0 & d0 & Hin & Hok & E)]; [left; exact H|].
        right. exists t0, d0. split; [apply Hsub; exact Hin|split; assumption].
    + right. split; [apply crash_len_new_header; [exact Hp|lia]|].
      right. exists t, d. split; [apply in_or_app; right; left; reflexivity|].
      split; [exact (conj Ht (conj Hd Hs))|apply crash_header_new; assumption].
  - exact I.
  - destruct s as [f|]; [|exact I]. destruct (read_from_file now f); [|exact I].
    cbn [st_inv]. apply (hdr_inv_mono S); assumption.
  - destruct s as [f|]; [|exact I]. destruct (timestamp_ok now f); [|exact I].
    cbn [st_inv]. apply (hdr_inv_mono S); assumption.
Qed.

Lemma saves_of_cons o r : saves_of (o :: r) = saves_of [o] ++ saves_of r.
Proof. destruct o; reflexivity. Qed.

Lemma run_inv_gen ops : forall S s, Forall op_ok ops -> st_inv S s ->
  st_inv (S ++ saves_of ops) (fold_left step ops s).
Proof.
  induction ops as [|o r IH]; intros S s Hok Hi.
  - cbn [fold_left saves_of]. rewrite app_nil_r. exact Hi.
  - cbn [fold_left]. rewrite saves_of_cons, app_assoc.
    apply IH; [apply Forall_inv_tail in Hok; exact Hok|].
    apply step_inv; [apply Forall_inv in Hok; exact Hok|exact Hi].
Qed.

Lemma run_inv ops : Forall op_ok ops -> st_inv (saves_of ops) (run ops).
Proof. intros H. apply (run_inv_gen ops [] None H I). Qed.

(* at every point of every history the precondition of crash_safe holds for the next save *)
Lemma history_old_ok ops : Forall op_ok ops -> old_ok (cur (run ops)).
Proof.
  intros H. pose proof (run_inv ops H) as Hi. destruct (run ops) as [f|]; cbn [cur st_inv] in *.
  - eapply hdr_inv_old_ok. exact Hi.
  - left. reflexivity.
Qed.

(* whatever a load returns after any history carries the deadline, the length and the CRC of one of the saves *)
Lemma history_load ops now t' d' :
  Forall op_ok ops -> (0 < now)%Z ->
  read_from_file now (cur (run ops)) = Some (t', d') ->
  exists t d, In (t, d) (saves_of ops) /\ t' = t /\ (now <= t)%Z /\ length d' = length d /\ crc32 d' = crc32 d.
Proof.
  intros Hok Hnow Hr. pose proof (run_inv ops Hok) as Hi.
  destruct (run ops) as [f|]; cbn [cur st_inv] in *; [|rewrite read_short in Hr by (cbn; lia); discriminate].
  destruct Hi as [E|[L [H|(t & d & Hin & (Ht & Hd & Hs) & E)]]].
  - subst f. rewrite read_short in Hr by (cbn; lia). discriminate.
  - rewrite read_zero_header in Hr by assumption. discriminate.
  - cbn [fst snd] in *. destruct (read_spec now f t' d' Hr) as (_ & Et & Hn & El & Ec & _).
    rewrite (hdr_deadline_16 f), E, hdr_deadline_header in Et by exact Ht.
    rewrite (hdr_crc_16 f), E, hdr_crc_header in Ec by exact Hd.
    rewrite (hdr_size_16 f), E, hdr_size_header in El.
    unfold small in Hs. rewrite N.mod_small in El by (change (2 ^ 32) with 4294967296; change (2 ^ 31) with 2147483648 in Hs; lia).
    exists t, d. subst t'. repeat split; try assumption. lia.
Qed.

(* crash_safe applies to a crash after any history *)
Lemma history_crash_safe ops now t d ps :
  Forall op_ok ops -> op_ok (OCrash t d ps) -> (0 < now)%Z ->
  let F := cur (run ops) in
  let res := read_from_file now (cur (run (ops ++ [OCrash t d ps]))) in
  res = None \/ res = Some (t, d) \/ res = read_from_file now F \/ collision now F t d res.
Proof.
  intros Hok (Ht & Hd & Hs & Hps) Hnow F res. subst res.
  unfold run. rewrite fold_left_app. cbn [fold_left step cur]. fold (run ops). fold F.
  apply crash_safe; try assumption. apply history_old_ok. exact Hok.
Qed.

(* without a crash, a save followed by loads/gc that keep the file: load gives the value back while it is alive *)
Lemma history_save_load ops now t d :
  op_ok (OSave t d) ->
  read_from_file now (cur (run (ops ++ [OSave t d]))) = if (t <? now)%Z then None else Some (t, d).
Proof.
  intros (Ht & Hd & Hs). unfold run. rewrite fold_left_app. cbn [fold_left step cur].
  apply save_then_read; assumption.
Qed.

(* ---------- gc and load ---------- *)
Lemma name_eqb_eq a : forall b, name_eqb a b = true <-> a = b.
Proof.
  induction a as [|x a IH]; intros [|y b]; cbn [name_eqb]; split; intros H; try reflexivity; try discriminate.
  - apply andb_true_iff in H. destruct H as [H1 H2]. apply N.eqb_eq in H1. apply IH in H2. subst. reflexivity.
  - injection H as -> ->. rewrite N.eqb_refl. cbn [andb]. apply IH. reflexivity.
Qed.

Lemma name_eqb_refl a : name_eqb a a = true.
Proof. apply name_eqb_eq. reflexivity. Qed.

Lemma timestamp_ok_spec now f :
  timestamp_ok now f = false <-> (length f < 8)%nat \/ (hdr_deadline f < now)%Z.
Proof.
  unfold timestamp_ok. destruct (Nat.ltb_spec (length f) 8) as [L|L].
  - split; [left; exact L|reflexivity].
  - destruct (Z.ltb_spec (hdr_deadline f) now) as [D|D]; cbn [negb]; split; intros H; try reflexivity; try discriminate.
    + right. exact D.
    + destruct H; lia.
Qed.

(* a record that load accepts at time now is not removed by gc at time now *)
Lemma readable_timestamp_ok now f r : read_from_file now f = Some r -> timestamp_ok now f = true.
Proof.
  unfold read_from_file, timestamp_ok.
  destruct (Nat.ltb_spec (length f) 8); [discriminate|].
  destruct (hdr_deadline f <? now)%Z; [discriminate|reflexivity].
Qed.

Lemma gc_in now d nm f :
  In (nm, f) (gc now d) <-> In (nm, f) d /\ (valid_name nm = false \/ timestamp_ok now f = true).
Proof.
  unfold gc. rewrite filter_In. cbn [fst snd]. rewrite orb_true_iff, negb_true_iff. reflexivity.
Qed.

Lemma gc_keeps_live now d nm f r :
  lookup nm d = Some f -> read_from_file now f = Some r -> lookup nm (gc now d) = Some f.
Proof.
  intros Hl Hr. apply readable_timestamp_ok in Hr.
  induction d as [|[k f0] rest IH]; [discriminate|].
  cbn [lookup] in Hl. cbn [gc filter fst snd].
  destruct (name_eqb nm k) eqn:E.
  - injection Hl as ->. rewrite Hr, orb_true_r. cbn [lookup]. rewrite E. reflexivity.
  - destruct (negb (valid_name k) || timestamp_ok now f0); [cbn [lookup]; rewrite E|]; apply IH; exact Hl.
Qed.

Lemma gc_keeps_foreign now d nm : valid_name nm = false -> lookup nm (gc now d) = lookup nm d.
Proof.
  intros Hv. induction d as [|[k f0] rest IH]; [reflexivity|].
  cbn [gc filter fst snd lookup].
  destruct (name_eqb nm k) eqn:E.
  - apply name_eqb_eq in E. subst k. rewrite Hv. cbn [negb orb lookup]. rewrite name_eqb_refl. reflexivity.
  - destruct (negb (valid_name k) || timestamp_ok now f0); [cbn [lookup]; rewrite E|]; apply IH.
Qed.

Lemma gc_result_alive now d nm f :
  lookup nm (gc now d) = Some f -> valid_name nm = true ->
  (8 <= length f)%nat /\ (now <= hdr_deadline f)%Z.
Proof.
  intros Hl Hv.
  assert (timestamp_ok now f = true) as Hts.
  { induction d as [|[k f0] rest IH]; [discriminate|].
    cbn [gc filter fst snd] in Hl.
    destruct (negb (valid_name k) || timestamp_ok now f0) eqn:EK; [|apply IH; exact Hl].
    cbn [lookup] in Hl. destruct (name_eqb nm k) eqn:E; [|apply IH; exact Hl].
    injection Hl as ->. apply name_eqb_eq in E. subst k. rewrite Hv in EK. exact EK. }
  destruct (timestamp_ok now f) eqn:E; [|discriminate].
  destruct (Nat.lt_ge_cases (length f) 8) as [L|L].
  - assert (timestamp_ok now f = false) by (apply timestamp_ok_spec; left; exact L). congruence.
  - split; [exact L|]. destruct (Z.lt_ge_cases (hdr_deadline f) now) as [D|D]; [|exact D].
    assert (timestamp_ok now f = false) by (apply timestamp_ok_spec; right; exact D). congruence.
Qed.

Lemma lookup_remove_same nm d : lookup nm (remove nm d) = None.
Proof.
  induction d as [|[k f0] rest IH]; [reflexivity|].
  cbn [remove filter fst]. destruct (name_eqb nm k) eqn:E; cbn [negb]; [exact IH|].
  cbn [lookup]. rewrite E. exact IH.
Qed.

Lemma lookup_remove_other nm k d : name_eqb k nm = false -> lookup k (remove nm d) = lookup k d.
Proof.
  intros Hk. induction d as [|[k0 f0] rest IH]; [reflexivity|].
  cbn [remove filter fst lookup]. destruct (name_eqb nm k0) eqn:E; cbn [negb].
  - apply name_eqb_eq in E. subst k0. rewrite Hk. exact IH.
  - cbn [lookup]. destruct (name_eqb k k0); [reflexivity|exact IH].
Qed.

(* load: a file that cannot be read (or is past its deadline) is removed, a readable one and all others stay *)
Lemma load_spec now nm d :
  match load now nm d with
  | (Some r, d') => d' = d /\ exists f, lookup nm d = Some f /\ read_from_file now f = Some r
  | (None, d') => lookup nm d' = None /\ forall k, name_eqb k nm = false -> lookup k d' = lookup k d
  end.
Proof.
  unfold load. destruct (lookup nm d) as [f|] eqn:El.
  - destruct (read_from_file now f) as [r|] eqn:Er.
    + split; [reflexivity|]. exists f. split; [reflexivity|exact Er].
    + split; [apply lookup_remove_same|]. intros k Hk. apply lookup_remove_other. exact Hk.
  - split; [exact El|]. intros k Hk. reflexivity.
Qed.
