(* C18 proofs, part 6: the crash theorem without the hypothesis on the old file.
   A planted old file of 1..15 bytes is shorter than a header.  When a crashed save extends it without writing sector 0,
   the bytes between its end and the first written sector read as zero: the loader sees the header pad16 F.  So the crash
   theorem holds for EVERY old file when the old file is read zero-padded to 16 bytes. *)
From CppcmsV Require Import Base.Tac Base.Sweep C18.Defs C18.Proofs C18.Crash.
Local Open Scope N_scope.

Definition pad16 (F : list N) : list N :=
  match F with [] => [] | _ => F ++ repeat 0 (16 - length F) end.

Lemma pad16_old_ok F : old_ok (pad16 F).
Proof.
  destruct F as [|x F]; [left; reflexivity|right].
  unfold pad16. rewrite app_length, repeat_length. lia.
Qed.

Lemma pad16_id F : old_ok F -> pad16 F = F.
Proof.
  intros [->|H]; [reflexivity|]. destruct F as [|x F]; [reflexivity|].
  unfold pad16. replace (16 - length (x :: F))%nat with 0%nat by lia. cbn [repeat]. apply app_nil_r.
Qed.

Lemma pad16_short F : F <> [] -> (length F < 16)%nat -> pad16 F = F ++ repeat 0 (16 - length F) /\ length (pad16 F) = 16%nat.
Proof.
  intros NE L. destruct F as [|x F]; [congruence|]. split; [reflexivity|].
  unfold pad16. rewrite app_length, repeat_length. lia.
Qed.

Lemma nth_pad16 F j : nth j (pad16 F) 0 = nth j F 0.
Proof. destruct F as [|x F]; [reflexivity|]. unfold pad16. apply nth_app_zeros. Qed.

(* as soon as the crash state has 16 bytes it is the crash state over the zero-padded old file *)
Lemma crash_file_pad16 F new ps : (16 <= length (crash_file F new ps))%nat ->
  crash_file (pad16 F) new ps = crash_file F new ps.
Proof.
  intros L16.
  destruct (Nat.lt_ge_cases (length F) 16) as [Ls|Ls]; [|rewrite pad16_id by (right; exact Ls); reflexivity].
  destruct F as [|x F0] eqn:EF; [reflexivity|]. rewrite <- EF in *.
  assert (F <> []) as NE by (rewrite EF; discriminate).
  destruct (pad16_short F NE Ls) as [Ep Lp].
  assert (length (crash_file (pad16 F) new ps) = length (crash_file F new ps)) as HL.
  { rewrite !length_crash_file in *. unfold crash_len in *. rewrite Lp. lia. }
  apply (nth_ext _ _ 0 0 HL). intros j Hj.
  rewrite nth_crash_file by exact Hj. rewrite nth_crash_file by (rewrite <- HL; exact Hj).
  rewrite nth_pad16. reflexivity.
Qed.

Lemma crash_safe_any_old now F t d ps :
  s64_ok t -> bytes_ok d -> small d -> ps_ok ps -> (0 < now)%Z ->
  let res := read_from_file now (crash_file F (new_image t d) ps) in
  res = None \/ res = Some (t, d) \/ res = read_from_file now (pad16 F) \/ collision now (pad16 F) t d res.
Proof.
  intros Ht Hd Hs Hps Hn res. subst res.
  destruct (Nat.lt_ge_cases (length (crash_file F (new_image t d) ps)) 16) as [L|L].
  - left. apply read_short. exact L.
  - rewrite <- crash_file_pad16 by exact L.
    apply crash_safe; try assumption. apply pad16_old_ok.
Qed.

(* the zero-padded reading is not an artefact: a planted 12-byte file (deadline 5000, CRC field 0) is unreadable, but after a
   crashed save of a 600-byte value in which only sector 1 reached the disk the hole completes its header with size 0, and the
   CRC-32 of the empty string is 0: load returns an empty session with the planted deadline, which no save ever wrote *)
Definition s_F : list N := enc_s64 5000 ++ [0; 0; 0; 0].
Definition s_d : list N := repeat 65 600.
Lemma short_old_file_witness :
  (length s_F = 12%nat /\ s64_ok 6000 /\ bytes_ok s_d /\ small s_d /\ ps_ok [0; 616] /\ (0 < 100)%Z) /\
  read_from_file 100 s_F = None /\
  read_from_file 100 (crash_file s_F (new_image 6000 s_d) [0; 616]) = Some (5000%Z, []) /\
  read_from_file 100 (pad16 s_F) = Some (5000%Z, []).
Proof.
  split.
  - split; [reflexivity|]. split; [unfold s64_ok; lia|]. split; [apply bytes_okb_spec; vm_compute; reflexivity|].
    split; [unfold small; vm_compute; reflexivity|]. split; [|lia].
    constructor; [left; reflexivity|constructor; [right; lia|constructor]].
  - repeat split; vm_compute; reflexivity.
Qed.
