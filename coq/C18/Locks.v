(* C18 proofs, part 13: lock discipline.  The table g_lock_table is regenerated from the current source on every run; the
   theorems below are about THAT table, so an edit that moves an access out of its locked_file scope breaks them. *)
From Coq Require Import List Bool Arith String Lia.
Import ListNotations.
From CppcmsV Require Import C18.LockDefs gen.Gen_C18_locks.
Local Open Scope list_scope.

Definition nm_save : string := "save". Definition nm_load : string := "load".
Definition nm_remove : string := "remove". Definition nm_gc : string := "gc".

Lemma all_inits_complete f : In f all_inits.
Proof. destruct f; cbn; tauto. Qed.

(* every access to a session file, in save / load / remove / gc with their helpers inlined, is under that sid's lock *)
Lemma locks_all_under_lock : all_locked g_lock_table = true.
Proof. vm_compute. reflexivity. Qed.

Lemma all_locked_spec t : all_locked t = true ->
  forall nm l a s, In (nm, l) t -> In (a, s) l -> s <> 0.
Proof.
  unfold all_locked. intros H nm l a s Hin Ha. rewrite forallb_forall in H. specialize (H (nm, l) Hin). cbn [snd] in H.
  rewrite forallb_forall in H. specialize (H (a, s) Ha). cbn [snd] in H. apply negb_true_iff, Nat.eqb_neq in H. exact H.
Qed.

(* decide-then-act sequences (load: read record ... unlink; gc: read stamp ... unlink) are within ONE lock scope *)
Lemma locks_decide_then_act : one_scope g_lock_table = true.
Proof. vm_compute. reflexivity. Qed.

(* the open that may create the file and both writes of a save are in one scope: no other actor sees a file without header *)
Lemma locks_save_atomic : writes_one_scope (lookup_entry "save"%string g_lock_table) = true.
Proof. vm_compute. reflexivity. Qed.

Lemma locks_entries : map fst g_lock_table = ["save"; "load"; "remove"; "gc"]%string.
Proof. vm_compute. reflexivity. Qed.

(* two actors on one sid, every interleaving at the granularity the table gives: gc never unlinks a record that is live at the
   time of the unlink, and the session saved by the request is there afterwards *)
Lemma locks_race_free_b : race_free g_lock_table = true.
Proof. vm_compute. reflexivity. Qed.

Lemma locks_gc_race_free f m :
  In m (merges (gc_prog g_lock_table) (rq_prog g_lock_table)) ->
  removed_live (run_schedule m (init_st f)) = false /\ file (run_schedule m (init_st f)) = FLive.
Proof.
  intros Hm. pose proof locks_race_free_b as H. unfold race_free in H. rewrite forallb_forall in H.
  specialize (H f (all_inits_complete f)). rewrite forallb_forall in H. specialize (H m Hm).
  unfold safe in H. apply andb_true_iff in H. destruct H as [H1 H2]. apply negb_true_iff in H1.
  split; [exact H1|]. destruct (file (run_schedule m (init_st f))); try discriminate. reflexivity.
Qed.

(* every merge really is an interleaving: it contains all sections of both actors (so the quantification is not empty) *)
Lemma merges_nonempty xs ys : merges xs ys <> [].
Proof.
  unfold merges. generalize (List.length xs + List.length ys). intros n. revert xs ys.
  induction n as [|n IH]; intros xs ys; cbn [merges_aux]; [discriminate|].
  destruct xs as [|x xs]; [discriminate|]. destruct ys as [|y ys]; [discriminate|].
  intros E. apply app_eq_nil in E. destruct E as [E _]. apply map_eq_nil in E. exact (IH _ _ E).
Qed.

(* ---------- non-vacuity: tables that violate the discipline are refuted by the same model ---------- *)
Definition with_entry (nm : string) (l : list (acc * nat)) (t : list entry) : list entry :=
  map (fun e : entry => if String.eqb (fst e) nm then (nm, l) else e) t.
(* gc reads the stamp through a descriptor of its own, outside the lock, and only locks to unlink by name *)
Definition t_gc_unlocked_read : list entry :=
  with_entry "gc" [(AOpen, 0); (ASeek, 0); (ARead, 0); (AClose, 0); (AOpen, 1); (AUnlink, 1); (AClose, 1)] g_lock_table.
(* gc reads under the lock, releases it, and takes it again to unlink: every access is locked, yet the decision is stale *)
Definition t_gc_two_scopes : list entry :=
  with_entry "gc" [(AOpen, 1); (ASeek, 1); (ARead, 1); (AClose, 1); (AOpen, 2); (AUnlink, 2); (AClose, 2)] g_lock_table.
(* save writes after its locked_file is gone *)
Definition t_save_unlocked_write : list entry :=
  with_entry "save" [(AOpen, 1); (AClose, 1); (AWrite, 0); (AWrite, 0)] g_lock_table.

Lemma locks_refuted_unlocked_read :
  all_locked t_gc_unlocked_read = false /\ one_scope t_gc_unlocked_read = false /\
  exists m, In m (merges (gc_prog t_gc_unlocked_read) (rq_prog t_gc_unlocked_read)) /\
            removed_live (run_schedule m (init_st FDead)) = true /\ file (run_schedule m (init_st FDead)) = FAbsent.
Proof.
  split; [vm_compute; reflexivity|]. split; [vm_compute; reflexivity|].
  (* gc: open, seek, read (dead) | request: load section (removes the dead file), save section (live) | gc: close, locked unlink *)
  exists (firstn 3 (gc_prog t_gc_unlocked_read) ++ rq_prog t_gc_unlocked_read ++ skipn 3 (gc_prog t_gc_unlocked_read)).
  split; [vm_compute; tauto|]. split; vm_compute; reflexivity.
Qed.

Lemma locks_refuted_two_scopes :
  all_locked t_gc_two_scopes = true /\ one_scope t_gc_two_scopes = false /\ race_free t_gc_two_scopes = false.
Proof. repeat split; vm_compute; reflexivity. Qed.

Lemma locks_refuted_unlocked_write :
  all_locked t_save_unlocked_write = false /\ writes_one_scope (lookup_entry "save"%string t_save_unlocked_write) = false /\
  race_free t_save_unlocked_write = false.
Proof. repeat split; vm_compute; reflexivity. Qed.
