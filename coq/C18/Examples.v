(* C18: the non-vacuity examples of Props.v, proved here once (vm_compute on concrete files) so that Props.v itself
   stays cheap to recompile. *)
From CppcmsV Require Import Base.Tac Base.Sweep C18.Defs C18.Proofs C18.Crash C18.History C18.Sid C18.Full C18.Link C18.Burst gen.Gen_crc.
Local Open Scope N_scope.

Definition ex_ops : list op :=
  [OSave 5000 w_old; OGc 100; OCrash 6000 w_new w_ps; OLoad 100; OGc 5500; OCrash 7000 [1; 2; 3] [0; 19]].
Definition nmA : name := repeat 97 32.
Definition nmB : name := repeat 66 32.
Definition nmX : name := repeat 120 32.
Definition ex_dir : dir := save nmA 5000 w_old (save nmB 90 w_new (store nmX [1; 2; 3] [])).

Lemma ex_C18_crash_safe_nonvacuous :
  (s64_ok 6000 /\ bytes_ok w_new /\ small w_new /\ ps_ok w_ps /\ old_ok w_F /\ (0 < 100)%Z) /\
  read_from_file 100 (crash_file w_F (new_image 6000 w_new) [0]) = Some (5000%Z, w_old) /\
  read_from_file 100 (crash_file w_F (new_image 6000 w_new) [16]) = None /\
  read_from_file 100 (crash_file w_F (new_image 6000 w_new) [22]) = Some (6000%Z, w_new) /\
  read_from_file 100 (crash_file [] (new_image 6000 w_new) [0; 600]) = None /\
  collision 100 w_F 6000 w_new (read_from_file 100 (crash_file w_F (new_image 6000 w_new) w_ps)).
Proof.
  split; [exact witness_hyps|]. repeat (split; [vm_compute; reflexivity|]). exact witness_is_collision.
Qed.

Lemma ex_C18_burst_nonvacuous :
  w_new = [98] ++ [72; 69; 76; 76; 79] ++ [] /\ w_mix = [98] ++ [9; 67; 61; 151; 78] ++ [] /\ crc32 w_new = crc32 w_mix /\
  crc32 ([1] ++ [2; 3; 4; 5] ++ [6]) <> crc32 ([1] ++ [2; 3; 4; 6] ++ [6]).
Proof. repeat split; try reflexivity. vm_compute. discriminate. Qed.

Lemma ex_C18_history_nonvacuous :
  Forall op_ok ex_ops /\ read_from_file 100 (cur (run ex_ops)) = Some (6000%Z, w_mix) /\
  In (6000%Z, w_new) (saves_of ex_ops).
Proof.
  split.
  - destruct witness_hyps as (A & B & C & D & E & G).
    assert (ps_ok [0; 19]) as P2 by (constructor; [left; reflexivity|constructor; [right; lia|constructor]]).
    unfold ex_ops. repeat (apply Forall_cons; [cbn [op_ok]|]); [| | | | | |apply Forall_nil];
      repeat split; try exact I; try assumption; try (unfold s64_ok; lia);
      try (apply bytes_okb_spec; vm_compute; reflexivity); try (unfold small; vm_compute; reflexivity).
  - split; [vm_compute; reflexivity|]. cbn. right. left. reflexivity.
Qed.

Lemma ex_C18_gc_nonvacuous :
  valid_name nmA = true /\ valid_name nmB = true /\ valid_name nmX = false /\
  lookup nmA (gc 100 ex_dir) = Some w_F /\ lookup nmB ex_dir <> None /\ lookup nmB (gc 100 ex_dir) = None /\
  lookup nmX (gc 100 ex_dir) = Some [1; 2; 3] /\
  fst (load 100 nmA ex_dir) = Some (5000%Z, w_old) /\ fst (load 100 nmB ex_dir) = None.
Proof. repeat split; try (vm_compute; reflexivity). vm_compute. discriminate. Qed.

Lemma ex_C18_sid_nonvacuous :
  valid_sid (73 :: nmA) = Some nmA /\ valid_sid (73 :: nmB) = None /\ valid_sid nmA = None /\
  fst (sid_load 100 (73 :: nmA) ex_dir) = Some (5000%Z, w_old) /\ fst (sid_load 5001 (73 :: nmA) ex_dir) = None.
Proof. repeat split; vm_compute; reflexivity. Qed.

Lemma ex_C18_link_crc32_nonvacuous :
 g_crc32 [49; 50; 51; 52; 53; 54; 55; 56; 57] = 3421780262 /\ crc32 w_new = crc32 w_mix.
Proof. split; vm_compute; reflexivity. Qed.

