From CppcmsV Require Import Base.Tac C18.Defs.
Local Open Scope N_scope.
Theorem placeholder : crc32 [] = 0.
Proof. reflexivity. Qed.
Print Assumptions placeholder.
