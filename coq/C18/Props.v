(* C18: property theorems (statements only; proofs are in Proofs.v, Crash.v, History.v).
   Model: C18/Defs.v.  Hypotheses used throughout:
     s64_ok t   the deadline fits int64            bytes_ok d  payload bytes < 256
     small d    payload shorter than 2^31 bytes    ps_ok ps    per-sector progress is 0 or >= 16 (header atomic)
     old_ok F   the old file is absent/empty or has at least the 16 header bytes
     0 < now    the clock at load time is positive *)
From CppcmsV Require Import Base.Tac Base.Sweep C18.Defs C18.Proofs C18.Crash C18.History C18.Sid C18.Full C18.Link C18.Burst C18.AnyOld C18.Planted C18.Clock C18.ShortWrite C18.ShortRead C18.Transparent C18.CrcCalc C18.LockDefs C18.Locks C18.LocksGen C18.LinkSid C18.Examples gen.Gen_crc gen.Gen_C18_sid gen.Gen_C18_locks.
Local Open Scope N_scope.

(* ---- 1. crash safety: every crash state of every save over every old file ----
   load gives nothing, the new value, what the old file gave, or a CRC-32 collision, spelled out: the
   returned bytes have the deadline, length and CRC of the header they were read under (new or old),
   every byte is the new payload byte, the old file byte or a hole zero at that position, and they are
   not the value that header was written for. *)
Theorem C18_crash_safe : forall now F t d ps,
  s64_ok t -> bytes_ok d -> small d -> ps_ok ps -> old_ok F -> (0 < now)%Z ->
  let res := read_from_file now (crash_file F (new_image t d) ps) in
  res = None \/ res = Some (t, d) \/ res = read_from_file now F \/ collision now F t d res.
Proof. exact Crash.crash_safe. Qed.
Print Assumptions C18_crash_safe.

(* the four outcomes all occur (old "a.C=.N" deadline 5000, new "bHELLO" deadline 6000, clock 100) *)
Example C18_crash_safe_nonvacuous :
  (s64_ok 6000 /\ bytes_ok w_new /\ small w_new /\ ps_ok w_ps /\ old_ok w_F /\ (0 < 100)%Z) /\
  read_from_file 100 (crash_file w_F (new_image 6000 w_new) [0]) = Some (5000%Z, w_old) /\
  read_from_file 100 (crash_file w_F (new_image 6000 w_new) [16]) = None /\
  read_from_file 100 (crash_file w_F (new_image 6000 w_new) [22]) = Some (6000%Z, w_new) /\
  read_from_file 100 (crash_file [] (new_image 6000 w_new) [0; 600]) = None /\
  collision 100 w_F 6000 w_new (read_from_file 100 (crash_file w_F (new_image 6000 w_new) w_ps)).
Proof. exact ex_C18_crash_safe_nonvacuous. Qed.

(* the family named in the property text: p bytes of the write stream (0, 16 = header call, byte prefix of the data call,
   total = both calls) x any subset of sectors having reached the disk *)
Theorem C18_crash_safe_property_family : forall now F t d p mask,
  s64_ok t -> bytes_ok d -> small d -> p = 0 \/ 16 <= p -> old_ok F -> (0 < now)%Z ->
  let res := read_from_file now (crash_file F (new_image t d) (uniform_ps p mask)) in
  res = None \/ res = Some (t, d) \/ res = read_from_file now F \/ collision now F t d res.
Proof. exact crash_safe_family. Qed.
Print Assumptions C18_crash_safe_property_family.

(* ---- 1b. the same for EVERY old file (no hypothesis on F: planted garbage of 1..15 bytes included), when the old file is read
   zero-padded to the 16 header bytes: the bytes between the end of a short old file and the first sector that reached the disk
   are a hole.  pad16 F = F for the files of theorem 1. ---- *)
Theorem C18_crash_safe_any_old : forall now F t d ps,
  s64_ok t -> bytes_ok d -> small d -> ps_ok ps -> (0 < now)%Z ->
  let res := read_from_file now (crash_file F (new_image t d) ps) in
  res = None \/ res = Some (t, d) \/ res = read_from_file now (pad16 F) \/ collision now (pad16 F) t d res.
Proof. exact crash_safe_any_old. Qed.
Print Assumptions C18_crash_safe_any_old.

Theorem C18_pad16_id : forall F, old_ok F -> pad16 F = F.
Proof. exact pad16_id. Qed.
Print Assumptions C18_pad16_id.

(* the third disjunct is not harmless for a short old file (KNOWN FINDING short-garbage-header-completed-by-hole, replayed on the
   real storage): a planted 12-byte file (deadline 5000, CRC field 0) is unreadable, but after a crashed save of a 600-byte value
   of which only sector 1 reached the disk, load returns an EMPTY session with deadline 5000, which no save ever wrote *)
Theorem C18_short_old_file_witness :
  (length s_F = 12%nat /\ s64_ok 6000 /\ bytes_ok s_d /\ small s_d /\ ps_ok [0; 616] /\ (0 < 100)%Z) /\
  read_from_file 100 s_F = None /\
  read_from_file 100 (crash_file s_F (new_image 6000 s_d) [0; 616]) = Some (5000%Z, []) /\
  read_from_file 100 (pad16 s_F) = Some (5000%Z, []).
Proof. exact short_old_file_witness. Qed.
Print Assumptions C18_short_old_file_witness.

Theorem C18_crash_nothing_written : forall F new, crash_file F new [] = F.
Proof. exact crash_none_is_old. Qed.
Print Assumptions C18_crash_nothing_written.

(* the crash model contains the completed save: every sector written with the whole stream *)
Theorem C18_crash_full_is_save : forall F t d ps,
  Forall (fun p => N.of_nat (length (new_image t d)) <= p) ps ->
  N.of_nat (length (new_image t d)) <= SECT * N.of_nat (length ps) ->
  crash_file F (new_image t d) ps = save_file F t d.
Proof. exact crash_full_is_save. Qed.
Print Assumptions C18_crash_full_is_save.

(* ---- 2. the unconditional statement is false: CRC-32 collision witness (KNOWN FINDING) ---- *)
Theorem C18_crash_collision_witness :
  exists F t d ps now,
    s64_ok t /\ bytes_ok d /\ small d /\ ps_ok ps /\ old_ok F /\ (0 < now)%Z /\
    exists d', read_from_file now (crash_file F (new_image t d) ps) = Some (t, d') /\
               d' <> d /\ read_from_file now F <> Some (t, d') /\
               (forall t0, read_from_file now F <> Some (t0, d')) /\
               length d' = length d /\ crc32 d' = crc32 d.
Proof. exact crash_collision_witness. Qed.
Print Assumptions C18_crash_collision_witness.

Theorem C18_crash_safe_unconditional_refuted :
  exists F t d ps now,
    s64_ok t /\ bytes_ok d /\ small d /\ ps_ok ps /\ old_ok F /\ (0 < now)%Z /\
    let res := read_from_file now (crash_file F (new_image t d) ps) in
    ~ (res = None \/ res = Some (t, d) \/ res = read_from_file now F).
Proof. exact crash_safe_unconditional_refuted. Qed.
Print Assumptions C18_crash_safe_unconditional_refuted.

(* ---- 2b. what the 32-bit CRC does guarantee: payloads of equal length that differ only inside a window of at most
   4 consecutive bytes never share a CRC-32, so a torn state that differs from the new value only there is rejected ---- *)
Theorem C18_crc32_burst_detected : forall pre x y suf,
  bytes_ok pre -> bytes_ok x -> bytes_ok y -> bytes_ok suf ->
  length x = length y -> (length x <= 4)%nat ->
  crc32 (pre ++ x ++ suf) = crc32 (pre ++ y ++ suf) -> x = y.
Proof. exact crc32_burst_detected. Qed.
Print Assumptions C18_crc32_burst_detected.

Theorem C18_torn_window_detected : forall now F t d p r t' d' pre x y suf,
  s64_ok t -> bytes_ok d -> small d -> 16 <= p ->
  read_from_file now (crash_file F (new_image t d) (p :: r)) = Some (t', d') ->
  d = pre ++ y ++ suf -> d' = pre ++ x ++ suf -> bytes_ok x -> length x = length y -> (length x <= 4)%nat ->
  d' = d.
Proof. exact torn_window_detected. Qed.
Print Assumptions C18_torn_window_detected.

(* the bound is sharp: the witness differs from the new value in 5 consecutive bytes *)
Example C18_burst_nonvacuous :
  w_new = [98] ++ [72; 69; 76; 76; 79] ++ [] /\ w_mix = [98] ++ [9; 67; 61; 151; 78] ++ [] /\ crc32 w_new = crc32 w_mix /\
  crc32 ([1] ++ [2; 3; 4; 5] ++ [6]) <> crc32 ([1] ++ [2; 3; 4; 6] ++ [6]).
Proof. exact ex_C18_burst_nonvacuous. Qed.

(* ---- 2c. the checksum: the class crc32_calc (value_ = 0; process_bytes; checksum), fed in ANY number of pieces of ANY sizes,
   computes the CRC-32 of the WHOLE input; the CRC-32 depends on every single byte wherever it lies (no block boundary beyond which
   bytes are ignored); the header a save writes carries the CRC of the whole value and what the loader compares with the header
   field is the CRC of the whole data area, for every length ---- *)
Theorem C18_crc32_calc_whole : forall chunks, crc32_calc chunks = crc32 (concat chunks).
Proof. exact crc32_calc_whole. Qed.
Print Assumptions C18_crc32_calc_whole.

Theorem C18_crc32_every_byte : forall pre a b suf,
  bytes_ok pre -> a < 256 -> b < 256 -> bytes_ok suf ->
  crc32 (pre ++ [a] ++ suf) = crc32 (pre ++ [b] ++ suf) -> a = b.
Proof. exact crc32_every_byte. Qed.
Print Assumptions C18_crc32_every_byte.

Theorem C18_header_crc_whole : forall t d chunks, bytes_ok d -> concat chunks = d -> hdr_crc (header t d) = crc32_calc chunks.
Proof. exact header_crc_whole. Qed.
Print Assumptions C18_header_crc_whole.

Theorem C18_loader_crc_whole_area : forall now f t' d', read_from_file now f = Some (t', d') -> hdr_size f < 2 ^ 31 ->
  d' = firstn (N.to_nat (hdr_size f)) (skipn 16 f) /\ length d' = N.to_nat (hdr_size f) /\
  hdr_crc f = crc32_calc [firstn (N.to_nat (hdr_size f)) (skipn 16 f)].
Proof. exact loader_crc_whole_area. Qed.
Print Assumptions C18_loader_crc_whole_area.

Theorem C18_loader_accepts_iff : forall now f,
  (16 <= length f)%nat -> (now <= hdr_deadline f)%Z -> size_fits f = true -> hdr_size f < 2 ^ 31 ->
  let area := firstn (N.to_nat (hdr_size f)) (skipn 16 f) in
  read_from_file now f = if crc32_calc [area] =? hdr_crc f then Some (hdr_deadline f, area) else None.
Proof. exact loader_accepts_iff. Qed.
Print Assumptions C18_loader_accepts_iff.

Example C18_crc_calc_nonvacuous :
  crc32_calc [[49; 50; 51]; []; [52; 53; 54; 55]; [56; 57]] = 3421780262 /\ crc32_calc [] = 0 /\
  crc32 ([1; 2] ++ [3] ++ [4]) <> crc32 ([1; 2] ++ [5] ++ [4]).
Proof. exact crc_calc_nonvacuous. Qed.

(* ---- 3. what load returns has the length of the header and fits into the file (for every value of the size field: the
   size field is compared with the file length before anything is allocated or read); below 2 GiB it is cut from the file ---- *)
Theorem C18_read_in_bounds : forall now f t' d', read_from_file now f = Some (t', d') ->
  (16 <= length f)%nat /\ N.of_nat (length d') = hdr_size f /\ crc32 d' = hdr_crc f /\ (now <= t')%Z /\
  (16 + length d' <= length f)%nat /\
  (hdr_size f < 2 ^ 31 -> d' = firstn (length d') (skipn 16 f)).
Proof. exact read_in_bounds. Qed.
Print Assumptions C18_read_in_bounds.

(* a record whose size field exceeds what the file holds behind the header is refused, whatever else it contains *)
Theorem C18_read_unfit : forall now f, size_fits f = false -> read_from_file now f = None.
Proof. exact read_unfit. Qed.
Print Assumptions C18_read_unfit.

Theorem C18_size_fits_spec : forall f, size_fits f = true <-> (16 <= length f)%nat /\ hdr_size f <= N.of_nat (length f - 16).
Proof. exact size_fits_spec. Qed.
Print Assumptions C18_size_fits_spec.

(* ---- 4. no crash: save then load returns the value while it is alive, over any old file ---- *)
Theorem C18_save_then_load : forall now F t d,
  s64_ok t -> bytes_ok d -> small d ->
  read_from_file now (save_file F t d) = if (t <? now)%Z then None else Some (t, d).
Proof. exact save_then_read. Qed.
Print Assumptions C18_save_then_load.

(* ---- 4b. write_all / read_all with short transfers (the j-th write() / data read() call transfers at most acc_j bytes).  The loops
   advance their buffer pointer (repaired in /repo 74c63d5: defects short-write-corrupt-record, short-read-live-session-removed), so
   for EVERY cut pattern a save made of short writes stores exactly the record of the completed save, and a load over short reads
   returns exactly what the plain load returns ---- *)
Theorem C18_short_image_eq : forall t d acc, short_image t d acc = new_image t d.
Proof. exact short_image_eq. Qed.
Print Assumptions C18_short_image_eq.

Theorem C18_save_short_eq : forall nm t data acc d, save_short nm t data acc d = save nm t data d.
Proof. exact save_short_eq. Qed.
Print Assumptions C18_save_short_eq.

Theorem C18_short_save_then_load : forall now F t d acc,
  s64_ok t -> bytes_ok d -> small d ->
  read_from_file now (save_file_short F t d acc) = if (t <? now)%Z then None else Some (t, d).
Proof. exact short_save_then_load. Qed.
Print Assumptions C18_short_save_then_load.

Theorem C18_read_short_eq : forall now f acc, read_from_file_short now f acc = read_from_file now f.
Proof. exact read_from_file_short_eq. Qed.
Print Assumptions C18_read_short_eq.

Theorem C18_load_short_eq : forall now nm acc d, load_short now nm acc d = load now nm d.
Proof. exact load_short_eq. Qed.
Print Assumptions C18_load_short_eq.

(* regression Examples (the old witnesses, corpus/C18/regress.case): with the loops as they were (save_file_stuck, read_from_file_gen
   false) the empty value came back with deadline 3000 + 3000 * 2^32, "hi" was stored as "hh" and lost, and the live record of "hi"
   failed the CRC test after a short read; with the loops as they are all three come back exactly.  The cut pattern is not vacuous:
   the save really is made of 4 write() calls *)
Example C18_short_write_regression :
  read_from_file 1000 (save_file_stuck [] 3000 [] [4%nat]) = Some (12884901891000%Z, []) /\
  read_from_file 1000 (save_file_short [] 3000 [] [4%nat]) = Some (3000%Z, []) /\
  read_from_file 1000 (save_file_stuck [] 3000 [104; 105] [0%nat; 1%nat]) = None /\
  read_from_file 1000 (save_file_short [] 3000 [104; 105] [0%nat; 1%nat]) = Some (3000%Z, [104; 105]) /\
  short_chunks 3000 [104; 105] [7%nat; 0%nat; 1%nat] <> short_chunks 3000 [104; 105] [] /\
  length (short_chunks 3000 [104; 105] [7%nat; 0%nat; 1%nat]) = 4%nat.
Proof. exact short_write_regression. Qed.

Example C18_short_read_regression :
  read_from_file 1000 r_f = Some (3000%Z, [104; 105]) /\
  read_from_file_gen false 1000 r_f [1%nat] = None /\
  read_from_file_short 1000 r_f [1%nat] = Some (3000%Z, [104; 105]) /\
  load_short 1000 (repeat 97 32) [1%nat] [(repeat 97 32, r_f)] = (Some (3000%Z, [104; 105]), [(repeat 97 32, r_f)]).
Proof. exact short_read_regression. Qed.

(* ---- 5. histories: any sequence of saves, crashed saves, removes, loads and gc runs ---- *)
Theorem C18_history_load : forall ops now t' d',
  Forall op_ok ops -> (0 < now)%Z ->
  read_from_file now (cur (run ops)) = Some (t', d') ->
  exists t d, In (t, d) (saves_of ops) /\ t' = t /\ (now <= t)%Z /\ length d' = length d /\ crc32 d' = crc32 d.
Proof. exact history_load. Qed.
Print Assumptions C18_history_load.

Theorem C18_history_old_ok : forall ops, Forall op_ok ops -> old_ok (cur (run ops)).
Proof. exact history_old_ok. Qed.
Print Assumptions C18_history_old_ok.

Theorem C18_history_crash_safe : forall ops now t d ps,
  Forall op_ok ops -> op_ok (OCrash t d ps) -> (0 < now)%Z ->
  let F := cur (run ops) in
  let res := read_from_file now (cur (run (ops ++ [OCrash t d ps]))) in
  res = None \/ res = Some (t, d) \/ res = read_from_file now F \/ collision now F t d res.
Proof. exact history_crash_safe. Qed.
Print Assumptions C18_history_crash_safe.

Theorem C18_history_save_load : forall ops now t d,
  op_ok (OSave t d) ->
  read_from_file now (cur (run (ops ++ [OSave t d]))) = if (t <? now)%Z then None else Some (t, d).
Proof. exact history_save_load. Qed.
Print Assumptions C18_history_save_load.

Example C18_history_nonvacuous :
  Forall op_ok ex_ops /\ read_from_file 100 (cur (run ex_ops)) = Some (6000%Z, w_mix) /\
  In (6000%Z, w_new) (saves_of ex_ops).
Proof. exact ex_C18_history_nonvacuous. Qed.

(* ---- 5b. histories that start from an ARBITRARY planted file G (garbage with a well-formed name), gc at any point:
   whatever is returned carries the deadline, length and CRC of a save of the history or the three header fields of the planted
   file read zero-padded; and the crash theorem applies at every point (it has no hypothesis on the old file) ---- *)
Theorem C18_history_load_from : forall G ops now t' d',
  Forall op_ok ops -> (0 < now)%Z ->
  read_from_file now (cur (run_from (Some G) ops)) = Some (t', d') ->
  (exists t d, In (t, d) (saves_of ops) /\ t' = t /\ (now <= t)%Z /\ length d' = length d /\ crc32 d' = crc32 d) \/
  (t' = hdr_deadline (pad16 G) /\ (now <= t')%Z /\ N.of_nat (length d') = hdr_size (pad16 G) /\ crc32 d' = hdr_crc (pad16 G)).
Proof. exact history_load_from. Qed.
Print Assumptions C18_history_load_from.

Theorem C18_history_crash_safe_from : forall G ops now t d ps,
  op_ok (OCrash t d ps) -> (0 < now)%Z ->
  let F := cur (run_from (Some G) ops) in
  let res := read_from_file now (cur (run_from (Some G) (ops ++ [OCrash t d ps]))) in
  res = None \/ res = Some (t, d) \/ res = read_from_file now (pad16 F) \/ collision now (pad16 F) t d res.
Proof. exact history_crash_safe_from. Qed.
Print Assumptions C18_history_crash_safe_from.

Example C18_planted_nonvacuous :
  Forall op_ok pl_ops /\ read_from_file 100 (cur (run_from (Some s_F) pl_ops)) = Some (5000%Z, []) /\
  hdr_deadline (pad16 s_F) = 5000%Z /\ hdr_size (pad16 s_F) = 0 /\ hdr_crc (pad16 s_F) = crc32 [] /\
  run_from (Some s_F) [OLoad 100] = None.
Proof. exact planted_nonvacuous. Qed.

(* ---- 5c. histories that also contain saves made of short writes and loads over short reads (xop, any cut patterns), from no
   file or from an arbitrary planted file: both are transparent, so the history theorems carry over by erasing the cut patterns ---- *)
Theorem C18_xrun_erase : forall xs s0, xrun_from s0 xs = run_from s0 (map erase xs).
Proof. exact xrun_erase. Qed.
Print Assumptions C18_xrun_erase.

Theorem C18_xhistory_load : forall xs now t' d',
  Forall xop_ok xs -> (0 < now)%Z ->
  read_from_file now (cur (xrun_from None xs)) = Some (t', d') ->
  exists t d, In (t, d) (saves_of (map erase xs)) /\ t' = t /\ (now <= t)%Z /\ length d' = length d /\ crc32 d' = crc32 d.
Proof. exact xhistory_load. Qed.
Print Assumptions C18_xhistory_load.

Theorem C18_xhistory_load_from : forall G xs now t' d',
  Forall xop_ok xs -> (0 < now)%Z ->
  read_from_file now (cur (xrun_from (Some G) xs)) = Some (t', d') ->
  (exists t d, In (t, d) (saves_of (map erase xs)) /\ t' = t /\ (now <= t)%Z /\ length d' = length d /\ crc32 d' = crc32 d) \/
  (t' = hdr_deadline (pad16 G) /\ (now <= t')%Z /\ N.of_nat (length d') = hdr_size (pad16 G) /\ crc32 d' = hdr_crc (pad16 G)).
Proof. exact xhistory_load_from. Qed.
Print Assumptions C18_xhistory_load_from.

Theorem C18_xhistory_crash_safe : forall s0 xs now t d ps,
  op_ok (OCrash t d ps) -> (0 < now)%Z ->
  let F := cur (xrun_from s0 xs) in
  let res := read_from_file now (cur (xrun_from s0 (xs ++ [XOp (OCrash t d ps)]))) in
  res = None \/ res = Some (t, d) \/ res = read_from_file now (pad16 F) \/ collision now (pad16 F) t d res.
Proof. exact xhistory_crash_safe. Qed.
Print Assumptions C18_xhistory_crash_safe.

Theorem C18_xhistory_save_load : forall s0 xs now t d acc racc,
  s64_ok t -> bytes_ok d -> small d ->
  read_from_file_short now (cur (xrun_from s0 (xs ++ [XSaveShort t d acc]))) racc = if (t <? now)%Z then None else Some (t, d).
Proof. exact xhistory_save_load. Qed.
Print Assumptions C18_xhistory_save_load.

Example C18_xhistory_nonvacuous :
  Forall xop_ok x_ops /\ read_from_file 100 (cur (xrun_from None x_ops)) = Some (6000%Z, w_mix) /\
  In (6000%Z, w_new) (saves_of (map erase x_ops)) /\
  xrun_from None [XSaveShort 5000 w_old [3%nat; 5%nat; 0%nat; 2%nat]; XLoadShort 100 [1%nat; 1%nat]] = Some w_F.
Proof. exact xhistory_nonvacuous. Qed.

(* ---- 6. gc and load on a directory ---- *)
Theorem C18_gc_exact : forall now d nm f,
  In (nm, f) (gc now d) <-> In (nm, f) d /\ (valid_name nm = false \/ timestamp_ok now f = true).
Proof. exact gc_in. Qed.
Print Assumptions C18_gc_exact.

Theorem C18_timestamp_ok_spec : forall now f,
  timestamp_ok now f = false <-> (length f < 8)%nat \/ (hdr_deadline f < now)%Z.
Proof. exact timestamp_ok_spec. Qed.
Print Assumptions C18_timestamp_ok_spec.

Theorem C18_gc_keeps_live : forall now d nm f r,
  lookup nm d = Some f -> read_from_file now f = Some r -> lookup nm (gc now d) = Some f.
Proof. exact gc_keeps_live. Qed.
Print Assumptions C18_gc_keeps_live.

Theorem C18_gc_keeps_foreign : forall now d nm, valid_name nm = false -> lookup nm (gc now d) = lookup nm d.
Proof. exact gc_keeps_foreign. Qed.
Print Assumptions C18_gc_keeps_foreign.

Theorem C18_gc_result_alive : forall now d nm f,
  lookup nm (gc now d) = Some f -> valid_name nm = true -> (8 <= length f)%nat /\ (now <= hdr_deadline f)%Z.
Proof. exact gc_result_alive. Qed.
Print Assumptions C18_gc_result_alive.

Theorem C18_load_spec : forall now nm d,
  match load now nm d with
  | (Some r, d') => d' = d /\ exists f, lookup nm d = Some f /\ read_from_file now f = Some r
  | (None, d') => lookup nm d' = None /\ forall k, name_eqb k nm = false -> lookup k d' = lookup k d
  end.
Proof. exact load_spec. Qed.
Print Assumptions C18_load_spec.

(* ---- 6a. the clock only moves forward: a gc run or a load at ANY earlier point never takes away a session that a later load
   would have returned (one file and directory form) ---- *)
Theorem C18_read_clock_mono : forall now now' f r,
  read_from_file now f = Some r -> (now' <= now)%Z -> read_from_file now' f = Some r.
Proof. exact read_clock_mono. Qed.
Print Assumptions C18_read_clock_mono.

Theorem C18_gc_transparent : forall s now now', (now' <= now)%Z ->
  read_from_file now (cur (step s (OGc now'))) = read_from_file now (cur s).
Proof. exact gc_transparent. Qed.
Print Assumptions C18_gc_transparent.

Theorem C18_load_transparent : forall s now now', (now' <= now)%Z ->
  read_from_file now (cur (step s (OLoad now'))) = read_from_file now (cur s).
Proof. exact load_transparent. Qed.
Print Assumptions C18_load_transparent.

Theorem C18_gc_keeps_later : forall now now' d nm f r,
  lookup nm d = Some f -> read_from_file now f = Some r -> (now' <= now)%Z -> lookup nm (gc now' d) = Some f.
Proof. exact gc_keeps_later. Qed.
Print Assumptions C18_gc_keeps_later.

Theorem C18_load_keeps_later : forall now now' d nm k f r,
  lookup k d = Some f -> read_from_file now f = Some r -> (now' <= now)%Z -> lookup k (snd (load now' nm d)) = Some f.
Proof. exact load_keeps_later. Qed.
Print Assumptions C18_load_keeps_later.

Example C18_gc_nonvacuous :
  valid_name nmA = true /\ valid_name nmB = true /\ valid_name nmX = false /\
  lookup nmA (gc 100 ex_dir) = Some w_F /\ lookup nmB ex_dir <> None /\ lookup nmB (gc 100 ex_dir) = None /\
  lookup nmX (gc 100 ex_dir) = Some [1; 2; 3] /\
  fst (load 100 nmA ex_dir) = Some (5000%Z, w_old) /\ fst (load 100 nmB ex_dir) = None.
Proof. exact ex_C18_gc_nonvacuous. Qed.

Example C18_clock_nonvacuous :
  lookup nmA (gc 100 ex_dir) = Some w_F /\ read_from_file 5000 w_F = Some (5000%Z, w_old) /\ read_from_file 5001 w_F = None /\
  lookup nmA (gc 5001 ex_dir) = None.
Proof. repeat split; vm_compute; reflexivity. Qed.

(* ---- 6b. session_sid in front of the storage ---- *)
Theorem C18_valid_sid_name : forall cookie id, valid_sid cookie = Some id ->
  cookie = 73 :: id /\ valid_name id = true /\ length id = 32%nat.
Proof. exact valid_sid_name. Qed.
Print Assumptions C18_valid_sid_name.

Theorem C18_sid_load_eq : forall now cookie d,
  sid_load now cookie d = match valid_sid cookie with None => (None, d) | Some id => load now id d end.
Proof. exact sid_load_eq. Qed.
Print Assumptions C18_sid_load_eq.

Theorem C18_sid_load_spec : forall now cookie d r d', sid_load now cookie d = (Some r, d') ->
  exists id f, valid_sid cookie = Some id /\ valid_name id = true /\ lookup id d = Some f /\
               read_from_file now f = Some r /\ d' = d.
Proof. exact sid_load_spec. Qed.
Print Assumptions C18_sid_load_spec.

Example C18_sid_nonvacuous :
  valid_sid (73 :: nmA) = Some nmA /\ valid_sid (73 :: nmB) = None /\ valid_sid nmA = None /\
  fst (sid_load 100 (73 :: nmA) ex_dir) = Some (5000%Z, w_old) /\ fst (sid_load 5001 (73 :: nmA) ex_dir) = None.
Proof. exact ex_C18_sid_nonvacuous. Qed.

(* ---- 6c. the buffer allocated from the size field (defect garbage-size-field-bad-alloc, repaired in /repo c47a865:
   the size field is compared with fstat().st_size - 16 before std::vector<char> buffer(size,0)) ---- *)
(* for EVERY file, garbage included, the loader never asks for more memory than the file holds behind its header *)
Theorem C18_alloc_le_file : forall now f, alloc_size now f <= N.of_nat (length f - 16).
Proof. exact alloc_le_file. Qed.
Print Assumptions C18_alloc_le_file.

(* when load returns a value the buffer was exactly as long as that value *)
Theorem C18_alloc_exact : forall now f t' d', read_from_file now f = Some (t', d') -> alloc_size now f = N.of_nat (length d').
Proof. exact alloc_exact. Qed.
Print Assumptions C18_alloc_exact.

(* hence load under a memory limit is the plain load (value, or no session and the file removed) as soon as the limit
   covers the file itself; it throws only for a file longer than the memory available *)
Theorem C18_load_limited_file_enough : forall limit now nm d f,
  lookup nm d = Some f -> N.of_nat (length f - 16) <= limit ->
  load_limited limit now nm d =
    match load now nm d with (Some (t, x), d') => (LSome t x, d') | (None, d') => (LNone, d') end.
Proof. exact load_limited_file_enough. Qed.
Print Assumptions C18_load_limited_file_enough.

Theorem C18_load_limited_exc : forall limit now nm d d',
  load_limited limit now nm d = (LExc, d') -> exists f, lookup nm d = Some f /\ limit + 16 < N.of_nat (length f) /\ d' = d.
Proof. exact load_limited_exc. Qed.
Print Assumptions C18_load_limited_exc.

(* after any history of saves and crashed saves the request is 0 or the length of a saved payload *)
Theorem C18_history_alloc_ok : forall ops limit now,
  Forall op_ok ops -> (forall t d, In (t, d) (saves_of ops) -> N.of_nat (length d) <= limit) ->
  alloc_fails limit now (cur (run ops)) = false.
Proof. exact history_alloc_ok. Qed.
Print Assumptions C18_history_alloc_ok.

(* regression Example (the old counterexample, corpus/C18/regress.case): the planted 19-byte file with a 2 GiB size field.  The
   unchecked reader asked for 2 GiB; now nothing is requested, load answers no session and removes the file under any limit *)
Example C18_garbage_alloc_regression :
  length g_file = 19%nat /\ timestamp_ok 1000 g_file = true /\
  alloc_size_unchecked 1000 g_file = 2147483632 /\ alloc_size 1000 g_file = 0 /\
  forall limit nm, load_limited limit 1000 nm [(nm, g_file)] = (LNone, []).
Proof. exact garbage_alloc_regression. Qed.

(* non-vacuity: a record followed by trailing bytes is still accepted (the test is against the file length), the buffer is
   its 3 bytes; cut 1 byte short it is refused without allocation where the unchecked reader allocated first *)
Example C18_alloc_nonvacuous :
  length g_ok = 21%nat /\ read_from_file 1000 g_ok = Some (5000%Z, [97; 98; 99]) /\ alloc_size 1000 g_ok = 3 /\
  read_from_file 1000 (firstn 18 g_ok) = None /\ alloc_size 1000 (firstn 18 g_ok) = 0 /\
  alloc_size_unchecked 1000 (firstn 18 g_ok) = 3.
Proof. exact trailing_bytes_accepted. Qed.

(* ---- 7. tie: the CRC table found in private/crc32.h is the table of the bit model, and the
   byte-at-a-time loop of Crc32_ComputeBuf over it computes the model's crc32 ---- *)
Theorem C18_link_crc_table : forall i, i < 256 -> nth (N.to_nat i) g_crc_table 0%Z = Z.of_N (crc_table_entry i).
Proof. exact link_crc_table. Qed.
Print Assumptions C18_link_crc_table.

Theorem C18_crc_table_form : forall s b, b < 256 -> crc_byte_tab s b = crc_byte s b.
Proof. exact crc_byte_tab_eq. Qed.
Print Assumptions C18_crc_table_form.

Theorem C18_link_crc32 : forall l, bytes_ok l -> g_crc32 l = crc32 l.
Proof. exact link_crc32. Qed.
Print Assumptions C18_link_crc32.

Example C18_link_crc32_nonvacuous :
 g_crc32 [49; 50; 51; 52; 53; 54; 55; 56; 57] = 3421780262 /\ crc32 w_new = crc32 w_mix.
Proof. exact ex_C18_link_crc32_nonvacuous. Qed.

(* ---- 7b. tie: the per-character test of session_sid::valid_sid found in src/session_sid.cpp is the model's test on every byte
   (signed char included), and valid_sid over the generated test accepts exactly the cookies the model accepts ---- *)
Theorem C18_link_low_xdigit : forall b, b < 256 -> g_c18_low_x_digit (Z.of_N b) = is_low_xdigit b.
Proof. exact link_low_xdigit. Qed.
Print Assumptions C18_link_low_xdigit.

Theorem C18_link_valid_sid : forall cookie, bytes_ok cookie -> valid_sid_gen cookie = valid_sid cookie.
Proof. exact link_valid_sid. Qed.
Print Assumptions C18_link_valid_sid.

Example C18_link_sid_nonvacuous :
  g_c18_low_x_digit 102 = true /\ g_c18_low_x_digit 103 = false /\ g_c18_low_x_digit 70 = false /\ g_c18_low_x_digit 225 = false /\
  valid_sid_gen (73 :: nmA) = Some nmA.
Proof. repeat split; vm_compute; reflexivity. Qed.

(* ---- 8. lock discipline.  g_lock_table is regenerated on every run from src/session_posix_file_storage.cpp: for save / load /
   remove / gc (helpers inlined) every system call on the session file with the number of the locked_file object inside whose
   lifetime it is made (0 = outside).  locked_file takes the per-sid mutex (and the fcntl lock) before its open and releases after its
   close (its text is tied by hash).  Moving an access out of its scope breaks these theorems before any run finds the race ---- *)
Theorem C18_locks_all_under_lock : all_locked g_lock_table = true.
Proof. exact locks_all_under_lock. Qed.
Print Assumptions C18_locks_all_under_lock.

Theorem C18_locks_all_under_lock_spec : forall nm l a s, In (nm, l) g_lock_table -> In (a, s) l -> s <> 0%nat.
Proof. exact (all_locked_spec g_lock_table locks_all_under_lock). Qed.
Print Assumptions C18_locks_all_under_lock_spec.

Theorem C18_locks_decide_then_act : one_scope g_lock_table = true.
Proof. exact locks_decide_then_act. Qed.
Print Assumptions C18_locks_decide_then_act.

Theorem C18_locks_save_atomic : writes_one_scope (lookup_entry nm_save g_lock_table) = true.
Proof. exact locks_save_atomic. Qed.
Print Assumptions C18_locks_save_atomic.

(* two actors on one sid - gc, and a request that loads and then saves a live record - in EVERY interleaving at the granularity the
   table gives, from every file state (absent / created without header / stamp past / stamp not past): gc never unlinks a record
   that is live at the time of the unlink, and the saved session is there afterwards *)
Theorem C18_locks_gc_race_free : forall f m,
  In m (merges (gc_prog g_lock_table) (rq_prog g_lock_table)) ->
  removed_live (run_schedule m (init_st f)) = false /\ file (run_schedule m (init_st f)) = FLive.
Proof. exact locks_gc_race_free. Qed.
Print Assumptions C18_locks_gc_race_free.

(* the argument in general, for ANY table: if gc's accesses form one atomic section and load's accesses form one atomic section (which is
   the case when all of them lie in one non-zero lock scope), nobody unlinks a record that is live at the time of the unlink, in every
   interleaving from every state - whatever the sections contain *)
Theorem C18_locks_one_section_race_free : forall (t : list entry) (f : fstate) m,
  (List.length (sections (lookup_entry nm_gc t)) <= 1)%nat ->
  (List.length (sections (lookup_entry nm_load t)) <= 1)%nat ->
  In m (merges (gc_prog t) (rq_prog t)) ->
  removed_live (run_schedule m (init_st f)) = false.
Proof. exact one_section_race_free. Qed.
Print Assumptions C18_locks_one_section_race_free.

Theorem C18_locks_same_scope_one_section : forall s l, s <> 0%nat ->
  Forall (fun an : acc * nat => snd an = s) l -> (List.length (sections l) <= 1)%nat.
Proof. exact same_scope_one_section. Qed.
Print Assumptions C18_locks_same_scope_one_section.

(* non-vacuity: the same model refutes tables that break the discipline - the stamp read outside the lock (the seeded change), the read
   and the unlink under two separate lock scopes (every access locked, decision stale), and a save that writes outside its lock scope *)
Theorem C18_locks_refuted_unlocked_read :
  all_locked t_gc_unlocked_read = false /\ one_scope t_gc_unlocked_read = false /\
  exists m, In m (merges (gc_prog t_gc_unlocked_read) (rq_prog t_gc_unlocked_read)) /\
            removed_live (run_schedule m (init_st FDead)) = true /\ file (run_schedule m (init_st FDead)) = FAbsent.
Proof. exact locks_refuted_unlocked_read. Qed.
Print Assumptions C18_locks_refuted_unlocked_read.

Theorem C18_locks_refuted_two_scopes :
  all_locked t_gc_two_scopes = true /\ one_scope t_gc_two_scopes = false /\ race_free t_gc_two_scopes = false.
Proof. exact locks_refuted_two_scopes. Qed.
Print Assumptions C18_locks_refuted_two_scopes.

Theorem C18_locks_refuted_unlocked_write :
  all_locked t_save_unlocked_write = false /\ writes_one_scope (lookup_entry nm_save t_save_unlocked_write) = false /\
  race_free t_save_unlocked_write = false.
Proof. exact locks_refuted_unlocked_write. Qed.
Print Assumptions C18_locks_refuted_unlocked_write.

Example C18_locks_nonvacuous :
  map fst g_lock_table = [nm_save; nm_load; nm_remove; nm_gc] /\
  length (merges (gc_prog g_lock_table) (rq_prog g_lock_table)) = 3%nat /\
  In (AUnlink, 1%nat) (lookup_entry nm_gc g_lock_table) /\ In (ARead, 1%nat) (lookup_entry nm_gc g_lock_table).
Proof. repeat split; vm_compute; tauto. Qed.
