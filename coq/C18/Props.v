(* C18: property theorems (statements only; proofs are in Proofs.v, Crash.v, History.v).
   Model: C18/Defs.v.  Hypotheses used throughout:
     s64_ok t   the deadline fits int64            bytes_ok d  payload bytes < 256
     small d    payload shorter than 2^31 bytes    ps_ok ps    per-sector progress is 0 or >= 16 (header atomic)
     old_ok F   the old file is absent/empty or has at least the 16 header bytes
     0 < now    the clock at load time is positive *)
From CppcmsV Require Import Base.Tac Base.Sweep C18.Defs C18.Proofs C18.Crash C18.History C18.Sid C18.Full C18.Link C18.Burst C18.Examples gen.Gen_crc.
Local Open Scope N_scope.

(* ---- 1. crash safety: every crash state of every save over every old file ----
   load gives nothing, the new value, what the old file gave, or a CRC-32 collision, spelled out: the
   returned bytes have the deadline, length and CRC of the header they were read under (new or old),
   every byte is the new payload byte, the old file byte or a hole zero at that position, and they are
   not the value that header was written for. *)
Theorem C18_crash_safe : forall now F t d ps,
  s64_ok t -> bytes_ok d -> small d -> ps_ok ps -> old_ok F -> (0 < now)%Z ->
  let res := read_from_file now (crash_file F (new_image t d) ps) in
  res = None \/ res = Some (t, d) \/ res = read_from_file now F \/ collision now F t d res.
Proof. exact Crash.crash_safe. Qed.
Print Assumptions C18_crash_safe.

(* the four outcomes all occur (old "a.C=.N" deadline 5000, new "bHELLO" deadline 6000, clock 100) *)
Example C18_crash_safe_nonvacuous :
  (s64_ok 6000 /\ bytes_ok w_new /\ small w_new /\ ps_ok w_ps /\ old_ok w_F /\ (0 < 100)%Z) /\
  read_from_file 100 (crash_file w_F (new_image 6000 w_new) [0]) = Some (5000%Z, w_old) /\
  read_from_file 100 (crash_file w_F (new_image 6000 w_new) [16]) = None /\
  read_from_file 100 (crash_file w_F (new_image 6000 w_new) [22]) = Some (6000%Z, w_new) /\
  read_from_file 100 (crash_file [] (new_image 6000 w_new) [0; 600]) = None /\
  collision 100 w_F 6000 w_new (read_from_file 100 (crash_file w_F (new_image 6000 w_new) w_ps)).
Proof. exact ex_C18_crash_safe_nonvacuous. Qed.

(* the family named in the property text: p bytes of the write stream (0, 16 = header call, byte prefix of the data call,
   total = both calls) x any subset of sectors having reached the disk *)
Theorem C18_crash_safe_property_family : forall now F t d p mask,
  s64_ok t -> bytes_ok d -> small d -> p = 0 \/ 16 <= p -> old_ok F -> (0 < now)%Z ->
  let res := read_from_file now (crash_file F (new_image t d) (uniform_ps p mask)) in
  res = None \/ res = Some (t, d) \/ res = read_from_file now F \/ collision now F t d res.
Proof. exact crash_safe_family. Qed.
Print Assumptions C18_crash_safe_property_family.

Theorem C18_crash_nothing_written : forall F new, crash_file F new [] = F.
Proof. exact crash_none_is_old. Qed.
Print Assumptions C18_crash_nothing_written.

(* the crash model contains the completed save: every sector written with the whole stream *)
Theorem C18_crash_full_is_save : forall F t d ps,
  Forall (fun p => N.of_nat (length (new_image t d)) <= p) ps ->
  N.of_nat (length (new_image t d)) <= SECT * N.of_nat (length ps) ->
  crash_file F (new_image t d) ps = save_file F t d.
Proof. exact crash_full_is_save. Qed.
Print Assumptions C18_crash_full_is_save.

(* ---- 2. the unconditional statement is false: CRC-32 collision witness (KNOWN FINDING) ---- *)
Theorem C18_crash_collision_witness :
  exists F t d ps now,
    s64_ok t /\ bytes_ok d /\ small d /\ ps_ok ps /\ old_ok F /\ (0 < now)%Z /\
    exists d', read_from_file now (crash_file F (new_image t d) ps) = Some (t, d') /\
               d' <> d /\ read_from_file now F <> Some (t, d') /\
               (forall t0, read_from_file now F <> Some (t0, d')) /\
               length d' = length d /\ crc32 d' = crc32 d.
Proof. exact crash_collision_witness. Qed.
Print Assumptions C18_crash_collision_witness.

Theorem C18_crash_safe_unconditional_refuted :
  exists F t d ps now,
    s64_ok t /\ bytes_ok d /\ small d /\ ps_ok ps /\ old_ok F /\ (0 < now)%Z /\
    let res := read_from_file now (crash_file F (new_image t d) ps) in
    ~ (res = None \/ res = Some (t, d) \/ res = read_from_file now F).
Proof. exact crash_safe_unconditional_refuted. Qed.
Print Assumptions C18_crash_safe_unconditional_refuted.

(* ---- 2b. what the 32-bit CRC does guarantee: payloads of equal length that differ only inside a window of at most
   4 consecutive bytes never share a CRC-32, so a torn state that differs from the new value only there is rejected ---- *)
Theorem C18_crc32_burst_detected : forall pre x y suf,
  bytes_ok pre -> bytes_ok x -> bytes_ok y -> bytes_ok suf ->
  length x = length y -> (length x <= 4)%nat ->
  crc32 (pre ++ x ++ suf) = crc32 (pre ++ y ++ suf) -> x = y.
Proof. exact crc32_burst_detected. Qed.
Print Assumptions C18_crc32_burst_detected.

Theorem C18_torn_window_detected : forall now F t d p r t' d' pre x y suf,
  s64_ok t -> bytes_ok d -> small d -> 16 <= p ->
  read_from_file now (crash_file F (new_image t d) (p :: r)) = Some (t', d') ->
  d = pre ++ y ++ suf -> d' = pre ++ x ++ suf -> bytes_ok x -> length x = length y -> (length x <= 4)%nat ->
  d' = d.
Proof. exact torn_window_detected. Qed.
Print Assumptions C18_torn_window_detected.

(* the bound is sharp: the witness differs from the new value in 5 consecutive bytes *)
Example C18_burst_nonvacuous :
  w_new = [98] ++ [72; 69; 76; 76; 79] ++ [] /\ w_mix = [98] ++ [9; 67; 61; 151; 78] ++ [] /\ crc32 w_new = crc32 w_mix /\
  crc32 ([1] ++ [2; 3; 4; 5] ++ [6]) <> crc32 ([1] ++ [2; 3; 4; 6] ++ [6]).
Proof. exact ex_C18_burst_nonvacuous. Qed.

(* ---- 3. what load returns lies inside the file and has the length of the header ---- *)
Theorem C18_read_in_bounds : forall now f t' d', read_from_file now f = Some (t', d') ->
  (16 <= length f)%nat /\ N.of_nat (length d') = hdr_size f /\ crc32 d' = hdr_crc f /\ (now <= t')%Z /\
  (hdr_size f < 2 ^ 31 -> (16 + length d' <= length f)%nat /\ d' = firstn (length d') (skipn 16 f)).
Proof. exact read_in_bounds. Qed.
Print Assumptions C18_read_in_bounds.

(* ---- 4. no crash: save then load returns the value while it is alive, over any old file ---- *)
Theorem C18_save_then_load : forall now F t d,
  s64_ok t -> bytes_ok d -> small d ->
  read_from_file now (save_file F t d) = if (t <? now)%Z then None else Some (t, d).
Proof. exact save_then_read. Qed.
Print Assumptions C18_save_then_load.

(* ---- 5. histories: any sequence of saves, crashed saves, removes, loads and gc runs ---- *)
Theorem C18_history_load : forall ops now t' d',
  Forall op_ok ops -> (0 < now)%Z ->
  read_from_file now (cur (run ops)) = Some (t', d') ->
  exists t d, In (t, d) (saves_of ops) /\ t' = t /\ (now <= t)%Z /\ length d' = length d /\ crc32 d' = crc32 d.
Proof. exact history_load. Qed.
Print Assumptions C18_history_load.

Theorem C18_history_old_ok : forall ops, Forall op_ok ops -> old_ok (cur (run ops)).
Proof. exact history_old_ok. Qed.
Print Assumptions C18_history_old_ok.

Theorem C18_history_crash_safe : forall ops now t d ps,
  Forall op_ok ops -> op_ok (OCrash t d ps) -> (0 < now)%Z ->
  let F := cur (run ops) in
  let res := read_from_file now (cur (run (ops ++ [OCrash t d ps]))) in
  res = None \/ res = Some (t, d) \/ res = read_from_file now F \/ collision now F t d res.
Proof. exact history_crash_safe. Qed.
Print Assumptions C18_history_crash_safe.

Theorem C18_history_save_load : forall ops now t d,
  op_ok (OSave t d) ->
  read_from_file now (cur (run (ops ++ [OSave t d]))) = if (t <? now)%Z then None else Some (t, d).
Proof. exact history_save_load. Qed.
Print Assumptions C18_history_save_load.

Example C18_history_nonvacuous :
  Forall op_ok ex_ops /\ read_from_file 100 (cur (run ex_ops)) = Some (6000%Z, w_mix) /\
  In (6000%Z, w_new) (saves_of ex_ops).
Proof. exact ex_C18_history_nonvacuous. Qed.

(* ---- 6. gc and load on a directory ---- *)
Theorem C18_gc_exact : forall now d nm f,
  In (nm, f) (gc now d) <-> In (nm, f) d /\ (valid_name nm = false \/ timestamp_ok now f = true).
Proof. exact gc_in. Qed.
Print Assumptions C18_gc_exact.

Theorem C18_timestamp_ok_spec : forall now f,
  timestamp_ok now f = false <-> (length f < 8)%nat \/ (hdr_deadline f < now)%Z.
Proof. exact timestamp_ok_spec. Qed.
Print Assumptions C18_timestamp_ok_spec.

Theorem C18_gc_keeps_live : forall now d nm f r,
  lookup nm d = Some f -> read_from_file now f = Some r -> lookup nm (gc now d) = Some f.
Proof. exact gc_keeps_live. Qed.
Print Assumptions C18_gc_keeps_live.

Theorem C18_gc_keeps_foreign : forall now d nm, valid_name nm = false -> lookup nm (gc now d) = lookup nm d.
Proof. exact gc_keeps_foreign. Qed.
Print Assumptions C18_gc_keeps_foreign.

Theorem C18_gc_result_alive : forall now d nm f,
  lookup nm (gc now d) = Some f -> valid_name nm = true -> (8 <= length f)%nat /\ (now <= hdr_deadline f)%Z.
Proof. exact gc_result_alive. Qed.
Print Assumptions C18_gc_result_alive.

Theorem C18_load_spec : forall now nm d,
  match load now nm d with
  | (Some r, d') => d' = d /\ exists f, lookup nm d = Some f /\ read_from_file now f = Some r
  | (None, d') => lookup nm d' = None /\ forall k, name_eqb k nm = false -> lookup k d' = lookup k d
  end.
Proof. exact load_spec. Qed.
Print Assumptions C18_load_spec.

Example C18_gc_nonvacuous :
  valid_name nmA = true /\ valid_name nmB = true /\ valid_name nmX = false /\
  lookup nmA (gc 100 ex_dir) = Some w_F /\ lookup nmB ex_dir <> None /\ lookup nmB (gc 100 ex_dir) = None /\
  lookup nmX (gc 100 ex_dir) = Some [1; 2; 3] /\
  fst (load 100 nmA ex_dir) = Some (5000%Z, w_old) /\ fst (load 100 nmB ex_dir) = None.
Proof. exact ex_C18_gc_nonvacuous. Qed.

(* ---- 6b. session_sid in front of the storage ---- *)
Theorem C18_valid_sid_name : forall cookie id, valid_sid cookie = Some id ->
  cookie = 73 :: id /\ valid_name id = true /\ length id = 32%nat.
Proof. exact valid_sid_name. Qed.
Print Assumptions C18_valid_sid_name.

Theorem C18_sid_load_eq : forall now cookie d,
  sid_load now cookie d = match valid_sid cookie with None => (None, d) | Some id => load now id d end.
Proof. exact sid_load_eq. Qed.
Print Assumptions C18_sid_load_eq.

Theorem C18_sid_load_spec : forall now cookie d r d', sid_load now cookie d = (Some r, d') ->
  exists id f, valid_sid cookie = Some id /\ valid_name id = true /\ lookup id d = Some f /\
               read_from_file now f = Some r /\ d' = d.
Proof. exact sid_load_spec. Qed.
Print Assumptions C18_sid_load_spec.

Example C18_sid_nonvacuous :
  valid_sid (73 :: nmA) = Some nmA /\ valid_sid (73 :: nmB) = None /\ valid_sid nmA = None /\
  fst (sid_load 100 (73 :: nmA) ex_dir) = Some (5000%Z, w_old) /\ fst (sid_load 5001 (73 :: nmA) ex_dir) = None.
Proof. exact ex_C18_sid_nonvacuous. Qed.

(* ---- 6c. the buffer allocated from the size field (KNOWN FINDING garbage-size-field-bad-alloc) ---- *)
(* after any history of saves and crashed saves the size field is 0 or the length of a saved payload *)
Theorem C18_history_alloc_ok : forall ops limit now,
  Forall op_ok ops -> (forall t d, In (t, d) (saves_of ops) -> N.of_nat (length d) <= limit) ->
  alloc_fails limit now (cur (run ops)) = false.
Proof. exact history_alloc_ok. Qed.
Print Assumptions C18_history_alloc_ok.

(* ... but a planted 19-byte file asks for 2 GiB: with 1 GiB available load throws, returns nothing, removes nothing,
   and gc keeps the file; the statement that load always answers (value or no session, file removed) is refuted *)
Theorem C18_garbage_alloc_refuted :
  length g_file = 19%nat /\ alloc_fails (2 ^ 30) 1000 g_file = true /\ timestamp_ok 1000 g_file = true /\
  forall nm, load_limited (2 ^ 30) 1000 nm [(nm, g_file)] = (LExc, [(nm, g_file)]).
Proof. exact garbage_alloc_witness. Qed.
Print Assumptions C18_garbage_alloc_refuted.

Theorem C18_load_limited_enough : forall limit now nm d f,
  lookup nm d = Some f -> hdr_size f <= limit ->
  load_limited limit now nm d =
    match load now nm d with (Some (t, x), d') => (LSome t x, d') | (None, d') => (LNone, d') end.
Proof. exact load_limited_enough. Qed.
Print Assumptions C18_load_limited_enough.

(* ---- 7. tie: the CRC table found in private/crc32.h is the table of the bit model, and the
   byte-at-a-time loop of Crc32_ComputeBuf over it computes the model's crc32 ---- *)
Theorem C18_link_crc_table : forall i, i < 256 -> nth (N.to_nat i) g_crc_table 0%Z = Z.of_N (crc_table_entry i).
Proof. exact link_crc_table. Qed.
Print Assumptions C18_link_crc_table.

Theorem C18_crc_table_form : forall s b, b < 256 -> crc_byte_tab s b = crc_byte s b.
Proof. exact crc_byte_tab_eq. Qed.
Print Assumptions C18_crc_table_form.

Theorem C18_link_crc32 : forall l, bytes_ok l -> g_crc32 l = crc32 l.
Proof. exact link_crc32. Qed.
Print Assumptions C18_link_crc32.

Example C18_link_crc32_nonvacuous :
 g_crc32 [49; 50; 51; 52; 53; 54; 55; 56; 57] = 3421780262 /\ crc32 w_new = crc32 w_mix.
Proof. exact ex_C18_link_crc32_nonvacuous. Qed.
