(* C18 proofs, part 7: histories that start from an arbitrary planted file G (the "arbitrary garbage files with well-formed
   names" of the property's quantifier), with saves, crashed saves, removes, loads and gc runs at any point.
   Invariant: the file is empty, still the planted file, or has at least 16 bytes and starts with a hole of zeros, with the
   (zero-padded) header of the planted file, or with the header of an earlier save. *)
From CppcmsV Require Import Base.Tac Base.Sweep C18.Defs C18.Proofs C18.Crash C18.History C18.AnyOld.
Local Open Scope N_scope.

Definition run_from (s0 : option (list N)) (ops : list op) : option (list N) := fold_left step ops s0.
Definition hdrG (G : list N) : list N := firstn 16 (pad16 G).

Definition hdr_invG (G : list N) (saves : list (Z * list N)) (f : list N) : Prop :=
  f = [] \/ f = G \/
  ((16 <= length f)%nat /\
   (firstn 16 f = repeat 0 16 \/ firstn 16 f = hdrG G \/
    exists t d, In (t, d) saves /\ save_ok (t, d) /\ firstn 16 f = header t d)).
Definition st_invG (G : list N) (saves : list (Z * list N)) (s : option (list N)) : Prop :=
  match s with None => True | Some f => hdr_invG G saves f end.

Lemma hdr_invG_mono G S S' f : (forall x, In x S -> In x S') -> hdr_invG G S f -> hdr_invG G S' f.
Proof.
  intros Hsub [H|[H|[L [H|[H|(t & d & Hi & Hok & E)]]]]].
  - left; exact H.
  - right; left; exact H.
  - right; right; split; [exact L|left; exact H].
  - right; right; split; [exact L|right; left; exact H].
  - right; right; split; [exact L|]. right; right. exists t, d. split; [apply Hsub; exact Hi|split; assumption].
Qed.

Lemma reach_zero_or_far ps : forall s nl, reach s ps nl = 0 \/ SECT * s < reach s ps nl.
Proof.
  induction ps as [|p r IH]; intros s nl; [left; reflexivity|].
  cbn [reach]. destruct (IH (s + 1) nl) as [A|A];
  destruct (N.ltb_spec (SECT * s) (N.min (N.min p nl) (SECT * (s + 1)))) as [L|L]; unfold SECT in *; lia.
Qed.

(* sector 0 not written and the crash state still shorter than a header: nothing reached the disk at all *)
Lemma crash_short_same F new ps :
  nth 0 ps 0 = 0 -> (length (crash_file F new ps) < 16)%nat -> crash_file F new ps = F.
Proof.
  intros Hp L.
  assert (length (crash_file F new ps) = length F) as HL.
  { pose proof (length_crash_ge F new ps) as G1. rewrite length_crash_file in *. unfold crash_len in *.
    destruct ps as [|p r]; [cbn [reach] in *; lia|]. cbn [nth] in Hp. subst p. cbn [reach] in *. unfold SECT in *.
    destruct (N.ltb_spec (512 * 0) (N.min (N.min 0 (N.of_nat (length new))) (512 * (0 + 1)))) as [A|A]; [lia|].
    destruct (reach_zero_or_far r (0 + 1) (N.of_nat (length new))) as [B|B]; unfold SECT in *; lia. }
  apply (nth_ext _ _ 0 0 HL). intros j Hj. apply crash_sector0_old; [exact Hp|lia|exact Hj].
Qed.

Lemma hdrG_long G : (16 <= length G)%nat -> hdrG G = firstn 16 G.
Proof. intros H. unfold hdrG. rewrite pad16_id by (right; exact H). reflexivity. Qed.

Lemma length_pad16_ge G : G <> [] -> (16 <= length (pad16 G))%nat.
Proof. intros NE. destruct (pad16_old_ok G) as [E|L]; [|exact L]. destruct G; [congruence|]. unfold pad16 in E. destruct (app_eq_nil _ _ E). discriminate. Qed.

Lemma step_invG G S s o : op_ok o -> st_invG G S s -> st_invG G (S ++ saves_of [o]) (step s o).
Proof.
  intros Ho Hi.
  assert (forall x, In x S -> In x (S ++ saves_of [o])) as Hsub by (intros x Hx; apply in_or_app; left; exact Hx).
  destruct o as [t d|t d ps| |now|now]; cbn [step saves_of st_invG op_ok] in *.
  - destruct Ho as (Ht & Hd & Hs). right; right. split; [apply length_save_file; exact Hs|].
    right; right. exists t, d. split; [apply in_or_app; right; left; reflexivity|].
    split; [exact (conj Ht (conj Hd Hs))|apply firstn16_save_file; exact Hs].
  - destruct Ho as (Ht & Hd & Hs & Hps).
    assert (hdr_invG G S (cur s)) as HF by (destruct s as [f|]; [exact Hi|left; reflexivity]).
    pose proof (length_new_image t d Hs) as Ln.
    destruct (ps_ok_head ps Hps) as [H0|(p & r & -> & Hp)].
    + (* sector 0 keeps what was there *)
      set (C := crash_file (cur s) (new_image t d) ps).
      assert ((16 <= length (cur s))%nat ->
              (firstn 16 (cur s) = repeat 0 16 \/ firstn 16 (cur s) = hdrG G \/
               exists t0 d0, In (t0, d0) S /\ save_ok (t0, d0) /\ firstn 16 (cur s) = header t0 d0) ->
              hdr_invG G (S ++ (t, d) :: []) C) as Long.
      { intros L H. right; right. pose proof (length_crash_ge (cur s) (new_image t d) ps) as Lc. fold C in Lc. split; [lia|].
        unfold C. rewrite crash_header_old by assumption.
        destruct H as [H|[H|(t0 & d0 & Hin & Hok & E)]]; [left; exact H|right; left; exact H|].
        right; right. exists t0, d0. split; [apply Hsub; exact Hin|split; assumption]. }
      assert (cur s = [] -> hdr_invG G (S ++ (t, d) :: []) C) as Empty.
      { intros E. unfold C. rewrite E. destruct (crash_empty_or_16 (new_image t d) ps Hps ltac:(lia)) as [A|A]; [left; exact A|].
        right; right. split; [exact A|]. left. apply crash_header_hole; assumption. }
      destruct HF as [E|[E|[L H]]].
      * apply Empty. exact E.
      * destruct (Nat.lt_ge_cases (length (cur s)) 16) as [Ls|Ls].
        -- destruct G as [|g0 G0] eqn:EG; [apply Empty; exact E|]. rewrite <- EG in *.
           assert (G <> []) as NE by (rewrite EG; discriminate).
           destruct (Nat.lt_ge_cases (length C) 16) as [Lc|Lc].
           ++ right; left. unfold C. rewrite crash_short_same by assumption. exact E.
           ++ right; right. split; [exact Lc|]. right; left.
              unfold C. rewrite <- crash_file_pad16 by exact Lc. rewrite E.
              rewrite crash_header_old; [reflexivity|exact H0|apply length_pad16_ge; exact NE].
        -- apply Long; [exact Ls|]. right; left. rewrite E. symmetry. apply hdrG_long. rewrite <- E. exact Ls.
      * apply Long; assumption.
    + right; right. split; [apply crash_len_new_header; [exact Hp|lia]|].
      right; right. exists t, d. split; [apply in_or_app; right; left; reflexivity|].
      split; [exact (conj Ht (conj Hd Hs))|apply crash_header_new; assumption].
  - exact I.
  - destruct s as [f|]; [|exact I]. destruct (read_from_file now f); [|exact I].
    cbn [st_invG]. apply (hdr_invG_mono G S); assumption.
  - destruct s as [f|]; [|exact I]. destruct (timestamp_ok now f); [|exact I].
    cbn [st_invG]. apply (hdr_invG_mono G S); assumption.
Qed.

Lemma run_from_inv_gen G ops : forall S s, Forall op_ok ops -> st_invG G S s ->
  st_invG G (S ++ saves_of ops) (fold_left step ops s).
Proof.
  induction ops as [|o r IH]; intros S s Hok Hi.
  - cbn [fold_left saves_of]. rewrite app_nil_r. exact Hi.
  - cbn [fold_left]. rewrite saves_of_cons, app_assoc.
    apply IH; [apply Forall_inv_tail in Hok; exact Hok|].
    apply step_invG; [apply Forall_inv in Hok; exact Hok|exact Hi].
Qed.

Lemma run_from_inv G ops : Forall op_ok ops -> st_invG G (saves_of ops) (run_from (Some G) ops).
Proof. intros H. apply (run_from_inv_gen G ops [] (Some G) H). right; left. reflexivity. Qed.

(* run is run_from with no file *)
Lemma run_from_none ops : run_from None ops = run ops.
Proof. reflexivity. Qed.

(* the header fields of the planted file, read zero-padded *)
Lemma hdr_fields_of_16 f g : firstn 16 f = firstn 16 g ->
  hdr_deadline f = hdr_deadline g /\ hdr_crc f = hdr_crc g /\ hdr_size f = hdr_size g.
Proof.
  intros E. rewrite (hdr_deadline_16 f), (hdr_deadline_16 g), (hdr_crc_16 f), (hdr_crc_16 g), (hdr_size_16 f), (hdr_size_16 g), E.
  repeat split.
Qed.

(* whatever a load returns after any history that started from ANY planted file carries the deadline, length and CRC of a
   save of that history, or the three header fields of the planted file (read zero-padded to 16 bytes) *)
Lemma history_load_from G ops now t' d' :
  Forall op_ok ops -> (0 < now)%Z ->
  read_from_file now (cur (run_from (Some G) ops)) = Some (t', d') ->
  (exists t d, In (t, d) (saves_of ops) /\ t' = t /\ (now <= t)%Z /\ length d' = length d /\ crc32 d' = crc32 d) \/
  (t' = hdr_deadline (pad16 G) /\ (now <= t')%Z /\ N.of_nat (length d') = hdr_size (pad16 G) /\ crc32 d' = hdr_crc (pad16 G)).
Proof.
  intros Hok Hnow Hr. pose proof (run_from_inv G ops Hok) as Hi.
  destruct (run_from (Some G) ops) as [f|]; cbn [cur st_invG] in *; [|rewrite read_short in Hr by (cbn; lia); discriminate].
  destruct (read_spec now f t' d' Hr) as (L16 & Et & Hn & El & Ec & _).
  assert (firstn 16 f = hdrG G -> t' = hdr_deadline (pad16 G) /\ (now <= t')%Z /\
          N.of_nat (length d') = hdr_size (pad16 G) /\ crc32 d' = hdr_crc (pad16 G)) as Planted.
  { intros E. unfold hdrG in E.
    destruct (hdr_fields_of_16 f (pad16 G) E) as (A & B & C).
    rewrite <- A, <- B, <- C. repeat split; assumption. }
  destruct Hi as [E|[E|[L [H|[H|(t & d & Hin & (Ht & Hd & Hs) & E)]]]]].
  - subst f. cbn in L16. lia.
  - right. apply Planted. subst f. unfold hdrG. rewrite pad16_id by (right; exact L16). reflexivity.
  - rewrite read_zero_header in Hr by assumption. discriminate.
  - right. apply Planted. exact H.
  - left. cbn [fst snd] in *.
    rewrite (hdr_deadline_16 f), E, hdr_deadline_header in Et by exact Ht.
    rewrite (hdr_crc_16 f), E, hdr_crc_header in Ec by exact Hd.
    rewrite (hdr_size_16 f), E, hdr_size_header in El.
    unfold small in Hs. rewrite N.mod_small in El by (change (2 ^ 32) with 4294967296; change (2 ^ 31) with 2147483648 in Hs; lia).
    exists t, d. subst t'. repeat split; try assumption. lia.
Qed.

(* the crash theorem applies after any history from any planted file: it has no hypothesis on the old file *)
Lemma history_crash_safe_from G ops now t d ps :
  op_ok (OCrash t d ps) -> (0 < now)%Z ->
  let F := cur (run_from (Some G) ops) in
  let res := read_from_file now (cur (run_from (Some G) (ops ++ [OCrash t d ps]))) in
  res = None \/ res = Some (t, d) \/ res = read_from_file now (pad16 F) \/ collision now (pad16 F) t d res.
Proof.
  intros (Ht & Hd & Hs & Hps) Hnow F res. subst res.
  unfold run_from. rewrite fold_left_app. cbn [fold_left step cur]. fold (run_from (Some G) ops). fold F.
  apply crash_safe_any_old; assumption.
Qed.

(* non-vacuity: the planted 12-byte file, a load (which removes it), the same file planted again = start of a new history:
   a crashed save that skips sector 0, gc, and a load that returns the empty value under the planted header *)
Definition pl_ops : list op := [OGc 100; OCrash 6000 s_d [0; 616]; OGc 4000].
Lemma planted_nonvacuous :
  Forall op_ok pl_ops /\ read_from_file 100 (cur (run_from (Some s_F) pl_ops)) = Some (5000%Z, []) /\
  hdr_deadline (pad16 s_F) = 5000%Z /\ hdr_size (pad16 s_F) = 0 /\ hdr_crc (pad16 s_F) = crc32 [] /\
  run_from (Some s_F) [OLoad 100] = None.
Proof.
  destruct short_old_file_witness as ((_ & A & B & C & D & _) & _).
  split; [unfold pl_ops; repeat (apply Forall_cons; [cbn [op_ok]|]); [exact I|exact (conj A (conj B (conj C D)))|exact I|apply Forall_nil]|].
  repeat split; vm_compute; reflexivity.
Qed.
