(* C18 proofs, part 9: write_all with short writes.  Since /repo 74c63d5 write_all advances its buffer pointer by what write()
   accepted, so whatever the cut pattern, the chunks written concatenate to exactly the buffer: a save made of short writes
   stores exactly the record of the completed save.  The loop before the repair (adv = false) is kept for the regression Example. *)
From CppcmsV Require Import Base.Tac Base.Sweep C18.Defs C18.Proofs C18.Crash.
Local Open Scope N_scope.

Lemma firstn_plus_skipn (w m : nat) : forall l : list N, firstn w l ++ firstn m (skipn w l) = firstn (w + m) l.
Proof.
  induction w as [|w IH]; intros l; [reflexivity|].
  destruct l as [|x l]; [cbn [firstn skipn app]; destruct m; reflexivity|].
  cbn [firstn skipn app plus]. rewrite IH. reflexivity.
Qed.

(* for EVERY cut pattern the chunks of one write_all concatenate to the first n bytes of the buffer *)
Lemma wa_concat fuel : forall buf n acc, (n <= fuel)%nat -> (n <= length buf)%nat ->
  concat (fst (write_all_gen true fuel buf n acc)) = firstn n buf.
Proof.
  induction fuel as [|fu IH]; intros buf n acc Hf Hb.
  - assert (n = 0)%nat by lia. subst n. reflexivity.
  - cbn [write_all_gen]. destruct (Nat.eqb_spec n 0) as [E|E]; [subst n; reflexivity|].
    destruct acc as [|k acc'].
    + cbn [fst concat]. apply app_nil_r.
    + set (w := if (k =? 0)%nat || (n <=? k)%nat then n else k).
      assert (1 <= w <= n)%nat as Hw.
      { unfold w. destruct (Nat.eqb_spec k 0) as [K|K]; cbn [orb]; [lia|].
        destruct (Nat.leb_spec n k); lia. }
      specialize (IH (skipn w buf) (n - w)%nat acc' ltac:(lia) ltac:(rewrite skipn_length; lia)).
      destruct (write_all_gen true fu (skipn w buf) (n - w) acc') as [rest acc''] eqn:ER. cbn [fst] in *.
      cbn [concat]. rewrite IH, firstn_plus_skipn. f_equal. lia.
Qed.

Lemma firstn_header16 t d : firstn 16 (header t d) = header t d.
Proof. rewrite <- (length_header t d) at 1. apply firstn_all. Qed.

(* a save made of short writes stores exactly the record: for every value and every cut pattern *)
Lemma short_image_eq t d acc : short_image t d acc = new_image t d.
Proof.
  unfold short_image, short_image_gen, short_chunks_gen, new_image.
  pose proof (wa_concat 16 (header t d) 16 acc ltac:(lia) ltac:(rewrite length_header; lia)) as H1.
  destruct (write_all_gen true 16 (header t d) 16 acc) as [h acc1]. cbn [fst] in H1.
  pose proof (wa_concat (length (data_written d)) (data_written d) (length (data_written d)) acc1 ltac:(lia) ltac:(lia)) as H2.
  destruct (write_all_gen true (length (data_written d)) (data_written d) (length (data_written d)) acc1) as [b acc2]. cbn [fst] in H2.
  rewrite concat_app, H1, H2, firstn_header16, firstn_all. reflexivity.
Qed.

Lemma save_file_short_eq F t d acc : save_file_short F t d acc = save_file F t d.
Proof. unfold save_file_short, save_file. rewrite short_image_eq. reflexivity. Qed.

Lemma save_short_eq nm t data acc d : save_short nm t data acc d = save nm t data d.
Proof. unfold save_short, save. rewrite save_file_short_eq. reflexivity. Qed.

Lemma short_save_then_load now F t d acc :
  s64_ok t -> bytes_ok d -> small d ->
  read_from_file now (save_file_short F t d acc) = if (t <? now)%Z then None else Some (t, d).
Proof. intros. rewrite save_file_short_eq. apply save_then_read; assumption. Qed.

(* regression Examples for the repaired defect short-write-corrupt-record (the old witnesses): with the loop as it was
   (save_file_stuck) the empty value saved with the first write() cut after 4 bytes loaded as deadline 3000 + 3000 * 2^32, and
   "hi" with the data call cut after 1 byte was stored as "hh" and lost; with the loop as it is now both come back exactly *)
Lemma short_write_regression :
  read_from_file 1000 (save_file_stuck [] 3000 [] [4%nat]) = Some (12884901891000%Z, []) /\
  read_from_file 1000 (save_file_short [] 3000 [] [4%nat]) = Some (3000%Z, []) /\
  read_from_file 1000 (save_file_stuck [] 3000 [104; 105] [0%nat; 1%nat]) = None /\
  read_from_file 1000 (save_file_short [] 3000 [104; 105] [0%nat; 1%nat]) = Some (3000%Z, [104; 105]) /\
  short_chunks 3000 [104; 105] [7%nat; 0%nat; 1%nat] <> short_chunks 3000 [104; 105] [] /\
  length (short_chunks 3000 [104; 105] [7%nat; 0%nat; 1%nat]) = 4%nat.
Proof. repeat split; try (vm_compute; reflexivity). vm_compute. discriminate. Qed.
