(* C18 tie: the CRC-32 table of private/crc32.h (regenerated from the source into gen/Gen_crc.v) is the
   table of the bit-by-bit model, and the byte-at-a-time loop of Crc32_ComputeBuf over that table computes
   the model's crc32. *)
From CppcmsV Require Import Base.Tac Base.Sweep C18.Defs C18.Proofs gen.Gen_crc.
Local Open Scope N_scope.

Lemma link_crc_table_length : length g_crc_table = 256%nat.
Proof. vm_compute. reflexivity. Qed.

Lemma link_crc_table i : i < 256 -> nth (N.to_nat i) g_crc_table 0%Z = Z.of_N (crc_table_entry i).
Proof.
  intros H. apply Z.eqb_eq.
  apply (sweep256 (fun i => (nth (N.to_nat i) g_crc_table 0 =? Z.of_N (crc_table_entry i))%Z)); [vm_compute; reflexivity|exact H].
Qed.

(* ---- the bit step is linear over xor ---- *)
Ltac bits :=
  apply N.bits_inj; intros ?n; rewrite ?N.lxor_spec;
  repeat match goal with |- context [N.testbit ?a ?n] => destruct (N.testbit a n) end; reflexivity.

Lemma odd_lxor a b : N.odd (N.lxor a b) = xorb (N.odd a) (N.odd b).
Proof. rewrite <- !N.bit0_odd. apply N.lxor_spec. Qed.

Lemma div2_lxor a b : N.div2 (N.lxor a b) = N.lxor (N.div2 a) (N.div2 b).
Proof. rewrite !N.div2_spec. apply N.shiftr_lxor. Qed.

Lemma crc_bit_lxor a b : crc_bit (N.lxor a b) = N.lxor (crc_bit a) (crc_bit b).
Proof.
  unfold crc_bit. rewrite odd_lxor, div2_lxor.
  destruct (N.odd a), (N.odd b); cbn [xorb]; bits.
Qed.

Lemma crc_bits8_lxor a b : crc_bits8 (N.lxor a b) = N.lxor (crc_bits8 a) (crc_bits8 b).
Proof. unfold crc_bits8. rewrite !crc_bit_lxor. reflexivity. Qed.

Lemma crc_bit_double m : crc_bit (2 * m) = m.
Proof.
  unfold crc_bit. rewrite N.odd_mul, N.odd_2. cbn [andb]. rewrite N.div2_div.
  rewrite N.mul_comm, N.div_mul by lia. reflexivity.
Qed.

Lemma crc_bits8_shift h : crc_bits8 (256 * h) = h.
Proof.
  unfold crc_bits8.
  replace (256 * h) with (2 * (2 * (2 * (2 * (2 * (2 * (2 * (2 * h)))))))) by lia.
  rewrite !crc_bit_double. reflexivity.
Qed.

Lemma split8 x : x = N.lxor (256 * (x / 256)) (x mod 256).
Proof.
  rewrite <- N.add_nocarry_lxor.
  - apply N.div_mod. lia.
  - change 256 with (2 ^ 8). rewrite <- N.land_ones, (N.mul_comm (2 ^ 8)), <- N.shiftl_mul_pow2.
    apply N.bits_inj_0. intros n. rewrite N.land_spec.
    destruct (N.ltb_spec n 8) as [L|L].
    + rewrite N.shiftl_spec_low by exact L. reflexivity.
    + rewrite N.land_spec, N.ones_spec_high by exact L. rewrite !andb_false_r. reflexivity.
Qed.

Lemma crc_bits8_split x : crc_bits8 x = N.lxor (x / 256) (crc_bits8 (x mod 256)).
Proof. rewrite (split8 x) at 1. rewrite crc_bits8_lxor, crc_bits8_shift. reflexivity. Qed.

Lemma div256_lxor_byte s b : b < 256 -> N.lxor s b / 256 = s / 256.
Proof.
  intros H. change 256 with (2 ^ 8). rewrite <- !N.shiftr_div_pow2, N.shiftr_lxor.
  rewrite (N.shiftr_div_pow2 b). change (2 ^ 8) with 256. rewrite (N.div_small b 256) by exact H.
  apply N.lxor_0_r.
Qed.

(* table form = bit form (for every state, not only 32-bit ones) *)
Lemma crc_byte_tab_eq s b : b < 256 -> crc_byte_tab s b = crc_byte s b.
Proof.
  intros H. unfold crc_byte_tab, crc_byte, crc_table_entry.
  rewrite (crc_bits8_split (N.lxor s b)), div256_lxor_byte by exact H. reflexivity.
Qed.

(* Crc32_ComputeBuf over the table found in the source *)
Definition g_crc_step (s b : N) : N :=
  N.lxor (s / 256) (Z.to_N (nth (N.to_nat (N.lxor s b mod 256)) g_crc_table 0%Z)).
Definition g_crc32 (l : list N) : N := N.lxor (fold_left g_crc_step l M32) M32.

Lemma g_crc_step_eq s b : b < 256 -> g_crc_step s b = crc_byte s b.
Proof.
  intros H. unfold g_crc_step. rewrite link_crc_table by (apply N.mod_lt; lia).
  rewrite N2Z.id. apply crc_byte_tab_eq. exact H.
Qed.

Lemma g_fold_eq l : forall s, bytes_ok l -> fold_left g_crc_step l s = crc_update s l.
Proof.
  induction l as [|b l IH]; intros s Hl; [reflexivity|].
  apply bytes_ok_cons in Hl. destruct Hl as [Hb Hl].
  unfold crc_update. cbn [fold_left]. rewrite g_crc_step_eq by exact Hb. apply IH. exact Hl.
Qed.

Lemma link_crc32 l : bytes_ok l -> g_crc32 l = crc32 l.
Proof. intros H. unfold g_crc32, crc32. rewrite g_fold_eq by exact H. reflexivity. Qed.
