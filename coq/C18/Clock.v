(* C18 proofs, part 8: the clock only moves forward - what gc and load remove at one time could not have been returned at any later
   time, so a gc run or a load at any point never takes away a session that a later load would have returned. *)
From CppcmsV Require Import Base.Tac Base.Sweep C18.Defs C18.Proofs C18.Crash C18.History.
Local Open Scope N_scope.

(* a record accepted at some time is accepted, with the same value, at every earlier time *)
Lemma read_clock_mono now now' f r : read_from_file now f = Some r -> (now' <= now)%Z -> read_from_file now' f = Some r.
Proof.
  intros H Hle.
  assert (16 <= length f)%nat as L16.
  { destruct (Nat.lt_ge_cases (length f) 16) as [L|L]; [|exact L]. rewrite read_short in H by exact L. discriminate. }
  rewrite read_unfold in * by exact L16.
  destruct (Z.ltb_spec (hdr_deadline f) now) as [A|A]; [discriminate|].
  destruct (Z.ltb_spec (hdr_deadline f) now') as [B|B]; [lia|]. exact H.
Qed.

(* what is refused at some time is refused at every later time *)
Lemma read_none_later now now' f : read_from_file now' f = None -> (now' <= now)%Z -> read_from_file now f = None.
Proof.
  intros H Hle. destruct (read_from_file now f) as [r|] eqn:E; [|reflexivity].
  rewrite (read_clock_mono now now' f r E Hle) in H. discriminate.
Qed.

Lemma timestamp_bad_later now now' f : timestamp_ok now' f = false -> (now' <= now)%Z -> read_from_file now f = None.
Proof.
  intros H Hle. apply timestamp_ok_spec in H.
  destruct (read_from_file now f) as [[t d]|] eqn:E; [|reflexivity].
  destruct (read_spec now f t d E) as (L16 & Et & Hn & _). destruct H as [H|H]; lia.
Qed.

(* one file: a gc run or a load at an earlier clock does not change what a later load returns *)
Lemma gc_transparent s now now' : (now' <= now)%Z ->
  read_from_file now (cur (step s (OGc now'))) = read_from_file now (cur s).
Proof.
  intros Hle. destruct s as [f|]; [|reflexivity]. cbn [step].
  destruct (timestamp_ok now' f) eqn:E; [reflexivity|].
  cbn [cur]. rewrite (timestamp_bad_later now now' f E Hle). apply read_short. cbn. lia.
Qed.

Lemma load_transparent s now now' : (now' <= now)%Z ->
  read_from_file now (cur (step s (OLoad now'))) = read_from_file now (cur s).
Proof.
  intros Hle. destruct s as [f|]; [|reflexivity]. cbn [step].
  destruct (read_from_file now' f) eqn:E; [reflexivity|].
  cbn [cur]. rewrite (read_none_later now now' f E Hle). apply read_short. cbn. lia.
Qed.

(* directory: gc at an earlier clock keeps every record that a later load accepts *)
Lemma gc_keeps_later now now' d nm f r :
  lookup nm d = Some f -> read_from_file now f = Some r -> (now' <= now)%Z -> lookup nm (gc now' d) = Some f.
Proof.
  intros Hl Hr Hle. apply (gc_keeps_live now' d nm f r Hl). apply (read_clock_mono now now' f r Hr Hle).
Qed.

(* and load at an earlier clock keeps it too (load never touches other entries, and removes this one only if unreadable then) *)
Lemma load_keeps_later now now' d nm k f r :
  lookup k d = Some f -> read_from_file now f = Some r -> (now' <= now)%Z -> lookup k (snd (load now' nm d)) = Some f.
Proof.
  intros Hl Hr Hle. unfold load. destruct (lookup nm d) as [g|] eqn:Eg; [|exact Hl].
  destruct (read_from_file now' g) as [x|] eqn:Ex; [exact Hl|]. cbn [snd].
  destruct (name_eqb k nm) eqn:Ek.
  - apply name_eqb_eq in Ek. subst k. rewrite Hl in Eg. injection Eg as <-.
    rewrite (read_clock_mono now now' f r Hr Hle) in Ex. discriminate.
  - rewrite lookup_remove_other by exact Ek. exact Hl.
Qed.
