(* C18: executable model of cppcms::sessions::session_file_storage (src/session_posix_file_storage.cpp):
   record layout, save_to_file / write_all, read_from_file / read_all, load, remove, gc / read_timestamp,
   CRC-32 (private/crc32.h: zlib crc32 or the bundled table), and the crash model of a save.
   Bytes are N (< 256 by hypothesis), a file is a byte list, time_t / int64_t values are Z.
   No proofs here: this file must keep compiling (and extracting) when a proof breaks. *)
From Coq Require Import NArith ZArith List Bool.
Import ListNotations.
Local Open Scope N_scope.

(* ---------- CRC-32, reflected polynomial 0xEDB88320, bit by bit ---------- *)
Definition POLY : N := 3988292384.
Definition M32 : N := 4294967295.
Definition crc_bit (s : N) : N := if N.odd s then N.lxor (N.div2 s) POLY else N.div2 s.
Definition crc_bits8 (s : N) : N :=
  crc_bit (crc_bit (crc_bit (crc_bit (crc_bit (crc_bit (crc_bit (crc_bit s))))))).
Definition crc_byte (s b : N) : N := crc_bits8 (N.lxor s b).
Definition crc_update (s : N) (l : list N) : N := fold_left crc_byte l s.
(* crc32_calc: value_ = 0; process_bytes(p,n) = crc32(value_,p,n) (skipped for n = 0); checksum() *)
Definition crc32 (l : list N) : N := N.lxor (crc_update M32 l) M32.

(* byte-at-a-time table form (the bundled Crc32_ComputeBuf of private/crc32.h) *)
Definition crc_table_entry (i : N) : N := crc_bits8 i.
Definition crc_byte_tab (s b : N) : N := N.lxor (s / 256) (crc_table_entry (N.lxor s b mod 256)).

(* ---------- little-endian fields (x86-64: the struct is written as it lies in memory) ---------- *)
Fixpoint le_bytes (k : nat) (v : N) : list N :=
  match k with O => [] | S k' => (v mod 256) :: le_bytes k' (v / 256) end.
Fixpoint le_val (l : list N) : N :=
  match l with [] => 0 | b :: r => b + 256 * le_val r end.
Definition enc_s64 (z : Z) : list N := le_bytes 8 (Z.to_N (z mod 2 ^ 64)%Z).
Definition dec_s64 (l : list N) : Z :=
  let v := Z.of_N (le_val l) in if (v <? 2 ^ 63)%Z then v else (v - 2 ^ 64)%Z.

(* ---------- save_to_file ---------- *)
(* write_all(fd, in.data(), in.size()) takes an int: the low 32 bits of the size, as a signed number;
   a non-positive count writes nothing and reports success *)
Definition int_of_size (n : nat) : Z :=
  let m := (Z.of_nat n mod 2 ^ 32)%Z in if (m <? 2 ^ 31)%Z then m else (m - 2 ^ 32)%Z.
Definition data_written (d : list N) : list N :=
  let n := int_of_size (length d) in if (n <=? 0)%Z then [] else firstn (Z.to_nat n) d.
(* struct { int64_t timeout; uint32_t crc; uint32_t size; }  size = static_cast<uint32_t>(in.size()) *)
Definition header (t : Z) (d : list N) : list N :=
  enc_s64 t ++ le_bytes 4 (crc32 d) ++ le_bytes 4 (N.of_nat (length d) mod 2 ^ 32).
(* the sequence of write() calls of one save: (file offset, bytes); an empty payload issues no second call *)
Definition save_writes (t : Z) (d : list N) : list (N * list N) :=
  (0, header t d) :: match data_written d with [] => [] | w => [(16, w)] end.
(* what a completed save leaves behind: everything it wrote, contiguous from offset 0 *)
Definition new_image (t : Z) (d : list N) : list N := header t d ++ data_written d.
(* the file is opened without O_TRUNC: bytes of the old file beyond the new image stay *)
Definition overlay (img F : list N) : list N := img ++ skipn (length img) F.
Definition save_file (F : list N) (t : Z) (d : list N) : list N := overlay (new_image t d) F.

(* ---------- read_from_file ---------- *)
Definition hdr_deadline (f : list N) : Z := dec_s64 (firstn 8 f).
Definition hdr_crc (f : list N) : N := le_val (firstn 4 (skipn 8 f)).
Definition hdr_size (f : list N) : N := le_val (firstn 4 (skipn 12 f)).
Definition read_from_file (now : Z) (f : list N) : option (Z * list N) :=
  if (length f <? 8)%nat then None                      (* read_all(&f_timeout,8) fails *)
  else if (hdr_deadline f <? now)%Z then None           (* f_timeout < time(0) *)
  else if (length f <? 16)%nat then None                (* read_all(&crc,4) or read_all(&size,4) fails *)
  else
    let size := hdr_size f in
    if 2 ^ 31 <=? size then
      (* read_all(fd,&buffer.front(),size): the count is an int, negative here, nothing is read and
         the call succeeds; the buffer keeps its zero fill *)
      let data := repeat 0 (N.to_nat size) in
      if crc32 data =? hdr_crc f then Some (hdr_deadline f, data) else None
    else if N.of_nat (length f - 16) <? size then None  (* fewer than size bytes available *)
    else
      let data := firstn (N.to_nat size) (skipn 16 f) in
      if crc32 data =? hdr_crc f then Some (hdr_deadline f, data) else None.

(* read_timestamp (used by gc) *)
Definition timestamp_ok (now : Z) (f : list N) : bool :=
  if (length f <? 8)%nat then false else negb (hdr_deadline f <? now)%Z.

(* ---------- crash model of one save ----------
   new = new_image t d is the byte stream the save puts into the page cache, in order (header first).
   Every 512-byte sector s of the file reaches the disk independently, as it was when p_s bytes of
   that stream had been applied (p_s = 0: the old sector; the header is atomic: p_s = 0 or >= 16).
   ps lists p_0, p_1, ...; sectors not listed are old.  The file is never truncated; it is as long as
   the furthest byte that reached the disk; bytes of a longer file that never reached it read as 0.
   The family named in the property (prefix of write calls x byte prefix x subset of sectors) is
   the special case where all non-zero p_s are equal. *)
Definition SECT : N := 512.
Fixpoint reach (s : N) (ps : list N) (nl : N) : N :=
  match ps with
  | [] => 0
  | p :: r => let e := N.min (N.min p nl) (SECT * (s + 1)) in
              N.max (if SECT * s <? e then e else 0) (reach (s + 1) r nl)
  end.
Definition crash_len (F new : list N) (ps : list N) : N :=
  N.max (N.of_nat (length F)) (reach 0 ps (N.of_nat (length new))).
Fixpoint mixb (i : N) (ps : list N) (new Fz : list N) : list N :=
  match Fz with
  | [] => []
  | f :: Fz' =>
      (match new with
       | n :: _ => if i <? nth (N.to_nat (N.shiftr i 9)) ps 0 then n else f
       | [] => f
       end) :: mixb (i + 1) ps (tl new) Fz'
  end.
Definition crash_file (F new : list N) (ps : list N) : list N :=
  mixb 0 ps new (F ++ repeat 0 (N.to_nat (crash_len F new ps) - length F)).
Definition ps_ok (ps : list N) : Prop := Forall (fun p => p = 0 \/ 16 <= p) ps.
Definition ps_okb (ps : list N) : bool := forallb (fun p => (p =? 0) || (16 <=? p)) ps.

(* ---------- directory: load, remove, gc ---------- *)
Definition name := list N.
Fixpoint name_eqb (a b : name) : bool :=
  match a, b with
  | [], [] => true
  | x :: a', y :: b' => (x =? y) && name_eqb a' b'
  | _, _ => false
  end.
Definition dir := list (name * list N).
Fixpoint lookup (nm : name) (d : dir) : option (list N) :=
  match d with
  | [] => None
  | (k, f) :: r => if name_eqb nm k then Some f else lookup nm r
  end.
Definition remove (nm : name) (d : dir) : dir := filter (fun kf => negb (name_eqb nm (fst kf))) d.
Definition store (nm : name) (f : list N) (d : dir) : dir := (nm, f) :: remove nm d.

Definition save (nm : name) (t : Z) (data : list N) (d : dir) : dir :=
  store nm (save_file (match lookup nm d with Some f => f | None => [] end) t data) d.
Definition crash_save (nm : name) (t : Z) (data : list N) (ps : list N) (d : dir) : dir :=
  store nm (crash_file (match lookup nm d with Some f => f | None => [] end) (new_image t data) ps) d.
(* load: a file that cannot be read is unlinked *)
Definition load (now : Z) (nm : name) (d : dir) : option (Z * list N) * dir :=
  match lookup nm d with
  | None => (None, d)
  | Some f => match read_from_file now f with
              | Some r => (Some r, d)
              | None => (None, remove nm d)
              end
  end.
Definition isxdigit (c : N) : bool :=
  ((48 <=? c) && (c <=? 57)) || ((97 <=? c) && (c <=? 102)) || ((65 <=? c) && (c <=? 70)).
Definition valid_name (nm : name) : bool := (length nm =? 32)%nat && forallb isxdigit nm.
Definition gc (now : Z) (d : dir) : dir :=
  filter (fun kf => negb (valid_name (fst kf)) || timestamp_ok now (snd kf)) d.

(* ---------- the allocation in read_from_file ----------
   std::vector<char> buffer(size,0) is allocated from the size field before anything is known about the file length.
   With limit bytes of memory available the allocation throws std::bad_alloc, which leaves load() as an exception:
   nothing is returned and nothing is unlinked.  The tests that come before it: 8 bytes readable, deadline, 16 bytes. *)
Inductive lres := LNone | LSome (t : Z) (d : list N) | LExc.
Definition alloc_fails (limit : N) (now : Z) (f : list N) : bool :=
  negb (length f <? 16)%nat && negb (hdr_deadline f <? now)%Z && (limit <? hdr_size f).
Definition load_limited (limit : N) (now : Z) (nm : name) (d : dir) : lres * dir :=
  match lookup nm d with
  | Some f =>
      if alloc_fails limit now f then (LExc, d)
      else match load now nm d with
           | (Some (t, x), d') => (LSome t x, d')
           | (None, d') => (LNone, d')
           end
  | None => (LNone, d)
  end.

(* ---------- session_sid (src/session_sid.cpp): the only caller of the storage ----------
   valid_sid: the cookie is the letter I followed by exactly 32 lower-case hex digits (char is signed: bytes >= 128 fail
   both range tests, as they do here); load: valid_sid, storage load, and a second expiry test time(0) > timeout
   that removes the session. *)
Definition is_low_xdigit (c : N) : bool := ((48 <=? c) && (c <=? 57)) || ((97 <=? c) && (c <=? 102)).
Definition valid_sid (cookie : list N) : option name :=
  match cookie with
  | 73 :: id => if (length id =? 32)%nat && forallb is_low_xdigit id then Some id else None
  | _ => None
  end.
Definition sid_load (now : Z) (cookie : list N) (d : dir) : option (Z * list N) * dir :=
  match valid_sid cookie with
  | None => (None, d)
  | Some id =>
      match load now id d with
      | (Some (t, data), d') => if (t <? now)%Z then (None, remove id d') else (Some (t, data), d')
      | (None, d') => (None, d')
      end
  end.

(* ---------- histories of one session file (None = no file) ---------- *)
Inductive op :=
| OSave (t : Z) (d : list N)
| OCrash (t : Z) (d : list N) (ps : list N)
| ORemove
| OLoad (now : Z)
| OGc (now : Z).
Definition cur (s : option (list N)) : list N := match s with Some f => f | None => [] end.
Definition step (s : option (list N)) (o : op) : option (list N) :=
  match o with
  | OSave t d => Some (save_file (cur s) t d)
  | OCrash t d ps => Some (crash_file (cur s) (new_image t d) ps)
  | ORemove => None
  | OLoad now => match s with
                 | Some f => match read_from_file now f with Some _ => s | None => None end
                 | None => None
                 end
  | OGc now => match s with
               | Some f => if timestamp_ok now f then s else None
               | None => None
               end
  end.
Definition run (ops : list op) : option (list N) := fold_left step ops None.
Fixpoint saves_of (ops : list op) : list (Z * list N) :=
  match ops with
  | [] => []
  | OSave t d :: r => (t, d) :: saves_of r
  | OCrash t d _ :: r => (t, d) :: saves_of r
  | _ :: r => saves_of r
  end.
