(* C18: executable model of cppcms::sessions::session_file_storage (src/session_posix_file_storage.cpp):
   record layout, save_to_file / write_all, read_from_file / read_all, load, remove, gc / read_timestamp,
   CRC-32 (private/crc32.h: zlib crc32 or the bundled table), and the crash model of a save.
   Bytes are N (< 256 by hypothesis), a file is a byte list, time_t / int64_t values are Z.
   No proofs here: this file must keep compiling (and extracting) when a proof breaks. *)
From Coq Require Import NArith ZArith List Bool.
Import ListNotations.
Local Open Scope N_scope.

(* ---------- CRC-32, reflected polynomial 0xEDB88320, bit by bit ---------- *)
Definition POLY : N := 3988292384.
Definition M32 : N := 4294967295.
Definition crc_bit (s : N) : N := if N.odd s then N.lxor (N.div2 s) POLY else N.div2 s.
Definition crc_bits8 (s : N) : N :=
  crc_bit (crc_bit (crc_bit (crc_bit (crc_bit (crc_bit (crc_bit (crc_bit s))))))).
Definition crc_byte (s b : N) : N := crc_bits8 (N.lxor s b).
Definition crc_update (s : N) (l : list N) : N := fold_left crc_byte l s.
(* crc32_calc: value_ = 0; process_bytes(p,n) = crc32(value_,p,n) (skipped for n = 0); checksum() *)
Definition crc32 (l : list N) : N := N.lxor (crc_update M32 l) M32.

(* the class cppcms::impl::crc32_calc (private/crc32.h), which is all that save_to_file and read_from_file use:
   value_ = 0;  process_bytes(p,n): if(n==0) return; value_ = crc32(value_,p,n);  checksum(): value_.
   zlib's crc32(crc,buf,len) continues a finished CRC: it undoes the final xor, feeds the bytes, and xors again. *)
Definition zcrc (v : N) (l : list N) : N := N.lxor (crc_update (N.lxor v M32) l) M32.
Definition process_bytes (v : N) (l : list N) : N := match l with [] => v | _ => zcrc v l end.
Definition crc32_calc (chunks : list (list N)) : N := fold_left process_bytes chunks 0.

(* byte-at-a-time table form (the bundled Crc32_ComputeBuf of private/crc32.h) *)
Definition crc_table_entry (i : N) : N := crc_bits8 i.
Definition crc_byte_tab (s b : N) : N := N.lxor (s / 256) (crc_table_entry (N.lxor s b mod 256)).

(* ---------- little-endian fields (x86-64: the struct is written as it lies in memory) ---------- *)
Fixpoint le_bytes (k : nat) (v : N) : list N :=
  match k with O => [] | S k' => (v mod 256) :: le_bytes k' (v / 256) end.
Fixpoint le_val (l : list N) : N :=
  match l with [] => 0 | b :: r => b + 256 * le_val r end.
Definition enc_s64 (z : Z) : list N := le_bytes 8 (Z.to_N (z mod 2 ^ 64)%Z).
Definition dec_s64 (l : list N) : Z :=
  let v := Z.of_N (le_val l) in if (v <? 2 ^ 63)%Z then v else (v - 2 ^ 64)%Z.

(* ---------- save_to_file ---------- *)
(* write_all(fd, in.data(), in.size()) takes an int: the low 32 bits of the size, as a signed number;
   a non-positive count writes nothing and reports success *)
Definition int_of_size (n : nat) : Z :=
  let m := (Z.of_nat n mod 2 ^ 32)%Z in if (m <? 2 ^ 31)%Z then m else (m - 2 ^ 32)%Z.
Definition data_written (d : list N) : list N :=
  let n := int_of_size (length d) in if (n <=? 0)%Z then [] else firstn (Z.to_nat n) d.
(* struct { int64_t timeout; uint32_t crc; uint32_t size; }  size = static_cast<uint32_t>(in.size()) *)
Definition header (t : Z) (d : list N) : list N :=
  enc_s64 t ++ le_bytes 4 (crc32 d) ++ le_bytes 4 (N.of_nat (length d) mod 2 ^ 32).
(* the sequence of write() calls of one save: (file offset, bytes); an empty payload issues no second call *)
Definition save_writes (t : Z) (d : list N) : list (N * list N) :=
  (0, header t d) :: match data_written d with [] => [] | w => [(16, w)] end.
(* what a completed save leaves behind: everything it wrote, contiguous from offset 0 *)
Definition new_image (t : Z) (d : list N) : list N := header t d ++ data_written d.
(* the file is opened without O_TRUNC: bytes of the old file beyond the new image stay *)
Definition overlay (img F : list N) : list N := img ++ skipn (length img) F.
Definition save_file (F : list N) (t : Z) (d : list N) : list N := overlay (new_image t d) F.

(* ---------- write_all with short writes ----------
   write_all(fd,buf,n): while(n > 0) { res = write(fd,buf,n); ...; n -= res; buf += res; }   (buf += res since /repo 74c63d5;
   before that the pointer was not advanced and the next call sent the BEGINNING of the buffer again).
   adv = true: the loop as it is now; adv = false: the loop before the repair, kept only to state the regression Examples.
   acc lists how many bytes the successive write() calls of one save accept at most (0 or exhausted list = everything asked).
   Result: the chunks written, in order, and the rest of acc for the next write_all of the same save. *)
Fixpoint write_all_gen (adv : bool) (fuel : nat) (buf : list N) (n : nat) (acc : list nat) : list (list N) * list nat :=
  match fuel with
  | O => ([], acc)
  | S fu =>
      if (n =? 0)%nat then ([], acc)
      else match acc with
           | [] => ([firstn n buf], [])
           | k :: acc' =>
               let w := if (k =? 0)%nat || (n <=? k)%nat then n else k in
               let (rest, acc'') := write_all_gen adv fu (if adv then skipn w buf else buf) (n - w) acc' in
               (firstn w buf :: rest, acc'')
           end
  end.
Definition short_chunks_gen (adv : bool) (t : Z) (d : list N) (acc : list nat) : list (list N) :=
  let (h, acc1) := write_all_gen adv 16 (header t d) 16 acc in
  let dw := data_written d in
  let (b, _) := write_all_gen adv (length dw) dw (length dw) acc1 in h ++ b.
Definition write_all_short := write_all_gen true.
Definition short_chunks := short_chunks_gen true.
Definition short_image_gen (adv : bool) (t : Z) (d : list N) (acc : list nat) : list N := concat (short_chunks_gen adv t d acc).
Definition short_image := short_image_gen true.
Definition save_file_short (F : list N) (t : Z) (d : list N) (acc : list nat) : list N := overlay (short_image t d acc) F.
(* before the repair *)
Definition save_file_stuck (F : list N) (t : Z) (d : list N) (acc : list nat) : list N := overlay (short_image_gen false t d acc) F.

(* ---------- read_from_file ---------- *)
Definition hdr_deadline (f : list N) : Z := dec_s64 (firstn 8 f).
Definition hdr_crc (f : list N) : N := le_val (firstn 4 (skipn 8 f)).
Definition hdr_size (f : list N) : N := le_val (firstn 4 (skipn 12 f)).
(* the tests read_from_file makes before it looks at the size field: 8 bytes readable, deadline, 16 bytes readable *)
Definition hdr_readable (now : Z) (f : list N) : bool :=
  negb (length f <? 8)%nat && negb (hdr_deadline f <? now)%Z && negb (length f <? 16)%nat.
(* fstat(fd): st_size < 16 || uint64_t(st_size) - 16 < size  ->  return false, BEFORE the buffer is allocated
   (repair c47a865; the loader needs the file length here, it is the length of the byte list) *)
Definition size_fits (f : list N) : bool := negb (length f <? 16)%nat && negb (N.of_nat (length f - 16) <? hdr_size f).
Definition read_from_file (now : Z) (f : list N) : option (Z * list N) :=
  if (length f <? 8)%nat then None                      (* read_all(&f_timeout,8) fails *)
  else if (hdr_deadline f <? now)%Z then None           (* f_timeout < time(0) *)
  else if (length f <? 16)%nat then None                (* read_all(&crc,4) or read_all(&size,4) fails *)
  else
    let size := hdr_size f in
    if negb (size_fits f) then None                     (* the record does not fit into the file: nothing allocated *)
    else if 2 ^ 31 <=? size then
      (* (a file of at least 2 GiB + 16 bytes) read_all(fd,&buffer.front(),size): the count is an int, negative
         here, nothing is read and the call succeeds; the buffer keeps its zero fill *)
      let data := repeat 0 (N.to_nat size) in
      if crc32 data =? hdr_crc f then Some (hdr_deadline f, data) else None
    else
      (* read_all cannot fail any more: size bytes are there; trailing bytes beyond 16 + size are ignored *)
      let data := firstn (N.to_nat size) (skipn 16 f) in
      if crc32 data =? hdr_crc f then Some (hdr_deadline f, data) else None.

(* ---------- read_all with short reads ----------
   read_all(fd,buf,n) has the same loop (buf += res since 74c63d5): every read() deposits what it got where the previous one
   stopped; before the repair (adv = false) at the START of the buffer.  Modelled for the data buffer only
   (std::vector<char>(size,0), zero-filled).  acc = how many bytes the successive read() calls for the data return at most
   (0 or exhausted = everything asked).  None = a read() returned 0 (end of file). *)
Fixpoint read_all_gen (adv : bool) (fuel : nat) (done buf src : list N) (n : nat) (acc : list nat) : option (list N) :=
  match fuel with
  | O => if (n =? 0)%nat then Some (done ++ buf) else None
  | S fu =>
      if (n =? 0)%nat then Some (done ++ buf)
      else
        let k := match acc with [] => n | k :: _ => if (k =? 0)%nat then n else Nat.min k n end in
        let w := Nat.min k (length src) in
        if (w =? 0)%nat then None
        else if adv then read_all_gen adv fu (done ++ firstn w src) (skipn w buf) (skipn w src) (n - w) (tl acc)
        else read_all_gen adv fu done (firstn w src ++ skipn w buf) (skipn w src) (n - w) (tl acc)
  end.
Definition read_from_file_gen (adv : bool) (now : Z) (f : list N) (acc : list nat) : option (Z * list N) :=
  if negb (hdr_readable now f) then None
  else
    let size := hdr_size f in
    if negb (size_fits f) then None
    else if 2 ^ 31 <=? size then read_from_file now f
    else
      let n := N.to_nat size in
      match read_all_gen adv n [] (repeat 0 n) (skipn 16 f) n acc with
      | Some data => if crc32 data =? hdr_crc f then Some (hdr_deadline f, data) else None
      | None => None
      end.
Definition read_from_file_short := read_from_file_gen true.

(* read_timestamp (used by gc) *)
Definition timestamp_ok (now : Z) (f : list N) : bool :=
  if (length f <? 8)%nat then false else negb (hdr_deadline f <? now)%Z.

(* ---------- crash model of one save ----------
   new = new_image t d is the byte stream the save puts into the page cache, in order (header first).
   Every 512-byte sector s of the file reaches the disk independently, as it was when p_s bytes of
   that stream had been applied (p_s = 0: the old sector; the header is atomic: p_s = 0 or >= 16).
   ps lists p_0, p_1, ...; sectors not listed are old.  The file is never truncated; it is as long as
   the furthest byte that reached the disk; bytes of a longer file that never reached it read as 0.
   The family named in the property (prefix of write calls x byte prefix x subset of sectors) is
   the special case where all non-zero p_s are equal. *)
Definition SECT : N := 512.
Fixpoint reach (s : N) (ps : list N) (nl : N) : N :=
  match ps with
  | [] => 0
  | p :: r => let e := N.min (N.min p nl) (SECT * (s + 1)) in
              N.max (if SECT * s <? e then e else 0) (reach (s + 1) r nl)
  end.
Definition crash_len (F new : list N) (ps : list N) : N :=
  N.max (N.of_nat (length F)) (reach 0 ps (N.of_nat (length new))).
Fixpoint mixb (i : N) (ps : list N) (new Fz : list N) : list N :=
  match Fz with
  | [] => []
  | f :: Fz' =>
      (match new with
       | n :: _ => if i <? nth (N.to_nat (N.shiftr i 9)) ps 0 then n else f
       | [] => f
       end) :: mixb (i + 1) ps (tl new) Fz'
  end.
Definition crash_file (F new : list N) (ps : list N) : list N :=
  mixb 0 ps new (F ++ repeat 0 (N.to_nat (crash_len F new ps) - length F)).
Definition ps_ok (ps : list N) : Prop := Forall (fun p => p = 0 \/ 16 <= p) ps.
Definition ps_okb (ps : list N) : bool := forallb (fun p => (p =? 0) || (16 <=? p)) ps.

(* ---------- directory: load, remove, gc ---------- *)
Definition name := list N.
Fixpoint name_eqb (a b : name) : bool :=
  match a, b with
  | [], [] => true
  | x :: a', y :: b' => (x =? y) && name_eqb a' b'
  | _, _ => false
  end.
Definition dir := list (name * list N).
Fixpoint lookup (nm : name) (d : dir) : option (list N) :=
  match d with
  | [] => None
  | (k, f) :: r => if name_eqb nm k then Some f else lookup nm r
  end.
Definition remove (nm : name) (d : dir) : dir := filter (fun kf => negb (name_eqb nm (fst kf))) d.
Definition store (nm : name) (f : list N) (d : dir) : dir := (nm, f) :: remove nm d.

Definition save (nm : name) (t : Z) (data : list N) (d : dir) : dir :=
  store nm (save_file (match lookup nm d with Some f => f | None => [] end) t data) d.
Definition save_short (nm : name) (t : Z) (data : list N) (acc : list nat) (d : dir) : dir :=
  store nm (save_file_short (match lookup nm d with Some f => f | None => [] end) t data acc) d.
Definition crash_save (nm : name) (t : Z) (data : list N) (ps : list N) (d : dir) : dir :=
  store nm (crash_file (match lookup nm d with Some f => f | None => [] end) (new_image t data) ps) d.
(* load: a file that cannot be read is unlinked *)
Definition load (now : Z) (nm : name) (d : dir) : option (Z * list N) * dir :=
  match lookup nm d with
  | None => (None, d)
  | Some f => match read_from_file now f with
              | Some r => (Some r, d)
              | None => (None, remove nm d)
              end
  end.
Definition load_short (now : Z) (nm : name) (acc : list nat) (d : dir) : option (Z * list N) * dir :=
  match lookup nm d with
  | None => (None, d)
  | Some f => match read_from_file_short now f acc with
              | Some r => (Some r, d)
              | None => (None, remove nm d)
              end
  end.
Definition isxdigit (c : N) : bool :=
  ((48 <=? c) && (c <=? 57)) || ((97 <=? c) && (c <=? 102)) || ((65 <=? c) && (c <=? 70)).
Definition valid_name (nm : name) : bool := (length nm =? 32)%nat && forallb isxdigit nm.
Definition gc (now : Z) (d : dir) : dir :=
  filter (fun kf => negb (valid_name (fst kf)) || timestamp_ok now (snd kf)) d.

(* ---------- the allocation in read_from_file ----------
   std::vector<char> buffer(size,0) is allocated from the size field, after the header tests and (since c47a865) after
   the size field has been compared with the file length.  alloc_size = the number of bytes requested (0 = the
   allocation is not reached).  With limit bytes of memory available a larger request throws std::bad_alloc, which
   leaves load() as an exception: nothing is returned and nothing is unlinked. *)
Inductive lres := LNone | LSome (t : Z) (d : list N) | LExc.
Definition alloc_size (now : Z) (f : list N) : N :=
  if hdr_readable now f && size_fits f then hdr_size f else 0.
Definition alloc_fails (limit : N) (now : Z) (f : list N) : bool := limit <? alloc_size now f.
(* the reader as it was before the repair (allocation straight from the size field): kept only to state the regression *)
Definition alloc_size_unchecked (now : Z) (f : list N) : N := if hdr_readable now f then hdr_size f else 0.
Definition load_limited (limit : N) (now : Z) (nm : name) (d : dir) : lres * dir :=
  match lookup nm d with
  | Some f =>
      if alloc_fails limit now f then (LExc, d)
      else match load now nm d with
           | (Some (t, x), d') => (LSome t x, d')
           | (None, d') => (LNone, d')
           end
  | None => (LNone, d)
  end.

(* ---------- session_sid (src/session_sid.cpp): the only caller of the storage ----------
   valid_sid: the cookie is the letter I followed by exactly 32 lower-case hex digits (char is signed: bytes >= 128 fail
   both range tests, as they do here); load: valid_sid, storage load, and a second expiry test time(0) > timeout
   that removes the session. *)
Definition is_low_xdigit (c : N) : bool := ((48 <=? c) && (c <=? 57)) || ((97 <=? c) && (c <=? 102)).
Definition valid_sid (cookie : list N) : option name :=
  match cookie with
  | 73 :: id => if (length id =? 32)%nat && forallb is_low_xdigit id then Some id else None
  | _ => None
  end.
Definition sid_load (now : Z) (cookie : list N) (d : dir) : option (Z * list N) * dir :=
  match valid_sid cookie with
  | None => (None, d)
  | Some id =>
      match load now id d with
      | (Some (t, data), d') => if (t <? now)%Z then (None, remove id d') else (Some (t, data), d')
      | (None, d') => (None, d')
      end
  end.

(* ---------- histories of one session file (None = no file) ---------- *)
Inductive op :=
| OSave (t : Z) (d : list N)
| OCrash (t : Z) (d : list N) (ps : list N)
| ORemove
| OLoad (now : Z)
| OGc (now : Z).
Definition cur (s : option (list N)) : list N := match s with Some f => f | None => [] end.
Definition step (s : option (list N)) (o : op) : option (list N) :=
  match o with
  | OSave t d => Some (save_file (cur s) t d)
  | OCrash t d ps => Some (crash_file (cur s) (new_image t d) ps)
  | ORemove => None
  | OLoad now => match s with
                 | Some f => match read_from_file now f with Some _ => s | None => None end
                 | None => None
                 end
  | OGc now => match s with
               | Some f => if timestamp_ok now f then s else None
               | None => None
               end
  end.
Definition run (ops : list op) : option (list N) := fold_left step ops None.
Fixpoint saves_of (ops : list op) : list (Z * list N) :=
  match ops with
  | [] => []
  | OSave t d :: r => (t, d) :: saves_of r
  | OCrash t d _ :: r => (t, d) :: saves_of r
  | _ :: r => saves_of r
  end.
