(* C18 proofs, part 6: what the 32-bit CRC does guarantee for torn states: two payloads of the same length that
   differ only inside a window of at most 4 consecutive bytes never have the same CRC-32.  (A collision as in
   crash_collision_witness therefore needs old and new bytes that differ over more than 32 bits.) *)
From CppcmsV Require Import Base.Tac Base.Sweep C18.Defs C18.Proofs C18.Link C18.Crash.
Local Open Scope N_scope.

Lemma lxor_cancel_r a b c : N.lxor a c = N.lxor b c -> a = b.
Proof.
  intros H. apply N.lxor_eq.
  replace (N.lxor a b) with (N.lxor (N.lxor a c) (N.lxor b c)) by bits.
  rewrite H. apply N.lxor_nilpotent.
Qed.

Lemma testbit31_ge a : N.testbit a 31 = true -> 2 ^ 31 <= a.
Proof.
  intros H. apply N.testbit_true in H. change (2 ^ 31) with 2147483648 in *.
  destruct (N.le_gt_cases 2147483648 a) as [L|L]; [exact L|].
  rewrite N.div_small in H by exact L. discriminate.
Qed.

Lemma testbit31_small a : a < 2 ^ 31 -> N.testbit a 31 = false.
Proof.
  intros H. apply N.testbit_false. rewrite N.div_small by exact H. reflexivity.
Qed.

(* a step whose result has bit 31 clear did not xor the polynomial in: the input was even *)
Lemma crc_bit_small D : D < 2 ^ 32 -> crc_bit D < 2 ^ 31 -> D = 2 * crc_bit D.
Proof.
  intros HD Hc. unfold crc_bit in *. rewrite N.div2_div in *.
  assert (D / 2 < 2 ^ 31) as Hh by (change (2 ^ 31) with 2147483648; change (2 ^ 32) with 4294967296 in HD; lia).
  destruct (N.odd D) eqn:Eo.
  - exfalso. assert (N.testbit (N.lxor (D / 2) POLY) 31 = true) as Ht.
    { rewrite N.lxor_spec, (testbit31_small _ Hh). vm_compute. reflexivity. }
    apply testbit31_ge in Ht. lia.
  - assert (N.even D = true) as Ee by (rewrite <- N.negb_odd, Eo; reflexivity).
    apply N.even_spec in Ee. destruct Ee as [k ->]. rewrite N.mul_comm, N.div_mul by lia. lia.
Qed.

Lemma crc_bit_lt' s : s < 2 ^ 32 -> crc_bit s < 2 ^ 32.
Proof. apply crc_bit_lt. Qed.

(* eight steps: a result below 2^24 means the low byte of the input was zero and the rest was just shifted *)
Lemma crc_bits8_small D : D < 2 ^ 32 -> crc_bits8 D < 2 ^ 24 -> D = 256 * crc_bits8 D.
Proof.
  intros HD Hc. unfold crc_bits8 in *.
  set (c1 := crc_bit D) in *. set (c2 := crc_bit c1) in *. set (c3 := crc_bit c2) in *. set (c4 := crc_bit c3) in *.
  set (c5 := crc_bit c4) in *. set (c6 := crc_bit c5) in *. set (c7 := crc_bit c6) in *. set (c8 := crc_bit c7) in *.
  assert (c1 < 2 ^ 32) as B1 by (apply crc_bit_lt; exact HD).
  assert (c2 < 2 ^ 32) as B2 by (apply crc_bit_lt; exact B1).
  assert (c3 < 2 ^ 32) as B3 by (apply crc_bit_lt; exact B2).
  assert (c4 < 2 ^ 32) as B4 by (apply crc_bit_lt; exact B3).
  assert (c5 < 2 ^ 32) as B5 by (apply crc_bit_lt; exact B4).
  assert (c6 < 2 ^ 32) as B6 by (apply crc_bit_lt; exact B5).
  assert (c7 < 2 ^ 32) as B7 by (apply crc_bit_lt; exact B6).
  change (2 ^ 24) with 16777216 in Hc.
  assert (c7 = 2 * c8) as E7 by (apply crc_bit_small; [exact B7|fold c8; change (2 ^ 31) with 2147483648; lia]).
  assert (c6 = 2 * c7) as E6 by (apply crc_bit_small; [exact B6|fold c7; change (2 ^ 31) with 2147483648; lia]).
  assert (c5 = 2 * c6) as E5 by (apply crc_bit_small; [exact B5|fold c6; change (2 ^ 31) with 2147483648; lia]).
  assert (c4 = 2 * c5) as E4 by (apply crc_bit_small; [exact B4|fold c5; change (2 ^ 31) with 2147483648; lia]).
  assert (c3 = 2 * c4) as E3 by (apply crc_bit_small; [exact B3|fold c4; change (2 ^ 31) with 2147483648; lia]).
  assert (c2 = 2 * c3) as E2 by (apply crc_bit_small; [exact B2|fold c3; change (2 ^ 31) with 2147483648; lia]).
  assert (c1 = 2 * c2) as E1 by (apply crc_bit_small; [exact B1|fold c2; change (2 ^ 31) with 2147483648; lia]).
  assert (D = 2 * c1) as E0 by (apply crc_bit_small; [exact HD|fold c1; change (2 ^ 31) with 2147483648; lia]).
  lia.
Qed.

Lemma crc_bits8_lt s : s < 2 ^ 32 -> crc_bits8 s < 2 ^ 32.
Proof. intros H. unfold crc_bits8. do 8 apply crc_bit_lt. exact H. Qed.

Lemma crc_bits8_0 : crc_bits8 0 = 0.
Proof. reflexivity. Qed.

(* the difference of two CRC states that started equal, fed e0, e1, ... = the xor of the two byte streams *)
Fixpoint dfold (D : N) (es : list N) : N :=
  match es with
  | [] => crc_bits8 D
  | e :: r => dfold (N.lxor (crc_bits8 D) e) r
  end.
Fixpoint xors (x y : list N) : list N :=
  match x, y with a :: x', b :: y' => N.lxor a b :: xors x' y' | _, _ => [] end.

Lemma lt256_lt32 e : e < 256 -> e < 2 ^ 32.
Proof. change (2 ^ 32) with 4294967296. lia. Qed.

Lemma lxor_byte_lt a b : a < 256 -> b < 256 -> N.lxor a b < 256.
Proof. intros Ha Hb. change 256 with (2 ^ 8). apply lxor_lt_pow2; assumption. Qed.

Lemma crc_update_diff x : forall y s s' a b,
  length x = length y ->
  N.lxor (crc_update s (a :: x)) (crc_update s' (b :: y)) = dfold (N.lxor (N.lxor s s') (N.lxor a b)) (xors x y).
Proof.
  induction x as [|a' x IH]; intros y s s' a b Hl; destruct y as [|b' y]; try discriminate Hl.
  - cbn [xors dfold]. unfold crc_update. cbn [fold_left]. unfold crc_byte. rewrite <- crc_bits8_lxor. f_equal. bits.
  - cbn [xors dfold]. injection Hl as Hl.
    change (crc_update s (a :: a' :: x)) with (crc_update (crc_byte s a) (a' :: x)).
    change (crc_update s' (b :: b' :: y)) with (crc_update (crc_byte s' b) (b' :: y)).
    rewrite IH by exact Hl. f_equal. f_equal. unfold crc_byte. rewrite <- crc_bits8_lxor. f_equal. bits.
Qed.

(* backwards: if the fold ends in 0 after at most 3 more bytes, D had a zero low byte and was small *)
Lemma dfold_zero_back es : forall D, D < 2 ^ 32 -> Forall (fun e => e < 256) es -> (length es <= 3)%nat ->
  dfold D es = 0 -> D = 256 * crc_bits8 D /\ crc_bits8 D < 2 ^ (8 * N.of_nat (length es)).
Proof.
  induction es as [|e r IH]; intros D HD He Hl H.
  - cbn [dfold] in H. rewrite H. split; [|cbn; lia].
    rewrite (crc_bits8_small D HD) by (rewrite H; cbn; lia). rewrite H. reflexivity.
  - cbn [dfold] in H. cbn [length] in Hl.
    pose proof (Forall_inv He) as He0. apply Forall_inv_tail in He.
    assert (N.lxor (crc_bits8 D) e < 2 ^ 32) as HD'.
    { apply lxor_lt_pow2; [apply crc_bits8_lt; exact HD|apply lt256_lt32; exact He0]. }
    destruct (IH _ HD' He ltac:(lia) H) as [E1 E2].
    set (k := N.of_nat (length r)) in *.
    assert (k <= 2) as Hk by (unfold k; lia).
    (* D' = lxor (B D) e = 256 * B D' with B D' < 2^(8k): so D' < 2^(8(k+1)) and B D = D' xor e < 2^(8(k+1)) *)
    assert (N.lxor (crc_bits8 D) e < 2 ^ (8 * (k + 1))) as HB'.
    { rewrite E1. replace (8 * (k + 1)) with (8 + 8 * k) by lia. rewrite N.pow_add_r. change (2 ^ 8) with 256.
      apply N.mul_lt_mono_pos_l; [lia|exact E2]. }
    assert (crc_bits8 D < 2 ^ (8 * (k + 1))) as HB.
    { replace (crc_bits8 D) with (N.lxor (N.lxor (crc_bits8 D) e) e) by bits.
      apply lxor_lt_pow2; [exact HB'|].
      apply N.lt_le_trans with (2 ^ 8); [exact He0|]. apply N.pow_le_mono_r; lia. }
    assert (2 ^ (8 * (k + 1)) <= 2 ^ 24) as Hp by (apply N.pow_le_mono_r; lia).
    split.
    + apply crc_bits8_small; [exact HD|lia].
    + cbn [length]. replace (N.of_nat (S (length r))) with (k + 1) by (unfold k; lia). exact HB.
Qed.

(* forwards: starting from a byte, everything must have been zero *)
Lemma dfold_zero es : forall D, D < 256 -> Forall (fun e => e < 256) es -> (length es <= 3)%nat ->
  dfold D es = 0 -> D = 0 /\ Forall (fun e => e = 0) es.
Proof.
  induction es as [|e r IH]; intros D HD He Hl H.
  - destruct (dfold_zero_back [] D (lt256_lt32 D HD) He Hl H) as [E _]. split; [lia|constructor].
  - destruct (dfold_zero_back (e :: r) D (lt256_lt32 D HD) He Hl H) as [E _].
    assert (D = 0) as -> by lia.
    cbn [dfold] in H. rewrite crc_bits8_0, N.lxor_0_l in H.
    pose proof (Forall_inv He) as He0. apply Forall_inv_tail in He. cbn [length] in Hl.
    destruct (IH e He0 He ltac:(lia) H) as [E0 Er]. split; [reflexivity|constructor; assumption].
Qed.

Lemma xors_zero x : forall y, length x = length y -> Forall (fun e => e = 0) (xors x y) -> x = y.
Proof.
  induction x as [|a x IH]; intros [|b y] Hl H; try discriminate Hl; [reflexivity|].
  cbn [xors] in H. injection Hl as Hl. pose proof (Forall_inv H) as H0. apply Forall_inv_tail in H.
  apply N.lxor_eq in H0. subst b. f_equal. apply IH; assumption.
Qed.

Lemma xors_bytes x : forall y, bytes_ok x -> bytes_ok y -> Forall (fun e => e < 256) (xors x y).
Proof.
  induction x as [|a x IH]; intros [|b y] Hx Hy; cbn [xors]; try constructor.
  - apply bytes_ok_cons in Hx. apply bytes_ok_cons in Hy. apply lxor_byte_lt; [apply Hx|apply Hy].
  - apply bytes_ok_cons in Hx. apply bytes_ok_cons in Hy. apply IH; [apply Hx|apply Hy].
Qed.

Lemma length_xors x : forall y, length x = length y -> length (xors x y) = length x.
Proof.
  induction x as [|a x IH]; intros [|b y] Hl; try discriminate Hl; [reflexivity|].
  cbn [xors length]. injection Hl as Hl. rewrite IH by exact Hl. reflexivity.
Qed.

(* same start state, windows of equal length 1..4, same state afterwards: the windows are equal *)
Lemma crc_window_inj s x y :
  bytes_ok x -> bytes_ok y -> length x = length y -> (length x <= 4)%nat ->
  crc_update s x = crc_update s y -> x = y.
Proof.
  intros Hx Hy Hl H4 H.
  destruct x as [|a x], y as [|b y]; try discriminate Hl; [reflexivity|].
  injection Hl as Hl. cbn [length] in H4.
  assert (N.lxor (crc_update s (a :: x)) (crc_update s (b :: y)) = 0) as Hz by (rewrite H; apply N.lxor_nilpotent).
  rewrite crc_update_diff in Hz by exact Hl. rewrite N.lxor_nilpotent, N.lxor_0_l in Hz.
  apply bytes_ok_cons in Hx. apply bytes_ok_cons in Hy. destruct Hx as [Ha Hx], Hy as [Hb Hy].
  destruct (dfold_zero (xors x y) (N.lxor a b) (lxor_byte_lt a b Ha Hb) (xors_bytes x y Hx Hy)
              ltac:(rewrite length_xors by exact Hl; lia) Hz) as [E0 Er].
  apply N.lxor_eq in E0. subst b. f_equal. apply xors_zero; assumption.
Qed.

(* the same suffix cannot bring two different 32-bit states together *)
Lemma crc_bits8_inj u v : u < 2 ^ 32 -> v < 2 ^ 32 -> crc_bits8 u = crc_bits8 v -> u = v.
Proof.
  intros Hu Hv H. apply N.lxor_eq.
  assert (N.lxor u v < 2 ^ 32) as Huv by (apply lxor_lt_pow2; assumption).
  assert (crc_bits8 (N.lxor u v) = 0) as Hz by (rewrite crc_bits8_lxor, H; apply N.lxor_nilpotent).
  rewrite (crc_bits8_small _ Huv) by (rewrite Hz; cbn; lia). rewrite Hz. reflexivity.
Qed.

Lemma crc_suffix_inj suf : forall s1 s2, s1 < 2 ^ 32 -> s2 < 2 ^ 32 -> bytes_ok suf ->
  crc_update s1 suf = crc_update s2 suf -> s1 = s2.
Proof.
  induction suf as [|b suf IH]; intros s1 s2 H1 H2 Hb H; [exact H|].
  apply bytes_ok_cons in Hb. destruct Hb as [Hb Hs].
  change (crc_update s1 (b :: suf)) with (crc_update (crc_byte s1 b) suf) in H.
  change (crc_update s2 (b :: suf)) with (crc_update (crc_byte s2 b) suf) in H.
  apply IH in H; [|apply crc_byte_lt; assumption|apply crc_byte_lt; assumption|exact Hs].
  unfold crc_byte in H. apply crc_bits8_inj in H.
  - apply lxor_cancel_r in H. exact H.
  - apply lxor_lt_pow2; [exact H1|apply lt256_lt32; exact Hb].
  - apply lxor_lt_pow2; [exact H2|apply lt256_lt32; exact Hb].
Qed.

Lemma crc32_burst_detected pre x y suf :
  bytes_ok pre -> bytes_ok x -> bytes_ok y -> bytes_ok suf ->
  length x = length y -> (length x <= 4)%nat ->
  crc32 (pre ++ x ++ suf) = crc32 (pre ++ y ++ suf) -> x = y.
Proof.
  intros Hp Hx Hy Hs Hl H4 H. unfold crc32 in H. apply lxor_cancel_r in H.
  rewrite !crc_update_app in H.
  assert (crc_update M32 pre < 2 ^ 32) as Hs0 by (apply crc_update_lt; [vm_compute; reflexivity|exact Hp]).
  apply crc_suffix_inj in H; [|apply crc_update_lt; assumption|apply crc_update_lt; assumption|exact Hs].
  apply (crc_window_inj (crc_update M32 pre)); assumption.
Qed.

(* what is read under the new header has the deadline, length and CRC of the new value *)
Lemma new_header_read now F t d p r t' d' :
  s64_ok t -> bytes_ok d -> small d -> 16 <= p ->
  read_from_file now (crash_file F (new_image t d) (p :: r)) = Some (t', d') ->
  t' = t /\ length d' = length d /\ crc32 d' = crc32 d.
Proof.
  intros Ht Hd Hs Hp Hr.
  pose proof (crash_header_new F t d p r Hs Hp) as E.
  set (C := crash_file F (new_image t d) (p :: r)) in *.
  destruct (read_spec now C t' d' Hr) as (_ & Et & _ & El & Ec & _).
  rewrite (hdr_deadline_16 C), E, hdr_deadline_header in Et by exact Ht.
  rewrite (hdr_crc_16 C), E, hdr_crc_header in Ec by exact Hd.
  rewrite (hdr_size_16 C), E, hdr_size_header in El.
  unfold small in Hs. rewrite N.mod_small in El by (change (2 ^ 32) with 4294967296; change (2 ^ 31) with 2147483648 in Hs; lia).
  repeat split; try assumption. lia.
Qed.

(* a torn state read under the new header that differs from the new value only inside a window of at most
   4 consecutive bytes is never accepted: if load returns it, it is the new value *)
Lemma torn_window_detected now F t d p r t' d' pre x y suf :
  s64_ok t -> bytes_ok d -> small d -> 16 <= p ->
  read_from_file now (crash_file F (new_image t d) (p :: r)) = Some (t', d') ->
  d = pre ++ y ++ suf -> d' = pre ++ x ++ suf -> bytes_ok x -> length x = length y -> (length x <= 4)%nat ->
  d' = d.
Proof.
  intros Ht Hd Hs Hp Hr Ed Ed' Hx Hl H4.
  destruct (new_header_read now F t d p r t' d' Ht Hd Hs Hp Hr) as (_ & _ & Ec).
  subst d d'. apply bytes_ok_app in Hd. destruct Hd as [Hpre Hd]. apply bytes_ok_app in Hd. destruct Hd as [Hy Hsuf].
  rewrite (crc32_burst_detected pre x y suf Hpre Hx Hy Hsuf Hl H4 Ec). reflexivity.
Qed.
