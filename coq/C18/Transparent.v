(* C18 proofs, part 11: histories that contain saves made of short writes and loads over short reads.  Both are transparent
   (ShortWrite.v, ShortRead.v), so every history theorem carries over by erasing the cut patterns. *)
From CppcmsV Require Import Base.Tac Base.Sweep C18.Defs C18.Proofs C18.Crash C18.History C18.AnyOld C18.Planted C18.ShortWrite C18.ShortRead.
Local Open Scope N_scope.

Inductive xop :=
| XOp (o : op)
| XSaveShort (t : Z) (d : list N) (acc : list nat)
| XLoadShort (now : Z) (acc : list nat).
Definition xstep (s : option (list N)) (x : xop) : option (list N) :=
  match x with
  | XOp o => step s o
  | XSaveShort t d acc => Some (save_file_short (cur s) t d acc)
  | XLoadShort now acc => match s with
                          | Some f => match read_from_file_short now f acc with Some _ => s | None => None end
                          | None => None
                          end
  end.
Definition erase (x : xop) : op :=
  match x with XOp o => o | XSaveShort t d _ => OSave t d | XLoadShort now _ => OLoad now end.
Definition xrun_from (s0 : option (list N)) (xs : list xop) : option (list N) := fold_left xstep xs s0.
Definition xop_ok (x : xop) : Prop := op_ok (erase x).

Lemma xstep_erase s x : xstep s x = step s (erase x).
Proof.
  destruct x as [o|t d acc|now acc]; cbn [xstep erase step]; [reflexivity| |].
  - rewrite save_file_short_eq. reflexivity.
  - destruct s as [f|]; [|reflexivity]. rewrite read_from_file_short_eq. reflexivity.
Qed.

Lemma xrun_erase xs : forall s0, xrun_from s0 xs = run_from s0 (map erase xs).
Proof.
  induction xs as [|x r IH]; intros s0; [reflexivity|].
  unfold xrun_from, run_from in *. cbn [fold_left map]. rewrite xstep_erase. apply IH.
Qed.

Lemma xok_erase xs : Forall xop_ok xs -> Forall op_ok (map erase xs).
Proof. intros H. apply Forall_map. exact H. Qed.

Lemma xhistory_load xs now t' d' :
  Forall xop_ok xs -> (0 < now)%Z ->
  read_from_file now (cur (xrun_from None xs)) = Some (t', d') ->
  exists t d, In (t, d) (saves_of (map erase xs)) /\ t' = t /\ (now <= t)%Z /\ length d' = length d /\ crc32 d' = crc32 d.
Proof.
  intros Hok Hn Hr. rewrite xrun_erase in Hr. apply (history_load (map erase xs) now t' d' (xok_erase xs Hok) Hn). exact Hr.
Qed.

Lemma xhistory_load_from G xs now t' d' :
  Forall xop_ok xs -> (0 < now)%Z ->
  read_from_file now (cur (xrun_from (Some G) xs)) = Some (t', d') ->
  (exists t d, In (t, d) (saves_of (map erase xs)) /\ t' = t /\ (now <= t)%Z /\ length d' = length d /\ crc32 d' = crc32 d) \/
  (t' = hdr_deadline (pad16 G) /\ (now <= t')%Z /\ N.of_nat (length d') = hdr_size (pad16 G) /\ crc32 d' = hdr_crc (pad16 G)).
Proof.
  intros Hok Hn Hr. rewrite xrun_erase in Hr. exact (history_load_from G (map erase xs) now t' d' (xok_erase xs Hok) Hn Hr).
Qed.

Lemma xhistory_crash_safe s0 xs now t d ps :
  op_ok (OCrash t d ps) -> (0 < now)%Z ->
  let F := cur (xrun_from s0 xs) in
  let res := read_from_file now (cur (xrun_from s0 (xs ++ [XOp (OCrash t d ps)]))) in
  res = None \/ res = Some (t, d) \/ res = read_from_file now (pad16 F) \/ collision now (pad16 F) t d res.
Proof.
  intros (Ht & Hd & Hs & Hps) Hnow F res. subst res.
  unfold xrun_from. rewrite fold_left_app. cbn [fold_left xstep step cur]. fold (xrun_from s0 xs). fold F.
  apply crash_safe_any_old; assumption.
Qed.

(* a save made of short writes at the end of any history (from any start) is read back exactly while alive, also by a load
   over short reads *)
Lemma xhistory_save_load s0 xs now t d acc racc :
  s64_ok t -> bytes_ok d -> small d ->
  read_from_file_short now (cur (xrun_from s0 (xs ++ [XSaveShort t d acc]))) racc = if (t <? now)%Z then None else Some (t, d).
Proof.
  intros Ht Hd Hs. rewrite read_from_file_short_eq. unfold xrun_from. rewrite fold_left_app. cbn [fold_left xstep cur].
  apply short_save_then_load; assumption.
Qed.

Definition x_ops : list xop :=
  [XSaveShort 5000 w_old [3%nat; 5%nat; 0%nat; 2%nat]; XOp (OGc 100); XLoadShort 100 [1%nat; 1%nat; 2%nat];
   XOp (OCrash 6000 w_new w_ps); XLoadShort 100 [2%nat]].
Lemma xhistory_nonvacuous :
  Forall xop_ok x_ops /\ read_from_file 100 (cur (xrun_from None x_ops)) = Some (6000%Z, w_mix) /\
  In (6000%Z, w_new) (saves_of (map erase x_ops)) /\
  xrun_from None [XSaveShort 5000 w_old [3%nat; 5%nat; 0%nat; 2%nat]; XLoadShort 100 [1%nat; 1%nat]] = Some w_F.
Proof.
  split.
  - destruct witness_hyps as (A & B & C & D & E & G).
    unfold x_ops. repeat (apply Forall_cons; [unfold xop_ok; cbn [erase op_ok]|]); [| | | | |apply Forall_nil];
      repeat split; try exact I; try assumption; try (unfold s64_ok; lia);
      try (apply bytes_okb_spec; vm_compute; reflexivity); try (unfold small; vm_compute; reflexivity).
  - split; [vm_compute; reflexivity|]. split; [cbn; right; left; reflexivity|]. vm_compute. reflexivity.
Qed.
