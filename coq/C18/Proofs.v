(* C18 proofs, part 1: encoding of the record, CRC range, read_from_file, save/load without a crash. *)
From CppcmsV Require Import Base.Tac Base.Sweep C18.Defs.
Local Open Scope N_scope.

(* ---------- list helpers ---------- *)
Lemma firstn_ext_nth (k : nat) : forall (a b : list N),
  (k <= length a)%nat -> (k <= length b)%nat ->
  (forall j, (j < k)%nat -> nth j a 0 = nth j b 0) -> firstn k a = firstn k b.
Proof.
  induction k as [|k IH]; intros a b Ha Hb H; [reflexivity|].
  destruct a as [|x a]; [cbn in Ha; lia|]. destruct b as [|y b]; [cbn in Hb; lia|].
  cbn [firstn]. f_equal.
  - exact (H 0%nat ltac:(lia)).
  - apply IH; cbn in Ha, Hb; try lia. intros j Hj. exact (H (S j) ltac:(lia)).
Qed.

Lemma nth_firstn_lt (k j : nat) (l : list N) : (j < k)%nat -> nth j (firstn k l) 0 = nth j l 0.
Proof.
  revert j l. induction k as [|k IH]; intros j l H; [lia|].
  destruct l as [|x l]; [destruct j; reflexivity|].
  destruct j as [|j]; [reflexivity|]. cbn [firstn nth]. apply IH. lia.
Qed.

Lemma nth_skipn_add (k j : nat) (l : list N) : nth j (skipn k l) 0 = nth (k + j) l 0.
Proof.
  revert l. induction k as [|k IH]; intros l; [reflexivity|].
  destruct l as [|x l]; [destruct j; reflexivity|]. cbn [skipn plus nth]. apply IH.
Qed.

Lemma nth_app_zeros (j k : nat) (l : list N) : nth j (l ++ repeat 0 k) 0 = nth j l 0.
Proof.
  destruct (Nat.lt_ge_cases j (length l)) as [H|H].
  - apply app_nth1. exact H.
  - rewrite app_nth2 by exact H. rewrite nth_repeat. symmetry. apply nth_overflow. exact H.
Qed.

Lemma firstn_repeat0 (k n : nat) : (k <= n)%nat -> firstn k (repeat 0 n) = repeat 0 k.
Proof.
  revert n. induction k as [|k IH]; intros n H; [reflexivity|].
  destruct n as [|n]; [lia|]. cbn [repeat firstn]. f_equal. apply IH. lia.
Qed.

(* ---------- little-endian fields ---------- *)
Lemma length_le_bytes k v : length (le_bytes k v) = k.
Proof. revert v. induction k as [|k IH]; intros v; cbn [le_bytes length]; [reflexivity|]. rewrite IH. reflexivity. Qed.

Lemma le_val_le_bytes k : forall v, le_val (le_bytes k v) = v mod 256 ^ N.of_nat k.
Proof.
  induction k as [|k IH]; intros v.
  - cbn. rewrite N.mod_1_r. reflexivity.
  - cbn [le_bytes le_val]. rewrite IH.
    rewrite Nat2N.inj_succ, N.pow_succ_r'.
    rewrite N.mod_mul_r by (try apply N.pow_nonzero; lia). reflexivity.
Qed.

Lemma bytes_ok_le_bytes k v : bytes_ok (le_bytes k v).
Proof.
  revert v. induction k as [|k IH]; intros v; cbn [le_bytes]; [constructor|].
  apply bytes_ok_cons. split; [apply N.mod_lt; lia|apply IH].
Qed.

Definition s64_ok (t : Z) : Prop := (- 2 ^ 63 <= t < 2 ^ 63)%Z.

Lemma dec_enc_s64 t : s64_ok t -> dec_s64 (enc_s64 t) = t.
Proof.
  unfold s64_ok, dec_s64, enc_s64. intros H.
  rewrite le_val_le_bytes. change (256 ^ N.of_nat 8) with 18446744073709551616.
  change (2 ^ 63)%Z with 9223372036854775808%Z in *. change (2 ^ 64)%Z with 18446744073709551616%Z.
  assert (0 <= t mod 18446744073709551616 < 18446744073709551616)%Z as Hm by (apply Z.mod_pos_bound; lia).
  rewrite N.mod_small by lia. rewrite Z2N.id by lia.
  destruct (Z.ltb_spec (t mod 18446744073709551616) 9223372036854775808) as [L|L]; lia.
Qed.

Lemma length_enc_s64 t : length (enc_s64 t) = 8%nat.
Proof. apply length_le_bytes. Qed.

(* ---------- CRC range ---------- *)
Lemma lxor_lt_pow2 a b n : a < 2 ^ n -> b < 2 ^ n -> N.lxor a b < 2 ^ n.
Proof.
  intros Ha Hb.
  destruct (N.eq_dec (N.lxor a b) 0) as [E|E]; [rewrite E; apply N.neq_0_lt_0, N.pow_nonzero; lia|].
  assert (0 < n) as Hn.
  { destruct (N.eq_dec n 0) as [En|En]; [|lia]. subst n. cbn in Ha, Hb.
    assert (a = 0) by lia. assert (b = 0) by lia. subst. cbn in E. congruence. }
  apply N.log2_lt_pow2; [lia|].
  eapply N.le_lt_trans; [apply N.log2_lxor|].
  apply N.max_lub_lt.
  - destruct (N.eq_dec a 0) as [Ea|Ea]; [subst a; cbn; exact Hn|apply N.log2_lt_pow2; lia].
  - destruct (N.eq_dec b 0) as [Eb|Eb]; [subst b; cbn; exact Hn|apply N.log2_lt_pow2; lia].
Qed.

Lemma crc_bit_lt s : s < 2 ^ 32 -> crc_bit s < 2 ^ 32.
Proof.
  intros H. unfold crc_bit. rewrite N.div2_div.
  assert (s / 2 < 2 ^ 32) as H2 by (change (2 ^ 32) with 4294967296 in *; lia).
  destruct (N.odd s); [|exact H2].
  apply lxor_lt_pow2; [exact H2|vm_compute; reflexivity].
Qed.

Lemma crc_byte_lt s b : s < 2 ^ 32 -> b < 256 -> crc_byte s b < 2 ^ 32.
Proof.
  intros Hs Hb. unfold crc_byte, crc_bits8.
  do 8 apply crc_bit_lt. apply lxor_lt_pow2; [exact Hs|]. change (2 ^ 32) with 4294967296. lia.
Qed.

Lemma crc_update_lt l : forall s, s < 2 ^ 32 -> bytes_ok l -> crc_update s l < 2 ^ 32.
Proof.
  induction l as [|b l IH]; intros s Hs Hl; [exact Hs|].
  apply bytes_ok_cons in Hl. destruct Hl as [Hb Hl].
  unfold crc_update. cbn [fold_left]. apply IH; [apply crc_byte_lt; assumption|exact Hl].
Qed.

Lemma crc32_lt l : bytes_ok l -> crc32 l < 2 ^ 32.
Proof.
  intros H. unfold crc32. apply lxor_lt_pow2; [|vm_compute; reflexivity].
  apply crc_update_lt; [vm_compute; reflexivity|exact H].
Qed.

Lemma crc_update_app a b s : crc_update s (a ++ b) = crc_update (crc_update s a) b.
Proof. unfold crc_update. apply fold_left_app. Qed.

(* ---------- header ---------- *)
Lemma length_header t d : length (header t d) = 16%nat.
Proof. unfold header. rewrite !app_length, length_enc_s64, !length_le_bytes. reflexivity. Qed.

(* the three fields are functions of the first 16 bytes *)
Lemma hdr_deadline_16 f : hdr_deadline f = hdr_deadline (firstn 16 f).
Proof. unfold hdr_deadline. rewrite firstn_firstn. reflexivity. Qed.
Lemma hdr_crc_16 f : hdr_crc f = hdr_crc (firstn 16 f).
Proof.
  unfold hdr_crc. rewrite (skipn_firstn_comm 8 16 f). cbn [Nat.sub]. rewrite firstn_firstn. reflexivity.
Qed.
Lemma hdr_size_16 f : hdr_size f = hdr_size (firstn 16 f).
Proof.
  unfold hdr_size. rewrite (skipn_firstn_comm 12 16 f). cbn [Nat.sub]. rewrite firstn_firstn. reflexivity.
Qed.

Lemma firstn16_header t d rest : firstn 16 (header t d ++ rest) = header t d.
Proof.
  rewrite firstn_app, length_header. rewrite Nat.sub_diag, firstn_O, app_nil_r.
  rewrite <- (length_header t d). apply firstn_all.
Qed.

Lemma hdr_deadline_header t d : s64_ok t -> hdr_deadline (header t d) = t.
Proof.
  intros H. unfold hdr_deadline, header.
  rewrite firstn_app, length_enc_s64. rewrite Nat.sub_diag, firstn_O, app_nil_r.
  rewrite <- (length_enc_s64 t) at 1. rewrite firstn_all. apply dec_enc_s64. exact H.
Qed.

Lemma skipn_enc t rest : skipn 8 (enc_s64 t ++ rest) = rest.
Proof. rewrite <- (length_enc_s64 t) at 1. rewrite skipn_app, skipn_all, Nat.sub_diag. reflexivity. Qed.

Lemma hdr_crc_header t d : bytes_ok d -> hdr_crc (header t d) = crc32 d.
Proof.
  intros H. unfold hdr_crc, header. rewrite skipn_enc.
  rewrite firstn_app, length_le_bytes. rewrite Nat.sub_diag, firstn_O, app_nil_r.
  rewrite <- (length_le_bytes 4 (crc32 d)) at 1. rewrite firstn_all, le_val_le_bytes.
  apply N.mod_small. pose proof (crc32_lt d H) as L. exact L.
Qed.

Lemma hdr_size_header t d : hdr_size (header t d) = N.of_nat (length d) mod 2 ^ 32.
Proof.
  unfold hdr_size, header.
  rewrite skipn_app, length_enc_s64, (skipn_all2 (enc_s64 t)) by (rewrite length_enc_s64; lia).
  change (12 - 8)%nat with 4%nat. cbn [app].
  rewrite skipn_app, length_le_bytes, Nat.sub_diag, (skipn_all2 (le_bytes 4 (crc32 d))) by (rewrite length_le_bytes; lia).
  cbn [skipn app].
  rewrite <- (length_le_bytes 4 (N.of_nat (length d) mod 2 ^ 32)) at 1. rewrite firstn_all, le_val_le_bytes.
  change (256 ^ N.of_nat 4) with (2 ^ 32). apply N.mod_mod. vm_compute. discriminate.
Qed.

Definition small (d : list N) : Prop := N.of_nat (length d) < 2 ^ 31.

Lemma data_written_small d : small d -> data_written d = d.
Proof.
  unfold small, data_written, int_of_size. intros H.
  change (2 ^ 31) with 2147483648 in H. change (2 ^ 32)%Z with 4294967296%Z. change (2 ^ 31)%Z with 2147483648%Z.
  rewrite Z.mod_small by lia.
  destruct (Z.ltb_spec (Z.of_nat (length d)) 2147483648) as [L|L]; [|lia].
  destruct (Z.leb_spec (Z.of_nat (length d)) 0) as [L0|L0].
  - destruct d; [reflexivity|cbn [length] in L0; lia].
  - rewrite Nat2Z.id. apply firstn_all.
Qed.

(* ---------- read_from_file ---------- *)
Lemma read_short now f : (length f < 16)%nat -> read_from_file now f = None.
Proof.
  intros H. unfold read_from_file.
  destruct (Nat.ltb_spec (length f) 8); [reflexivity|].
  destruct (hdr_deadline f <? now)%Z; [reflexivity|].
  destruct (Nat.ltb_spec (length f) 16); [reflexivity|lia].
Qed.

(* the reader on a file of at least 16 bytes, test by test *)
Lemma read_unfold now f : (16 <= length f)%nat ->
  read_from_file now f =
    if (hdr_deadline f <? now)%Z then None
    else if N.of_nat (length f - 16) <? hdr_size f then None
    else if 2 ^ 31 <=? hdr_size f then
      (if crc32 (repeat 0 (N.to_nat (hdr_size f))) =? hdr_crc f then Some (hdr_deadline f, repeat 0 (N.to_nat (hdr_size f))) else None)
    else
      (if crc32 (firstn (N.to_nat (hdr_size f)) (skipn 16 f)) =? hdr_crc f
       then Some (hdr_deadline f, firstn (N.to_nat (hdr_size f)) (skipn 16 f)) else None).
Proof.
  intros L. unfold read_from_file, size_fits.
  destruct (Nat.ltb_spec (length f) 8); [lia|].
  destruct (hdr_deadline f <? now)%Z; [reflexivity|].
  destruct (Nat.ltb_spec (length f) 16); [lia|]. cbn [negb andb].
  destruct (N.of_nat (length f - 16) <? hdr_size f); reflexivity.
Qed.

Lemma size_fits_spec f : size_fits f = true <-> (16 <= length f)%nat /\ hdr_size f <= N.of_nat (length f - 16).
Proof.
  unfold size_fits. destruct (Nat.ltb_spec (length f) 16) as [L|L]; cbn [negb andb].
  - split; [discriminate|lia].
  - destruct (N.ltb_spec (N.of_nat (length f - 16)) (hdr_size f)) as [A|A]; cbn [negb]; split; try discriminate; try reflexivity; try lia.
Qed.

(* everything load can return, in terms of the file it was read from *)
Lemma read_spec now f t' d' : read_from_file now f = Some (t', d') ->
  (16 <= length f)%nat /\ t' = hdr_deadline f /\ (now <= t')%Z /\
  N.of_nat (length d') = hdr_size f /\ crc32 d' = hdr_crc f /\
  (hdr_size f < 2 ^ 31 -> d' = firstn (N.to_nat (hdr_size f)) (skipn 16 f) /\
                          (16 + N.to_nat (hdr_size f) <= length f)%nat).
Proof.
  intros H.
  assert (16 <= length f)%nat as L16.
  { destruct (Nat.lt_ge_cases (length f) 16) as [L|L]; [|exact L]. rewrite read_short in H by exact L. discriminate. }
  rewrite read_unfold in H by exact L16.
  destruct (Z.ltb_spec (hdr_deadline f) now) as [Ld|Ld]; [discriminate|].
  destruct (N.ltb_spec (N.of_nat (length f - 16)) (hdr_size f)) as [La|La]; [discriminate|].
  destruct (N.leb_spec (2 ^ 31) (hdr_size f)) as [Lh|Lh].
  - destruct (N.eqb_spec (crc32 (repeat 0 (N.to_nat (hdr_size f)))) (hdr_crc f)) as [E|E]; [|discriminate].
    injection H as <- <-. rewrite repeat_length, N2Nat.id.
    repeat split; try assumption; try lia.
  - assert (length (skipn 16 f) = length f - 16)%nat as Lsk by apply skipn_length.
    remember (skipn 16 f) as sk eqn:Esk.
    destruct (N.eqb_spec (crc32 (firstn (N.to_nat (hdr_size f)) sk)) (hdr_crc f)) as [E|E]; [|discriminate].
    injection H as H1 H2. subst t' d'.
    assert (N.to_nat (hdr_size f) <= length f - 16)%nat as La' by lia.
    rewrite firstn_length, Lsk, Nat.min_l by exact La'. rewrite N2Nat.id.
    repeat split; try assumption; try lia.
Qed.

(* since the repair: whatever is returned fits into the file, for every value of the size field *)
Lemma read_fits now f r : read_from_file now f = Some r -> size_fits f = true.
Proof.
  intros H.
  assert (16 <= length f)%nat as L16.
  { destruct (Nat.lt_ge_cases (length f) 16) as [L|L]; [|exact L]. rewrite read_short in H by exact L. discriminate. }
  rewrite read_unfold in H by exact L16.
  destruct (hdr_deadline f <? now)%Z; [discriminate|].
  destruct (N.ltb_spec (N.of_nat (length f - 16)) (hdr_size f)) as [La|La]; [discriminate|].
  apply size_fits_spec. split; assumption.
Qed.

(* a header with a size field >= 2^31 (only a file of more than 2 GiB passes the length test): the result does not
   depend on the data area, only on the header and on whether the file is long enough *)
Lemma read_huge_hdr_only now f g :
  (16 <= length f)%nat -> (16 <= length g)%nat -> firstn 16 f = firstn 16 g ->
  2 ^ 31 <= hdr_size f -> size_fits f = size_fits g -> read_from_file now f = read_from_file now g.
Proof.
  intros Lf Lg E Hh Hfit. rewrite !read_unfold by assumption.
  assert (hdr_deadline f = hdr_deadline g) as Ed by (rewrite (hdr_deadline_16 f), (hdr_deadline_16 g), E; reflexivity).
  assert (hdr_crc f = hdr_crc g) as Ec by (rewrite (hdr_crc_16 f), (hdr_crc_16 g), E; reflexivity).
  assert (hdr_size f = hdr_size g) as Es by (rewrite (hdr_size_16 f), (hdr_size_16 g), E; reflexivity).
  unfold size_fits in Hfit. rewrite <- Es in Hfit.
  destruct (Nat.ltb_spec (length f) 16); [lia|]. destruct (Nat.ltb_spec (length g) 16); [lia|]. cbn [negb andb] in Hfit.
  rewrite <- Ed, <- Ec, <- Es.
  destruct (hdr_deadline f <? now)%Z; [reflexivity|].
  destruct (N.of_nat (length f - 16) <? hdr_size f), (N.of_nat (length g - 16) <? hdr_size f); try discriminate; try reflexivity.
  destruct (N.leb_spec (2 ^ 31) (hdr_size f)); [reflexivity|lia].
Qed.

(* the reader applied to any file that starts with the header of (t,d) *)
Lemma read_new_header now t d rest :
  s64_ok t -> bytes_ok d -> small d ->
  read_from_file now (header t d ++ rest) =
    if (t <? now)%Z then None
    else if N.of_nat (length rest) <? N.of_nat (length d) then None
    else if crc32 (firstn (length d) rest) =? crc32 d then Some (t, firstn (length d) rest) else None.
Proof.
  intros Ht Hd Hs.
  rewrite read_unfold by (rewrite app_length, length_header; lia).
  rewrite (hdr_deadline_16 (header t d ++ rest)), (hdr_crc_16 (header t d ++ rest)), (hdr_size_16 (header t d ++ rest)).
  rewrite firstn16_header, hdr_deadline_header, hdr_crc_header, hdr_size_header by assumption.
  unfold small in Hs. rewrite N.mod_small by (change (2 ^ 32) with 4294967296; change (2 ^ 31) with 2147483648 in Hs; lia).
  rewrite app_length, length_header.
  destruct (t <? now)%Z; [reflexivity|].
  replace (16 + length rest - 16)%nat with (length rest) by lia.
  destruct (N.of_nat (length rest) <? N.of_nat (length d)); [reflexivity|].
  destruct (N.leb_spec (2 ^ 31) (N.of_nat (length d))); [lia|].
  rewrite Nat2N.id.
  assert (skipn 16 (header t d ++ rest) = rest) as ->; [|reflexivity].
  rewrite <- (length_header t d) at 1. rewrite skipn_app, skipn_all, Nat.sub_diag. reflexivity.
Qed.

(* ---------- a completed save, then load ---------- *)
Lemma save_file_shape F t d : small d ->
  save_file F t d = header t d ++ d ++ skipn (16 + length d) F.
Proof.
  intros Hs. unfold save_file, overlay, new_image. rewrite data_written_small by exact Hs.
  rewrite app_length, length_header, <- app_assoc. reflexivity.
Qed.

Lemma save_then_read now F t d :
  s64_ok t -> bytes_ok d -> small d ->
  read_from_file now (save_file F t d) = if (t <? now)%Z then None else Some (t, d).
Proof.
  intros Ht Hd Hs. rewrite save_file_shape by exact Hs. rewrite read_new_header by assumption.
  destruct (t <? now)%Z; [reflexivity|].
  rewrite app_length.
  destruct (N.ltb_spec (N.of_nat (length d + length (skipn (16 + length d) F))) (N.of_nat (length d))) as [L|L]; [lia|].
  rewrite firstn_app, Nat.sub_diag, firstn_all. cbn [firstn]. rewrite app_nil_r, N.eqb_refl. reflexivity.
Qed.
