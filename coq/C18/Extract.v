Require Extraction.
Require Import ExtrOcamlBasic.
From Coq Require Import NArith ZArith List.
From CppcmsV Require Import C18.Defs.
Import ListNotations.
Definition keep_types : (N * Z * nat) := (0%N, 0%Z, 0%nat).
(* decimal conversion of 64-bit times for the driver (OCaml ints have 63 bits) *)
Definition z_of_dec (neg : bool) (digits : list N) : Z :=
  let v := fold_left (fun a dg => (a * 10 + Z.of_N dg)%Z) digits 0%Z in if neg then (- v)%Z else v.
Fixpoint dec_digits (fuel : nat) (v : N) (acc : list N) : list N :=
  match fuel with
  | O => acc
  | S f => if (v <? 10)%N then v :: acc else dec_digits f (v / 10)%N ((v mod 10)%N :: acc)
  end.
Definition z_to_dec (z : Z) : bool * list N := ((z <? 0)%Z, dec_digits 25 (Z.abs_N z) []).
Extraction "c18m.ml" keep_types z_of_dec z_to_dec crc32 header save_writes save crash_save load remove gc lookup
  store read_from_file crash_file new_image ps_okb valid_name valid_sid sid_load load_limited alloc_size size_fits short_chunks save_short load_short read_from_file_short crc32_calc.
