(* C18 proofs, part 2: the crash states of a save and what load can make of them. *)
From CppcmsV Require Import Base.Tac Base.Sweep C18.Defs C18.Proofs.
Local Open Scope N_scope.

(* ---------- mixb / crash_file, byte by byte ---------- *)
Lemma length_mixb Fz : forall i ps new, length (mixb i ps new Fz) = length Fz.
Proof.
  induction Fz as [|f Fz IH]; intros i ps new; [reflexivity|].
  cbn [mixb length]. rewrite IH. reflexivity.
Qed.

Definition takes_new (ps : list N) (nl : nat) (i : N) (j : nat) : bool :=
  (j <? nl)%nat && (i + N.of_nat j <? nth (N.to_nat (N.shiftr (i + N.of_nat j) 9)) ps 0).

Lemma nth_mixb Fz : forall i ps new j, (j < length Fz)%nat ->
  nth j (mixb i ps new Fz) 0 = if takes_new ps (length new) i j then nth j new 0 else nth j Fz 0.
Proof.
  induction Fz as [|f Fz IH]; intros i ps new j Hj; [cbn in Hj; lia|].
  destruct j as [|j].
  - cbn [mixb nth]. unfold takes_new. rewrite N.add_0_r.
    destruct new as [|n new']; [reflexivity|]. cbn [length nth]. cbn [Nat.ltb Nat.leb andb].
    reflexivity.
  - cbn [mixb nth]. cbn [length] in Hj. rewrite IH by lia.
    assert (takes_new ps (length (tl new)) (i + 1) j = takes_new ps (length new) i (S j)) as ->.
    { unfold takes_new. replace (i + 1 + N.of_nat j) with (i + N.of_nat (S j)) by lia.
      f_equal. destruct new as [|n new']; cbn [tl length]; [reflexivity|].
      destruct (Nat.ltb_spec j (length new')), (Nat.ltb_spec (S j) (S (length new'))); try reflexivity; lia. }
    destruct new as [|n new']; cbn [tl nth]; [destruct j; destruct (takes_new ps (length []) i _); reflexivity|reflexivity].
Qed.

Definition crash_zeros (F new ps : list N) : nat := (N.to_nat (crash_len F new ps) - length F)%nat.

Lemma length_crash_file F new ps :
  length (crash_file F new ps) = N.to_nat (crash_len F new ps).
Proof.
  unfold crash_file. rewrite length_mixb, app_length, repeat_length.
  unfold crash_len. lia.
Qed.

Lemma length_crash_ge F new ps : (length F <= length (crash_file F new ps))%nat.
Proof. rewrite length_crash_file. unfold crash_len. lia. Qed.

Lemma nth_crash_file F new ps j : (j < length (crash_file F new ps))%nat ->
  nth j (crash_file F new ps) 0 = if takes_new ps (length new) 0 j then nth j new 0 else nth j F 0.
Proof.
  intros Hj. pose proof (length_crash_file F new ps) as HL.
  unfold crash_file in *. rewrite length_mixb in HL, Hj. rewrite nth_mixb by exact Hj.
  rewrite nth_app_zeros. reflexivity.
Qed.

Lemma sector0 j : (j < 512)%nat -> N.to_nat (N.shiftr (0 + N.of_nat j) 9) = 0%nat.
Proof.
  intros H. rewrite N.add_0_l, N.shiftr_div_pow2. change (2 ^ 9) with 512.
  rewrite N.div_small by lia. reflexivity.
Qed.

(* sector 0 old: its bytes are the old ones (zero beyond the old file) *)
Lemma crash_sector0_old F new ps j :
  nth 0 ps 0 = 0 -> (j < 512)%nat -> (j < length (crash_file F new ps))%nat ->
  nth j (crash_file F new ps) 0 = nth j F 0.
Proof.
  intros Hp Hj Hl. rewrite nth_crash_file by exact Hl. unfold takes_new.
  rewrite sector0 by exact Hj. rewrite Hp.
  destruct (N.ltb_spec (0 + N.of_nat j) 0) as [L|L]; [lia|]. rewrite andb_false_r. reflexivity.
Qed.

(* sector 0 written with at least the header *)
Lemma crash_sector0_new F new ps j :
  16 <= nth 0 ps 0 -> (j < 16)%nat -> (16 <= length new)%nat -> (j < length (crash_file F new ps))%nat ->
  nth j (crash_file F new ps) 0 = nth j new 0.
Proof.
  intros Hp Hj Hn Hl. rewrite nth_crash_file by exact Hl. unfold takes_new.
  rewrite sector0 by lia.
  destruct (Nat.ltb_spec j (length new)) as [L1|L1]; [|lia].
  destruct (N.ltb_spec (0 + N.of_nat j) (nth 0 ps 0)) as [L|L]; [reflexivity|lia].
Qed.

Lemma reach_head_ge p r nl : 16 <= p -> 16 <= nl -> 16 <= reach 0 (p :: r) nl.
Proof.
  intros Hp Hn. cbn [reach]. unfold SECT.
  destruct (N.ltb_spec (512 * 0) (N.min (N.min p nl) (512 * (0 + 1)))) as [L|L]; lia.
Qed.

Lemma crash_len_new_header F new p r :
  16 <= p -> (16 <= length new)%nat -> (16 <= length (crash_file F new (p :: r)))%nat.
Proof.
  intros Hp Hn. rewrite length_crash_file. unfold crash_len.
  pose proof (reach_head_ge p r (N.of_nat (length new)) Hp ltac:(lia)). lia.
Qed.

Lemma length_new_image t d : small d -> length (new_image t d) = (16 + length d)%nat.
Proof. intros H. unfold new_image. rewrite data_written_small by exact H. rewrite app_length, length_header. reflexivity. Qed.

Lemma firstn16_new_image t d : firstn 16 (new_image t d) = header t d.
Proof. unfold new_image. apply firstn16_header. Qed.

Lemma firstn_skipn16 (l : list N) : l = firstn 16 l ++ skipn 16 l.
Proof. symmetry. apply firstn_skipn. Qed.

(* the header of the crash state when sector 0 took the new header *)
Lemma crash_header_new F t d p r :
  small d -> 16 <= p ->
  firstn 16 (crash_file F (new_image t d) (p :: r)) = header t d.
Proof.
  intros Hs Hp. rewrite <- (firstn16_new_image t d).
  pose proof (length_new_image t d Hs) as Ln.
  pose proof (crash_len_new_header F (new_image t d) p r Hp ltac:(lia)) as Lc.
  apply firstn_ext_nth; [exact Lc|lia|].
  intros j Hj. apply crash_sector0_new; [exact Hp|exact Hj|lia|lia].
Qed.

(* the header of the crash state when sector 0 is old *)
Lemma crash_header_old F new ps :
  nth 0 ps 0 = 0 -> (16 <= length F)%nat ->
  firstn 16 (crash_file F new ps) = firstn 16 F.
Proof.
  intros Hp HF. pose proof (length_crash_ge F new ps) as Lc.
  apply firstn_ext_nth; [lia|exact HF|].
  intros j Hj. apply crash_sector0_old; [exact Hp|lia|lia].
Qed.

Lemma repeat_nth0 k : forall j, nth j (repeat 0 k) 0 = 0.
Proof. induction k as [|k IH]; intros [|j]; cbn [repeat nth]; try reflexivity. apply IH. Qed.

(* no old file and sector 0 not written: whatever reached the disk lies behind a hole of zeros *)
Lemma crash_header_hole new ps :
  nth 0 ps 0 = 0 -> (16 <= length (crash_file [] new ps))%nat ->
  firstn 16 (crash_file [] new ps) = repeat 0 16.
Proof.
  intros Hp Lc. rewrite <- (firstn_repeat0 16 16) by lia.
  apply firstn_ext_nth; [exact Lc|rewrite repeat_length; lia|].
  intros j Hj. rewrite crash_sector0_old by (try exact Hp; lia).
  rewrite repeat_nth0. destruct j; reflexivity.
Qed.

Lemma read_zero_header now f : (0 < now)%Z -> firstn 16 f = repeat 0 16 -> read_from_file now f = None.
Proof.
  intros Hn E. unfold read_from_file.
  destruct (Nat.ltb_spec (length f) 8); [reflexivity|].
  rewrite (hdr_deadline_16 f), E.
  change (hdr_deadline (repeat 0 16)) with 0%Z.
  destruct (Z.ltb_spec 0 now); [reflexivity|lia].
Qed.

(* ---------- where the returned bytes come from ---------- *)
Definition provenance (F d d' : list N) : Prop :=
  forall j, (j < length d')%nat ->
    ((j < length d)%nat /\ nth j d' 0 = nth j d 0) \/
    ((16 + j < length F)%nat /\ nth j d' 0 = nth (16 + j) F 0) \/
    ((length F <= 16 + j)%nat /\ nth j d' 0 = 0).

Lemma nth_new_image t d j : small d -> nth (16 + j) (new_image t d) 0 = nth j d 0.
Proof.
  intros Hs. unfold new_image. rewrite data_written_small by exact Hs.
  rewrite app_nth2 by (rewrite length_header; lia). rewrite length_header.
  replace (16 + j - 16)%nat with j by lia. reflexivity.
Qed.

Lemma crash_provenance F t d ps k :
  small d -> (16 + k <= length (crash_file F (new_image t d) ps))%nat ->
  provenance F d (firstn k (skipn 16 (crash_file F (new_image t d) ps))).
Proof.
  intros Hs Hk j Hj.
  rewrite firstn_length in Hj.
  assert (j < k)%nat as Hjk by lia.
  rewrite nth_firstn_lt by exact Hjk. rewrite nth_skipn_add.
  rewrite nth_crash_file by lia. unfold takes_new. rewrite length_new_image by exact Hs.
  destruct (Nat.ltb_spec (16 + j) (16 + length d)) as [L|L]; cbn [andb].
  - destruct (_ <? _).
    + left. split; [lia|]. apply nth_new_image. exact Hs.
    + destruct (Nat.lt_ge_cases (16 + j) (length F)) as [LF|LF].
      * right. left. split; [exact LF|reflexivity].
      * right. right. split; [exact LF|]. apply nth_overflow. exact LF.
  - destruct (Nat.lt_ge_cases (16 + j) (length F)) as [LF|LF].
    + right. left. split; [exact LF|reflexivity].
    + right. right. split; [exact LF|]. apply nth_overflow. exact LF.
Qed.

(* ---------- the crash theorem ---------- *)
Definition collision (now : Z) (F : list N) (t : Z) (d : list N) (r : option (Z * list N)) : Prop :=
  exists t' d', r = Some (t', d') /\ provenance F d d' /\
    ((t' = t /\ length d' = length d /\ crc32 d' = crc32 d /\ d' <> d) \/
     (t' = hdr_deadline F /\ N.of_nat (length d') = hdr_size F /\ crc32 d' = hdr_crc F /\
      read_from_file now F <> Some (t', d'))).

Definition old_ok (F : list N) : Prop := F = [] \/ (16 <= length F)%nat.

Lemma reach_le ps : forall s nl, reach s ps nl <= nl.
Proof.
  induction ps as [|p r IH]; intros s nl; cbn [reach]; [lia|].
  specialize (IH (s + 1) nl).
  destruct (N.ltb_spec (SECT * s) (N.min (N.min p nl) (SECT * (s + 1)))); lia.
Qed.

(* a record that does not fit into the file is refused (before anything is allocated) *)
Lemma read_unfit now f : size_fits f = false -> read_from_file now f = None.
Proof.
  intros H. destruct (read_from_file now f) as [r|] eqn:E; [|reflexivity].
  apply read_fits in E. congruence.
Qed.

Lemma list_eq_dec_N (a b : list N) : {a = b} + {a <> b}.
Proof. apply list_eq_dec. apply N.eq_dec. Qed.

Lemma crash_safe_new_header now F t d p r :
  s64_ok t -> bytes_ok d -> small d -> 16 <= p ->
  let res := read_from_file now (crash_file F (new_image t d) (p :: r)) in
  res = None \/ res = Some (t, d) \/ collision now F t d res.
Proof.
  intros Ht Hd Hs Hp res. subst res.
  set (C := crash_file F (new_image t d) (p :: r)).
  pose proof (crash_header_new F t d p r Hs Hp) as EH. fold C in EH.
  assert (C = header t d ++ skipn 16 C) as EC by (rewrite <- EH; apply firstn_skipn16).
  assert (16 <= length C)%nat as LC16.
  { apply crash_len_new_header; [exact Hp|]. rewrite length_new_image by exact Hs. lia. }
  rewrite EC. rewrite read_new_header by assumption.
  destruct (t <? now)%Z; [left; reflexivity|].
  destruct (N.ltb_spec (N.of_nat (length (skipn 16 C))) (N.of_nat (length d))) as [L|L]; [left; reflexivity|].
  destruct (N.eqb_spec (crc32 (firstn (length d) (skipn 16 C))) (crc32 d)) as [E|E]; [|left; reflexivity].
  destruct (list_eq_dec_N (firstn (length d) (skipn 16 C)) d) as [Ed|Ed].
  - right. left. rewrite Ed. reflexivity.
  - right. right. exists t, (firstn (length d) (skipn 16 C)).
    rewrite skipn_length in L.
    split; [reflexivity|]. split.
    + apply crash_provenance; [exact Hs|]. fold C. lia.
    + left. split; [reflexivity|]. split; [|split; [exact E|exact Ed]].
      rewrite firstn_length, skipn_length. lia.
Qed.

Lemma crash_safe_old_header now F t d ps :
  small d -> nth 0 ps 0 = 0 -> (16 <= length F)%nat ->
  let res := read_from_file now (crash_file F (new_image t d) ps) in
  res = None \/ res = read_from_file now F \/ collision now F t d res.
Proof.
  intros Hs Hp HF res. subst res.
  set (C := crash_file F (new_image t d) ps).
  pose proof (crash_header_old F (new_image t d) ps Hp HF) as EH. fold C in EH.
  pose proof (length_crash_ge F (new_image t d) ps) as LC. fold C in LC.
  destruct (N.leb_spec (2 ^ 31) (hdr_size C)) as [Lh|Lh].
  - (* a size field of 2 GiB or more: the crash state is refused unless the file is that long, and a save of less than
       2 GiB cannot make it so: then the old file had that length already *)
    destruct (size_fits C) eqn:Efit; [|left; apply read_unfit; exact Efit].
    right. left. apply read_huge_hdr_only; [lia|exact HF|exact EH|exact Lh|].
    rewrite Efit. symmetry. apply size_fits_spec in Efit. destruct Efit as [_ Efit]. apply size_fits_spec.
    assert (hdr_size C = hdr_size F) as E3 by (rewrite (hdr_size_16 C), (hdr_size_16 F), EH; reflexivity).
    split; [exact HF|]. rewrite <- E3.
    assert (length C = length F) as EL; [|rewrite <- EL; exact Efit].
    clear EH E3. revert Lh Efit. generalize (hdr_size C). intros hs Lh Efit. unfold C in *. rewrite length_crash_file in *. unfold crash_len in *.
    pose proof (reach_le ps 0 (N.of_nat (length (new_image t d)))) as Hr.
    rewrite length_new_image in * by exact Hs. unfold small in Hs.
    change (2 ^ 31) with 2147483648 in *. lia.
  - destruct (read_from_file now C) as [[t' d']|] eqn:ER; [|left; reflexivity].
    destruct (read_spec now C t' d' ER) as (L16 & Et & Hnow & El & Ec & Hd).
    destruct (Hd Lh) as [Ed Lb].
    assert (hdr_deadline C = hdr_deadline F) as E1 by (rewrite (hdr_deadline_16 C), (hdr_deadline_16 F), EH; reflexivity).
    assert (hdr_crc C = hdr_crc F) as E2 by (rewrite (hdr_crc_16 C), (hdr_crc_16 F), EH; reflexivity).
    assert (hdr_size C = hdr_size F) as E3 by (rewrite (hdr_size_16 C), (hdr_size_16 F), EH; reflexivity).
    destruct (read_from_file now F) as [[t2 d2]|] eqn:ERF.
    + destruct (Z.eq_dec t2 t') as [Et2|Et2]; [destruct (list_eq_dec_N d2 d') as [Ed2|Ed2]|].
      * right. left. subst. reflexivity.
      * right. right. exists t', d'. split; [reflexivity|]. split.
        { rewrite Ed. apply crash_provenance; [exact Hs|]. fold C. lia. }
        right. rewrite <- E1, <- E2, <- E3. repeat split; try assumption. congruence.
      * right. right. exists t', d'. split; [reflexivity|]. split.
        { rewrite Ed. apply crash_provenance; [exact Hs|]. fold C. lia. }
        right. rewrite <- E1, <- E2, <- E3. repeat split; try assumption. congruence.
    + right. right. exists t', d'. split; [reflexivity|]. split.
      { rewrite Ed. apply crash_provenance; [exact Hs|]. fold C. lia. }
      right. rewrite <- E1, <- E2, <- E3. repeat split; try assumption. congruence.
Qed.

Lemma ps_ok_head ps : ps_ok ps -> nth 0 ps 0 = 0 \/ exists p r, ps = p :: r /\ 16 <= p.
Proof.
  intros H. destruct ps as [|p r]; [left; reflexivity|].
  apply Forall_inv in H. destruct H as [H|H]; [left; exact H|right; exists p, r; split; [reflexivity|exact H]].
Qed.

Lemma crash_safe now F t d ps :
  s64_ok t -> bytes_ok d -> small d -> ps_ok ps -> old_ok F -> (0 < now)%Z ->
  let res := read_from_file now (crash_file F (new_image t d) ps) in
  res = None \/ res = Some (t, d) \/ res = read_from_file now F \/ collision now F t d res.
Proof.
  intros Ht Hd Hs Hps HF Hnow res.
  destruct (ps_ok_head ps Hps) as [H0|(p & r & -> & Hp)].
  - destruct HF as [->|HF].
    + left. subst res.
      destruct (Nat.lt_ge_cases (length (crash_file [] (new_image t d) ps)) 16) as [L|L].
      * apply read_short. exact L.
      * apply read_zero_header; [exact Hnow|]. apply crash_header_hole; assumption.
    + destruct (crash_safe_old_header now F t d ps Hs H0 HF) as [A|[A|A]]; fold res in A; tauto.
  - destruct (crash_safe_new_header now F t d p r Ht Hd Hs Hp) as [A|[A|A]]; fold res in A; tauto.
Qed.

(* whatever load returns has the length of the header it lies under and fits into the file (for every value of the
   size field, since the repair); below 2 GiB it is cut from inside the file *)
Lemma read_in_bounds now f t' d' : read_from_file now f = Some (t', d') ->
  (16 <= length f)%nat /\ N.of_nat (length d') = hdr_size f /\ crc32 d' = hdr_crc f /\ (now <= t')%Z /\
  (16 + length d' <= length f)%nat /\
  (hdr_size f < 2 ^ 31 -> d' = firstn (length d') (skipn 16 f)).
Proof.
  intros H. destruct (read_spec now f t' d' H) as (L16 & Et & Hnow & El & Ec & Hd).
  apply read_fits in H. apply size_fits_spec in H. destruct H as [_ Hf].
  repeat split; try assumption; [lia|].
  intros Hlt. destruct (Hd Hlt) as [Ed _]. rewrite <- El, Nat2N.id in Ed. exact Ed.
Qed.
