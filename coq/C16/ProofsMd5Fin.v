(* C16: md5_finish, the message_digest wrapper of crypto.cpp and the stream theorem for MD5 *)
From CppcmsV Require Import Base.Tac C16.Defs C16.Blocks C16.Md5Arith C16.ProofsMd5.
Local Open Scope N_scope.

(* ---------- the code's tables are the RFC's ---------- *)
Lemma md5_steps_rfc : md5_steps = md5_spec_steps.
Proof. vm_compute. reflexivity. Qed.
Lemma md5_process_rfc : md5_process = md5_compress_spec.
Proof. unfold md5_process, md5_compress_spec. rewrite md5_steps_rfc. reflexivity. Qed.
Lemma md5_abcd0_rfc : md5_abcd0 = md5_iv_rfc.
Proof. vm_compute. reflexivity. Qed.

(* ---------- small list facts ---------- *)
Lemma firstn_repeat_le (x : N) k n : (k <= n)%nat -> firstn k (repeat x n) = repeat x k.
Proof.
  revert n. induction k as [|k IH]; intros n Hk; [reflexivity|].
  destruct n as [|n]; [lia|]. cbn [repeat firstn]. rewrite IH by lia. reflexivity.
Qed.
Lemma take_md5_pad k : (k <= 63)%nat -> take (N.of_nat k + 1) md5_pad = 128 :: repeat 0 k.
Proof.
  intros Hk. unfold take, md5_pad.
  replace (N.to_nat (N.of_nat k + 1)) with (S k) by lia.
  cbn [firstn]. rewrite firstn_repeat_le by lia. reflexivity.
Qed.
Lemma pad_zeros_lt m : (pad_zeros m <= 63)%nat.
Proof. unfold pad_zeros. pose proof (N.mod_lt (119 - len m mod 64) 64). lia. Qed.
Lemma len_le_bytes64 w : len (le_bytes64 w) = 8.
Proof. reflexivity. Qed.

(* ---------- initial states ---------- *)
Lemma md5_rep_new : md5_rep md5_new [].
Proof.
  unfold md5_rep, md5_new. cbn [m_abcd m_buf m_count0 m_count1].
  rewrite absorb_nil. cbn [fst snd]. repeat split; try reflexivity.
Qed.
Lemma md5_rep_init st m : md5_rep st m -> md5_rep (md5_init st) [].
Proof.
  intros (_ & _ & Hl & _ & _). unfold md5_rep, md5_init. cbn [m_abcd m_buf m_count0 m_count1].
  rewrite absorb_nil. cbn [fst snd]. repeat split; try reflexivity. exact Hl.
Qed.

(* ---------- md5_digets::append ---------- *)
Lemma md5_obj_append_rep st m data :
  md5_rep st m -> len data < 2147483648 -> md5_rep (md5_obj_append st data) (m ++ data).
Proof.
  intros Hr Hl. unfold md5_obj_append.
  rewrite w32_mod, N.mod_small by lia.
  destruct (N.eqb_spec (len data) 0) as [E|E].
  - cbn [orb]. destruct data; [rewrite app_nil_r; exact Hr|discriminate].
  - cbn [orb]. destruct (N.leb_spec 2147483648 (len data)) as [H|_]; [lia|].
    rewrite take_all by lia. apply md5_append_c_rep; [exact Hr|lia].
Qed.
(* chunks outside the int range are dropped by the size_t -> int conversion (documented behaviour of the model) *)
Lemma md5_obj_append_big st data :
  2147483648 <= len data < 4294967296 -> md5_obj_append st data = st.
Proof.
  intros Hl. unfold md5_obj_append. rewrite w32_mod, N.mod_small by lia.
  destruct (N.leb_spec 2147483648 (len data)); [|lia]. rewrite orb_true_r. reflexivity.
Qed.

(* ---------- md5_finish ---------- *)
Lemma md5_finish_rep st m :
  md5_rep st m ->
  fst (md5_finish st) = md5_spec m /\ md5_rep (snd (md5_finish st)) (md5_padded m).
Proof.
  intros Hr. pose proof Hr as (Ha & Hb & Hl & H0 & H1).
  unfold md5_finish.
  assert (Hc0 : m_count0 st = (8 * len m) mod 4294967296) by lia.
  rewrite (md5_padn_of_count _ _ Hc0).
  rewrite (le_bytes_count _ _ H0), H1.
  replace ((119 - len m mod 64) mod 64) with (N.of_nat (pad_zeros m)) by (unfold pad_zeros; lia).
  rewrite take_md5_pad by apply pad_zeros_lt.
  set (pad1 := 128 :: repeat 0 (pad_zeros m)).
  set (data := le_bytes64 ((8 * len m) mod 18446744073709551616)).
  assert (Hp1 : 0 < len pad1 < 2147483648).
  { unfold pad1, len. cbn [length]. rewrite repeat_length. pose proof (pad_zeros_lt m). lia. }
  pose proof (md5_append_c_rep _ _ pad1 Hr Hp1) as Hr1.
  assert (Hd : 0 < len data < 2147483648) by (unfold data; rewrite len_le_bytes64; lia).
  pose proof (md5_append_c_rep _ _ data Hr1 Hd) as Hr2.
  assert (Hpadded : (m ++ pad1) ++ data = md5_padded m).
  { unfold md5_padded, pad1, data. rewrite w64_mod, <- app_assoc. reflexivity. }
  rewrite Hpadded in Hr2. cbn [fst snd]. split; [|exact Hr2].
  destruct Hr2 as (Ha2 & _). rewrite Ha2. unfold md5_spec.
  rewrite md5_process_rfc, md5_abcd0_rfc. reflexivity.
Qed.

Lemma md5_obj_readout_rep st m :
  md5_rep st m ->
  fst (md5_obj_readout st) = md5_spec m /\ md5_rep (snd (md5_obj_readout st)) [].
Proof.
  intros Hr. unfold md5_obj_readout.
  destruct (md5_finish_rep st m Hr) as [H1 H2].
  destruct (md5_finish st) as [dg st']. cbn [fst snd] in *.
  split; [exact H1|]. eapply md5_rep_init. exact H2.
Qed.

(* what is left of md5_new after a readout: everything but the (dead) buffer content *)
Lemma md5_obj_readout_state st :
  let st' := snd (md5_obj_readout st) in
  m_count0 st' = 0 /\ m_count1 st' = 0 /\ m_abcd st' = md5_abcd0.
Proof.
  unfold md5_obj_readout. destruct (md5_finish st) as [dg st']. cbn. auto.
Qed.

(* ---------- chunk lists ---------- *)
Definition chunks_ok (bound : N) (chunks : list (list N)) : Prop := Forall (fun c => len c < bound) chunks.

Lemma md5_fold_rep chunks : forall st m,
  md5_rep st m -> chunks_ok 2147483648 chunks ->
  md5_rep (fold_left md5_obj_append chunks st) (m ++ concat chunks).
Proof.
  induction chunks as [|c r IH]; intros st m Hr Hok.
  - cbn. rewrite app_nil_r. exact Hr.
  - inversion Hok as [|? ? Hc Hr']; subst. cbn [fold_left concat]. rewrite app_assoc.
    apply IH; [|exact Hr']. apply md5_obj_append_rep; assumption.
Qed.

Lemma md5_message_rep st m chunks :
  md5_rep st m -> chunks_ok 2147483648 chunks ->
  fst (digest_message md5_obj_append md5_obj_readout st chunks) = md5_spec (m ++ concat chunks) /\
  md5_rep (snd (digest_message md5_obj_append md5_obj_readout st chunks)) [].
Proof.
  intros Hr Hok. unfold digest_message. apply md5_obj_readout_rep. apply md5_fold_rep; assumption.
Qed.

Lemma md5_stream_lemma chunks :
  chunks_ok 2147483648 chunks ->
  fst (md5_obj_readout (fold_left md5_obj_append chunks md5_new)) = md5_spec (concat chunks).
Proof.
  intros Hok. apply (md5_message_rep md5_new [] chunks md5_rep_new Hok).
Qed.

Lemma md5_session_rep msgs : forall st,
  md5_rep st [] -> Forall (chunks_ok 2147483648) msgs ->
  digest_session md5_obj_append md5_obj_readout st msgs = map (fun chunks => md5_spec (concat chunks)) msgs.
Proof.
  induction msgs as [|c r IH]; intros st Hr Hok; [reflexivity|].
  inversion Hok as [|? ? Hc Hr']; subst. cbn [digest_session map].
  destruct (md5_message_rep st [] c Hr Hc) as [H1 H2].
  destruct (digest_message md5_obj_append md5_obj_readout st c) as [o st']. cbn [fst snd] in *.
  rewrite H1, (IH st' H2 Hr'). reflexivity.
Qed.
Lemma md5_session_lemma msgs :
  Forall (chunks_ok 2147483648) msgs ->
  md5_session msgs = map (fun chunks => md5_spec (concat chunks)) msgs.
Proof. apply md5_session_rep. exact md5_rep_new. Qed.
