(* C16: the 80-round function of private/sha1.h (model: sha1_process) equals the hash computation of FIPS 180-4 6.1.2
   written from the standard (sha1_compress_fips), on blocks of bytes and 32-bit chaining values; hence sha1_spec,
   the function the streaming theorems are about, is the FIPS function sha1_spec_fips. *)
From CppcmsV Require Import Base.Tac C16.Defs C16.Blocks C16.ProofsSha1.
Local Open Scope N_scope.

(* ---------- size <-> high bits ---------- *)
Lemma high_bits_of_lt x k : x < 2 ^ k -> forall i, k <= i -> N.testbit x i = false.
Proof. intros H i Hi. rewrite <- (N.mod_small x (2 ^ k)) by exact H. apply N.mod_pow2_bits_high. exact Hi. Qed.
Lemma lt_of_high_bits x k : (forall i, k <= i -> N.testbit x i = false) -> x < 2 ^ k.
Proof.
  intros H. assert (E : x mod 2 ^ k = x).
  { apply N.bits_inj. intros i. destruct (N.lt_ge_cases i k) as [Hi|Hi].
    - apply N.mod_pow2_bits_low. exact Hi.
    - rewrite N.mod_pow2_bits_high by exact Hi. symmetry. apply H. exact Hi. }
  rewrite <- E. apply N.mod_lt. apply N.pow_nonzero. discriminate.
Qed.
Definition W32 (x : N) : Prop := x < 4294967296.
Lemma W32_bits x : W32 x -> forall i, 32 <= i -> N.testbit x i = false.
Proof. intros H. apply (high_bits_of_lt x 32). exact H. Qed.
Lemma bits_W32 x : (forall i, 32 <= i -> N.testbit x i = false) -> W32 x.
Proof. intros H. apply (lt_of_high_bits x 32). exact H. Qed.
Lemma W32_add32 a b : W32 (add32 a b).
Proof. apply w32_lt. Qed.
Lemma W32_lxor a b : W32 a -> W32 b -> W32 (N.lxor a b).
Proof.
  intros Ha Hb. apply bits_W32. intros i Hi. rewrite N.lxor_spec, (W32_bits a Ha), (W32_bits b Hb) by exact Hi. reflexivity.
Qed.
Lemma w32_bits_high x i : 32 <= i -> N.testbit (w32 x) i = false.
Proof. intros Hi. rewrite w32_mod. change 4294967296 with (2 ^ 32). apply N.mod_pow2_bits_high. exact Hi. Qed.

(* ---------- rotation: xor form of sha1.h = or form of the standard, on 32-bit words ---------- *)
Lemma rotl_parts_disjoint x n i : W32 x -> 0 < n < 32 ->
  N.testbit (shl32 x n) i && N.testbit (N.shiftr x (32 - n)) i = false.
Proof.
  intros Hx Hn. unfold shl32. destruct (N.lt_ge_cases i n) as [Hi|Hi].
  - rewrite w32_mod. change 4294967296 with (2 ^ 32). rewrite N.mod_pow2_bits_low by lia.
    rewrite N.shiftl_spec_low by exact Hi. reflexivity.
  - rewrite N.shiftr_spec by lia. rewrite (W32_bits x Hx (i + (32 - n))) by lia. apply andb_false_r.
Qed.
Lemma sha1_rotl_fips x n : W32 x -> 0 < n < 32 -> sha1_rotl x n = fips_rotl n x.
Proof.
  intros Hx Hn. unfold sha1_rotl, fips_rotl. apply N.bits_inj. intros i.
  rewrite N.lxor_spec, N.lor_spec. pose proof (rotl_parts_disjoint x n i Hx Hn) as Hd.
  destruct (N.testbit (shl32 x n) i), (N.testbit (N.shiftr x (32 - n)) i); try reflexivity. discriminate.
Qed.
Lemma W32_sha1_rotl x n : W32 x -> 0 < n < 32 -> W32 (sha1_rotl x n).
Proof.
  intros Hx Hn. apply bits_W32. intros i Hi. unfold sha1_rotl, shl32.
  rewrite N.lxor_spec, w32_bits_high by exact Hi. rewrite N.shiftr_spec by lia.
  rewrite (W32_bits x Hx) by lia. reflexivity.
Qed.

(* ---------- f_t and K_t ---------- *)
Lemma sha1_f_fips t b c d : t < 80 -> W32 b -> sha1_f t b c d = fips_f t b c d.
Proof.
  intros Ht Hb. unfold sha1_f, fips_f.
  destruct (N.ltb_spec t 20) as [H1|H1].
  { replace (t / 20) with 0 by lia. apply ch_or_xor. exact Hb. }
  destruct (N.ltb_spec t 40) as [H2|H2].
  { replace (t / 20) with 1 by lia. reflexivity. }
  destruct (N.ltb_spec t 60) as [H3|H3].
  { replace (t / 20) with 2 by lia. apply maj_or_xor. }
  replace (t / 20) with 3 by lia. reflexivity.
Qed.
Lemma sha1_k_fips t : t < 80 -> sha1_k t = fips_K t.
Proof.
  intros Ht. unfold sha1_k, fips_K.
  destruct (N.ltb_spec t 20) as [H1|H1]; [replace (t / 20) with 0 by lia; reflexivity|].
  destruct (N.ltb_spec t 40) as [H2|H2]; [replace (t / 20) with 1 by lia; reflexivity|].
  destruct (N.ltb_spec t 60) as [H3|H3]; [replace (t / 20) with 2 by lia; reflexivity|].
  replace (t / 20) with 3 by lia. reflexivity.
Qed.

(* ---------- big-endian words: or form of the code = arithmetic form ---------- *)
Lemma lor_disjoint_add a b : N.land a b = 0 -> N.lor a b = a + b.
Proof. intros H. rewrite (N.add_nocarry_lxor a b H). symmetry. apply N.lxor_lor. exact H. Qed.
Lemma land_shiftl_small a k b : b < 2 ^ k -> N.land (N.shiftl a k) b = 0.
Proof.
  intros Hb. apply N.bits_inj. intros i. rewrite N.land_spec, N.bits_0.
  destruct (N.lt_ge_cases i k) as [Hi|Hi].
  - rewrite N.shiftl_spec_low by exact Hi. reflexivity.
  - rewrite (high_bits_of_lt b k Hb i Hi). apply andb_false_r.
Qed.
Lemma lor_shiftl_add a k b : b < 2 ^ k -> N.lor (N.shiftl a k) b = a * 2 ^ k + b.
Proof. intros Hb. rewrite lor_disjoint_add by (apply land_shiftl_small; exact Hb). rewrite N.shiftl_mul_pow2. reflexivity. Qed.
Lemma be32or_be32 b0 b1 b2 b3 : b1 < 256 -> b2 < 256 -> b3 < 256 -> be32or b0 b1 b2 b3 = be32 b0 b1 b2 b3.
Proof.
  intros H1 H2 H3. unfold be32or, be32.
  replace (N.shiftl b0 24) with (N.shiftl (N.shiftl b0 8) 16) by (rewrite N.shiftl_shiftl; reflexivity).
  rewrite <- N.shiftl_lor.
  replace (N.shiftl (N.lor (N.shiftl b0 8) b1) 16) with (N.shiftl (N.shiftl (N.lor (N.shiftl b0 8) b1) 8) 8)
    by (rewrite N.shiftl_shiftl; reflexivity).
  rewrite <- N.shiftl_lor.
  rewrite (lor_shiftl_add _ 8 b3) by exact H3.
  rewrite (lor_shiftl_add _ 8 b2) by exact H2.
  rewrite (lor_shiftl_add _ 8 b1) by exact H1.
  change (2 ^ 8) with 256. lia.
Qed.
Definition bytes_lt (l : list N) : Prop := Forall (fun b => b < 256) l.
Lemma words_be n : forall l, (length l <= n)%nat -> bytes_lt l ->
  words be32or l = words be32 l /\ Forall W32 (words be32 l).
Proof.
  induction n as [|n IH]; intros l Hl Hb.
  - destruct l; [split; [reflexivity|constructor]|cbn in Hl; lia].
  - destruct l as [|b0 [|b1 [|b2 [|b3 r]]]]; try (split; [reflexivity|constructor]).
    inversion Hb as [|? ? H0 Hb1]; subst. inversion Hb1 as [|? ? H1 Hb2]; subst.
    inversion Hb2 as [|? ? H2 Hb3]; subst. inversion Hb3 as [|? ? H3 Hb4]; subst. cbv beta in *.
    cbn [words]. destruct (IH r) as [I1 I2]; [cbn [length] in Hl; lia|exact Hb4|].
    rewrite I1, be32or_be32 by assumption. split; [reflexivity|]. constructor; [|exact I2].
    unfold W32, be32. lia.
Qed.
Lemma words_length n : forall (f : N -> N -> N -> N -> N) l, (length l <= n)%nat -> length (words f l) = (length l / 4)%nat.
Proof.
  induction n as [|n IH]; intros f l Hl.
  - destruct l; [reflexivity|cbn in Hl; lia].
  - destruct l as [|b0 [|b1 [|b2 [|b3 r]]]]; try reflexivity.
    cbn [words length] in *. rewrite IH by lia.
    replace (S (S (S (S (length r))))) with (length r + 1 * 4)%nat by lia.
    rewrite Nat.div_add by lia. lia.
Qed.

(* ---------- the message schedule ---------- *)
Lemma fips_W_fuel M f1 : forall f2 t, (t < f1)%nat -> (t < f2)%nat -> fips_W f1 M t = fips_W f2 M t.
Proof.
  induction f1 as [|f1 IH]; intros f2 t H1 H2; [lia|].
  destruct f2 as [|f2]; [lia|]. cbn [fips_W]. destruct (Nat.ltb_spec t 16) as [Ht|Ht]; [reflexivity|].
  rewrite (IH f2 (t - 3)%nat), (IH f2 (t - 8)%nat), (IH f2 (t - 14)%nat), (IH f2 (t - 16)%nat) by lia. reflexivity.
Qed.
Notation Wt M t := (fips_W (S t) M t).
Lemma Wt_low M t : (t < 16)%nat -> Wt M t = nth t M 0.
Proof. intros H. cbn [fips_W]. destruct (Nat.ltb_spec t 16); [reflexivity|lia]. Qed.
Lemma Wt_high M t : (16 <= t)%nat ->
  Wt M t = fips_rotl 1 (N.lxor (N.lxor (N.lxor (Wt M (t - 3)) (Wt M (t - 8))) (Wt M (t - 14))) (Wt M (t - 16))).
Proof.
  intros H. cbn [fips_W]. destruct (Nat.ltb_spec t 16); [lia|].
  rewrite (fips_W_fuel M t (S (t - 3)) (t - 3)), (fips_W_fuel M t (S (t - 8)) (t - 8)),
          (fips_W_fuel M t (S (t - 14)) (t - 14)), (fips_W_fuel M t (S (t - 16)) (t - 16)) by lia.
  reflexivity.
Qed.

(* rw = W_{t-1}, W_{t-2}, ..., W_0 (the reversed list the model builds) *)
Definition sched_inv (M : list N) (t : nat) (rw : list N) : Prop :=
  length rw = t /\ (forall j, (j < t)%nat -> nth (t - 1 - j) rw 0 = Wt M j /\ W32 (Wt M j)).

Lemma sched_step M t rw : (16 <= t)%nat -> sched_inv M t rw -> sched_inv M (S t) (sha1_wnext rw :: rw).
Proof.
  intros Ht [Hl Hn]. split; [cbn [length]; lia|].
  assert (Hnew : sha1_wnext rw = Wt M t /\ W32 (Wt M t)).
  { unfold sha1_wnext. rewrite (Wt_high M t Ht).
    destruct (Hn (t - 3)%nat) as [E3 B3]; [lia|]. destruct (Hn (t - 8)%nat) as [E8 B8]; [lia|].
    destruct (Hn (t - 14)%nat) as [E14 B14]; [lia|]. destruct (Hn (t - 16)%nat) as [E16 B16]; [lia|].
    replace (t - 1 - (t - 3))%nat with 2%nat in E3 by lia. replace (t - 1 - (t - 8))%nat with 7%nat in E8 by lia.
    replace (t - 1 - (t - 14))%nat with 13%nat in E14 by lia. replace (t - 1 - (t - 16))%nat with 15%nat in E16 by lia.
    rewrite E3, E8, E14, E16.
    assert (Hx : W32 (N.lxor (N.lxor (N.lxor (Wt M (t - 3)) (Wt M (t - 8))) (Wt M (t - 14))) (Wt M (t - 16))))
      by (repeat apply W32_lxor; assumption).
    split.
    - apply sha1_rotl_fips; [exact Hx|lia].
    - rewrite <- sha1_rotl_fips by (try exact Hx; lia). apply W32_sha1_rotl; [exact Hx|lia]. }
  intros j Hj. destruct (Nat.eq_dec j t) as [->|Hne].
  - replace (S t - 1 - t)%nat with 0%nat by lia. cbn [nth]. exact Hnew.
  - replace (S t - 1 - j)%nat with (S (t - 1 - j)) by lia. cbn [nth]. apply Hn. lia.
Qed.
Lemma sched_run M k : forall t rw, (16 <= t)%nat -> sched_inv M t rw -> sched_inv M (k + t) (sha1_sched k rw).
Proof.
  induction k as [|k IH]; intros t rw Ht Hi; [exact Hi|].
  cbn [sha1_sched]. replace (S k + t)%nat with (k + S t)%nat by lia. apply IH; [lia|]. apply sched_step; assumption.
Qed.
Lemma sched_init M : length M = 16%nat -> Forall W32 M -> sched_inv M 16 (rev M).
Proof.
  intros Hl Hb. split; [rewrite rev_length; exact Hl|]. intros j Hj.
  rewrite Wt_low by exact Hj. rewrite rev_nth by lia. replace (length M - S (16 - 1 - j))%nat with j by lia.
  split; [reflexivity|]. rewrite Forall_forall in Hb. apply Hb. apply nth_In. lia.
Qed.
Lemma nth_map_seq {A} (g : nat -> A) n j d : (j < n)%nat -> nth j (map g (seq 0 n)) d = g j.
Proof.
  intros H. rewrite (nth_indep _ d (g 0%nat)) by (rewrite map_length, seq_length; exact H).
  rewrite (map_nth g (seq 0 n) 0%nat j). rewrite seq_nth by exact H. reflexivity.
Qed.
Lemma sha1_w_fips block : length block = 64%nat -> bytes_lt block ->
  sha1_w block = map (fun t => Wt (words be32 block) t) (seq 0 80) /\
  Forall W32 (map (fun t => Wt (words be32 block) t) (seq 0 80)).
Proof.
  intros Hl Hb. destruct (words_be 64 block) as [Ew Bw]; [lia|exact Hb|].
  set (M := words be32 block) in *.
  assert (HM : length M = 16%nat) by (unfold M; rewrite (words_length 64) by lia; rewrite Hl; reflexivity).
  pose proof (sched_run M 64 16 (rev M) (le_n 16) (sched_init M HM Bw)) as [Sl Sn].
  unfold sha1_w. rewrite Ew. fold M. change (64 + 16)%nat with 80%nat in *.
  assert (Hnth : forall j, (j < 80)%nat -> nth j (rev (sha1_sched 64 (rev M))) 0 = Wt M j).
  { intros j Hj. rewrite rev_nth by lia. rewrite Sl. replace (80 - S j)%nat with (80 - 1 - j)%nat by lia. apply Sn. exact Hj. }
  split.
  - apply (nth_ext _ _ 0 0); [rewrite rev_length, map_length, seq_length; exact Sl|].
    intros j Hj. rewrite rev_length, Sl in Hj. rewrite Hnth by exact Hj.
    rewrite (nth_map_seq (fun t => Wt M t) 80 j 0 Hj). reflexivity.
  - rewrite Forall_forall. intros w Hw. apply in_map_iff in Hw. destruct Hw as (t & <- & Ht).
    apply in_seq in Ht. apply Sn. lia.
Qed.

(* ---------- the 80 steps ---------- *)
Definition Q32 (q : quint) : Prop := let '(a, b, c, d, e) := q in W32 a /\ W32 b /\ W32 c /\ W32 d /\ W32 e.

Lemma fold_combine_map {A B S : Type} (f : S -> A * B -> S) (g : A -> B) l : forall s,
  fold_left f (combine l (map g l)) s = fold_left (fun s t => f s (t, g t)) l s.
Proof. induction l as [|x l IH]; intros s; [reflexivity|]. cbn [map combine fold_left]. apply IH. Qed.
Lemma fold_left_inv_ext {A S : Type} (P : S -> Prop) (f1 f2 : S -> A -> S) l :
  (forall s t, P s -> In t l -> f1 s t = f2 s t /\ P (f2 s t)) ->
  forall s, P s -> fold_left f1 l s = fold_left f2 l s /\ P (fold_left f2 l s).
Proof.
  induction l as [|x l IH]; intros H s Hs; [split; [reflexivity|exact Hs]|].
  cbn [fold_left]. destruct (H s x Hs (or_introl eq_refl)) as [E Pn]. rewrite E.
  apply IH; [|exact Pn]. intros s' t Hs' Ht. apply H; [exact Hs'|right; exact Ht].
Qed.

Lemma sha1_round_fips M st t : (t < 80)%nat -> Q32 st -> W32 (Wt M t) ->
  sha1_round st (t, Wt M t) = fips_step M st t /\ Q32 (fips_step M st t).
Proof.
  intros Ht Hq Hw. destruct st as [[[[a b] c] d] e]. destruct Hq as (Ha & Hb & Hc & Hd & He).
  unfold sha1_round, fips_step. cbn [fst snd].
  rewrite (sha1_rotl_fips a 5 Ha) by lia. rewrite (sha1_f_fips (N.of_nat t) b c d) by (try exact Hb; lia).
  rewrite (sha1_k_fips (N.of_nat t)) by lia. rewrite (sha1_rotl_fips b 30 Hb) by lia.
  split; [reflexivity|]. unfold Q32. repeat split; try assumption; [apply W32_add32|].
  rewrite <- (sha1_rotl_fips b 30 Hb) by lia. apply W32_sha1_rotl; [exact Hb|lia].
Qed.

Lemma sha1_process_fips h block : Q32 h -> length block = 64%nat -> bytes_lt block ->
  sha1_process h block = sha1_compress_fips h block /\ Q32 (sha1_compress_fips h block).
Proof.
  intros Hq Hl Hb. unfold sha1_process, sha1_compress_fips.
  destruct (sha1_w_fips block Hl Hb) as [Ew Bw]. rewrite Ew. set (M := words be32 block) in *.
  rewrite (fold_combine_map sha1_round (fun t => Wt M t) (seq 0 80)).
  destruct (fold_left_inv_ext Q32 (fun s t => sha1_round s (t, Wt M t)) (fips_step M) (seq 0 80)) with (s := h) as [Ef Pf].
  - intros s t Hs Ht. apply in_seq in Ht. apply sha1_round_fips; [lia|exact Hs|].
    rewrite Forall_forall in Bw. apply Bw. apply in_map_iff. exists t. split; [reflexivity|]. apply in_seq. lia.
  - exact Hq.
  - rewrite Ef. destruct h as [[[[h0 h1] h2] h3] h4].
    destruct (fold_left (fips_step M) (seq 0 80) (h0, h1, h2, h3, h4)) as [[[[a b] c] d] e].
    split; [reflexivity|]. unfold Q32. repeat split; apply W32_add32.
Qed.

(* ---------- lifting to the whole message ---------- *)
Lemma In_firstn_list {A} n : forall (l : list A) x, In x (firstn n l) -> In x l.
Proof.
  induction n as [|n IH]; intros l x H; [destruct H|]. destruct l; [destruct H|].
  destruct H as [H|H]; [left; exact H|right; apply IH; exact H].
Qed.
Lemma bytes_lt_firstn n l : bytes_lt l -> bytes_lt (firstn n l).
Proof. unfold bytes_lt. intros H. apply Forall_forall. intros x Hx. rewrite Forall_forall in H. apply H. eapply In_firstn_list; eauto. Qed.
Lemma In_skipn {A} n : forall (l : list A) x, In x (skipn n l) -> In x l.
Proof. induction n as [|n IH]; intros l x H; [exact H|]. destruct l; [exact H|]. right. apply IH. exact H. Qed.
Lemma bytes_lt_skipn n l : bytes_lt l -> bytes_lt (skipn n l).
Proof. unfold bytes_lt. intros H. apply Forall_forall. intros x Hx. rewrite Forall_forall in H. apply H. eapply In_skipn; eauto. Qed.

Lemma absorb_fips n : forall h m, (length m <= n)%nat -> Q32 h -> bytes_lt m ->
  absorb sha1_process h m = absorb sha1_compress_fips h m.
Proof.
  induction n as [|n IH]; intros h m Hl Hq Hb.
  - destruct m; [reflexivity|cbn in Hl; lia].
  - destruct (Nat.leb_spec 64 (length m)) as [Hge|Hlt].
    + rewrite (absorb_step _ sha1_process h m Hge), (absorb_step _ sha1_compress_fips h m Hge).
      destruct (sha1_process_fips h (firstn 64 m) Hq) as [E P]; [rewrite firstn_length; lia|apply bytes_lt_firstn; exact Hb|].
      rewrite E. apply IH; [rewrite skipn_length; lia|exact P|apply bytes_lt_skipn; exact Hb].
    + rewrite !absorb_small by exact Hlt. reflexivity.
Qed.

Lemma byte_of_lt w sh : byte_of w sh < 256.
Proof. rewrite byte_of_spec. apply N.mod_lt. discriminate. Qed.
Lemma bytes_lt_app a b : bytes_lt a -> bytes_lt b -> bytes_lt (a ++ b).
Proof. unfold bytes_lt. intros Ha Hb. apply Forall_app. split; assumption. Qed.
Lemma bytes_lt_padded m : bytes_lt m -> bytes_lt (sha1_padded m).
Proof.
  intros Hm. unfold sha1_padded. apply bytes_lt_app; [exact Hm|].
  apply bytes_lt_app; [constructor; [reflexivity|constructor]|].
  apply bytes_lt_app.
  - unfold bytes_lt. apply Forall_forall. intros x Hx. apply repeat_spec in Hx. subst x. reflexivity.
  - unfold bytes_lt, be_bytes64. repeat (constructor; [apply byte_of_lt|]). constructor.
Qed.

Lemma sha1_spec_is_fips m : bytes_lt m -> sha1_spec m = sha1_spec_fips m.
Proof.
  intros Hm. unfold sha1_spec, sha1_spec_fips.
  rewrite (absorb_fips (length (sha1_padded m))); [reflexivity|lia| |apply bytes_lt_padded; exact Hm].
  unfold Q32, sha1_h0, W32. repeat split; reflexivity.
Qed.
