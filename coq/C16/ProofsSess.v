(* C16: the session encryptors (hmac_encryptor.cpp, aes_encryptor.cpp) over abstract MAC / block cipher:
   what one node writes every other node with the same keys reads back, whatever the state of its running IVs *)
From CppcmsV Require Import Base.Tac C16.Defs C16.Blocks C16.ProofsCbc.
Local Open Scope N_scope.

(* ---------- the comparison without early exit ---------- *)
Lemma diff_count_refl a : diff_count a a = 0%nat.
Proof. induction a as [|x a IH]; [reflexivity|]. cbn [diff_count]. rewrite N.eqb_refl, IH. reflexivity. Qed.
Lemma ct_equal_refl a : ct_equal a a = true.
Proof. unfold ct_equal. rewrite diff_count_refl. reflexivity. Qed.
Lemma ct_equal_eq a : forall b, length a = length b -> ct_equal a b = true -> a = b.
Proof.
  unfold ct_equal. induction a as [|x a IH]; intros [|y b] Hl H; try reflexivity; try discriminate.
  cbn [diff_count length] in *. destruct (N.eqb_spec x y) as [->|Hne].
  - f_equal. apply IH; [lia|exact H].
  - discriminate.
Qed.

Lemma skipn_plus {A} b : forall a (l : list A), skipn (b + a) l = skipn a (skipn b l).
Proof.
  induction b as [|b IH]; intros a l; [reflexivity|]. destruct l as [|x l]; [destruct a; reflexivity|].
  cbn [Nat.add skipn]. apply IH.
Qed.

Section Sess.
  Variable mac : list N -> list N.
  Variable dsz : nat.
  Hypothesis mac_len : forall m, length (mac m) = dsz.

  (* ---------- hmac_cipher ---------- *)
  Lemma hc_roundtrip p : hc_decrypt mac dsz (hc_encrypt mac p) = Some p.
  Proof.
    unfold hc_decrypt, hc_encrypt. rewrite app_length, mac_len.
    destruct (Nat.ltb_spec (length p + dsz) dsz) as [H|_]; [lia|].
    replace (length p + dsz - dsz)%nat with (length p) by lia.
    rewrite (firstn_app_n _ p (mac p) eq_refl), (skipn_app_n _ p (mac p) eq_refl), ct_equal_refl. reflexivity.
  Qed.
  Lemma hc_accepts_only_own_output c p : hc_decrypt mac dsz c = Some p -> c = hc_encrypt mac p.
  Proof.
    unfold hc_decrypt, hc_encrypt. destruct (Nat.ltb_spec (length c) dsz) as [H|H]; [discriminate|].
    destruct (ct_equal _ _) eqn:E; [|discriminate]. intros Hp. injection Hp as <-.
    apply ct_equal_eq in E; [|rewrite mac_len, skipn_length; lia].
    rewrite E. symmetry. apply firstn_skipn.
  Qed.

  (* ---------- aes_cipher ---------- *)
  Variable E Dc : list N -> list N.
  Hypothesis E_len : forall b, length b = 16%nat -> length (E b) = 16%nat.
  Hypothesis Dc_len : forall b, length b = 16%nat -> length (Dc b) = 16%nat.
  Hypothesis DE : forall b, length b = 16%nat -> Dc (E b) = b.

  Lemma le32_of_le_bytes32 w r : w < 4294967296 -> le32_of (le_bytes32 w ++ r) = w.
  Proof.
    intros H. unfold le_bytes32, le32_of, le32. cbn [app]. rewrite !byte_of_spec.
    change (2 ^ 0) with 1. change (2 ^ 8) with 256. change (2 ^ 16) with 65536. change (2 ^ 24) with 16777216. lia.
  Qed.

  (* the shape of the buffer that is encrypted *)
  Lemma ac_input_shape p : len p < 4294967296 ->
    exists pad, ac_input p = repeat 0 16 ++ le_bytes32 (len p) ++ p ++ pad /\
                whole (ac_input p) /\ (32 <= length (ac_input p))%nat.
  Proof.
    intros Hp. unfold ac_input. rewrite w32_mod, N.mod_small by exact Hp.
    set (bsz := (Nat.div (N.to_nat (len p) + 4 + 15) 16 * 16 + 16)%nat).
    set (src := repeat 0 16 ++ le_bytes32 (len p) ++ p).
    assert (Hsrc : length src = (20 + length p)%nat).
    { unfold src. rewrite !app_length, repeat_length. cbn [le_bytes32 length]. lia. }
    assert (Hnp : N.to_nat (len p) = length p) by (unfold len; lia).
    assert (Hb : (length src <= bsz)%nat /\ (bsz mod 16 = 0)%nat /\ (32 <= bsz)%nat).
    { unfold bsz. rewrite Hsrc, Hnp. pose proof (Nat.div_mod (length p + 4 + 15) 16 ltac:(lia)) as Hd.
      pose proof (Nat.mod_upper_bound (length p + 4 + 15) 16 ltac:(lia)) as Hr.
      set (q := Nat.div (length p + 4 + 15) 16) in *.
      replace (q * 16 + 16)%nat with ((q + 1) * 16)%nat by lia. rewrite Nat.mod_mul by lia.
      repeat split; try reflexivity; lia. }
    destruct Hb as (Hb1 & Hb2 & Hb3).
    exists (skipn (length src) (repeat 0 bsz)). unfold over_zeros.
    split; [unfold src; rewrite <- !app_assoc; reflexivity|].
    assert (Hlen : length (src ++ skipn (length src) (repeat 0 bsz)) = bsz)
      by (rewrite app_length, skipn_length, repeat_length; lia).
    unfold whole. rewrite Hlen. split; assumption.
  Qed.

  Lemma ac_roundtrip iv1 iv2 p :
    length iv1 = 16%nat -> length iv2 = 16%nat -> len p < 4294967296 ->
    fst (ac_decrypt mac dsz Dc iv2 (fst (ac_encrypt mac E iv1 p))) = Some p.
  Proof.
    intros H1 H2 Hp. destruct (ac_input_shape p Hp) as (pad & Hin & Hw & H32).
    unfold ac_encrypt.
    destruct (cbc_inverse_chain E Dc E_len DE (ac_input p) Hw iv1 H1) as (Hdec & Hclen & _).
    rewrite <- !cbc_enc_chain in *. rewrite <- cbc_dec_chain in Hdec.
    destruct (cbc_enc E iv1 (ac_input p)) as [c iv'] eqn:Ec. cbn [fst snd] in *.
    unfold ac_decrypt. rewrite app_length, mac_len.
    destruct (Nat.ltb_spec (length c + dsz) (dsz + 16)) as [H|_]; [lia|].
    replace (length c + dsz - dsz)%nat with (length c) by lia.
    assert (Hcw : (length c mod 16 = 0)%nat) by (rewrite Hclen; exact Hw).
    rewrite Hcw. cbn [Nat.eqb negb].
    destruct (Nat.ltb_spec (Nat.div (length c) 16) 2) as [H|_].
    { pose proof (Nat.div_mod (length c) 16 ltac:(lia)). lia. }
    rewrite (firstn_app_n _ c (mac c) eq_refl), (skipn_app_n _ c (mac c) eq_refl), ct_equal_refl. cbn [negb].
    (* decrypting with the other IV differs in the first block only *)
    destruct (cbc_dec_iv_independent Dc Dc_len iv2 iv1 c H2 H1 ltac:(lia)) as [Hskip _].
    rewrite Hdec in Hskip. cbn [fst] in Hskip.
    destruct (cbc_dec Dc iv2 c) as [full iv''] eqn:Ed. cbn [fst] in Hskip.
    assert (Hs16 : skipn 16 full = le_bytes32 (len p) ++ p ++ pad).
    { rewrite Hskip, Hin. apply skipn_app_n. apply repeat_length. }
    assert (Hs20 : skipn 20 full = p ++ pad).
    { change 20%nat with (16 + 4)%nat. rewrite skipn_plus, Hs16. reflexivity. }
    rewrite Hs16, le32_of_le_bytes32 by exact Hp.
    assert (Hreal : (20 + length p <= length c)%nat).
    { rewrite Hclen, Hin, !app_length, repeat_length. cbn [le_bytes32 length]. lia. }
    destruct (N.ltb_spec (N.of_nat (length c - 16 - 4)) (len p)) as [H|_]; [unfold len in H; lia|].
    cbn [fst]. rewrite Hs20. unfold len. rewrite Nat2N.id. rewrite (firstn_app_n _ p pad eq_refl). reflexivity.
  Qed.

End Sess.

Section SessAuth.
  Variable mac : list N -> list N.
  Variable dsz : nat.
  Hypothesis mac_len : forall m, length (mac m) = dsz.
  Variable Dc : list N -> list N.
  (* nothing is decrypted, and the running IV is not touched, unless the trailer is the MAC of the body *)
  Lemma ac_accepts_only_authentic iv c p :
    fst (ac_decrypt mac dsz Dc iv c) = Some p ->
    mac (firstn (length c - dsz) c) = skipn (length c - dsz) c /\ (32 <= length c - dsz)%nat /\ ((length c - dsz) mod 16 = 0)%nat.
  Proof.
    unfold ac_decrypt. destruct (Nat.ltb_spec (length c) (dsz + 16)) as [H|H]; [discriminate|].
    destruct (Nat.eqb_spec (Nat.modulo (length c - dsz) 16) 0) as [Hm|Hm]; cbn [negb]; [|discriminate].
    destruct (Nat.ltb_spec (Nat.div (length c - dsz) 16) 2) as [Hd|Hd]; [discriminate|].
    destruct (ct_equal _ _) eqn:Eq; cbn [negb]; [|discriminate]. intros _.
    apply ct_equal_eq in Eq; [|rewrite mac_len, skipn_length; lia].
    split; [exact Eq|]. split; [|exact Hm].
    pose proof (Nat.div_mod (length c - dsz) 16 ltac:(lia)). lia.
  Qed.
End SessAuth.
