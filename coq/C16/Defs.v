(* C16: executable model of the bundled MD5 (src/md5.cpp), the bundled SHA-1 (private/sha1.h), the
   message_digest / hmac / key wrappers of src/crypto.cpp and the CBC object of src/aes.cpp, together
   with the specifications they are compared with (RFC 1321, FIPS 180-4, RFC 2104, CBC mode).
   Bytes are N (< 256 by hypothesis where it matters), byte strings are list N, 32-bit words are N
   with every wrap-around written explicitly.  No proofs here. *)
From Coq Require Import NArith List Bool.
Import ListNotations.
Local Open Scope N_scope.

(* ---------- 32-bit unsigned arithmetic ---------- *)
Definition mask32 : N := 4294967295.
Definition w32 (x : N) : N := N.land x mask32.              (* x mod 2^32 *)
Definition add32 (a b : N) : N := w32 (a + b).
Definition not32 (x : N) : N := N.lxor x mask32.            (* ~x on a 32-bit word *)
Definition shl32 (x n : N) : N := w32 (N.shiftl x n).
Definition w64 (x : N) : N := N.land x 18446744073709551615.

Definition le32 (b0 b1 b2 b3 : N) : N := b0 + 256 * b1 + 65536 * b2 + 16777216 * b3.
Definition be32or (b0 b1 b2 b3 : N) : N :=
  N.lor (N.lor (N.lor (N.shiftl b0 24) (N.shiftl b1 16)) (N.shiftl b2 8)) b3.
Fixpoint words (f : N -> N -> N -> N -> N) (l : list N) : list N :=
  match l with
  | b0 :: b1 :: b2 :: b3 :: r => f b0 b1 b2 b3 :: words f r
  | _ => []
  end.
Definition byte_of (w sh : N) : N := N.land (N.shiftr w sh) 255.   (* (unsigned char)(w >> sh) *)
Definition le_bytes32 (w : N) : list N := [byte_of w 0; byte_of w 8; byte_of w 16; byte_of w 24].
Definition be_bytes32 (w : N) : list N := [byte_of w 24; byte_of w 16; byte_of w 8; byte_of w 0].
Definition be_bytes64 (w : N) : list N :=
  [byte_of w 56; byte_of w 48; byte_of w 40; byte_of w 32; byte_of w 24; byte_of w 16; byte_of w 8; byte_of w 0].
Definition le_bytes64 (w : N) : list N :=
  [byte_of w 0; byte_of w 8; byte_of w 16; byte_of w 24; byte_of w 32; byte_of w 40; byte_of w 48; byte_of w 56].

Definition len (l : list N) : N := N.of_nat (length l).
Definition take (n : N) (l : list N) : list N := firstn (N.to_nat n) l.
Definition drop (n : N) (l : list N) : list N := skipn (N.to_nat n) l.
(* memcpy(buf + off, src, |src|) on a fixed-size array *)
Definition poke (buf : list N) (off : N) (src : list N) : list N :=
  take off buf ++ src ++ drop (off + len src) buf.

(* ---------- generic block absorption (used by the specifications) ---------- *)
Section Absorb.
  Variable H : Type.
  Variable compress : H -> list N -> H.
  Fixpoint absorb_fuel (fuel : nat) (h : H) (m : list N) : H * list N :=
    match fuel with
    | O => (h, m)
    | S f => if Nat.leb 64 (length m) then absorb_fuel f (compress h (firstn 64 m)) (skipn 64 m) else (h, m)
    end.
  (* fold the compression function over the full 64-byte blocks of m; returns the unconsumed tail (< 64 bytes) *)
  Definition absorb (h : H) (m : list N) : H * list N := absorb_fuel (length m) h m.
End Absorb.
Arguments absorb_fuel {H}.
Arguments absorb {H}.

(* =====================================================================================
   MD5 -- src/md5.cpp
   ===================================================================================== *)
Definition md5_F (x y z : N) : N := N.lor (N.land x y) (N.land (not32 x) z).
Definition md5_G (x y z : N) : N := N.lor (N.land x z) (N.land y (not32 z)).
Definition md5_H (x y z : N) : N := N.lxor (N.lxor x y) z.
Definition md5_I (x y z : N) : N := N.lxor y (N.lor x (not32 z)).
Definition md5_rotl (x n : N) : N := N.lor (shl32 x n) (N.shiftr x (32 - n)).   (* ROTATE_LEFT *)
Definition md5_fun (r : N) : N -> N -> N -> N :=
  match r with 0 => md5_F | 1 => md5_G | 2 => md5_H | _ => md5_I end.
(* SET(a,b,c,d,k,s,Ti):  t = a + f(b,c,d) + X[k] + Ti;  a = ROTATE_LEFT(t,s) + b  -- result is the new a *)
Definition md5_set (r a b c d xk s ti : N) : N :=
  add32 (md5_rotl (add32 (add32 (add32 a (md5_fun r b c d)) xk) ti) s) b.

(* the 64 SET lines of md5_process in source order: (round, k, s, T) *)
Definition md5_steps : list (N * N * N * N) :=
  [(0,0,7,0xd76aa478); (0,1,12,0xe8c7b756); (0,2,17,0x242070db); (0,3,22,0xc1bdceee);
   (0,4,7,0xf57c0faf); (0,5,12,0x4787c62a); (0,6,17,0xa8304613); (0,7,22,0xfd469501);
   (0,8,7,0x698098d8); (0,9,12,0x8b44f7af); (0,10,17,0xffff5bb1); (0,11,22,0x895cd7be);
   (0,12,7,0x6b901122); (0,13,12,0xfd987193); (0,14,17,0xa679438e); (0,15,22,0x49b40821);
   (1,1,5,0xf61e2562); (1,6,9,0xc040b340); (1,11,14,0x265e5a51); (1,0,20,0xe9b6c7aa);
   (1,5,5,0xd62f105d); (1,10,9,0x02441453); (1,15,14,0xd8a1e681); (1,4,20,0xe7d3fbc8);
   (1,9,5,0x21e1cde6); (1,14,9,0xc33707d6); (1,3,14,0xf4d50d87); (1,8,20,0x455a14ed);
   (1,13,5,0xa9e3e905); (1,2,9,0xfcefa3f8); (1,7,14,0x676f02d9); (1,12,20,0x8d2a4c8a);
   (2,5,4,0xfffa3942); (2,8,11,0x8771f681); (2,11,16,0x6d9d6122); (2,14,23,0xfde5380c);
   (2,1,4,0xa4beea44); (2,4,11,0x4bdecfa9); (2,7,16,0xf6bb4b60); (2,10,23,0xbebfbc70);
   (2,13,4,0x289b7ec6); (2,0,11,0xeaa127fa); (2,3,16,0xd4ef3085); (2,6,23,0x04881d05);
   (2,9,4,0xd9d4d039); (2,12,11,0xe6db99e5); (2,15,16,0x1fa27cf8); (2,2,23,0xc4ac5665);
   (3,0,6,0xf4292244); (3,7,10,0x432aff97); (3,14,15,0xab9423a7); (3,5,21,0xfc93a039);
   (3,12,6,0x655b59c3); (3,3,10,0x8f0ccc92); (3,10,15,0xffeff47d); (3,1,21,0x85845dd1);
   (3,8,6,0x6fa87e4f); (3,15,10,0xfe2ce6e0); (3,6,15,0xa3014314); (3,13,21,0x4e0811a1);
   (3,4,6,0xf7537e82); (3,11,10,0xbd3af235); (3,2,15,0x2ad7d2bb); (3,9,21,0xeb86d391)].

Definition quad : Type := (N * N * N * N)%type.
(* one SET line; the register names rotate (a,b,c,d) -> (d,a,b,c) -> (c,d,a,b) -> (b,c,d,a) in the source,
   which is the same as always updating the first register and rotating the tuple *)
Definition md5_step (X : list N) (st : quad) (e : N * N * N * N) : quad :=
  let '(a, b, c, d) := st in
  let '(r, k, s, t) := e in
  (d, md5_set r a b c d (nth (N.to_nat k) X 0) s t, b, c).
Definition md5_rounds (steps : list (N * N * N * N)) (abcd : quad) (block : list N) : quad :=
  let X := words le32 block in        (* little-endian host: X = (const md5_word_t * )data *)
  let '(a0, b0, c0, d0) := abcd in
  let '(a, b, c, d) := fold_left (md5_step X) steps abcd in
  (add32 a0 a, add32 b0 b, add32 c0 c, add32 d0 d).
Definition md5_process : quad -> list N -> quad := md5_rounds md5_steps.

Record md5_state := mk_md5 { m_count0 : N; m_count1 : N; m_abcd : quad; m_buf : list N }.
Definition md5_abcd0 : quad :=
  (0x67452301, N.lxor mask32 0x10325476, N.lxor mask32 0x67452301, 0x10325476).
(* md5_init does not touch buf *)
Definition md5_init (st : md5_state) : md5_state := mk_md5 0 0 md5_abcd0 (m_buf st).
(* a freshly constructed md5_digets: buf is indeterminate in C++; zeros here, the theorems quantify over it *)
Definition md5_new : md5_state := mk_md5 0 0 md5_abcd0 (repeat 0 64).

(* for (; left >= 64; p += 64, left -= 64) md5_process(pms, p); *)
Definition md5_blocks (fuel : nat) (abcd : quad) (p : list N) : quad * list N :=
  absorb_fuel md5_process fuel abcd p.

(* the part of md5_append after the initial partial block: full blocks straight from the input, rest into buf *)
Definition md5_tail (c0 c1 : N) (abcd : quad) (buf : list N) (q : list N) : md5_state :=
  let '(abcd', rest) := md5_blocks (length q) abcd q in
  mk_md5 c0 c1 abcd' (poke buf 0 rest).        (* if (left) memcpy(pms->buf, p, left) *)
(* md5_append(pms, p, nbytes) with nbytes = |p| as an int, 0 < nbytes < 2^31 (callers below guarantee it) *)
Definition md5_append_c (st : md5_state) (p : list N) : md5_state :=
  let nbytes := len p in
  if nbytes =? 0 then st else
  let offset := N.land (N.shiftr (m_count0 st) 3) 63 in
  let nbits := w32 (N.shiftl nbytes 3) in
  let c1 := add32 (m_count1 st) (N.shiftr nbytes 29) in
  let c0 := add32 (m_count0 st) nbits in
  let c1 := if c0 <? nbits then add32 c1 1 else c1 in
  if offset =? 0 then md5_tail c0 c1 (m_abcd st) (m_buf st) p
  else
    let copy := if 64 <? offset + nbytes then 64 - offset else nbytes in
    let buf1 := poke (m_buf st) offset (take copy p) in
    if offset + copy <? 64 then mk_md5 c0 c1 (m_abcd st) buf1
    else md5_tail c0 c1 (md5_process (m_abcd st) buf1) buf1 (drop copy p).

Definition md5_pad : list N := 128 :: repeat 0 63.
Definition quad_le_bytes (q : quad) : list N :=
  let '(a, b, c, d) := q in le_bytes32 a ++ le_bytes32 b ++ le_bytes32 c ++ le_bytes32 d.
Definition md5_finish (st : md5_state) : list N * md5_state :=
  let data := le_bytes32 (m_count0 st) ++ le_bytes32 (m_count1 st) in
  let padn := N.land (w32 (55 + 4294967296 - N.shiftr (m_count0 st) 3)) 63 + 1 in
  let st1 := md5_append_c st (take padn md5_pad) in
  let st2 := md5_append_c st1 data in
  (quad_le_bytes (m_abcd st2), st2).

(* crypto.cpp md5_digets::append(ptr,size): size_t -> int conversion, non-positive counts are ignored *)
Definition md5_obj_append (st : md5_state) (data : list N) : md5_state :=
  let nb := w32 (len data) in
  if (nb =? 0) || (2147483648 <=? nb) then st else md5_append_c st (take nb data).
(* md5_digets::readout: md5_finish + md5_init *)
Definition md5_obj_readout (st : md5_state) : list N * md5_state :=
  let '(dg, st') := md5_finish st in (dg, md5_init st').

(* ---- RFC 1321 specification ---- *)
Definition md5_T_rfc : list N :=
  [0xd76aa478; 0xe8c7b756; 0x242070db; 0xc1bdceee; 0xf57c0faf; 0x4787c62a; 0xa8304613; 0xfd469501;
   0x698098d8; 0x8b44f7af; 0xffff5bb1; 0x895cd7be; 0x6b901122; 0xfd987193; 0xa679438e; 0x49b40821;
   0xf61e2562; 0xc040b340; 0x265e5a51; 0xe9b6c7aa; 0xd62f105d; 0x02441453; 0xd8a1e681; 0xe7d3fbc8;
   0x21e1cde6; 0xc33707d6; 0xf4d50d87; 0x455a14ed; 0xa9e3e905; 0xfcefa3f8; 0x676f02d9; 0x8d2a4c8a;
   0xfffa3942; 0x8771f681; 0x6d9d6122; 0xfde5380c; 0xa4beea44; 0x4bdecfa9; 0xf6bb4b60; 0xbebfbc70;
   0x289b7ec6; 0xeaa127fa; 0xd4ef3085; 0x04881d05; 0xd9d4d039; 0xe6db99e5; 0x1fa27cf8; 0xc4ac5665;
   0xf4292244; 0x432aff97; 0xab9423a7; 0xfc93a039; 0x655b59c3; 0x8f0ccc92; 0xffeff47d; 0x85845dd1;
   0x6fa87e4f; 0xfe2ce6e0; 0xa3014314; 0x4e0811a1; 0xf7537e82; 0xbd3af235; 0x2ad7d2bb; 0xeb86d391].
(* step i (0-based) of RFC 1321 section 3.4: round i/16, word index and shift by formula *)
Definition md5_spec_k (i : N) : N :=
  match i / 16 with 0 => i | 1 => (5 * i + 1) mod 16 | 2 => (3 * i + 5) mod 16 | _ => (7 * i) mod 16 end.
Definition md5_spec_s (i : N) : N :=
  nth (N.to_nat (i mod 4))
      (match i / 16 with 0 => [7; 12; 17; 22] | 1 => [5; 9; 14; 20] | 2 => [4; 11; 16; 23] | _ => [6; 10; 15; 21] end) 0.
Definition md5_spec_steps : list (N * N * N * N) :=
  map (fun i => let n := N.of_nat i in (n / 16, md5_spec_k n, md5_spec_s n, nth i md5_T_rfc 0)) (seq 0 64).
Definition md5_compress_spec : quad -> list N -> quad := md5_rounds md5_spec_steps.
Definition md5_iv_rfc : quad := (0x67452301, 0xefcdab89, 0x98badcfe, 0x10325476).
(* number of zero bytes after the 0x80 byte: least k >= 0 with |m| + 1 + k = 56 (mod 64) *)
Definition pad_zeros (m : list N) : nat := N.to_nat ((119 - len m mod 64) mod 64).
Definition md5_padded (m : list N) : list N :=
  m ++ [128] ++ repeat 0 (pad_zeros m) ++ le_bytes64 (w64 (8 * len m)).
Definition md5_spec (m : list N) : list N :=
  quad_le_bytes (fst (absorb md5_compress_spec md5_iv_rfc (md5_padded m))).

(* =====================================================================================
   SHA-1 -- private/sha1.h
   ===================================================================================== *)
Definition sha1_rotl (x n : N) : N := N.lxor (shl32 x n) (N.shiftr x (32 - n)).   (* left_rotate *)
Definition quint : Type := (N * N * N * N * N)%type.
Definition sha1_h0 : quint := (0x67452301, 0xEFCDAB89, 0x98BADCFE, 0x10325476, 0xC3D2E1F0).
Definition sha1_f (i b c d : N) : N :=
  if i <? 20 then N.lor (N.land b c) (N.land (not32 b) d)
  else if i <? 40 then N.lxor (N.lxor b c) d
  else if i <? 60 then N.lor (N.lor (N.land b c) (N.land b d)) (N.land c d)
  else N.lxor (N.lxor b c) d.
Definition sha1_k (i : N) : N :=
  if i <? 20 then 0x5A827999 else if i <? 40 then 0x6ED9EBA1 else if i <? 60 then 0x8F1BBCDC else 0xCA62C1D6.
(* w[i] = left_rotate(w[i-3]^w[i-8]^w[i-14]^w[i-16], 1); rw holds w[i-1], w[i-2], ... *)
Definition sha1_wnext (rw : list N) : N :=
  sha1_rotl (N.lxor (N.lxor (N.lxor (nth 2 rw 0) (nth 7 rw 0)) (nth 13 rw 0)) (nth 15 rw 0)) 1.
Fixpoint sha1_sched (n : nat) (rw : list N) : list N :=
  match n with O => rw | S n' => sha1_sched n' (sha1_wnext rw :: rw) end.
Definition sha1_w (block : list N) : list N := rev (sha1_sched 64 (rev (words be32or block))).
Definition sha1_round (st : quint) (iw : nat * N) : quint :=
  let '(a, b, c, d, e) := st in
  let i := N.of_nat (fst iw) in
  let temp := add32 (add32 (add32 (add32 (sha1_rotl a 5) (sha1_f i b c d)) e) (sha1_k i)) (snd iw) in
  (temp, a, sha1_rotl b 30, c, d).
Definition sha1_process (h : quint) (block : list N) : quint :=
  let '(h0, h1, h2, h3, h4) := h in
  let '(a, b, c, d, e) := fold_left sha1_round (combine (seq 0 80) (sha1_w block)) h in
  (add32 h0 a, add32 h1 b, add32 h2 c, add32 h3 d, add32 h4 e).

Record sha1_state := mk_sha1 { s_h : quint; s_block : list N; s_idx : N; s_count : N }.
(* reset() does not touch block_ *)
Definition sha1_reset (st : sha1_state) : sha1_state := mk_sha1 sha1_h0 (s_block st) 0 0.
Definition sha1_new : sha1_state := mk_sha1 sha1_h0 (repeat 0 64) 0 0.
Definition sha1_process_byte (st : sha1_state) (byte : N) : sha1_state :=
  let block' := poke (s_block st) (s_idx st) [byte] in
  let idx' := s_idx st + 1 in
  let count' := w64 (s_count st + 1) in
  if idx' =? 64 then mk_sha1 (sha1_process (s_h st) block') block' 0 count'
  else mk_sha1 (s_h st) block' idx' count'.
Definition sha1_process_bytes (st : sha1_state) (data : list N) : sha1_state :=
  fold_left sha1_process_byte data st.
(* while (cond(block_byte_index_)) process_byte(0);  -- at most 64 iterations *)
Fixpoint sha1_pad_while (cond : N -> bool) (fuel : nat) (st : sha1_state) : sha1_state :=
  match fuel with
  | O => st
  | S f => if cond (s_idx st) then sha1_pad_while cond f (sha1_process_byte st 0) else st
  end.
Definition sha1_get_digest (st : sha1_state) : quint * sha1_state :=
  let bit_count := w64 (s_count st * 8) in
  let st1 := sha1_process_byte st 128 in
  let st2 := if 56 <? s_idx st1
             then sha1_pad_while (fun i => i <? 56) 64 (sha1_pad_while (fun i => negb (i =? 0)) 64 st1)
             else sha1_pad_while (fun i => i <? 56) 64 st1 in
  let st3 := sha1_process_bytes st2 (be_bytes64 bit_count) in
  (s_h st3, st3).
Definition quint_be_bytes (q : quint) : list N :=
  let '(a, b, c, d, e) := q in be_bytes32 a ++ be_bytes32 b ++ be_bytes32 c ++ be_bytes32 d ++ be_bytes32 e.
(* crypto.cpp sha1_digets *)
Definition sha1_obj_append : sha1_state -> list N -> sha1_state := sha1_process_bytes.
Definition sha1_obj_readout (st : sha1_state) : list N * sha1_state :=
  let '(dg, st') := sha1_get_digest st in (quint_be_bytes dg, sha1_reset st').

(* ---- FIPS 180-4 specification (section 5.1.1 padding, 6.1.2 hash computation) ---- *)
Definition sha1_padded (m : list N) : list N :=
  m ++ [128] ++ repeat 0 (pad_zeros m) ++ be_bytes64 (w64 (8 * len m)).
Definition sha1_spec (m : list N) : list N :=
  quint_be_bytes (fst (absorb sha1_process sha1_h0 (sha1_padded m))).
(* the logical functions as FIPS 180-4 writes them (with xor); shown equal to the or-forms of the code *)
Definition fips_Ch (x y z : N) : N := N.lxor (N.land x y) (N.land (not32 x) z).
Definition fips_Parity (x y z : N) : N := N.lxor (N.lxor x y) z.
Definition fips_Maj (x y z : N) : N := N.lxor (N.lxor (N.land x y) (N.land x z)) (N.land y z).

(* =====================================================================================
   message_digest objects, HMAC (crypto.cpp hmac), over an abstract digest object
   ===================================================================================== *)
Section HMAC.
  Variable D : Type.                       (* state of a message_digest object *)
  Variable d_new : D.                      (* a newly created object; clone() creates one too *)
  Variable d_append : D -> list N -> D.
  Variable d_readout : D -> list N * D.
  Variable B : nat.                        (* block_size() *)
  Variable dsz : nat.                      (* digest_size() *)

  Definition xor_const (c : N) (l : list N) : list N := map (fun b => N.lxor b c) l.
  (* memcpy of src to the start of a zero-filled vector of n bytes *)
  Definition over_zeros (n : nat) (src : list N) : list N := src ++ skipn (length src) (repeat 0 n).

  Record hmac_state := mk_hmac { h_md : D; h_opad : D; h_key : list N }.

  (* hmac::init() *)
  Definition hmac_init (md opad : D) (key : list N) : hmac_state :=
    let '(ipad, opadv, md1) :=
      if Nat.ltb B (length key) then
        let '(dg, md') := d_readout (d_append md key) in
        (over_zeros B dg, over_zeros B (firstn dsz dg), md')
      else (over_zeros B key, over_zeros B key, md) in
    mk_hmac (d_append md1 (xor_const 54 ipad)) (d_append opad (xor_const 92 opadv)) key.
  (* hmac::hmac(name,key) and hmac::hmac(digest,key) with a fresh digest *)
  Definition hmac_new (key : list N) : hmac_state := hmac_init d_new d_new key.
  Definition hmac_append (st : hmac_state) (data : list N) : hmac_state :=
    mk_hmac (d_append (h_md st) data) (h_opad st) (h_key st).
  Definition hmac_readout (st : hmac_state) : list N * hmac_state :=
    let '(dg, md') := d_readout (h_md st) in
    let '(out, opad') := d_readout (d_append (h_opad st) (firstn dsz dg)) in
    (out, hmac_init md' opad' (h_key st)).

  (* feed a message given as a list of chunks, read out; a list of such messages through one object *)
  Definition hmac_message (st : hmac_state) (chunks : list (list N)) : list N * hmac_state :=
    hmac_readout (fold_left hmac_append chunks st).
  Fixpoint hmac_session (st : hmac_state) (msgs : list (list (list N))) : list (list N) :=
    match msgs with
    | [] => []
    | m :: r => let '(o, st') := hmac_message st m in o :: hmac_session st' r
    end.

  (* RFC 2104 over a hash function Hf *)
  Variable Hf : list N -> list N.
  Definition hmac_key0 (key : list N) : list N :=
    over_zeros B (if Nat.ltb B (length key) then Hf key else key).
  Definition hmac_spec (key text : list N) : list N :=
    Hf (xor_const 92 (hmac_key0 key) ++ Hf (xor_const 54 (hmac_key0 key) ++ text)).
End HMAC.
Arguments mk_hmac {D}.
Arguments h_md {D}.
Arguments h_opad {D}.
Arguments h_key {D}.

(* generic digest-object runs: one message / several messages through one object *)
Section DigestObj.
  Variable D : Type.
  Variable d_append : D -> list N -> D.
  Variable d_readout : D -> list N * D.
  Definition digest_message (st : D) (chunks : list (list N)) : list N * D :=
    d_readout (fold_left d_append chunks st).
  Fixpoint digest_session (st : D) (msgs : list (list (list N))) : list (list N) :=
    match msgs with
    | [] => []
    | m :: r => let '(o, st') := digest_message st m in o :: digest_session st' r
    end.
End DigestObj.
Arguments digest_message {D}.
Arguments digest_session {D}.

(* instances used by the extracted driver *)
Definition md5_session := digest_session md5_obj_append md5_obj_readout md5_new.
Definition sha1_session := digest_session sha1_obj_append sha1_obj_readout sha1_new.
Definition hmac_md5_session (key : list N) (msgs : list (list (list N))) : list (list N) :=
  hmac_session md5_state md5_obj_append md5_obj_readout 64 16
               (hmac_new md5_state md5_new md5_obj_append md5_obj_readout 64 16 key) msgs.
Definition hmac_sha1_session (key : list N) (msgs : list (list (list N))) : list (list N) :=
  hmac_session sha1_state sha1_obj_append sha1_obj_readout 64 20
               (hmac_new sha1_state sha1_new sha1_obj_append sha1_obj_readout 64 20 key) msgs.

(* message_digest::create_by_name: ASCII upper case is folded; result = (name, digest_size, block_size) *)
Definition lower (c : N) : N := if (65 <=? c) && (c <=? 90) then c - 65 + 97 else c.
Fixpoint leqb (a b : list N) : bool :=
  match a, b with
  | [], [] => true
  | x :: a', y :: b' => (x =? y) && leqb a' b'
  | _, _ => false
  end.
Definition digest_by_name (name : list N) : option (list N * N * N) :=
  let n := map lower name in
  if leqb n [109;100;53] then Some ([109;100;53], 16, 64)                       (* md5 *)
  else if leqb n [115;104;97;49] then Some ([115;104;97;49], 20, 64)            (* sha1 *)
  else if leqb n [115;104;97;50;50;52] then Some ([115;104;97;50;50;52], 28, 64)     (* sha224 *)
  else if leqb n [115;104;97;50;53;54] then Some ([115;104;97;50;53;54], 32, 64)     (* sha256 *)
  else if leqb n [115;104;97;51;56;52] then Some ([115;104;97;51;56;52], 48, 128)    (* sha384 *)
  else if leqb n [115;104;97;53;49;50] then Some ([115;104;97;53;49;50], 64, 128)    (* sha512 *)
  else None.

(* =====================================================================================
   key::set_hex / key::read_from_file
   ===================================================================================== *)
Definition is_hex (c : N) : bool :=
  ((48 <=? c) && (c <=? 57)) || ((97 <=? c) && (c <=? 102)) || ((65 <=? c) && (c <=? 70)).
Definition from_hex (c : N) : N :=
  if (48 <=? c) && (c <=? 57) then c - 48
  else if (97 <=? c) && (c <=? 102) then c - 97 + 10
  else if (65 <=? c) && (c <=? 70) then c - 65 + 10
  else 0.
Inductive key_result := KeyOk (k : list N) | KeyOddLength | KeyBadChar | KeyEmptyFile.
Fixpoint hex_pairs (s : list N) : list N :=
  match s with
  | h :: l :: r => (N.shiftl (from_hex h) 4 + from_hex l) :: hex_pairs r
  | _ => []
  end.
Definition set_hex (s : list N) : key_result :=
  match s with
  | [] => KeyOk []
  | _ => if N.odd (len s) then KeyOddLength
         else if forallb is_hex s then KeyOk (hex_pairs s) else KeyBadChar
  end.
Definition is_ws (c : N) : bool := (c =? 32) || (c =? 10) || (c =? 13) || (c =? 9).
(* strip trailing blanks: works on the reversed text *)
Fixpoint drop_ws (r : list N) : list N :=
  match r with
  | c :: r' => if is_ws c then drop_ws r' else r
  | [] => []
  end.
Definition key_from_file (content : list N) : key_result :=
  match content with
  | [] => KeyEmptyFile
  | _ => set_hex (rev (drop_ws (rev content)))
  end.
(* the inverse used by cppcms_make_key (private/tohex.h): lower-case hex *)
Definition hexdig (n : N) : N := if n <? 10 then 48 + n else 87 + n.
Definition to_hex (k : list N) : list N := flat_map (fun b => [hexdig (b / 16); hexdig (b mod 16)]) k.

(* =====================================================================================
   CBC over an abstract block cipher (src/aes.cpp openssl_aes_encryptor, AES_cbc_encrypt)
   ===================================================================================== *)
Fixpoint xor_bytes (a b : list N) : list N :=
  match a, b with
  | x :: a', y :: b' => N.lxor x y :: xor_bytes a' b'
  | _, _ => []
  end.
Section CBC.
  Variable E : list N -> list N.        (* encryption of one 16-byte block under the object key *)
  Variable Dc : list N -> list N.       (* decryption of one block *)
  (* one encrypt()/decrypt() call on a buffer of whole blocks; returns output and the updated ivec *)
  Fixpoint cbc_enc_fuel (fuel : nat) (iv p : list N) : list N * list N :=
    match fuel with
    | O => ([], iv)
    | S f => if Nat.leb 16 (length p) then
               let c := E (xor_bytes (firstn 16 p) iv) in
               let '(out, iv') := cbc_enc_fuel f c (skipn 16 p) in (c ++ out, iv')
             else ([], iv)
    end.
  Fixpoint cbc_dec_fuel (fuel : nat) (iv c : list N) : list N * list N :=
    match fuel with
    | O => ([], iv)
    | S f => if Nat.leb 16 (length c) then
               let b := firstn 16 c in
               let p := xor_bytes (Dc b) iv in
               let '(out, iv') := cbc_dec_fuel f b (skipn 16 c) in (p ++ out, iv')
             else ([], iv)
    end.
  Definition cbc_enc (iv p : list N) := cbc_enc_fuel (length p) iv p.
  Definition cbc_dec (iv c : list N) := cbc_dec_fuel (length c) iv c.

  (* the object keeps one running IV per direction across calls *)
  Record cbc_state := mk_cbc { c_iv_enc : list N; c_iv_dec : list N }.
  Definition cbc_set_iv (iv : list N) : cbc_state := mk_cbc iv iv.
  Definition cbc_encrypt (st : cbc_state) (p : list N) : list N * cbc_state :=
    let '(out, iv') := cbc_enc (c_iv_enc st) p in (out, mk_cbc iv' (c_iv_dec st)).
  Definition cbc_decrypt (st : cbc_state) (c : list N) : list N * cbc_state :=
    let '(out, iv') := cbc_dec (c_iv_dec st) c in (out, mk_cbc (c_iv_enc st) iv').
  (* several calls in a row, outputs concatenated *)
  Fixpoint cbc_encrypt_calls (st : cbc_state) (calls : list (list N)) : list N * cbc_state :=
    match calls with
    | [] => ([], st)
    | p :: r => let '(o, st1) := cbc_encrypt st p in
                let '(o2, st2) := cbc_encrypt_calls st1 r in (o ++ o2, st2)
    end.
  Fixpoint cbc_decrypt_calls (st : cbc_state) (calls : list (list N)) : list N * cbc_state :=
    match calls with
    | [] => ([], st)
    | c :: r => let '(o, st1) := cbc_decrypt st c in
                let '(o2, st2) := cbc_decrypt_calls st1 r in (o ++ o2, st2)
    end.
End CBC.

(* the checks the object makes before it touches the cipher (status machine, no cipher involved):
   ops: set_key with a key of n bytes, set_iv with n bytes, set_nonce_iv, encrypt, decrypt.
   set_key: once key_ is non-empty every further set_key throws runtime_error (whatever the size of the new key)
   and leaves the object unchanged; otherwise the size is checked against key_size(). *)
Inductive cbc_op := OpKey (n : N) | OpIv (n : N) | OpNonce | OpEnc | OpDec.
Inductive cbc_status := StOk | StBadKeySize | StBadIvSize | StNoKey | StNoIv | StKeyTwice.
Definition cbc_ctl : Type := (bool * bool)%type.    (* key set (non-empty), iv initialised *)
Definition cbc_ctl_step (key_size : N) (st : cbc_ctl) (op : cbc_op) : cbc_status * cbc_ctl :=
  let '(k, i) := st in
  match op with
  | OpKey n => if k then (StKeyTwice, st)
               else if n =? key_size then (StOk, (negb (n =? 0), i))     (* key_ = k: non-empty iff n <> 0 *)
               else (StBadKeySize, st)
  | OpIv n => if n =? 16 then (StOk, (k, true)) else (StBadIvSize, st)
  | OpNonce => (StOk, (k, true))
  | OpEnc | OpDec => if negb k then (StNoKey, st) else if negb i then (StNoIv, st) else (StOk, st)
  end.
Fixpoint cbc_ctl_run (key_size : N) (st : cbc_ctl) (ops : list cbc_op) : list cbc_status :=
  match ops with
  | [] => []
  | op :: r => let '(s, st') := cbc_ctl_step key_size st op in s :: cbc_ctl_run key_size st' r
  end.
(* the state after a sequence of calls, and what the specification says it should depend on *)
Fixpoint cbc_ctl_state (ks : N) (st : cbc_ctl) (ops : list cbc_op) : cbc_ctl :=
  match ops with [] => st | op :: r => cbc_ctl_state ks (snd (cbc_ctl_step ks st op)) r end.
Definition keyed (ks : N) (ops : list cbc_op) : bool := existsb (fun op => match op with OpKey n => n =? ks | _ => false end) ops.
Definition ived (ops : list cbc_op) : bool :=
  existsb (fun op => match op with OpIv n => n =? 16 | OpNonce => true | _ => false end) ops.

(* cbc::create(std::string const &name): exact spellings only (no case folding); result = key_size() of the object, None = null pointer *)
Definition cbc_by_name (name : list N) : option N :=
  let is := fun (l : list (list N)) => existsb (leqb name) l in
  if is [[97;101;115]; [65;69;83]; [97;101;115;49;50;56]; [97;101;115;45;49;50;56]; [65;69;83;49;50;56]; [65;69;83;45;49;50;56]] then Some 16
  else if is [[97;101;115;49;57;50]; [97;101;115;45;49;57;50]; [65;69;83;49;57;50]; [65;69;83;45;49;57;50]] then Some 24
  else if is [[97;101;115;50;53;54]; [97;101;115;45;50;53;54]; [65;69;83;50;53;54]; [65;69;83;45;50;53;54]] then Some 32
  else None.

(* ---------- the whole cbc object (src/aes.cpp openssl_aes_encryptor), key material included ----------
   E k / Dc k: the block functions under the key bytes k (AES_set_encrypt_key / AES_set_decrypt_key followed by the
   block primitive inside AES_cbc_encrypt).  The object expands key_ into key_enc_ / key_dec_ lazily, on the first
   encrypt / decrypt, and never again (encryption_initialized_ / decryption_initialized_): o_kenc / o_kdec record the
   key bytes the schedule in use was expanded from.  set_nonce_iv draws two independent random IVs: they are operands
   of the ONonce operation here. *)
Section CbcObject.
  Variable E Dc : list N -> list N -> list N.
  Variable ks : N.                                   (* key_size() = type_ / 8 *)
  Record cbc_obj := mk_obj {
    o_key : list N;                 (* key_ *)
    o_kenc : option (list N);       (* Some k: encryption_initialized_, key_enc_ expanded from k *)
    o_kdec : option (list N);       (* Some k: decryption_initialized_, key_dec_ expanded from k *)
    o_ivok : bool;                  (* iv_initialized_ *)
    o_ivs : cbc_state }.            (* iv_enc_, iv_dec_ *)
  Definition obj_new : cbc_obj := mk_obj [] None None false (mk_cbc (repeat 0 16) (repeat 0 16)).   (* reset() *)
  Inductive obj_op := OKey (k : list N) | OIv (iv : list N) | ONonce (ive ivd : list N) | OEnc (p : list N) | ODec (c : list N).
  (* check() *)
  Definition obj_check (o : cbc_obj) : cbc_status :=
    if len (o_key o) =? 0 then StNoKey else if negb (o_ivok o) then StNoIv else StOk.
  Definition obj_step (o : cbc_obj) (op : obj_op) : cbc_status * list N * cbc_obj :=
    match op with
    | OKey k =>
        if negb (len (o_key o) =? 0) then (StKeyTwice, [], o)
        else if negb (len k =? ks) then (StBadKeySize, [], o)
        else (StOk, [], mk_obj k (o_kenc o) (o_kdec o) (o_ivok o) (o_ivs o))
    | OIv iv =>
        if negb (len iv =? 16) then (StBadIvSize, [], o)
        else (StOk, [], mk_obj (o_key o) (o_kenc o) (o_kdec o) true (cbc_set_iv iv))
    | ONonce ive ivd => (StOk, [], mk_obj (o_key o) (o_kenc o) (o_kdec o) true (mk_cbc ive ivd))
    | OEnc p =>
        match obj_check o with
        | StOk => let k := match o_kenc o with Some k => k | None => o_key o end in
                  let '(out, ivs) := cbc_encrypt (E k) (o_ivs o) p in
                  (StOk, out, mk_obj (o_key o) (Some k) (o_kdec o) (o_ivok o) ivs)
        | s => (s, [], o)
        end
    | ODec c =>
        match obj_check o with
        | StOk => let k := match o_kdec o with Some k => k | None => o_key o end in
                  let '(out, ivs) := cbc_decrypt (Dc k) (o_ivs o) c in
                  (StOk, out, mk_obj (o_key o) (o_kenc o) (Some k) (o_ivok o) ivs)
        | s => (s, [], o)
        end
    end.
  Fixpoint obj_run (o : cbc_obj) (ops : list obj_op) : list (cbc_status * list N) :=
    match ops with
    | [] => []
    | op :: r => let '(s, out, o') := obj_step o op in (s, out) :: obj_run o' r
    end.

  (* specification: an object that is GIVEN its one key K (or none) at birth.  set_key only moves it from
     "not yet keyed" to "keyed" when the offered key has the right size; the key bytes of later offers are never
     looked at; every encrypt / decrypt it serves is CBC under K. *)
  Record ref_obj := mk_ref { r_keyed : bool; r_ivok : bool; r_ivs : cbc_state }.
  Definition ref_new : ref_obj := mk_ref false false (mk_cbc (repeat 0 16) (repeat 0 16)).
  Definition ref_step (K : list N) (o : ref_obj) (op : obj_op) : cbc_status * list N * ref_obj :=
    match op with
    | OKey k =>
        if r_keyed o then (StKeyTwice, [], o)
        else if negb (len k =? ks) then (StBadKeySize, [], o)
        else (StOk, [], mk_ref true (r_ivok o) (r_ivs o))
    | OIv iv =>
        if negb (len iv =? 16) then (StBadIvSize, [], o) else (StOk, [], mk_ref (r_keyed o) true (cbc_set_iv iv))
    | ONonce ive ivd => (StOk, [], mk_ref (r_keyed o) true (mk_cbc ive ivd))
    | OEnc p =>
        if negb (r_keyed o) then (StNoKey, [], o) else if negb (r_ivok o) then (StNoIv, [], o)
        else let '(out, ivs) := cbc_encrypt (E K) (r_ivs o) p in (StOk, out, mk_ref true true ivs)
    | ODec c =>
        if negb (r_keyed o) then (StNoKey, [], o) else if negb (r_ivok o) then (StNoIv, [], o)
        else let '(out, ivs) := cbc_decrypt (Dc K) (r_ivs o) c in (StOk, out, mk_ref true true ivs)
    end.
  Fixpoint ref_run (K : list N) (o : ref_obj) (ops : list obj_op) : list (cbc_status * list N) :=
    match ops with
    | [] => []
    | op :: r => let '(s, out, o') := ref_step K o op in (s, out) :: ref_run K o' r
    end.
  (* the one key of a call sequence: the first offered key of the right size *)
  Fixpoint first_key (ops : list obj_op) : list N :=
    match ops with
    | [] => []
    | OKey k :: r => if len k =? ks then k else first_key r
    | _ :: r => first_key r
    end.
  (* the shape of an operation, as the status machine sees it *)
  Definition op_shape (op : obj_op) : cbc_op :=
    match op with OKey k => OpKey (len k) | OIv iv => OpIv (len iv) | ONonce _ _ => OpNonce | OEnc _ => OpEnc | ODec _ => OpDec end.
  (* two call sequences that differ only in the key bytes (and sizes) offered by set_key calls AFTER the first accepted one *)
  Fixpoint same_but_later_keys (seen : bool) (a b : list obj_op) : Prop :=
    match a, b with
    | [], [] => True
    | OKey k :: a', OKey k' :: b' =>
        if seen then same_but_later_keys true a' b'
        else k = k' /\ same_but_later_keys (len k =? ks) a' b'
    | OIv x :: a', OIv y :: b' => x = y /\ same_but_later_keys seen a' b'
    | ONonce x1 x2 :: a', ONonce y1 y2 :: b' => x1 = y1 /\ x2 = y2 /\ same_but_later_keys seen a' b'
    | OEnc x :: a', OEnc y :: b' => x = y /\ same_but_later_keys seen a' b'
    | ODec x :: a', ODec y :: b' => x = y /\ same_but_later_keys seen a' b'
    | _, _ => False
    end.
End CbcObject.
(* all output bytes of a run, in order *)
Definition outputs (tr : list (cbc_status * list N)) : list N := concat (map snd tr).

(* =====================================================================================
   FIPS 180-4 section 6.1.2 (SHA-1 hash computation) written from the standard's text, independently of the
   loop structure of sha1.h: ROTL with or, f_t as Ch / Parity / Maj (xor forms) selected by t / 20, the K_t table,
   the message schedule W_t as a recurrence on t (fuel t + 1 suffices), 80 steps, final additions.
   ===================================================================================== *)
Definition fips_rotl (n x : N) : N := N.lor (shl32 x n) (N.shiftr x (32 - n)).
Definition fips_f (t x y z : N) : N :=
  match t / 20 with 0 => fips_Ch x y z | 2 => fips_Maj x y z | _ => fips_Parity x y z end.
Definition fips_K (t : N) : N := nth (N.to_nat (t / 20)) [0x5a827999; 0x6ed9eba1; 0x8f1bbcdc; 0xca62c1d6] 0.
Fixpoint fips_W (fuel : nat) (M : list N) (t : nat) : N :=
  match fuel with
  | O => 0
  | S f => if Nat.ltb t 16 then nth t M 0
           else fips_rotl 1 (N.lxor (N.lxor (N.lxor (fips_W f M (t - 3)) (fips_W f M (t - 8))) (fips_W f M (t - 14))) (fips_W f M (t - 16)))
  end.
Definition fips_step (M : list N) (st : quint) (t : nat) : quint :=
  let '(a, b, c, d, e) := st in
  let T := add32 (add32 (add32 (add32 (fips_rotl 5 a) (fips_f (N.of_nat t) b c d)) e) (fips_K (N.of_nat t))) (fips_W (S t) M t) in
  (T, a, fips_rotl 30 b, c, d).
Definition be32 (b0 b1 b2 b3 : N) : N := 16777216 * b0 + 65536 * b1 + 256 * b2 + b3.
Definition sha1_compress_fips (h : quint) (block : list N) : quint :=
  let M := words be32 block in
  let '(h0, h1, h2, h3, h4) := h in
  let '(a, b, c, d, e) := fold_left (fips_step M) (seq 0 80) h in
  (add32 h0 a, add32 h1 b, add32 h2 c, add32 h3 d, add32 h4 e).
Definition sha1_spec_fips (m : list N) : list N :=
  quint_be_bytes (fst (absorb sha1_compress_fips sha1_h0 (sha1_padded m))).

(* =====================================================================================
   The session encryptors built on the primitives (src/hmac_encryptor.cpp, src/aes_encryptor.cpp),
   over an abstract MAC function (the hmac object with the mac key) and an abstract block cipher.
   Not extracted (E, Dc, mac are abstract); the implementation side is checked by the oracle of the sess cases.
   ===================================================================================== *)
Section SessionCiphers.
  Variable mac : list N -> list N.
  Variable dsz : nat.                          (* digest_size() *)
  (* hmac_cipher::equal: counts the differing positions of two buffers of the same length, no early exit *)
  Fixpoint diff_count (a b : list N) : nat :=
    match a, b with
    | x :: a', y :: b' => ((if x =? y then 0 else 1) + diff_count a' b')%nat
    | _, _ => O
    end.
  Definition ct_equal (a b : list N) : bool := Nat.eqb (diff_count a b) 0.

  (* hmac_cipher *)
  Definition hc_encrypt (p : list N) : list N := p ++ mac p.
  Definition hc_decrypt (c : list N) : option (list N) :=
    if Nat.ltb (length c) dsz then None else
    let msz := (length c - dsz)%nat in
    if ct_equal (mac (firstn msz c)) (skipn msz c) then Some (firstn msz c) else None.

  (* aes_cipher: one cbc object per aes_cipher, IVs primed by set_nonce_iv and then running across calls *)
  Variable E Dc : list N -> list N.
  Definition le32_of (l : list N) : N :=
    match l with b0 :: b1 :: b2 :: b3 :: _ => le32 b0 b1 b2 b3 | _ => 0 end.
  (* zero block (its ciphertext carries the IV), uint32 length, text, zero padding to whole blocks *)
  Definition ac_input (p : list N) : list N :=
    let size := w32 (len p) in
    let bsz := (Nat.div (N.to_nat size + 4 + 15) 16 * 16 + 16)%nat in
    over_zeros bsz (repeat 0 16 ++ le_bytes32 size ++ p).
  Definition ac_encrypt (iv : list N) (p : list N) : list N * list N :=
    let '(c, iv') := cbc_enc E iv (ac_input p) in (c ++ mac c, iv').
  Definition ac_decrypt (iv : list N) (c : list N) : option (list N) * list N :=
    if Nat.ltb (length c) (dsz + 16) then (None, iv) else
    let real := (length c - dsz)%nat in
    if negb (Nat.eqb (Nat.modulo real 16) 0) then (None, iv) else
    if Nat.ltb (Nat.div real 16) 2 then (None, iv) else
    if negb (ct_equal (mac (firstn real c)) (skipn real c)) then (None, iv) else
    let '(full, iv') := cbc_dec Dc iv (firstn real c) in
    let size := le32_of (skipn 16 full) in
    if N.of_nat (real - 16 - 4) <? size then (None, iv') else
    (Some (firstn (N.to_nat size) (skipn 20 full)), iv').
End SessionCiphers.
