(* C16: the AES block cipher written from FIPS-197 (sections 4.2, 5.1, 5.2, 5.3), executable, no proofs here.
   It is the E k / Dc k of the cbc object model (Defs.v, Section CbcObject): the real cipher is library code (OpenSSL
   AES_set_encrypt_key / AES_set_decrypt_key / AES_cbc_encrypt), /repo only wraps it; with this instance the extracted
   object model computes the very bytes the wrapper must produce.
   A block / the state is a list of 16 bytes in input order (column-major: byte r + 4c is row r of column c). *)
From Coq Require Import NArith List Bool.
From CppcmsV Require Import C16.Defs.
Import ListNotations.
Local Open Scope N_scope.

(* ---- GF(2^8), polynomial x^8 + x^4 + x^3 + x + 1 (FIPS-197 4.2) ---- *)
Definition xtime (a : N) : N := let b := N.shiftl a 1 in if 256 <=? b then N.lxor (N.land b 255) 27 else b.
Fixpoint gmul_fuel (n : nat) (a b : N) : N :=
  match n with
  | O => 0
  | S n' => N.lxor (if N.odd b then a else 0) (gmul_fuel n' (xtime a) (N.shiftr b 1))
  end.
Definition gmul (a b : N) : N := gmul_fuel 8 a b.
(* multiplicative inverse (0 -> 0): a^254 *)
Definition ginv (a : N) : N :=
  let a2 := gmul a a in let a4 := gmul a2 a2 in let a8 := gmul a4 a4 in let a16 := gmul a8 a8 in
  let a32 := gmul a16 a16 in let a64 := gmul a32 a32 in let a128 := gmul a64 a64 in
  gmul a2 (gmul a4 (gmul a8 (gmul a16 (gmul a32 (gmul a64 a128))))).
Definition rotl8 (x n : N) : N := N.land (N.lor (N.shiftl x n) (N.shiftr x (8 - n))) 255.
(* 5.1.1: inverse in the field, then the affine transformation b_i + b_(i+4) + b_(i+5) + b_(i+6) + b_(i+7) + c_i, c = 0x63 *)
Definition sbox_formula (a : N) : N :=
  let b := ginv a in N.lxor (N.lxor (N.lxor (N.lxor (N.lxor b (rotl8 b 1)) (rotl8 b 2)) (rotl8 b 3)) (rotl8 b 4)) 99.
Definition sbox_tab : list N := Eval vm_compute in map (fun i => sbox_formula (N.of_nat i)) (seq 0 256).
Fixpoint index_of (y : N) (l : list N) (i : N) : N :=
  match l with [] => 0 | x :: r => if x =? y then i else index_of y r (i + 1) end.
Definition isbox_tab : list N := Eval vm_compute in map (fun i => index_of (N.of_nat i) sbox_tab 0) (seq 0 256).
Definition sbox (a : N) : N := nth (N.to_nat a) sbox_tab 0.
Definition isbox (a : N) : N := nth (N.to_nat a) isbox_tab 0.

(* ---- the round transformations (5.1.1 - 5.1.4, 5.3.1 - 5.3.3) ---- *)
Definition sub_bytes (s : list N) : list N := map sbox s.
Definition inv_sub_bytes (s : list N) : list N := map isbox s.
(* row r is rotated left by r: s'[r + 4c] = s[r + 4((c + r) mod 4)] *)
Definition shift_rows (s : list N) : list N :=
  map (fun i => nth (Nat.modulo (i + 4 * Nat.modulo i 4) 16) s 0) (seq 0 16).
Definition inv_shift_rows (s : list N) : list N :=
  map (fun i => nth (Nat.modulo (i + 16 - 4 * Nat.modulo i 4) 16) s 0) (seq 0 16).
Definition x4 (a b c d : N) : N := N.lxor (N.lxor (N.lxor a b) c) d.
Definition mix_col (a0 a1 a2 a3 : N) : list N :=
  [x4 (gmul 2 a0) (gmul 3 a1) a2 a3; x4 a0 (gmul 2 a1) (gmul 3 a2) a3;
   x4 a0 a1 (gmul 2 a2) (gmul 3 a3); x4 (gmul 3 a0) a1 a2 (gmul 2 a3)].
Definition inv_mix_col (a0 a1 a2 a3 : N) : list N :=
  [x4 (gmul 14 a0) (gmul 11 a1) (gmul 13 a2) (gmul 9 a3); x4 (gmul 9 a0) (gmul 14 a1) (gmul 11 a2) (gmul 13 a3);
   x4 (gmul 13 a0) (gmul 9 a1) (gmul 14 a2) (gmul 11 a3); x4 (gmul 11 a0) (gmul 13 a1) (gmul 9 a2) (gmul 14 a3)].
Fixpoint cols (f : N -> N -> N -> N -> list N) (s : list N) : list N :=
  match s with
  | a0 :: a1 :: a2 :: a3 :: r => f a0 a1 a2 a3 ++ cols f r
  | _ => []
  end.
Definition mix_columns : list N -> list N := cols mix_col.
Definition inv_mix_columns : list N -> list N := cols inv_mix_col.

(* ---- key expansion (5.2): words are 4-byte lists; rw holds w[i-1], w[i-2], ... ---- *)
Definition rot_word (w : list N) : list N := match w with a :: r => r ++ [a] | [] => [] end.
Fixpoint words4 (l : list N) : list (list N) :=
  match l with
  | a :: b :: c :: d :: r => [a; b; c; d] :: words4 r
  | _ => []
  end.
Fixpoint expand_fuel (n nk i : nat) (rc : N) (rw : list (list N)) : list (list N) :=
  match n with
  | O => rw
  | S n' =>
      let prev := nth 0 rw [] in
      let at0 := Nat.eqb (Nat.modulo i nk) 0 in
      let t := if at0 then xor_bytes (map sbox (rot_word prev)) [rc; 0; 0; 0]
               else if Nat.ltb 6 nk && Nat.eqb (Nat.modulo i nk) 4 then map sbox prev
               else prev in
      expand_fuel n' nk (S i) (if at0 then xtime rc else rc) (xor_bytes (nth (nk - 1) rw []) t :: rw)
  end.
(* n groups of four words *)
Fixpoint group4 (l : list (list N)) (n : nat) : list (list (list N)) :=
  match n with
  | O => []
  | S n' => match l with a :: b :: c :: d :: r => [a; b; c; d] :: group4 r n' | _ => [] end
  end.
(* the Nr + 1 round keys of 16 bytes each; Nk = |key| / 4, Nr = Nk + 6 *)
Definition key_expansion (key : list N) : list (list N) :=
  let nk := Nat.div (length key) 4 in
  let w := rev (expand_fuel (4 * (nk + 7) - nk) nk nk 1 (rev (words4 key))) in
  map (@concat N) (group4 w (nk + 7)).

(* ---- Cipher (5.1) and InvCipher (5.3) ---- *)
Fixpoint enc_rounds (s : list N) (rks : list (list N)) : list N :=
  match rks with
  | [] => s
  | [rk] => xor_bytes (shift_rows (sub_bytes s)) rk
  | rk :: r => enc_rounds (xor_bytes (mix_columns (shift_rows (sub_bytes s))) rk) r
  end.
Definition aes_enc_rk (rks : list (list N)) (block : list N) : list N :=
  match rks with
  | rk0 :: r => enc_rounds (xor_bytes block rk0) r
  | [] => block
  end.
(* rks in reverse order: last round key first *)
Fixpoint dec_rounds (s : list N) (rks : list (list N)) : list N :=
  match rks with
  | [] => s
  | [rk] => xor_bytes (inv_sub_bytes (inv_shift_rows s)) rk
  | rk :: r => dec_rounds (inv_mix_columns (xor_bytes (inv_sub_bytes (inv_shift_rows s)) rk)) r
  end.
Definition aes_dec_rk (rks : list (list N)) (block : list N) : list N :=
  match rev rks with
  | rkn :: r => dec_rounds (xor_bytes block rkn) r
  | [] => block
  end.
Definition aes_enc (key block : list N) : list N := aes_enc_rk (key_expansion key) block.
Definition aes_dec (key block : list N) : list N := aes_dec_rk (key_expansion key) block.

(* the cbc object of src/aes.cpp with the real cipher, as run by the extracted driver.  The round keys are a function
   of the key bytes, so expanding them per block (as aes_enc does) or once per object (as the code does) is the same
   function; for speed the driver-facing run expands once per call. *)
Definition aes_E (key : list N) : list N -> list N := let rks := key_expansion key in aes_enc_rk rks.
Definition aes_D (key : list N) : list N -> list N := let rks := key_expansion key in aes_dec_rk rks.
Definition aes_obj_run (ks : N) (ops : list obj_op) : list (cbc_status * list N) :=
  obj_run aes_E aes_D ks obj_new ops.
