(* C16: CBC chaining over an abstract block cipher (src/aes.cpp) - decrypt inverts encrypt for every split of
   the calls; only the first plaintext block depends on the decryptor IV *)
From CppcmsV Require Import Base.Tac C16.Defs C16.Blocks.
Local Open Scope N_scope.

(* ---------- xor ---------- *)
Lemma lxor_cancel x y : N.lxor (N.lxor x y) y = x.
Proof. rewrite N.lxor_assoc, N.lxor_nilpotent, N.lxor_0_r. reflexivity. Qed.
Lemma xor_bytes_length a : forall b, length (xor_bytes a b) = Nat.min (length a) (length b).
Proof. induction a as [|x a IH]; intros [|y b]; cbn [xor_bytes length Nat.min]; try reflexivity. rewrite IH. reflexivity. Qed.
Lemma xor_bytes_cancel a : forall b, (length a <= length b)%nat -> xor_bytes (xor_bytes a b) b = a.
Proof.
  induction a as [|x a IH]; intros [|y b] H; cbn [xor_bytes length] in *; try reflexivity; [lia|].
  rewrite lxor_cancel, IH by lia. reflexivity.
Qed.

(* ---------- whole blocks ---------- *)
Definition whole (p : list N) : Prop := (length p mod 16 = 0)%nat.

Lemma whole_app b r : length b = 16%nat -> whole r -> whole (b ++ r).
Proof. unfold whole. intros Hb Hr. rewrite app_length, Hb. lia. Qed.
Lemma whole_nil : whole [].
Proof. reflexivity. Qed.
Lemma whole_app2 a b : whole a -> whole b -> whole (a ++ b).
Proof. unfold whole. intros Ha Hb. rewrite app_length. lia. Qed.

Lemma blocks_ind (P : list N -> Prop) :
  P [] ->
  (forall b r, length b = 16%nat -> whole r -> P r -> P (b ++ r)) ->
  forall p, whole p -> P p.
Proof.
  intros Hnil Hstep p. remember (length p) as n eqn:Hn. revert p Hn.
  induction n as [n IH] using lt_wf_ind. intros p Hn Hw.
  destruct (Nat.leb_spec 16 (length p)) as [Hge|Hlt].
  - rewrite <- (firstn_skipn 16 p). apply Hstep.
    + rewrite firstn_length. lia.
    + unfold whole in *. rewrite skipn_length. lia.
    + apply (IH (length (skipn 16 p))); [rewrite skipn_length; lia|reflexivity|].
      unfold whole in *. rewrite skipn_length. lia.
  - unfold whole in Hw. destruct p as [|x p]; [exact Hnil|]. cbn [length] in *. lia.
Qed.

(* ---------- a generic chained block loop; both directions are instances ---------- *)
Section Chain.
  Variable step : list N -> list N -> list N * list N.       (* running IV, input block -> output block, new IV *)
  Fixpoint chain_fuel (fuel : nat) (iv p : list N) : list N * list N :=
    match fuel with
    | O => ([], iv)
    | S f => if Nat.leb 16 (length p) then
               let '(o, iv1) := step iv (firstn 16 p) in
               let '(out, iv') := chain_fuel f iv1 (skipn 16 p) in (o ++ out, iv')
             else ([], iv)
    end.
  Definition chain (iv p : list N) := chain_fuel (length p) iv p.

  Lemma chain_fuel_indep f1 : forall f2 iv p, (length p <= f1)%nat -> (length p <= f2)%nat ->
    chain_fuel f1 iv p = chain_fuel f2 iv p.
  Proof.
    induction f1 as [|f1 IH]; intros f2 iv p H1 H2.
    - destruct p; [|cbn in H1; lia]. destruct f2; reflexivity.
    - destruct f2 as [|f2].
      + destruct p; [reflexivity|cbn in H2; lia].
      + cbn [chain_fuel]. destruct (Nat.leb_spec 16 (length p)) as [Hge|Hlt]; [|reflexivity].
        destruct (step iv (firstn 16 p)) as [o iv1].
        rewrite (IH f2) by (rewrite skipn_length; lia). reflexivity.
  Qed.
  Lemma chain_small iv p : (length p < 16)%nat -> chain iv p = ([], iv).
  Proof.
    intros H. unfold chain. destruct (length p) eqn:E; [reflexivity|]. cbn [chain_fuel]. rewrite E.
    destruct (Nat.leb_spec 16 (S n)); [lia|reflexivity].
  Qed.
  Lemma chain_fuel_S f iv p :
    chain_fuel (S f) iv p = if Nat.leb 16 (length p) then
               let '(o, iv1) := step iv (firstn 16 p) in
               let '(out, iv') := chain_fuel f iv1 (skipn 16 p) in (o ++ out, iv')
             else ([], iv).
  Proof. reflexivity. Qed.
  Lemma chain_cons iv b r : length b = 16%nat ->
    chain iv (b ++ r) = let '(o, iv1) := step iv b in let '(out, iv') := chain iv1 r in (o ++ out, iv').
  Proof.
    intros Hb. unfold chain at 1. rewrite app_length, Hb.
    change (16 + length r)%nat with (S (15 + length r)). rewrite chain_fuel_S.
    replace (Nat.leb 16 (length (b ++ r))) with true by (symmetry; apply Nat.leb_le; rewrite app_length; lia).
    rewrite (firstn_app_n _ b r Hb), (skipn_app_n _ b r Hb).
    destruct (step iv b) as [o iv1]. unfold chain.
    rewrite (chain_fuel_indep (15 + length r) (length r)) by lia. reflexivity.
  Qed.
  Lemma chain_step iv p : (16 <= length p)%nat ->
    chain iv p = let '(o, iv1) := step iv (firstn 16 p) in
                 let '(out, iv') := chain iv1 (skipn 16 p) in (o ++ out, iv').
  Proof.
    intros H. rewrite <- (firstn_skipn 16 p) at 1. apply chain_cons. rewrite firstn_length. lia.
  Qed.
  Lemma chain_app p1 : whole p1 -> forall iv p2,
    chain iv (p1 ++ p2) = let '(o1, iv1) := chain iv p1 in let '(o2, iv2) := chain iv1 p2 in (o1 ++ o2, iv2).
  Proof.
    intros Hw. pattern p1. apply blocks_ind; [| |exact Hw]; clear p1 Hw.
    - intros iv p2. cbn [app]. rewrite (chain_small iv []) by (cbn; lia). destruct (chain iv p2). reflexivity.
    - intros b r Hb Hr IH iv p2. rewrite <- app_assoc, !chain_cons by exact Hb.
      destruct (step iv b) as [o iv1]. rewrite IH.
      destruct (chain iv1 r) as [o1 iv2]. destruct (chain iv2 p2) as [o2 iv3].
      rewrite app_assoc. reflexivity.
  Qed.
End Chain.

Section CbcFacts.
  Variable E Dc : list N -> list N.
  Definition enc_step (iv b : list N) : list N * list N := let c := E (xor_bytes b iv) in (c, c).
  Definition dec_step (iv b : list N) : list N * list N := (xor_bytes (Dc b) iv, b).

  Lemma cbc_enc_fuel_chain fuel : forall iv p, cbc_enc_fuel E fuel iv p = chain_fuel enc_step fuel iv p.
  Proof.
    induction fuel as [|f IH]; intros iv p; [reflexivity|]. cbn [cbc_enc_fuel chain_fuel].
    destruct (Nat.leb 16 (length p)); [|reflexivity]. unfold enc_step at 1. rewrite IH. reflexivity.
  Qed.
  Lemma cbc_dec_fuel_chain fuel : forall iv c, cbc_dec_fuel Dc fuel iv c = chain_fuel dec_step fuel iv c.
  Proof.
    induction fuel as [|f IH]; intros iv c; [reflexivity|]. cbn [cbc_dec_fuel chain_fuel].
    destruct (Nat.leb 16 (length c)); [|reflexivity]. unfold dec_step at 1. rewrite IH. reflexivity.
  Qed.
  Lemma cbc_enc_chain iv p : cbc_enc E iv p = chain enc_step iv p.
  Proof. apply cbc_enc_fuel_chain. Qed.
  Lemma cbc_dec_chain iv c : cbc_dec Dc iv c = chain dec_step iv c.
  Proof. apply cbc_dec_fuel_chain. Qed.

  (* only the first plaintext block depends on the IV the decryptor starts with *)
  Lemma cbc_dec_first_block iv c : (16 <= length c)%nat ->
    cbc_dec Dc iv c = (xor_bytes (Dc (firstn 16 c)) iv ++ fst (cbc_dec Dc (firstn 16 c) (skipn 16 c)),
                       snd (cbc_dec Dc (firstn 16 c) (skipn 16 c))).
  Proof.
    intros H. rewrite !cbc_dec_chain, chain_step by exact H. unfold dec_step at 1.
    destruct (chain dec_step (firstn 16 c) (skipn 16 c)). reflexivity.
  Qed.
  Lemma skipn_app_len (a b : list N) n : length a = n -> skipn n (a ++ b) = b.
  Proof. intros H. apply skipn_app_n. exact H. Qed.

  Hypothesis E_len : forall b, length b = 16%nat -> length (E b) = 16%nat.
  Hypothesis DE : forall b, length b = 16%nat -> Dc (E b) = b.

  Lemma cbc_inverse_chain p : whole p -> forall iv, length iv = 16%nat ->
    chain dec_step iv (fst (chain enc_step iv p)) = (p, snd (chain enc_step iv p)) /\
    length (fst (chain enc_step iv p)) = length p /\
    length (snd (chain enc_step iv p)) = 16%nat.
  Proof.
    intros Hw. pattern p. apply blocks_ind; [| |exact Hw]; clear p Hw.
    - intros iv Hiv. rewrite (chain_small enc_step iv []) by (cbn; lia). cbn [fst snd].
      rewrite (chain_small dec_step iv []) by (cbn; lia). auto.
    - intros b r Hb Hr IH iv Hiv.
      set (c := E (xor_bytes b iv)).
      assert (Hx : length (xor_bytes b iv) = 16%nat) by (rewrite xor_bytes_length; lia).
      assert (Hc : length c = 16%nat) by (apply E_len; exact Hx).
      destruct (IH c Hc) as (I1 & I2 & I3).
      destruct (chain enc_step c r) as [out iv'] eqn:Er. cbn [fst snd] in *.
      assert (Hcc : chain enc_step iv (b ++ r) = (c ++ out, iv')).
      { rewrite chain_cons by exact Hb. unfold enc_step at 1. fold c. rewrite Er. reflexivity. }
      rewrite Hcc. cbn [fst snd].
      rewrite chain_cons by exact Hc. unfold dec_step at 1. rewrite I1.
      unfold c at 1. rewrite DE by exact Hx. rewrite xor_bytes_cancel by lia.
      split; [reflexivity|]. split; [rewrite !app_length; lia|exact I3].
  Qed.

  Lemma cbc_inverse_lemma iv p : length iv = 16%nat -> whole p ->
    cbc_dec Dc iv (fst (cbc_enc E iv p)) = (p, snd (cbc_enc E iv p)).
  Proof.
    intros Hiv Hw. rewrite cbc_dec_chain, cbc_enc_chain. apply cbc_inverse_chain; assumption.
  Qed.

  (* ---- several calls on the object: same as one call on the concatenation ---- *)
  Lemma whole_concat calls : Forall whole calls -> whole (concat calls).
  Proof.
    induction 1 as [|c r Hc Hr IH]; [exact whole_nil|]. cbn [concat]. apply whole_app2; assumption.
  Qed.
  Lemma cbc_encrypt_calls_concat calls : Forall whole calls -> forall st,
    cbc_encrypt_calls E st calls =
      (fst (cbc_enc E (c_iv_enc st) (concat calls)), mk_cbc (snd (cbc_enc E (c_iv_enc st) (concat calls))) (c_iv_dec st)).
  Proof.
    induction 1 as [|c r Hc Hr IH]; intros st.
    - destruct st. reflexivity.
    - cbn [cbc_encrypt_calls concat]. unfold cbc_encrypt at 1.
      rewrite !cbc_enc_chain, (chain_app enc_step c Hc).
      destruct (chain enc_step (c_iv_enc st) c) as [o iv1]. rewrite IH. cbn [c_iv_enc c_iv_dec].
      rewrite cbc_enc_chain. destruct (chain enc_step iv1 (concat r)) as [o2 iv2]. reflexivity.
  Qed.
  Lemma cbc_decrypt_calls_concat calls : Forall whole calls -> forall st,
    cbc_decrypt_calls Dc st calls =
      (fst (cbc_dec Dc (c_iv_dec st) (concat calls)), mk_cbc (c_iv_enc st) (snd (cbc_dec Dc (c_iv_dec st) (concat calls)))).
  Proof.
    induction 1 as [|c r Hc Hr IH]; intros st.
    - destruct st. reflexivity.
    - cbn [cbc_decrypt_calls concat]. unfold cbc_decrypt at 1.
      rewrite !cbc_dec_chain, (chain_app dec_step c Hc).
      destruct (chain dec_step (c_iv_dec st) c) as [o iv1]. rewrite IH. cbn [c_iv_enc c_iv_dec].
      rewrite cbc_dec_chain. destruct (chain dec_step iv1 (concat r)) as [o2 iv2]. reflexivity.
  Qed.

  (* encrypt in any number of calls on one object, decrypt with ANY other split of the ciphertext into
     whole-block calls on an object given the same IV: the plaintext comes back, and both objects
     end with the same running IV (so the conversation can go on) *)
  Lemma cbc_calls_inverse iv pcalls ccalls :
    length iv = 16%nat -> Forall whole pcalls -> Forall whole ccalls ->
    concat ccalls = fst (cbc_encrypt_calls E (cbc_set_iv iv) pcalls) ->
    fst (cbc_decrypt_calls Dc (cbc_set_iv iv) ccalls) = concat pcalls /\
    c_iv_dec (snd (cbc_decrypt_calls Dc (cbc_set_iv iv) ccalls)) =
    c_iv_enc (snd (cbc_encrypt_calls E (cbc_set_iv iv) pcalls)).
  Proof.
    intros Hiv Hp Hc Heq.
    rewrite (cbc_encrypt_calls_concat pcalls Hp) in *. rewrite (cbc_decrypt_calls_concat ccalls Hc).
    cbn [fst snd c_iv_enc c_iv_dec cbc_set_iv] in *. rewrite Heq.
    rewrite cbc_inverse_lemma by (try apply whole_concat; assumption). split; reflexivity.
  Qed.
End CbcFacts.

Section CbcIv.
  Variable Dc : list N -> list N.
  Hypothesis Dc_len : forall b, length b = 16%nat -> length (Dc b) = 16%nat.
  Lemma cbc_dec_iv_independent iv1 iv2 c :
    length iv1 = 16%nat -> length iv2 = 16%nat -> (16 <= length c)%nat ->
    skipn 16 (fst (cbc_dec Dc iv1 c)) = skipn 16 (fst (cbc_dec Dc iv2 c)) /\
    snd (cbc_dec Dc iv1 c) = snd (cbc_dec Dc iv2 c).
  Proof.
    intros H1 H2 Hc. rewrite (cbc_dec_first_block Dc iv1 c Hc), (cbc_dec_first_block Dc iv2 c Hc). cbn [fst snd].
    assert (Hb : length (Dc (firstn 16 c)) = 16%nat) by (apply Dc_len; rewrite firstn_length; lia).
    rewrite !skipn_app_len by (rewrite xor_bytes_length; lia). split; reflexivity.
  Qed.

End CbcIv.

(* ---------- the status machine: encrypt/decrypt run iff a key of the right size and an IV were given ---------- *)
Lemma cbc_ctl_enc_ok ks st : fst (cbc_ctl_step ks st OpEnc) = StOk <-> st = (true, true).
Proof. destruct st as [[|] [|]]; cbn; split; intros H; try reflexivity; try discriminate. Qed.

(* =====================================================================================
   key::set_hex
   ===================================================================================== *)
Definition bytes_ok (l : list N) : Prop := Forall (fun b => b < 256) l.

Lemma hexdig_is_hex n : n < 16 -> is_hex (hexdig n) = true /\ from_hex (hexdig n) = n.
Proof.
  intros H. assert (Hs : (n <? 16) = true) by (apply N.ltb_lt; exact H). clear H. revert Hs.
  destruct n as [|p]; [intros _; vm_compute; auto|].
  do 5 (destruct p as [p|p|]; try (intros _; vm_compute; split; reflexivity); try (vm_compute; discriminate)).
Qed.

Lemma set_hex_cons2 h l r :
  set_hex (h :: l :: r) =
    if N.odd (len r) then KeyOddLength
    else if is_hex h && is_hex l && forallb is_hex r then KeyOk ((N.shiftl (from_hex h) 4 + from_hex l) :: hex_pairs r)
    else KeyBadChar.
Proof.
  unfold set_hex. replace (len (h :: l :: r)) with (N.succ (N.succ (len r))) by (unfold len; cbn [length]; lia).
  rewrite N.odd_succ, N.even_succ. cbn [forallb hex_pairs]. rewrite andb_assoc. reflexivity.
Qed.

Lemma len_to_hex k : len (to_hex k) = 2 * len k.
Proof. unfold len, to_hex. induction k as [|b k IH]; [reflexivity|]. cbn [flat_map app length]. lia. Qed.

Lemma to_hex_cons b k : to_hex (b :: k) = hexdig (b / 16) :: hexdig (b mod 16) :: to_hex k.
Proof. reflexivity. Qed.
Lemma hex_pairs_to_hex k : bytes_ok k -> hex_pairs (to_hex k) = k /\ forallb is_hex (to_hex k) = true.
Proof.
  induction 1 as [|b k Hb Hk IH]; [split; reflexivity|]. cbv beta in Hb. destruct IH as [IH1 IH2].
  rewrite to_hex_cons. cbn [hex_pairs forallb].
  destruct (hexdig_is_hex (b / 16)) as [H1 H2]; [lia|].
  destruct (hexdig_is_hex (b mod 16)) as [H3 H4]; [lia|].
  rewrite H1, H2, H3, H4, IH1, IH2. split; [|reflexivity].
  f_equal. rewrite N.shiftl_mul_pow2. change (2 ^ 4) with 16. lia.
Qed.
Lemma set_hex_to_hex k : bytes_ok k -> set_hex (to_hex k) = KeyOk k.
Proof.
  intros Hk. destruct (hex_pairs_to_hex k Hk) as [H1 H2].
  destruct k as [|b k]; [reflexivity|].
  unfold set_hex. rewrite len_to_hex, H1, H2.
  replace (N.odd (2 * len (b :: k))) with false by (symmetry; rewrite N.odd_mul; reflexivity).
  rewrite to_hex_cons. reflexivity.
Qed.

(* acceptance is exactly: even length and all characters hexadecimal *)
Lemma set_hex_accepts s :
  (exists k, set_hex s = KeyOk k) <-> (N.even (len s) = true /\ forallb is_hex s = true).
Proof.
  destruct s as [|c s]; [split; [intros _; split; reflexivity|intros _; exists []; reflexivity]|].
  unfold set_hex. rewrite <- N.negb_odd.
  destruct (N.odd (len (c :: s))); cbn [negb].
  - split; [intros [k Hk]; discriminate|intros [H _]; discriminate].
  - destruct (forallb is_hex (c :: s)).
    + split; [intros _; split; reflexivity|intros _; eexists; reflexivity].
    + split; [intros [k Hk]; discriminate|intros [_ H]; discriminate].
Qed.
Lemma set_hex_rejects s :
  (set_hex s = KeyOddLength <-> N.odd (len s) = true) /\
  (set_hex s = KeyBadChar <-> (N.odd (len s) = false /\ forallb is_hex s = false)).
Proof.
  destruct s as [|c s]; [split; split; try discriminate; intros [_ H]; discriminate|].
  unfold set_hex. destruct (N.odd (len (c :: s))).
  - split; split; try reflexivity; try discriminate. intros [H _]. discriminate.
  - destruct (forallb is_hex (c :: s)); split; split; try discriminate; try (intros [_ H]; discriminate); auto.
Qed.
Lemma hex_pairs_length s : N.even (len s) = true -> len s = 2 * len (hex_pairs s).
Proof.
  unfold len. remember (length s) as n eqn:Hn. revert s Hn. induction n as [n IH] using lt_wf_ind. intros s Hn He.
  destruct s as [|h [|l r]]; [subst n; reflexivity| |].
  - subst n. discriminate.
  - cbn [hex_pairs length] in *. subst n.
    assert (Hr : N.even (N.of_nat (length r)) = true).
    { replace (N.of_nat (S (S (length r)))) with (N.succ (N.succ (N.of_nat (length r)))) in He by lia.
      rewrite N.even_succ, N.odd_succ in He. exact He. }
    specialize (IH (length r) ltac:(lia) r eq_refl Hr). lia.
Qed.

(* =====================================================================================
   message_digest::create_by_name
   ===================================================================================== *)
Lemma lower_idem c : lower (lower c) = lower c.
Proof.
  unfold lower. destruct ((65 <=? c) && (c <=? 90)) eqn:E; [|rewrite E; reflexivity].
  apply andb_true_iff in E. destruct E as [E1 E2]. apply N.leb_le in E1, E2.
  destruct (N.leb_spec 65 (c - 65 + 97)); destruct (N.leb_spec (c - 65 + 97) 90); cbn [andb]; try reflexivity; lia.
Qed.
Lemma digest_by_name_fold n : digest_by_name (map lower n) = digest_by_name n.
Proof. unfold digest_by_name. rewrite map_map. rewrite (map_ext _ lower lower_idem). reflexivity. Qed.
Lemma digest_by_name_table n nm d b : digest_by_name n = Some (nm, d, b) ->
  d <= b /\ (b = 64 \/ b = 128) /\ digest_by_name nm = Some (nm, d, b).
Proof.
  unfold digest_by_name at 1.
  repeat (match goal with |- context [if ?c then _ else _] => destruct c end;
          [intros H; injection H as <- <- <-; repeat split; try (left; reflexivity); try (right; reflexivity); discriminate|]).
  discriminate.
Qed.

(* the status machine, whole runs: an encrypt/decrypt call is served iff a key of the right size and an IV were given before *)
Lemma cbc_ctl_state_spec ks ops : 0 < ks -> forall k i,
  cbc_ctl_state ks (k, i) ops = (k || keyed ks ops, i || ived ops).
Proof.
  intros Hks. induction ops as [|op r IH]; intros k i; [cbn; rewrite !orb_false_r; reflexivity|].
  cbn [cbc_ctl_state keyed ived existsb]. fold (keyed ks r). fold (ived r).
  destruct op as [n|n| | |]; cbn [cbc_ctl_step].
  - destruct k; cbn [snd]; [rewrite IH; reflexivity|].
    destruct (N.eqb_spec n ks) as [->|Hn]; cbn [snd]; [|rewrite IH; reflexivity].
    replace (ks =? 0) with false by (symmetry; apply N.eqb_neq; lia). cbn [negb]. rewrite IH. reflexivity.
  - destruct (n =? 16); cbn [snd]; rewrite IH; cbn [orb]; rewrite ?orb_true_r; reflexivity.
  - cbn [snd]. rewrite IH. cbn [orb]. rewrite ?orb_true_r. reflexivity.
  - destruct k, i; cbn [negb snd]; rewrite IH; reflexivity.
  - destruct k, i; cbn [negb snd]; rewrite IH; reflexivity.
Qed.
Lemma cbc_ctl_served ks before : 0 < ks ->
  fst (cbc_ctl_step ks (cbc_ctl_state ks (false, false) before) OpEnc) = StOk <-> (keyed ks before = true /\ ived before = true).
Proof.
  intros Hks. rewrite cbc_ctl_state_spec by exact Hks. cbn [orb]. rewrite cbc_ctl_enc_ok.
  split; [intros H; injection H as H1 H2; auto|intros [H1 H2]; rewrite H1, H2; reflexivity].
Qed.
(* once a key is in place every further set_key - whatever its size - is refused and changes nothing *)
Lemma cbc_ctl_key_twice ks i n : cbc_ctl_step ks (true, i) (OpKey n) = (StKeyTwice, (true, i)).
Proof. reflexivity. Qed.
(* ... and set_key is the only call that is ever answered StKeyTwice, and only on a keyed object *)
Lemma cbc_ctl_key_twice_only ks st op : fst (cbc_ctl_step ks st op) = StKeyTwice -> fst st = true /\ exists n, op = OpKey n.
Proof.
  destruct st as [k i]. destruct op as [n|n| | |]; cbn [cbc_ctl_step fst].
  - destruct k; [intros _; split; [reflexivity|exists n; reflexivity]|]. destruct (n =? ks); cbn [fst]; discriminate.
  - destruct (n =? 16); cbn [fst]; discriminate.
  - discriminate.
  - destruct k, i; cbn [negb fst]; discriminate.
  - destruct k, i; cbn [negb fst]; discriminate.
Qed.

(* =====================================================================================
   key::read_from_file: blanks (space, \n, \r, \t) at the END of the file are ignored, nothing else is
   ===================================================================================== *)
Lemma drop_ws_app_blanks ws : forallb is_ws ws = true -> forall r, drop_ws (ws ++ r) = drop_ws r.
Proof.
  induction ws as [|c ws IH]; intros H r; [reflexivity|].
  cbn [forallb] in H. apply andb_true_iff in H. destruct H as [Hc Hw].
  cbn [app drop_ws]. rewrite Hc. apply IH. exact Hw.
Qed.
Lemma forallb_rev {A} (f : A -> bool) l : forallb f (rev l) = forallb f l.
Proof.
  induction l as [|x l IH]; [reflexivity|]. cbn [rev forallb]. rewrite forallb_app, IH. cbn [forallb].
  rewrite andb_true_r. apply andb_comm.
Qed.
Lemma key_from_file_strips s c ws :
  is_ws c = false -> forallb is_ws ws = true -> key_from_file ((s ++ [c]) ++ ws) = set_hex (s ++ [c]).
Proof.
  intros Hc Hw. unfold key_from_file.
  destruct ((s ++ [c]) ++ ws) as [|x y] eqn:E.
  { destruct s; cbn in E; discriminate. }
  rewrite <- E. rewrite rev_app_distr, drop_ws_app_blanks by (rewrite forallb_rev; exact Hw).
  rewrite rev_app_distr. cbn [rev app drop_ws]. rewrite Hc.
  change (c :: rev s) with ([c] ++ rev s). rewrite <- (rev_involutive [c]), <- rev_app_distr, rev_involutive. reflexivity.
Qed.
Lemma key_from_file_all_blank ws : ws <> [] -> forallb is_ws ws = true -> key_from_file ws = KeyOk [].
Proof.
  intros Hne Hw. unfold key_from_file. destruct ws as [|x y] eqn:E; [contradiction|]. rewrite <- E in *.
  rewrite <- (app_nil_r (rev ws)), drop_ws_app_blanks by (rewrite forallb_rev; exact Hw). reflexivity.
Qed.
