(* C16: the byte-at-a-time SHA-1 object of private/sha1.h + crypto.cpp refines pad-then-fold (FIPS 180-4) *)
From CppcmsV Require Import Base.Tac C16.Defs C16.Blocks.
Local Open Scope N_scope.

Notation sha1_abs := (absorb sha1_process sha1_h0).
Definition sha1_rep (st : sha1_state) (m : list N) : Prop :=
  s_h st = fst (sha1_abs m) /\
  take (len m mod 64) (s_block st) = snd (sha1_abs m) /\
  len (s_block st) = 64 /\
  s_idx st = len m mod 64 /\
  s_count st = len m mod 18446744073709551616.

Lemma sha1_rep_new : sha1_rep sha1_new [].
Proof.
  unfold sha1_rep, sha1_new. cbn [s_h s_block s_idx s_count]. rewrite absorb_nil. cbn [fst snd].
  repeat split; reflexivity.
Qed.
Lemma sha1_rep_reset st m : sha1_rep st m -> sha1_rep (sha1_reset st) [].
Proof.
  intros (_ & _ & Hl & _ & _). unfold sha1_rep, sha1_reset. cbn [s_h s_block s_idx s_count].
  rewrite absorb_nil. cbn [fst snd]. repeat split; try reflexivity. exact Hl.
Qed.

Lemma len_single (b : N) : len [b] = 1.
Proof. reflexivity. Qed.

Lemma sha1_process_byte_rep st m b : sha1_rep st m -> sha1_rep (sha1_process_byte st b) (m ++ [b]).
Proof.
  intros (Hh & Hb & Hl & Hi & Hc). unfold sha1_process_byte. rewrite Hi.
  set (off := len m mod 64) in *.
  assert (Hofflt : off < 64) by (apply N.mod_lt; discriminate).
  pose proof (absorb_rest _ sha1_process sha1_h0 m) as Hrl. fold off in Hrl.
  assert (Hbuf1 : take (off + 1) (poke (s_block st) off [b]) = snd (sha1_abs m) ++ [b]).
  { rewrite <- Hb. rewrite <- (len_single b) at 1. apply take_poke. lia. }
  assert (Hlen1 : len (poke (s_block st) off [b]) = 64) by (rewrite len_poke; rewrite ?len_single; lia).
  assert (Hcnt : w64 (s_count st + 1) = len (m ++ [b]) mod 18446744073709551616).
  { rewrite w64_mod, Hc, len_app, len_single. lia. }
  assert (Habs : sha1_abs (m ++ [b]) = absorb sha1_process (s_h st) (snd (sha1_abs m) ++ [b])).
  { rewrite absorb_app, Hh. reflexivity. }
  assert (Hlenx : length (snd (sha1_abs m) ++ [b]) = N.to_nat (off + 1)).
  { rewrite app_length. cbn [length]. unfold len in Hrl. lia. }
  destruct (N.eqb_spec (off + 1) 64) as [E|E].
  - (* the block fills up *)
    rewrite E in Hbuf1. rewrite take_all in Hbuf1 by lia.
    unfold sha1_rep. cbn [s_h s_block s_idx s_count]. rewrite Habs.
    rewrite <- (app_nil_r (snd (sha1_abs m) ++ [b])).
    rewrite absorb_block by (rewrite Hlenx, E; reflexivity).
    rewrite absorb_nil. cbn [fst snd]. rewrite Hbuf1.
    assert (Hz : len (m ++ [b]) mod 64 = 0) by (rewrite len_app, len_single; unfold off in *; lia).
    rewrite Hz. rewrite Hbuf1 in Hlen1. repeat split; try reflexivity; assumption.
  - unfold sha1_rep. cbn [s_h s_block s_idx s_count]. rewrite Habs.
    rewrite absorb_small by (rewrite Hlenx; lia). cbn [fst snd].
    assert (Hz : len (m ++ [b]) mod 64 = off + 1) by (rewrite len_app, len_single; unfold off in *; lia).
    rewrite Hz. repeat split; try reflexivity; assumption.
Qed.

Lemma sha1_process_bytes_rep data : forall st m,
  sha1_rep st m -> sha1_rep (sha1_process_bytes st data) (m ++ data).
Proof.
  unfold sha1_process_bytes. induction data as [|b r IH]; intros st m Hr.
  - cbn. rewrite app_nil_r. exact Hr.
  - cbn [fold_left]. replace (m ++ b :: r) with ((m ++ [b]) ++ r) by (rewrite <- app_assoc; reflexivity).
    apply IH. apply sha1_process_byte_rep. exact Hr.
Qed.

Lemma repeat_snoc (x : N) n : repeat x n ++ [x] = repeat x (S n).
Proof. induction n as [|n IH]; [reflexivity|]. cbn [repeat app]. rewrite IH. reflexivity. Qed.

Lemma sha1_idx_lt st m : sha1_rep st m -> s_idx st < 64.
Proof. intros (_ & _ & _ & Hi & _). rewrite Hi. apply N.mod_lt. discriminate. Qed.
Lemma sha1_idx_next st m b : sha1_rep st m ->
  s_idx (sha1_process_byte st b) = if s_idx st + 1 =? 64 then 0 else s_idx st + 1.
Proof. intros _. unfold sha1_process_byte. destruct (s_idx st + 1 =? 64); reflexivity. Qed.

(* while (block_byte_index_ < 56) process_byte(0) *)
Lemma sha1_pad_lt56 fuel : forall st x,
  sha1_rep st x -> (N.to_nat (56 - s_idx st) <= fuel)%nat ->
  sha1_rep (sha1_pad_while (fun i => i <? 56) fuel st) (x ++ repeat 0 (N.to_nat (56 - s_idx st))).
Proof.
  induction fuel as [|f IH]; intros st x Hr Hf.
  - cbn [sha1_pad_while]. replace (N.to_nat (56 - s_idx st)) with O by lia. cbn. rewrite app_nil_r. exact Hr.
  - cbn [sha1_pad_while]. destruct (N.ltb_spec (s_idx st) 56) as [Hlt|Hge].
    + pose proof (sha1_process_byte_rep st x 0 Hr) as Hr1.
      pose proof (sha1_idx_next st x 0 Hr) as Hi1.
      destruct (N.eqb_spec (s_idx st + 1) 64) as [E|_]; [lia|].
      specialize (IH _ _ Hr1). rewrite Hi1 in IH.
      replace (N.to_nat (56 - s_idx st)) with (S (N.to_nat (56 - (s_idx st + 1)))) by lia.
      rewrite <- repeat_snoc.
      replace (x ++ repeat 0 (N.to_nat (56 - (s_idx st + 1))) ++ [0])
        with ((x ++ [0]) ++ repeat 0 (N.to_nat (56 - (s_idx st + 1)))).
      * apply IH. lia.
      * rewrite <- !app_assoc. f_equal. cbn [app]. rewrite repeat_snoc. reflexivity.
    + replace (N.to_nat (56 - s_idx st)) with O by lia. cbn. rewrite app_nil_r. exact Hr.
Qed.

(* while (block_byte_index_ != 0) process_byte(0) *)
Lemma sha1_pad_ne0 fuel : forall st x,
  sha1_rep st x -> (N.to_nat ((64 - s_idx st) mod 64) <= fuel)%nat ->
  sha1_rep (sha1_pad_while (fun i => negb (i =? 0)) fuel st) (x ++ repeat 0 (N.to_nat ((64 - s_idx st) mod 64))) /\
  s_idx (sha1_pad_while (fun i => negb (i =? 0)) fuel st) = 0.
Proof.
  induction fuel as [|f IH]; intros st x Hr Hf; pose proof (sha1_idx_lt st x Hr) as Hlt.
  - cbn [sha1_pad_while]. assert (s_idx st = 0) as Hz by lia. rewrite Hz. cbn. rewrite app_nil_r. split; [exact Hr|reflexivity].
  - cbn [sha1_pad_while]. destruct (N.eqb_spec (s_idx st) 0) as [Hz|Hnz]; cbn [negb].
    + rewrite Hz. cbn. rewrite app_nil_r. split; [exact Hr|reflexivity].
    + pose proof (sha1_process_byte_rep st x 0 Hr) as Hr1.
      pose proof (sha1_idx_next st x 0 Hr) as Hi1.
      specialize (IH _ _ Hr1).
      assert (Hk : N.to_nat ((64 - s_idx st) mod 64) = S (N.to_nat ((64 - s_idx (sha1_process_byte st 0)) mod 64))).
      { rewrite Hi1. destruct (N.eqb_spec (s_idx st + 1) 64); lia. }
      rewrite Hk. rewrite Hk in Hf.
      destruct IH as [IH1 IH2]; [lia|]. split; [|exact IH2].
      rewrite <- repeat_snoc.
      match goal with |- sha1_rep _ ?l =>
        replace l with ((x ++ [0]) ++ repeat 0 (N.to_nat ((64 - s_idx (sha1_process_byte st 0)) mod 64))) end.
      * exact IH1.
      * rewrite <- !app_assoc. f_equal. cbn [app]. rewrite repeat_snoc. reflexivity.
Qed.

Lemma repeat_plus (x : N) a b : repeat x a ++ repeat x b = repeat x (a + b).
Proof. induction a as [|a IH]; [reflexivity|]. cbn [repeat app Nat.add]. rewrite IH. reflexivity. Qed.

Lemma sha1_get_digest_rep st m :
  sha1_rep st m ->
  quint_be_bytes (fst (sha1_get_digest st)) = sha1_spec m /\ sha1_rep (snd (sha1_get_digest st)) (sha1_padded m).
Proof.
  intros Hr. pose proof Hr as (Hh & Hb & Hl & Hi & Hc).
  unfold sha1_get_digest.
  assert (Hbc : w64 (s_count st * 8) = w64 (8 * len m)) by (rewrite !w64_mod, Hc; lia).
  rewrite Hbc.
  pose proof (sha1_process_byte_rep st m 128 Hr) as Hr1.
  pose proof (sha1_idx_next st m 128 Hr) as Hi1. rewrite Hi in Hi1.
  set (st1 := sha1_process_byte st 128) in *.
  assert (Hrlt : len m mod 64 < 64) by (apply N.mod_lt; discriminate).
  assert (Hst2 : sha1_rep (if 56 <? s_idx st1
                           then sha1_pad_while (fun i => i <? 56) 64 (sha1_pad_while (fun i => negb (i =? 0)) 64 st1)
                           else sha1_pad_while (fun i => i <? 56) 64 st1)
                          ((m ++ [128]) ++ repeat 0 (pad_zeros m))).
  { destruct (N.ltb_spec 56 (s_idx st1)) as [Hgt|Hle].
    - destruct (sha1_pad_ne0 64 st1 _ Hr1) as [Ha Hz]; [lia|].
      pose proof (sha1_pad_lt56 64 _ _ Ha) as Hb2. rewrite Hz in Hb2.
      replace ((m ++ [128]) ++ repeat 0 (pad_zeros m))
        with (((m ++ [128]) ++ repeat 0 (N.to_nat ((64 - s_idx st1) mod 64))) ++ repeat 0 (N.to_nat (56 - 0))).
      + apply Hb2. lia.
      + rewrite <- (app_assoc (m ++ [128])), repeat_plus. do 2 f_equal. unfold pad_zeros.
        destruct (N.eqb_spec (len m mod 64 + 1) 64); lia.
    - pose proof (sha1_pad_lt56 64 st1 _ Hr1) as Hb2.
      replace (pad_zeros m) with (N.to_nat (56 - s_idx st1)).
      + apply Hb2. lia.
      + unfold pad_zeros. destruct (N.eqb_spec (len m mod 64 + 1) 64); lia. }
  set (st2 := if 56 <? s_idx st1 then _ else _) in *.
  pose proof (sha1_process_bytes_rep (be_bytes64 (w64 (8 * len m))) _ _ Hst2) as Hr3.
  assert (Hpadded : ((m ++ [128]) ++ repeat 0 (pad_zeros m)) ++ be_bytes64 (w64 (8 * len m)) = sha1_padded m).
  { unfold sha1_padded. rewrite <- !app_assoc. reflexivity. }
  rewrite Hpadded in Hr3. cbn [fst snd]. split; [|exact Hr3].
  destruct Hr3 as (Hh3 & _). rewrite Hh3. reflexivity.
Qed.

Lemma sha1_obj_append_rep st m data : sha1_rep st m -> sha1_rep (sha1_obj_append st data) (m ++ data).
Proof. intros Hr. apply sha1_process_bytes_rep. exact Hr. Qed.

Lemma sha1_obj_readout_rep st m :
  sha1_rep st m ->
  fst (sha1_obj_readout st) = sha1_spec m /\ sha1_rep (snd (sha1_obj_readout st)) [].
Proof.
  intros Hr. unfold sha1_obj_readout.
  destruct (sha1_get_digest_rep st m Hr) as [H1 H2].
  destruct (sha1_get_digest st) as [dg st']. cbn [fst snd] in *.
  split; [exact H1|]. eapply sha1_rep_reset. exact H2.
Qed.

Lemma sha1_obj_readout_state st :
  let st' := snd (sha1_obj_readout st) in
  s_h st' = sha1_h0 /\ s_idx st' = 0 /\ s_count st' = 0.
Proof. unfold sha1_obj_readout. destruct (sha1_get_digest st) as [dg st']. cbn. auto. Qed.

Lemma sha1_fold_rep chunks : forall st m,
  sha1_rep st m -> sha1_rep (fold_left sha1_obj_append chunks st) (m ++ concat chunks).
Proof.
  induction chunks as [|c r IH]; intros st m Hr.
  - cbn. rewrite app_nil_r. exact Hr.
  - cbn [fold_left concat]. rewrite app_assoc. apply IH. apply sha1_obj_append_rep. exact Hr.
Qed.

Lemma sha1_message_rep st m chunks :
  sha1_rep st m ->
  fst (digest_message sha1_obj_append sha1_obj_readout st chunks) = sha1_spec (m ++ concat chunks) /\
  sha1_rep (snd (digest_message sha1_obj_append sha1_obj_readout st chunks)) [].
Proof. intros Hr. unfold digest_message. apply sha1_obj_readout_rep. apply sha1_fold_rep. exact Hr. Qed.

Lemma sha1_stream_lemma chunks :
  fst (sha1_obj_readout (fold_left sha1_obj_append chunks sha1_new)) = sha1_spec (concat chunks).
Proof. apply (sha1_message_rep sha1_new [] chunks sha1_rep_new). Qed.

Lemma sha1_session_rep msgs : forall st,
  sha1_rep st [] ->
  digest_session sha1_obj_append sha1_obj_readout st msgs = map (fun chunks => sha1_spec (concat chunks)) msgs.
Proof.
  induction msgs as [|c r IH]; intros st Hr; [reflexivity|].
  cbn [digest_session map].
  destruct (sha1_message_rep st [] c Hr) as [H1 H2].
  destruct (digest_message sha1_obj_append sha1_obj_readout st c) as [o st']. cbn [fst snd] in *.
  rewrite H1, (IH st' H2). reflexivity.
Qed.
Lemma sha1_session_lemma msgs : sha1_session msgs = map (fun chunks => sha1_spec (concat chunks)) msgs.
Proof. apply sha1_session_rep. exact sha1_rep_new. Qed.

(* FIPS 180-4 writes Ch and Maj with xor; the code uses or. They agree on 32-bit words. *)
Lemma ch_or_xor x y z : x < 4294967296 -> N.lor (N.land x y) (N.land (not32 x) z) = fips_Ch x y z.
Proof.
  intros Hx. unfold fips_Ch. apply N.bits_inj. intros n.
  rewrite N.lor_spec, N.lxor_spec, !N.land_spec. unfold not32. rewrite N.lxor_spec.
  destruct (N.testbit mask32 n) eqn:Em.
  - destruct (N.testbit x n), (N.testbit y n), (N.testbit z n); reflexivity.
  - assert (Hxn : N.testbit x n = false).
    { change mask32 with (N.ones 32) in Em. destruct (N.ltb_spec n 32) as [Hn|Hn].
      - rewrite N.ones_spec_low in Em by lia. discriminate.
      - rewrite <- (N.mod_small x (2 ^ 32)) by exact Hx. apply N.mod_pow2_bits_high. exact Hn. }
    rewrite Hxn. destruct (N.testbit y n), (N.testbit z n); reflexivity.
Qed.
Lemma maj_or_xor x y z : N.lor (N.lor (N.land x y) (N.land x z)) (N.land y z) = fips_Maj x y z.
Proof.
  unfold fips_Maj. apply N.bits_inj. intros n.
  rewrite !N.lor_spec, !N.lxor_spec, !N.land_spec.
  destruct (N.testbit x n), (N.testbit y n), (N.testbit z n); reflexivity.
Qed.
