(* C16: the session cookie cipher of src/aes_encryptor.cpp with the real block cipher (FIPS-197 of AesDefs.v):
   what one aes_cipher object writes, every other object with the same keys reads back - whatever their running IVs.
   No hypothesis about the cipher is left; the MAC stays abstract (any function with digests of dsz bytes; the hmac
   objects over MD5 / SHA-1 are shown to be such functions elsewhere). *)
From CppcmsV Require Import Base.Tac C16.Defs C16.Blocks C16.ProofsCbc C16.ProofsCbcObj C16.ProofsSess C16.AesDefs C16.ProofsAesInv Base.Sweep.
Local Open Scope N_scope.

Lemma dec_rounds_len r : forall s, r <> [] -> Forall st_ok r -> length (dec_rounds s r) = 16%nat.
Proof.
  induction r as [|rk r IH]; intros s Hne Hr; [congruence|].
  inversion Hr as [|? ? [Lrk _] Hr']; subst. destruct r as [|rk2 r].
  - cbn [dec_rounds]. rewrite xor_bytes_length. unfold inv_sub_bytes, inv_shift_rows. rewrite !map_length, seq_length. lia.
  - rewrite dec_rounds_cons by discriminate. apply IH; [discriminate|exact Hr'].
Qed.
Lemma aes_D_len key b : bytes_ok key -> (4 <= length key)%nat -> length b = 16%nat -> length (aes_D key b) = 16%nat.
Proof.
  intros Bk Lk Lb. unfold aes_D, aes_dec_rk. pose proof (key_expansion_ok key Bk Lk) as Hr.
  apply Forall_rev in Hr. destruct (rev (key_expansion key)) as [|rkn r]; [exact Lb|].
  inversion Hr as [|? ? [Ln _] Hr']; subst. destruct r as [|rk r].
  - cbn [dec_rounds]. rewrite xor_bytes_length. lia.
  - apply dec_rounds_len; [discriminate|exact Hr'].
Qed.

Lemma bytes_ok_skipn n : forall l, bytes_ok l -> bytes_ok (skipn n l).
Proof.
  induction n as [|n IH]; intros l B; [exact B|]. destruct l as [|x l]; [exact B|].
  cbn [skipn]. apply IH. apply bytes_ok_cons in B. tauto.
Qed.
Lemma bytes_ok_repeat0 n : bytes_ok (repeat 0 n).
Proof. induction n; [constructor|]. cbn [repeat]. constructor; [lia|assumption]. Qed.
Lemma byte_of_lt w sh : byte_of w sh < 256.
Proof. rewrite byte_of_spec. apply N.mod_lt. lia. Qed.
Lemma bytes_ok_ac_input p : bytes_ok p -> bytes_ok (ac_input p).
Proof.
  intros B. unfold ac_input, over_zeros. apply bytes_ok_app. split.
  - apply bytes_ok_app. split; [apply bytes_ok_repeat0|]. apply bytes_ok_app. split; [|exact B].
    unfold le_bytes32. repeat (constructor; [apply byte_of_lt|]). constructor.
  - apply bytes_ok_skipn. apply bytes_ok_repeat0.
Qed.

Section AesSess.
  Variable mac : list N -> list N.
  Variable dsz : nat.
  Hypothesis mac_len : forall m, length (mac m) = dsz.
  Variable key : list N.
  Hypothesis Bk : bytes_ok key.
  Hypothesis Lk : (4 <= length key)%nat.

  Lemma ac_roundtrip_aes iv1 iv2 p :
    length iv1 = 16%nat -> bytes_ok iv1 -> length iv2 = 16%nat -> bytes_ok p -> len p < 4294967296 ->
    fst (ac_decrypt mac dsz (aes_D key) iv2 (fst (ac_encrypt mac (aes_E key) iv1 p))) = Some p.
  Proof.
    intros H1 B1 H2 Bp Hp.
    (* the shape lemmas of ProofsSess do not depend on the cipher: instantiate their parameters trivially *)
    destruct (ac_input_shape (fun _ => []) 0 (fun _ => eq_refl) (fun b => b) (fun b => b) (fun b H => H) (fun b H => H) (fun b H => eq_refl) p Hp)
      as (pad & Hin & Hw & H32).
    pose proof (le32_of_le_bytes32 (fun _ => []) 0 (fun _ => eq_refl) (fun b => b) (fun b => b) (fun b H => H) (fun b H => H) (fun b H => eq_refl)) as Hle.
    destruct (aes_E_ok key Bk Lk) as [E_ok DE].
    unfold ac_encrypt.
    destruct (cbc_inverse_chain_bytes (aes_E key) (aes_D key) E_ok DE (ac_input p) Hw (bytes_ok_ac_input p Bp) iv1 H1 B1) as (Hdec & Hclen & _).
    rewrite <- !cbc_enc_chain in *. rewrite <- cbc_dec_chain in Hdec.
    destruct (cbc_enc (aes_E key) iv1 (ac_input p)) as [c iv'] eqn:Ec. cbn [fst snd] in *.
    unfold ac_decrypt. rewrite app_length, mac_len.
    destruct (Nat.ltb_spec (length c + dsz) (dsz + 16)) as [H|_]; [lia|].
    replace (length c + dsz - dsz)%nat with (length c) by lia.
    assert (Hcw : (length c mod 16 = 0)%nat) by (rewrite Hclen; exact Hw).
    rewrite Hcw. cbn [Nat.eqb negb].
    destruct (Nat.ltb_spec (Nat.div (length c) 16) 2) as [H|_].
    { pose proof (Nat.div_mod (length c) 16 ltac:(lia)). lia. }
    rewrite (firstn_app_n _ c (mac c) eq_refl), (skipn_app_n _ c (mac c) eq_refl), ct_equal_refl. cbn [negb].
    destruct (cbc_dec_iv_independent (aes_D key) (fun b Hb => aes_D_len key b Bk Lk Hb) iv2 iv1 c H2 H1 ltac:(lia)) as [Hskip _].
    rewrite Hdec in Hskip. cbn [fst] in Hskip.
    destruct (cbc_dec (aes_D key) iv2 c) as [full iv''] eqn:Ed. cbn [fst] in Hskip.
    assert (Hs16 : skipn 16 full = le_bytes32 (len p) ++ p ++ pad).
    { rewrite Hskip, Hin. apply skipn_app_n. apply repeat_length. }
    assert (Hs20 : skipn 20 full = p ++ pad).
    { change 20%nat with (16 + 4)%nat. rewrite skipn_plus, Hs16. reflexivity. }
    rewrite Hs16, Hle by exact Hp.
    assert (Hreal : (20 + length p <= length c)%nat).
    { rewrite Hclen, Hin, !app_length, repeat_length. cbn [le_bytes32 length]. lia. }
    destruct (N.ltb_spec (N.of_nat (length c - 16 - 4)) (len p)) as [H|_]; [unfold len in H; lia|].
    cbn [fst]. rewrite Hs20. unfold len. rewrite Nat2N.id. rewrite (firstn_app_n _ p pad eq_refl). reflexivity.
  Qed.
End AesSess.

(* the default configuration of aes_factory(algo, key): AES + HMAC-SHA1, closed *)
Lemma sha1_spec_len m : length (sha1_spec m) = 20%nat.
Proof. unfold sha1_spec. destruct (fst (absorb sha1_process sha1_h0 (sha1_padded m))) as [[[[a b] c] d] e]. reflexivity. Qed.
Lemma md5_spec_len m : length (md5_spec m) = 16%nat.
Proof. unfold md5_spec. destruct (fst (absorb md5_compress_spec md5_iv_rfc (md5_padded m))) as [[[a b] c] d]. reflexivity. Qed.
Lemma cookie_aes_hmac_sha1 ck mk iv1 iv2 p :
  bytes_ok ck -> (4 <= length ck)%nat -> length iv1 = 16%nat -> bytes_ok iv1 -> length iv2 = 16%nat -> bytes_ok p -> len p < 4294967296 ->
  let mac := hmac_spec 64 sha1_spec mk in
  fst (ac_decrypt mac 20 (aes_D ck) iv2 (fst (ac_encrypt mac (aes_E ck) iv1 p))) = Some p.
Proof.
  intros Bk Lk H1 B1 H2 Bp Hp mac.
  apply (ac_roundtrip_aes mac 20 (fun m => sha1_spec_len _) ck Bk Lk iv1 iv2 p H1 B1 H2 Bp Hp).
Qed.
