Require Extraction.
Require Import ExtrOcamlBasic.
From Coq Require Import NArith ZArith List.
From CppcmsV Require Import C16.Defs C16.AesDefs C16.Sha2Defs.
Definition keep_types : (N * Z * nat) := (0%N, 0%Z, 0%nat).
Extraction "c16m.ml" keep_types md5_session sha1_session hmac_md5_session hmac_sha1_session md5_spec sha1_spec
  digest_by_name set_hex key_from_file to_hex cbc_ctl_run aes_obj_run aes_E aes_D cbc_enc cbc_dec ac_decrypt hc_decrypt cbc_by_name sha2_session hmac_sha2_session.
