(* C16: the whole cbc object of src/aes.cpp (key material, lazily expanded key schedules, running IVs) refines an
   object that is given ONE key at birth: whatever calls are made in whatever order, every encrypt / decrypt that is
   served is CBC under the first offered key of the right size. *)
From CppcmsV Require Import Base.Tac C16.Defs C16.Blocks C16.ProofsCbc.
Local Open Scope N_scope.

Section Obj.
  Variable E Dc : list N -> list N -> list N.
  Variable ks : N.
  Hypothesis Hks : 0 < ks.

  (* a key schedule is either not expanded yet or expanded from K *)
  Definition sched_ok (K : list N) (s : option (list N)) : Prop := s = None \/ s = Some K.
  Lemma sched_pick K s : sched_ok K s -> match s with Some k => k | None => K end = K.
  Proof. intros [-> | ->]; reflexivity. Qed.

  Lemma keyed_run K : len K = ks -> forall ops ke kd ivok ivs, sched_ok K ke -> sched_ok K kd ->
    obj_run E Dc ks (mk_obj K ke kd ivok ivs) ops = ref_run E Dc ks K (mk_ref true ivok ivs) ops.
  Proof.
    intros HK. assert (HK0 : (len K =? 0) = false) by (apply N.eqb_neq; lia).
    induction ops as [|op r IH]; intros ke kd ivok ivs Hke Hkd; [reflexivity|].
    cbn [obj_run ref_run].
    destruct op as [k|iv|ive ivd|p|c]; cbn [obj_step ref_step o_key o_kenc o_kdec o_ivok o_ivs r_keyed r_ivok r_ivs].
    - rewrite HK0. cbn [negb]. rewrite IH by assumption. reflexivity.
    - destruct (len iv =? 16); cbn [negb]; rewrite IH by assumption; reflexivity.
    - rewrite IH by assumption. reflexivity.
    - unfold obj_check. cbn [o_key o_ivok]. rewrite HK0. destruct ivok; cbn [negb].
      + rewrite (sched_pick K ke Hke). destruct (cbc_encrypt (E K) ivs p) as [out ivs'].
        rewrite IH; [reflexivity|right; reflexivity|assumption].
      + rewrite IH by assumption. reflexivity.
    - unfold obj_check. cbn [o_key o_ivok]. rewrite HK0. destruct ivok; cbn [negb].
      + rewrite (sched_pick K kd Hkd). destruct (cbc_decrypt (Dc K) ivs c) as [out ivs'].
        rewrite IH; [reflexivity|assumption|right; reflexivity].
      + rewrite IH by assumption. reflexivity.
  Qed.

  Lemma unkeyed_run : forall ops ivok ivs,
    obj_run E Dc ks (mk_obj [] None None ivok ivs) ops = ref_run E Dc ks (first_key ks ops) (mk_ref false ivok ivs) ops.
  Proof.
    induction ops as [|op r IH]; intros ivok ivs; [reflexivity|].
    cbn [obj_run ref_run first_key].
    destruct op as [k|iv|ive ivd|p|c]; cbn [obj_step ref_step o_key o_kenc o_kdec o_ivok o_ivs r_keyed r_ivok r_ivs].
    - change (len [] =? 0) with true. cbn [negb].
      destruct (N.eqb_spec (len k) ks) as [Hk|Hk]; cbn [negb].
      + rewrite keyed_run by (try exact Hk; left; reflexivity). reflexivity.
      + rewrite IH. reflexivity.
    - destruct (len iv =? 16); cbn [negb]; rewrite IH; reflexivity.
    - rewrite IH. reflexivity.
    - unfold obj_check. cbn [o_key]. change (len [] =? 0) with true. cbv iota. cbn [negb]. rewrite IH. reflexivity.
    - unfold obj_check. cbn [o_key]. change (len [] =? 0) with true. cbv iota. cbn [negb]. rewrite IH. reflexivity.
  Qed.

  (* the refinement: from a new object, for every sequence of calls *)
  Lemma obj_refines_ref ops :
    obj_run E Dc ks (obj_new) ops = ref_run E Dc ks (first_key ks ops) ref_new ops.
  Proof. apply unkeyed_run. Qed.

  (* the key bytes offered by set_key calls after the first accepted one are irrelevant: replacing them by anything
     of any size gives the same answers (status and output bytes) *)
  Lemma ref_run_keyed_later_keys K : forall a b ivok ivs, same_but_later_keys ks true a b ->
    ref_run E Dc ks K (mk_ref true ivok ivs) a = ref_run E Dc ks K (mk_ref true ivok ivs) b.
  Proof.
    induction a as [|op a IH]; intros [|op' b] ivok ivs H; cbn [same_but_later_keys] in H; try contradiction; [reflexivity| |].
    { destruct op; contradiction. }
    destruct op as [k|iv|ive ivd|p|c]; destruct op' as [k'|iv'|ive' ivd'|p'|c']; try contradiction; cbn [ref_run ref_step r_keyed r_ivok r_ivs].
    - rewrite (IH b ivok ivs H). reflexivity.
    - destruct H as [<- H]. destruct (len iv =? 16); cbn [negb]; rewrite (IH b _ _ H); reflexivity.
    - destruct H as (<- & <- & H). rewrite (IH b _ _ H). reflexivity.
    - destruct H as [<- H]. cbn [negb]. destruct ivok; cbn [negb].
      + destruct (cbc_encrypt (E K) ivs p) as [out ivs']. rewrite (IH b _ _ H). reflexivity.
      + rewrite (IH b _ _ H). reflexivity.
    - destruct H as [<- H]. cbn [negb]. destruct ivok; cbn [negb].
      + destruct (cbc_decrypt (Dc K) ivs c) as [out ivs']. rewrite (IH b _ _ H). reflexivity.
      + rewrite (IH b _ _ H). reflexivity.
  Qed.

  Lemma obj_run_keyed_later_keys K a b ke kd ivok ivs : len K = ks -> sched_ok K ke -> sched_ok K kd ->
    same_but_later_keys ks true a b ->
    obj_run E Dc ks (mk_obj K ke kd ivok ivs) a = obj_run E Dc ks (mk_obj K ke kd ivok ivs) b.
  Proof.
    intros HK Hke Hkd H. rewrite !keyed_run by assumption. apply ref_run_keyed_later_keys. exact H.
  Qed.

  Lemma obj_later_keys_irrelevant : forall a b ivok ivs, same_but_later_keys ks false a b ->
    obj_run E Dc ks (mk_obj [] None None ivok ivs) a = obj_run E Dc ks (mk_obj [] None None ivok ivs) b.
  Proof.
    induction a as [|op a IH]; intros [|op' b] ivok ivs H; cbn [same_but_later_keys] in H; try contradiction; [reflexivity| |].
    { destruct op; contradiction. }
    destruct op as [k|iv|ive ivd|p|c]; destruct op' as [k'|iv'|ive' ivd'|p'|c']; try contradiction;
      cbn [obj_run obj_step o_key o_kenc o_kdec o_ivok o_ivs].
    - destruct H as [<- H]. change (len [] =? 0) with true. cbn [negb].
      destruct (N.eqb_spec (len k) ks) as [Hk|Hk]; cbn [negb].
      + rewrite (obj_run_keyed_later_keys k a b None None ivok ivs Hk) by (try (left; reflexivity); exact H). reflexivity.
      + rewrite (IH b _ _ H). reflexivity.
    - destruct H as [<- H]. destruct (len iv =? 16); cbn [negb]; rewrite (IH b _ _ H); reflexivity.
    - destruct H as (<- & <- & H). rewrite (IH b _ _ H). reflexivity.
    - destruct H as [<- H]. unfold obj_check. cbn [o_key]. change (len [] =? 0) with true. cbv iota. rewrite (IH b _ _ H). reflexivity.
    - destruct H as [<- H]. unfold obj_check. cbn [o_key]. change (len [] =? 0) with true. cbv iota. rewrite (IH b _ _ H). reflexivity.
  Qed.

  (* the statuses of the full object are those of the status machine on the shapes of the operations *)
  Definition ctl_of (o : cbc_obj) : cbc_ctl := (negb (len (o_key o) =? 0), o_ivok o).
  Lemma obj_step_status o op :
    fst (fst (obj_step E Dc ks o op)) = fst (cbc_ctl_step ks (ctl_of o) (op_shape op)) /\
    ctl_of (snd (obj_step E Dc ks o op)) = snd (cbc_ctl_step ks (ctl_of o) (op_shape op)).
  Proof.
    destruct o as [key ke kd ivok ivs]. unfold ctl_of.
    destruct op as [k|iv|ive ivd|p|c]; cbn [obj_step op_shape cbc_ctl_step o_key o_kenc o_kdec o_ivok o_ivs].
    - destruct (len key =? 0) eqn:Ek; cbn [negb]; [|cbn [fst snd o_key o_ivok]; rewrite Ek; split; reflexivity].
      destruct (len k =? ks) eqn:Ekk; cbn [negb fst snd o_key o_ivok]; rewrite ?Ek; split; reflexivity.
    - destruct (len iv =? 16); cbn [negb fst snd o_key o_ivok]; split; reflexivity.
    - cbn [fst snd o_key o_ivok]. split; reflexivity.
    - unfold obj_check. cbn [o_key o_ivok]. destruct (len key =? 0) eqn:Ek; cbn [negb]; [cbn [fst snd o_key o_ivok]; rewrite ?Ek; split; reflexivity|].
      destruct ivok; cbn [negb]; [|cbn [fst snd o_key o_ivok]; rewrite Ek; split; reflexivity].
      destruct (cbc_encrypt _ ivs p) as [out ivs']. cbn [fst snd o_key o_ivok]. rewrite Ek. split; reflexivity.
    - unfold obj_check. cbn [o_key o_ivok]. destruct (len key =? 0) eqn:Ek; cbn [negb]; [cbn [fst snd o_key o_ivok]; rewrite ?Ek; split; reflexivity|].
      destruct ivok; cbn [negb]; [|cbn [fst snd o_key o_ivok]; rewrite Ek; split; reflexivity].
      destruct (cbc_decrypt _ ivs c) as [out ivs']. cbn [fst snd o_key o_ivok]. rewrite Ek. split; reflexivity.
  Qed.
  Lemma obj_run_statuses : forall ops o,
    map fst (obj_run E Dc ks o ops) = cbc_ctl_run ks (ctl_of o) (map op_shape ops).
  Proof.
    induction ops as [|op r IH]; intros o; [reflexivity|].
    cbn [obj_run map cbc_ctl_run]. destruct (obj_step_status o op) as [H1 H2].
    destruct (obj_step E Dc ks o op) as [[s out] o']. cbn [fst snd] in *.
    destruct (cbc_ctl_step ks (ctl_of o) (op_shape op)) as [s' st']. cbn [fst snd map] in *. subst s' st'.
    rewrite IH. reflexivity.
  Qed.
End Obj.

(* two objects driven with the same calls - the one that writes and the one that reads - round trip: a consequence of
   the refinement and of cbc_calls_inverse.  Stated for the common protocol: set_key K, set_iv iv, then only
   encrypt calls on one side and decrypt calls on the other; later set_key calls (any bytes) may be interleaved. *)
Section ObjRoundTrip.
  Variable E Dc : list N -> list N -> list N.
  Variable ks : N.
  Hypothesis Hks : 0 < ks.
  Hypothesis E_len : forall k b, length b = 16%nat -> length (E k b) = 16%nat.
  Hypothesis DE : forall k b, length b = 16%nat -> Dc k (E k b) = b.

  Lemma ref_enc_calls K : forall calls ivs,
    outputs (ref_run E Dc ks K (mk_ref true true ivs) (map (@OEnc) calls)) = fst (cbc_encrypt_calls (E K) ivs calls).
  Proof.
    induction calls as [|p r IH]; intros ivs; [reflexivity|].
    cbn [map ref_run ref_step r_keyed r_ivok r_ivs negb cbc_encrypt_calls].
    destruct (cbc_encrypt (E K) ivs p) as [out ivs']. unfold outputs in *. cbn [map snd concat].
    rewrite IH. destruct (cbc_encrypt_calls (E K) ivs' r). reflexivity.
  Qed.
  Lemma ref_dec_calls K : forall calls ivs,
    outputs (ref_run E Dc ks K (mk_ref true true ivs) (map (@ODec) calls)) = fst (cbc_decrypt_calls (Dc K) ivs calls).
  Proof.
    induction calls as [|p r IH]; intros ivs; [reflexivity|].
    cbn [map ref_run ref_step r_keyed r_ivok r_ivs negb cbc_decrypt_calls].
    destruct (cbc_decrypt (Dc K) ivs p) as [out ivs']. unfold outputs in *. cbn [map snd concat].
    rewrite IH. destruct (cbc_decrypt_calls (Dc K) ivs' r). reflexivity.
  Qed.

  Lemma obj_two_nodes_roundtrip K K2 iv pcalls ccalls :
    len K = ks -> length iv = 16%nat -> Forall whole pcalls -> Forall whole ccalls ->
    concat ccalls = outputs (obj_run E Dc ks obj_new (OKey K :: OIv iv :: OKey K2 :: map (@OEnc) pcalls)) ->
    outputs (obj_run E Dc ks obj_new (OKey K :: OIv iv :: map (@ODec) ccalls)) = concat pcalls.
  Proof.
    intros HK Hiv Hp Hc Heq.
    assert (Hiv' : (len iv =? 16) = true) by (apply N.eqb_eq; unfold len; lia).
    assert (HK' : (len K =? ks) = true) by (apply N.eqb_eq; exact HK).
    rewrite obj_refines_ref in * by exact Hks.
    cbn [first_key] in *. rewrite HK' in *.
    cbn [ref_run ref_step ref_new r_keyed r_ivok r_ivs negb] in *. rewrite HK', Hiv' in *. cbn [negb] in *.
    cbn [ref_run ref_step ref_new r_keyed r_ivok r_ivs negb] in *.
    unfold outputs in *. cbn [map snd concat app] in *.
    fold (outputs (ref_run E Dc ks K (mk_ref true true (cbc_set_iv iv)) (map (@OEnc) pcalls))) in Heq.
    fold (outputs (ref_run E Dc ks K (mk_ref true true (cbc_set_iv iv)) (map (@ODec) ccalls))).
    rewrite ref_enc_calls in Heq. rewrite ref_dec_calls.
    apply (cbc_calls_inverse (E K) (Dc K) (E_len K) (DE K) iv pcalls ccalls Hiv Hp Hc Heq).
  Qed.
End ObjRoundTrip.

(* cbc::create(name): every object it returns has key_size() 16, 24 or 32 - the premise 0 < ks of the object theorems *)
Lemma cbc_by_name_sizes n ks : cbc_by_name n = Some ks -> (ks = 16 \/ ks = 24 \/ ks = 32) /\ 0 < ks.
Proof.
  unfold cbc_by_name.
  destruct (existsb _ _); [intros H; injection H as <-; split; [auto|lia]|].
  destruct (existsb _ _); [intros H; injection H as <-; split; [auto|lia]|].
  destruct (existsb _ _); [intros H; injection H as <-; split; [auto|lia]|]. discriminate.
Qed.
