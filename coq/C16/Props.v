(* C16 -- digests, HMAC and CBC ciphers compute the standard functions for all inputs.
   Only property theorems here, each closed by `exact <lemma>`; proofs are in the other files of coq/C16.
   Bytes are N, byte strings list N, a message is fed as a list of chunks (one per append call). *)
From CppcmsV Require Import Base.Tac C16.Defs C16.Blocks C16.ProofsMd5 C16.ProofsMd5Fin C16.ProofsSha1 C16.ProofsSha1Fips C16.ProofsHmac C16.ProofsCbc C16.ProofsCbcObj C16.ProofsSess C16.AesDefs C16.ProofsAes C16.ProofsAesInv C16.ProofsAesSess C16.Sha2Defs.
Local Open Scope N_scope.

(* ---------------------------------------------------------------------------------------------
   1. streaming = one-shot standard function, for every chunking (empty chunks included).
      MD5: every chunk shorter than 2^31 bytes (the int nbytes parameter of md5_append; the wrapper
      truncates size_t to int, see md5_chunk_outside_domain_dropped).  The total length is not bounded:
      the two-word bit counter of the code and the 64-bit length field of RFC 1321 both wrap mod 2^64.
      SHA-1: no bound in the model (size_t counters, 64-bit length field as in FIPS 180-4, which defines
      the function for messages shorter than 2^61 bytes; beyond that sha1_spec wraps the length like the code).
   --------------------------------------------------------------------------------------------- *)
Theorem md5_stream : forall chunks,
  Forall (fun c => len c < 2147483648) chunks ->
  fst (md5_obj_readout (fold_left md5_obj_append chunks md5_new)) = md5_spec (concat chunks).
Proof. exact md5_stream_lemma. Qed.
Print Assumptions md5_stream.

Theorem sha1_stream : forall chunks,
  fst (sha1_obj_readout (fold_left sha1_obj_append chunks sha1_new)) = sha1_spec (concat chunks).
Proof. exact sha1_stream_lemma. Qed.
Print Assumptions sha1_stream.

(* the compression function and initial value the MD5 code uses (T_MASK ^ x constants, 64 SET lines in
   source order) are those of RFC 1321 section 3.4 (index and shift formulas, T table) *)
Theorem md5_tables_are_rfc1321 : md5_process = md5_compress_spec /\ md5_abcd0 = md5_iv_rfc.
Proof. exact (conj md5_process_rfc md5_abcd0_rfc). Qed.
Print Assumptions md5_tables_are_rfc1321.

(* the or-forms of the round functions in sha1.h are the xor-forms of FIPS 180-4 section 4.1.1 *)
Theorem sha1_round_functions_are_fips : forall x y z, x < 4294967296 ->
  N.lor (N.land x y) (N.land (not32 x) z) = fips_Ch x y z /\
  N.lor (N.lor (N.land x y) (N.land x z)) (N.land y z) = fips_Maj x y z.
Proof. exact (fun x y z H => conj (ch_or_xor x y z H) (maj_or_xor x y z)). Qed.
Print Assumptions sha1_round_functions_are_fips.

(* sha1_spec (pad, then fold the 80-round function of the code model) is the function of FIPS 180-4 6.1.2 written from the
   standard: ROTL with or, f_t = Ch/Parity/Maj selected by t/20, K_t table, W_t by its recurrence, big-endian words by arithmetic *)
Theorem sha1_spec_is_fips180 : forall m, Forall (fun b => b < 256) m -> sha1_spec m = sha1_spec_fips m.
Proof. exact sha1_spec_is_fips. Qed.
Print Assumptions sha1_spec_is_fips180.
Theorem sha1_block_function_is_fips180 : forall h block,
  (let '(a, b, c, d, e) := h in a < 4294967296 /\ b < 4294967296 /\ c < 4294967296 /\ d < 4294967296 /\ e < 4294967296) ->
  length block = 64%nat -> Forall (fun b => b < 256) block ->
  sha1_process h block = sha1_compress_fips h block.
Proof. exact (fun h block Hq Hl Hb => proj1 (sha1_process_fips h block Hq Hl Hb)). Qed.
Print Assumptions sha1_block_function_is_fips180.
Example sha1_fips_nonvacuous :
  sha1_spec_fips [97;98;99] =
    [0xa9;0x99;0x3e;0x36;0x47;0x06;0x81;0x6a;0xba;0x3e;0x25;0x71;0x78;0x50;0xc2;0x6c;0x9c;0xd0;0xd8;0x9d].
Proof. rewrite <- sha1_spec_is_fips by (repeat constructor). vm_compute. reflexivity. Qed.

(* a chunk of 2^31 .. 2^32-1 bytes is silently ignored by md5_digets::append (int conversion): outside the domain *)
Theorem md5_chunk_outside_domain_dropped : forall st data,
  2147483648 <= len data < 4294967296 -> md5_obj_append st data = st.
Proof. exact md5_obj_append_big. Qed.
Print Assumptions md5_chunk_outside_domain_dropped.

(* ---------------------------------------------------------------------------------------------
   2. reusable: after readout the object is as good as new - k messages in a row through ONE object
      each get the digest of their own bytes (whatever was hashed before, whatever is left in the buffer)
   --------------------------------------------------------------------------------------------- *)
Theorem md5_reusable : forall msgs,
  Forall (Forall (fun c => len c < 2147483648)) msgs ->
  md5_session msgs = map (fun chunks => md5_spec (concat chunks)) msgs.
Proof. exact md5_session_lemma. Qed.
Print Assumptions md5_reusable.

Theorem sha1_reusable : forall msgs,
  sha1_session msgs = map (fun chunks => sha1_spec (concat chunks)) msgs.
Proof. exact sha1_session_lemma. Qed.
Print Assumptions sha1_reusable.

(* registers and counters equal those of a new object after every readout, from ANY state *)
Theorem md5_readout_reinitialises : forall st,
  let st' := snd (md5_obj_readout st) in
  m_count0 st' = 0 /\ m_count1 st' = 0 /\ m_abcd st' = md5_abcd0.
Proof. exact md5_obj_readout_state. Qed.
Print Assumptions md5_readout_reinitialises.

Theorem sha1_readout_reinitialises : forall st,
  let st' := snd (sha1_obj_readout st) in
  s_h st' = sha1_h0 /\ s_idx st' = 0 /\ s_count st' = 0.
Proof. exact sha1_obj_readout_state. Qed.
Print Assumptions sha1_readout_reinitialises.

(* non-vacuity + known answers (tests of the specification; RFC 1321 A.5, FIPS 180 examples).
   "abc" fed as a | empty | bc through the object, then the empty message through the same object. *)
Example md5_stream_nonvacuous :
  md5_session [[[97]; []; [98; 99]]; []] =
  [[0x90;0x01;0x50;0x98;0x3c;0xd2;0x4f;0xb0;0xd6;0x96;0x3f;0x7d;0x28;0xe1;0x7f;0x72];
   [0xd4;0x1d;0x8c;0xd9;0x8f;0x00;0xb2;0x04;0xe9;0x80;0x09;0x98;0xec;0xf8;0x42;0x7e]].
Proof. vm_compute. reflexivity. Qed.
Example md5_spec_kat_rfc1321 :
  md5_spec [] = [0xd4;0x1d;0x8c;0xd9;0x8f;0x00;0xb2;0x04;0xe9;0x80;0x09;0x98;0xec;0xf8;0x42;0x7e] /\
  md5_spec [97] = [0x0c;0xc1;0x75;0xb9;0xc0;0xf1;0xb6;0xa8;0x31;0xc3;0x99;0xe2;0x69;0x77;0x26;0x61] /\
  md5_spec [97;98;99] = [0x90;0x01;0x50;0x98;0x3c;0xd2;0x4f;0xb0;0xd6;0x96;0x3f;0x7d;0x28;0xe1;0x7f;0x72] /\
  (* "message digest" *)
  md5_spec [109;101;115;115;97;103;101;32;100;105;103;101;115;116] =
    [0xf9;0x6b;0x69;0x7d;0x7c;0xb7;0x93;0x8d;0x52;0x5a;0x2f;0x31;0xaa;0xf1;0x61;0xd0] /\
  (* 8 times "1234567890": 80 bytes, two blocks *)
  md5_spec (concat (repeat [49;50;51;52;53;54;55;56;57;48] 8)) =
    [0x57;0xed;0xf4;0xa2;0x2b;0xe3;0xc9;0x55;0xac;0x49;0xda;0x2e;0x21;0x07;0xb6;0x7a].
Proof. vm_compute. repeat split; reflexivity. Qed.
Example sha1_stream_nonvacuous :
  sha1_session [[[97]; []; [98; 99]]; []] =
  [[0xa9;0x99;0x3e;0x36;0x47;0x06;0x81;0x6a;0xba;0x3e;0x25;0x71;0x78;0x50;0xc2;0x6c;0x9c;0xd0;0xd8;0x9d];
   [0xda;0x39;0xa3;0xee;0x5e;0x6b;0x4b;0x0d;0x32;0x55;0xbf;0xef;0x95;0x60;0x18;0x90;0xaf;0xd8;0x07;0x09]].
Proof. vm_compute. reflexivity. Qed.
Example sha1_spec_kat_fips180 :
  sha1_spec [97;98;99] =
    [0xa9;0x99;0x3e;0x36;0x47;0x06;0x81;0x6a;0xba;0x3e;0x25;0x71;0x78;0x50;0xc2;0x6c;0x9c;0xd0;0xd8;0x9d] /\
  (* "abcdbcdecdefdefgefghfghighijhijkijkljklmklmnlmnomnopnopq": 56 bytes, the padding spills into a second block *)
  sha1_spec [97;98;99;100;98;99;100;101;99;100;101;102;100;101;102;103;101;102;103;104;102;103;104;105;103;104;105;106;
             104;105;106;107;105;106;107;108;106;107;108;109;107;108;109;110;108;109;110;111;109;110;111;112;110;111;112;113] =
    [0x84;0x98;0x3e;0x44;0x1c;0x3b;0xd2;0x6e;0xba;0xae;0x4a;0xa1;0xf9;0x51;0x29;0xe5;0xe5;0x46;0x70;0xf1].
Proof. vm_compute. repeat split; reflexivity. Qed.

(* ---------------------------------------------------------------------------------------------
   3. HMAC (crypto.cpp hmac::init / append / readout) = RFC 2104, over ANY digest object of which only
      streaming + reset-after-readout are known (premises rep_*: there is a relation "st has absorbed m" that
      holds for a new object, is advanced by append on accepted chunks, and makes readout return Hf m and
      leave an object that has absorbed nothing), digest no longer than the block, blocks accepted by append.
      All key lengths: hmac_key0 hashes keys longer than the block, zero-pads the others (hmac_key_classes).
      Every chunking; k messages through one hmac object (re-priming after readout).
   --------------------------------------------------------------------------------------------- *)
Theorem hmac_rfc2104 :
  forall (D : Type) (d_new : D) (d_append : D -> list N -> D) (d_readout : D -> list N * D)
         (B dsz : nat) (Hf : list N -> list N) (okc : list N -> Prop) (rep : D -> list N -> Prop),
  rep d_new [] ->
  (forall st m c, rep st m -> okc c -> rep (d_append st c) (m ++ c)) ->
  (forall st m, rep st m -> fst (d_readout st) = Hf m /\ rep (snd (d_readout st)) []) ->
  (forall m, length (Hf m) = dsz) -> (dsz <= B)%nat -> (forall c, (length c <= B)%nat -> okc c) ->
  forall key msgs,
  ((B < length key)%nat -> okc key) -> Forall (Forall okc) msgs ->
  hmac_session D d_append d_readout B dsz (hmac_new D d_new d_append d_readout B dsz key) msgs =
  map (fun chunks => hmac_spec B Hf key (concat chunks)) msgs.
Proof. exact hmac_session_lemma. Qed.
Print Assumptions hmac_rfc2104.

Theorem hmac_key_classes : forall (B : nat) (Hf : list N -> list N) key,
  ((length key < B)%nat -> hmac_key0 B Hf key = key ++ repeat 0 (B - length key)) /\
  (length key = B -> hmac_key0 B Hf key = key) /\
  ((B < length key)%nat -> hmac_key0 B Hf key = over_zeros B (Hf key)).
Proof. exact (fun B Hf key => conj (key0_short B Hf key) (conj (key0_equal B Hf key) (key0_long B Hf key))). Qed.
Print Assumptions hmac_key_classes.

(* the two bundled digests satisfy the premises: closed statements for HMAC-MD5 and HMAC-SHA1 *)
Theorem hmac_md5_rfc2104 : forall key msgs,
  len key < 2147483648 -> Forall (Forall (fun c => len c < 2147483648)) msgs ->
  hmac_md5_session key msgs = map (fun chunks => hmac_spec 64 md5_spec key (concat chunks)) msgs.
Proof. exact hmac_md5_session_lemma. Qed.
Print Assumptions hmac_md5_rfc2104.

Theorem hmac_sha1_rfc2104 : forall key msgs,
  hmac_sha1_session key msgs = map (fun chunks => hmac_spec 64 sha1_spec key (concat chunks)) msgs.
Proof. exact hmac_sha1_session_lemma. Qed.
Print Assumptions hmac_sha1_rfc2104.

(* RFC 2202 test cases 1 and 6 (key shorter / longer than the block) + a key of exactly one block (value computed
   with an independent implementation), run through the OBJECT model with a split message and a second message *)
Example hmac_nonvacuous_rfc2202 :
  hmac_md5_session (repeat 11 16) [[[72;105;32;84]; []; [104;101;114;101]]; [[72;105;32;84;104;101;114;101]]] =
    [[146;148;114;122;54;56;187;28;19;244;142;248;21;139;252;157]; [146;148;114;122;54;56;187;28;19;244;142;248;21;139;252;157]] /\
  hmac_sha1_session (repeat 11 20) [[[72;105;32;84]; []; [104;101;114;101]]; [[72;105;32;84;104;101;114;101]]] =
    [[182;23;49;134;85;5;114;100;226;139;192;182;251;55;140;142;241;70;190;0]; [182;23;49;134;85;5;114;100;226;139;192;182;251;55;140;142;241;70;190;0]] /\
  hmac_spec 64 md5_spec (repeat 170 80)
    [84;101;115;116;32;85;115;105;110;103;32;76;97;114;103;101;114;32;84;104;97;110;32;66;108;111;99;107;45;83;105;122;101;32;75;101;121;32;45;32;72;97;115;104;32;75;101;121;32;70;105;114;115;116] =
    [107;26;183;254;75;215;191;143;11;98;230;206;97;185;208;205] /\
  hmac_sha1_session (repeat 170 80)
    [[[84;101;115;116;32;85;115;105;110;103;32;76;97;114;103;101;114;32;84;104;97;110;32;66;108;111;99;107;45;83;105;122;101;32;75;101;121;32;45;32;72;97;115;104;32;75;101;121;32;70;105;114;115;116]]] =
    [[170;74;229;225;82;114;208;14;149;112;86;55;206;138;59;85;237;64;33;18]] /\
  hmac_spec 64 md5_spec (map N.of_nat (seq 0 64)) [97;98;99] = [160;215;43;223;166;233;205;58;86;230;96;236;168;146;191;176] /\
  hmac_spec 64 sha1_spec (map N.of_nat (seq 0 64)) [97;98;99] = [137;227;146;133;45;166;182;71;73;13;63;40;114;24;130;74;46;33;1;176].
Proof. vm_compute. repeat split; reflexivity. Qed.

(* ---------------------------------------------------------------------------------------------
   4. CBC over any block cipher with D(E b) = b on 16-byte blocks (AES itself is library code).
      whole p: |p| is a multiple of 16.  The object keeps a running IV per direction across calls.
   --------------------------------------------------------------------------------------------- *)
Theorem cbc_inverse : forall (E Dc : list N -> list N),
  (forall b, length b = 16%nat -> length (E b) = 16%nat) ->
  (forall b, length b = 16%nat -> Dc (E b) = b) ->
  forall iv p, length iv = 16%nat -> (length p mod 16 = 0)%nat ->
  cbc_dec Dc iv (fst (cbc_enc E iv p)) = (p, snd (cbc_enc E iv p)).
Proof. exact cbc_inverse_lemma. Qed.
Print Assumptions cbc_inverse.

(* encrypt in any number of calls, decrypt with any other split into whole-block calls: plaintext back,
   and both objects end with the same running IV *)
Theorem cbc_inverse_any_call_split : forall (E Dc : list N -> list N),
  (forall b, length b = 16%nat -> length (E b) = 16%nat) ->
  (forall b, length b = 16%nat -> Dc (E b) = b) ->
  forall iv pcalls ccalls,
  length iv = 16%nat ->
  Forall (fun p => (length p mod 16 = 0)%nat) pcalls -> Forall (fun c => (length c mod 16 = 0)%nat) ccalls ->
  concat ccalls = fst (cbc_encrypt_calls E (cbc_set_iv iv) pcalls) ->
  fst (cbc_decrypt_calls Dc (cbc_set_iv iv) ccalls) = concat pcalls /\
  c_iv_dec (snd (cbc_decrypt_calls Dc (cbc_set_iv iv) ccalls)) = c_iv_enc (snd (cbc_encrypt_calls E (cbc_set_iv iv) pcalls)).
Proof. exact cbc_calls_inverse. Qed.
Print Assumptions cbc_inverse_any_call_split.

(* what the session code relies on (aes_encryptor.cpp decrypts with a zero IV and throws the first block away):
   the IV enters the first plaintext block only *)
Theorem cbc_dec_iv_only_in_first_block : forall (Dc : list N -> list N) iv c, (16 <= length c)%nat ->
  cbc_dec Dc iv c = (xor_bytes (Dc (firstn 16 c)) iv ++ fst (cbc_dec Dc (firstn 16 c) (skipn 16 c)),
                     snd (cbc_dec Dc (firstn 16 c) (skipn 16 c))).
Proof. exact cbc_dec_first_block. Qed.
Print Assumptions cbc_dec_iv_only_in_first_block.

Theorem cbc_dec_blocks_2_to_n_iv_independent : forall (Dc : list N -> list N),
  (forall b, length b = 16%nat -> length (Dc b) = 16%nat) ->
  forall iv1 iv2 c, length iv1 = 16%nat -> length iv2 = 16%nat -> (16 <= length c)%nat ->
  skipn 16 (fst (cbc_dec Dc iv1 c)) = skipn 16 (fst (cbc_dec Dc iv2 c)) /\
  snd (cbc_dec Dc iv1 c) = snd (cbc_dec Dc iv2 c).
Proof. exact cbc_dec_iv_independent. Qed.
Print Assumptions cbc_dec_blocks_2_to_n_iv_independent.

(* non-vacuity: a toy invertible block cipher (add 1 / subtract 1 mod 256 on every byte), two blocks, calls 1+1 vs 2 *)
Example cbc_nonvacuous :
  let E := map (fun b => (b + 1) mod 256) in
  let Dc := map (fun b => (b + 255) mod 256) in
  let iv := map N.of_nat (seq 100 16) in
  let p1 := map N.of_nat (seq 0 16) in
  let p2 := repeat 255 16 in
  fst (cbc_encrypt_calls E (cbc_set_iv iv) [p1; p2]) <> p1 ++ p2 /\
  fst (cbc_decrypt_calls Dc (cbc_set_iv iv) [fst (cbc_encrypt_calls E (cbc_set_iv iv) [p1; p2])]) = p1 ++ p2 /\
  skipn 16 (fst (cbc_dec Dc (repeat 0 16) (fst (cbc_enc E iv (p1 ++ p2))))) = p2.
Proof. vm_compute. repeat split; try reflexivity. discriminate. Qed.

(* ---------------------------------------------------------------------------------------------
   5. key::set_hex accepts exactly the even-length hexadecimal strings (both directions, both error
      classes) and inverts the lower-case hex writer used by cppcms_make_key
   --------------------------------------------------------------------------------------------- *)
Theorem key_hex_accepts_exactly : forall s,
  (exists k, set_hex s = KeyOk k) <-> (N.even (len s) = true /\ forallb is_hex s = true).
Proof. exact set_hex_accepts. Qed.
Print Assumptions key_hex_accepts_exactly.
Theorem key_hex_rejections : forall s,
  (set_hex s = KeyOddLength <-> N.odd (len s) = true) /\
  (set_hex s = KeyBadChar <-> (N.odd (len s) = false /\ forallb is_hex s = false)).
Proof. exact set_hex_rejects. Qed.
Print Assumptions key_hex_rejections.
Theorem key_hex_roundtrip : forall k, Forall (fun b => b < 256) k -> set_hex (to_hex k) = KeyOk k.
Proof. exact set_hex_to_hex. Qed.
Print Assumptions key_hex_roundtrip.
(* read_from_file: blanks (space, LF, CR, TAB) at the end of the file are ignored and nothing else is; a file of blanks only
   gives the empty key (an empty file is refused) *)
Theorem key_file_trailing_blanks_ignored : forall s c ws,
  is_ws c = false -> forallb is_ws ws = true -> key_from_file ((s ++ [c]) ++ ws) = set_hex (s ++ [c]).
Proof. exact key_from_file_strips. Qed.
Print Assumptions key_file_trailing_blanks_ignored.
Theorem key_file_of_blanks_is_empty_key : forall ws, ws <> [] -> forallb is_ws ws = true -> key_from_file ws = KeyOk [].
Proof. exact key_from_file_all_blank. Qed.
Print Assumptions key_file_of_blanks_is_empty_key.
Example key_hex_nonvacuous :
  set_hex [48;49;65;102] = KeyOk [1; 175] /\ set_hex [48;49;65] = KeyOddLength /\ set_hex [48;103] = KeyBadChar /\
  to_hex [1; 175] = [48;49;97;102] /\
  key_from_file [48;49;65;102;10;32] = KeyOk [1; 175] /\ key_from_file [32;48;49;50] = KeyBadChar /\ key_from_file [] = KeyEmptyFile.
Proof. vm_compute. repeat split; reflexivity. Qed.

(* ---------------------------------------------------------------------------------------------
   6. the wrappers around the primitives: which calls a cbc object serves, name dispatch
   --------------------------------------------------------------------------------------------- *)
(* encrypt/decrypt after any sequence of calls is served iff a key of exactly key_size() bytes and an IV
   (16 bytes, or a nonce IV) were given at some point before; otherwise it is refused (no output is produced).
   key_size() is 16, 24 or 32: 0 < ks *)
Theorem cbc_served_iff_key_and_iv : forall ks before, 0 < ks ->
  fst (cbc_ctl_step ks (cbc_ctl_state ks (false, false) before) OpEnc) = StOk <-> (keyed ks before = true /\ ived before = true).
Proof. exact cbc_ctl_served. Qed.
Print Assumptions cbc_served_iff_key_and_iv.
(* once a key is in place, every further set_key - whatever the size of the key it offers - is answered with the
   set-key-twice error and changes nothing; and that answer is given to nothing else *)
Theorem cbc_second_set_key_refused : forall ks i n, cbc_ctl_step ks (true, i) (OpKey n) = (StKeyTwice, (true, i)).
Proof. exact cbc_ctl_key_twice. Qed.
Print Assumptions cbc_second_set_key_refused.
Theorem cbc_set_key_twice_answer_only_then : forall ks st op,
  fst (cbc_ctl_step ks st op) = StKeyTwice -> fst st = true /\ exists n, op = OpKey n.
Proof. exact cbc_ctl_key_twice_only. Qed.
Print Assumptions cbc_set_key_twice_answer_only_then.

(* The whole object, key material included (obj_step: key_, the lazily expanded key_enc_ / key_dec_, iv_initialized_, the two
   running IVs), over ANY family of block functions E k, Dc k and for EVERY sequence of set_key / set_iv / set_nonce_iv /
   encrypt / decrypt calls with any operands, from a new object: its answers - status of every call and the bytes of every
   encrypt / decrypt - are those of an object that was given ONE key at birth, namely the first offered key of the right size.
   No premise about the order of calls, about when the key schedules are expanded or about the offered keys: every
   encrypt/decrypt that is served is CBC under that one key. *)
Theorem cbc_object_uses_the_one_key_it_was_given : forall (E Dc : list N -> list N -> list N) ks, 0 < ks -> forall ops,
  obj_run E Dc ks obj_new ops = ref_run E Dc ks (first_key ks ops) ref_new ops.
Proof. exact obj_refines_ref. Qed.
Print Assumptions cbc_object_uses_the_one_key_it_was_given.
(* the key bytes (and sizes) offered by set_key calls after the first accepted one cannot influence any answer *)
Theorem cbc_object_later_keys_irrelevant : forall (E Dc : list N -> list N -> list N) ks, 0 < ks -> forall a b,
  same_but_later_keys ks false a b -> obj_run E Dc ks obj_new a = obj_run E Dc ks obj_new b.
Proof. exact (fun E Dc ks H a b => obj_later_keys_irrelevant E Dc ks H a b false (mk_cbc (repeat 0 16) (repeat 0 16))). Qed.
Print Assumptions cbc_object_later_keys_irrelevant.
(* the statuses of the whole object are those of the status machine (the part that is extracted and run against the
   implementation) on the shapes of the operations *)
Theorem cbc_object_statuses : forall (E Dc : list N -> list N -> list N) ks ops,
  map fst (obj_run E Dc ks obj_new ops) = cbc_ctl_run ks (false, false) (map op_shape ops).
Proof. exact (fun E Dc ks ops => obj_run_statuses E Dc ks ops obj_new). Qed.
Print Assumptions cbc_object_statuses.
(* cbc::create(name) only makes objects with key_size() 16, 24 or 32: the premise 0 < ks above always holds *)
Theorem cbc_by_name_key_sizes : forall n ks, cbc_by_name n = Some ks -> (ks = 16 \/ ks = 24 \/ ks = 32) /\ 0 < ks.
Proof. exact cbc_by_name_sizes. Qed.
Print Assumptions cbc_by_name_key_sizes.
(* two nodes: one object is keyed, given the IV and encrypts in any number of calls (a later set_key with any other key K2 in
   between is refused and harmless); another object with the same key and IV decrypts the ciphertext in any other split
   into whole-block calls: the plaintext comes back *)
Theorem cbc_object_two_nodes_roundtrip : forall (E Dc : list N -> list N -> list N) ks, 0 < ks ->
  (forall k b, length b = 16%nat -> length (E k b) = 16%nat) ->
  (forall k b, length b = 16%nat -> Dc k (E k b) = b) ->
  forall K K2 iv pcalls ccalls,
  len K = ks -> length iv = 16%nat ->
  Forall (fun p => (length p mod 16 = 0)%nat) pcalls -> Forall (fun c => (length c mod 16 = 0)%nat) ccalls ->
  concat ccalls = outputs (obj_run E Dc ks obj_new (OKey K :: OIv iv :: OKey K2 :: map (@OEnc) pcalls)) ->
  outputs (obj_run E Dc ks obj_new (OKey K :: OIv iv :: map (@ODec) ccalls)) = concat pcalls.
Proof. exact obj_two_nodes_roundtrip. Qed.
Print Assumptions cbc_object_two_nodes_roundtrip.
(* regression example for the repaired defect (src/aes.cpp set_key built the set-key-twice error without throwing it; the
   second key replaced key_ while the expanded schedules stayed those of the first): toy cipher "add the first key byte".
   set_key k1, set_iv, encrypt, set_key k2, set_iv, encrypt: the second set_key is refused, both encryptions give the same
   ciphertext (that of k1), and an object holding k1 decrypts it; under k2 the ciphertext would be different. *)
Example cbc_object_rekey_regression :
  let E := fun k => map (fun b => (b + hd 0 k) mod 256) in
  let Dc := fun k => map (fun b => (b + 256 - hd 0 k mod 256) mod 256) in
  let k1 := repeat 3 16 in let k2 := repeat 9 16 in
  let iv := map N.of_nat (seq 100 16) in
  let p := map N.of_nat (seq 0 16) in
  let c := fst (cbc_enc (E k1) iv p) in
  obj_run E Dc 16 obj_new [OKey k1; OIv iv; OEnc p; OKey k2; OIv iv; OEnc p] =
    [(StOk, []); (StOk, []); (StOk, c); (StKeyTwice, []); (StOk, []); (StOk, c)] /\
  obj_run E Dc 16 obj_new [OKey k1; OIv iv; ODec c] = [(StOk, []); (StOk, []); (StOk, p)] /\
  fst (cbc_enc (E k2) iv p) <> c /\
  first_key 16 [OKey (repeat 1 15); OEnc p; OKey k1; OKey k2] = k1 /\
  obj_run E Dc 16 obj_new [OKey k2; OKey k1; OKey []; OKey (repeat 1 17)] = [(StOk, []); (StKeyTwice, []); (StKeyTwice, []); (StKeyTwice, [])].
Proof. vm_compute. repeat split; try reflexivity. discriminate. Qed.
(* create_by_name is case-insensitive, answers with the canonical name, and every digest it can return has
   digest_size <= block_size in {64,128} - the premise dsz <= B of hmac_rfc2104 *)
Theorem digest_by_name_case_insensitive : forall n, digest_by_name (map lower n) = digest_by_name n.
Proof. exact digest_by_name_fold. Qed.
Print Assumptions digest_by_name_case_insensitive.
Theorem digest_by_name_sizes : forall n nm d b, digest_by_name n = Some (nm, d, b) ->
  d <= b /\ (b = 64 \/ b = 128) /\ digest_by_name nm = Some (nm, d, b).
Proof. exact digest_by_name_table. Qed.
Print Assumptions digest_by_name_sizes.
Example wrappers_nonvacuous :
  digest_by_name [83;72;65;51;56;52] = Some ([115;104;97;51;56;52], 48, 128) /\ digest_by_name [109;100;52] = None /\
  cbc_by_name [65;69;83;45;50;53;54] = Some 32 /\ cbc_by_name [97;101;115] = Some 16 /\ cbc_by_name [65;101;115;49;50;56] = None /\
  cbc_ctl_run 16 (false, false) [OpEnc; OpKey 15; OpKey 16; OpDec; OpIv 16; OpEnc; OpKey 16; OpKey 0; OpEnc] =
    [StNoKey; StBadKeySize; StOk; StNoIv; StOk; StOk; StKeyTwice; StKeyTwice; StOk].
Proof. vm_compute. repeat split; reflexivity. Qed.

(* ---------------------------------------------------------------------------------------------
   7. the session encryptors built on the primitives (hmac_encryptor.cpp, aes_encryptor.cpp), over an abstract MAC
      (the hmac object under the mac key, |mac m| = dsz) and an abstract block cipher: what one node writes, every
      node with the same keys reads back - whatever its running IVs are (set_nonce_iv gives each object its own) -
      and nothing but a body followed by its own MAC is accepted.  Model tied to the code by reading + the sess oracle.
   --------------------------------------------------------------------------------------------- *)
Theorem hmac_cipher_roundtrip : forall (mac : list N -> list N) (dsz : nat),
  (forall m, length (mac m) = dsz) -> forall p, hc_decrypt mac dsz (hc_encrypt mac p) = Some p.
Proof. exact hc_roundtrip. Qed.
Print Assumptions hmac_cipher_roundtrip.
Theorem hmac_cipher_accepts_only_own_output : forall (mac : list N -> list N) (dsz : nat),
  (forall m, length (mac m) = dsz) -> forall c p, hc_decrypt mac dsz c = Some p -> c = hc_encrypt mac p.
Proof. exact hc_accepts_only_own_output. Qed.
Print Assumptions hmac_cipher_accepts_only_own_output.
Theorem aes_cipher_roundtrip_any_ivs : forall (mac : list N -> list N) (dsz : nat),
  (forall m, length (mac m) = dsz) ->
  forall E Dc : list N -> list N,
  (forall b, length b = 16%nat -> length (E b) = 16%nat) ->
  (forall b, length b = 16%nat -> length (Dc b) = 16%nat) ->
  (forall b, length b = 16%nat -> Dc (E b) = b) ->
  forall iv_enc iv_dec p, length iv_enc = 16%nat -> length iv_dec = 16%nat -> len p < 4294967296 ->
  fst (ac_decrypt mac dsz Dc iv_dec (fst (ac_encrypt mac E iv_enc p))) = Some p.
Proof. exact ac_roundtrip. Qed.
Print Assumptions aes_cipher_roundtrip_any_ivs.
Theorem aes_cipher_accepts_only_authentic : forall (mac : list N -> list N) (dsz : nat),
  (forall m, length (mac m) = dsz) ->
  forall (Dc : list N -> list N) iv c p, fst (ac_decrypt mac dsz Dc iv c) = Some p ->
  mac (firstn (length c - dsz) c) = skipn (length c - dsz) c /\ (32 <= length c - dsz)%nat /\ ((length c - dsz) mod 16 = 0)%nat.
Proof. exact ac_accepts_only_authentic. Qed.
Print Assumptions aes_cipher_accepts_only_authentic.
(* toy cipher and toy MAC (sum of the bytes, 1 byte): 5-byte text -> 32-byte body + 1; other IV on the reading side *)
Example session_nonvacuous :
  let E := map (fun b => (b + 1) mod 256) in
  let Dc := map (fun b => (b + 255) mod 256) in
  let mac := fun m => [fold_left N.add m 0 mod 256] in
  let c := fst (ac_encrypt mac E (map N.of_nat (seq 1 16)) [104;101;108;108;111]) in
  length c = 33%nat /\
  fst (ac_decrypt mac 1 Dc (repeat 7 16) c) = Some [104;101;108;108;111] /\
  fst (ac_decrypt mac 1 Dc (repeat 7 16) (removelast c ++ [0])) = None /\
  hc_decrypt mac 1 (hc_encrypt mac [1;2;3]) = Some [1;2;3] /\ hc_decrypt mac 1 [1;2;3;7] = None.
Proof. vm_compute. repeat split; reflexivity. Qed.

(* ---------------------------------------------------------------------------------------------
   8. the block cipher itself, written from FIPS-197 (coq/C16/AesDefs.v: field arithmetic, S-box by formula, key expansion for
      the three key sizes, Cipher and InvCipher).  AES is library code for /repo (OpenSSL); this instance makes the extracted
      cbc object model compute the very bytes the wrapper of src/aes.cpp must produce (correspondence on cbc / cbcobj cases).
   --------------------------------------------------------------------------------------------- *)
(* InvCipher inverts Cipher: for EVERY key of at least four bytes (16, 24 and 32 are in use) and EVERY block of 16 bytes.
   Proof: S-box and inverse S-box by a 256-point sweep, ShiftRows by computation, InvMixColumns o MixColumns by linearity of
   the six constant multiplications (65536-point sweeps) and sixteen single-byte identities, the round structure by induction
   over ANY list of well-formed round keys, well-formedness of the expanded key by induction over the expansion loop. *)
Theorem aes_invcipher_inverts_cipher : forall key b,
  Forall (fun x => x < 256) key -> (4 <= length key)%nat -> length b = 16%nat -> Forall (fun x => x < 256) b ->
  aes_dec key (aes_enc key b) = b /\ length (aes_enc key b) = 16%nat /\ Forall (fun x => x < 256) (aes_enc key b).
Proof. exact aes_inverse_lemma. Qed.
Print Assumptions aes_invcipher_inverts_cipher.
(* the property sentence itself, closed, for the FIPS-197 cipher: AES-CBC decryption after encryption with the same key and
   IV is the identity on whole blocks (and both sides end with the same running IV) *)
Theorem aes_cbc_decrypt_inverts_encrypt : forall key iv p,
  Forall (fun x => x < 256) key -> (4 <= length key)%nat ->
  length iv = 16%nat -> Forall (fun x => x < 256) iv -> (length p mod 16 = 0)%nat -> Forall (fun x => x < 256) p ->
  cbc_dec (aes_D key) iv (fst (cbc_enc (aes_E key) iv p)) = (p, snd (cbc_enc (aes_E key) iv p)).
Proof. exact aes_cbc_inverse_lemma. Qed.
Print Assumptions aes_cbc_decrypt_inverts_encrypt.
(* two nodes with the real cipher, whole objects (set_key, set_iv, a refused later set_key K2 of any bytes, encrypt calls on one
   object; set_key, set_iv, decrypt calls in ANY other split on the other): no hypotheses left *)
Theorem aes_cbc_objects_two_nodes_roundtrip : forall ks K K2 iv pcalls ccalls,
  4 <= ks -> len K = ks -> Forall (fun x => x < 256) K -> length iv = 16%nat -> Forall (fun x => x < 256) iv ->
  Forall (fun p => (length p mod 16 = 0)%nat) pcalls -> Forall (fun x => x < 256) (concat pcalls) ->
  Forall (fun c => (length c mod 16 = 0)%nat) ccalls ->
  concat ccalls = outputs (aes_obj_run ks (OKey K :: OIv iv :: OKey K2 :: map (@OEnc) pcalls)) ->
  outputs (aes_obj_run ks (OKey K :: OIv iv :: map (@ODec) ccalls)) = concat pcalls.
Proof. exact aes_two_nodes_lemma. Qed.
Print Assumptions aes_cbc_objects_two_nodes_roundtrip.
(* the session cookie cipher of aes_encryptor.cpp with the REAL block cipher: what one aes_cipher object writes (running IV iv1 of
   its cbc object, whatever nonce it drew), every other object with the same keys reads back (its own running IV iv2).
   aes_cipher_roundtrip_any_ivs above asks D(E b) = b of all lists; here the cipher is FIPS-197 and nothing is assumed of it.
   First for any MAC function with dsz-byte digests, then closed for HMAC-SHA1 under any mac key (the configuration
   aes_factory(algo, key) sets up), hmac_spec being the function the hmac object is proved to compute (hmac_sha1_rfc2104). *)
Theorem aes_cipher_roundtrip_real_cipher : forall (mac : list N -> list N) (dsz : nat),
  (forall m, length (mac m) = dsz) ->
  forall key, Forall (fun x => x < 256) key -> (4 <= length key)%nat ->
  forall iv1 iv2 p, length iv1 = 16%nat -> Forall (fun x => x < 256) iv1 -> length iv2 = 16%nat ->
  Forall (fun x => x < 256) p -> len p < 4294967296 ->
  fst (ac_decrypt mac dsz (aes_D key) iv2 (fst (ac_encrypt mac (aes_E key) iv1 p))) = Some p.
Proof. exact ac_roundtrip_aes. Qed.
Print Assumptions aes_cipher_roundtrip_real_cipher.
Theorem session_cookie_aes_hmac_sha1_roundtrip : forall ck mk iv1 iv2 p,
  Forall (fun x => x < 256) ck -> (4 <= length ck)%nat -> length iv1 = 16%nat -> Forall (fun x => x < 256) iv1 ->
  length iv2 = 16%nat -> Forall (fun x => x < 256) p -> len p < 4294967296 ->
  let mac := hmac_spec 64 sha1_spec mk in
  fst (ac_decrypt mac 20 (aes_D ck) iv2 (fst (ac_encrypt mac (aes_E ck) iv1 p))) = Some p.
Proof. exact cookie_aes_hmac_sha1. Qed.
Print Assumptions session_cookie_aes_hmac_sha1_roundtrip.
(* FIPS-197 appendix C.1 - C.3 in both directions, last round key of appendix A.1 *)
Example aes_fips197_vectors :
  aes_enc (map N.of_nat (seq 0 16)) fips197_pt = [0x69;0xc4;0xe0;0xd8;0x6a;0x7b;0x04;0x30;0xd8;0xcd;0xb7;0x80;0x70;0xb4;0xc5;0x5a] /\
  aes_enc (map N.of_nat (seq 0 24)) fips197_pt = [0xdd;0xa9;0x7c;0xa4;0x86;0x4c;0xdf;0xe0;0x6e;0xaf;0x70;0xa0;0xec;0x0d;0x71;0x91] /\
  aes_enc (map N.of_nat (seq 0 32)) fips197_pt = [0x8e;0xa2;0xb7;0xca;0x51;0x67;0x45;0xbf;0xea;0xfc;0x49;0x90;0x4b;0x49;0x60;0x89] /\
  aes_dec (map N.of_nat (seq 0 16)) [0x69;0xc4;0xe0;0xd8;0x6a;0x7b;0x04;0x30;0xd8;0xcd;0xb7;0x80;0x70;0xb4;0xc5;0x5a] = fips197_pt /\
  aes_dec (map N.of_nat (seq 0 24)) [0xdd;0xa9;0x7c;0xa4;0x86;0x4c;0xdf;0xe0;0x6e;0xaf;0x70;0xa0;0xec;0x0d;0x71;0x91] = fips197_pt /\
  aes_dec (map N.of_nat (seq 0 32)) [0x8e;0xa2;0xb7;0xca;0x51;0x67;0x45;0xbf;0xea;0xfc;0x49;0x90;0x4b;0x49;0x60;0x89] = fips197_pt /\
  last (key_expansion [0x2b;0x7e;0x15;0x16;0x28;0xae;0xd2;0xa6;0xab;0xf7;0x15;0x88;0x09;0xcf;0x4f;0x3c]) [] =
    [0xd0;0x14;0xf9;0xa8;0xc9;0xee;0x25;0x89;0xe1;0x3f;0x0c;0xc8;0xb6;0x63;0x0c;0xa6].
Proof. exact aes_kat_fips197. Qed.
(* NIST SP 800-38A F.2.1 (CBC-AES128.Encrypt, first two blocks) through the OBJECT model, with a refused second set_key between
   the two encrypt calls, and F.2.2 back through a second object *)
Example aes_cbc_object_sp800_38a :
  let key := [0x2b;0x7e;0x15;0x16;0x28;0xae;0xd2;0xa6;0xab;0xf7;0x15;0x88;0x09;0xcf;0x4f;0x3c] in
  let iv := map N.of_nat (seq 0 16) in
  let p1 := [0x6b;0xc1;0xbe;0xe2;0x2e;0x40;0x9f;0x96;0xe9;0x3d;0x7e;0x11;0x73;0x93;0x17;0x2a] in
  let p2 := [0xae;0x2d;0x8a;0x57;0x1e;0x03;0xac;0x9c;0x9e;0xb7;0x6f;0xac;0x45;0xaf;0x8e;0x51] in
  let c1 := [0x76;0x49;0xab;0xac;0x81;0x19;0xb2;0x46;0xce;0xe9;0x8e;0x9b;0x12;0xe9;0x19;0x7d] in
  let c2 := [0x50;0x86;0xcb;0x9b;0x50;0x72;0x19;0xee;0x95;0xdb;0x11;0x3a;0x91;0x76;0x78;0xb2] in
  aes_obj_run 16 [OKey key; OIv iv; OEnc p1; OKey (repeat 7 16); OEnc p2] =
    [(StOk, []); (StOk, []); (StOk, c1); (StKeyTwice, []); (StOk, c2)] /\
  aes_obj_run 16 [OKey key; OIv iv; ODec (c1 ++ c2)] = [(StOk, []); (StOk, []); (StOk, p1 ++ p2)].
Proof. vm_compute. split; reflexivity. Qed.
(* a cookie through the model with the real cipher and HMAC-SHA1: 5-byte text -> 32-byte body + 20; read back with another IV;
   one flipped bit is refused *)
Example session_cookie_real_cipher_nonvacuous :
  let ck := map N.of_nat (seq 0 16) in let mk := repeat 11 20 in
  let mac := hmac_spec 64 sha1_spec mk in
  let c := fst (ac_encrypt mac (aes_E ck) (map N.of_nat (seq 1 16)) [104;101;108;108;111]) in
  length c = 52%nat /\
  fst (ac_decrypt mac 20 (aes_D ck) (repeat 7 16) c) = Some [104;101;108;108;111] /\
  fst (ac_decrypt mac 20 (aes_D ck) (repeat 7 16) (removelast c ++ [N.lxor (last c 0) 1])) = None.
Proof. vm_compute. repeat split; reflexivity. Qed.

(* ---------------------------------------------------------------------------------------------
   9. SHA-2 written from FIPS 180-4 (coq/C16/Sha2Defs.v; round constants and initial values COMPUTED from their definition:
      fractional parts of cube / square roots of the first primes).  The OpenSSL-backed wrappers ssl_sha224 .. ssl_sha512 and the
      hmac objects over them are run against these functions (correspondence on a fixed sample of the dg / hm lines).
      Known answers: FIPS 180 "abc" for the four functions, the empty message, a 112-byte message (two SHA-512 blocks of padding
      boundary), RFC 4231 test case 1 (HMAC) through hmac_spec.
   --------------------------------------------------------------------------------------------- *)
Example sha2_constants_by_definition :
  nth 0 K256 0 = 0x428a2f98 /\ nth 63 K256 0 = 0xc67178f2 /\ nth 0 H256 0 = 0x6a09e667 /\ nth 7 H256 0 = 0x5be0cd19 /\
  nth 0 H224 0 = 0xc1059ed8 /\ nth 0 K512 0 = 0x428a2f98d728ae22 /\ nth 79 K512 0 = 0x6c44198c4a475817 /\
  nth 0 H512 0 = 0x6a09e667f3bcc908 /\ nth 0 H384 0 = 0xcbbb9d5dc1059ed8 /\ length K256 = 64%nat /\ length K512 = 80%nat.
Proof. vm_compute. repeat split; reflexivity. Qed.
Example sha2_kat_fips180 :
  sha224_spec [97;98;99] = [35;9;125;34;52;5;216;34;134;66;164;119;189;162;85;179;42;173;188;228;189;160;179;247;227;108;157;167] /\
  sha224_spec [] = [209;74;2;140;42;58;43;201;71;97;2;187;40;130;52;196;21;162;176;31;130;142;166;42;197;179;228;47] /\
  sha256_spec [97;98;99] = [186;120;22;191;143;1;207;234;65;65;64;222;93;174;34;35;176;3;97;163;150;23;122;156;180;16;255;97;242;0;21;173] /\
  sha256_spec [] = [227;176;196;66;152;252;28;20;154;251;244;200;153;111;185;36;39;174;65;228;100;155;147;76;164;149;153;27;120;82;184;85] /\
  sha384_spec [97;98;99] = [203;0;117;63;69;163;94;139;181;160;61;105;154;198;80;7;39;44;50;171;14;222;209;99;26;139;96;90;67;255;91;237;128;134;7;43;161;231;204;35;88;186;236;161;52;200;37;167] /\
  sha384_spec [] = [56;176;96;167;81;172;150;56;76;217;50;126;177;177;227;106;33;253;183;17;20;190;7;67;76;12;199;191;99;246;225;218;39;78;222;191;231;111;101;251;213;26;210;241;72;152;185;91] /\
  sha512_spec [97;98;99] = [221;175;53;161;147;97;122;186;204;65;115;73;174;32;65;49;18;230;250;78;137;169;126;162;10;158;238;230;75;85;211;154;33;146;153;42;39;79;193;168;54;186;60;35;163;254;235;189;69;77;68;35;100;60;232;14;42;154;201;79;165;76;164;159] /\
  sha512_spec [] = [207;131;225;53;126;239;184;189;241;84;40;80;214;109;128;7;214;32;228;5;11;87;21;220;131;244;169;33;211;108;233;206;71;208;209;60;93;133;242;176;255;131;24;210;135;126;236;47;99;185;49;189;71;65;122;129;165;56;50;122;249;39;218;62] /\
  sha512_spec [97;98;99;100;101;102;103;104;98;99;100;101;102;103;104;105;99;100;101;102;103;104;105;106;100;101;102;103;104;105;106;107;101;102;103;104;105;106;107;108;102;103;104;105;106;107;108;109;103;104;105;106;107;108;109;110;104;105;106;107;108;109;110;111;105;106;107;108;109;110;111;112;106;107;108;109;110;111;112;113;107;108;109;110;111;112;113;114;108;109;110;111;112;113;114;115;109;110;111;112;113;114;115;116;110;111;112;113;114;115;116;117] = [142;149;155;117;218;227;19;218;140;244;247;40;20;252;20;63;143;119;121;198;235;159;127;161;114;153;174;173;182;136;144;24;80;29;40;158;73;0;247;228;51;27;153;222;196;181;67;58;199;211;41;238;182;221;38;84;94;150;229;91;135;75;233;9] /\
  sha256_spec [97;98;99;100;101;102;103;104;98;99;100;101;102;103;104;105;99;100;101;102;103;104;105;106;100;101;102;103;104;105;106;107;101;102;103;104;105;106;107;108;102;103;104;105;106;107;108;109;103;104;105;106;107;108;109;110] = [7;140;13;252;50;120;253;119;89;146;15;92;202;148;198;213;93;178;198;148;81;15;110;38;168;254;92;91;80;164;244;23] /\
  hmac_spec 64 sha256_spec (repeat 11 20) [72;105;32;84;104;101;114;101] = [176;52;76;97;216;219;56;83;92;168;175;206;175;11;241;43;136;29;194;0;201;131;61;167;38;233;55;108;46;50;207;247] /\
  hmac_spec 128 sha512_spec (repeat 11 20) [72;105;32;84;104;101;114;101] = [135;170;124;222;165;239;97;157;79;240;180;36;26;29;108;176;35;121;244;226;206;78;194;120;122;208;179;5;69;225;124;222;218;168;51;183;214;184;167;2;3;139;39;78;174;163;244;228;190;157;145;78;235;97;241;112;46;105;108;32;58;18;104;84] /\
  hmac_spec 128 sha384_spec (repeat 170 131) [72;105;32;84;104;101;114;101] = [52;114;240;129;120;75;114;122;137;157;241;252;18;164;121;151;53;156;205;212;111;108;117;157;72;245;193;133;226;168;85;220;65;69;13;163;81;183;160;134;41;62;56;34;150;146;141;96].
Proof. vm_compute. repeat split; reflexivity. Qed.
