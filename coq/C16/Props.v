From CppcmsV Require Import Base.Tac C16.Defs.
Local Open Scope N_scope.
Theorem placeholder_kat : md5_spec [97;98;99] = [144; 1; 80; 152; 60; 210; 79; 176; 214; 150; 63; 125; 40; 225; 127; 114].
Proof. vm_compute. reflexivity. Qed.
Print Assumptions placeholder_kat.
