(* C16 -- digests, HMAC and CBC ciphers compute the standard functions for all inputs.
   Only property theorems here, each closed by `exact <lemma>`; proofs are in the other files of coq/C16.
   Bytes are N, byte strings list N, a message is fed as a list of chunks (one per append call). *)
From CppcmsV Require Import Base.Tac C16.Defs C16.Blocks C16.ProofsMd5 C16.ProofsMd5Fin C16.ProofsSha1.
Local Open Scope N_scope.

(* ---------------------------------------------------------------------------------------------
   1. streaming = one-shot standard function, for every chunking (empty chunks included).
      MD5: every chunk shorter than 2^31 bytes (the int nbytes parameter of md5_append; the wrapper
      truncates size_t to int, see md5_chunk_outside_domain_dropped).  The total length is not bounded:
      the two-word bit counter of the code and the 64-bit length field of RFC 1321 both wrap mod 2^64.
      SHA-1: no bound in the model (size_t counters, 64-bit length field as in FIPS 180-4, which defines
      the function for messages shorter than 2^61 bytes; beyond that sha1_spec wraps the length like the code).
   --------------------------------------------------------------------------------------------- *)
Theorem md5_stream : forall chunks,
  Forall (fun c => len c < 2147483648) chunks ->
  fst (md5_obj_readout (fold_left md5_obj_append chunks md5_new)) = md5_spec (concat chunks).
Proof. exact md5_stream_lemma. Qed.
Print Assumptions md5_stream.

Theorem sha1_stream : forall chunks,
  fst (sha1_obj_readout (fold_left sha1_obj_append chunks sha1_new)) = sha1_spec (concat chunks).
Proof. exact sha1_stream_lemma. Qed.
Print Assumptions sha1_stream.

(* the compression function and initial value the MD5 code uses (T_MASK ^ x constants, 64 SET lines in
   source order) are those of RFC 1321 section 3.4 (index and shift formulas, T table) *)
Theorem md5_tables_are_rfc1321 : md5_process = md5_compress_spec /\ md5_abcd0 = md5_iv_rfc.
Proof. exact (conj md5_process_rfc md5_abcd0_rfc). Qed.
Print Assumptions md5_tables_are_rfc1321.

(* the or-forms of the round functions in sha1.h are the xor-forms of FIPS 180-4 section 4.1.1 *)
Theorem sha1_round_functions_are_fips : forall x y z, x < 4294967296 ->
  N.lor (N.land x y) (N.land (not32 x) z) = fips_Ch x y z /\
  N.lor (N.lor (N.land x y) (N.land x z)) (N.land y z) = fips_Maj x y z.
Proof. exact (fun x y z H => conj (ch_or_xor x y z H) (maj_or_xor x y z)). Qed.
Print Assumptions sha1_round_functions_are_fips.

(* a chunk of 2^31 .. 2^32-1 bytes is silently ignored by md5_digets::append (int conversion): outside the domain *)
Theorem md5_chunk_outside_domain_dropped : forall st data,
  2147483648 <= len data < 4294967296 -> md5_obj_append st data = st.
Proof. exact md5_obj_append_big. Qed.
Print Assumptions md5_chunk_outside_domain_dropped.

(* ---------------------------------------------------------------------------------------------
   2. reusable: after readout the object is as good as new - k messages in a row through ONE object
      each get the digest of their own bytes (whatever was hashed before, whatever is left in the buffer)
   --------------------------------------------------------------------------------------------- *)
Theorem md5_reusable : forall msgs,
  Forall (Forall (fun c => len c < 2147483648)) msgs ->
  md5_session msgs = map (fun chunks => md5_spec (concat chunks)) msgs.
Proof. exact md5_session_lemma. Qed.
Print Assumptions md5_reusable.

Theorem sha1_reusable : forall msgs,
  sha1_session msgs = map (fun chunks => sha1_spec (concat chunks)) msgs.
Proof. exact sha1_session_lemma. Qed.
Print Assumptions sha1_reusable.

(* registers and counters equal those of a new object after every readout, from ANY state *)
Theorem md5_readout_reinitialises : forall st,
  let st' := snd (md5_obj_readout st) in
  m_count0 st' = 0 /\ m_count1 st' = 0 /\ m_abcd st' = md5_abcd0.
Proof. exact md5_obj_readout_state. Qed.
Print Assumptions md5_readout_reinitialises.

Theorem sha1_readout_reinitialises : forall st,
  let st' := snd (sha1_obj_readout st) in
  s_h st' = sha1_h0 /\ s_idx st' = 0 /\ s_count st' = 0.
Proof. exact sha1_obj_readout_state. Qed.
Print Assumptions sha1_readout_reinitialises.

(* non-vacuity + known answers (tests of the specification; RFC 1321 A.5, FIPS 180 examples).
   "abc" fed as a | empty | bc through the object, then the empty message through the same object. *)
Example md5_stream_nonvacuous :
  md5_session [[[97]; []; [98; 99]]; []] =
  [[0x90;0x01;0x50;0x98;0x3c;0xd2;0x4f;0xb0;0xd6;0x96;0x3f;0x7d;0x28;0xe1;0x7f;0x72];
   [0xd4;0x1d;0x8c;0xd9;0x8f;0x00;0xb2;0x04;0xe9;0x80;0x09;0x98;0xec;0xf8;0x42;0x7e]].
Proof. vm_compute. reflexivity. Qed.
Example md5_spec_kat_rfc1321 :
  md5_spec [] = [0xd4;0x1d;0x8c;0xd9;0x8f;0x00;0xb2;0x04;0xe9;0x80;0x09;0x98;0xec;0xf8;0x42;0x7e] /\
  md5_spec [97] = [0x0c;0xc1;0x75;0xb9;0xc0;0xf1;0xb6;0xa8;0x31;0xc3;0x99;0xe2;0x69;0x77;0x26;0x61] /\
  md5_spec [97;98;99] = [0x90;0x01;0x50;0x98;0x3c;0xd2;0x4f;0xb0;0xd6;0x96;0x3f;0x7d;0x28;0xe1;0x7f;0x72] /\
  (* "message digest" *)
  md5_spec [109;101;115;115;97;103;101;32;100;105;103;101;115;116] =
    [0xf9;0x6b;0x69;0x7d;0x7c;0xb7;0x93;0x8d;0x52;0x5a;0x2f;0x31;0xaa;0xf1;0x61;0xd0] /\
  (* 8 times "1234567890": 80 bytes, two blocks *)
  md5_spec (concat (repeat [49;50;51;52;53;54;55;56;57;48] 8)) =
    [0x57;0xed;0xf4;0xa2;0x2b;0xe3;0xc9;0x55;0xac;0x49;0xda;0x2e;0x21;0x07;0xb6;0x7a].
Proof. vm_compute. repeat split; reflexivity. Qed.
Example sha1_stream_nonvacuous :
  sha1_session [[[97]; []; [98; 99]]; []] =
  [[0xa9;0x99;0x3e;0x36;0x47;0x06;0x81;0x6a;0xba;0x3e;0x25;0x71;0x78;0x50;0xc2;0x6c;0x9c;0xd0;0xd8;0x9d];
   [0xda;0x39;0xa3;0xee;0x5e;0x6b;0x4b;0x0d;0x32;0x55;0xbf;0xef;0x95;0x60;0x18;0x90;0xaf;0xd8;0x07;0x09]].
Proof. vm_compute. reflexivity. Qed.
Example sha1_spec_kat_fips180 :
  sha1_spec [97;98;99] =
    [0xa9;0x99;0x3e;0x36;0x47;0x06;0x81;0x6a;0xba;0x3e;0x25;0x71;0x78;0x50;0xc2;0x6c;0x9c;0xd0;0xd8;0x9d] /\
  (* "abcdbcdecdefdefgefghfghighijhijkijkljklmklmnlmnomnopnopq": 56 bytes, the padding spills into a second block *)
  sha1_spec [97;98;99;100;98;99;100;101;99;100;101;102;100;101;102;103;101;102;103;104;102;103;104;105;103;104;105;106;
             104;105;106;107;105;106;107;108;106;107;108;109;107;108;109;110;108;109;110;111;109;110;111;112;110;111;112;113] =
    [0x84;0x98;0x3e;0x44;0x1c;0x3b;0xd2;0x6e;0xba;0xae;0x4a;0xa1;0xf9;0x51;0x29;0xe5;0xe5;0x46;0x70;0xf1].
Proof. vm_compute. repeat split; reflexivity. Qed.
