(* C16 -- digests, HMAC and CBC ciphers compute the standard functions for all inputs.
   Only property theorems here, each closed by `exact <lemma>`; proofs are in the other files of coq/C16.
   Bytes are N, byte strings list N, a message is fed as a list of chunks (one per append call). *)
From CppcmsV Require Import Base.Tac C16.Defs C16.Blocks C16.ProofsMd5 C16.ProofsMd5Fin C16.ProofsSha1 C16.ProofsSha1Fips C16.ProofsHmac C16.ProofsCbc C16.ProofsSess.
Local Open Scope N_scope.

(* ---------------------------------------------------------------------------------------------
   1. streaming = one-shot standard function, for every chunking (empty chunks included).
      MD5: every chunk shorter than 2^31 bytes (the int nbytes parameter of md5_append; the wrapper
      truncates size_t to int, see md5_chunk_outside_domain_dropped).  The total length is not bounded:
      the two-word bit counter of the code and the 64-bit length field of RFC 1321 both wrap mod 2^64.
      SHA-1: no bound in the model (size_t counters, 64-bit length field as in FIPS 180-4, which defines
      the function for messages shorter than 2^61 bytes; beyond that sha1_spec wraps the length like the code).
   --------------------------------------------------------------------------------------------- *)
Theorem md5_stream : forall chunks,
  Forall (fun c => len c < 2147483648) chunks ->
  fst (md5_obj_readout (fold_left md5_obj_append chunks md5_new)) = md5_spec (concat chunks).
Proof. exact md5_stream_lemma. Qed.
Print Assumptions md5_stream.

Theorem sha1_stream : forall chunks,
  fst (sha1_obj_readout (fold_left sha1_obj_append chunks sha1_new)) = sha1_spec (concat chunks).
Proof. exact sha1_stream_lemma. Qed.
Print Assumptions sha1_stream.

(* the compression function and initial value the MD5 code uses (T_MASK ^ x constants, 64 SET lines in
   source order) are those of RFC 1321 section 3.4 (index and shift formulas, T table) *)
Theorem md5_tables_are_rfc1321 : md5_process = md5_compress_spec /\ md5_abcd0 = md5_iv_rfc.
Proof. exact (conj md5_process_rfc md5_abcd0_rfc). Qed.
Print Assumptions md5_tables_are_rfc1321.

(* the or-forms of the round functions in sha1.h are the xor-forms of FIPS 180-4 section 4.1.1 *)
Theorem sha1_round_functions_are_fips : forall x y z, x < 4294967296 ->
  N.lor (N.land x y) (N.land (not32 x) z) = fips_Ch x y z /\
  N.lor (N.lor (N.land x y) (N.land x z)) (N.land y z) = fips_Maj x y z.
Proof. exact (fun x y z H => conj (ch_or_xor x y z H) (maj_or_xor x y z)). Qed.
Print Assumptions sha1_round_functions_are_fips.

(* sha1_spec (pad, then fold the 80-round function of the code model) is the function of FIPS 180-4 6.1.2 written from the
   standard: ROTL with or, f_t = Ch/Parity/Maj selected by t/20, K_t table, W_t by its recurrence, big-endian words by arithmetic *)
Theorem sha1_spec_is_fips180 : forall m, Forall (fun b => b < 256) m -> sha1_spec m = sha1_spec_fips m.
Proof. exact sha1_spec_is_fips. Qed.
Print Assumptions sha1_spec_is_fips180.
Theorem sha1_block_function_is_fips180 : forall h block,
  (let '(a, b, c, d, e) := h in a < 4294967296 /\ b < 4294967296 /\ c < 4294967296 /\ d < 4294967296 /\ e < 4294967296) ->
  length block = 64%nat -> Forall (fun b => b < 256) block ->
  sha1_process h block = sha1_compress_fips h block.
Proof. exact (fun h block Hq Hl Hb => proj1 (sha1_process_fips h block Hq Hl Hb)). Qed.
Print Assumptions sha1_block_function_is_fips180.
Example sha1_fips_nonvacuous :
  sha1_spec_fips [97;98;99] =
    [0xa9;0x99;0x3e;0x36;0x47;0x06;0x81;0x6a;0xba;0x3e;0x25;0x71;0x78;0x50;0xc2;0x6c;0x9c;0xd0;0xd8;0x9d].
Proof. rewrite <- sha1_spec_is_fips by (repeat constructor). vm_compute. reflexivity. Qed.

(* a chunk of 2^31 .. 2^32-1 bytes is silently ignored by md5_digets::append (int conversion): outside the domain *)
Theorem md5_chunk_outside_domain_dropped : forall st data,
  2147483648 <= len data < 4294967296 -> md5_obj_append st data = st.
Proof. exact md5_obj_append_big. Qed.
Print Assumptions md5_chunk_outside_domain_dropped.

(* ---------------------------------------------------------------------------------------------
   2. reusable: after readout the object is as good as new - k messages in a row through ONE object
      each get the digest of their own bytes (whatever was hashed before, whatever is left in the buffer)
   --------------------------------------------------------------------------------------------- *)
Theorem md5_reusable : forall msgs,
  Forall (Forall (fun c => len c < 2147483648)) msgs ->
  md5_session msgs = map (fun chunks => md5_spec (concat chunks)) msgs.
Proof. exact md5_session_lemma. Qed.
Print Assumptions md5_reusable.

Theorem sha1_reusable : forall msgs,
  sha1_session msgs = map (fun chunks => sha1_spec (concat chunks)) msgs.
Proof. exact sha1_session_lemma. Qed.
Print Assumptions sha1_reusable.

(* registers and counters equal those of a new object after every readout, from ANY state *)
Theorem md5_readout_reinitialises : forall st,
  let st' := snd (md5_obj_readout st) in
  m_count0 st' = 0 /\ m_count1 st' = 0 /\ m_abcd st' = md5_abcd0.
Proof. exact md5_obj_readout_state. Qed.
Print Assumptions md5_readout_reinitialises.

Theorem sha1_readout_reinitialises : forall st,
  let st' := snd (sha1_obj_readout st) in
  s_h st' = sha1_h0 /\ s_idx st' = 0 /\ s_count st' = 0.
Proof. exact sha1_obj_readout_state. Qed.
Print Assumptions sha1_readout_reinitialises.

(* non-vacuity + known answers (tests of the specification; RFC 1321 A.5, FIPS 180 examples).
   "abc" fed as a | empty | bc through the object, then the empty message through the same object. *)
Example md5_stream_nonvacuous :
  md5_session [[[97]; []; [98; 99]]; []] =
  [[0x90;0x01;0x50;0x98;0x3c;0xd2;0x4f;0xb0;0xd6;0x96;0x3f;0x7d;0x28;0xe1;0x7f;0x72];
   [0xd4;0x1d;0x8c;0xd9;0x8f;0x00;0xb2;0x04;0xe9;0x80;0x09;0x98;0xec;0xf8;0x42;0x7e]].
Proof. vm_compute. reflexivity. Qed.
Example md5_spec_kat_rfc1321 :
  md5_spec [] = [0xd4;0x1d;0x8c;0xd9;0x8f;0x00;0xb2;0x04;0xe9;0x80;0x09;0x98;0xec;0xf8;0x42;0x7e] /\
  md5_spec [97] = [0x0c;0xc1;0x75;0xb9;0xc0;0xf1;0xb6;0xa8;0x31;0xc3;0x99;0xe2;0x69;0x77;0x26;0x61] /\
  md5_spec [97;98;99] = [0x90;0x01;0x50;0x98;0x3c;0xd2;0x4f;0xb0;0xd6;0x96;0x3f;0x7d;0x28;0xe1;0x7f;0x72] /\
  (* "message digest" *)
  md5_spec [109;101;115;115;97;103;101;32;100;105;103;101;115;116] =
    [0xf9;0x6b;0x69;0x7d;0x7c;0xb7;0x93;0x8d;0x52;0x5a;0x2f;0x31;0xaa;0xf1;0x61;0xd0] /\
  (* 8 times "1234567890": 80 bytes, two blocks *)
  md5_spec (concat (repeat [49;50;51;52;53;54;55;56;57;48] 8)) =
    [0x57;0xed;0xf4;0xa2;0x2b;0xe3;0xc9;0x55;0xac;0x49;0xda;0x2e;0x21;0x07;0xb6;0x7a].
Proof. vm_compute. repeat split; reflexivity. Qed.
Example sha1_stream_nonvacuous :
  sha1_session [[[97]; []; [98; 99]]; []] =
  [[0xa9;0x99;0x3e;0x36;0x47;0x06;0x81;0x6a;0xba;0x3e;0x25;0x71;0x78;0x50;0xc2;0x6c;0x9c;0xd0;0xd8;0x9d];
   [0xda;0x39;0xa3;0xee;0x5e;0x6b;0x4b;0x0d;0x32;0x55;0xbf;0xef;0x95;0x60;0x18;0x90;0xaf;0xd8;0x07;0x09]].
Proof. vm_compute. reflexivity. Qed.
Example sha1_spec_kat_fips180 :
  sha1_spec [97;98;99] =
    [0xa9;0x99;0x3e;0x36;0x47;0x06;0x81;0x6a;0xba;0x3e;0x25;0x71;0x78;0x50;0xc2;0x6c;0x9c;0xd0;0xd8;0x9d] /\
  (* "abcdbcdecdefdefgefghfghighijhijkijkljklmklmnlmnomnopnopq": 56 bytes, the padding spills into a second block *)
  sha1_spec [97;98;99;100;98;99;100;101;99;100;101;102;100;101;102;103;101;102;103;104;102;103;104;105;103;104;105;106;
             104;105;106;107;105;106;107;108;106;107;108;109;107;108;109;110;108;109;110;111;109;110;111;112;110;111;112;113] =
    [0x84;0x98;0x3e;0x44;0x1c;0x3b;0xd2;0x6e;0xba;0xae;0x4a;0xa1;0xf9;0x51;0x29;0xe5;0xe5;0x46;0x70;0xf1].
Proof. vm_compute. repeat split; reflexivity. Qed.

(* ---------------------------------------------------------------------------------------------
   3. HMAC (crypto.cpp hmac::init / append / readout) = RFC 2104, over ANY digest object of which only
      streaming + reset-after-readout are known (premises rep_*: there is a relation "st has absorbed m" that
      holds for a new object, is advanced by append on accepted chunks, and makes readout return Hf m and
      leave an object that has absorbed nothing), digest no longer than the block, blocks accepted by append.
      All key lengths: hmac_key0 hashes keys longer than the block, zero-pads the others (hmac_key_classes).
      Every chunking; k messages through one hmac object (re-priming after readout).
   --------------------------------------------------------------------------------------------- *)
Theorem hmac_rfc2104 :
  forall (D : Type) (d_new : D) (d_append : D -> list N -> D) (d_readout : D -> list N * D)
         (B dsz : nat) (Hf : list N -> list N) (okc : list N -> Prop) (rep : D -> list N -> Prop),
  rep d_new [] ->
  (forall st m c, rep st m -> okc c -> rep (d_append st c) (m ++ c)) ->
  (forall st m, rep st m -> fst (d_readout st) = Hf m /\ rep (snd (d_readout st)) []) ->
  (forall m, length (Hf m) = dsz) -> (dsz <= B)%nat -> (forall c, (length c <= B)%nat -> okc c) ->
  forall key msgs,
  ((B < length key)%nat -> okc key) -> Forall (Forall okc) msgs ->
  hmac_session D d_append d_readout B dsz (hmac_new D d_new d_append d_readout B dsz key) msgs =
  map (fun chunks => hmac_spec B Hf key (concat chunks)) msgs.
Proof. exact hmac_session_lemma. Qed.
Print Assumptions hmac_rfc2104.

Theorem hmac_key_classes : forall (B : nat) (Hf : list N -> list N) key,
  ((length key < B)%nat -> hmac_key0 B Hf key = key ++ repeat 0 (B - length key)) /\
  (length key = B -> hmac_key0 B Hf key = key) /\
  ((B < length key)%nat -> hmac_key0 B Hf key = over_zeros B (Hf key)).
Proof. exact (fun B Hf key => conj (key0_short B Hf key) (conj (key0_equal B Hf key) (key0_long B Hf key))). Qed.
Print Assumptions hmac_key_classes.

(* the two bundled digests satisfy the premises: closed statements for HMAC-MD5 and HMAC-SHA1 *)
Theorem hmac_md5_rfc2104 : forall key msgs,
  len key < 2147483648 -> Forall (Forall (fun c => len c < 2147483648)) msgs ->
  hmac_md5_session key msgs = map (fun chunks => hmac_spec 64 md5_spec key (concat chunks)) msgs.
Proof. exact hmac_md5_session_lemma. Qed.
Print Assumptions hmac_md5_rfc2104.

Theorem hmac_sha1_rfc2104 : forall key msgs,
  hmac_sha1_session key msgs = map (fun chunks => hmac_spec 64 sha1_spec key (concat chunks)) msgs.
Proof. exact hmac_sha1_session_lemma. Qed.
Print Assumptions hmac_sha1_rfc2104.

(* RFC 2202 test cases 1 and 6 (key shorter / longer than the block) + a key of exactly one block (value computed
   with an independent implementation), run through the OBJECT model with a split message and a second message *)
Example hmac_nonvacuous_rfc2202 :
  hmac_md5_session (repeat 11 16) [[[72;105;32;84]; []; [104;101;114;101]]; [[72;105;32;84;104;101;114;101]]] =
    [[146;148;114;122;54;56;187;28;19;244;142;248;21;139;252;157]; [146;148;114;122;54;56;187;28;19;244;142;248;21;139;252;157]] /\
  hmac_sha1_session (repeat 11 20) [[[72;105;32;84]; []; [104;101;114;101]]; [[72;105;32;84;104;101;114;101]]] =
    [[182;23;49;134;85;5;114;100;226;139;192;182;251;55;140;142;241;70;190;0]; [182;23;49;134;85;5;114;100;226;139;192;182;251;55;140;142;241;70;190;0]] /\
  hmac_spec 64 md5_spec (repeat 170 80)
    [84;101;115;116;32;85;115;105;110;103;32;76;97;114;103;101;114;32;84;104;97;110;32;66;108;111;99;107;45;83;105;122;101;32;75;101;121;32;45;32;72;97;115;104;32;75;101;121;32;70;105;114;115;116] =
    [107;26;183;254;75;215;191;143;11;98;230;206;97;185;208;205] /\
  hmac_sha1_session (repeat 170 80)
    [[[84;101;115;116;32;85;115;105;110;103;32;76;97;114;103;101;114;32;84;104;97;110;32;66;108;111;99;107;45;83;105;122;101;32;75;101;121;32;45;32;72;97;115;104;32;75;101;121;32;70;105;114;115;116]]] =
    [[170;74;229;225;82;114;208;14;149;112;86;55;206;138;59;85;237;64;33;18]] /\
  hmac_spec 64 md5_spec (map N.of_nat (seq 0 64)) [97;98;99] = [160;215;43;223;166;233;205;58;86;230;96;236;168;146;191;176] /\
  hmac_spec 64 sha1_spec (map N.of_nat (seq 0 64)) [97;98;99] = [137;227;146;133;45;166;182;71;73;13;63;40;114;24;130;74;46;33;1;176].
Proof. vm_compute. repeat split; reflexivity. Qed.

(* ---------------------------------------------------------------------------------------------
   4. CBC over any block cipher with D(E b) = b on 16-byte blocks (AES itself is library code).
      whole p: |p| is a multiple of 16.  The object keeps a running IV per direction across calls.
   --------------------------------------------------------------------------------------------- *)
Theorem cbc_inverse : forall (E Dc : list N -> list N),
  (forall b, length b = 16%nat -> length (E b) = 16%nat) ->
  (forall b, length b = 16%nat -> Dc (E b) = b) ->
  forall iv p, length iv = 16%nat -> (length p mod 16 = 0)%nat ->
  cbc_dec Dc iv (fst (cbc_enc E iv p)) = (p, snd (cbc_enc E iv p)).
Proof. exact cbc_inverse_lemma. Qed.
Print Assumptions cbc_inverse.

(* encrypt in any number of calls, decrypt with any other split into whole-block calls: plaintext back,
   and both objects end with the same running IV *)
Theorem cbc_inverse_any_call_split : forall (E Dc : list N -> list N),
  (forall b, length b = 16%nat -> length (E b) = 16%nat) ->
  (forall b, length b = 16%nat -> Dc (E b) = b) ->
  forall iv pcalls ccalls,
  length iv = 16%nat ->
  Forall (fun p => (length p mod 16 = 0)%nat) pcalls -> Forall (fun c => (length c mod 16 = 0)%nat) ccalls ->
  concat ccalls = fst (cbc_encrypt_calls E (cbc_set_iv iv) pcalls) ->
  fst (cbc_decrypt_calls Dc (cbc_set_iv iv) ccalls) = concat pcalls /\
  c_iv_dec (snd (cbc_decrypt_calls Dc (cbc_set_iv iv) ccalls)) = c_iv_enc (snd (cbc_encrypt_calls E (cbc_set_iv iv) pcalls)).
Proof. exact cbc_calls_inverse. Qed.
Print Assumptions cbc_inverse_any_call_split.

(* what the session code relies on (aes_encryptor.cpp decrypts with a zero IV and throws the first block away):
   the IV enters the first plaintext block only *)
Theorem cbc_dec_iv_only_in_first_block : forall (Dc : list N -> list N) iv c, (16 <= length c)%nat ->
  cbc_dec Dc iv c = (xor_bytes (Dc (firstn 16 c)) iv ++ fst (cbc_dec Dc (firstn 16 c) (skipn 16 c)),
                     snd (cbc_dec Dc (firstn 16 c) (skipn 16 c))).
Proof. exact cbc_dec_first_block. Qed.
Print Assumptions cbc_dec_iv_only_in_first_block.

Theorem cbc_dec_blocks_2_to_n_iv_independent : forall (Dc : list N -> list N),
  (forall b, length b = 16%nat -> length (Dc b) = 16%nat) ->
  forall iv1 iv2 c, length iv1 = 16%nat -> length iv2 = 16%nat -> (16 <= length c)%nat ->
  skipn 16 (fst (cbc_dec Dc iv1 c)) = skipn 16 (fst (cbc_dec Dc iv2 c)) /\
  snd (cbc_dec Dc iv1 c) = snd (cbc_dec Dc iv2 c).
Proof. exact cbc_dec_iv_independent. Qed.
Print Assumptions cbc_dec_blocks_2_to_n_iv_independent.

(* non-vacuity: a toy invertible block cipher (add 1 / subtract 1 mod 256 on every byte), two blocks, calls 1+1 vs 2 *)
Example cbc_nonvacuous :
  let E := map (fun b => (b + 1) mod 256) in
  let Dc := map (fun b => (b + 255) mod 256) in
  let iv := map N.of_nat (seq 100 16) in
  let p1 := map N.of_nat (seq 0 16) in
  let p2 := repeat 255 16 in
  fst (cbc_encrypt_calls E (cbc_set_iv iv) [p1; p2]) <> p1 ++ p2 /\
  fst (cbc_decrypt_calls Dc (cbc_set_iv iv) [fst (cbc_encrypt_calls E (cbc_set_iv iv) [p1; p2])]) = p1 ++ p2 /\
  skipn 16 (fst (cbc_dec Dc (repeat 0 16) (fst (cbc_enc E iv (p1 ++ p2))))) = p2.
Proof. vm_compute. repeat split; try reflexivity. discriminate. Qed.

(* ---------------------------------------------------------------------------------------------
   5. key::set_hex accepts exactly the even-length hexadecimal strings (both directions, both error
      classes) and inverts the lower-case hex writer used by cppcms_make_key
   --------------------------------------------------------------------------------------------- *)
Theorem key_hex_accepts_exactly : forall s,
  (exists k, set_hex s = KeyOk k) <-> (N.even (len s) = true /\ forallb is_hex s = true).
Proof. exact set_hex_accepts. Qed.
Print Assumptions key_hex_accepts_exactly.
Theorem key_hex_rejections : forall s,
  (set_hex s = KeyOddLength <-> N.odd (len s) = true) /\
  (set_hex s = KeyBadChar <-> (N.odd (len s) = false /\ forallb is_hex s = false)).
Proof. exact set_hex_rejects. Qed.
Print Assumptions key_hex_rejections.
Theorem key_hex_roundtrip : forall k, Forall (fun b => b < 256) k -> set_hex (to_hex k) = KeyOk k.
Proof. exact set_hex_to_hex. Qed.
Print Assumptions key_hex_roundtrip.
(* read_from_file: blanks (space, LF, CR, TAB) at the end of the file are ignored and nothing else is; a file of blanks only
   gives the empty key (an empty file is refused) *)
Theorem key_file_trailing_blanks_ignored : forall s c ws,
  is_ws c = false -> forallb is_ws ws = true -> key_from_file ((s ++ [c]) ++ ws) = set_hex (s ++ [c]).
Proof. exact key_from_file_strips. Qed.
Print Assumptions key_file_trailing_blanks_ignored.
Theorem key_file_of_blanks_is_empty_key : forall ws, ws <> [] -> forallb is_ws ws = true -> key_from_file ws = KeyOk [].
Proof. exact key_from_file_all_blank. Qed.
Print Assumptions key_file_of_blanks_is_empty_key.
Example key_hex_nonvacuous :
  set_hex [48;49;65;102] = KeyOk [1; 175] /\ set_hex [48;49;65] = KeyOddLength /\ set_hex [48;103] = KeyBadChar /\
  to_hex [1; 175] = [48;49;97;102] /\
  key_from_file [48;49;65;102;10;32] = KeyOk [1; 175] /\ key_from_file [32;48;49;50] = KeyBadChar /\ key_from_file [] = KeyEmptyFile.
Proof. vm_compute. repeat split; reflexivity. Qed.

(* ---------------------------------------------------------------------------------------------
   6. the wrappers around the primitives: which calls a cbc object serves, name dispatch
   --------------------------------------------------------------------------------------------- *)
(* encrypt/decrypt after any sequence of calls is served iff a key of exactly key_size() bytes and an IV
   (16 bytes, or a nonce IV) were given at some point before; otherwise it is refused (no output is produced) *)
Theorem cbc_served_iff_key_and_iv : forall ks before,
  fst (cbc_ctl_step ks (cbc_ctl_state ks (false, false) before) OpEnc) = StOk <-> (keyed ks before = true /\ ived before = true).
Proof. exact cbc_ctl_served. Qed.
Print Assumptions cbc_served_iff_key_and_iv.
(* create_by_name is case-insensitive, answers with the canonical name, and every digest it can return has
   digest_size <= block_size in {64,128} - the premise dsz <= B of hmac_rfc2104 *)
Theorem digest_by_name_case_insensitive : forall n, digest_by_name (map lower n) = digest_by_name n.
Proof. exact digest_by_name_fold. Qed.
Print Assumptions digest_by_name_case_insensitive.
Theorem digest_by_name_sizes : forall n nm d b, digest_by_name n = Some (nm, d, b) ->
  d <= b /\ (b = 64 \/ b = 128) /\ digest_by_name nm = Some (nm, d, b).
Proof. exact digest_by_name_table. Qed.
Print Assumptions digest_by_name_sizes.
Example wrappers_nonvacuous :
  digest_by_name [83;72;65;51;56;52] = Some ([115;104;97;51;56;52], 48, 128) /\ digest_by_name [109;100;52] = None /\
  cbc_ctl_run 16 (false, false) [OpEnc; OpKey 15; OpKey 16; OpDec; OpIv 16; OpEnc] = [StNoKey; StBadKeySize; StOk; StNoIv; StOk; StOk].
Proof. vm_compute. repeat split; reflexivity. Qed.

(* ---------------------------------------------------------------------------------------------
   7. the session encryptors built on the primitives (hmac_encryptor.cpp, aes_encryptor.cpp), over an abstract MAC
      (the hmac object under the mac key, |mac m| = dsz) and an abstract block cipher: what one node writes, every
      node with the same keys reads back - whatever its running IVs are (set_nonce_iv gives each object its own) -
      and nothing but a body followed by its own MAC is accepted.  Model tied to the code by reading + the sess oracle.
   --------------------------------------------------------------------------------------------- *)
Theorem hmac_cipher_roundtrip : forall (mac : list N -> list N) (dsz : nat),
  (forall m, length (mac m) = dsz) -> forall p, hc_decrypt mac dsz (hc_encrypt mac p) = Some p.
Proof. exact hc_roundtrip. Qed.
Print Assumptions hmac_cipher_roundtrip.
Theorem hmac_cipher_accepts_only_own_output : forall (mac : list N -> list N) (dsz : nat),
  (forall m, length (mac m) = dsz) -> forall c p, hc_decrypt mac dsz c = Some p -> c = hc_encrypt mac p.
Proof. exact hc_accepts_only_own_output. Qed.
Print Assumptions hmac_cipher_accepts_only_own_output.
Theorem aes_cipher_roundtrip_any_ivs : forall (mac : list N -> list N) (dsz : nat),
  (forall m, length (mac m) = dsz) ->
  forall E Dc : list N -> list N,
  (forall b, length b = 16%nat -> length (E b) = 16%nat) ->
  (forall b, length b = 16%nat -> length (Dc b) = 16%nat) ->
  (forall b, length b = 16%nat -> Dc (E b) = b) ->
  forall iv_enc iv_dec p, length iv_enc = 16%nat -> length iv_dec = 16%nat -> len p < 4294967296 ->
  fst (ac_decrypt mac dsz Dc iv_dec (fst (ac_encrypt mac E iv_enc p))) = Some p.
Proof. exact ac_roundtrip. Qed.
Print Assumptions aes_cipher_roundtrip_any_ivs.
Theorem aes_cipher_accepts_only_authentic : forall (mac : list N -> list N) (dsz : nat),
  (forall m, length (mac m) = dsz) ->
  forall (Dc : list N -> list N) iv c p, fst (ac_decrypt mac dsz Dc iv c) = Some p ->
  mac (firstn (length c - dsz) c) = skipn (length c - dsz) c /\ (32 <= length c - dsz)%nat /\ ((length c - dsz) mod 16 = 0)%nat.
Proof. exact ac_accepts_only_authentic. Qed.
Print Assumptions aes_cipher_accepts_only_authentic.
(* toy cipher and toy MAC (sum of the bytes, 1 byte): 5-byte text -> 32-byte body + 1; other IV on the reading side *)
Example session_nonvacuous :
  let E := map (fun b => (b + 1) mod 256) in
  let Dc := map (fun b => (b + 255) mod 256) in
  let mac := fun m => [fold_left N.add m 0 mod 256] in
  let c := fst (ac_encrypt mac E (map N.of_nat (seq 1 16)) [104;101;108;108;111]) in
  length c = 33%nat /\
  fst (ac_decrypt mac 1 Dc (repeat 7 16) c) = Some [104;101;108;108;111] /\
  fst (ac_decrypt mac 1 Dc (repeat 7 16) (removelast c ++ [0])) = None /\
  hc_decrypt mac 1 (hc_encrypt mac [1;2;3]) = Some [1;2;3] /\ hc_decrypt mac 1 [1;2;3;7] = None.
Proof. vm_compute. repeat split; reflexivity. Qed.
