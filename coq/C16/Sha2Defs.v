(* C16: SHA-224 / SHA-256 / SHA-384 / SHA-512 written from FIPS 180-4 (sections 4.1.2-3, 4.2.2-3, 5.1, 5.3.2-5, 6.2, 6.4),
   executable, no proofs here.  The library-backed wrappers ssl_sha224 ... ssl_sha512 of src/crypto.cpp (OpenSSL) and the hmac
   objects over them are run against these functions.  The constants are not typed in: they are COMPUTED from their
   definition in the standard (first 32 / 64 bits of the fractional parts of the cube roots of the first 64 / 80 primes,
   of the square roots of the first 8 primes, resp. of the 9th to 16th primes for SHA-224 / SHA-384). *)
From Coq Require Import NArith List Bool.
From CppcmsV Require Import C16.Defs.
Import ListNotations.
Local Open Scope N_scope.

(* ---- constants by definition ---- *)
Definition is_prime (n : nat) : bool :=
  Nat.ltb 1 n && forallb (fun d => negb (Nat.eqb (Nat.modulo n d) 0)) (seq 2 (n - 2)).
Definition primes80 : list N := Eval vm_compute in map N.of_nat (firstn 80 (filter is_prime (seq 2 420))).
(* integer cube root by bits: the largest r with r^3 <= n, r < 2^bits *)
Fixpoint icbrt_bits (bits : nat) (n r : N) : N :=
  match bits with
  | O => r
  | S b => let r' := r + N.shiftl 1 (N.of_nat b) in
           icbrt_bits b n (if r' * r' * r' <=? n then r' else r)
  end.
(* first wb bits of the fractional part of the cube root / square root of p *)
Definition frac_cbrt (wb p : N) : N := N.land (icbrt_bits (N.to_nat wb + 4) (N.shiftl p (3 * wb)) 0) (N.ones wb).
Definition frac_sqrt (wb p : N) : N := N.land (N.sqrt (N.shiftl p (2 * wb))) (N.ones wb).
Definition K256 : list N := Eval vm_compute in map (frac_cbrt 32) (firstn 64 primes80).
Definition K512 : list N := Eval vm_compute in map (frac_cbrt 64) primes80.
Definition H256 : list N := Eval vm_compute in map (frac_sqrt 32) (firstn 8 primes80).
Definition H512 : list N := Eval vm_compute in map (frac_sqrt 64) (firstn 8 primes80).
(* SHA-224: the second 32 bits of the fractional parts of the square roots of the 9th .. 16th primes *)
Definition H224 : list N := Eval vm_compute in map (fun p => N.land (frac_sqrt 64 p) (N.ones 32)) (firstn 8 (skipn 8 primes80)).
Definition H384 : list N := Eval vm_compute in map (frac_sqrt 64) (firstn 8 (skipn 8 primes80)).

(* ---- the hash computation, generic in the word size ---- *)
Record sha2_params := mk_sha2 {
  p_wb : N;                      (* word size in bits: 32 or 64 *)
  p_mask : N;                    (* 2^wb - 1 *)
  p_K : list N;                  (* round constants; their number is the number of rounds *)
  p_bs0 : N * N * N;             (* Sigma0: three rotations *)
  p_bs1 : N * N * N;             (* Sigma1 *)
  p_ss0 : N * N * N;             (* sigma0: two rotations and a shift *)
  p_ss1 : N * N * N }.           (* sigma1 *)
Definition sha256_params := mk_sha2 32 4294967295 K256 (2, 13, 22) (6, 11, 25) (7, 18, 3) (17, 19, 10).
Definition sha512_params := mk_sha2 64 18446744073709551615 K512 (28, 34, 39) (14, 18, 41) (1, 8, 7) (19, 61, 6).

Section Sha2.
  Variable P : sha2_params.
  Let wb := p_wb P.
  Let mask := p_mask P.
  Definition wadd (a b : N) : N := N.land (a + b) mask.
  Definition rotr (n x : N) : N := N.lor (N.shiftr x n) (N.land (N.shiftl x (wb - n)) mask).
  Definition big_sigma (c : N * N * N) (x : N) : N :=
    let '(r1, r2, r3) := c in N.lxor (N.lxor (rotr r1 x) (rotr r2 x)) (rotr r3 x).
  Definition small_sigma (c : N * N * N) (x : N) : N :=
    let '(r1, r2, s) := c in N.lxor (N.lxor (rotr r1 x) (rotr r2 x)) (N.shiftr x s).
  Definition ch (x y z : N) : N := N.lxor (N.land x y) (N.land (N.lxor x mask) z).
  Definition maj (x y z : N) : N := N.lxor (N.lxor (N.land x y) (N.land x z)) (N.land y z).

  Definition wbytes : nat := N.to_nat (wb / 8).
  Definition block_bytes : nat := (16 * wbytes)%nat.
  Definition be_word (l : list N) : N := fold_left (fun acc b => acc * 256 + b) l 0.
  Fixpoint chunks (fuel k : nat) (l : list N) : list (list N) :=
    match fuel with
    | O => []
    | S f => if Nat.leb k (length l) then firstn k l :: chunks f k (skipn k l) else []
    end.
  Fixpoint be_bytes_n (n : nat) (v : N) : list N :=
    match n with O => [] | S n' => N.land (N.shiftr v (8 * N.of_nat n')) 255 :: be_bytes_n n' v end.

  (* W_t = sigma1(W_(t-2)) + W_(t-7) + sigma0(W_(t-15)) + W_(t-16); rw holds W_(t-1), W_(t-2), ... *)
  Definition w_next (rw : list N) : N :=
    wadd (wadd (wadd (small_sigma (p_ss1 P) (nth 1 rw 0)) (nth 6 rw 0)) (small_sigma (p_ss0 P) (nth 14 rw 0))) (nth 15 rw 0).
  Fixpoint sched (n : nat) (rw : list N) : list N :=
    match n with O => rw | S n' => sched n' (w_next rw :: rw) end.
  Definition octet : Type := (N * N * N * N * N * N * N * N)%type.
  Definition round (st : octet) (kw : N * N) : octet :=
    let '(a, b, c, d, e, f, g, h) := st in
    let t1 := wadd (wadd (wadd (wadd h (big_sigma (p_bs1 P) e)) (ch e f g)) (fst kw)) (snd kw) in
    let t2 := wadd (big_sigma (p_bs0 P) a) (maj a b c) in
    (wadd t1 t2, a, b, c, wadd d t1, e, f, g).
  Definition octet_of (l : list N) : octet :=
    (nth 0 l 0, nth 1 l 0, nth 2 l 0, nth 3 l 0, nth 4 l 0, nth 5 l 0, nth 6 l 0, nth 7 l 0).
  Definition list_of (o : octet) : list N := let '(a, b, c, d, e, f, g, h) := o in [a; b; c; d; e; f; g; h].
  Definition compress (hs : list N) (block : list N) : list N :=
    let m := map be_word (chunks 16 wbytes block) in
    let w := rev (sched (length (p_K P) - 16) (rev m)) in
    let out := list_of (fold_left round (combine (p_K P) w) (octet_of hs)) in
    map (fun xy => wadd (fst xy) (snd xy)) (combine hs out).

  (* 5.1: 0x80, least k zero bytes to (block - length field) mod block, length in bits on 8 (16) bytes *)
  Definition padded (m : list N) : list N :=
    let bz := N.of_nat block_bytes in
    let lf := N.of_nat (2 * wbytes) in
    m ++ [128] ++ repeat 0 (N.to_nat ((2 * bz - lf - 1 - len m mod bz) mod bz)) ++ be_bytes_n (2 * wbytes) (8 * len m).
  Definition digest (h0 : list N) (outw : nat) (m : list N) : list N :=
    let p := padded m in
    let hs := fold_left compress (chunks (length p) block_bytes p) h0 in
    concat (map (be_bytes_n wbytes) (firstn outw hs)).
End Sha2.

Definition sha256_spec : list N -> list N := digest sha256_params H256 8.
Definition sha224_spec : list N -> list N := digest sha256_params H224 7.
Definition sha512_spec : list N -> list N := digest sha512_params H512 8.
Definition sha384_spec : list N -> list N := digest sha512_params H384 6.

(* message_digest objects over these functions (append = concatenate, readout = hash and start over) and RFC 2104 on top,
   one message after the other as the driver needs them *)
Definition sha2_by_name (a : N) : (list N -> list N) * nat :=
  match a with 224 => (sha224_spec, 64%nat) | 256 => (sha256_spec, 64%nat) | 384 => (sha384_spec, 128%nat) | _ => (sha512_spec, 128%nat) end.
Definition sha2_session (a : N) (msgs : list (list (list N))) : list (list N) :=
  map (fun chunks => fst (sha2_by_name a) (concat chunks)) msgs.
Definition hmac_sha2_session (a : N) (key : list N) (msgs : list (list (list N))) : list (list N) :=
  let '(hf, b) := sha2_by_name a in map (fun chunks => hmac_spec b hf key (concat chunks)) msgs.
