(* C16: the MD5 object of src/md5.cpp + crypto.cpp refines pad-then-fold (RFC 1321) *)
From CppcmsV Require Import Base.Tac C16.Defs C16.Blocks.
Local Open Scope N_scope.

(* ---------- arithmetic of the two-word bit counter ---------- *)
Lemma md5_offset_of_count c0 L : c0 = (8 * L) mod 4294967296 -> N.land (N.shiftr c0 3) 63 = L mod 64.
Proof.
  intros ->. change 63 with (N.ones 6). rewrite N.land_ones, N.shiftr_div_pow2.
  change (2 ^ 3) with 8. change (2 ^ 6) with 64. lia.
Qed.

Lemma md5_count_update c0 c1 L n :
  c0 < 4294967296 ->
  c0 + 4294967296 * c1 = (8 * L) mod 18446744073709551616 ->
  0 < n < 2147483648 ->
  let nbits := w32 (N.shiftl n 3) in
  let c1a := add32 c1 (N.shiftr n 29) in
  let c0' := add32 c0 nbits in
  let c1' := if c0' <? nbits then add32 c1a 1 else c1a in
  c0' < 4294967296 /\ c0' + 4294967296 * c1' = (8 * (L + n)) mod 18446744073709551616.
Proof.
  intros H0 H1 Hn. cbv zeta.
  rewrite !add32_mod, w32_mod, N.shiftl_mul_pow2, N.shiftr_div_pow2.
  change (2 ^ 3) with 8. change (2 ^ 29) with 536870912.
  split; [apply N.mod_lt; discriminate|].
  destruct (N.ltb_spec ((c0 + (n * 8) mod 4294967296) mod 4294967296) ((n * 8) mod 4294967296)) as [Hc|Hc];
    rewrite ?add32_mod; lia.
Qed.


Lemma md5_padn_of_count c0 L : c0 = (8 * L) mod 4294967296 ->
  N.land (w32 (55 + 4294967296 - N.shiftr c0 3)) 63 + 1 = (119 - L mod 64) mod 64 + 1.
Proof.
  intros ->. change 63 with (N.ones 6). rewrite N.land_ones, w32_mod, N.shiftr_div_pow2.
  change (2 ^ 3) with 8. change (2 ^ 6) with 64. lia.
Qed.

Lemma le_bytes_count c0 c1 : c0 < 4294967296 ->
  le_bytes32 c0 ++ le_bytes32 c1 = le_bytes64 (c0 + 4294967296 * c1).
Proof.
  intros H. unfold le_bytes32, le_bytes64. cbn [app]. rewrite !byte_of_spec.
  change (2 ^ 0) with 1. change (2 ^ 8) with 256. change (2 ^ 16) with 65536. change (2 ^ 24) with 16777216.
  change (2 ^ 32) with 4294967296. change (2 ^ 40) with 1099511627776. change (2 ^ 48) with 281474976710656.
  change (2 ^ 56) with 72057594037927936.
  repeat (f_equal; try lia).
Qed.
