(* C16: InvCipher inverts Cipher (FIPS-197 5.3) for every key and every block of bytes, for the cipher of AesDefs.v:
   S-box / inverse S-box (256-point sweep), ShiftRows, MixColumns (linearity of the six constant multiplications by
   65536-point sweeps + sixteen single-byte identities), round structure for ANY list of well-formed round keys, and
   well-formedness of the expanded key for every key of at least four bytes. *)
From Coq Require Import Btauto.
From CppcmsV Require Import Base.Tac C16.Defs C16.Blocks C16.ProofsCbc C16.ProofsCbcObj C16.AesDefs Base.Sweep.
Local Open Scope N_scope.

(* ---------- bytes ---------- *)
Lemma lxor_byte a b : a < 256 -> b < 256 -> N.lxor a b < 256.
Proof.
  intros Ha Hb. apply N.ltb_lt.
  apply (sweep256_2 (fun a b => N.lxor a b <? 256)); [vm_compute; reflexivity|exact Ha|exact Hb].
Qed.
Lemma sbox_byte a : a < 256 -> sbox a < 256.
Proof. intros H. apply N.ltb_lt. apply (sweep256 (fun a => sbox a <? 256)); [vm_compute; reflexivity|exact H]. Qed.
Lemma isbox_sbox a : a < 256 -> isbox (sbox a) = a.
Proof. intros H. apply N.eqb_eq. apply (sweep256 (fun a => isbox (sbox a) =? a)); [vm_compute; reflexivity|exact H]. Qed.
Lemma xtime_byte a : a < 256 -> xtime a < 256.
Proof. intros H. apply N.ltb_lt. apply (sweep256 (fun a => xtime a <? 256)); [vm_compute; reflexivity|exact H]. Qed.
Lemma gmul_byte c a : c < 256 -> a < 256 -> gmul c a < 256.
Proof.
  intros Hc Ha. apply N.ltb_lt.
  apply (sweep256_2 (fun c a => gmul c a <? 256)); [vm_compute; reflexivity|exact Hc|exact Ha].
Qed.

Definition mixc (c : N) : Prop := c = 2 \/ c = 3 \/ c = 9 \/ c = 11 \/ c = 13 \/ c = 14.
Lemma mixc_byte c : mixc c -> c < 256.
Proof. unfold mixc. lia. Qed.
Lemma gmul_lin c a b : mixc c -> a < 256 -> b < 256 -> gmul c (N.lxor a b) = N.lxor (gmul c a) (gmul c b).
Proof.
  intros Hc Ha Hb. apply N.eqb_eq.
  destruct Hc as [->|[->|[->|[->|[->| ->]]]]];
    match goal with |- (gmul ?c _ =? _) = true =>
      apply (sweep256_2 (fun a b => gmul c (N.lxor a b) =? N.lxor (gmul c a) (gmul c b))); [vm_compute; reflexivity|exact Ha|exact Hb]
    end.
Qed.
Lemma x4_byte p q r s : p < 256 -> q < 256 -> r < 256 -> s < 256 -> x4 p q r s < 256.
Proof. intros. unfold x4. repeat apply lxor_byte; assumption. Qed.
Lemma gmul_lin4 c p q r s : mixc c -> p < 256 -> q < 256 -> r < 256 -> s < 256 ->
  gmul c (x4 p q r s) = x4 (gmul c p) (gmul c q) (gmul c r) (gmul c s).
Proof.
  intros Hc Hp Hq Hr Hs. unfold x4.
  rewrite (gmul_lin c _ s Hc) by (try assumption; repeat apply lxor_byte; assumption).
  rewrite (gmul_lin c _ r Hc) by (try assumption; repeat apply lxor_byte; assumption).
  rewrite (gmul_lin c p q Hc) by assumption. reflexivity.
Qed.
Lemma x4_transpose p0 p1 p2 p3 q0 q1 q2 q3 r0 r1 r2 r3 s0 s1 s2 s3 :
  x4 (x4 p0 p1 p2 p3) (x4 q0 q1 q2 q3) (x4 r0 r1 r2 r3) (x4 s0 s1 s2 s3) =
  x4 (x4 p0 q0 r0 s0) (x4 p1 q1 r1 s1) (x4 p2 q2 r2 s2) (x4 p3 q3 r3 s3).
Proof. unfold x4. apply N.bits_inj. intros n. rewrite !N.lxor_spec. btauto. Qed.

(* a single-byte identity by a 256-point sweep *)
Ltac byte_id a H :=
  match goal with
  | |- ?lhs = ?rhs =>
      let P := eval pattern a in (N.eqb lhs rhs) in
      match P with
      | ?f _ => apply N.eqb_eq; apply (sweep256 f); [vm_compute; reflexivity|exact H]
      end
  end.

Lemma x4_a000 a : x4 a 0 0 0 = a.  Proof. unfold x4. rewrite !N.lxor_0_r. reflexivity. Qed.
Lemma x4_0a00 a : x4 0 a 0 0 = a.  Proof. unfold x4. rewrite !N.lxor_0_r. apply N.lxor_0_l. Qed.
Lemma x4_00a0 a : x4 0 0 a 0 = a.  Proof. unfold x4. rewrite !N.lxor_0_r. apply N.lxor_0_l. Qed.
Lemma x4_000a a : x4 0 0 0 a = a.  Proof. unfold x4. rewrite !N.lxor_0_l. reflexivity. Qed.

Lemma inv_mix_col_mix_col a0 a1 a2 a3 : a0 < 256 -> a1 < 256 -> a2 < 256 -> a3 < 256 ->
  inv_mix_col (x4 (gmul 2 a0) (gmul 3 a1) a2 a3) (x4 a0 (gmul 2 a1) (gmul 3 a2) a3)
              (x4 a0 a1 (gmul 2 a2) (gmul 3 a3)) (x4 (gmul 3 a0) a1 a2 (gmul 2 a3)) = [a0; a1; a2; a3].
Proof.
  intros H0 H1 H2 H3. unfold inv_mix_col.
  assert (G : forall c a, mixc c -> a < 256 -> gmul c a < 256) by (intros c a Hc Ha; apply gmul_byte; [apply mixc_byte; exact Hc|exact Ha]).
  assert (M2 : mixc 2) by (unfold mixc; tauto). assert (M3 : mixc 3) by (unfold mixc; tauto).
  assert (M9 : mixc 9) by (unfold mixc; tauto). assert (M11 : mixc 11) by (unfold mixc; tauto).
  assert (M13 : mixc 13) by (unfold mixc; tauto). assert (M14 : mixc 14) by (unfold mixc; tauto).
  rewrite !gmul_lin4 by (first [assumption | apply G; assumption]).
  (* row 0: 14 11 13 9 *)
  assert (T00 : x4 (gmul 14 (gmul 2 a0)) (gmul 11 a0) (gmul 13 a0) (gmul 9 (gmul 3 a0)) = a0) by byte_id a0 H0.
  assert (T01 : x4 (gmul 14 (gmul 3 a1)) (gmul 11 (gmul 2 a1)) (gmul 13 a1) (gmul 9 a1) = 0) by byte_id a1 H1.
  assert (T02 : x4 (gmul 14 a2) (gmul 11 (gmul 3 a2)) (gmul 13 (gmul 2 a2)) (gmul 9 a2) = 0) by byte_id a2 H2.
  assert (T03 : x4 (gmul 14 a3) (gmul 11 a3) (gmul 13 (gmul 3 a3)) (gmul 9 (gmul 2 a3)) = 0) by byte_id a3 H3.
  (* row 1: 9 14 11 13 *)
  assert (T10 : x4 (gmul 9 (gmul 2 a0)) (gmul 14 a0) (gmul 11 a0) (gmul 13 (gmul 3 a0)) = 0) by byte_id a0 H0.
  assert (T11 : x4 (gmul 9 (gmul 3 a1)) (gmul 14 (gmul 2 a1)) (gmul 11 a1) (gmul 13 a1) = a1) by byte_id a1 H1.
  assert (T12 : x4 (gmul 9 a2) (gmul 14 (gmul 3 a2)) (gmul 11 (gmul 2 a2)) (gmul 13 a2) = 0) by byte_id a2 H2.
  assert (T13 : x4 (gmul 9 a3) (gmul 14 a3) (gmul 11 (gmul 3 a3)) (gmul 13 (gmul 2 a3)) = 0) by byte_id a3 H3.
  (* row 2: 13 9 14 11 *)
  assert (T20 : x4 (gmul 13 (gmul 2 a0)) (gmul 9 a0) (gmul 14 a0) (gmul 11 (gmul 3 a0)) = 0) by byte_id a0 H0.
  assert (T21 : x4 (gmul 13 (gmul 3 a1)) (gmul 9 (gmul 2 a1)) (gmul 14 a1) (gmul 11 a1) = 0) by byte_id a1 H1.
  assert (T22 : x4 (gmul 13 a2) (gmul 9 (gmul 3 a2)) (gmul 14 (gmul 2 a2)) (gmul 11 a2) = a2) by byte_id a2 H2.
  assert (T23 : x4 (gmul 13 a3) (gmul 9 a3) (gmul 14 (gmul 3 a3)) (gmul 11 (gmul 2 a3)) = 0) by byte_id a3 H3.
  (* row 3: 11 13 9 14 *)
  assert (T30 : x4 (gmul 11 (gmul 2 a0)) (gmul 13 a0) (gmul 9 a0) (gmul 14 (gmul 3 a0)) = 0) by byte_id a0 H0.
  assert (T31 : x4 (gmul 11 (gmul 3 a1)) (gmul 13 (gmul 2 a1)) (gmul 9 a1) (gmul 14 a1) = 0) by byte_id a1 H1.
  assert (T32 : x4 (gmul 11 a2) (gmul 13 (gmul 3 a2)) (gmul 9 (gmul 2 a2)) (gmul 14 a2) = 0) by byte_id a2 H2.
  assert (T33 : x4 (gmul 11 a3) (gmul 13 a3) (gmul 9 (gmul 3 a3)) (gmul 14 (gmul 2 a3)) = a3) by byte_id a3 H3.
  f_equal; [|f_equal; [|f_equal; [|f_equal]]].
  - rewrite x4_transpose, T00, T01, T02, T03. apply x4_a000.
  - rewrite x4_transpose, T10, T11, T12, T13. apply x4_0a00.
  - rewrite x4_transpose, T20, T21, T22, T23. apply x4_00a0.
  - rewrite x4_transpose, T30, T31, T32, T33. apply x4_000a.
Qed.

(* ---------- the transformations on a state of 16 bytes ---------- *)
Definition st_ok (s : list N) : Prop := length s = 16%nat /\ bytes_ok s.

Lemma bytes_ok_xor a : forall b, bytes_ok a -> bytes_ok b -> bytes_ok (xor_bytes a b).
Proof.
  induction a as [|x a IH]; intros [|y b] Ha Hb; cbn [xor_bytes]; try constructor.
  - apply bytes_ok_cons in Ha, Hb. apply lxor_byte; tauto.
  - apply bytes_ok_cons in Ha, Hb. apply IH; tauto.
Qed.
Lemma st_ok_xor s rk : st_ok s -> st_ok rk -> st_ok (xor_bytes s rk).
Proof.
  intros [L1 B1] [L2 B2]. split; [rewrite xor_bytes_length; lia|apply bytes_ok_xor; assumption].
Qed.
Lemma xor_cancel s rk : st_ok s -> st_ok rk -> xor_bytes (xor_bytes s rk) rk = s.
Proof. intros [L1 _] [L2 _]. apply xor_bytes_cancel. lia. Qed.

Lemma sub_bytes_ok s : st_ok s -> st_ok (sub_bytes s).
Proof.
  intros [L B]. split; [unfold sub_bytes; rewrite map_length; exact L|].
  unfold sub_bytes, bytes_ok in *. rewrite Forall_map. eapply Forall_impl; [|exact B]. intros a Ha. apply sbox_byte. exact Ha.
Qed.
Lemma inv_sub_sub s : bytes_ok s -> inv_sub_bytes (sub_bytes s) = s.
Proof.
  unfold inv_sub_bytes, sub_bytes. induction 1 as [|a s Ha Hs IH]; [reflexivity|].
  cbn [map]. rewrite isbox_sbox by exact Ha. rewrite IH. reflexivity.
Qed.

Lemma inv_shift_shift s : length s = 16%nat -> inv_shift_rows (shift_rows s) = s.
Proof.
  intros L. do 16 (destruct s as [|? s]; [discriminate L|]). destruct s; [reflexivity|discriminate L].
Qed.
Lemma bytes_ok_nth s i : bytes_ok s -> nth i s 0 < 256.
Proof.
  intros B. destruct (Nat.lt_ge_cases i (length s)) as [Hi|Hi].
  - unfold bytes_ok in B. rewrite Forall_forall in B. apply B. apply nth_In. exact Hi.
  - rewrite nth_overflow by exact Hi. lia.
Qed.
Lemma shift_rows_ok s : bytes_ok s -> st_ok (shift_rows s).
Proof.
  intros B. split; [reflexivity|]. unfold shift_rows, bytes_ok. rewrite Forall_map. apply Forall_forall.
  intros i _. apply bytes_ok_nth. exact B.
Qed.

Lemma mix_col_eq a0 a1 a2 a3 : mix_col a0 a1 a2 a3 =
  [x4 (gmul 2 a0) (gmul 3 a1) a2 a3; x4 a0 (gmul 2 a1) (gmul 3 a2) a3; x4 a0 a1 (gmul 2 a2) (gmul 3 a3); x4 (gmul 3 a0) a1 a2 (gmul 2 a3)].
Proof. reflexivity. Qed.
Lemma mix_col_ok a0 a1 a2 a3 : a0 < 256 -> a1 < 256 -> a2 < 256 -> a3 < 256 -> bytes_ok (mix_col a0 a1 a2 a3).
Proof.
  intros H0 H1 H2 H3. unfold mix_col.
  repeat (apply Forall_cons; [apply x4_byte; first [assumption | apply gmul_byte; [lia|assumption]]|]). constructor.
Qed.
Lemma mix_columns_facts n : forall s, (length s <= n)%nat -> bytes_ok s -> (length s mod 4 = 0)%nat ->
  inv_mix_columns (mix_columns s) = s /\ length (mix_columns s) = length s /\ bytes_ok (mix_columns s).
Proof.
  induction n as [|n IH]; intros s Hn B Hm.
  - destruct s; [repeat split; constructor|cbn in Hn; lia].
  - destruct s as [|a0 [|a1 [|a2 [|a3 r]]]]; try (cbn in Hm; discriminate Hm); [repeat split; constructor|].
    apply bytes_ok_cons in B. destruct B as [H0 B]. apply bytes_ok_cons in B. destruct B as [H1 B].
    apply bytes_ok_cons in B. destruct B as [H2 B]. apply bytes_ok_cons in B. destruct B as [H3 B].
    assert (Hr : (length r mod 4 = 0)%nat).
    { cbn [length] in Hm. replace (S (S (S (S (length r))))) with (length r + 1 * 4)%nat in Hm by lia.
      rewrite Nat.mod_add in Hm by lia. exact Hm. }
    destruct (IH r ltac:(cbn [length] in Hn; lia) B Hr) as (I1 & I2 & I3).
    unfold mix_columns, inv_mix_columns in *. cbn [cols]. rewrite mix_col_eq. cbn [app cols].
    rewrite inv_mix_col_mix_col by assumption. cbn [app]. rewrite I1.
    split; [reflexivity|]. split; [cbn [length]; rewrite I2; reflexivity|].
    repeat (apply Forall_cons; [apply x4_byte; first [assumption | apply gmul_byte; [lia|assumption]]|]). exact I3.
Qed.
Lemma mix_columns_ok s : st_ok s -> st_ok (mix_columns s) /\ inv_mix_columns (mix_columns s) = s.
Proof.
  intros [L B]. destruct (mix_columns_facts 16 s ltac:(lia) B ltac:(rewrite L; reflexivity)) as (I1 & I2 & I3).
  split; [split; [rewrite I2; exact L|exact I3]|exact I1].
Qed.

(* ---------- the round structure, for any list of well-formed round keys ---------- *)
Definition T (s : list N) : list N := shift_rows (sub_bytes s).
Lemma T_ok s : st_ok s -> st_ok (T s).
Proof. intros H. apply shift_rows_ok. apply (sub_bytes_ok s H). Qed.
Lemma inv_T s : st_ok s -> inv_sub_bytes (inv_shift_rows (T s)) = s.
Proof.
  intros H. unfold T. rewrite inv_shift_shift by (apply (sub_bytes_ok s H)). apply inv_sub_sub. apply H.
Qed.

Lemma dec_rounds_cons x rk k : k <> [] ->
  dec_rounds x (rk :: k) = dec_rounds (inv_mix_columns (xor_bytes (inv_sub_bytes (inv_shift_rows x)) rk)) k.
Proof. destruct k; [congruence|reflexivity]. Qed.
Lemma enc_rounds_cons s rk r : r <> [] ->
  enc_rounds s (rk :: r) = enc_rounds (xor_bytes (mix_columns (T s)) rk) r.
Proof. destruct r; [congruence|reflexivity]. Qed.

Lemma rounds_inverse r : forall rk s k, Forall st_ok (rk :: r) -> st_ok s -> k <> [] ->
  dec_rounds (xor_bytes (enc_rounds s (rk :: r)) (last (rk :: r) [])) (rev (removelast (rk :: r)) ++ k) = dec_rounds (T s) k /\
  st_ok (enc_rounds s (rk :: r)).
Proof.
  induction r as [|rk2 r IH]; intros rk s k Hrk Hs Hk.
  - inversion Hrk as [|? ? Hrk1 _]; subst. cbn [enc_rounds last removelast rev app]. fold (T s).
    rewrite xor_cancel by (try apply T_ok; assumption). split; [reflexivity|]. apply st_ok_xor; [apply T_ok|]; assumption.
  - inversion Hrk as [|? ? Hrk1 Hrest]; subst.
    rewrite enc_rounds_cons by discriminate.
    destruct (mix_columns_ok (T s) (T_ok s Hs)) as [Hm Hmi].
    set (s' := xor_bytes (mix_columns (T s)) rk).
    assert (Hs' : st_ok s') by (apply st_ok_xor; assumption).
    change (last (rk :: rk2 :: r) []) with (last (rk2 :: r) []).
    change (removelast (rk :: rk2 :: r)) with (rk :: removelast (rk2 :: r)).
    cbn [rev]. rewrite <- app_assoc. cbn [app].
    destruct (IH rk2 s' (rk :: k) Hrest Hs' ltac:(discriminate)) as [I1 I2].
    rewrite I1. split; [|exact I2].
    rewrite dec_rounds_cons by exact Hk. rewrite inv_T by exact Hs'.
    unfold s'. rewrite xor_cancel by assumption. rewrite Hmi. reflexivity.
Qed.

Lemma rev_last_removelast {A} (l : list A) d : l <> [] -> rev l = last l d :: rev (removelast l).
Proof.
  intros H. rewrite (app_removelast_last d H) at 1. rewrite rev_app_distr. reflexivity.
Qed.

Lemma aes_rk_inverse rks b : Forall st_ok rks -> st_ok b ->
  aes_dec_rk rks (aes_enc_rk rks b) = b /\ st_ok (aes_enc_rk rks b).
Proof.
  intros Hr Hb. destruct rks as [|rk0 r]; [split; [reflexivity|exact Hb]|].
  inversion Hr as [|? ? H0 Hrest]; subst.
  unfold aes_enc_rk, aes_dec_rk.
  assert (Hs : st_ok (xor_bytes b rk0)) by (apply st_ok_xor; assumption).
  destruct r as [|rk1 r].
  - cbn [enc_rounds rev app dec_rounds]. rewrite xor_cancel by assumption. split; [reflexivity|exact Hs].
  - change (rev (rk0 :: rk1 :: r)) with (rev (rk1 :: r) ++ [rk0]).
    rewrite (rev_last_removelast (rk1 :: r) []) by discriminate. rewrite <- app_comm_cons.
    destruct (rounds_inverse r rk1 (xor_bytes b rk0) [rk0] Hrest Hs ltac:(discriminate)) as [I1 I2].
    rewrite I1. split; [|exact I2]. cbn [dec_rounds]. rewrite inv_T by exact Hs. apply xor_cancel; assumption.
Qed.

(* ---------- the expanded key is well formed, for every key of at least four bytes ---------- *)
Definition word_ok (w : list N) : Prop := length w = 4%nat /\ bytes_ok w.
Lemma word_ok_nth rw j : Forall word_ok rw -> (j < length rw)%nat -> word_ok (nth j rw []).
Proof. intros H Hj. rewrite Forall_forall in H. apply H. apply nth_In. exact Hj. Qed.
Lemma word_ok_xor a b : word_ok a -> word_ok b -> word_ok (xor_bytes a b).
Proof. intros [L1 B1] [L2 B2]. split; [rewrite xor_bytes_length; lia|apply bytes_ok_xor; assumption]. Qed.
Lemma word_ok_sbox w : word_ok w -> word_ok (map sbox w).
Proof.
  intros [L B]. split; [rewrite map_length; exact L|]. unfold bytes_ok in *. rewrite Forall_map.
  eapply Forall_impl; [|exact B]. intros a Ha. apply sbox_byte. exact Ha.
Qed.
Lemma word_ok_rot w : word_ok w -> word_ok (rot_word w).
Proof.
  intros [L B]. destruct w as [|a r]; [discriminate L|]. cbn [rot_word]. apply bytes_ok_cons in B. destruct B as [Ha Br].
  split; [rewrite app_length; cbn [length] in *; lia|]. apply bytes_ok_app. split; [exact Br|]. repeat constructor. exact Ha.
Qed.

Lemma expand_ok n : forall nk i rc rw, (1 <= nk)%nat -> (nk <= length rw)%nat -> rc < 256 -> Forall word_ok rw ->
  Forall word_ok (expand_fuel n nk i rc rw) /\ length (expand_fuel n nk i rc rw) = (n + length rw)%nat.
Proof.
  induction n as [|n IH]; intros nk i rc rw Hnk Hlen Hrc Hrw; [split; [exact Hrw|reflexivity]|].
  cbn [expand_fuel].
  assert (Hprev : word_ok (nth 0 rw [])) by (apply word_ok_nth; [exact Hrw|lia]).
  assert (Hold : word_ok (nth (nk - 1) rw [])) by (apply word_ok_nth; [exact Hrw|lia]).
  assert (Hrcw : word_ok [rc; 0; 0; 0]) by (split; [reflexivity|repeat constructor; exact Hrc]).
  match goal with |- Forall word_ok (expand_fuel n nk (S i) ?rc' (?w :: rw)) /\ _ =>
    assert (Hw : word_ok w); [|assert (Hrc' : rc' < 256)] end.
  - apply word_ok_xor; [exact Hold|].
    destruct (Nat.eqb (Nat.modulo i nk) 0).
    + apply word_ok_xor; [apply word_ok_sbox, word_ok_rot; exact Hprev|exact Hrcw].
    + destruct (Nat.ltb 6 nk && Nat.eqb (Nat.modulo i nk) 4); [apply word_ok_sbox|]; exact Hprev.
  - destruct (Nat.eqb (Nat.modulo i nk) 0); [apply xtime_byte|]; exact Hrc.
  - destruct (IH nk (S i) _ (_ :: rw) Hnk ltac:(cbn [length]; lia) Hrc' (Forall_cons _ Hw Hrw)) as [I1 I2].
    split; [exact I1|]. rewrite I2. cbn [length]. lia.
Qed.

Lemma words4_ok n : forall l, (length l <= n)%nat -> bytes_ok l ->
  Forall word_ok (words4 l) /\ length (words4 l) = Nat.div (length l) 4.
Proof.
  induction n as [|n IH]; intros l Hn B.
  - destruct l; [split; [constructor|reflexivity]|cbn in Hn; lia].
  - destruct l as [|a [|b [|c [|d r]]]]; try (split; [constructor|reflexivity]).
    apply bytes_ok_cons in B. destruct B as [Ha B]. apply bytes_ok_cons in B. destruct B as [Hb B].
    apply bytes_ok_cons in B. destruct B as [Hc B]. apply bytes_ok_cons in B. destruct B as [Hd B].
    destruct (IH r ltac:(cbn [length] in Hn; lia) B) as [I1 I2]. cbn [words4]. split.
    + constructor; [split; [reflexivity|repeat constructor; assumption]|exact I1].
    + cbn [length]. rewrite I2. replace (S (S (S (S (length r))))) with (length r + 1 * 4)%nat by lia.
      rewrite Nat.div_add by lia. lia.
Qed.

Lemma group4_ok n : forall w, Forall word_ok w -> Forall (fun g => st_ok (concat g)) (group4 w n).
Proof.
  induction n as [|n IH]; intros w Hw; [destruct w; cbn [group4]; constructor|].
  destruct w as [|a [|b [|c [|d r]]]]; cbn [group4]; try constructor.
  - inversion Hw as [|? ? [La Ba] Hw1]; subst. inversion Hw1 as [|? ? [Lb Bb] Hw2]; subst.
    inversion Hw2 as [|? ? [Lc Bc] Hw3]; subst. inversion Hw3 as [|? ? [Ld Bd] Hw4]; subst.
    cbn [concat]. split.
    + rewrite !app_length, La, Lb, Lc, Ld. reflexivity.
    + rewrite app_nil_r. repeat (apply bytes_ok_app; split); assumption.
  - apply IH. inversion Hw as [|? ? _ Hw1]; subst. inversion Hw1 as [|? ? _ Hw2]; subst.
    inversion Hw2 as [|? ? _ Hw3]; subst. inversion Hw3 as [|? ? _ Hw4]; subst. exact Hw4.
Qed.

Lemma key_expansion_ok key : bytes_ok key -> (4 <= length key)%nat -> Forall st_ok (key_expansion key).
Proof.
  intros B L. unfold key_expansion. rewrite Forall_map. apply group4_ok. apply Forall_rev.
  destruct (words4_ok (length key) key ltac:(lia) B) as [W1 W2].
  assert (Hnk : (1 <= Nat.div (length key) 4)%nat) by (apply Nat.div_le_lower_bound; lia).
  apply expand_ok; [exact Hnk|rewrite rev_length, W2; lia|lia|apply Forall_rev; exact W1].
Qed.

(* InvCipher inverts Cipher: every key of at least four bytes (16, 24, 32 in use), every block of 16 bytes *)
Theorem aes_inverse_lemma key b : bytes_ok key -> (4 <= length key)%nat -> length b = 16%nat -> bytes_ok b ->
  aes_dec key (aes_enc key b) = b /\ length (aes_enc key b) = 16%nat /\ bytes_ok (aes_enc key b).
Proof.
  intros Bk Lk Lb Bb. unfold aes_dec, aes_enc.
  destruct (aes_rk_inverse (key_expansion key) b (key_expansion_ok key Bk Lk) (conj Lb Bb)) as [I1 [I2 I3]].
  auto.
Qed.

(* ---------- CBC over a cipher that is invertible on blocks of BYTES (the section hypotheses of ProofsCbc ask for all lists) ---------- *)
Section CbcBytes.
  Variable E Dc : list N -> list N.
  Hypothesis E_ok : forall b, length b = 16%nat -> bytes_ok b -> length (E b) = 16%nat /\ bytes_ok (E b).
  Hypothesis DE : forall b, length b = 16%nat -> bytes_ok b -> Dc (E b) = b.

  Lemma cbc_inverse_chain_bytes p : whole p -> bytes_ok p -> forall iv, length iv = 16%nat -> bytes_ok iv ->
    chain (dec_step Dc) iv (fst (chain (enc_step E) iv p)) = (p, snd (chain (enc_step E) iv p)) /\
    length (fst (chain (enc_step E) iv p)) = length p /\
    length (snd (chain (enc_step E) iv p)) = 16%nat /\ bytes_ok (snd (chain (enc_step E) iv p)).
  Proof.
    intros Hw. pattern p. apply blocks_ind; [| |exact Hw]; clear p Hw.
    - intros _ iv Hiv Biv. rewrite (chain_small (enc_step E) iv []) by (cbn; lia). cbn [fst snd].
      rewrite (chain_small (dec_step Dc) iv []) by (cbn; lia). auto.
    - intros b r Hb Hr IH Bbr iv Hiv Biv. apply bytes_ok_app in Bbr. destruct Bbr as [Bb Br].
      set (c := E (xor_bytes b iv)).
      assert (Hx : length (xor_bytes b iv) = 16%nat) by (rewrite xor_bytes_length; lia).
      assert (Bx : bytes_ok (xor_bytes b iv)) by (apply bytes_ok_xor; assumption).
      destruct (E_ok _ Hx Bx) as [Hc Bc]. fold c in Hc, Bc.
      destruct (IH Br c Hc Bc) as (I1 & I2 & I3 & I4).
      destruct (chain (enc_step E) c r) as [out iv'] eqn:Er. cbn [fst snd] in *.
      assert (Hcc : chain (enc_step E) iv (b ++ r) = (c ++ out, iv')).
      { rewrite chain_cons by exact Hb. unfold enc_step at 1. fold c. rewrite Er. reflexivity. }
      rewrite Hcc. cbn [fst snd].
      rewrite chain_cons by exact Hc. unfold dec_step at 1. rewrite I1.
      unfold c at 1. rewrite DE by assumption. rewrite xor_bytes_cancel by lia.
      split; [reflexivity|]. split; [rewrite !app_length; lia|]. split; assumption.
  Qed.
  Lemma cbc_inverse_bytes iv p : length iv = 16%nat -> bytes_ok iv -> whole p -> bytes_ok p ->
    cbc_dec Dc iv (fst (cbc_enc E iv p)) = (p, snd (cbc_enc E iv p)).
  Proof.
    intros Hiv Biv Hw Bp. rewrite cbc_dec_chain, cbc_enc_chain. apply cbc_inverse_chain_bytes; assumption.
  Qed.
  Lemma cbc_calls_inverse_bytes iv pcalls ccalls :
    length iv = 16%nat -> bytes_ok iv -> Forall whole pcalls -> bytes_ok (concat pcalls) -> Forall whole ccalls ->
    concat ccalls = fst (cbc_encrypt_calls E (cbc_set_iv iv) pcalls) ->
    fst (cbc_decrypt_calls Dc (cbc_set_iv iv) ccalls) = concat pcalls.
  Proof.
    intros Hiv Biv Hp Bp Hc Heq.
    rewrite (cbc_encrypt_calls_concat E pcalls Hp) in Heq. rewrite (cbc_decrypt_calls_concat Dc ccalls Hc).
    cbn [fst snd c_iv_enc c_iv_dec cbc_set_iv] in *. rewrite Heq.
    rewrite cbc_inverse_bytes by (try apply whole_concat; assumption). reflexivity.
  Qed.
End CbcBytes.

(* ---------- closed statements for AES-CBC ---------- *)
Lemma aes_E_ok key : bytes_ok key -> (4 <= length key)%nat ->
  (forall b, length b = 16%nat -> bytes_ok b -> length (aes_E key b) = 16%nat /\ bytes_ok (aes_E key b)) /\
  (forall b, length b = 16%nat -> bytes_ok b -> aes_D key (aes_E key b) = b).
Proof.
  intros Bk Lk. split; intros b Lb Bb; destruct (aes_inverse_lemma key b Bk Lk Lb Bb) as (I1 & I2 & I3).
  - split; [exact I2|exact I3].
  - exact I1.
Qed.

Lemma aes_cbc_inverse_lemma key iv p : bytes_ok key -> (4 <= length key)%nat ->
  length iv = 16%nat -> bytes_ok iv -> (length p mod 16 = 0)%nat -> bytes_ok p ->
  cbc_dec (aes_D key) iv (fst (cbc_enc (aes_E key) iv p)) = (p, snd (cbc_enc (aes_E key) iv p)).
Proof.
  intros Bk Lk Hiv Biv Hw Bp. destruct (aes_E_ok key Bk Lk) as [H1 H2].
  apply (cbc_inverse_bytes (aes_E key) (aes_D key) H1 H2); assumption.
Qed.

(* the objects of two nodes, real cipher, no hypotheses left *)
Lemma obj_enc_side (E Dc : list N -> list N -> list N) ks K K2 iv pcalls : 0 < ks -> len K = ks -> length iv = 16%nat ->
  outputs (obj_run E Dc ks obj_new (OKey K :: OIv iv :: OKey K2 :: map (@OEnc) pcalls)) =
  fst (cbc_encrypt_calls (E K) (cbc_set_iv iv) pcalls).
Proof.
  intros Hks HK Hiv.
  assert (Hiv' : (len iv =? 16) = true) by (apply N.eqb_eq; unfold len; lia).
  assert (HK' : (len K =? ks) = true) by (apply N.eqb_eq; exact HK).
  rewrite obj_refines_ref by exact Hks. cbn [first_key]. rewrite HK'.
  cbn [ref_run ref_step ref_new r_keyed r_ivok r_ivs negb]. rewrite HK', Hiv'. cbn [negb].
  cbn [ref_run ref_step ref_new r_keyed r_ivok r_ivs negb].
  unfold outputs. cbn [map snd concat app].
  fold (outputs (ref_run E Dc ks K (mk_ref true true (cbc_set_iv iv)) (map (@OEnc) pcalls))).
  apply ref_enc_calls.
Qed.
Lemma obj_dec_side (E Dc : list N -> list N -> list N) ks K iv ccalls : 0 < ks -> len K = ks -> length iv = 16%nat ->
  outputs (obj_run E Dc ks obj_new (OKey K :: OIv iv :: map (@ODec) ccalls)) =
  fst (cbc_decrypt_calls (Dc K) (cbc_set_iv iv) ccalls).
Proof.
  intros Hks HK Hiv.
  assert (Hiv' : (len iv =? 16) = true) by (apply N.eqb_eq; unfold len; lia).
  assert (HK' : (len K =? ks) = true) by (apply N.eqb_eq; exact HK).
  rewrite obj_refines_ref by exact Hks. cbn [first_key]. rewrite HK'.
  cbn [ref_run ref_step ref_new r_keyed r_ivok r_ivs negb]. rewrite HK', Hiv'. cbn [negb].
  unfold outputs. cbn [map snd concat app].
  fold (outputs (ref_run E Dc ks K (mk_ref true true (cbc_set_iv iv)) (map (@ODec) ccalls))).
  apply ref_dec_calls.
Qed.

Lemma aes_two_nodes_lemma ks K K2 iv pcalls ccalls :
  4 <= ks -> len K = ks -> bytes_ok K -> length iv = 16%nat -> bytes_ok iv ->
  Forall (fun p => (length p mod 16 = 0)%nat) pcalls -> bytes_ok (concat pcalls) ->
  Forall (fun c => (length c mod 16 = 0)%nat) ccalls ->
  concat ccalls = outputs (aes_obj_run ks (OKey K :: OIv iv :: OKey K2 :: map (@OEnc) pcalls)) ->
  outputs (aes_obj_run ks (OKey K :: OIv iv :: map (@ODec) ccalls)) = concat pcalls.
Proof.
  intros Hks HK BK Hiv Biv Hp Bp Hc Heq. unfold aes_obj_run in *.
  assert (LK : (4 <= length K)%nat) by (unfold len in HK; lia).
  rewrite obj_enc_side in Heq by (try assumption; lia). rewrite obj_dec_side by (try assumption; lia).
  destruct (aes_E_ok K BK LK) as [H1 H2].
  apply (cbc_calls_inverse_bytes (aes_E K) (aes_D K) H1 H2 iv pcalls ccalls); assumption.
Qed.
