(* C16: facts about the generic block absorption and the byte/word helpers of Defs.v *)
From CppcmsV Require Import Base.Tac C16.Defs.
Local Open Scope N_scope.

(* ---------- words ---------- *)
Lemma w32_mod x : w32 x = x mod 4294967296.
Proof. unfold w32, mask32. change 4294967295 with (N.ones 32). rewrite N.land_ones. reflexivity. Qed.
Lemma w64_mod x : w64 x = x mod 18446744073709551616.
Proof. unfold w64. change 18446744073709551615 with (N.ones 64). rewrite N.land_ones. reflexivity. Qed.
Lemma add32_mod a b : add32 a b = (a + b) mod 4294967296.
Proof. unfold add32. apply w32_mod. Qed.
Lemma w32_lt x : w32 x < 4294967296.
Proof. rewrite w32_mod. apply N.mod_lt. discriminate. Qed.
Lemma byte_of_spec w sh : byte_of w sh = (w / 2 ^ sh) mod 256.
Proof. unfold byte_of. change 255 with (N.ones 8). rewrite N.land_ones, N.shiftr_div_pow2. reflexivity. Qed.

(* ---------- lists ---------- *)
Lemma len_app a b : len (a ++ b) = len a + len b.
Proof. unfold len. rewrite app_length. lia. Qed.
Lemma len_nil : len [] = 0.
Proof. reflexivity. Qed.
Lemma take_all l n : len l <= n -> take n l = l.
Proof. unfold take, len. intros H. apply firstn_all2. lia. Qed.
Lemma take_app_exact a b : take (len a) (a ++ b) = a.
Proof.
  unfold take, len. rewrite Nat2N.id.
  rewrite firstn_app, Nat.sub_diag, firstn_all. cbn [firstn]. apply app_nil_r.
Qed.
Lemma drop_all l n : len l <= n -> drop n l = [].
Proof. unfold drop, len. intros H. apply skipn_all2. lia. Qed.
Lemma take_drop n l : take n l ++ drop n l = l.
Proof. apply firstn_skipn. Qed.
Lemma len_take n l : n <= len l -> len (take n l) = n.
Proof. unfold take, len. intros H. rewrite firstn_length. lia. Qed.
Lemma len_drop n l : len (drop n l) = len l - n.
Proof. unfold drop, len. rewrite skipn_length. lia. Qed.
Lemma len_repeat (x : N) n : len (repeat x n) = N.of_nat n.
Proof. unfold len. rewrite repeat_length. reflexivity. Qed.
Lemma len_poke buf off src : off + len src <= len buf -> len (poke buf off src) = len buf.
Proof.
  intros H. unfold poke. rewrite !len_app, len_drop, len_take by lia. lia.
Qed.
Lemma take_poke buf off src : off <= len buf -> take (off + len src) (poke buf off src) = take off buf ++ src.
Proof.
  intros H. unfold poke. rewrite app_assoc.
  replace (off + len src) with (len (take off buf ++ src)) by (rewrite len_app, len_take by lia; lia).
  apply take_app_exact.
Qed.

Lemma firstn_app_n (n : nat) (b m : list N) : length b = n -> firstn n (b ++ m) = b.
Proof. intros <-. rewrite firstn_app, Nat.sub_diag, firstn_all. cbn [firstn]. apply app_nil_r. Qed.
Lemma skipn_app_n (n : nat) (b m : list N) : length b = n -> skipn n (b ++ m) = m.
Proof. intros <-. rewrite skipn_app, Nat.sub_diag, skipn_all. reflexivity. Qed.

(* ---------- absorb ---------- *)
Section AbsorbFacts.
  Variable H : Type.
  Variable compress : H -> list N -> H.
  Notation absorb_fuel := (absorb_fuel compress).
  Notation absorb := (absorb compress).

  Lemma absorb_fuel_S fuel : forall h m, (length m <= fuel)%nat -> absorb_fuel (S fuel) h m = absorb_fuel fuel h m.
  Proof.
    induction fuel as [|f IH]; intros h m Hl.
    - destruct m; [reflexivity|cbn in Hl; lia].
    - change (absorb_fuel (S (S f)) h m) with
        (if Nat.leb 64 (length m) then absorb_fuel (S f) (compress h (firstn 64 m)) (skipn 64 m) else (h, m)).
      change (absorb_fuel (S f) h m) with
        (if Nat.leb 64 (length m) then absorb_fuel f (compress h (firstn 64 m)) (skipn 64 m) else (h, m)).
      destruct (Nat.leb 64 (length m)) eqn:E; [|reflexivity].
      apply IH. rewrite skipn_length. apply Nat.leb_le in E. lia.
  Qed.
  Lemma absorb_fuel_enough fuel h m : (length m <= fuel)%nat -> absorb_fuel fuel h m = absorb h m.
  Proof.
    unfold Defs.absorb. intros Hl.
    replace fuel with ((fuel - length m) + length m)%nat by lia.
    induction (fuel - length m)%nat as [|k IH]; [reflexivity|].
    cbn [Nat.add]. rewrite absorb_fuel_S by lia. exact IH.
  Qed.
  Lemma absorb_small h m : (length m < 64)%nat -> absorb h m = (h, m).
  Proof.
    intros Hl. unfold Defs.absorb. destruct (length m) eqn:E; [reflexivity|].
    cbn [Defs.absorb_fuel]. rewrite E. destruct (Nat.leb 64 (S n)) eqn:E2; [apply Nat.leb_le in E2; lia|reflexivity].
  Qed.
  Lemma absorb_fuel_unfold f h m :
    absorb_fuel (S f) h m = if Nat.leb 64 (length m) then absorb_fuel f (compress h (firstn 64 m)) (skipn 64 m) else (h, m).
  Proof. reflexivity. Qed.
  Lemma absorb_block h b m : length b = 64%nat -> absorb h (b ++ m) = absorb (compress h b) m.
  Proof.
    intros Hb. unfold Defs.absorb at 1.
    replace (length (b ++ m)) with (S (63 + length m)) by (rewrite app_length, Hb; lia).
    rewrite absorb_fuel_unfold.
    replace (Nat.leb 64 (length (b ++ m))) with true by (symmetry; apply Nat.leb_le; rewrite app_length; lia).
    rewrite (firstn_app_n _ b m Hb), (skipn_app_n _ b m Hb).
    apply absorb_fuel_enough. lia.
  Qed.
  Lemma absorb_step h m : (64 <= length m)%nat -> absorb h m = absorb (compress h (firstn 64 m)) (skipn 64 m).
  Proof.
    intros Hl. rewrite <- (firstn_skipn 64 m) at 1. apply absorb_block. rewrite firstn_length. lia.
  Qed.
  Lemma absorb_app_aux n : forall h m c, (length m <= n)%nat ->
    absorb h (m ++ c) = absorb (fst (absorb h m)) (snd (absorb h m) ++ c).
  Proof.
    induction n as [|n IH]; intros h m c Hl.
    - destruct m; [reflexivity|cbn in Hl; lia].
    - destruct (Nat.leb 64 (length m)) eqn:E.
      + apply Nat.leb_le in E. rewrite (absorb_step h m E).
        rewrite <- (firstn_skipn 64 m) at 1. rewrite <- app_assoc.
        rewrite absorb_block by (rewrite firstn_length; lia).
        apply IH. rewrite skipn_length. lia.
      + apply Nat.leb_gt in E. rewrite (absorb_small h m E). reflexivity.
  Qed.
  Lemma absorb_app h m c : absorb h (m ++ c) = absorb (fst (absorb h m)) (snd (absorb h m) ++ c).
  Proof. apply (absorb_app_aux (length m)). lia. Qed.
  Lemma absorb_rest_aux n : forall h m, (length m <= n)%nat -> length (snd (absorb h m)) = (length m mod 64)%nat.
  Proof.
    induction n as [|n IH]; intros h m Hl.
    - destruct m; [reflexivity|cbn in Hl; lia].
    - destruct (Nat.leb 64 (length m)) eqn:E.
      + apply Nat.leb_le in E. rewrite (absorb_step h m E), IH by (rewrite skipn_length; lia).
        rewrite skipn_length. replace (length m) with ((length m - 64) + 1 * 64)%nat at 2 by lia.
        rewrite Nat.mod_add by lia. reflexivity.
      + apply Nat.leb_gt in E. rewrite (absorb_small h m E). cbn [snd]. rewrite Nat.mod_small; lia.
  Qed.
  Lemma absorb_rest h m : len (snd (absorb h m)) = len m mod 64.
  Proof.
    unfold len. rewrite (absorb_rest_aux (length m)) by lia.
    pose proof (Nat.mod_upper_bound (length m) 64). lia.
  Qed.
  Lemma absorb_nil h : absorb h [] = (h, []).
  Proof. reflexivity. Qed.
End AbsorbFacts.
