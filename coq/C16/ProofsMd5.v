(* C16: the MD5 object of src/md5.cpp + crypto.cpp refines pad-then-fold (RFC 1321) *)
From CppcmsV Require Import Base.Tac C16.Defs C16.Blocks C16.Md5Arith.
Local Open Scope N_scope.

(* ---------- the representation relation ---------- *)
Notation md5_abs := (absorb md5_process md5_abcd0).
Definition md5_rep (st : md5_state) (m : list N) : Prop :=
  m_abcd st = fst (md5_abs m) /\
  take (len m mod 64) (m_buf st) = snd (md5_abs m) /\
  len (m_buf st) = 64 /\
  m_count0 st < 4294967296 /\
  m_count0 st + 4294967296 * m_count1 st = (8 * len m) mod 18446744073709551616.

Lemma md5_tail_rep c0 c1 h buf q m :
  len buf = 64 ->
  fst (md5_abs m) = h -> snd (md5_abs m) = [] ->
  c0 < 4294967296 -> c0 + 4294967296 * c1 = (8 * len (m ++ q)) mod 18446744073709551616 ->
  md5_rep (md5_tail c0 c1 h buf q) (m ++ q).
Proof.
  intros Hl Hh Hr H0 H1. unfold md5_tail, md5_blocks.
  rewrite absorb_fuel_enough by lia.
  assert (Habs : md5_abs (m ++ q) = absorb md5_process h q).
  { rewrite absorb_app, Hh, Hr. reflexivity. }
  destruct (absorb md5_process h q) as [h' rest] eqn:E.
  assert (Hrest : len rest = len (m ++ q) mod 64).
  { rewrite <- absorb_rest with (compress := md5_process) (h := md5_abcd0). rewrite Habs. reflexivity. }
  assert (Hlt : len rest < 64) by (rewrite Hrest; apply N.mod_lt; discriminate).
  unfold md5_rep. cbn [m_abcd m_buf m_count0 m_count1]. rewrite Habs. cbn [fst snd].
  split; [reflexivity|]. split.
  - rewrite <- Hrest. replace (len rest) with (0 + len rest) by lia.
    rewrite take_poke by lia. reflexivity.
  - split; [rewrite len_poke; lia|]. split; assumption.
Qed.

Lemma md5_append_c_rep st m p :
  md5_rep st m -> 0 < len p < 2147483648 -> md5_rep (md5_append_c st p) (m ++ p).
Proof.
  intros (Ha & Hb & Hl & H0 & H1) Hp. unfold md5_append_c.
  destruct (N.eqb_spec (len p) 0) as [E0|E0]; [lia|]. clear E0.
  pose proof (md5_count_update _ _ _ _ H0 H1 Hp) as Hcnt. cbv zeta in Hcnt.
  set (nbits := w32 (N.shiftl (len p) 3)) in *.
  set (c0' := add32 (m_count0 st) nbits) in *.
  set (c1' := if c0' <? nbits then add32 (add32 (m_count1 st) (N.shiftr (len p) 29)) 1
              else add32 (m_count1 st) (N.shiftr (len p) 29)) in *.
  destruct Hcnt as [Hc0 Hc1]. rewrite <- len_app in Hc1.
  assert (Hoff : N.land (N.shiftr (m_count0 st) 3) 63 = len m mod 64).
  { apply md5_offset_of_count. lia. }
  rewrite Hoff.
  pose proof (absorb_rest _ md5_process md5_abcd0 m) as Hrl.
  assert (Hofflt : len m mod 64 < 64) by (apply N.mod_lt; discriminate).
  destruct (N.eqb_spec (len m mod 64) 0) as [Ez|Ez].
  - (* buffer empty *)
    apply md5_tail_rep; try assumption; [symmetry; exact Ha|].
    rewrite Ez in Hrl. destruct (snd (md5_abs m)); [reflexivity|discriminate].
  - set (off := len m mod 64) in *.
    set (copy := if 64 <? off + len p then 64 - off else len p).
    assert (Hcopy : copy <= len p /\ off + copy <= 64).
    { unfold copy. destruct (N.ltb_spec 64 (off + len p)); lia. }
    assert (Hbuf1 : take (off + copy) (poke (m_buf st) off (take copy p)) = snd (md5_abs m) ++ take copy p).
    { rewrite <- Hb. rewrite <- (len_take copy p) at 1 by lia. apply take_poke. lia. }
    assert (Hlen1 : len (poke (m_buf st) off (take copy p)) = 64).
    { rewrite len_poke; rewrite ?len_take; lia. }
    destruct (N.ltb_spec (off + copy) 64) as [Hs|Hs].
    + (* still not a full block *)
      assert (Hcp : copy = len p) by (unfold copy in *; destruct (N.ltb_spec 64 (off + len p)); lia).
      clearbody copy. subst copy.
      rewrite (take_all p (len p)) in Hbuf1, Hlen1 |- * by lia.
      unfold md5_rep. cbn [m_abcd m_buf m_count0 m_count1].
      rewrite absorb_app. rewrite (absorb_small _ _ _ (snd (md5_abs m) ++ p)).
      2:{ rewrite app_length. unfold len in *. lia. }
      cbn [fst snd]. split; [exact Ha|]. split.
      * replace (len (m ++ p) mod 64) with (off + len p); [exact Hbuf1|].
        rewrite len_app. unfold off in *. lia.
      * split; [exact Hlen1|]. split; assumption.
    + (* the buffer fills up: process it, continue with the rest of p *)
      assert (Hc : off + copy = 64) by lia.
      rewrite Hc in Hbuf1. rewrite take_all in Hbuf1 by lia.
      rewrite Hbuf1.
      replace (m ++ p) with ((m ++ take copy p) ++ drop copy p) by (rewrite <- app_assoc, take_drop; reflexivity).
      assert (Hfull : md5_abs (m ++ take copy p) = (md5_process (m_abcd st) (snd (md5_abs m) ++ take copy p), [])).
      { rewrite absorb_app.
        rewrite <- (app_nil_r (snd (md5_abs m) ++ take copy p)) at 1.
        rewrite absorb_block.
        - rewrite Ha. reflexivity.
        - pose proof (len_app (snd (md5_abs m)) (take copy p)) as Hx.
          rewrite Hrl, len_take in Hx by lia. unfold len in Hx. lia. }
      apply md5_tail_rep.
      * rewrite <- Hbuf1. exact Hlen1.
      * rewrite Hfull. reflexivity.
      * rewrite Hfull. reflexivity.
      * exact Hc0.
      * rewrite <- app_assoc, take_drop. exact Hc1.
Qed.
