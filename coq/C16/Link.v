(* C16: the leaf functions and tables regenerated from the CURRENT source (coq/gen/Gen_C16_*.v) are the leafs of the
   model (coq/C16/Defs.v).  A source change that alters a constant, a macro body, a SET line or from_hex breaks a lemma here. *)
From CppcmsV Require Import Base.Tac Base.CSem Base.Sweep C16.Defs C16.Blocks.
From CppcmsV Require Import gen.Gen_C16_md5 gen.Gen_C16_crypto gen.Gen_C16_md5steps gen.Gen_C16_sha1consts.
Local Open Scope N_scope.

(* ---------- tables: closed terms, by evaluation ---------- *)
(* T1..T64 as the preprocessor sees them = the table of RFC 1321 *)
Lemma link_md5_T : map (fun i => Z.to_N (g_md5_T (Z.of_nat i))) (seq 1 64) = md5_T_rfc.
Proof. vm_compute. reflexivity. Qed.
(* the 64 SET lines (round function, k, s, Ti) in source order = md5_steps *)
Lemma link_md5_steps :
  map (fun e : Z * Z * Z * Z => let '(r, k, s, ti) := e in (Z.to_N r, Z.to_N k, Z.to_N s, Z.to_N (g_md5_T ti))) g_md5_steps = md5_steps.
Proof. vm_compute. reflexivity. Qed.
(* md5_init constants *)
Lemma link_md5_abcd0 :
  (let '(a, b, c, d) := md5_abcd0 in [Z.of_N a; Z.of_N b; Z.of_N c; Z.of_N d]) = g_md5_abcd0.
Proof. vm_compute. reflexivity. Qed.

(* ---------- key::from_hex(char): 256-point sweep (char is signed) ---------- *)
Lemma link_from_hex b : b < 256 -> Z.to_N (g_key_from_hex (wraps 8 (Z.of_N b))) = from_hex b.
Proof.
  intros H. apply N.eqb_eq.
  apply (sweep256 (fun b => Z.to_N (g_key_from_hex (wraps 8 (Z.of_N b))) =? from_hex b)); [vm_compute; reflexivity|exact H].
Qed.
(* the validity test in set_hex is written inline in the source; it accepts exactly where from_hex is meaningful *)
Lemma link_is_hex_from_hex b : b < 256 -> is_hex b = false -> from_hex b = 0.
Proof.
  intros H. apply (sweep256 (fun b => implb (negb (is_hex b)) (from_hex b =? 0))) in H; [|vm_compute; reflexivity].
  intros E. rewrite E in H. cbn in H. apply N.eqb_eq. exact H.
Qed.

(* ---------- bitwise functions on arbitrary 32-bit words: by bit extensionality ---------- *)
Local Open Scope Z_scope.
Module N2Z.
  Include Coq.ZArith.Znat.N2Z.
  Lemma inj_lor a b : Z.of_N (N.lor a b) = Z.lor (Z.of_N a) (Z.of_N b).
  Proof. apply Z.bits_inj'. intros n Hn. rewrite Z.lor_spec, !Z.testbit_of_N' by lia. apply N.lor_spec. Qed.
  Lemma inj_land a b : Z.of_N (N.land a b) = Z.land (Z.of_N a) (Z.of_N b).
  Proof. apply Z.bits_inj'. intros n Hn. rewrite Z.land_spec, !Z.testbit_of_N' by lia. apply N.land_spec. Qed.
  Lemma inj_lxor a b : Z.of_N (N.lxor a b) = Z.lxor (Z.of_N a) (Z.of_N b).
  Proof. apply Z.bits_inj'. intros n Hn. rewrite Z.lxor_spec, !Z.testbit_of_N' by lia. apply N.lxor_spec. Qed.
  Lemma inj_shiftl a n : Z.of_N (N.shiftl a n) = Z.shiftl (Z.of_N a) (Z.of_N n).
  Proof. rewrite N.shiftl_mul_pow2, Z.shiftl_mul_pow2, inj_mul, inj_pow by lia. reflexivity. Qed.
  Lemma inj_shiftr a n : Z.of_N (N.shiftr a n) = Z.shiftr (Z.of_N a) (Z.of_N n).
  Proof. rewrite N.shiftr_div_pow2, Z.shiftr_div_pow2, inj_div, inj_pow by lia. reflexivity. Qed.
End N2Z.
Lemma wrapu32_mod z : wrapu 32 z = z mod 2 ^ 32.
Proof. reflexivity. Qed.
Lemma high_bits_zero X : 0 <= X < 2 ^ 32 -> forall n, 32 <= n -> Z.testbit X n = false.
Proof. intros H n Hn. rewrite <- (Z.mod_small X (2 ^ 32)) by exact H. apply Z.mod_pow2_bits_high. lia. Qed.
Lemma ones32_low n : 0 <= n < 32 -> Z.testbit 4294967295 n = true.
Proof. intros H. change 4294967295 with (Z.ones 32). apply Z.ones_spec_low. lia. Qed.
Lemma ones32_high n : 32 <= n -> Z.testbit 4294967295 n = false.
Proof. intros H. change 4294967295 with (Z.ones 32). apply Z.ones_spec_high. lia. Qed.

Ltac bits_low :=
  repeat first [ rewrite wrapu32_mod | rewrite Z.mod_pow2_bits_low by lia | rewrite Z.lor_spec | rewrite Z.land_spec
               | rewrite Z.lxor_spec | rewrite Z.lnot_spec by lia | rewrite ones32_low by lia ].
Ltac bits_high :=
  repeat first [ rewrite wrapu32_mod | rewrite Z.mod_pow2_bits_high by lia | rewrite Z.lor_spec | rewrite Z.land_spec
               | rewrite Z.lxor_spec | rewrite ones32_high by lia ].

Section Words.
  Variables x y z : N.
  Hypothesis Hx : (x < 4294967296)%N.
  Hypothesis Hy : (y < 4294967296)%N.
  Hypothesis Hz : (z < 4294967296)%N.
  Let X := Z.of_N x.
  Let Y := Z.of_N y.
  Let Zz := Z.of_N z.
  Let HX : 0 <= X < 2 ^ 32. Proof. unfold X. change (2 ^ 32) with 4294967296. lia. Qed.
  Let HY : 0 <= Y < 2 ^ 32. Proof. unfold Y. change (2 ^ 32) with 4294967296. lia. Qed.
  Let HZ : 0 <= Zz < 2 ^ 32. Proof. unfold Zz. change (2 ^ 32) with 4294967296. lia. Qed.

  Ltac start f :=
    unfold f, not32, mask32; rewrite ?N2Z.inj_lor, ?N2Z.inj_land, ?N2Z.inj_lxor, ?N2Z.inj_lor, ?N2Z.inj_land, ?N2Z.inj_lxor;
    change (Z.of_N 4294967295) with 4294967295; fold X Y Zz;
    apply Z.bits_inj'; intros n Hn; destruct (Z.ltb_spec n 32) as [Hlo|Hhi].
  Ltac finish_high :=
    bits_high; rewrite ?(high_bits_zero X HX) by lia; rewrite ?(high_bits_zero Y HY) by lia; rewrite ?(high_bits_zero Zz HZ) by lia;
    reflexivity.
  Ltac finish_low :=
    bits_low; match goal with H : (?n < 32) |- _ => destruct (Z.testbit X n), (Z.testbit Y n), (Z.testbit Zz n) end; reflexivity.

  Lemma link_md5_F_Z : Z.of_N (md5_F x y z) = g_md5_F X Y Zz.
  Proof. unfold g_md5_F. start md5_F; [finish_low|finish_high]. Qed.
  Lemma link_md5_G_Z : Z.of_N (md5_G x y z) = g_md5_G X Y Zz.
  Proof. unfold g_md5_G. start md5_G; [finish_low|finish_high]. Qed.
  Lemma link_md5_H_Z : Z.of_N (md5_H x y z) = g_md5_H X Y Zz.
  Proof. unfold g_md5_H. start md5_H; [finish_low|finish_high]. Qed.
  Lemma link_md5_I_Z : Z.of_N (md5_I x y z) = g_md5_I X Y Zz.
  Proof. unfold g_md5_I. start md5_I; [finish_low|finish_high]. Qed.
End Words.

Local Open Scope N_scope.
Lemma link_md5_funs x y z : x < 4294967296 -> y < 4294967296 -> z < 4294967296 ->
  md5_F x y z = Z.to_N (g_md5_F (Z.of_N x) (Z.of_N y) (Z.of_N z)) /\
  md5_G x y z = Z.to_N (g_md5_G (Z.of_N x) (Z.of_N y) (Z.of_N z)) /\
  md5_H x y z = Z.to_N (g_md5_H (Z.of_N x) (Z.of_N y) (Z.of_N z)) /\
  md5_I x y z = Z.to_N (g_md5_I (Z.of_N x) (Z.of_N y) (Z.of_N z)).
Proof.
  intros Hx Hy Hz.
  rewrite <- (link_md5_F_Z x y z Hx Hy Hz), <- (link_md5_G_Z x y z Hx Hy Hz),
          <- (link_md5_H_Z x y z Hx Hy Hz), <- (link_md5_I_Z x y z Hx Hy Hz), !N2Z.id.
  repeat split; reflexivity.
Qed.

(* ---------- rotations: ROTATE_LEFT of md5.cpp and left_rotate of sha1.h, for every word and every shift 1..31 ---------- *)
Local Open Scope Z_scope.
Lemma rot_bits (op : Z -> Z -> Z) (opb : bool -> bool -> bool) :
  (forall a b n, Z.testbit (op a b) n = opb (Z.testbit a n) (Z.testbit b n)) -> opb false false = false ->
  forall X S, 0 <= X < 2 ^ 32 -> 0 < S < 32 ->
  op ((Z.shiftl X S) mod 2 ^ 32) (Z.shiftr X (32 - S)) =
  (op ((Z.shiftl X S) mod 2 ^ 32) ((Z.shiftr X (32 - S)) mod 2 ^ 32)) mod 2 ^ 32.
Proof.
  intros Hop Hff X S HX HS. apply Z.bits_inj'. intros n Hn.
  destruct (Z.ltb_spec n 32) as [Hlo|Hhi].
  - rewrite Z.mod_pow2_bits_low by lia. rewrite !Hop. rewrite (Z.mod_pow2_bits_low (Z.shiftr X (32 - S))) by lia. reflexivity.
  - rewrite (Z.mod_pow2_bits_high _ 32 n) by lia. rewrite Hop.
    rewrite Z.mod_pow2_bits_high by lia. rewrite Z.shiftr_spec by lia.
    rewrite (high_bits_zero X HX) by lia. exact Hff.
Qed.

Lemma link_md5_rotl x s : (x < 4294967296)%N -> (0 < s < 32)%N ->
  Z.of_N (md5_rotl x s) = g_md5_rotl (Z.of_N x) (Z.of_N s).
Proof.
  intros Hx Hs. unfold md5_rotl, shl32, g_md5_rotl. rewrite !wrapu32_mod.
  rewrite N2Z.inj_lor, w32_mod, N2Z.inj_mod, N2Z.inj_shiftl, N2Z.inj_shiftr, N2Z.inj_sub by lia.
  change (Z.of_N 4294967296) with (2 ^ 32). change (Z.of_N 32) with 32.
  rewrite (Z.mod_small (32 - Z.of_N s)) by (change (2 ^ 32) with 4294967296; lia).
  apply (rot_bits Z.lor orb Z.lor_spec eq_refl); [change (2 ^ 32) with 4294967296|]; lia.
Qed.
Lemma link_sha1_left_rotate x s : (x < 4294967296)%N -> (0 < s < 32)%N ->
  Z.of_N (sha1_rotl x s) = g_sha1_left_rotate (Z.of_N x) (Z.of_N s).
Proof.
  intros Hx Hs. unfold sha1_rotl, shl32, g_sha1_left_rotate. rewrite !wrapu32_mod.
  rewrite N2Z.inj_lxor, w32_mod, N2Z.inj_mod, N2Z.inj_shiftl, N2Z.inj_shiftr, N2Z.inj_sub by lia.
  change (Z.of_N 4294967296) with (2 ^ 32). change (Z.of_N 32) with 32.
  unfold wrapu. rewrite (Z.mod_small (32 - Z.of_N s)) by (change (2 ^ 64) with 18446744073709551616; lia).
  apply (rot_bits Z.lxor xorb Z.lxor_spec eq_refl); [change (2 ^ 32) with 4294967296|]; lia.
Qed.

(* ---------- private/sha1.h: the numbers of process_block() and reset() (text extractor with a rigid shape check) ---------- *)
Local Open Scope N_scope.
Lemma link_sha1_h0 :
  (let '(a, b, c, d, e) := sha1_h0 in [Z.of_N a; Z.of_N b; Z.of_N c; Z.of_N d; Z.of_N e]) = g_sha1_h0.
Proof. vm_compute. reflexivity. Qed.
(* the if-ladder: the number of thresholds that are <= t selects the constant (and the function) of round t *)
Definition ladder_index (t : N) : nat := length (filter (fun th => Z.leb th (Z.of_N t)) g_sha1_thresholds).
Lemma link_sha1_k t : t < 80 -> Z.of_N (sha1_k t) = nth (ladder_index t) g_sha1_K 0%Z.
Proof.
  intros H. apply Z.eqb_eq.
  apply (sweep_N 80 (fun t => Z.eqb (Z.of_N (sha1_k t)) (nth (ladder_index t) g_sha1_K 0%Z))); [vm_compute; reflexivity|exact H].
Qed.
Lemma link_sha1_f_ladder t : t < 80 ->
  forall b c d, sha1_f t b c d =
    nth (ladder_index t) [N.lor (N.land b c) (N.land (not32 b) d); N.lxor (N.lxor b c) d;
                          N.lor (N.lor (N.land b c) (N.land b d)) (N.land c d); N.lxor (N.lxor b c) d] 0.
Proof.
  intros H b c d. unfold sha1_f.
  assert (E : (if t <? 20 then 0%nat else if t <? 40 then 1%nat else if t <? 60 then 2%nat else 3%nat) = ladder_index t).
  { apply Nat.eqb_eq.
    apply (sweep_N 80 (fun t => Nat.eqb (if t <? 20 then 0%nat else if t <? 40 then 1%nat else if t <? 60 then 2%nat else 3%nat)
                                        (ladder_index t))); [vm_compute; reflexivity|exact H]. }
  rewrite <- E. destruct (t <? 20); [reflexivity|]. destruct (t <? 40); [reflexivity|]. destruct (t <? 60); reflexivity.
Qed.
(* schedule: w[i] = left_rotate(w[i-3] ^ w[i-8] ^ w[i-14] ^ w[i-16], 1); rw holds w[i-1], w[i-2], ... *)
Lemma link_sha1_wnext rw :
  sha1_wnext rw =
  sha1_rotl (fold_left N.lxor (map (fun o => nth (Z.to_nat o - 1) rw 0) (tl g_sha1_sched_offsets))
                       (nth (Z.to_nat (hd 0%Z g_sha1_sched_offsets) - 1) rw 0))
            (Z.to_N g_sha1_sched_rot).
Proof. reflexivity. Qed.
Lemma link_sha1_round a b c d e i w :
  sha1_round (a, b, c, d, e) (i, w) =
  (add32 (add32 (add32 (add32 (sha1_rotl a (Z.to_N g_sha1_rot_a)) (sha1_f (N.of_nat i) b c d)) e) (sha1_k (N.of_nat i))) w,
   a, sha1_rotl b (Z.to_N g_sha1_rot_b), c, d).
Proof. reflexivity. Qed.
