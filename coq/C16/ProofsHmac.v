(* C16: crypto.cpp hmac over an abstract message_digest object = RFC 2104, and the MD5 / SHA-1 instances *)
From CppcmsV Require Import Base.Tac C16.Defs C16.Blocks C16.ProofsMd5 C16.ProofsMd5Fin C16.ProofsSha1.
Local Open Scope N_scope.

Lemma xor_const_length c l : length (xor_const c l) = length l.
Proof. unfold xor_const. apply map_length. Qed.
Lemma over_zeros_length n src : (length src <= n)%nat -> length (over_zeros n src) = n.
Proof. intros H. unfold over_zeros. rewrite app_length, skipn_length, repeat_length. lia. Qed.

Section HmacFacts.
  Variable D : Type.
  Variable d_new : D.
  Variable d_append : D -> list N -> D.
  Variable d_readout : D -> list N * D.
  Variable B dsz : nat.
  Variable Hf : list N -> list N.
  (* what is assumed of the digest object: a representation relation "st has absorbed m" such that ... *)
  Variable okc : list N -> Prop.            (* chunks the object accepts in one append call *)
  Variable rep : D -> list N -> Prop.
  Hypothesis rep_new : rep d_new [].
  Hypothesis rep_append : forall st m c, rep st m -> okc c -> rep (d_append st c) (m ++ c).
  Hypothesis rep_readout : forall st m, rep st m -> fst (d_readout st) = Hf m /\ rep (snd (d_readout st)) [].
  Hypothesis Hf_len : forall m, length (Hf m) = dsz.
  Hypothesis dsz_le : (dsz <= B)%nat.
  Hypothesis okc_block : forall c, (length c <= B)%nat -> okc c.

  Notation h_init := (hmac_init D d_append d_readout B dsz).
  Notation h_new := (hmac_new D d_new d_append d_readout B dsz).
  Notation h_append := (hmac_append D d_append).
  Notation h_readout := (hmac_readout D d_append d_readout B dsz).
  Notation h_message := (hmac_message D d_append d_readout B dsz).
  Notation h_session := (hmac_session D d_append d_readout B dsz).
  Notation key0 := (hmac_key0 B Hf).
  Notation spec := (hmac_spec B Hf).

  Definition key_ok (key : list N) : Prop := (B < length key)%nat -> okc key.

  Definition hrep (st : hmac_state D) (key m : list N) : Prop :=
    rep (h_md st) (xor_const 54 (key0 key) ++ m) /\
    rep (h_opad st) (xor_const 92 (key0 key)) /\
    h_key st = key.

  Lemma key0_length key : length (key0 key) = B.
  Proof.
    unfold hmac_key0. apply over_zeros_length.
    destruct (Nat.ltb_spec B (length key)) as [H|H]; [rewrite Hf_len; exact dsz_le|exact H].
  Qed.

  Lemma hmac_init_rep md opad key :
    rep md [] -> rep opad [] -> key_ok key -> hrep (h_init md opad key) key [].
  Proof.
    intros Hmd Hop Hk. unfold hmac_init, hrep, hmac_key0.
    destruct (Nat.ltb_spec B (length key)) as [Hlong|Hshort].
    - pose proof (rep_append _ _ key Hmd (Hk Hlong)) as Ha. cbn [app] in Ha.
      destruct (rep_readout _ _ Ha) as [Hdg Hmd'].
      destruct (d_readout (d_append md key)) as [dg md']. cbn [fst snd] in *. subst dg.
      rewrite (firstn_all2 (Hf key)) by (rewrite Hf_len; lia).
      cbn [h_md h_opad h_key]. rewrite app_nil_r.
      assert (Hlen : (length (over_zeros B (Hf key)) <= B)%nat).
      { rewrite over_zeros_length; [lia|rewrite Hf_len; exact dsz_le]. }
      split; [|split; [|reflexivity]].
      + apply (rep_append md' [] _ Hmd'). apply okc_block. rewrite xor_const_length. exact Hlen.
      + apply (rep_append opad [] _ Hop). apply okc_block. rewrite xor_const_length. exact Hlen.
    - cbn [h_md h_opad h_key]. rewrite app_nil_r.
      assert (Hlen : (length (over_zeros B key) <= B)%nat) by (rewrite over_zeros_length; lia).
      split; [|split; [|reflexivity]].
      + apply (rep_append md [] _ Hmd). apply okc_block. rewrite xor_const_length. exact Hlen.
      + apply (rep_append opad [] _ Hop). apply okc_block. rewrite xor_const_length. exact Hlen.
  Qed.

  Lemma hmac_new_rep key : key_ok key -> hrep (h_new key) key [].
  Proof. intros Hk. unfold hmac_new. apply hmac_init_rep; assumption. Qed.

  Lemma hmac_append_rep st key m c : hrep st key m -> okc c -> hrep (h_append st c) key (m ++ c).
  Proof.
    intros (H1 & H2 & H3) Hc. unfold hmac_append, hrep. cbn [h_md h_opad h_key].
    rewrite app_assoc. split; [apply rep_append; assumption|]. split; assumption.
  Qed.

  Lemma hmac_readout_rep st key m :
    hrep st key m -> key_ok key ->
    fst (h_readout st) = spec key m /\ hrep (snd (h_readout st)) key [].
  Proof.
    intros (H1 & H2 & H3) Hk. unfold hmac_readout.
    destruct (rep_readout _ _ H1) as [Hdg Hmd'].
    destruct (d_readout (h_md st)) as [dg md']. cbn [fst snd] in *. subst dg.
    rewrite firstn_all2 by (rewrite Hf_len; lia).
    assert (Hokdg : okc (Hf (xor_const 54 (key0 key) ++ m))) by (apply okc_block; rewrite Hf_len; exact dsz_le).
    pose proof (rep_append _ _ _ H2 Hokdg) as Ho.
    destruct (rep_readout _ _ Ho) as [Hout Hop'].
    destruct (d_readout (d_append (h_opad st) (Hf (xor_const 54 (key0 key) ++ m)))) as [out opad'].
    cbn [fst snd] in *. split; [exact Hout|].
    rewrite H3. apply hmac_init_rep; assumption.
  Qed.

  Lemma hmac_fold_rep chunks : forall st key m,
    hrep st key m -> Forall okc chunks -> hrep (fold_left h_append chunks st) key (m ++ concat chunks).
  Proof.
    induction chunks as [|c r IH]; intros st key m Hr Hok.
    - cbn. rewrite app_nil_r. exact Hr.
    - inversion Hok as [|? ? Hc Hr']; subst. cbn [fold_left concat]. rewrite app_assoc.
      apply IH; [|exact Hr']. apply hmac_append_rep; assumption.
  Qed.

  Lemma hmac_message_rep st key m chunks :
    hrep st key m -> key_ok key -> Forall okc chunks ->
    fst (h_message st chunks) = spec key (m ++ concat chunks) /\ hrep (snd (h_message st chunks)) key [].
  Proof.
    intros Hr Hk Hok. unfold hmac_message. apply hmac_readout_rep; [|exact Hk]. apply hmac_fold_rep; assumption.
  Qed.

  Lemma hmac_session_rep msgs : forall st key,
    hrep st key [] -> key_ok key -> Forall (Forall okc) msgs ->
    h_session st msgs = map (fun chunks => spec key (concat chunks)) msgs.
  Proof.
    induction msgs as [|c r IH]; intros st key Hr Hk Hok; [reflexivity|].
    inversion Hok as [|? ? Hc Hr']; subst. cbn [hmac_session map].
    destruct (hmac_message_rep st key [] c Hr Hk Hc) as [H1 H2].
    destruct (h_message st c) as [o st']. cbn [fst snd] in *.
    rewrite H1, (IH st' key H2 Hk Hr'). reflexivity.
  Qed.

  Lemma hmac_one_message key chunks :
    key_ok key -> Forall okc chunks ->
    fst (h_message (h_new key) chunks) = spec key (concat chunks).
  Proof.
    intros Hk Hok. apply (hmac_message_rep (h_new key) key [] chunks); try assumption. apply hmac_new_rep. exact Hk.
  Qed.

  Lemma hmac_session_lemma key msgs :
    key_ok key -> Forall (Forall okc) msgs ->
    h_session (h_new key) msgs = map (fun chunks => spec key (concat chunks)) msgs.
  Proof. intros Hk Hok. apply hmac_session_rep; try assumption. apply hmac_new_rep. exact Hk. Qed.

End HmacFacts.

(* the three key classes of RFC 2104, spelled out *)
Lemma skipn_repeat0 n : forall B, skipn n (repeat 0 B) = repeat 0 (B - n).
Proof.
  induction n as [|n IH]; intros B; [cbn; rewrite Nat.sub_0_r; reflexivity|].
  destruct B as [|b]; [reflexivity|]. cbn [repeat skipn Nat.sub]. apply IH.
Qed.
Lemma key0_short (B : nat) (Hf : list N -> list N) key :
  (length key < B)%nat -> hmac_key0 B Hf key = key ++ repeat 0 (B - length key).
Proof.
  intros H. unfold hmac_key0, over_zeros. destruct (Nat.ltb_spec B (length key)); [lia|].
  rewrite skipn_repeat0. reflexivity.
Qed.
Lemma key0_equal (B : nat) (Hf : list N -> list N) key : length key = B -> hmac_key0 B Hf key = key.
Proof.
  intros H. unfold hmac_key0, over_zeros. destruct (Nat.ltb_spec B (length key)); [lia|].
  rewrite skipn_all2 by (rewrite repeat_length; lia). apply app_nil_r.
Qed.
Lemma key0_long (B : nat) (Hf : list N -> list N) key :
  (B < length key)%nat -> hmac_key0 B Hf key = over_zeros B (Hf key).
Proof. intros H. unfold hmac_key0. destruct (Nat.ltb_spec B (length key)); [reflexivity|lia]. Qed.

(* ---------- instances ---------- *)
Lemma md5_spec_length m : length (md5_spec m) = 16%nat.
Proof. unfold md5_spec. destruct (fst _) as [[[a b] c] d]. reflexivity. Qed.
Lemma sha1_spec_length m : length (sha1_spec m) = 20%nat.
Proof. unfold sha1_spec. destruct (fst _) as [[[[a b] c] d] e]. reflexivity. Qed.

Definition md5_okc (c : list N) : Prop := len c < 2147483648.

Lemma hmac_md5_session_lemma key msgs :
  len key < 2147483648 -> Forall (Forall (fun c => len c < 2147483648)) msgs ->
  hmac_md5_session key msgs = map (fun chunks => hmac_spec 64 md5_spec key (concat chunks)) msgs.
Proof.
  intros Hk Hok. unfold hmac_md5_session.
  apply (hmac_session_lemma md5_state md5_new md5_obj_append md5_obj_readout 64 16 md5_spec md5_okc md5_rep).
  - exact md5_rep_new.
  - intros st m c Hr Hc. apply md5_obj_append_rep; assumption.
  - exact md5_obj_readout_rep.
  - exact md5_spec_length.
  - lia.
  - intros c Hc. unfold md5_okc, len. lia.
  - intros _. exact Hk.
  - exact Hok.
Qed.

Lemma hmac_sha1_session_lemma key msgs :
  hmac_sha1_session key msgs = map (fun chunks => hmac_spec 64 sha1_spec key (concat chunks)) msgs.
Proof.
  unfold hmac_sha1_session.
  apply (hmac_session_lemma sha1_state sha1_new sha1_obj_append sha1_obj_readout 64 20 sha1_spec (fun _ => True) sha1_rep).
  - exact sha1_rep_new.
  - intros st m c Hr _. apply sha1_obj_append_rep; assumption.
  - exact sha1_obj_readout_rep.
  - exact sha1_spec_length.
  - lia.
  - intros c _. exact I.
  - intros _. exact I.
  - clear. induction msgs as [|c r IH]; constructor; [|exact IH].
    induction c as [|x y IHc]; constructor; [exact I|exact IHc].
Qed.
