(* common imports and arithmetic automation settings for proof files *)
From Coq Require Export NArith ZArith List Bool Lia ZifyN ZifyBool ZifyNat.
Export ListNotations.
Ltac Zify.zify_post_hook ::= Z.div_mod_to_equations.
