(* Semantics helpers used by the definitions that tools/cxx2v.py generates. *)
From Coq Require Import ZArith List Bool.
Local Open Scope Z_scope.

Definition wrapu (w : Z) (z : Z) : Z := z mod (2 ^ w).
Definition wraps (w : Z) (z : Z) : Z :=
  ((z + 2 ^ (w - 1)) mod (2 ^ w)) - 2 ^ (w - 1).

(* subscript of a constant table; out-of-range index reads as -1 (never a byte) so that a
   sweep over the index domain exposes it *)
Definition znth (l : list Z) (i : Z) : Z :=
  if Z.ltb i 0 then -1 else nth (Z.to_nat i) l (-1).
