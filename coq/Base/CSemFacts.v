From CppcmsV Require Import Base.Tac Base.CSem.
Local Open Scope Z_scope.

Lemma wrapu_small w z : 0 <= z < 2 ^ w -> wrapu w z = z.
Proof. intros H. unfold wrapu. apply Z.mod_small. exact H. Qed.
Lemma wraps_small w z : 1 <= w -> - 2 ^ (w - 1) <= z < 2 ^ (w - 1) -> wraps w z = z.
Proof.
  intros Hw H. unfold wraps.
  replace (2 ^ w) with (2 * 2 ^ (w - 1)) by (rewrite <- Z.pow_succ_r by lia; f_equal; lia).
  rewrite Z.mod_small by lia. lia.
Qed.
Lemma wrapu8_small z : 0 <= z < 256 -> wrapu 8 z = z.
Proof. intros H. apply wrapu_small. cbn. lia. Qed.
Lemma wrapu32_small z : 0 <= z < 4294967296 -> wrapu 32 z = z.
Proof. intros H. apply wrapu_small. cbn. lia. Qed.
Lemma wrapu64_small z : 0 <= z < 18446744073709551616 -> wrapu 64 z = z.
Proof. intros H. apply wrapu_small. cbn. lia. Qed.
Lemma wraps32_small z : -2147483648 <= z < 2147483648 -> wraps 32 z = z.
Proof. intros H. apply wraps_small; cbn; lia. Qed.
Lemma wraps8_small z : -128 <= z < 128 -> wraps 8 z = z.
Proof. intros H. apply wraps_small; cbn; lia. Qed.

(* remove every wrap whose argument is provably in range (innermost first by backtracking) *)
Ltac unwrap :=
  repeat match goal with
  | |- context[wrapu 64 ?x] => rewrite (wrapu64_small x) by lia
  | |- context[wrapu 32 ?x] => rewrite (wrapu32_small x) by lia
  | |- context[wrapu 8 ?x] => rewrite (wrapu8_small x) by lia
  | |- context[wraps 32 ?x] => rewrite (wraps32_small x) by lia
  | |- context[wraps 8 ?x] => rewrite (wraps8_small x) by lia
  end.
