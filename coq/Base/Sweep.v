(* Finite sweeps: a boolean predicate checked by computation on every byte (or every value below a
   stated bound) is lifted to a universally quantified statement with the bound visible. *)
From Coq Require Import NArith ZArith List Bool Lia.
Import ListNotations.
Local Open Scope N_scope.

Definition N_seq (n : nat) : list N := map N.of_nat (seq 0 n).

Lemma N_seq_In (n : nat) (b : N) : b < N.of_nat n -> In b (N_seq n).
Proof.
  intros H. unfold N_seq. apply in_map_iff. exists (N.to_nat b). split.
  - apply N2Nat.id.
  - apply in_seq. lia.
Qed.

Lemma sweep_N (n : nat) (P : N -> bool) :
  forallb P (N_seq n) = true -> forall b, b < N.of_nat n -> P b = true.
Proof.
  intros H b Hb. rewrite forallb_forall in H. apply H. apply N_seq_In. exact Hb.
Qed.

Definition bytesN : list N := N_seq 256.

Lemma sweep256 (P : N -> bool) :
  forallb P bytesN = true -> forall b, b < 256 -> P b = true.
Proof. intros H b Hb. apply (sweep_N 256 P H). exact Hb. Qed.

Lemma sweep256_2 (P : N -> N -> bool) :
  forallb (fun a => forallb (P a) bytesN) bytesN = true ->
  forall a b, a < 256 -> b < 256 -> P a b = true.
Proof.
  intros H a b Ha Hb.
  pose proof (sweep256 _ H a Ha) as H1. cbv beta in H1.
  exact (sweep256 _ H1 b Hb).
Qed.

Definition bytes_ok (l : list N) : Prop := Forall (fun b => b < 256) l.

Lemma bytes_ok_app a b : bytes_ok (a ++ b) <-> bytes_ok a /\ bytes_ok b.
Proof. unfold bytes_ok. apply Forall_app. Qed.

Lemma bytes_ok_cons x l : bytes_ok (x :: l) <-> x < 256 /\ bytes_ok l.
Proof. unfold bytes_ok. split; intros H. inversion H; auto. destruct H; constructor; auto. Qed.

Definition bytes_okb (l : list N) : bool := forallb (fun b => b <? 256) l.
Lemma bytes_okb_spec l : bytes_okb l = true <-> bytes_ok l.
Proof.
  unfold bytes_okb, bytes_ok. rewrite forallb_forall, Forall_forall.
  split; intros H x Hx; specialize (H x Hx); [apply N.ltb_lt|apply N.ltb_lt]; exact H.
Qed.

(* boolean equality of byte strings, for sweeps whose results are strings *)
Fixpoint leqb (a b : list N) : bool :=
  match a, b with
  | [], [] => true
  | x :: a', y :: b' => (x =? y) && leqb a' b'
  | _, _ => false
  end.
Lemma leqb_eq a b : leqb a b = true <-> a = b.
Proof.
  revert b. induction a as [|x a IH]; intros [|y b]; simpl; split; intros H; try reflexivity; try discriminate.
  - apply andb_true_iff in H. destruct H as [H1 H2]. apply N.eqb_eq in H1. apply IH in H2. subst. reflexivity.
  - inversion H; subst. rewrite N.eqb_refl. apply IH. reflexivity.
Qed.
