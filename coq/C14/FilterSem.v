(* C14: meaning of the segment definitions that checks/C14.py (class LoopTr) generates from the two filter functions of
   src/encoding.cpp (validate_or_filter_utf8, validate_or_filter_single_byte_charset), and the two functions assembled
   from their generated segments in source order.  Definitions only; the proofs are in LinkF.v.
     positions (char const * values) are Z offsets into the input l, begin = 0, end = length l
     nx html pos     = utf8::next(ptr,end,html,false) called with ptr = pos: (returned value, new ptr)
     tst a b         = tester(a,b,n) on the bytes [a,b) of the input
     g_emit          = what is appended to `output`;  g_ctl = how a segment ends *)
From CppcmsV Require Import Base.Tac Base.CSem C14.Defs gen.Gen_C14.
Local Open Scope N_scope.

Definition sub (l : list N) (a b : Z) : list N := firstn (Z.to_nat (b - a)) (skipn (Z.to_nat a) l).

Definition emit1 (l out : list N) (e : g_emit) : list N :=
  match e with
  | GClear => []
  | GRange a b => out ++ sub l a b
  | GAt p => out ++ sub l p (p + 1)
  | GByte v => out ++ [Z.to_N v]
  end.
Definition emits (l out : list N) (es : list g_emit) : list N := fold_left (emit1 l) es out.

Section Loop.
  Context {St : Type} (l : list N) (cond : St -> bool) (body inc : St -> g_ctl * St * list g_emit).
  (* while(cond) body   /   for(;cond;inc) body.  None: out of fuel.  Some (GNext,..): the condition became false;
     Some (GBreak,..) / Some (GReturn b,..): left by break / return *)
  Fixpoint run_loop (fuel : nat) (st : St) (out : list N) : option (g_ctl * St * list N) :=
    match fuel with
    | O => None
    | S f =>
        if cond st then
          match body st with
          | (GNext, st1, es) =>
              match inc st1 with (_, st2, es2) => run_loop f st2 (emits l (emits l out es) es2) end
          | (c, st1, es) => Some (c, st1, emits l out es)
          end
        else Some (GNext, st, out)
    end.
End Loop.
Definition no_inc {St : Type} (st : St) : g_ctl * St * list g_emit := (GNext, st, []).

(* a straight-line segment, then the continuation unless it returned *)
Definition seg_then {St : Type} (l out : list N) (r : g_ctl * St * list g_emit)
    (k : St -> list N -> option (bool * list N)) : option (bool * list N) :=
  match r with
  | (GReturn b, _, es) => Some (b, emits l out es)
  | (_, st, es) => k st (emits l out es)
  end.
Definition loop_then {St : Type} (r : option (g_ctl * St * list N))
    (k : St -> list N -> option (bool * list N)) : option (bool * list N) :=
  match r with
  | None => None
  | Some (GReturn b, _, out) => Some (b, out)
  | Some (_, st, out) => k st out
  end.

(* the value utf8::next returns: the code point, or utf::illegal *)
Definition code (r : dres) : Z := match r with Cp c => Z.of_N c | _ => 4294967295%Z end.
Definition nx_of (l : list N) (html : bool) (pos : Z) : Z * Z :=
  let s := skipn (Z.to_nat pos) l in
  match cppcms_next html s with (r, rest) => (code r, (pos + Z.of_nat (length s - length rest))%Z) end.

(* validate_or_filter_utf8(begin,end,output,replace): Some (returned value, output afterwards), None: out of fuel.
   out0 = the content of `output` before the call; the three locals start with arbitrary values *)
Definition gen_vof_utf8 (out0 : list N) (v0 : bool) (p0 q0 : Z) (repl : N) (l : list N) : option (bool * list N) :=
  let nx := nx_of l in
  let tst := fun _ _ : Z => false in
  let e := Z.of_nat (length l) in
  let rp := wraps 8 (Z.of_N repl) in
  let fuel := S (length l) in
  seg_then l out0 (g_vof_u8_seg0 nx tst 0 e rp (v0, p0, q0)) (fun st out =>
  loop_then (run_loop l (g_vof_u8_cond1 nx tst 0 e rp) (g_vof_u8_body1 nx tst 0 e rp) no_inc fuel st out) (fun st out =>
  seg_then l out (g_vof_u8_seg1 nx tst 0 e rp st) (fun st out =>
  loop_then (run_loop l (g_vof_u8_cond2 nx tst 0 e rp) (g_vof_u8_body2 nx tst 0 e rp) no_inc fuel st out) (fun st out =>
  seg_then l out (g_vof_u8_seg2 nx tst 0 e rp st) (fun _ _ => None))))).

(* validate_or_filter_single_byte_charset(tester,begin,end,output,repl) for the tester of validator v *)
Definition tst_of (v : validator) (l : list N) (a b : Z) : bool :=
  match tester v (sub l a b) 0 with Some (ok, _) => ok | None => false end.
Definition gen_vof_sb (out0 : list N) (c0 p0 : Z) (v : validator) (repl : N) (l : list N) : option (bool * list N) :=
  let nx := fun (_ : bool) (_ : Z) => (0%Z, 0%Z) in
  let tst := tst_of v l in
  let e := Z.of_nat (length l) in
  let rp := wraps 8 (Z.of_N repl) in
  let fuel := S (length l) in
  seg_then l out0 (g_vof_sb_seg0 nx tst 0 e rp (c0, p0)) (fun st out =>
  loop_then (run_loop l (g_vof_sb_cond1 nx tst 0 e rp) (g_vof_sb_body1 nx tst 0 e rp) (g_vof_sb_inc1 nx tst 0 e rp) fuel st out) (fun st out =>
  seg_then l out (g_vof_sb_seg1 nx tst 0 e rp st) (fun _ _ => None))).

(* the model's answer in the same form *)
Definition fres_obs (out0 : list N) (r : fres) : option (bool * list N) :=
  match r with FValid => Some (true, out0) | FFiltered o => Some (false, o) | _ => None end.
