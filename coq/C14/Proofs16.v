(* C14: UTF-16 side of the support library: decode / encode are inverse on scalar values, what decodes is a scalar value,
   and the conversions UTF-8 -> UTF-16 -> UTF-8 through utf_to_utf preserve the code points of well-formed text. *)
From CppcmsV Require Import Base.Tac Base.CSem Base.CSemFacts Base.Sweep C14.Defs C14.Spec C14.Proofs C14.Proofs2 C14.Proofs7 C14.Defs16 gen.Gen_C14.
Local Open Scope N_scope.

Lemma u16_decode_encode c r : scalar c -> u16_decode (u16_encode c ++ r) = (Cp c, r).
Proof.
  intros [H1 H2]. unfold u16_encode. destruct (N.leb_spec c 65535).
  - cbn [app u16_decode]. replace ((c <? 55296) || (57343 <? c)) with true by lia. reflexivity.
  - cbn [app u16_decode]. set (h := 55296 + (c - 65536) / 1024). set (lo := 56320 + (c - 65536) mod 1024).
    assert (55296 <= h <= 56319) by (unfold h; lia). assert (56320 <= lo <= 57343) by (unfold lo; lia).
    replace ((h <? 55296) || (57343 <? h)) with false by lia. replace (56319 <? h) with false by lia.
    replace ((lo <? 56320) || (57343 <? lo)) with false by lia. unfold combine_surrogate. f_equal. f_equal. unfold h, lo. lia.
Qed.

Definition units_ok (l : list N) : Prop := Forall (fun u => u < 65536) l.

Lemma u16_decode_sound l c r : units_ok l -> u16_decode l = (Cp c, r) -> scalar c /\ l = u16_encode c ++ r.
Proof.
  intros U H. destruct l as [|w1 l']; [discriminate|]. inversion U as [|? ? U1 U2]; subst. cbn [u16_decode] in H.
  destruct ((w1 <? 55296) || (57343 <? w1)) eqn:A.
  - injection H as <- <-. split; [unfold scalar; lia|]. unfold u16_encode. replace (w1 <=? 65535) with true by lia. reflexivity.
  - destruct (56319 <? w1) eqn:B; [discriminate|]. destruct l' as [|w2 l2]; [discriminate|].
    inversion U2 as [|? ? U3 U4]; subst.
    destruct ((w2 <? 56320) || (57343 <? w2)) eqn:C; [discriminate|]. injection H as <- <-.
    unfold combine_surrogate. split; [unfold scalar; lia|]. unfold u16_encode.
    replace (w1 mod 1024 * 1024 + w2 mod 1024 + 65536 <=? 65535) with false by lia. cbn [app]. f_equal; [lia|]. f_equal. lia.
Qed.

Lemma u16_encode_units c : scalar c -> units_ok (u16_encode c).
Proof.
  intros [H1 H2]. unfold u16_encode, units_ok. destruct (N.leb_spec c 65535); repeat constructor; lia.
Qed.

Lemma u16_encode_length c : Z.of_nat (length (u16_encode c)) = u16_width c.
Proof. unfold u16_encode, u16_width. destruct (N.leb_spec c 65535); [replace (65536 <=? c) with false by lia|replace (65536 <=? c) with true by lia]; reflexivity. Qed.

(* ---- conversions on well-formed text ---- *)
Lemma conv_8_16 stop l cps : WF l cps -> forall f, (length l <= f)%nat ->
  conv_f booster_decode u16_encode f stop l = Some (Some (flat_map u16_encode cps)).
Proof.
  induction 1 as [|e c s cps S W IH]; intros f Len.
  - destruct f; reflexivity.
  - pose proof (Seq_nonempty e c S) as Ne. destruct e as [|a e']; [congruence|].
    destruct f as [|f]; [cbn in Len; lia|].
    change ((a :: e') ++ s) with (a :: e' ++ s). cbn [conv_f].
    change (a :: e' ++ s) with ((a :: e') ++ s).
    rewrite (proj2 (booster_decode_spec ((a :: e') ++ s) c s) (ex_intro _ (a :: e') (conj S eq_refl))).
    rewrite IH by (rewrite app_length in Len; cbn in Len; lia). reflexivity.
Qed.

Lemma conv_16_8 stop cps : Forall scalar cps -> forall f, (length (flat_map u16_encode cps) <= f)%nat ->
  conv_f u16_decode encode f stop (flat_map u16_encode cps) = Some (Some (flat_map encode cps)).
Proof.
  induction 1 as [|c cps Sc F IH]; intros f Len.
  - destruct f; reflexivity.
  - cbn [flat_map] in *. assert (Ne : u16_encode c <> []) by (unfold u16_encode; destruct (c <=? 65535); discriminate).
    destruct (u16_encode c) as [|a e'] eqn:E; [congruence|].
    destruct f as [|f]; [cbn in Len; lia|].
    change ((a :: e') ++ flat_map u16_encode cps) with (a :: e' ++ flat_map u16_encode cps). cbn [conv_f].
    change (a :: e' ++ flat_map u16_encode cps) with ((a :: e') ++ flat_map u16_encode cps).
    rewrite <- E, (u16_decode_encode c _ Sc).
    rewrite IH by (rewrite app_length in Len; cbn in Len; lia). reflexivity.
Qed.

Lemma utf8_utf16_roundtrip stop l cps : WF l cps ->
  utf8_to_utf16 stop l = Some (Some (flat_map u16_encode cps)) /\
  utf16_to_utf8 stop (flat_map u16_encode cps) = Some (Some l) /\ units_ok (flat_map u16_encode cps).
Proof.
  intros W. split; [apply conv_8_16; [exact W|apply le_n]|].
  destruct (proj1 (WF_iff_encode l cps) W) as [F ->]. split; [apply conv_16_8; [exact F|apply le_n]|].
  clear W. unfold units_ok. induction F as [|c cps Sc F IH]; [constructor|]. cbn [flat_map]. apply Forall_app. split; [apply u16_encode_units; exact Sc|exact IH].
Qed.

(* ---- tie: the generated UTF-16 arithmetic ---- *)
Lemma link_b16_first x : g_b16_is_first_surrogate (Z.of_N x) = is_first_surrogate x.
Proof. unfold g_b16_is_first_surrogate, is_first_surrogate. lia. Qed.
Lemma link_b16_second x : g_b16_is_second_surrogate (Z.of_N x) = is_second_surrogate x.
Proof. unfold g_b16_is_second_surrogate, is_second_surrogate. lia. Qed.
Lemma link_b16_trail_length x : g_b16_trail_length (Z.of_N x) = u16_trail_length x.
Proof. unfold g_b16_trail_length, u16_trail_length. rewrite link_b16_first, link_b16_second. reflexivity. Qed.
Lemma link_b16_width x : g_b16_width (Z.of_N x) = u16_width x.
Proof. unfold g_b16_width, u16_width. destruct (N.leb_spec 65536 x); [replace (Z.of_N x >=? 65536)%Z with true by lia|replace (Z.of_N x >=? 65536)%Z with false by lia]; reflexivity. Qed.
(* combine_surrogate, for all code units: land with 0x3FF = mod 1024, shift by 10 = times 1024, the or of disjoint bits = sum *)
Local Open Scope Z_scope.
Lemma land_shift_small a b : 0 <= b < 1024 -> Z.land (Z.shiftl a 10) b = 0.
Proof.
  intros Hb. destruct (Z.eq_dec b 0) as [->|Nz]; [apply Z.land_0_r|].
  apply Z.bits_inj'. intros n Hn. rewrite Z.land_spec, Z.bits_0.
  destruct (Z.lt_ge_cases n 10) as [L|G].
  - rewrite Z.shiftl_spec_low by exact L. reflexivity.
  - rewrite (Z.bits_above_log2 b n); [apply andb_false_r|lia|].
    assert (Z.log2 b < 10) by (apply Z.log2_lt_pow2; lia). lia.
Qed.
Lemma lor_shift_add a b : 0 <= b < 1024 -> Z.lor (Z.shiftl a 10) b = a * 1024 + b.
Proof.
  intros Hb. rewrite <- Z.lxor_lor by (apply land_shift_small; exact Hb).
  rewrite <- Z.add_nocarry_lxor by (apply land_shift_small; exact Hb).
  rewrite Z.shiftl_mul_pow2 by lia. reflexivity.
Qed.
Lemma link_b16_combine_z w1 w2 : 0 <= w1 -> 0 <= w2 ->
  g_b16_combine_surrogate w1 w2 = (w1 mod 1024) * 1024 + w2 mod 1024 + 65536.
Proof.
  intros H1 H2. unfold g_b16_combine_surrogate.
  change 1023 with (Z.ones 10). rewrite !Z.land_ones by lia. change (2 ^ 10) with 1024.
  assert (0 <= w1 mod 1024 < 1024) by (apply Z.mod_pos_bound; lia).
  assert (0 <= w2 mod 1024 < 1024) by (apply Z.mod_pos_bound; lia).
  rewrite (wrapu32_small (w1 mod 1024)) by lia. rewrite (wrapu32_small (w2 mod 1024)) by lia.
  rewrite (wrapu32_small (Z.shiftl (w1 mod 1024) 10)) by (rewrite Z.shiftl_mul_pow2 by lia; lia).
  rewrite lor_shift_add by lia.
  rewrite (wrapu32_small (w1 mod 1024 * 1024 + w2 mod 1024)) by lia.
  rewrite wrapu32_small by lia. reflexivity.
Qed.
Local Open Scope N_scope.
Lemma link_b16_combine w1 w2 : g_b16_combine_surrogate (Z.of_N w1) (Z.of_N w2) = Z.of_N (combine_surrogate w1 w2).
Proof. rewrite link_b16_combine_z by lia. unfold combine_surrogate. lia. Qed.

(* the framework's own copies in private/utf_iterator.h (cppcms::utf16, used by the JSON parser) *)
Lemma link_c16_first x : g_c16_is_first_surrogate (Z.of_N x) = is_first_surrogate x.
Proof. unfold g_c16_is_first_surrogate, is_first_surrogate. lia. Qed.
Lemma link_c16_second x : g_c16_is_second_surrogate (Z.of_N x) = is_second_surrogate x.
Proof. unfold g_c16_is_second_surrogate, is_second_surrogate. lia. Qed.
Lemma link_c16_combine w1 w2 : g_c16_combine_surrogate (Z.of_N w1) (Z.of_N w2) = Z.of_N (combine_surrogate w1 w2).
Proof. change g_c16_combine_surrogate with g_b16_combine_surrogate. apply link_b16_combine. Qed.
