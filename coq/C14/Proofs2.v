(* C14 proofs, part 2: the two decoders agree; truncation; encoder/decoder round trips; utf_to_utf. *)
From CppcmsV Require Import Base.Tac C14.Defs C14.Spec C14.Proofs.
Local Open Scope N_scope.

(* ---------- the two decoders ---------- *)
Definition collapse (d : dres) : dres := match d with Incomplete => Illegal | x => x end.

Lemma read_trail_agree k : forall c l,
  read_trail Illegal k c l = (collapse (fst (read_trail Incomplete k c l)), snd (read_trail Incomplete k c l)).
Proof.
  induction k as [|k IH]; intros c l; cbn [read_trail]; [reflexivity|].
  destruct l as [|t r]; [reflexivity|].
  destruct (is_trail t); [apply IH|reflexivity].
Qed.

Lemma collapse_finish html ts c : collapse (finish html ts c) = finish html ts c.
Proof. pose proof (finish_not_incomplete html ts c). destruct (finish html ts c); try reflexivity. contradiction. Qed.

(* the framework's decoder is the support library's decoder with `incomplete` reported as `illegal`;
   the iterator is left at the same place in every case *)
Lemma decoders_agree l :
  cppcms_next false l = (collapse (fst (booster_decode l)), snd (booster_decode l)).
Proof.
  unfold cppcms_next, booster_decode, next_gen.
  destruct l as [|a l]; [reflexivity|].
  destruct (trail_length a <? 0)%Z; [reflexivity|].
  destruct (trail_length a =? 0)%Z; [cbn [negb orb fst snd collapse]; reflexivity|].
  rewrite read_trail_agree.
  destruct (read_trail Incomplete (Z.to_nat (trail_length a)) (lead_bits (trail_length a) a) l) as [d r].
  destruct d; cbn [fst snd collapse]; try reflexivity.
  rewrite collapse_finish. reflexivity.
Qed.

Lemma decoders_agree_cp l c r : booster_decode l = (Cp c, r) <-> cppcms_next false l = (Cp c, r).
Proof.
  rewrite decoders_agree. destruct (booster_decode l) as [d r']. cbn [fst snd].
  destruct d; cbn [collapse]; split; intros H; inversion H; subst; reflexivity.
Qed.

Lemma decoders_agree_fail l :
  (exists r, booster_decode l = (Illegal, r) \/ booster_decode l = (Incomplete, r)) <->
  (exists r, cppcms_next false l = (Illegal, r)).
Proof.
  rewrite decoders_agree. destruct (booster_decode l) as [d r']. cbn [fst snd].
  destruct d; cbn [collapse]; split; intros [r H].
  - exists r'. reflexivity.
  - exists r'. left. reflexivity.
  - exists r'. reflexivity.
  - exists r'. right. reflexivity.
  - destruct H as [H|H]; discriminate.
  - discriminate.
Qed.

(* `incomplete` is only ever reported when the input ended inside a sequence *)
Lemma read_trail_incomplete k : forall c l r, read_trail Incomplete k c l = (Incomplete, r) -> r = [] /\ (length l < k)%nat.
Proof.
  induction k as [|k IH]; intros c l r H; cbn [read_trail] in H; [discriminate|].
  destruct l as [|t l]; [inversion H; cbn; split; [reflexivity|lia]|].
  destruct (is_trail t); [|discriminate].
  apply IH in H. cbn [length]. destruct H; split; [assumption|lia].
Qed.

Lemma incomplete_only_at_end l r : booster_decode l = (Incomplete, r) -> r = [] /\ (length l <= 3)%nat.
Proof.
  unfold booster_decode, next_gen. destruct l as [|a l]; [intros H; inversion H; cbn; split; [reflexivity|lia]|].
  destruct (trail_length_cases a) as [[E R]|[[E R]|[[E R]|[[E R]|[E R]]]]]; rewrite E.
  - cbn. discriminate.
  - cbn. discriminate.
  - change (1 <? 0)%Z with false. change (1 =? 0)%Z with false. cbv iota.
    destruct (read_trail Incomplete (Z.to_nat 1) (lead_bits 1 a) l) as [d r'] eqn:RT.
    destruct d; try discriminate.
    + intros H; inversion H; subst. apply read_trail_incomplete in RT. change (Z.to_nat 1) with 1%nat in RT. destruct RT as [RT1 RT2]. split; [exact RT1|cbn [length]; lia].
    + intros H; inversion H as [[F Hr]]. exfalso. eapply finish_not_incomplete; eauto.
  - change (2 <? 0)%Z with false. change (2 =? 0)%Z with false. cbv iota.
    destruct (read_trail Incomplete (Z.to_nat 2) (lead_bits 2 a) l) as [d r'] eqn:RT.
    destruct d; try discriminate.
    + intros H; inversion H; subst. apply read_trail_incomplete in RT. change (Z.to_nat 2) with 2%nat in RT. destruct RT as [RT1 RT2]. split; [exact RT1|cbn [length]; lia].
    + intros H; inversion H as [[F Hr]]. exfalso. eapply finish_not_incomplete; eauto.
  - change (3 <? 0)%Z with false. change (3 =? 0)%Z with false. cbv iota.
    destruct (read_trail Incomplete (Z.to_nat 3) (lead_bits 3 a) l) as [d r'] eqn:RT.
    destruct d; try discriminate.
    + intros H; inversion H; subst. apply read_trail_incomplete in RT. change (Z.to_nat 3) with 3%nat in RT. destruct RT as [RT1 RT2]. split; [exact RT1|cbn [length]; lia].
    + intros H; inversion H as [[F Hr]]. exfalso. eapply finish_not_incomplete; eauto.
Qed.

(* ---------- truncated sequences ---------- *)
Ltac fa_tail := repeat (apply Forall_cons; [unfold tail in *; lia|]); apply Forall_nil.

Lemma Seq_shape e c : Seq e c ->
  exists a ts, e = a :: ts /\ trail_length a = Z.of_nat (length ts) /\ Forall tail ts.
Proof.
  intros S. destruct S.
  - exists a, []. rewrite trail_length_0 by lia. repeat split. fa_tail.
  - exists a, [b]. rewrite trail_length_1 by lia. repeat split. fa_tail.
  - exists 224, [b; c]. repeat split. fa_tail.
  - exists a, [b; c]. rewrite trail_length_2 by lia. repeat split. fa_tail.
  - exists 237, [b; c]. repeat split. fa_tail.
  - exists a, [b; c]. rewrite trail_length_2 by lia. repeat split. fa_tail.
  - exists 240, [b; c; d]. repeat split. fa_tail.
  - exists a, [b; c; d]. rewrite trail_length_3 by lia. repeat split. fa_tail.
  - exists 244, [b; c; d]. repeat split. fa_tail.
Qed.

Lemma read_trail_short eof k : forall c l, Forall tail l -> (length l < k)%nat -> read_trail eof k c l = (eof, []).
Proof.
  induction k as [|k IH]; intros c l F L; [lia|].
  cbn [read_trail]. destruct l as [|t l]; [reflexivity|].
  inversion F; subst. rewrite is_trail_true by assumption. apply IH; [assumption|cbn [length] in L; lia].
Qed.

(* a sequence cut short is not accepted: the framework's decoder says illegal, the library's says incomplete *)
Lemma truncated_sequence e c p q eof html :
  Seq e c -> e = p ++ q -> p <> [] -> q <> [] -> eof = Illegal \/ eof = Incomplete ->
  next_gen eof html p = (eof, []).
Proof.
  intros S E Hp Hq He.
  destruct (Seq_shape e c S) as (a & ts & -> & TL & F).
  destruct p as [|a' p]; [contradiction|]. cbn [app] in E. inversion E; subst a'.
  assert (Forall tail p /\ (length p < length ts)%nat) as [Fp Lp].
  { subst ts. apply Forall_app in F. destruct F as [Fp _]. split; [exact Fp|].
    rewrite app_length. destruct q; [contradiction|cbn [length]; lia]. }
  cbn [next_gen]. rewrite TL.
  replace (Z.of_nat (length ts) <? 0)%Z with false by lia.
  replace (Z.of_nat (length ts) =? 0)%Z with false by lia.
  rewrite Nat2Z.id. rewrite read_trail_short by assumption.
  destruct He as [-> | ->]; reflexivity.
Qed.

(* ---------- encoder / decoder round trips ---------- *)
Lemma decode_encode eof html c r :
  scalar c -> (html = true -> html_safe c) -> next_gen eof html (encode c ++ r) = (Cp c, r).
Proof.
  intros Sc Hh. rewrite encode_is_rfc_encode. apply next_complete; [|exact Hh]. apply rfc_encode_Seq. exact Sc.
Qed.

Lemma encode_decode eof html l c r :
  not_cp eof -> next_gen eof html l = (Cp c, r) -> l = encode c ++ r /\ scalar c.
Proof.
  intros Heof H. apply next_sound in H; [|exact Heof]. destruct H as (e & S & -> & _).
  rewrite encode_is_rfc_encode. rewrite <- (Seq_is_rfc_encode e c S). split; [reflexivity|].
  eapply Seq_scalar; eauto.
Qed.

Lemma encode_length c : Z.of_nat (length (encode c)) = width c.
Proof.
  unfold encode, width.
  destruct (c <=? 127); [reflexivity|]. destruct (c <=? 2047); [reflexivity|]. destruct (c <=? 65535); reflexivity.
Qed.

(* WF in terms of the encoder: the well-formed strings are exactly the concatenated encodings of scalar values *)
Lemma WF_iff_encode l cps : WF l cps <-> (Forall scalar cps /\ l = flat_map encode cps).
Proof.
  split.
  - intros W. induction W as [|e c s cps S W [IH1 IH2]]; [split; [constructor|reflexivity]|].
    split; [constructor; [eapply Seq_scalar; eauto|assumption]|].
    cbn [flat_map]. rewrite encode_is_rfc_encode, <- (Seq_is_rfc_encode e c S), IH2. reflexivity.
  - intros [F ->]. induction F as [|c cps Sc F IH]; [constructor|].
    cbn [flat_map]. constructor; [|exact IH]. rewrite encode_is_rfc_encode. apply rfc_encode_Seq. exact Sc.
Qed.
