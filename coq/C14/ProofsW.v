(* C14: the length limits of a form text widget (src/form.cpp base_text::load / validate) count code points: the
   number stored by load is the number of scalar values of the value, and the limit test is exact at n-1, n, n+1. *)
From CppcmsV Require Import Base.Tac C14.Defs C14.Spec C14.Proofs C14.Proofs2 C14.Proofs3 C14.Proofs4 C14.Proofs6.
Local Open Scope N_scope.

Lemma text_load_counts_code_points enc value cps : lookup enc = Some V_utf8 -> WF value cps -> Forall html_safe cps ->
  text_load true enc value = Some (true, N.of_nat (length cps)).
Proof.
  intros L W F. unfold text_load.
  destruct (valid_named_utf8 enc value 0 L) as [(cps' & W' & _ & E)|(Nw & _)].
  - rewrite E. rewrite (WF_unique _ _ W' _ W). reflexivity.
  - exfalso. apply Nw. exists cps. auto.
Qed.

Lemma text_widget_decides enc value cps low high : lookup enc = Some V_utf8 -> WF value cps -> Forall html_safe cps ->
  (0 <= low < 2 ^ 31)%Z -> (-1 <= high < 2 ^ 31)%Z ->
  text_widget true enc value low high =
  Some ((low <=? Z.of_nat (length cps))%Z && ((high <? 0)%Z || (Z.of_nat (length cps) <=? high)%Z)).
Proof.
  intros L W F Hl Hh. unfold text_widget. rewrite (text_load_counts_code_points enc value cps L W F). cbn [option_map].
  f_equal. apply eq_iff_eq_true. rewrite (text_validate_spec low high true _ Hl Hh), nat_N_Z.
  rewrite andb_true_iff, orb_true_iff, Z.leb_le, Z.ltb_lt, Z.leb_le. split.
  - intros (_ & H1 & H2). split; [exact H1|]. destruct (Z.ltb_spec high 0); [left; assumption|right; apply H2; lia].
  - intros (H1 & H2). split; [reflexivity|]. split; [exact H1|]. intros H0. destruct H2 as [H2|H2]; lia.
Qed.

(* exact behaviour at the limit: a value of n code points passes an upper limit of n and n+1 and fails n-1, passes a
   lower limit of n and fails n+1 -- whatever its length in bytes *)
Lemma text_widget_boundary enc value cps : lookup enc = Some V_utf8 -> WF value cps -> Forall html_safe cps ->
  let n := Z.of_nat (length cps) in (0 < n < 2 ^ 31 - 1)%Z ->
  text_widget true enc value 0 (n - 1) = Some false /\ text_widget true enc value 0 n = Some true /\
  text_widget true enc value 0 (n + 1) = Some true /\
  text_widget true enc value n (-1) = Some true /\ text_widget true enc value (n + 1) (-1) = Some false /\
  text_widget true enc value n n = Some true.
Proof.
  intros L W F n Hn.
  repeat split; rewrite (text_widget_decides enc value cps _ _ L W F) by lia; fold n; f_equal; lia.
Qed.

Lemma code_points_le_bytes l cps : WF l cps -> (length cps <= length l)%nat.
Proof.
  induction 1 as [|e c s cps S W IH]; [apply le_n|].
  rewrite app_length. cbn [length]. pose proof (Seq_length e c S). lia.
Qed.
