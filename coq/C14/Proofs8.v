(* C14 proofs, part 8: dispatch by encoding name depends only on the normalised name. *)
From CppcmsV Require Import Base.Tac C14.Defs C14.Spec C14.Proofs C14.Proofs2 C14.Proofs3 C14.Proofs4.
Local Open Scope N_scope.

Lemma enc_equiv_norm a b x : norm_name a = norm_name b -> enc_equiv a x = enc_equiv b x.
Proof. intros E. unfold enc_equiv, enc_less. rewrite E. reflexivity. Qed.

Lemma find_ext {A} (f g : A -> bool) l : (forall x, f x = g x) -> find f l = find g l.
Proof. intros E. induction l as [|x l IH]; [reflexivity|]. cbn [find]. rewrite E, IH. reflexivity. Qed.

Lemma lookup_norm a b : norm_name a = norm_name b -> lookup a = lookup b.
Proof.
  intros E. unfold lookup.
  rewrite (find_ext (fun e => enc_equiv a (fst e)) (fun e => enc_equiv b (fst e)) enc_table); [reflexivity|].
  intros x. apply enc_equiv_norm. exact E.
Qed.

(* every spelling of a name (case, punctuation, anything after a NUL) behaves identically *)
Lemma dispatch_norm a b : norm_name a = norm_name b ->
  (forall l cnt, valid_named a l cnt = valid_named b l cnt) /\
  (forall repl l, validate_or_filter a repl l = validate_or_filter b repl l) /\
  (forall cs value low high, text_widget cs a value low high = text_widget cs b value low high).
Proof.
  intros E. pose proof (lookup_norm a b E) as L.
  assert (is_utf8 a = is_utf8 b) as U by (unfold is_utf8; apply enc_equiv_norm; exact E).
  split; [|split].
  - intros l cnt. unfold valid_named. rewrite L. reflexivity.
  - intros repl l. unfold validate_or_filter. rewrite U, L. reflexivity.
  - intros cs value low high. unfold text_widget, text_load, valid_named. rewrite L. reflexivity.
Qed.

(* upper and lower case letters normalise alike, punctuation and bytes above 127 are skipped *)
Lemma norm_name_upper c l : 65 <= c <= 90 -> norm_name (c :: l) = norm_name (c + 32 :: l).
Proof.
  intros H. cbn [norm_name]. replace (c =? 0) with false by lia. replace (c + 32 =? 0) with false by lia.
  unfold name_step.
  replace ((48 <=? c) && (c <=? 57)) with false by lia. replace ((97 <=? c) && (c <=? 122)) with false by lia.
  replace ((65 <=? c) && (c <=? 90)) with true by lia.
  replace ((48 <=? c + 32) && (c + 32 <=? 57)) with false by lia. replace ((97 <=? c + 32) && (c + 32 <=? 122)) with true by lia.
  replace (c - 65 + 97) with (c + 32) by lia. reflexivity.
Qed.

Lemma norm_name_skip c l : c <> 0 -> ~ (48 <= c <= 57) -> ~ (65 <= c <= 90) -> ~ (97 <= c <= 122) ->
  norm_name (c :: l) = norm_name l.
Proof.
  intros H0 H1 H2 H3. cbn [norm_name]. replace (c =? 0) with false by lia. unfold name_step.
  replace ((48 <=? c) && (c <=? 57)) with false by lia. replace ((97 <=? c) && (c <=? 122)) with false by lia.
  replace ((65 <=? c) && (c <=? 90)) with false by lia. reflexivity.
Qed.

(* ---------- decode_valid: on a UTF8-char the unchecked decoder returns its value and consumes exactly it ---------- *)
Lemma decode_valid_spec e c r : Seq e c -> decode_valid (e ++ r) = (c, r).
Proof.
  intros S. destruct S; unfold tail in *; cbn [app decode_valid].
  - replace (a <? 192) with true by lia. reflexivity.
  - replace (a <? 192) with false by lia. replace (a <? 224) with true by lia. cbn [read_valid]. f_equal. lia.
  - change (224 <? 192) with false. change (224 <? 224) with false. change (224 <? 240) with true. cbv iota.
    cbn [read_valid]. f_equal. lia.
  - replace (a <? 192) with false by lia. replace (a <? 224) with false by lia. replace (a <? 240) with true by lia.
    cbn [read_valid]. f_equal. lia.
  - change (237 <? 192) with false. change (237 <? 224) with false. change (237 <? 240) with true. cbv iota.
    cbn [read_valid]. f_equal. lia.
  - replace (a <? 192) with false by lia. replace (a <? 224) with false by lia. replace (a <? 240) with true by lia.
    cbn [read_valid]. f_equal. lia.
  - change (240 <? 192) with false. change (240 <? 224) with false. change (240 <? 240) with false. cbv iota.
    cbn [read_valid]. f_equal. lia.
  - replace (a <? 192) with false by lia. replace (a <? 224) with false by lia. replace (a <? 240) with false by lia.
    cbn [read_valid]. f_equal. lia.
  - change (244 <? 192) with false. change (244 <? 224) with false. change (244 <? 240) with false. cbv iota.
    cbn [read_valid]. f_equal. lia.
Qed.

(* hence it agrees with the checking decoders wherever they accept *)
Lemma decode_valid_agrees eof html l c r : not_cp eof -> next_gen eof html l = (Cp c, r) -> decode_valid l = (c, r).
Proof.
  intros He H. apply next_sound in H; [|exact He]. destruct H as (e & S & -> & _). apply decode_valid_spec. exact S.
Qed.
