(* C14 -- text validators accept exactly the well-formed strings of their encoding.
   This file holds only the property theorems, each closed by `exact <lemma>`; the proofs are in Proofs*.v (model
   against the RFC 3629 grammar of Spec.v) and Link.v (definitions generated from the current source = model leafs).
   Model: Defs.v.  cppcms_next html = cppcms::utf8::next(p,e,html), booster_decode = booster::locale::utf::
   utf_traits<char>::decode, validate / validate_count = utf8::validate, valid_named = encoding::valid(name,...),
   validate_or_filter = encoding::validate_or_filter, gen_sb k = the loop body of a single-byte validator as
   GENERATED from private/encoding_validators.h.  Bytes and code points are N, strings are list N. *)
From CppcmsV Require Import Base.Tac Base.CSem Base.Sweep C14.Defs C14.Spec C14.Proofs C14.Proofs2 C14.Proofs3
  C14.Proofs4 C14.Proofs5 C14.Proofs6 C14.ProofsW C14.Proofs7 C14.Proofs8 C14.Link C14.LinkT C14.LinkE C14.Defs16 C14.Proofs16 C14.Proofs16b C14.FilterSem C14.LinkF C14.LinkV C14.LinkN C14.ProofsF C14.DefsW C14.ProofsO C14.LinkW gen.Gen_C14.
Local Open Scope N_scope.

(* ---------------------------------------------------------------------------------------------------------
   1. The next-character function of both decoders accepts exactly one RFC 3629 UTF8-char (Spec.Seq: the ABNF
      of section 4, rows UTF8-1, UTF8-2, four rows of UTF8-3, three rows of UTF8-4) and returns its scalar value;
      in HTML mode additionally exactly when the value is html_safe.  Unbounded: l and r are arbitrary lists.
   --------------------------------------------------------------------------------------------------------- *)
Theorem next_spec : forall html l c r,
  cppcms_next html l = (Cp c, r) <->
  exists e, Seq e c /\ l = e ++ r /\ (html = true -> html_safe c).
Proof. exact (fun html l c r => Proofs.next_spec Illegal html l c r not_cp_Illegal). Qed.
Print Assumptions next_spec.

Theorem booster_decode_spec : forall l c r, booster_decode l = (Cp c, r) <-> exists e, Seq e c /\ l = e ++ r.
Proof. exact Proofs7.booster_decode_spec. Qed.
Print Assumptions booster_decode_spec.

(* corollaries named in the property text: what is accepted is in shortest form (it IS the RFC section 3
   encoding of its value), is a scalar value (at most U+10FFFF, not a surrogate), and a sequence cut short is
   not accepted (the framework answers illegal, the support library incomplete) *)
Theorem accepted_is_shortest_form_scalar : forall e c, Seq e c <-> (scalar c /\ e = rfc_encode c).
Proof. exact Seq_iff_rfc_encode. Qed.
Print Assumptions accepted_is_shortest_form_scalar.

Theorem truncated_sequence_rejected : forall e c p q eof html,
  Seq e c -> e = p ++ q -> p <> [] -> q <> [] -> eof = Illegal \/ eof = Incomplete ->
  next_gen eof html p = (eof, []).
Proof. exact truncated_sequence. Qed.
Print Assumptions truncated_sequence_rejected.

Theorem grammar_unambiguous : forall e c r e' c' r',
  Seq e c -> Seq e' c' -> e ++ r = e' ++ r' -> e = e' /\ c = c' /\ r = r'.
Proof. exact Seq_deterministic. Qed.
Print Assumptions grammar_unambiguous.

Example next_nonvacuous :
  cppcms_next true [226;130;172;65] = (Cp 8364, [65]) /\           (* U+20AC *)
  cppcms_next false [192;128] = (Illegal, [128]) /\                (* over-long NUL: C0 is not a lead byte *)
  cppcms_next false [224;159;191] = (Illegal, []) /\               (* over-long three-byte form *)
  cppcms_next false [237;160;128] = (Illegal, []) /\               (* surrogate U+D800 *)
  cppcms_next false [244;144;128;128] = (Illegal, []) /\           (* U+110000 *)
  cppcms_next false [244;143;191;191] = (Cp 1114111, []) /\        (* U+10FFFF *)
  cppcms_next true [194;159] = (Illegal, []) /\                    (* C1 control in HTML mode *)
  cppcms_next false [194;159] = (Cp 159, []) /\
  cppcms_next false [226;130] = (Illegal, []) /\ booster_decode [226;130] = (Incomplete, []) /\
  Seq [226;130;172] 8364.
Proof.
  repeat split; try (vm_compute; reflexivity).
  change 8364 with ((226 - 224) * 4096 + (130 - 128) * 64 + (172 - 128)). apply Seq3_E1_EC; unfold tail; lia.
Qed.

(* ---------------------------------------------------------------------------------------------------------
   1a. The same on the decoders as GENERATED from the source.  checks/C14.py translates the whole body of
       utf8::next<char const *> (private/utf_iterator.h) and of utf_traits<char,1>::decode<char const *>
       (booster/locale/utf.h) -- the lead-byte test, the fall-through switch, every `p==e` test, the trail checks, the
       accumulation c = (c << 6) | (tmp & 0x3F), the range / shortest-form / HTML checks -- to
         g_next (rd : Z -> Z) (n : Z) (html : bool) : Z * Z      g_b_decode (rd : Z -> Z) (n : Z) : Z * Z
       rd k = the k-th byte of the input, n = number of bytes available, result = (returned value, bytes consumed).
       rd_of l k = the k-th byte of l; code / codeb = the returned value for a model answer (utf::illegal = 0xFFFFFFFF,
       incomplete = 0xFFFFFFFE).
   --------------------------------------------------------------------------------------------------------- *)
Theorem tie_next : forall html l, bytes_ok l ->
  g_next (rd_of l) (Z.of_nat (length l)) html =
  (code (fst (cppcms_next html l)), Z.of_nat (length l - length (snd (cppcms_next html l)))).
Proof. exact link_next. Qed.

Theorem tie_booster_decode : forall l, bytes_ok l ->
  g_b_decode (rd_of l) (Z.of_nat (length l)) =
  (codeb (fst (booster_decode l)), Z.of_nat (length l - length (snd (booster_decode l)))).
Proof. exact link_b_decode. Qed.

(* the generated framework decoder returns the value c exactly when the input starts with one UTF8-char of RFC 3629
   denoting c (HTML mode: an HTML-safe one); otherwise it returns utf::illegal *)
Theorem generated_next_exact : forall html l c, bytes_ok l -> c < 4294967295 ->
  (fst (g_next (rd_of l) (Z.of_nat (length l)) html) = Z.of_N c <->
   exists e r, Seq e c /\ l = e ++ r /\ (html = true -> html_safe c)).
Proof. exact gen_next_exact. Qed.
Print Assumptions generated_next_exact.

(* both generated decoders agree on every byte string *)
Theorem generated_decoders_agree : forall l, bytes_ok l ->
  g_next (rd_of l) (Z.of_nat (length l)) false =
  (let '(v, k) := g_b_decode (rd_of l) (Z.of_nat (length l)) in ((if Z.eqb v g_b_incomplete then g_illegal else v), k)).
Proof. exact gen_decoders_agree. Qed.
Print Assumptions generated_decoders_agree.

Example generated_next_nonvacuous :
  g_next (rd_of [226;130;172;65]) 4 true = (8364%Z, 3%Z) /\ g_next (rd_of [224;159;191]) 3 false = (g_illegal, 3%Z) /\
  g_next (rd_of [237;160;128]) 3 false = (g_illegal, 3%Z) /\ g_next (rd_of [244;144;128;128]) 4 false = (g_illegal, 4%Z) /\
  g_next (rd_of [194;159]) 2 true = (g_illegal, 2%Z) /\ g_next (rd_of [194;159]) 2 false = (159%Z, 2%Z) /\
  g_next (rd_of [226;130]) 2 false = (g_illegal, 2%Z) /\ g_b_decode (rd_of [226;130]) 2 = (g_b_incomplete, 2%Z) /\
  g_b_decode (rd_of [240;159;152;128;1]) 5 = (128512%Z, 4%Z).
Proof. repeat split; vm_compute; reflexivity. Qed.

(* ---------------------------------------------------------------------------------------------------------
   2. Whole strings: valid iff well-formed per RFC 3629 (Spec.WF = *( UTF8-char )), HTML-safe variant, count.
   --------------------------------------------------------------------------------------------------------- *)
Theorem validate_iff : forall l, validate false l = true <-> exists cps, WF l cps.
Proof.
  exact (fun l => conj
    (fun H => match proj1 (Proofs.validate_iff false l) H with ex_intro _ cps (conj W _) => ex_intro _ cps W end)
    (fun H => match H with ex_intro _ cps W =>
       proj2 (Proofs.validate_iff false l) (ex_intro _ cps (conj W (fun E : false = true => False_ind _ (diff_false_true E)))) end)).
Qed.
Print Assumptions validate_iff.

Theorem validate_html_iff : forall l, validate true l = true <-> exists cps, WF l cps /\ Forall html_safe cps.
Proof. exact (fun l => iff_sym (WFH_iff l)). Qed.
Print Assumptions validate_html_iff.

(* the well-formed strings are exactly the concatenated shortest-form encodings of scalar values (so Spec.WF,
   the ABNF, and RFC 3629 section 3, the encoding table, describe the same set) *)
Theorem wellformed_iff_encoding_of_scalars : forall l cps, WF l cps <-> (Forall scalar cps /\ l = flat_map encode cps).
Proof. exact WF_iff_encode. Qed.
Print Assumptions wellformed_iff_encoding_of_scalars.

(* the reported count = incoming count + number of code points, for either mode *)
Theorem count_exact : forall html l cnt n cps,
  validate_count html l cnt = VOk n -> WF l cps -> n = cnt + N.of_nat (length cps).
Proof. exact Proofs.count_exact. Qed.
Print Assumptions count_exact.

Theorem validate_count_iff : forall html l cnt n,
  validate_count html l cnt = VOk n <->
  exists cps, WF l cps /\ (html = true -> Forall html_safe cps) /\ n = cnt + N.of_nat (length cps).
Proof. exact Proofs.validate_count_iff. Qed.
Print Assumptions validate_count_iff.

(* the validator always answers (the fuel of the model never runs out) *)
Theorem validate_total : forall html l cnt,
  (exists n, validate_count html l cnt = VOk n) \/ (exists n, validate_count html l cnt = VBad n).
Proof. exact validate_count_total. Qed.
Print Assumptions validate_total.

Theorem code_point_decomposition_unique : forall l cps, WF l cps -> forall cps', WF l cps' -> cps = cps'.
Proof. exact WF_unique. Qed.
Print Assumptions code_point_decomposition_unique.

Example validate_nonvacuous :
  validate true [72;195;169;226;130;172;240;159;152;128;10] = true /\
  validate_count true [72;195;169;226;130;172;240;159;152;128;10] 7 = VOk 12 /\    (* 5 code points from 11 bytes *)
  validate false [72;27] = true /\ validate true [72;27] = false /\                 (* ESC: well-formed, not HTML-safe *)
  validate false [72;195] = false /\ validate_count false [72;195;40] 0 = VBad 1 /\
  WF [195;169;10] [233;10].
Proof.
  repeat split; try (vm_compute; reflexivity).
  change [195;169;10] with ([195;169] ++ [10] ++ []).
  constructor; [change 233 with ((195 - 192) * 64 + (169 - 128)); apply Seq2; unfold tail; lia|].
  constructor; [apply Seq1; lia|constructor].
Qed.

(* ---------------------------------------------------------------------------------------------------------
   3. The two decoders agree; encoder / decoder are inverse on valid data.
   --------------------------------------------------------------------------------------------------------- *)
Theorem decoders_agree : forall l,
  cppcms_next false l = (collapse (fst (booster_decode l)), snd (booster_decode l)).
Proof. exact Proofs2.decoders_agree. Qed.
Print Assumptions decoders_agree.

Theorem decoders_agree_on_code_points : forall l c r, booster_decode l = (Cp c, r) <-> cppcms_next false l = (Cp c, r).
Proof. exact decoders_agree_cp. Qed.
Print Assumptions decoders_agree_on_code_points.

Theorem decoders_agree_on_failure : forall l,
  (exists r, booster_decode l = (Illegal, r) \/ booster_decode l = (Incomplete, r)) <->
  (exists r, cppcms_next false l = (Illegal, r)).
Proof. exact decoders_agree_fail. Qed.
Print Assumptions decoders_agree_on_failure.

Theorem incomplete_only_at_end_of_input : forall l r, booster_decode l = (Incomplete, r) -> r = [] /\ (length l <= 3)%nat.
Proof. exact incomplete_only_at_end. Qed.
Print Assumptions incomplete_only_at_end_of_input.

Theorem decode_encode_id : forall eof html c r,
  scalar c -> (html = true -> html_safe c) -> next_gen eof html (encode c ++ r) = (Cp c, r).
Proof. exact decode_encode. Qed.
Print Assumptions decode_encode_id.

Theorem encode_decode_id : forall eof html l c r,
  not_cp eof -> next_gen eof html l = (Cp c, r) -> l = encode c ++ r /\ scalar c.
Proof. exact encode_decode. Qed.
Print Assumptions encode_decode_id.

Theorem encode_is_rfc3629 : forall c, encode c = rfc_encode c.
Proof. exact encode_is_rfc_encode. Qed.
Print Assumptions encode_is_rfc3629.

Theorem encode_length_is_width : forall c, Z.of_nat (length (encode c)) = width c.
Proof. exact encode_length. Qed.
Print Assumptions encode_length_is_width.

(* booster::locale::conv::utf_to_utf<char,char> (decode + re-encode): skip mode always yields well-formed text that
   is a subsequence of the input and is the identity on well-formed input; stop mode throws (Some None) exactly on
   text that is not well-formed *)
Theorem utf_to_utf_skip_yields_wellformed : forall l,
  exists o, utf_to_utf false l = Some (Some o) /\ validate false o = true /\ subseq o l /\ (validate false l = true -> o = l).
Proof. exact utf_to_utf_skip. Qed.
Print Assumptions utf_to_utf_skip_yields_wellformed.

Theorem utf_to_utf_stop_throws_iff_malformed : forall l,
  (validate false l = true /\ utf_to_utf true l = Some (Some l)) \/
  (validate false l = false /\ utf_to_utf true l = Some None).
Proof. exact utf_to_utf_stop. Qed.
Print Assumptions utf_to_utf_stop_throws_iff_malformed.

Example utf_to_utf_nonvacuous :
  utf_to_utf false [72;237;160;128;195;169;226;130] = Some (Some [72;195;169]) /\
  utf_to_utf true [72;237;160;128;195;169] = Some None /\ utf_to_utf true [72;195;169] = Some (Some [72;195;169]).
Proof. repeat split; vm_compute; reflexivity. Qed.

(* utf_traits<char,1>::decode_valid, the unchecked decoder for validated text: on every UTF8-char it returns the value
   and consumes exactly the sequence, hence agrees with the checking decoders wherever they accept *)
Theorem decode_valid_on_wellformed : forall e c r, Seq e c -> decode_valid (e ++ r) = (c, r).
Proof. exact decode_valid_spec. Qed.
Print Assumptions decode_valid_on_wellformed.

Theorem decode_valid_agrees_with_decode : forall eof html l c r,
  not_cp eof -> next_gen eof html l = (Cp c, r) -> decode_valid l = (c, r).
Proof. exact decode_valid_agrees. Qed.
Print Assumptions decode_valid_agrees_with_decode.

Example decoders_nonvacuous :
  booster_decode [240;159;152;128;1] = (Cp 128512, [1]) /\ cppcms_next false [240;159;152;128;1] = (Cp 128512, [1]) /\
  encode 128512 = [240;159;152;128] /\ booster_decode [240;159] = (Incomplete, []) /\ cppcms_next false [240;159] = (Illegal, []) /\
  booster_decode [240;40] = (Illegal, []) /\ scalar 128512.
Proof. repeat split; try (vm_compute; reflexivity); unfold scalar; lia. Qed.

(* ---------------------------------------------------------------------------------------------------------
   4. Single-byte charsets, stated on the predicates GENERATED from private/encoding_validators.h
      (gen_sb k : Z -> bool dispatches to the 17 generated loop bodies; all_kinds_complete: k ranges over all).
   --------------------------------------------------------------------------------------------------------- *)
Theorem single_byte_accepts_printable_ascii : forall k b, 32 <= b <= 126 -> gen_sb k (Z.of_N b) = true.
Proof. exact gen_sb_accepts_printable. Qed.
Print Assumptions single_byte_accepts_printable_ascii.

Theorem single_byte_accepts_tab_lf_cr : forall k b, b = 9 \/ b = 10 \/ b = 13 -> gen_sb k (Z.of_N b) = true.
Proof. exact gen_sb_accepts_tab_lf_cr. Qed.
Print Assumptions single_byte_accepts_tab_lf_cr.

Theorem single_byte_rejects_c0 : forall k b, b < 32 -> b <> 9 -> b <> 10 -> b <> 13 -> gen_sb k (Z.of_N b) = false.
Proof. exact gen_sb_rejects_c0. Qed.
Print Assumptions single_byte_rejects_c0.

Theorem single_byte_rejects_del : forall k, gen_sb k 127%Z = false.
Proof. exact gen_sb_rejects_del. Qed.
Print Assumptions single_byte_rejects_del.

Theorem iso8859_rejects_c1 : forall k b, iso_kind k = true -> 128 <= b <= 159 -> gen_sb k (Z.of_N b) = false.
Proof. exact gen_sb_rejects_c1. Qed.
Print Assumptions iso8859_rejects_c1.

(* per name of the validators table (37 entries, 36 single-byte): the rule above, C1 for the ISO-8859 names *)
Theorem every_named_single_byte_validator : forall n k b, In (n, V_sb k) enc_table -> b < 256 ->
  (32 <= b <= 126 \/ b = 9 \/ b = 10 \/ b = 13 -> gen_sb k (Z.of_N b) = true) /\
  ((b < 32 /\ b <> 9 /\ b <> 10 /\ b <> 13) \/ b = 127 -> gen_sb k (Z.of_N b) = false) /\
  (iso_named n = true -> 128 <= b <= 159 -> gen_sb k (Z.of_N b) = false).
Proof. exact table_entry_rule. Qed.
Print Assumptions every_named_single_byte_validator.

(* encoding::valid for a single-byte name = every byte passes the generated predicate; count = number of bytes *)
Theorem single_byte_valid_is_bytewise : forall name k l cnt, lookup name = Some (V_sb k) -> bytes_ok l ->
  exists n, valid_named name l cnt = NRes (forallb (fun b => gen_sb k (Z.of_N b)) l) n /\
            (forallb (fun b => gen_sb k (Z.of_N b)) l = true -> n = cnt + N.of_nat (length l)).
Proof. exact valid_named_sb_gen. Qed.
Print Assumptions single_byte_valid_is_bytewise.

(* each byte is judged on its own *)
Theorem context_free : forall k a b, sb_valid k (a ++ b) = sb_valid k a && sb_valid k b.
Proof. exact sb_context_free. Qed.
Print Assumptions context_free.

Theorem context_free_named : forall name k a b ca cb cab, lookup name = Some (V_sb k) ->
  exists na nb nab, valid_named name a ca = NRes (sb_valid k a) na /\ valid_named name b cb = NRes (sb_valid k b) nb /\
                    valid_named name (a ++ b) cab = NRes (sb_valid k a && sb_valid k b) nab.
Proof. exact valid_named_context_free. Qed.
Print Assumptions context_free_named.

(* encoding::valid for a UTF-8 name: the HTML-safe validator with the code-point count *)
Theorem named_utf8_valid : forall name l cnt, lookup name = Some V_utf8 ->
  (exists cps, WF l cps /\ Forall html_safe cps /\ valid_named name l cnt = NRes true (cnt + N.of_nat (length cps))) \/
  ((~ exists cps, WF l cps /\ Forall html_safe cps) /\ exists n, valid_named name l cnt = NRes false n).
Proof. exact valid_named_utf8. Qed.
Print Assumptions named_utf8_valid.

Example single_byte_nonvacuous :
  lookup [73;83;79;45;56;56;53;57;45;49] = Some (V_sb SB_iso) /\                    (* ISO-8859-1 *)
  lookup [87;105;110;100;111;119;115;45;49;50;53;50] = Some (V_sb SB_1252) /\      (* Windows-1252 *)
  lookup [85;84;70;45;56] = Some V_utf8 /\ lookup [101;117;99;45;106;112] = None /\ (* UTF-8, euc-jp *)
  valid_named [73;83;79;45;56;56;53;57;45;49] [72;233;10] 0 = NRes true 3 /\
  valid_named [73;83;79;45;56;56;53;57;45;49] [72;133] 0 = NRes false 2 /\
  valid_named [87;105;110;100;111;119;115;45;49;50;53;50] [72;133] 0 = NRes true 2 /\
  gen_sb SB_1252 129 = false /\ iso_named [105;115;111;56;56;53;57;49;53] = true /\ length enc_table = 37%nat.
Proof. repeat split; vm_compute; reflexivity. Qed.

(* ---------------------------------------------------------------------------------------------------------
   5. validate_or_filter: the result is valid, valid text is left unchanged, filtering is idempotent.
      repl_ok repl: no replacement character, or an HTML-safe ASCII one; sb_repl_ok k repl: none, or a byte the
      charset accepts.  filtered_text r l = what the caller hands on (l itself when `true` was returned).
   --------------------------------------------------------------------------------------------------------- *)
Theorem filter_utf8_cases : forall repl l,
  (vof_utf8 repl l = FValid /\ validate true l = true) \/
  (exists o, vof_utf8 repl l = FFiltered o /\ validate true l = false /\ (repl_ok repl -> validate true o = true)).
Proof. exact vof_utf8_cases. Qed.
Print Assumptions filter_utf8_cases.

Theorem filter_valid : forall name repl l, is_utf8 name = true -> repl_ok repl ->
  validate true (filtered_text (validate_or_filter name repl l) l) = true.
Proof. exact (fun name repl l U R => eq_ind_r (fun r => validate true (filtered_text r l) = true)
                                            (vof_utf8_result_valid repl l R) (vof_name_utf8 name repl l U)). Qed.
Print Assumptions filter_valid.

Theorem filter_leaves_valid_unchanged : forall name repl l, is_utf8 name = true ->
  (validate_or_filter name repl l = FValid <-> validate true l = true).
Proof. exact (fun name repl l U => eq_ind_r (fun r => r = FValid <-> validate true l = true)
                                          (vof_utf8_valid_iff repl l) (vof_name_utf8 name repl l U)). Qed.
Print Assumptions filter_leaves_valid_unchanged.

Theorem filter_idempotent : forall repl l, repl_ok repl ->
  let o := filtered_text (vof_utf8 repl l) l in
  vof_utf8 repl o = FValid /\ filtered_text (vof_utf8 repl o) o = o.
Proof. exact vof_utf8_idempotent. Qed.
Print Assumptions filter_idempotent.

(* without a replacement character the filter only deletes: its output is a subsequence of the input *)
Theorem filter_only_deletes : forall l o, vof_utf8 0 l = FFiltered o -> subseq o l.
Proof. exact vof_utf8_subseq. Qed.
Print Assumptions filter_only_deletes.

(* functional specification at the level of the grammar: whenever the filter returns false its output is the
   token-wise image of the input, where a token is an HTML-safe UTF8-char (copied), a well-formed but unsafe UTF8-char
   (replaced as a whole) or, where no UTF8-char starts (no_char_at), one single byte (replaced; decoding
   resynchronises at the very next byte); this image is unique *)
Theorem filter_utf8_tokenwise : forall repl l o, vof_utf8 repl l = FFiltered o -> Tok repl l o.
Proof. exact vof_utf8_Tok. Qed.
Print Assumptions filter_utf8_tokenwise.

Theorem filter_tokens_functional : forall repl l o, Tok repl l o -> forall o', Tok repl l o' -> o = o'.
Proof. exact Tok_functional. Qed.
Print Assumptions filter_tokens_functional.

Theorem filter_single_byte_cases : forall k repl l,
  (vof_sb (V_sb k) repl l = FValid /\ sb_valid k l = true) \/
  (exists o, vof_sb (V_sb k) repl l = FFiltered o /\ sb_valid k l = false /\
             o = flat_map (fun c => if byte_ok k c then [c] else rp repl) l /\
             (sb_repl_ok k repl -> sb_valid k o = true)).
Proof. exact vof_sb_cases. Qed.
Print Assumptions filter_single_byte_cases.

Theorem filter_single_byte_named : forall name k repl l, is_utf8 name = false -> lookup name = Some (V_sb k) ->
  validate_or_filter name repl l = vof_sb (V_sb k) repl l.
Proof. exact vof_name_sb. Qed.
Print Assumptions filter_single_byte_named.

Theorem filter_single_byte_idempotent : forall k repl l, sb_repl_ok k repl ->
  let o := filtered_text (vof_sb (V_sb k) repl l) l in
  vof_sb (V_sb k) repl o = FValid /\ filtered_text (vof_sb (V_sb k) repl o) o = o.
Proof. exact vof_sb_idempotent. Qed.
Print Assumptions filter_single_byte_idempotent.

Example filter_nonvacuous :
  validate_or_filter [117;116;102;56] 63 [72;27;195;40;226;130;172;255] = FFiltered [72;63;63;40;226;130;172;63] /\
  validate_or_filter [117;116;102;56] 0 [72;27;195;40;226;130;172;255] = FFiltered [72;40;226;130;172] /\
  validate_or_filter [85;84;70;45;56] 63 [72;226;130;172] = FValid /\
  validate_or_filter [99;112;49;50;53;50] 63 [72;129;233] = FFiltered [72;63;233] /\
  repl_ok 63 /\ sb_repl_ok SB_1252 63.
Proof.
  repeat split; try (vm_compute; reflexivity).
  - right. unfold html_safe. lia.
  - right. vm_compute. reflexivity.
Qed.

(* ---------------------------------------------------------------------------------------------------------
   5a. The same on the filter functions as GENERATED from src/encoding.cpp.  checks/C14.py translates
       validate_or_filter_utf8 and validate_or_filter_single_byte_charset segment by segment (loop conditions, loop
       bodies, the code between the loops; positions are offsets, utf8::next is the parameter nx, the tester the
       parameter tst, appends to the output string are emissions); FilterSem.gen_vof_utf8 / gen_vof_sb run the
       segments in source order (run_loop = while / for) with nx := the decoder model on the input and
       tst := the validator model.  out0 = content of the output string before the call, v0 p0 q0 / c0 p0 = initial
       values of the locals (arbitrary); result Some (returned value, output string afterwards).
   --------------------------------------------------------------------------------------------------------- *)
Theorem tie_filter_utf8 : forall repl l, repl < 256 -> forall out0 v0 p0 q0,
  gen_vof_utf8 out0 v0 p0 q0 repl l = fres_obs out0 (vof_utf8 repl l).
Proof. exact link_vof_utf8. Qed.

Theorem tie_filter_single_byte : forall k repl l, repl < 256 -> forall out0 c0 p0,
  gen_vof_sb out0 c0 p0 (V_sb k) repl l = fres_obs out0 (vof_sb (V_sb k) repl l).
Proof. exact link_vof_sb. Qed.

(* the generated UTF-8 filter: returns true and leaves the output string alone exactly on HTML-safe UTF-8; otherwise
   returns false and the output is the token-wise image of the input (Tok: an HTML-safe UTF8-char is copied, a well-formed
   but unsafe UTF8-char is replaced as a whole, and where no UTF8-char starts ONE byte is replaced and decoding
   resumes at the very next byte), which is valid whenever the replacement character is acceptable *)
Theorem generated_filter_utf8_spec : forall out0 v0 p0 q0 repl l, repl < 256 ->
  (gen_vof_utf8 out0 v0 p0 q0 repl l = Some (true, out0) /\ validate true l = true) \/
  (exists o, gen_vof_utf8 out0 v0 p0 q0 repl l = Some (false, o) /\ validate true l = false /\ Tok repl l o /\
             (repl_ok repl -> validate true o = true)).
Proof. exact gen_filter_utf8_spec. Qed.
Print Assumptions generated_filter_utf8_spec.

(* filter (filter x) = filter x, on the generated function *)
Theorem generated_filter_utf8_idempotent : forall out0 v0 p0 q0 out1 v1 p1 q1 repl l, repl < 256 -> repl_ok repl ->
  let o := handed_on (gen_vof_utf8 out0 v0 p0 q0 repl l) l in
  validate true o = true /\ gen_vof_utf8 out1 v1 p1 q1 repl o = Some (true, out1) /\
  handed_on (gen_vof_utf8 out1 v1 p1 q1 repl o) o = o.
Proof. exact gen_filter_utf8_idempotent. Qed.
Print Assumptions generated_filter_utf8_idempotent.

Theorem generated_filter_single_byte_spec : forall out0 c0 p0 k repl l, repl < 256 ->
  (gen_vof_sb out0 c0 p0 (V_sb k) repl l = Some (true, out0) /\ sb_valid k l = true) \/
  (exists o, gen_vof_sb out0 c0 p0 (V_sb k) repl l = Some (false, o) /\ sb_valid k l = false /\
             o = flat_map (fun c => if byte_ok k c then [c] else rp repl) l /\
             (sb_repl_ok k repl -> sb_valid k o = true)).
Proof. exact gen_filter_sb_spec. Qed.
Print Assumptions generated_filter_single_byte_spec.

Theorem generated_filter_single_byte_idempotent : forall out0 c0 p0 out1 c1 p1 k repl l, repl < 256 -> sb_repl_ok k repl ->
  let o := handed_on (gen_vof_sb out0 c0 p0 (V_sb k) repl l) l in
  sb_valid k o = true /\ gen_vof_sb out1 c1 p1 (V_sb k) repl o = Some (true, out1).
Proof. exact gen_filter_sb_idempotent. Qed.
Print Assumptions generated_filter_single_byte_idempotent.

Example generated_filter_nonvacuous :
  gen_vof_utf8 [1;2;3] false 7 9 63 [72;27;195;40;226;130;172;255] = Some (false, [72;63;63;40;226;130;172;63]) /\
  gen_vof_utf8 [1;2;3] true 0 0 0 [72;237;160;128;226;130] = Some (false, [72]) /\
  gen_vof_utf8 [1;2;3] false 7 9 63 [72;226;130;172] = Some (true, [1;2;3]) /\
  gen_vof_sb [9] 5 5 (V_sb SB_1252) 63 [72;129;233] = Some (false, [72;63;233]) /\
  gen_vof_sb [9] 5 5 (V_sb SB_1252) 0 [72;233] = Some (true, [9]).
Proof. repeat split; vm_compute; reflexivity. Qed.

(* the validate loop GENERATED from private/utf_iterator.h (utf8::validate(p,e,count,html) for char const *; gen_validate
   runs its segments: Some (returned value, count afterwards)) is the model's validate_count, and satisfies the property *)
Theorem tie_validate_loop : forall html l cnt, (Z.of_N cnt + Z.of_nat (length l) < 2 ^ 64)%Z ->
  gen_validate html l cnt = vres_obs (validate_count html l cnt).
Proof. exact link_validate. Qed.

Theorem generated_validate_spec : forall html l cnt n, (Z.of_N cnt + Z.of_nat (length l) < 2 ^ 64)%Z ->
  (gen_validate html l cnt = Some (true, Z.of_N n) <->
   exists cps, WF l cps /\ (html = true -> Forall html_safe cps) /\ n = cnt + N.of_nat (length cps)).
Proof. exact gen_validate_spec. Qed.
Print Assumptions generated_validate_spec.

Theorem tie_validate3_loop : forall html l, gen_validate3 html l = Some (validate html l).
Proof. exact link_validate3. Qed.

Example generated_validate_nonvacuous :
  gen_validate true [72;195;169;226;130;172;240;159;152;128;10] 7 = Some (true, 12%Z) /\
  gen_validate true [72;27] 0 = Some (false, 1%Z) /\ gen_validate false [72;27] 0 = Some (true, 2%Z) /\
  gen_validate false [72;195;40] 0 = Some (false, 1%Z).
Proof. repeat split; vm_compute; reflexivity. Qed.

(* ---------------------------------------------------------------------------------------------------------
   5b. Form text widgets (src/form.cpp base_text::load + validate; enc = encoding name of the context locale):
       invalid text is rejected and the length limits count code points (bytes for a single-byte charset or when
       charset validation is switched off).  Limits in the range of a non-negative int; high = -1: no upper limit.
   --------------------------------------------------------------------------------------------------------- *)
Theorem form_text_utf8 : forall enc value low high,
  lookup enc = Some V_utf8 -> (0 <= low < 2 ^ 31)%Z -> (-1 <= high < 2 ^ 31)%Z ->
  (text_widget true enc value low high = Some true <->
   exists cps, WF value cps /\ Forall html_safe cps /\
               (low <= Z.of_nat (length cps))%Z /\ ((0 <= high)%Z -> (Z.of_nat (length cps) <= high)%Z)).
Proof. exact text_widget_utf8. Qed.
Print Assumptions form_text_utf8.

Theorem form_text_single_byte : forall enc k value low high,
  lookup enc = Some (V_sb k) -> (0 <= low < 2 ^ 31)%Z -> (-1 <= high < 2 ^ 31)%Z ->
  (text_widget true enc value low high = Some true <->
   sb_valid k value = true /\ (low <= Z.of_nat (length value))%Z /\ ((0 <= high)%Z -> (Z.of_nat (length value) <= high)%Z)).
Proof. exact text_widget_single_byte. Qed.
Print Assumptions form_text_single_byte.

Theorem form_text_without_charset_validation : forall enc value low high,
  (0 <= low < 2 ^ 31)%Z -> (-1 <= high < 2 ^ 31)%Z ->
  (text_widget false enc value low high = Some true <->
   (low <= Z.of_nat (length value))%Z /\ ((0 <= high)%Z -> (Z.of_nat (length value) <= high)%Z)).
Proof. exact text_widget_no_charset. Qed.
Print Assumptions form_text_without_charset_validation.

(* the number the widget compares with its limits is the number of scalar values of the value (not its bytes), and the
   comparison is exact at the boundary: n code points pass an upper limit of n and n+1 and fail n-1, pass a lower
   limit of n and fail n+1, however many bytes they take *)
Theorem form_text_counts_code_points : forall enc value cps, lookup enc = Some V_utf8 -> WF value cps -> Forall html_safe cps ->
  text_load true enc value = Some (true, N.of_nat (length cps)).
Proof. exact text_load_counts_code_points. Qed.
Print Assumptions form_text_counts_code_points.

Theorem form_text_limit_boundary : forall enc value cps, lookup enc = Some V_utf8 -> WF value cps -> Forall html_safe cps ->
  let n := Z.of_nat (length cps) in (0 < n < 2 ^ 31 - 1)%Z ->
  text_widget true enc value 0 (n - 1) = Some false /\ text_widget true enc value 0 n = Some true /\
  text_widget true enc value 0 (n + 1) = Some true /\
  text_widget true enc value n (-1) = Some true /\ text_widget true enc value (n + 1) (-1) = Some false /\
  text_widget true enc value n n = Some true.
Proof. exact text_widget_boundary. Qed.
Print Assumptions form_text_limit_boundary.

Theorem code_points_at_most_bytes : forall l cps, WF l cps -> (length cps <= length l)%nat.
Proof. exact code_points_le_bytes. Qed.
Print Assumptions code_points_at_most_bytes.

Example form_text_nonvacuous :
  text_widget true [85;84;70;45;56] [226;130;172;65] 2 2 = Some true /\      (* 4 bytes, 2 code points, limits 2..2 *)
  text_widget true [85;84;70;45;56] [226;130;172;65] 3 (-1) = Some false /\
  text_widget false [85;84;70;45;56] [226;130;172;65] 3 4 = Some true /\
  text_widget true [85;84;70;45;56] [226;130;65] 0 (-1) = Some false /\
  (* two code points in 7 bytes: limits 2 / 1 / 3 although 2 < 7 bytes and the second character straddles byte 4 *)
  text_load true [85;84;70;45;56] [226;130;172;240;159;152;128] = Some (true, 2) /\
  text_widget true [85;84;70;45;56] [226;130;172;240;159;152;128] 0 1 = Some false /\
  text_widget true [85;84;70;45;56] [226;130;172;240;159;152;128] 0 2 = Some true /\
  text_widget true [85;84;70;45;56] [226;130;172;240;159;152;128] 3 (-1) = Some false.
Proof. repeat split; vm_compute; reflexivity. Qed.

(* ---------------------------------------------------------------------------------------------------------
   5c. The text widget as an OBJECT that lives across requests (DefsW: state value_, code_points_, is_set_, is_valid_,
       low_, high_, validate_charset_; transitions load / clear / value(v) / limits / validate_charset / validate; w_fresh =
       the constructed widget).  counted st: if the widget is valid, the stored count is what a load of the STORED value
       computes.  The constructed widget is counted, every load and every setter establishes it whatever state earlier
       requests left, every operation keeps it -- so it holds after EVERY history -- and validate() then answers what the
       one-shot text_widget (section 5b) answers for the CURRENT value and limits.  (Before the repair eb17578 the setter
       kept the count and validity of the last load and the constructor left the count uninitialised; the former
       counterexamples are the regression Examples at the end of this section.)
   --------------------------------------------------------------------------------------------------------- *)
Theorem widget_load_establishes_count : forall st named enc req st', wload st named enc req = Some st' -> counted st'.
Proof. exact load_establishes_counted. Qed.
Print Assumptions widget_load_establishes_count.

Theorem widget_setter_establishes_count : forall st v st', wstep st (OSetValue v) = Some st' -> counted st'.
Proof. exact setter_establishes_counted. Qed.
Print Assumptions widget_setter_establishes_count.

Theorem widget_count_invariant_over_all_histories : forall ops st st', counted st -> wrun st ops = Some st' -> counted st'.
Proof. exact history_counted. Qed.
Print Assumptions widget_count_invariant_over_all_histories.

Theorem widget_count_after_any_history_from_construction : forall ops st', wrun w_fresh ops = Some st' -> counted st'.
Proof. exact history_from_construction_counted. Qed.
Print Assumptions widget_count_after_any_history_from_construction.

Theorem widget_validate_depends_only_on_current_value : forall st cs enc, w_valid st = true ->
  text_load cs enc (w_value st) = Some (true, w_cp st) ->
  text_widget cs enc (w_value st) (w_low st) (w_high st) = Some (fst (wvalidate st)).
Proof. exact validate_depends_on_current_value. Qed.
Print Assumptions widget_validate_depends_only_on_current_value.

Theorem widget_validate_rejects_invalid_and_keeps_value : forall st,
  (w_valid st = false -> fst (wvalidate st) = false) /\
  w_value (snd (wvalidate st)) = w_value st /\ w_cp (snd (wvalidate st)) = w_cp st /\ w_set (snd (wvalidate st)) = w_set st.
Proof. exact (fun st => conj (validate_false_when_invalid st) (validate_keeps_value st)). Qed.
Print Assumptions widget_validate_rejects_invalid_and_keeps_value.

(* the paths of load, for EVERY previous state: field absent / widget without a name -> "" with count 0; field present in a
   UTF-8 locale -> the value with its number of scalar values; charset-invalid -> rejected *)
Theorem widget_load_paths : forall st enc,
  (forall st', wload st true enc None = Some st' -> w_value st' = [] /\ w_cp st' = 0 /\ w_set st' = true /\ w_valid st' = true) /\
  (forall req st', wload st false enc req = Some st' -> w_value st' = [] /\ w_cp st' = 0 /\ w_set st' = true /\ w_valid st' = true) /\
  (forall v cps, w_cs st = true -> lookup enc = Some V_utf8 -> WF v cps -> Forall html_safe cps ->
     exists st', wload st true enc (Some v) = Some st' /\ w_value st' = v /\ w_cp st' = N.of_nat (length cps) /\
                 w_set st' = true /\ w_valid st' = true) /\
  (forall v n st', text_load (w_cs st) enc v = Some (false, n) -> wload st true enc (Some v) = Some st' ->
     w_valid st' = false /\ fst (wvalidate st') = false).
Proof.
  exact (fun st enc => conj (load_absent_resets st enc) (conj (load_nameless_resets st enc)
           (conj (load_present_utf8 st enc) (load_present_invalid st enc)))).
Qed.
Print Assumptions widget_load_paths.

(* the value(v) setter, for EVERY previous state (count and validity of an earlier load, a failed validate()): the widget
   holds v, is set and valid, and the count is setter_count: the number of code points when charset validation is on and v
   is HTML-safe UTF-8, the number of BYTES otherwise (the setter has no locale; it does not reject); validate() compares
   exactly that count with the limits *)
Theorem widget_validate_after_setter : forall st v st', wstep st (OSetValue v) = Some st' ->
  w_value st' = v /\ w_valid st' = true /\ w_set st' = true /\ w_cp st' = setter_count (w_cs st) v /\
  fst (wvalidate st') = text_validate (w_low st) (w_high st) (true, setter_count (w_cs st) v).
Proof. exact validate_after_setter. Qed.
Print Assumptions widget_validate_after_setter.

Theorem widget_setter_counts_code_points_of_utf8 : forall st v cps st', w_cs st = true -> WF v cps -> Forall html_safe cps ->
  wstep st (OSetValue v) = Some st' ->
  w_cp st' = N.of_nat (length cps) /\ text_widget true utf8n v (w_low st) (w_high st) = Some (fst (wvalidate st')).
Proof. exact validate_after_setter_utf8. Qed.
Print Assumptions widget_setter_counts_code_points_of_utf8.

(* a value set by the program that is not valid (HTML-safe) UTF-8, or any value with charset validation off: accepted as it
   is, measured in bytes -- validate() = the byte-counting widget *)
Theorem widget_setter_counts_bytes_otherwise : forall st v st', w_cs st = false \/ validate true v = false ->
  wstep st (OSetValue v) = Some st' ->
  w_valid st' = true /\ w_cp st' = N.of_nat (length v) /\
  text_widget false utf8n v (w_low st) (w_high st) = Some (fst (wvalidate st')).
Proof. exact validate_after_setter_bytes. Qed.
Print Assumptions widget_setter_counts_bytes_otherwise.

(* a widget that was never loaded holds "" with count 0: validate() = the limits applied to 0 *)
Theorem widget_never_loaded_validate : forall lo hi st, wstep w_fresh (OLimits lo hi) = Some st ->
  fst (wvalidate st) = text_validate lo hi (true, 0).
Proof. exact never_loaded_validate. Qed.
Print Assumptions widget_never_loaded_validate.

(* tie: the member functions generated from src/form.cpp *)
Theorem tie_widget_load : forall st named enc req,
  (forall v, req = Some v -> named = true -> text_load (w_cs st) enc v <> None) ->
  wload st named enc req =
  Some (dec_st st (req_value req) []
          (g_text_load (negb named) (is_none req) (w_cs st) (Z.of_nat (length (req_value req))) (ev_of enc (req_value req)) (enc_st st))).
Proof. exact link_text_load. Qed.
Theorem tie_widget_validate : forall st,
  wvalidate st = (let '(b, g) := g_text_validate (w_low st) (w_high st) (enc_st st) in (b, dec_st st [] [] g)).
Proof. exact link_text_validate. Qed.
Theorem tie_widget_setter_clear_ctor : forall st v,
  wstep st (OSetValue v) = Some (dec_st st [] v (g_text_set_value (w_cs st) (Z.of_nat (length v)) (ev8_of v) (enc_st st))) /\
  wstep st OClear = Some (dec_st st [] [] (g_widget_clear (enc_st st))) /\
  existsb (fun n => if list_eq_dec Z.eq_dec n cp_name then true else false) g_text_ctor_inits = true /\
  g_text_ctor_values = [999; w_low w_fresh; w_high w_fresh; Z.b2z (w_cs w_fresh); Z.of_N (w_cp w_fresh); 999]%Z.
Proof.
  exact (fun st v => conj (link_text_set_value st v) (conj (link_widget_clear st)
           (conj ctor_initialises_code_points (proj1 link_text_ctor_values)))).
Qed.

Example widget_object_nonvacuous :
  (* request 1: "abc" with a required-field limit; request 2: field absent -> "", count 0, rejected *)
  (exists st, wrun w_fresh [OLimits 1 (-1); OLoad true utf8n (Some [97;98;99]); OValidate; OLoad true utf8n None] = Some st /\
              w_value st = [] /\ w_cp st = 0 /\ fst (wvalidate st) = false) /\
  (* limits 0..3: five characters rejected, then the field is absent: accepted *)
  (exists st, wrun w_fresh [OLimits 0 3; OLoad true utf8n (Some [97;98;99;100;101]); OValidate; OClear; OLoad true utf8n None] = Some st /\
              fst (wvalidate st) = true /\ wget st = Some []) /\
  counted (mk_wst [226;130;172] 1 true true 0 (-1) true).
Proof.
  split; [eexists; split; [vm_compute; reflexivity|repeat split; vm_compute; reflexivity]|].
  split; [eexists; split; [vm_compute; reflexivity|repeat split; vm_compute; reflexivity]|].
  intros _. exists true, utf8n. vm_compute. reflexivity.
Qed.

(* regression: the counterexamples of the former findings form-text-setter-stale-state / form-text-uninitialised-count
   (commit eb17578 repaired them) now evaluate to the right answers *)
Example widget_setter_regression :
  (* required field, loaded with "abc", then value(""): rejected (was: accepted with the stale count 3) *)
  (exists st, wrun w_fresh [OLimits 1 (-1); OLoad true utf8n (Some [97;98;99]); OSetValue []] = Some st /\
              w_cp st = 0 /\ fst (wvalidate st) = false) /\
  (* required field, empty load, then value("hi"): accepted (was: rejected) *)
  (exists st, wrun w_fresh [OLimits 1 (-1); OLoad true utf8n None; OSetValue [104;105]] = Some st /\
              w_cp st = 2 /\ fst (wvalidate st) = true) /\
  (* charset-invalid load, then value("ok"): accepted (was: still rejected) *)
  (exists st, wrun w_fresh [OLoad true utf8n (Some [255]); OValidate; OSetValue [111;107]] = Some st /\ fst (wvalidate st) = true) /\
  (* the euro sign set by the program: 1 code point; the byte FF set by the program: valid, 1 byte *)
  (exists st, wrun w_fresh [OLimits 1 1; OSetValue [226;130;172]] = Some st /\ w_cp st = 1 /\ fst (wvalidate st) = true) /\
  (exists st, wrun w_fresh [OLimits 1 1; OSetValue [255]] = Some st /\ w_valid st = true /\ w_cp st = 1 /\ fst (wvalidate st) = true) /\
  (* never loaded, required: rejected; never loaded, limits 0..3: accepted *)
  (exists st, wrun w_fresh [OLimits 1 (-1)] = Some st /\ fst (wvalidate st) = false) /\
  (exists st, wrun w_fresh [OLimits 0 3] = Some st /\ fst (wvalidate st) = true).
Proof. repeat split; eexists; (split; [vm_compute; reflexivity|]); repeat split; vm_compute; reflexivity. Qed.

(* ---------------------------------------------------------------------------------------------------------
   6. Encoding names: two names select the same validator iff they normalise (digits and letters, lower-cased,
      up to the first NUL) to the same string; the comparator is a strict weak order.
   --------------------------------------------------------------------------------------------------------- *)
Theorem encoding_names_equivalent_iff : forall a b, enc_equiv a b = true <-> norm_name a = norm_name b.
Proof. exact enc_equiv_iff. Qed.
Print Assumptions encoding_names_equivalent_iff.

Theorem encoding_comparator_strict_order : forall a b c,
  enc_less a a = false /\ (enc_less a b = true -> enc_less b c = true -> enc_less a c = true).
Proof. exact (fun a b c => conj (enc_less_irrefl a) (enc_less_trans a b c)). Qed.
Print Assumptions encoding_comparator_strict_order.

Theorem lookup_finds_normalised_name : forall name v, lookup name = Some v ->
  exists n, In (n, v) enc_table /\ norm_name name = norm_name n.
Proof. exact lookup_some_iff. Qed.
Print Assumptions lookup_finds_normalised_name.

Theorem lookup_fails_iff_unknown : forall name,
  lookup name = None <-> forall n v, In (n, v) enc_table -> norm_name name <> norm_name n.
Proof. exact lookup_none_iff. Qed.
Print Assumptions lookup_fails_iff_unknown.

(* every spelling of a name (letter case, punctuation, bytes above 127, anything after a NUL) behaves identically in
   encoding::valid, validate_or_filter and the form text widget *)
Theorem dispatch_depends_on_normalised_name : forall a b, norm_name a = norm_name b ->
  (forall l cnt, valid_named a l cnt = valid_named b l cnt) /\
  (forall repl l, validate_or_filter a repl l = validate_or_filter b repl l) /\
  (forall cs value low high, text_widget cs a value low high = text_widget cs b value low high).
Proof. exact dispatch_norm. Qed.
Print Assumptions dispatch_depends_on_normalised_name.

Theorem name_case_insensitive : forall c l, 65 <= c <= 90 -> norm_name (c :: l) = norm_name (c + 32 :: l).
Proof. exact norm_name_upper. Qed.
Print Assumptions name_case_insensitive.

Theorem name_punctuation_ignored : forall c l, c <> 0 -> ~ (48 <= c <= 57) -> ~ (65 <= c <= 90) -> ~ (97 <= c <= 122) ->
  norm_name (c :: l) = norm_name l.
Proof. exact norm_name_skip. Qed.
Print Assumptions name_punctuation_ignored.

Theorem utf8_validator_only_for_utf8_names : forall name, lookup name = Some V_utf8 -> is_utf8 name = true.
Proof. exact lookup_utf8_is_utf8. Qed.
Print Assumptions utf8_validator_only_for_utf8_names.

Example names_nonvacuous :
  norm_name [73;83;79;95;56;56;53;57;45;49;58;49;57;56;55] = [105;115;111;56;56;53;57;49;49;57;56;55] /\
  enc_equiv [85;84;70;45;56] [117;116;102;56] = true /\ enc_equiv [85;84;70;45;56] [117;116;102;49;54] = false /\
  enc_less [97] [98] = true.
Proof. repeat split; vm_compute; reflexivity. Qed.

(* ---------------------------------------------------------------------------------------------------------
   7. Tie: the definitions regenerated from the current source are the model's leaf functions.
   --------------------------------------------------------------------------------------------------------- *)
Theorem tie_utf_valid : forall v, g_utf_valid (Z.of_N v) = cp_valid v.
Proof. exact link_utf_valid. Qed.
Theorem tie_is_trail : forall b, b < 256 -> g_is_trail (wraps 8 (Z.of_N b)) = is_trail b.
Proof. exact link_is_trail. Qed.
Theorem tie_trail_length : forall b, b < 256 -> g_trail_length (Z.of_N b) = trail_length b.
Proof. exact link_trail_length. Qed.
Theorem tie_width : forall v, g_width (Z.of_N v) = width v.
Proof. exact link_width. Qed.
Theorem tie_booster_is_valid_codepoint : forall v, g_b_is_valid_codepoint (Z.of_N v) = cp_valid v.
Proof. exact link_b_is_valid_codepoint. Qed.
Theorem tie_booster_is_trail : forall b, b < 256 -> g_b_is_trail (wraps 8 (Z.of_N b)) = is_trail b.
Proof. exact link_b_is_trail. Qed.
Theorem tie_booster_is_lead : forall b, b < 256 -> g_b_is_lead (wraps 8 (Z.of_N b)) = negb (is_trail b).
Proof. exact link_b_is_lead. Qed.
Theorem tie_booster_trail_length : forall b, b < 256 -> g_b_trail_length (wraps 8 (Z.of_N b)) = trail_length b.
Proof. exact link_b_trail_length. Qed.
Theorem tie_booster_width : forall v, g_b_width (Z.of_N v) = width v.
Proof. exact link_b_width. Qed.
Theorem tie_single_byte_bodies : forall k b, b < 256 -> gen_sb k (Z.of_N b) = byte_ok k b.
Proof. exact link_sb. Qed.
Theorem tie_encoding_name_step : forall b, b < 256 ->
  g_enc_name_step (Z.of_N b) = match name_step b with Some x => Z.of_N x | None => (-1)%Z end.
Proof. exact link_name_step. Qed.

(* the validators table: the list generated from validators_set::validators_set() (names, validator as its position in
   Link.all_kinds / 100 for utf8_valid) is the model's enc_table; its keys are pairwise inequivalent under the comparator *)
Theorem tie_validators_table : g_enc_table = map table_entry enc_table.
Proof. exact link_enc_table. Qed.
Theorem validators_table_keys_distinct : pairwise_distinct enc_table = true.
Proof. exact enc_table_keys_distinct. Qed.
Print Assumptions validators_table_keys_distinct.
Theorem validator_index_is_position : forall k, nth_error all_kinds (Z.to_nat (kind_index k)) = Some k.
Proof. exact kind_index_is_position. Qed.
Print Assumptions validator_index_is_position.

(* ---------------------------------------------------------------------------------------------------------
   8. The UTF-16 side of the support library (utf_traits<CharType,2>, Defs16) and the conversions through
      booster::locale::conv::utf_to_utf: every scalar value survives encode / decode, what decodes is a scalar value in
      its only UTF-16 form, and UTF-8 -> UTF-16 -> UTF-8 preserves the code points of well-formed text in either mode
      (skip / stop); ill-formed input: skip drops what does not decode, stop throws (conv_f, as for UTF-8 above).
   --------------------------------------------------------------------------------------------------------- *)
Theorem utf16_decode_encode_id : forall c r, scalar c -> u16_decode (u16_encode c ++ r) = (Cp c, r).
Proof. exact u16_decode_encode. Qed.
Print Assumptions utf16_decode_encode_id.

Theorem utf16_decode_exact : forall l c r, units_ok l -> u16_decode l = (Cp c, r) -> scalar c /\ l = u16_encode c ++ r.
Proof. exact u16_decode_sound. Qed.
Print Assumptions utf16_decode_exact.

Theorem utf16_encode_length_is_width : forall c, Z.of_nat (length (u16_encode c)) = u16_width c.
Proof. exact u16_encode_length. Qed.
Print Assumptions utf16_encode_length_is_width.

Theorem utf8_utf16_utf8_preserves_code_points : forall stop l cps, WF l cps ->
  utf8_to_utf16 stop l = Some (Some (flat_map u16_encode cps)) /\
  utf16_to_utf8 stop (flat_map u16_encode cps) = Some (Some l) /\ units_ok (flat_map u16_encode cps).
Proof. exact utf8_utf16_roundtrip. Qed.
Print Assumptions utf8_utf16_utf8_preserves_code_points.

(* ill-formed input, per the policy of booster::locale::conv (skip: what does not decode is dropped; stop: conversion_error):
   UTF-8 -> UTF-16 in stop mode throws exactly on text that is not well-formed UTF-8; in skip mode both UTF-8 -> UTF-8 and
   UTF-8 -> UTF-16 keep exactly the same code points cps (all scalar values), the outputs being their UTF-8 / UTF-16
   forms, and the UTF-16 output converts back to that UTF-8 output; UTF-16 -> UTF-8 in skip mode always yields
   well-formed UTF-8, and in stop mode an answer means the input was the UTF-16 form of scalar values, preserved *)
Theorem utf8_to_utf16_stop_throws_iff_malformed : forall l, utf8_to_utf16 true l = Some None <-> validate false l = false.
Proof. exact utf8_to_utf16_stop. Qed.
Print Assumptions utf8_to_utf16_stop_throws_iff_malformed.

Theorem utf8_to_utf16_skip_keeps_decodable_code_points : forall l, exists cps,
  Forall scalar cps /\ utf_to_utf false l = Some (Some (flat_map encode cps)) /\ WF (flat_map encode cps) cps /\
  utf8_to_utf16 false l = Some (Some (flat_map u16_encode cps)) /\ units_ok (flat_map u16_encode cps) /\
  utf16_to_utf8 false (flat_map u16_encode cps) = Some (Some (flat_map encode cps)).
Proof. exact utf8_to_utf16_skip. Qed.
Print Assumptions utf8_to_utf16_skip_keeps_decodable_code_points.

Theorem utf16_to_utf8_skip_yields_wellformed : forall l, units_ok l -> exists cps,
  Forall scalar cps /\ utf16_to_utf8 false l = Some (Some (flat_map encode cps)) /\ WF (flat_map encode cps) cps.
Proof. exact utf16_to_utf8_skip. Qed.
Print Assumptions utf16_to_utf8_skip_yields_wellformed.

Theorem utf16_to_utf8_stop_answers_only_on_wellformed : forall l o, units_ok l -> utf16_to_utf8 true l = Some (Some o) ->
  exists cps, Forall scalar cps /\ l = flat_map u16_encode cps /\ o = flat_map encode cps.
Proof. exact utf16_to_utf8_stop_sound. Qed.
Print Assumptions utf16_to_utf8_stop_answers_only_on_wellformed.

Theorem tie_utf16_surrogate_tests : forall x,
  g_b16_is_first_surrogate (Z.of_N x) = is_first_surrogate x /\ g_b16_is_second_surrogate (Z.of_N x) = is_second_surrogate x /\
  g_b16_trail_length (Z.of_N x) = u16_trail_length x /\ g_b16_width (Z.of_N x) = u16_width x.
Proof. exact (fun x => conj (link_b16_first x) (conj (link_b16_second x) (conj (link_b16_trail_length x) (link_b16_width x)))). Qed.

Theorem tie_utf16_combine_surrogate : forall w1 w2,
  g_b16_combine_surrogate (Z.of_N w1) (Z.of_N w2) = Z.of_N (combine_surrogate w1 w2).
Proof. exact link_b16_combine. Qed.

(* the encoders GENERATED from booster/locale/utf.h (utf_traits<char>::encode, utf_traits<char16_t>::encode) are the
   model's encode / u16_encode (which section 3 / 8 prove to be the RFC 3629 / RFC 2781 forms), and no encoding is longer
   than the generated max_width *)
Theorem tie_booster_encode : forall c, c < 2097152 -> g_b_encode (Z.of_N c) = map Z.of_N (encode c).
Proof. exact link_b_encode. Qed.
Theorem tie_encode : forall c, c < 2097152 -> g_encode (Z.of_N c) = map Z.of_N (encode c).
Proof. exact link_encode. Qed.
Theorem tie_booster_utf16_encode : forall c, c <= 1114111 -> g_b16_encode (Z.of_N c) = map Z.of_N (u16_encode c).
Proof. exact link_b16_encode. Qed.
Theorem encodings_within_max_width : forall c,
  (Z.of_nat (length (encode c)) <= g_b_max_width)%Z /\ (Z.of_nat (length (u16_encode c)) <= g_b16_max_width)%Z.
Proof. exact (fun c => conj (encode_le_max_width c) (u16_encode_le_max_width c)). Qed.
Print Assumptions encodings_within_max_width.

Theorem tie_cppcms_utf16_helpers : forall x w1 w2,
  g_c16_is_first_surrogate (Z.of_N x) = is_first_surrogate x /\ g_c16_is_second_surrogate (Z.of_N x) = is_second_surrogate x /\
  g_c16_combine_surrogate (Z.of_N w1) (Z.of_N w2) = Z.of_N (combine_surrogate w1 w2).
Proof. exact (fun x w1 w2 => conj (link_c16_first x) (conj (link_c16_second x) (link_c16_combine w1 w2))). Qed.

Example utf16_nonvacuous :
  u16_decode [55357; 56832; 65] = (Cp 128512, [65]) /\ u16_encode 128512 = [55357; 56832] /\
  u16_decode [55357; 65; 66] = (Illegal, [66]) /\ u16_decode [56832; 65] = (Illegal, [65]) /\ u16_decode [55357] = (Incomplete, []) /\
  utf8_to_utf16 false [72;240;159;152;128;237;160;128;226;130;172] = Some (Some [72; 55357; 56832; 8364]) /\
  utf8_to_utf16 true [72;237;160;128] = Some None /\
  utf16_to_utf8 false [72; 55357; 56832; 56832; 8364] = Some (Some [72;240;159;152;128;226;130;172]) /\
  utf16_to_utf8 true [55357; 65] = Some None.
Proof. repeat split; vm_compute; reflexivity. Qed.

(* Print Assumptions costs about a second per theorem (it reloads the opaque proofs of the closure): the tie_ theorems are
   printed as one bundle -- the bundle is closed under the global context iff every one of them is *)
Definition all_ties := (tie_next,
  tie_booster_decode,
  tie_filter_utf8,
  tie_filter_single_byte,
  tie_validate_loop,
  tie_validate3_loop,
  tie_widget_load,
  tie_widget_validate,
  tie_widget_setter_clear_ctor,
  tie_utf_valid,
  tie_is_trail,
  tie_trail_length,
  tie_width,
  tie_booster_is_valid_codepoint,
  tie_booster_is_trail,
  tie_booster_is_lead,
  tie_booster_trail_length,
  tie_booster_width,
  tie_single_byte_bodies,
  tie_encoding_name_step,
  tie_validators_table,
  tie_utf16_surrogate_tests,
  tie_utf16_combine_surrogate,
  tie_booster_encode,
  tie_encode,
  tie_booster_utf16_encode,
  tie_cppcms_utf16_helpers).
Print Assumptions all_ties.
