(* C14: the property of validate_or_filter stated on the functions assembled from the GENERATED segments of
   src/encoding.cpp (FilterSem.gen_vof_utf8 / gen_vof_sb), obtained from LinkF (generated = model) and the model theorems. *)
From CppcmsV Require Import Base.Tac Base.CSem C14.Defs C14.Spec C14.Proofs C14.Proofs3 C14.Proofs4 C14.Proofs7
  C14.FilterSem C14.LinkF gen.Gen_C14.
Local Open Scope N_scope.

(* what the caller goes on with: the output string when false was returned, the input itself otherwise *)
Definition handed_on (r : option (bool * list N)) (l : list N) : list N :=
  match r with Some (false, o) => o | _ => l end.

Lemma gen_filter_utf8_spec out0 v0 p0 q0 repl l : repl < 256 ->
  (gen_vof_utf8 out0 v0 p0 q0 repl l = Some (true, out0) /\ validate true l = true) \/
  (exists o, gen_vof_utf8 out0 v0 p0 q0 repl l = Some (false, o) /\ validate true l = false /\ Tok repl l o /\
             (repl_ok repl -> validate true o = true)).
Proof.
  intros R. rewrite (link_vof_utf8 repl l R).
  destruct (vof_utf8_cases repl l) as [[E V]|(o & E & V & W)].
  - left. rewrite E. split; [reflexivity|exact V].
  - right. exists o. rewrite E. repeat split; [exact V|apply vof_utf8_Tok; exact E|exact W].
Qed.

Lemma gen_filter_utf8_idempotent out0 v0 p0 q0 out1 v1 p1 q1 repl l : repl < 256 -> repl_ok repl ->
  let o := handed_on (gen_vof_utf8 out0 v0 p0 q0 repl l) l in
  validate true o = true /\ gen_vof_utf8 out1 v1 p1 q1 repl o = Some (true, out1) /\
  handed_on (gen_vof_utf8 out1 v1 p1 q1 repl o) o = o.
Proof.
  intros R Ok o.
  assert (V : validate true o = true).
  { unfold o. destruct (gen_filter_utf8_spec out0 v0 p0 q0 repl l R) as [[E V]|(o' & E & _ & _ & W)]; rewrite E; cbn; auto. }
  assert (E2 : gen_vof_utf8 out1 v1 p1 q1 repl o = Some (true, out1)).
  { destruct (gen_filter_utf8_spec out1 v1 p1 q1 repl o R) as [[E _]|(o' & _ & V' & _)]; [exact E|congruence]. }
  split; [exact V|]. split; [exact E2|]. rewrite E2. reflexivity.
Qed.

Lemma gen_filter_sb_spec out0 c0 p0 k repl l : repl < 256 ->
  (gen_vof_sb out0 c0 p0 (V_sb k) repl l = Some (true, out0) /\ sb_valid k l = true) \/
  (exists o, gen_vof_sb out0 c0 p0 (V_sb k) repl l = Some (false, o) /\ sb_valid k l = false /\
             o = flat_map (fun c => if byte_ok k c then [c] else rp repl) l /\
             (sb_repl_ok k repl -> sb_valid k o = true)).
Proof.
  intros R. rewrite (link_vof_sb k repl l R).
  destruct (vof_sb_cases k repl l) as [[E V]|(o & E & V & W)].
  - left. rewrite E. split; [reflexivity|exact V].
  - right. exists o. rewrite E. split; [reflexivity|]. split; [exact V|exact W].
Qed.

Lemma gen_filter_sb_idempotent out0 c0 p0 out1 c1 p1 k repl l : repl < 256 -> sb_repl_ok k repl ->
  let o := handed_on (gen_vof_sb out0 c0 p0 (V_sb k) repl l) l in
  sb_valid k o = true /\ gen_vof_sb out1 c1 p1 (V_sb k) repl o = Some (true, out1).
Proof.
  intros R Ok o.
  assert (V : sb_valid k o = true).
  { unfold o. destruct (gen_filter_sb_spec out0 c0 p0 k repl l R) as [[E V]|(o' & E & _ & _ & W)]; rewrite E; cbn; auto. }
  split; [exact V|].
  destruct (gen_filter_sb_spec out1 c1 p1 k repl o R) as [[E _]|(o' & _ & V' & _)]; [exact E|congruence].
Qed.
