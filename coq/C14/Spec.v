(* C14: the specification side.  RFC 3629 section 4 (ABNF) as an inductive predicate, with the scalar value each
   sequence stands for (RFC 3629 section 3, the bit distribution table), and the HTML-safety predicate used for
   user input.  Nothing here refers to the implementation model. *)
From Coq Require Import NArith List.
Import ListNotations.
Local Open Scope N_scope.

(* UTF8-tail = %x80-BF *)
Definition tail (b : N) : Prop := 128 <= b <= 191.

(* Seq e c : the byte string e is one UTF8-char of the ABNF and denotes the scalar value c
     UTF8-1 = %x00-7F
     UTF8-2 = %xC2-DF UTF8-tail
     UTF8-3 = %xE0 %xA0-BF UTF8-tail / %xE1-EC 2( UTF8-tail ) / %xED %x80-9F UTF8-tail / %xEE-EF 2( UTF8-tail )
     UTF8-4 = %xF0 %x90-BF 2( UTF8-tail ) / %xF1-F3 3( UTF8-tail ) / %xF4 %x80-8F 2( UTF8-tail )          *)
Inductive Seq : list N -> N -> Prop :=
| Seq1 a : a <= 127 -> Seq [a] a
| Seq2 a b : 194 <= a <= 223 -> tail b -> Seq [a; b] ((a - 192) * 64 + (b - 128))
| Seq3_E0 b c : 160 <= b <= 191 -> tail c ->
    Seq [224; b; c] ((b - 128) * 64 + (c - 128))
| Seq3_E1_EC a b c : 225 <= a <= 236 -> tail b -> tail c ->
    Seq [a; b; c] ((a - 224) * 4096 + (b - 128) * 64 + (c - 128))
| Seq3_ED b c : 128 <= b <= 159 -> tail c ->
    Seq [237; b; c] (13 * 4096 + (b - 128) * 64 + (c - 128))
| Seq3_EE_EF a b c : 238 <= a <= 239 -> tail b -> tail c ->
    Seq [a; b; c] ((a - 224) * 4096 + (b - 128) * 64 + (c - 128))
| Seq4_F0 b c d : 144 <= b <= 191 -> tail c -> tail d ->
    Seq [240; b; c; d] ((b - 128) * 4096 + (c - 128) * 64 + (d - 128))
| Seq4_F1_F3 a b c d : 241 <= a <= 243 -> tail b -> tail c -> tail d ->
    Seq [a; b; c; d] ((a - 240) * 262144 + (b - 128) * 4096 + (c - 128) * 64 + (d - 128))
| Seq4_F4 b c d : 128 <= b <= 143 -> tail c -> tail d ->
    Seq [244; b; c; d] (4 * 262144 + (b - 128) * 4096 + (c - 128) * 64 + (d - 128)).

(* UTF8-octets = *( UTF8-char ), with the list of scalar values *)
Inductive WF : list N -> list N -> Prop :=
| WF_nil : WF [] []
| WF_cons e c s cps : Seq e c -> WF s cps -> WF (e ++ s) (c :: cps).

(* a Unicode scalar value: at most U+10FFFF and not a surrogate *)
Definition scalar (c : N) : Prop := c <= 1114111 /\ ~ (55296 <= c <= 57343).

(* the code point may appear in user input destined for HTML: no C0 control other than tab, line feed, carriage
   return; not DEL; no C1 control *)
Definition html_safe (c : N) : Prop :=
  (c = 9 \/ c = 10 \/ c = 13 \/ 32 <= c) /\ c <> 127 /\ ~ (128 <= c <= 159).

(* the shortest-form encoding of RFC 3629 section 3, in arithmetic form (specification side of `encode`):
     0000 0000-0000 007F | 0xxxxxxx
     0000 0080-0000 07FF | 110xxxxx 10xxxxxx
     0000 0800-0000 FFFF | 1110xxxx 10xxxxxx 10xxxxxx
     0001 0000-0010 FFFF | 11110xxx 10xxxxxx 10xxxxxx 10xxxxxx *)
Definition rfc_encode (c : N) : list N :=
  if c <=? 127 then [c]
  else if c <=? 2047 then [192 + c / 64; 128 + c mod 64]
  else if c <=? 65535 then [224 + c / 4096; 128 + (c / 64) mod 64; 128 + c mod 64]
  else [240 + c / 262144; 128 + (c / 4096) mod 64; 128 + (c / 64) mod 64; 128 + c mod 64].
