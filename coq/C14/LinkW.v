(* C14: the member functions of widgets::base_text as GENERATED from src/form.cpp (rigid tie: checks/C14.py gen_widget;
   g_text_load, g_text_validate, g_text_set_value, g_widget_clear, g_text_ctor_inits) are the transitions of the object
   model DefsW.  State of the generated functions: (value tag, code_points_, is_set, is_valid); tags: 0 = "" after
   value_.clear(), 1 = the value found in the request, 2 = the argument of the setter, anything else = the old value. *)
From CppcmsV Require Import Base.Tac Base.CSem Base.CSemFacts C14.Defs C14.DefsW gen.Gen_C14.
Local Open Scope N_scope.

Definition enc_st (st : wst) : Z * Z * bool * bool := (3%Z, Z.of_N (w_cp st), w_set st, w_valid st).
Definition val_of_tag (old vreq varg : list N) (t : Z) : list N :=
  if (t =? 0)%Z then [] else if (t =? 1)%Z then vreq else if (t =? 2)%Z then varg else old.
Definition dec_st (st : wst) (vreq varg : list N) (g : Z * Z * bool * bool) : wst :=
  let '(t, c, s, b) := g in mk_wst (val_of_tag (w_value st) vreq varg t) (Z.to_N c) s b (w_low st) (w_high st) (w_cs st).

(* encoding::valid(context.locale(), value, code_points_) as a function of the incoming count *)
Definition ev_of (enc v : list N) (c : Z) : bool * Z :=
  match valid_named enc v (Z.to_N c) with NRes ok n => (ok, Z.of_N n) | _ => (false, 0%Z) end.
Definition req_value (req : option (list N)) : list N := match req with Some v => v | None => [] end.
Definition is_none {A} (x : option A) : bool := match x with None => true | Some _ => false end.

Lemma link_text_load st named enc req :
  (forall v, req = Some v -> named = true -> text_load (w_cs st) enc v <> None) ->
  wload st named enc req =
  Some (dec_st st (req_value req) []
          (g_text_load (negb named) (is_none req) (w_cs st) (Z.of_nat (length (req_value req))) (ev_of enc (req_value req)) (enc_st st))).
Proof.
  intros NF. unfold wload, g_text_load, enc_st, dec_st. destruct named; cbn [negb]; [|reflexivity].
  destruct req as [v|]; cbn [is_none req_value]; [|reflexivity].
  specialize (NF v eq_refl eq_refl). unfold text_load in *. destruct (w_cs st) eqn:C.
  - unfold ev_of. change (Z.to_N 0) with 0. destruct (valid_named enc v 0) as [| |ok n]; try congruence.
    cbn [fst snd]. destruct ok; cbn [negb val_of_tag]; rewrite N2Z.id; reflexivity.
  - cbn [val_of_tag]. replace (Z.to_N (Z.of_nat (length v))) with (N.of_nat (length v)) by lia. reflexivity.
Qed.

Lemma link_text_validate st :
  wvalidate st = (let '(b, g) := g_text_validate (w_low st) (w_high st) (enc_st st) in (b, dec_st st [] [] g)).
Proof.
  unfold wvalidate, g_text_validate, enc_st, dec_st, val_of_tag. cbn [Z.eqb].
  destruct st as [v cp s b lo hi cs]. cbn [w_value w_cp w_set w_valid w_low w_high w_cs].
  destruct b; cbn [negb]; [|rewrite N2Z.id; reflexivity].
  destruct (negb s && (lo =? 0)%Z && (hi =? -1)%Z); [rewrite N2Z.id; reflexivity|].
  assert (E : (Z.of_N cp <? wrapu 64 lo)%Z || (hi >=? 0)%Z && (Z.of_N cp >? wrapu 64 hi)%Z =
              (cp <? size_t_of_int lo) || (0 <=? hi)%Z && (size_t_of_int hi <? cp)).
  { unfold size_t_of_int, wrapu.
    pose proof (Z.mod_pos_bound lo (2 ^ 64) eq_refl). pose proof (Z.mod_pos_bound hi (2 ^ 64) eq_refl).
    f_equal; [lia|]. f_equal; lia. }
  rewrite E. destruct ((cp <? size_t_of_int lo) || (0 <=? hi)%Z && (size_t_of_int hi <? cp)); rewrite N2Z.id; reflexivity.
Qed.

(* encoding::valid_utf8(value, code_points_) as a function of the incoming count *)
Definition ev8_of (v : list N) (c : Z) : bool * Z :=
  match validate_count true v (Z.to_N c) with VOk n => (true, Z.of_N n) | VBad n => (false, Z.of_N n) | VFuel => (false, 0%Z) end.

Lemma link_text_set_value st v :
  wstep st (OSetValue v) = Some (dec_st st [] v (g_text_set_value (w_cs st) (Z.of_nat (length v)) (ev8_of v) (enc_st st))).
Proof.
  unfold g_text_set_value, enc_st, dec_st, val_of_tag, wstep, setter_count. cbn [Z.eqb].
  destruct (w_cs st); cbn [negb orb fst snd].
  - unfold ev8_of. change (Z.to_N 0) with 0. destruct (validate_count true v 0) as [|n|n]; cbn [fst snd negb];
      try (replace (Z.to_N (Z.of_nat (length v))) with (N.of_nat (length v)) by lia; reflexivity).
    rewrite N2Z.id. reflexivity.
  - replace (Z.to_N (Z.of_nat (length v))) with (N.of_nat (length v)) by lia. reflexivity.
Qed.

Lemma link_widget_clear st : wstep st OClear = Some (dec_st st [] [] (g_widget_clear (enc_st st))).
Proof. unfold g_widget_clear, enc_st, dec_st, val_of_tag. cbn. rewrite N2Z.id. reflexivity. Qed.

(* the constructor: value_, low_, high_, validate_charset_, code_points_ (since the repair eb17578), d *)
Definition cp_name : list Z := [99; 111; 100; 101; 95; 112; 111; 105; 110; 116; 115; 95]%Z.
Lemma link_text_ctor : g_text_ctor_inits =
  [[118; 97; 108; 117; 101; 95]; [108; 111; 119; 95]; [104; 105; 103; 104; 95];
   [118; 97; 108; 105; 100; 97; 116; 101; 95; 99; 104; 97; 114; 115; 101; 116; 95]; cp_name; [100]]%Z.
Proof. reflexivity. Qed.
Lemma ctor_initialises_code_points : existsb (fun n => if list_eq_dec Z.eq_dec n cp_name then true else false) g_text_ctor_inits = true.
Proof. vm_compute. reflexivity. Qed.
(* ... with the values the model's w_fresh has: low_ = 0, high_ = -1, validate_charset_ = true, code_points_ = 0 *)
Lemma link_text_ctor_values :
  g_text_ctor_values = [999; w_low w_fresh; w_high w_fresh; Z.b2z (w_cs w_fresh); Z.of_N (w_cp w_fresh); 999]%Z /\ w_value w_fresh = [].
Proof. split; reflexivity. Qed.
