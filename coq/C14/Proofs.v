(* C14 proofs, part 1: the decoder model against the RFC 3629 grammar. *)
From CppcmsV Require Import Base.Tac C14.Defs C14.Spec.
Local Open Scope N_scope.

(* ---------- leaf characterisations ---------- *)
Lemma trail_length_cases a :
  (trail_length a = 0%Z /\ a < 128) \/
  (trail_length a = (-1)%Z /\ (128 <= a < 194 \/ 244 < a)) \/
  (trail_length a = 1%Z /\ 194 <= a < 224) \/
  (trail_length a = 2%Z /\ 224 <= a < 240) \/
  (trail_length a = 3%Z /\ 240 <= a <= 244).
Proof.
  unfold trail_length.
  destruct (N.ltb_spec a 128); [left; lia|].
  destruct (N.ltb_spec a 194); [right; left; lia|].
  destruct (N.ltb_spec a 224); [right; right; left; lia|].
  destruct (N.ltb_spec a 240); [right; right; right; left; lia|].
  destruct (N.leb_spec a 244); [right; right; right; right; lia|].
  right; left; lia.
Qed.

Lemma trail_length_0 a : a < 128 -> trail_length a = 0%Z.
Proof. intros H. destruct (trail_length_cases a) as [[E R]|[[E R]|[[E R]|[[E R]|[E R]]]]]; try lia; exact E. Qed.
Lemma trail_length_1 a : 194 <= a <= 223 -> trail_length a = 1%Z.
Proof. intros H. destruct (trail_length_cases a) as [[E R]|[[E R]|[[E R]|[[E R]|[E R]]]]]; try lia; exact E. Qed.
Lemma trail_length_2 a : 224 <= a <= 239 -> trail_length a = 2%Z.
Proof. intros H. destruct (trail_length_cases a) as [[E R]|[[E R]|[[E R]|[[E R]|[E R]]]]]; try lia; exact E. Qed.
Lemma trail_length_3 a : 240 <= a <= 244 -> trail_length a = 3%Z.
Proof. intros H. destruct (trail_length_cases a) as [[E R]|[[E R]|[[E R]|[[E R]|[E R]]]]]; try lia; exact E. Qed.

Lemma is_trail_iff t : is_trail t = true <-> tail t.
Proof. unfold is_trail, tail. lia. Qed.

Lemma width_cases c :
  (width c = 1%Z /\ c <= 127) \/ (width c = 2%Z /\ 128 <= c <= 2047) \/
  (width c = 3%Z /\ 2048 <= c <= 65535) \/ (width c = 4%Z /\ 65536 <= c).
Proof.
  unfold width.
  destruct (N.leb_spec c 127); [left; lia|].
  destruct (N.leb_spec c 2047); [right; left; lia|].
  destruct (N.leb_spec c 65535); [right; right; left; lia|].
  right; right; right; lia.
Qed.

Lemma cp_valid_iff c : cp_valid c = true <-> scalar c.
Proof.
  unfold cp_valid, scalar.
  destruct (N.ltb_spec 1114111 c); [split; [discriminate|lia]|].
  destruct (N.leb_spec 55296 c); destruct (N.leb_spec c 57343); cbn [andb]; split; intros; try discriminate; try reflexivity; lia.
Qed.

(* the checks after the switch *)
Lemma finish_Cp html ts c c' :
  finish html ts c = Cp c' <->
  c' = c /\ scalar c /\ width c = (ts + 1)%Z /\ (html = true -> 160 <= c).
Proof.
  unfold finish.
  destruct (cp_valid c) eqn:V; cbn [negb].
  2:{ split; [discriminate|]. intros (_ & S & _). apply cp_valid_iff in S. congruence. }
  apply cp_valid_iff in V.
  destruct (Z.eqb_spec (width c) (ts + 1)) as [W|W]; cbn [negb].
  2:{ split; [discriminate|]. intros (_ & _ & W' & _). contradiction. }
  destruct html; cbn [andb].
  - destruct (N.ltb_spec c 160).
    + split; [discriminate|]. intros (_ & _ & _ & Hh). specialize (Hh eq_refl). lia.
    + split; [intros H'; inversion H'; subst; repeat split; solve [auto|apply V]|]. intros (-> & _). reflexivity.
  - split; [intros H'; inversion H'; subst; repeat split; solve [auto|apply V|discriminate]|]. intros (-> & _). reflexivity.
Qed.

Lemma finish_not_incomplete html ts c : finish html ts c <> Incomplete.
Proof.
  unfold finish. destruct (negb (cp_valid c)); [discriminate|].
  destruct (negb (width c =? ts + 1)%Z); [discriminate|].
  destruct (html && (c <? 160)); discriminate.
Qed.

(* ---------- next: soundness (what it accepts is one ABNF sequence) ---------- *)
Definition not_cp (d : dres) : Prop := forall x, d <> Cp x.

Ltac eof_case eof H Heof :=
  destruct eof; [discriminate H|discriminate H|exfalso; eapply Heof; reflexivity].

Lemma next_sound eof html l c r :
  not_cp eof -> next_gen eof html l = (Cp c, r) ->
  exists e, Seq e c /\ l = e ++ r /\ (html = true -> html_safe c).
Proof.
  intros Heof H.
  destruct l as [|a l]; cbn [next_gen] in H.
  { inversion H. exfalso. eapply Heof; eauto. }
  destruct (trail_length_cases a) as [[E R]|[[E R]|[[E R]|[[E R]|[E R]]]]]; rewrite E in H.
  - (* ASCII *)
    change (0 <? 0)%Z with false in H. change (0 =? 0)%Z with true in H. cbv iota in H.
    destruct (negb html || ascii_html_ok a) eqn:A; inversion H; subst.
    exists [c]. split; [apply Seq1; lia|]. split; [reflexivity|].
    intros ->. cbn [negb orb] in A. unfold ascii_html_ok in A. unfold html_safe. lia.
  - change (-1 <? 0)%Z with true in H. cbv iota in H. discriminate.
  - (* one trail byte *)
    change (1 <? 0)%Z with false in H. change (1 =? 0)%Z with false in H. cbv iota in H.
    change (Z.to_nat 1) with 1%nat in H. cbn [read_trail] in H.
    destruct l as [|t1 l]; [eof_case eof H Heof|].
    destruct (is_trail t1) eqn:T1; [|discriminate].
    apply is_trail_iff in T1. unfold tail in T1.
    inversion H as [[F Hr]]. subst r. apply finish_Cp in F. destruct F as (-> & Sc & W & Hh).
    unfold lead_bits in *. change (2 ^ Z.to_N (6 - 1)) with 32 in *.
    exists [a; t1]. split; [|split; [reflexivity|]].
    + replace (a mod 32 * 64 + t1 mod 64) with ((a - 192) * 64 + (t1 - 128)) by lia.
      apply Seq2; unfold tail; lia.
    + intros ->. specialize (Hh eq_refl). unfold html_safe. lia.
  - (* two trail bytes *)
    change (2 <? 0)%Z with false in H. change (2 =? 0)%Z with false in H. cbv iota in H.
    change (Z.to_nat 2) with 2%nat in H. cbn [read_trail] in H.
    destruct l as [|t1 l]; [eof_case eof H Heof|].
    destruct (is_trail t1) eqn:T1; [|discriminate].
    destruct l as [|t2 l]; [eof_case eof H Heof|].
    destruct (is_trail t2) eqn:T2; [|discriminate].
    apply is_trail_iff in T1. apply is_trail_iff in T2. unfold tail in T1, T2.
    inversion H as [[F Hr]]. subst r. apply finish_Cp in F. destruct F as (-> & Sc & W & Hh).
    unfold lead_bits in *. change (2 ^ Z.to_N (6 - 2)) with 16 in *.
    destruct (width_cases ((a mod 16 * 64 + t1 mod 64) * 64 + t2 mod 64)) as [[W1 Wr]|[[W1 Wr]|[[W1 Wr]|[W1 Wr]]]];
      rewrite W1 in W; try discriminate.
    unfold scalar in Sc.
    exists [a; t1; t2]. split; [|split; [reflexivity|]].
    + assert (a = 224 \/ 225 <= a <= 236 \/ a = 237 \/ 238 <= a <= 239) as Ca by lia.
      destruct Ca as [-> | [Ca | [-> | Ca]]].
      * replace ((224 mod 16 * 64 + t1 mod 64) * 64 + t2 mod 64) with ((t1 - 128) * 64 + (t2 - 128)) in * by lia.
        apply Seq3_E0; unfold tail; lia.
      * replace ((a mod 16 * 64 + t1 mod 64) * 64 + t2 mod 64) with ((a - 224) * 4096 + (t1 - 128) * 64 + (t2 - 128)) by lia.
        apply Seq3_E1_EC; unfold tail; lia.
      * replace ((237 mod 16 * 64 + t1 mod 64) * 64 + t2 mod 64) with (13 * 4096 + (t1 - 128) * 64 + (t2 - 128)) in * by lia.
        apply Seq3_ED; unfold tail; lia.
      * replace ((a mod 16 * 64 + t1 mod 64) * 64 + t2 mod 64) with ((a - 224) * 4096 + (t1 - 128) * 64 + (t2 - 128)) by lia.
        apply Seq3_EE_EF; unfold tail; lia.
    + intros _. unfold html_safe. lia.
  - (* three trail bytes *)
    change (3 <? 0)%Z with false in H. change (3 =? 0)%Z with false in H. cbv iota in H.
    change (Z.to_nat 3) with 3%nat in H. cbn [read_trail] in H.
    destruct l as [|t1 l]; [eof_case eof H Heof|].
    destruct (is_trail t1) eqn:T1; [|discriminate].
    destruct l as [|t2 l]; [eof_case eof H Heof|].
    destruct (is_trail t2) eqn:T2; [|discriminate].
    destruct l as [|t3 l]; [eof_case eof H Heof|].
    destruct (is_trail t3) eqn:T3; [|discriminate].
    apply is_trail_iff in T1. apply is_trail_iff in T2. apply is_trail_iff in T3. unfold tail in T1, T2, T3.
    inversion H as [[F Hr]]. subst r. apply finish_Cp in F. destruct F as (-> & Sc & W & Hh).
    unfold lead_bits in *. change (2 ^ Z.to_N (6 - 3)) with 8 in *.
    destruct (width_cases (((a mod 8 * 64 + t1 mod 64) * 64 + t2 mod 64) * 64 + t3 mod 64)) as [[W1 Wr]|[[W1 Wr]|[[W1 Wr]|[W1 Wr]]]];
      rewrite W1 in W; try discriminate.
    unfold scalar in Sc.
    exists [a; t1; t2; t3]. split; [|split; [reflexivity|]].
    + assert (a = 240 \/ 241 <= a <= 243 \/ a = 244) as Ca by lia.
      destruct Ca as [-> | [Ca | ->]].
      * replace (((240 mod 8 * 64 + t1 mod 64) * 64 + t2 mod 64) * 64 + t3 mod 64)
          with ((t1 - 128) * 4096 + (t2 - 128) * 64 + (t3 - 128)) in * by lia.
        apply Seq4_F0; unfold tail; lia.
      * replace (((a mod 8 * 64 + t1 mod 64) * 64 + t2 mod 64) * 64 + t3 mod 64)
          with ((a - 240) * 262144 + (t1 - 128) * 4096 + (t2 - 128) * 64 + (t3 - 128)) by lia.
        apply Seq4_F1_F3; unfold tail; lia.
      * replace (((244 mod 8 * 64 + t1 mod 64) * 64 + t2 mod 64) * 64 + t3 mod 64)
          with (4 * 262144 + (t1 - 128) * 4096 + (t2 - 128) * 64 + (t3 - 128)) in * by lia.
        apply Seq4_F4; unfold tail; lia.
    + intros _. unfold html_safe. lia.
Qed.

(* ---------- next: completeness (every ABNF sequence is accepted, with its scalar value) ---------- *)
Lemma finish_intro html ts c :
  scalar c -> width c = (ts + 1)%Z -> (html = true -> 160 <= c) -> finish html ts c = Cp c.
Proof. intros. apply finish_Cp. auto. Qed.

Lemma is_trail_true t : tail t -> is_trail t = true.
Proof. apply is_trail_iff. Qed.

Lemma width_1 c : c <= 127 -> width c = 1%Z.
Proof. intros. destruct (width_cases c) as [[W R]|[[W R]|[[W R]|[W R]]]]; try lia; exact W. Qed.
Lemma width_2 c : 128 <= c <= 2047 -> width c = 2%Z.
Proof. intros. destruct (width_cases c) as [[W R]|[[W R]|[[W R]|[W R]]]]; try lia; exact W. Qed.
Lemma width_3 c : 2048 <= c <= 65535 -> width c = 3%Z.
Proof. intros. destruct (width_cases c) as [[W R]|[[W R]|[[W R]|[W R]]]]; try lia; exact W. Qed.
Lemma width_4 c : 65536 <= c -> width c = 4%Z.
Proof. intros. destruct (width_cases c) as [[W R]|[[W R]|[[W R]|[W R]]]]; try lia; exact W. Qed.

Ltac step_trail :=
  match goal with
  | H : tail ?t |- context[is_trail ?t] => rewrite (is_trail_true t H)
  end.

Lemma next_complete eof html e c r :
  Seq e c -> (html = true -> html_safe c) -> next_gen eof html (e ++ r) = (Cp c, r).
Proof.
  intros S Hh. unfold html_safe in Hh.
  destruct S; cbn [app next_gen].
  - (* UTF8-1 *)
    rewrite (trail_length_0 a) by lia.
    change (0 <? 0)%Z with false. change (0 =? 0)%Z with true. cbv iota.
    replace (negb html || ascii_html_ok a) with true; [reflexivity|].
    destruct html; [|reflexivity]. specialize (Hh eq_refl). unfold ascii_html_ok. cbn [negb orb]. lia.
  - (* UTF8-2 *)
    rewrite (trail_length_1 a) by lia.
    change (1 <? 0)%Z with false. change (1 =? 0)%Z with false. cbv iota.
    change (Z.to_nat 1) with 1%nat. cbn [read_trail]. repeat step_trail.
    unfold lead_bits. change (2 ^ Z.to_N (6 - 1)) with 32. unfold tail in *.
    replace (a mod 32 * 64 + b mod 64) with ((a - 192) * 64 + (b - 128)) by lia.
    rewrite finish_intro; [reflexivity|unfold scalar; lia|apply width_2; lia|intros ->; specialize (Hh eq_refl); lia].
  - (* E0 A0-BF tail *)
    change (trail_length 224) with 2%Z.
    change (2 <? 0)%Z with false. change (2 =? 0)%Z with false. cbv iota.
    change (Z.to_nat 2) with 2%nat. cbn [read_trail].
    rewrite (is_trail_true b) by (unfold tail in *; lia). repeat step_trail.
    unfold lead_bits. change (2 ^ Z.to_N (6 - 2)) with 16. unfold tail in *.
    replace ((224 mod 16 * 64 + b mod 64) * 64 + c mod 64) with ((b - 128) * 64 + (c - 128)) by lia.
    rewrite finish_intro; [reflexivity|unfold scalar; lia|apply width_3; lia|lia].
  - (* E1-EC *)
    rewrite (trail_length_2 a) by lia.
    change (2 <? 0)%Z with false. change (2 =? 0)%Z with false. cbv iota.
    change (Z.to_nat 2) with 2%nat. cbn [read_trail]. repeat step_trail.
    unfold lead_bits. change (2 ^ Z.to_N (6 - 2)) with 16. unfold tail in *.
    replace ((a mod 16 * 64 + b mod 64) * 64 + c mod 64) with ((a - 224) * 4096 + (b - 128) * 64 + (c - 128)) by lia.
    rewrite finish_intro; [reflexivity|unfold scalar; lia|apply width_3; lia|lia].
  - (* ED 80-9F tail *)
    change (trail_length 237) with 2%Z.
    change (2 <? 0)%Z with false. change (2 =? 0)%Z with false. cbv iota.
    change (Z.to_nat 2) with 2%nat. cbn [read_trail].
    rewrite (is_trail_true b) by (unfold tail in *; lia). repeat step_trail.
    unfold lead_bits. change (2 ^ Z.to_N (6 - 2)) with 16. unfold tail in *.
    replace ((237 mod 16 * 64 + b mod 64) * 64 + c mod 64) with (13 * 4096 + (b - 128) * 64 + (c - 128)) by lia.
    rewrite finish_intro; [reflexivity|unfold scalar; lia|apply width_3; lia|lia].
  - (* EE-EF *)
    rewrite (trail_length_2 a) by lia.
    change (2 <? 0)%Z with false. change (2 =? 0)%Z with false. cbv iota.
    change (Z.to_nat 2) with 2%nat. cbn [read_trail]. repeat step_trail.
    unfold lead_bits. change (2 ^ Z.to_N (6 - 2)) with 16. unfold tail in *.
    replace ((a mod 16 * 64 + b mod 64) * 64 + c mod 64) with ((a - 224) * 4096 + (b - 128) * 64 + (c - 128)) by lia.
    rewrite finish_intro; [reflexivity|unfold scalar; lia|apply width_3; lia|lia].
  - (* F0 90-BF *)
    change (trail_length 240) with 3%Z.
    change (3 <? 0)%Z with false. change (3 =? 0)%Z with false. cbv iota.
    change (Z.to_nat 3) with 3%nat. cbn [read_trail].
    rewrite (is_trail_true b) by (unfold tail in *; lia). repeat step_trail.
    unfold lead_bits. change (2 ^ Z.to_N (6 - 3)) with 8. unfold tail in *.
    replace (((240 mod 8 * 64 + b mod 64) * 64 + c mod 64) * 64 + d mod 64)
      with ((b - 128) * 4096 + (c - 128) * 64 + (d - 128)) by lia.
    rewrite finish_intro; [reflexivity|unfold scalar; lia|apply width_4; lia|lia].
  - (* F1-F3 *)
    rewrite (trail_length_3 a) by lia.
    change (3 <? 0)%Z with false. change (3 =? 0)%Z with false. cbv iota.
    change (Z.to_nat 3) with 3%nat. cbn [read_trail]. repeat step_trail.
    unfold lead_bits. change (2 ^ Z.to_N (6 - 3)) with 8. unfold tail in *.
    replace (((a mod 8 * 64 + b mod 64) * 64 + c mod 64) * 64 + d mod 64)
      with ((a - 240) * 262144 + (b - 128) * 4096 + (c - 128) * 64 + (d - 128)) by lia.
    rewrite finish_intro; [reflexivity|unfold scalar; lia|apply width_4; lia|lia].
  - (* F4 80-8F *)
    change (trail_length 244) with 3%Z.
    change (3 <? 0)%Z with false. change (3 =? 0)%Z with false. cbv iota.
    change (Z.to_nat 3) with 3%nat. cbn [read_trail].
    rewrite (is_trail_true b) by (unfold tail in *; lia). repeat step_trail.
    unfold lead_bits. change (2 ^ Z.to_N (6 - 3)) with 8. unfold tail in *.
    replace (((244 mod 8 * 64 + b mod 64) * 64 + c mod 64) * 64 + d mod 64)
      with (4 * 262144 + (b - 128) * 4096 + (c - 128) * 64 + (d - 128)) by lia.
    rewrite finish_intro; [reflexivity|unfold scalar; lia|apply width_4; lia|lia].
Qed.

Lemma not_cp_Illegal : not_cp Illegal.  Proof. intros x; discriminate. Qed.
Lemma not_cp_Incomplete : not_cp Incomplete.  Proof. intros x; discriminate. Qed.

Lemma next_spec eof html l c r :
  not_cp eof ->
  (next_gen eof html l = (Cp c, r) <->
   exists e, Seq e c /\ l = e ++ r /\ (html = true -> html_safe c)).
Proof.
  intros Heof. split.
  - apply next_sound; assumption.
  - intros (e & S & -> & Hh). apply next_complete; assumption.
Qed.

(* ---------- facts about the grammar itself ---------- *)
Lemma Seq_scalar e c : Seq e c -> scalar c.
Proof. intros S. unfold scalar. destruct S; unfold tail in *; lia. Qed.

Lemma Seq_nonempty e c : Seq e c -> e <> [].
Proof. intros S. destruct S; discriminate. Qed.

Lemma Seq_length e c : Seq e c -> (1 <= length e <= 4)%nat.
Proof. intros S. destruct S; cbn; lia. Qed.

Lemma Seq_bytes e c : Seq e c -> Forall (fun b => b < 256) e.
Proof. intros S. destruct S; unfold tail in *; repeat constructor; lia. Qed.

(* shortest form: the sequence is exactly the RFC 3629 section 3 encoding of its scalar value *)
Lemma Seq_is_rfc_encode e c : Seq e c -> e = rfc_encode c.
Proof.
  intros S. unfold rfc_encode.
  destruct S; unfold tail in *.
  - replace (a <=? 127) with true by lia. reflexivity.
  - replace (_ <=? 127) with false by lia. replace (_ <=? 2047) with true by lia.
    f_equal; [|f_equal]; lia.
  - replace (_ <=? 127) with false by lia. replace (_ <=? 2047) with false by lia. replace (_ <=? 65535) with true by lia.
    f_equal; [|f_equal; [|f_equal]]; lia.
  - replace (_ <=? 127) with false by lia. replace (_ <=? 2047) with false by lia. replace (_ <=? 65535) with true by lia.
    f_equal; [|f_equal; [|f_equal]]; lia.
  - replace (_ <=? 127) with false by lia. replace (_ <=? 2047) with false by lia. replace (_ <=? 65535) with true by lia.
    f_equal; [|f_equal; [|f_equal]]; lia.
  - replace (_ <=? 127) with false by lia. replace (_ <=? 2047) with false by lia. replace (_ <=? 65535) with true by lia.
    f_equal; [|f_equal; [|f_equal]]; lia.
  - replace (_ <=? 127) with false by lia. replace (_ <=? 2047) with false by lia. replace (_ <=? 65535) with false by lia.
    f_equal; [|f_equal; [|f_equal; [|f_equal]]]; lia.
  - replace (_ <=? 127) with false by lia. replace (_ <=? 2047) with false by lia. replace (_ <=? 65535) with false by lia.
    f_equal; [|f_equal; [|f_equal; [|f_equal]]]; lia.
  - replace (_ <=? 127) with false by lia. replace (_ <=? 2047) with false by lia. replace (_ <=? 65535) with false by lia.
    f_equal; [|f_equal; [|f_equal; [|f_equal]]]; lia.
Qed.

(* every scalar value has an ABNF sequence: its RFC encoding *)
Lemma rfc_encode_Seq c : scalar c -> Seq (rfc_encode c) c.
Proof.
  intros [Hm Hs]. unfold rfc_encode.
  destruct (N.leb_spec c 127); [apply Seq1; lia|].
  destruct (N.leb_spec c 2047).
  { replace c with ((192 + c / 64 - 192) * 64 + (128 + c mod 64 - 128)) at 3 by lia.
    apply Seq2; unfold tail; lia. }
  destruct (N.leb_spec c 65535).
  { assert (c / 4096 = 0 \/ 1 <= c / 4096 <= 12 \/ c / 4096 = 13 \/ 14 <= c / 4096 <= 15) as Ca by lia.
    destruct Ca as [Ca | [Ca | [Ca | Ca]]].
    - rewrite Ca. change (224 + 0) with 224.
      replace c with ((128 + (c / 64) mod 64 - 128) * 64 + (128 + c mod 64 - 128)) at 3 by lia.
      apply Seq3_E0; unfold tail; lia.
    - replace c with ((224 + c / 4096 - 224) * 4096 + (128 + (c / 64) mod 64 - 128) * 64 + (128 + c mod 64 - 128)) at 4 by lia.
      apply Seq3_E1_EC; unfold tail; lia.
    - rewrite Ca. change (224 + 13) with 237.
      replace c with (13 * 4096 + (128 + (c / 64) mod 64 - 128) * 64 + (128 + c mod 64 - 128)) at 3 by lia.
      apply Seq3_ED; unfold tail; lia.
    - replace c with ((224 + c / 4096 - 224) * 4096 + (128 + (c / 64) mod 64 - 128) * 64 + (128 + c mod 64 - 128)) at 4 by lia.
      apply Seq3_EE_EF; unfold tail; lia. }
  assert (c / 262144 = 0 \/ 1 <= c / 262144 <= 3 \/ c / 262144 = 4) as Ca by lia.
  destruct Ca as [Ca | [Ca | Ca]].
  - rewrite Ca. change (240 + 0) with 240.
    replace c with ((128 + (c / 4096) mod 64 - 128) * 4096 + (128 + (c / 64) mod 64 - 128) * 64 + (128 + c mod 64 - 128)) at 4 by lia.
    apply Seq4_F0; unfold tail; lia.
  - replace c with ((240 + c / 262144 - 240) * 262144 + (128 + (c / 4096) mod 64 - 128) * 4096
                    + (128 + (c / 64) mod 64 - 128) * 64 + (128 + c mod 64 - 128)) at 5 by lia.
    apply Seq4_F1_F3; unfold tail; lia.
  - rewrite Ca. change (240 + 4) with 244.
    replace c with (4 * 262144 + (128 + (c / 4096) mod 64 - 128) * 4096
                    + (128 + (c / 64) mod 64 - 128) * 64 + (128 + c mod 64 - 128)) at 4 by lia.
    apply Seq4_F4; unfold tail; lia.
Qed.

Lemma Seq_iff_rfc_encode e c : Seq e c <-> (scalar c /\ e = rfc_encode c).
Proof.
  split.
  - intros S. split; [eapply Seq_scalar; eauto|apply Seq_is_rfc_encode; exact S].
  - intros [Sc ->]. apply rfc_encode_Seq. exact Sc.
Qed.

Lemma encode_is_rfc_encode c : encode c = rfc_encode c.
Proof.
  unfold encode, rfc_encode.
  destruct (c <=? 127); [reflexivity|].
  destruct (c <=? 2047); [f_equal; [|f_equal]; lia|].
  destruct (c <=? 65535); [f_equal; [|f_equal; [|f_equal]]; lia|].
  f_equal; [|f_equal; [|f_equal; [|f_equal]]]; lia.
Qed.

Lemma Seq_width e c : Seq e c -> Z.of_nat (length e) = width c.
Proof.
  intros S. destruct S; cbn [length]; unfold tail in *; symmetry;
    first [apply width_1; lia|apply width_2; lia|apply width_3; lia|apply width_4; lia].
Qed.

(* the grammar is prefix-free and unambiguous (read off from the decoder being a function) *)
Lemma Seq_deterministic e c r e' c' r' :
  Seq e c -> Seq e' c' -> e ++ r = e' ++ r' -> e = e' /\ c = c' /\ r = r'.
Proof.
  intros S S' E.
  pose proof (next_complete Illegal false e c r S ltac:(discriminate)) as N1.
  pose proof (next_complete Illegal false e' c' r' S' ltac:(discriminate)) as N2.
  rewrite E in N1. rewrite N1 in N2. inversion N2; subst.
  split; [|split; reflexivity]. eapply app_inv_tail. exact E.
Qed.

(* ---------- whole-string validation ---------- *)
Lemma next_consumes eof html l c r :
  not_cp eof -> next_gen eof html l = (Cp c, r) -> (length r < length l)%nat.
Proof.
  intros Heof H. apply next_sound in H; [|exact Heof].
  destruct H as (e & S & -> & _). rewrite app_length.
  pose proof (Seq_length e c S). lia.
Qed.

Lemma validate_f_sound fuel : forall html l cnt n,
  validate_f fuel html l cnt = VOk n ->
  exists cps, WF l cps /\ (html = true -> Forall html_safe cps) /\ n = cnt + N.of_nat (length cps).
Proof.
  induction fuel as [|f IH]; intros html l cnt n H.
  - destruct l; cbn [validate_f] in H; [|discriminate].
    inversion H; subst. exists []. split; [constructor|]. split; [constructor|]. cbn. lia.
  - destruct l as [|b l]; cbn [validate_f] in H.
    + inversion H; subst. exists []. split; [constructor|]. split; [constructor|]. cbn. lia.
    + destruct (cppcms_next html (b :: l)) as [d r] eqn:Nx.
      destruct d as [| |c]; try discriminate.
      apply IH in H. destruct H as (cps & W & Hh & ->).
      unfold cppcms_next in Nx. apply next_sound in Nx; [|exact not_cp_Illegal].
      destruct Nx as (e & S & -> & Hc).
      exists (c :: cps). split; [constructor; assumption|]. split.
      * intros Ht. constructor; auto.
      * cbn [length]. lia.
Qed.

Lemma validate_f_complete html l cps :
  WF l cps -> (html = true -> Forall html_safe cps) ->
  forall fuel cnt, (length l <= fuel)%nat -> validate_f fuel html l cnt = VOk (cnt + N.of_nat (length cps)).
Proof.
  intros W. induction W as [|e c s cps S W IH]; intros Hh fuel cnt Hf.
  - destruct fuel; cbn; f_equal; lia.
  - pose proof (Seq_length e c S) as Le. rewrite app_length in Hf.
    destruct fuel as [|f]; [lia|].
    assert (exists b t, e ++ s = b :: t) as (b & t & Eb).
    { destruct e as [|b e]; [cbn in Le; lia|]. exists b, (e ++ s). reflexivity. }
    cbn [validate_f]. rewrite Eb. cbn [validate_f]. rewrite <- Eb.
    unfold cppcms_next. rewrite (next_complete Illegal html e c s S).
    2:{ intros Ht. specialize (Hh Ht). inversion Hh; assumption. }
    rewrite IH.
    + f_equal. cbn [length]. lia.
    + intros Ht. specialize (Hh Ht). inversion Hh; assumption.
    + lia.
Qed.

Lemma validate_f_fuel fuel : forall html l cnt, (length l <= fuel)%nat -> validate_f fuel html l cnt <> VFuel.
Proof.
  induction fuel as [|f IH]; intros html l cnt Hf.
  - destruct l; [cbn; discriminate|cbn in Hf; lia].
  - destruct l as [|b l]; [cbn; discriminate|].
    cbn [validate_f]. destruct (cppcms_next html (b :: l)) as [d r] eqn:Nx.
    destruct d as [| |c]; try discriminate.
    apply IH. apply next_consumes in Nx; [|exact not_cp_Illegal]. cbn [length] in *. lia.
Qed.

Lemma validate_fuel html l cnt : validate_count html l cnt <> VFuel.
Proof. apply validate_f_fuel. lia. Qed.

Lemma WF_unique l cps : WF l cps -> forall cps', WF l cps' -> cps = cps'.
Proof.
  intros W. induction W as [|e c s cps S W IH]; intros cps' W'.
  - remember [] as l eqn:El.
    destruct W' as [|e' c' s' cps'' S' W'']; [reflexivity|].
    apply app_eq_nil in El. destruct El as [E _]. apply Seq_nonempty in S'. contradiction.
  - remember (e ++ s) as l eqn:El.
    destruct W' as [|e' c' s' cps'' S' W''].
    + symmetry in El. apply app_eq_nil in El. destruct El as [E _]. apply Seq_nonempty in S. contradiction.
    + symmetry in El. destruct (Seq_deterministic e c s e' c' s' S S' El) as (-> & -> & ->).
      f_equal. apply IH. exact W''.
Qed.

Lemma validate_count_iff html l cnt n :
  validate_count html l cnt = VOk n <->
  exists cps, WF l cps /\ (html = true -> Forall html_safe cps) /\ n = cnt + N.of_nat (length cps).
Proof.
  split.
  - apply validate_f_sound.
  - intros (cps & W & Hh & ->). apply validate_f_complete; auto.
Qed.

Lemma validate_iff html l :
  validate html l = true <-> exists cps, WF l cps /\ (html = true -> Forall html_safe cps).
Proof.
  unfold validate. split.
  - destruct (validate_count html l 0) as [| |n] eqn:V; try discriminate. intros _.
    apply validate_count_iff in V. destruct V as (cps & W & Hh & _). exists cps. auto.
  - intros (cps & W & Hh).
    assert (validate_count html l 0 = VOk (0 + N.of_nat (length cps))) as V
      by (apply validate_count_iff; exists cps; auto).
    rewrite V. reflexivity.
Qed.

(* the reported count is the number of code points (of the unique decomposition), added to the incoming count *)
Lemma count_exact html l cnt n cps :
  validate_count html l cnt = VOk n -> WF l cps -> n = cnt + N.of_nat (length cps).
Proof.
  intros V W. apply validate_count_iff in V. destruct V as (cps' & W' & _ & ->).
  rewrite (WF_unique l cps W cps' W'). reflexivity.
Qed.

(* a rejected string: the count that is left is the number of code points before the first bad one *)
Lemma validate_count_total html l cnt :
  (exists n, validate_count html l cnt = VOk n) \/ (exists n, validate_count html l cnt = VBad n).
Proof.
  destruct (validate_count html l cnt) as [| |n] eqn:V.
  - exfalso. eapply validate_fuel; eauto.
  - right; eauto.
  - left; eauto.
Qed.

(* validity is compositional: a concatenation is valid iff ... (one direction needs no side condition) *)
Lemma WF_app a cpa b cpb : WF a cpa -> WF b cpb -> WF (a ++ b) (cpa ++ cpb).
Proof.
  intros Wa Wb. induction Wa as [|e c s cps S W IH]; [exact Wb|].
  rewrite <- app_assoc. cbn [app]. constructor; assumption.
Qed.

Lemma validate_app html a b : validate html a = true -> validate html b = true -> validate html (a ++ b) = true.
Proof.
  intros Va Vb. apply validate_iff in Va. apply validate_iff in Vb. apply validate_iff.
  destruct Va as (ca & Wa & Ha). destruct Vb as (cb & Wb & Hb).
  exists (ca ++ cb). split; [apply WF_app; assumption|].
  intros Ht. apply Forall_app. auto.
Qed.
